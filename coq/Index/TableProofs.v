(* C15 proofs: what the index tables hold, over every history.
   - a reduced cell is 0 (invalid), the preserved unsorted mark, or designates the SAME byte as before
     (never another position);
   - every cell of every table, and nextToUpdate, stay at or below the current index through every
     operation of every history (so a stale cell can never be "in the future" of the window);
   - the same for the LDM hash table while the bytes go through its chunk step. *)
From Coq Require Import ZArith Lia Bool List.
From ZV.Index Require Import Window Reduce Overflow History OverflowProofs ReduceProofs CorrectProofs
     WindowProofs HistoryProofs.
Import ListNotations.
Local Open Scope Z_scope.
Ltac Zify.zify_post_hook ::= Z.div_mod_to_equations.

(* ------------------------------------------------------------------------------------------
   one cell
   ------------------------------------------------------------------------------------------ *)
Lemma reduce_cell_never_moves_lemma :
  forall r pm e (b b' : Z),
    0 <= e < two32 -> 0 <= r -> r + START < two32 -> b' = b + r ->
    let e' := reduce_cell r pm e in
    e' = 0 \/ (pm = true /\ e = DUBT_UNSORTED_MARK /\ e' = DUBT_UNSORTED_MARK) \/
    (START <= e' /\ e' = e - r /\ b' + e' = b + e).
Proof.
  intros r pm e b b' He Hr Hrs Hb. cbv zeta. rewrite reduce_cell_spec by assumption.
  destruct pm; cbn [andb].
  - destruct (Z.eqb_spec e DUBT_UNSORTED_MARK).
    + right; left. repeat split; assumption.
    + destruct (Z.ltb_spec e (r + START)); [left; reflexivity | right; right; lia].
  - destruct (Z.ltb_spec e (r + START)); [left; reflexivity | right; right; lia].
Qed.

Lemma ldm_reduce_cell_never_moves_lemma :
  forall r e (b b' : Z),
    0 <= e < two32 -> 0 <= r -> b' = b + r ->
    let e' := ldm_reduce_cell r e in
    e' = 0 \/ (e' = e - r /\ b' + e' = b + e).
Proof.
  intros r e b b' He Hr Hb. cbv zeta. unfold ldm_reduce_cell.
  destruct (Z.ltb_spec e r); [left; reflexivity|]. right. rewrite u32_small by lia. lia.
Qed.

Lemma reduce_cell_le r pm e c :
  0 <= e <= c -> c < two32 -> 0 <= r -> r + START < two32 -> DUBT_UNSORTED_MARK <= c - r ->
  0 <= reduce_cell r pm e <= c - r.
Proof.
  intros He Hc Hr Hrs Hm. rewrite reduce_cell_spec by lia.
  destruct (pm && (e =? DUBT_UNSORTED_MARK)); [revert Hm; consts; lia|].
  destruct (Z.ltb_spec e (r + START)); revert Hm; consts; lia.
Qed.

Lemma ldm_reduce_cell_le r e c :
  0 <= e <= c -> c < two32 -> 0 <= r <= c -> 0 <= ldm_reduce_cell r e <= c - r.
Proof.
  intros He Hc Hr. unfold ldm_reduce_cell.
  destruct (Z.ltb_spec e r); [lia|]. rewrite u32_small by lia. lia.
Qed.

(* ------------------------------------------------------------------------------------------
   whole tables
   ------------------------------------------------------------------------------------------ *)
Definition tbl_le (c : Z) (t : list Z) : Prop := Forall (fun e => 0 <= e <= c) t.

Definition tables_le (c : Z) (t : tables) : Prop :=
  tbl_le c (hashTable t) /\ tbl_le c (chainTable t) /\ tbl_le c (hashTable3 t).

Lemma tbl_le_weaken c c' t : c <= c' -> tbl_le c t -> tbl_le c' t.
Proof. intros Hc H. unfold tbl_le in *. eapply Forall_impl; [|exact H]. cbv beta. intros. lia. Qed.

Lemma tables_le_weaken c c' t : c <= c' -> tables_le c t -> tables_le c' t.
Proof. intros Hc (A & B & C). repeat split; eapply tbl_le_weaken; eassumption. Qed.

Lemma tbl_le_zero c t : 0 <= c -> tbl_le c (zero_table t).
Proof.
  intro Hc. unfold tbl_le, zero_table. apply Forall_forall. intros e Hin.
  apply in_map_iff in Hin. destruct Hin as (x & <- & _). lia.
Qed.

(* a table as the library carves it: 2^lg cells, lg >= 4 (so the row batching covers every cell) *)
Definition pow2_len (t : list Z) (lg : Z) : Prop := 4 <= lg <= 30 /\ Z.of_nat (length t) = 2 ^ lg.

Definition tables_sized (p : cparams) (h3 : Z) (dds : bool) (t : tables) : Prop :=
  pow2_len (hashTable t) (p_hashLog p) /\
  (if allocateChainTable (p_strategy p) (p_useRow p) dds then pow2_len (chainTable t) (p_chainLog p)
   else chainTable t = []) /\
  (if h3 =? 0 then hashTable3 t = [] else pow2_len (hashTable3 t) h3).

Lemma reduce_full t lg r pm :
  pow2_len t lg -> reduceTable_internal t (u32 (Z.shiftl 1 lg)) r pm = map (reduce_cell r pm) t.
Proof.
  intros [Hlg Hlen]. unfold reduceTable_internal. rewrite reduce_rows_spec.
  rewrite shiftl1 by lia.
  assert (Hp : 2 ^ lg = 16 * 2 ^ (lg - 4)).
  { replace lg with (4 + (lg - 4)) at 1 by lia. rewrite Z.pow_add_r by lia. reflexivity. }
  assert (Hpos : 0 < 2 ^ (lg - 4)) by (apply Z.pow_pos_nonneg; lia).
  assert (Hlt : 2 ^ lg < two32).
  { pose proof (pow2_mono lg 30 ltac:(lia)). rewrite pow2_30 in *. consts. lia. }
  rewrite u32_small by lia.
  assert (Hdiv : 2 ^ lg / ROWSIZE = 2 ^ (lg - 4)).
  { consts. rewrite Hp. rewrite Z.mul_comm, Z.div_mul by lia. reflexivity. }
  assert (Hn : (Z.to_nat (2 ^ lg / ROWSIZE) * Z.to_nat ROWSIZE)%nat = length t).
  { apply Nat2Z.inj. rewrite Nat2Z.inj_mul, Hdiv. rewrite !Z2Nat.id by (consts; lia). rewrite Hlen, Hp. consts. lia. }
  rewrite Hn, firstn_all, skipn_all, app_nil_r. reflexivity.
Qed.

Lemma map_reduce_le c r pm t :
  tbl_le c t -> c < two32 -> 0 <= r -> r + START < two32 -> DUBT_UNSORTED_MARK <= c - r ->
  tbl_le (c - r) (map (reduce_cell r pm) t).
Proof.
  intros Ht Hc Hr Hrs Hm. unfold tbl_le in *. apply Forall_forall. intros e' Hin.
  apply in_map_iff in Hin. destruct Hin as (e & <- & Hin).
  rewrite Forall_forall in Ht. apply reduce_cell_le; auto.
Qed.

Lemma pow2_len_map f t lg : pow2_len t lg -> pow2_len (map f t) lg.
Proof. intros [A B]. split; [exact A|]. rewrite map_length. exact B. Qed.

(* ZSTD_reduceIndex keeps every cell at or below the rebased current index *)
Lemma reduceIndex_le :
  forall t h3 dds p r c,
    tables_sized p h3 dds t -> tables_le c t -> c < two32 -> 0 <= r -> r + START < two32 ->
    DUBT_UNSORTED_MARK <= c - r ->
    tables_le (c - r) (reduceIndex t h3 dds p r) /\ tables_sized p h3 dds (reduceIndex t h3 dds p r).
Proof.
  intros t h3 dds p r c (Sh & Sc & S3) (Lh & Lc & L3) Hc Hr Hrs Hm.
  unfold reduceIndex, tables_le, tables_sized. cbn [hashTable chainTable hashTable3].
  rewrite (reduce_full _ _ _ _ Sh).
  split; [split; [|split] | split; [|split]].
  - apply map_reduce_le; assumption.
  - destruct (allocateChainTable (p_strategy p) (p_useRow p) dds).
    + rewrite (reduce_full _ _ _ _ Sc). apply map_reduce_le; assumption.
    + rewrite Sc. constructor.
  - destruct (Z.eqb_spec h3 0) as [E|E]; cbn [negb].
    + rewrite S3. constructor.
    + rewrite (reduce_full _ _ _ _ S3). apply map_reduce_le; assumption.
  - apply pow2_len_map. exact Sh.
  - destruct (allocateChainTable (p_strategy p) (p_useRow p) dds).
    + rewrite (reduce_full _ _ _ _ Sc). apply pow2_len_map. exact Sc.
    + exact Sc.
  - destruct (Z.eqb_spec h3 0) as [E|E]; cbn [negb].
    + exact S3.
    + rewrite (reduce_full _ _ _ _ S3). apply pow2_len_map. exact S3.
Qed.

(* ------------------------------------------------------------------------------------------
   one ZSTD_overflowCorrectIfNeeded: tables and nextToUpdate stay at or below the index of ip
   ------------------------------------------------------------------------------------------ *)
Lemma ovf_tables :
  forall freq ms p ip iend q B,
    cparams_ok p ->
    let w := ms_window ms in
    0 <= lowLimit w -> lowLimit w <= dictLimit w -> dictLimit w <= ip - base w -> ip - base w <= B ->
    0 <= nbOvf w < two32 -> ip <= q -> 0 <= ms_loadedDictEnd ms <= q - base w ->
    ip <= iend -> iend - base w < two32 ->
    let cl := cycleLog_of (p_chainLog p) (p_strategy p) in
    let wl := p_windowLog p in
    (minIndexToOverflowCorrect cl wl + (iend - ip) <= CURRENT_MAX + 1 \/ iend - ip <= CHUNKSIZE_MAX \/
     iend - base w <= CURRENT_MAX) ->
    tables_sized p (ms_hashLog3 ms) (ms_dds ms) (ms_tables ms) ->
    tables_le (ip - base w) (ms_tables ms) -> 0 <= ms_nextToUpdate ms <= ip - base w ->
    let ms' := fst (overflowCorrectIfNeeded freq ms p ip iend) in
    let w' := ms_window ms' in
    tables_le (ip - base w') (ms_tables ms') /\ 0 <= ms_nextToUpdate ms' <= ip - base w' /\
    tables_sized p (ms_hashLog3 ms') (ms_dds ms') (ms_tables ms') /\
    ms_hashLog3 ms' = ms_hashLog3 ms /\ ms_dds ms' = ms_dds ms.
Proof.
  intros freq ms p ip iend q B Hp w Hl0 Hld Hdc HB Hnb Hq Hlde Hle Hend cl wl Hn Hsz Htl Hntu. cbv zeta.
  pose proof (cycleLog_ok p Hp) as Hpo. fold cl wl in Hpo.
  unfold overflowCorrectIfNeeded. rewrite (maxDist_pow p Hp). fold cl wl w.
  destruct (window_needOverflowCorrection freq w cl (2 ^ wl) (ms_loadedDictEnd ms) ip iend) eqn:Hneed.
  - assert (Hc : 0 <= ip - base w < two32) by lia.
    assert (Hnc : newCurrent_of cl (2 ^ wl) (ip - base w) <= ip - base w).
    { destruct (need_cases _ _ _ _ _ _ _ Hneed) as [[_ Hcan] | Hgt].
      - apply canOverflowCorrect_min in Hcan; try assumption.
        pose proof (newCurrent_lt cl wl (ip - base w) Hpo Hc ltac:(lia)). lia.
      - unfold idx in Hgt. rewrite u32_small in Hgt by lia.
        destruct Hn as [Hn|[Hn|Hn]].
        + pose proof (newCurrent_lt cl wl (ip - base w) Hpo Hc ltac:(lia)). lia.
        + apply chunk_newCurrent_le; [assumption|]. lia.
        + lia. }
    assert (Hwb : window_bounded w) by (unfold window_bounded; lia).
    pose proof (correction_preserves_window_gen w cl wl ip Hpo Hwb Hc Hnc) as Hcorr.
    cbv zeta in Hcorr.
    destruct (window_correctOverflow w cl (2 ^ wl) ip) as [w' corr] eqn:Ew.
    destruct Hcorr as (Hc1 & Hc2 & _ & Hc4 & Hc5 & _).
    cbn [fst ms_window ms_tables ms_nextToUpdate ms_hashLog3 ms_dds].
    pose proof (params_pow _ _ Hpo) as [_ Hmd].
    assert (Hrs : corr + START < two32) by (revert Hc4; consts; lia).
    assert (Hm : DUBT_UNSORTED_MARK <= ip - base w - corr) by (revert Hc4; consts; lia).
    destruct (reduceIndex_le (ms_tables ms) (ms_hashLog3 ms) (ms_dds ms) p corr (ip - base w) Hsz Htl
                ltac:(lia) ltac:(lia) Hrs Hm) as [Hr1 Hr2].
    assert (Hge : 1 <= ip - base w - corr) by (revert Hc4; consts; lia).
    rewrite Hc2. split; [exact Hr1|]. split.
    + destruct (Z.ltb_spec (ms_nextToUpdate ms) corr); [lia|]. rewrite u32_small by lia. lia.
    + split; [exact Hr2|]. split; reflexivity.
  - cbn [fst]. fold w. split; [exact Htl|]. split; [exact Hntu|]. split; [exact Hsz|]. split; reflexivity.
Qed.

(* ------------------------------------------------------------------------------------------
   the match state "rests" at address p with every table cell and nextToUpdate at or below idx(p)
   ------------------------------------------------------------------------------------------ *)
Definition ms_tinv (ms : matchState) (p : Z) : Prop :=
  tables_le (p - base (ms_window ms)) (ms_tables ms) /\
  0 <= ms_nextToUpdate ms <= p - base (ms_window ms).

Definition ms_sized (p : cparams) (ms : matchState) : Prop :=
  tables_sized p (ms_hashLog3 ms) (ms_dds ms) (ms_tables ms).

(* ---- one block of ZSTD_compress_frameChunk ---- *)
Lemma frame_block_tinv :
  forall freq h ip bs,
    cparams_ok (h_params h) -> ms_inv (h_ms h) ip CB -> block_ok bs ->
    ms_sized (h_params h) (h_ms h) -> ms_tinv (h_ms h) ip ->
    let h' := frame_block freq h ip bs in
    ms_tinv (h_ms h') (ip + bs) /\ ms_sized (h_params h') (h_ms h').
Proof.
  intros freq h ip bs Hp Hinv Hbs Hsz Ht. cbv zeta. unfold block_ok in Hbs.
  pose proof (cycleLog_ok _ Hp) as Hpo.
  assert (Hend : ip + bs - base (ms_window (h_ms h)) < two32).
  { destruct Hinv as (_ & _ & _ & HB & _). revert HB Hbs. rewrite CB_val. consts. lia. }
  pose proof (ovf_step freq (h_ms h) (h_params h) ip (ip + bs) CB Hp Hinv ltac:(lia) Hend) as Hov.
  cbv zeta in Hov.
  specialize (Hov ltac:(left; pose proof (block_size_condition _ _ Hpo); lia)).
  destruct Hinv as (Il0 & Ild & Idc & IB & Inb & Ilde). destruct Ht as [Htl Hntu].
  pose proof (ovf_tables freq (h_ms h) (h_params h) ip (ip + bs) ip CB Hp Il0 Ild Idc IB Inb ltac:(lia) Ilde
                ltac:(lia) Hend ltac:(left; pose proof (block_size_condition _ _ Hpo); lia) Hsz Htl Hntu) as Hot.
  cbv zeta in Hot.
  unfold frame_block.
  destruct (overflowCorrectIfNeeded freq (h_ms h) (h_params h) ip (ip + bs)) as [ms1 corr1] eqn:Eov.
  cbn [fst] in Hov, Hot. destruct Hov as (Hinv1 & Hb1 & Hns1 & Hcase).
  destruct Hot as (Ht1 & Hn1 & Hs1 & Hh3 & Hdds).
  destruct Hinv1 as (Hl0 & Hld & Hdc & HB & Hnb & Hlde).
  rewrite (maxDist_pow _ Hp).
  set (wl := p_windowLog (h_params h)) in *.
  set (w1 := ms_window ms1) in *.
  assert (Hwl : 0 <= wl <= WINDOWLOG_MAX) by (destruct Hp as [Hw _]; exact Hw).
  assert (Hblk : ip + bs - base w1 <= CURRENT_MAX).
  { destruct Hcase as [[-> Hle]|[Hle _]]; [exact Hle|].
    pose proof (block_size_condition _ _ Hpo). lia. }
  destruct (checkDictValidity w1 (ip + bs) (2 ^ wl) (ms_loadedDictEnd ms1) (ms_dms ms1)) as [lde2 dms2] eqn:Ecd.
  assert (Hlde2 : 0 <= lde2 <= ip - base w1).
  { unfold checkDictValidity in Ecd. destruct (_ || _) in Ecd; inversion Ecd; subst; lia. }
  pose proof (enforceMaxDist_sound_lemma w1 ip wl lde2 dms2 Hwl Hl0 Hld) as Henf. cbv zeta in Henf.
  specialize (Henf Hdc ltac:(revert HB; rewrite CB_val; consts; lia) Hlde2).
  destruct (window_enforceMaxDist w1 ip (2 ^ wl) (Some lde2) (Some dms2)) as [[w3 lde3] dms3] eqn:Eenf.
  destruct Henf as (Hb3 & Hdb3 & Hns3 & Hnb3 & Hlow3 & Hld3 & Hdc3 & Hdd3 & Hcase3).
  set (lde3' := match lde3 with Some v => v | None => lde2 end) in *.
  set (dms3' := match dms3 with Some b => b | None => dms2 end).
  set (ntu := if ms_nextToUpdate ms1 <? lowLimit w3 then lowLimit w3 else ms_nextToUpdate ms1).
  assert (Hntu3 : 0 <= ntu <= ip - base w1).
  { unfold ntu. destruct (Z.ltb_spec (ms_nextToUpdate ms1) (lowLimit w3)); lia. }
  set (ms4 := mkMS w3 lde3' ntu dms3' (ms_hashLog3 ms1) (ms_dds ms1) (ms_tables ms1)).
  assert (Hs4 : ms_sized (h_params h) ms4) by exact Hs1.
  destruct (h_ldm h) as [l|];
    (destruct (block_search_effect (h_params h) ms4 (h_optFirst h) ip bs) as [ms5 first'] eqn:Es;
     cbn [h_ms h_params];
     unfold block_search_effect in Es;
     destruct (bs <? TINY_BLOCK);
     [ inversion Es; subst ms5; split; [|exact Hs4];
       unfold ms_tinv; cbn [ms_window ms_tables ms_nextToUpdate ms4]; rewrite Hb3;
       split; [eapply tables_le_weaken; [|exact Ht1]; lia | lia]
     | match type of Es with context [if ?c then initStats_ultra ms4 bs else ms4] => destruct c eqn:Eu end;
       inversion Es; subst ms5;
       [ apply andb_true_iff in Eu; destruct Eu as [Eu _];
         apply andb_true_iff in Eu; destruct Eu as [Eu Eidx];
         apply Z.eqb_eq in Eidx; cbn [ms_window ms4] in Eidx;
         unfold idx in Eidx; rewrite Hb3 in Eidx;
         rewrite u32_small in Eidx by (revert HB; rewrite CB_val; consts; lia);
         split; [|exact Hs4];
         unfold initStats_ultra, ms_tinv;
         cbn [ms_window ms_tables ms_nextToUpdate ms4 lowLimit dictLimit base nbOvf nextSrc];
         rewrite (u32_small bs) by (revert Hbs; consts; lia);
         rewrite (u32_small (dictLimit w3 + bs)) by (revert Hbs Hblk; consts; lia);
         rewrite Hb3; split; [eapply tables_le_weaken; [|exact Ht1]; lia | lia]
       | split; [|exact Hs4];
         unfold ms_tinv; cbn [ms_window ms_tables ms_nextToUpdate ms4]; rewrite Hb3;
         split; [eapply tables_le_weaken; [|exact Ht1]; lia | lia] ] ]).
Qed.

Lemma ms_tinv_weaken ms p q : p <= q -> ms_tinv ms p -> ms_tinv ms q.
Proof.
  intros Hpq [A B]. split; [eapply tables_le_weaken; [|exact A]; lia | lia].
Qed.

(* ---- all the blocks of one ZSTD_compressContinue_internal ---- *)
Lemma frame_blocks_tinv :
  forall freq blocks h ip,
    cparams_ok (h_params h) -> ms_inv (h_ms h) ip CB -> Forall block_ok blocks ->
    ms_sized (h_params h) (h_ms h) -> ms_tinv (h_ms h) ip ->
    let h' := frame_blocks freq h ip blocks in
    ms_tinv (h_ms h') (ip + sumZ blocks) /\ ms_sized (h_params h') (h_ms h').
Proof.
  intros freq blocks. induction blocks as [|bs rest IH]; intros h ip Hp Hinv Hall Hsz Ht; cbv zeta.
  - cbn [frame_blocks]. unfold sumZ. cbn [fold_left]. rewrite Z.add_0_r. split; assumption.
  - inversion Hall as [|? ? Hbs Hrest]; subst.
    pose proof (frame_block_inv freq h ip bs Hp Hinv Hbs) as Hb. cbv zeta in Hb.
    destruct Hb as (Hinv1 & Hp1 & _).
    pose proof (frame_block_tinv freq h ip bs Hp Hinv Hbs Hsz Ht) as Hb2. cbv zeta in Hb2.
    destruct Hb2 as (Ht1 & Hs1).
    cbn [frame_blocks]. rewrite sumZ_cons.
    set (h1 := frame_block freq h ip bs) in *.
    assert (Hp1' : cparams_ok (h_params h1)) by (rewrite Hp1; exact Hp).
    specialize (IH h1 (ip + bs) Hp1' (ms_inv_weaken _ _ _ _ CB_ge Hinv1) Hrest Hs1 Ht1). cbv zeta in IH.
    replace (ip + (bs + sumZ rest)) with (ip + bs + sumZ rest) by lia. exact IH.
Qed.

(* ---- window update at the top of ZSTD_compressContinue_internal ---- *)
Lemma continue_update_tinv :
  forall h src size,
    Inv h -> 0 < size -> ms_tinv (h_ms h) (nextSrc (ms_window (h_ms h))) ->
    let h' := continue_update h src size in
    ms_tinv (h_ms h') src /\ ms_tables (h_ms h') = ms_tables (h_ms h) /\
    ms_hashLog3 (h_ms h') = ms_hashLog3 (h_ms h) /\ ms_dds (h_ms h') = ms_dds (h_ms h).
Proof.
  intros h src size [Hp Hinv] Hsize [Htl Hntu]. cbv zeta.
  destruct Hinv as (Hl0 & Hld & Hdc & HB & Hnb & Hlde).
  set (w := ms_window (h_ms h)) in *.
  assert (Hwf : window_wf w) by (unfold window_wf; revert HB; rewrite CB_val; consts; lia).
  pose proof (window_update_index_lemma w src size (h_forceNC h) Hwf Hsize) as Hu. cbv zeta in Hu.
  unfold continue_update. fold w.
  destruct (window_update w src size (h_forceNC h)) as [w1 contiguous] eqn:Eu.
  destruct Hu as (Hu1 & Hu2 & Hu3 & Hu4 & Hu5 & Hu6 & _ & _).
  destruct contiguous; cbn [h_ms ms_window ms_tables ms_nextToUpdate ms_hashLog3 ms_dds];
    (split; [|repeat split; reflexivity]); unfold ms_tinv;
    cbn [ms_window ms_tables ms_nextToUpdate]; rewrite Hu2; (split; [exact Htl | lia]).
Qed.

(* ---- index part of ZSTD_resetCCtx_internal / ZSTD_reset_matchState ---- *)
Lemma zero_tables_sized p h3 dds t : tables_sized p h3 dds t -> tables_sized p h3 dds (zero_tables t).
Proof.
  intros (A & B & C). unfold tables_sized, zero_tables. cbn [hashTable chainTable hashTable3].
  split; [apply pow2_len_map; exact A|]. split.
  - destruct (allocateChainTable _ _ _); [apply pow2_len_map; exact B | rewrite B; reflexivity].
  - destruct (h3 =? 0); [rewrite C; reflexivity | apply pow2_len_map; exact C].
Qed.

Lemma reset_tinv :
  forall ms lds forced lit h3,
    ms_inv ms (nextSrc (ms_window ms)) CB -> ms_tinv ms (nextSrc (ms_window ms)) ->
    let ms1 := reset_matchState ms (needsIndexReset (ms_window ms) lds forced) lit h3 in
    ms_tinv ms1 (nextSrc (ms_window ms1)) /\ ms_hashLog3 ms1 = h3 /\ ms_dds ms1 = ms_dds ms /\
    (ms_tables ms1 = ms_tables ms \/ ms_tables ms1 = zero_tables (ms_tables ms)).
Proof.
  intros ms lds forced lit h3 Hinv [Htl Hntu]. cbv zeta.
  destruct Hinv as (Hl0 & Hld & Hdc & HB & Hnb & Hlde).
  set (w := ms_window ms) in *.
  assert (Hc : 0 <= nextSrc w - base w < two32) by (revert HB; rewrite CB_val; consts; lia).
  unfold reset_matchState.
  destruct (needsIndexReset w lds forced).
  - unfold invalidateMatchState, window_clear, window_init, ms_tinv.
    cbn [ms_window nextSrc base dictLimit lowLimit nbOvf ms_tables ms_nextToUpdate ms_hashLog3 ms_dds].
    replace (lit + START - lit) with START by lia.
    rewrite (u64_small START) by (consts; lia). rewrite (u32_small START) by (consts; lia).
    split; [|split; [reflexivity|split; [reflexivity|right; reflexivity]]].
    split; [|consts; lia].
    unfold zero_tables, tables_le. cbn [hashTable chainTable hashTable3].
    repeat split; apply tbl_le_zero; consts; lia.
  - unfold invalidateMatchState, window_clear, ms_tinv.
    cbn [ms_window nextSrc base dictLimit lowLimit nbOvf ms_tables ms_nextToUpdate ms_hashLog3 ms_dds]. fold w.
    rewrite (u64_small _ Hc), (u32_small _ Hc).
    split; [|split; [reflexivity|split; [reflexivity|left; reflexivity]]].
    split; [exact Htl | lia].
Qed.

(* ---- ZSTD_loadDictionaryContent ---- *)
Lemma loadDict_tinv :
  forall freq ms ls p src size fw drp,
    cparams_ok p -> HASH_READ_SIZE <= size ->
    let w := ms_window ms in
    let c := nextSrc w - base w in
    lowLimit w = c -> dictLimit w = c -> 0 <= nbOvf w < two32 -> ms_loadedDictEnd ms = 0 ->
    (c = START \/ (0 <= c <= CURRENT_MAX - INDEXOVERFLOW_MARGIN /\ size <= CHUNKSIZE_MAX)) ->
    ms_sized p ms -> ms_tinv ms (nextSrc w) ->
    let '(ms', _, _, _) := loadDictionaryContent freq ms ls p src size fw drp false in
    ms_tinv ms' (src + size) /\ ms_sized p ms'.
Proof.
  intros freq ms ls p src size fw drp Hp Hsize w c Hlow Hdl Hnb Hlde Hc Hsz [Htl Hntu]. cbv zeta.
  unfold loadDictionaryContent.
  replace (CDictIndicesAreTagged (p_strategy p) && false) with false by (rewrite andb_false_r; reflexivity).
  rewrite (u32_small (CURRENT_MAX - START)) by (consts; lia).
  set (iend := src + size).
  set (maxD := CURRENT_MAX - START).
  assert (Ht1 : exists ip1 size1,
            (if size >? maxD then (iend - maxD, maxD) else (src, size)) = (ip1, size1) /\
            ip1 + size1 = iend /\ HASH_READ_SIZE <= size1 <= size /\ size1 <= maxD).
  { destruct (Z.gtb_spec size maxD).
    - exists (iend - maxD), maxD. unfold maxD in *. revert Hsize H. consts. intros. repeat split; lia.
    - exists src, size. unfold iend. repeat split; lia. }
  destruct Ht1 as (ip1 & size1 & -> & Hi1 & Hs1 & Hm1).
  fold w.
  assert (Hc0 : 0 <= c <= CURRENT_MAX - INDEXOVERFLOW_MARGIN) by (revert Hc; consts; lia).
  assert (Hwf : window_wf w).
  { unfold window_wf. fold c. revert Hc0. consts. lia. }
  pose proof (window_update_index_lemma w ip1 size1 false Hwf ltac:(revert Hs1; consts; lia)) as Hu.
  cbv zeta in Hu. fold c in Hu.
  destruct (window_update w ip1 size1 false) as [w1 cont1] eqn:Eu. cbn [fst].
  destruct Hu as (Hu1 & Hu2 & Hu3 & Hu4 & Hu5 & Hu6 & _ & _).
  assert (Hend : iend - base w1 = c + size1) by lia.
  assert (Hend32 : c + size1 <= two32 - 1 - INDEXOVERFLOW_MARGIN).
  { unfold maxD in Hm1. destruct Hc as [Hc|[Hc Hsz']]; revert Hc Hm1 Hs1; consts; lia. }
  set (m := u32 (Z.shiftl 8 (Z.min (Z.max (p_hashLog p) (p_chainLog p)) 28))).
  assert (Hm : 0 <= m) by apply u32_range.
  assert (Hs1p : 0 < size1) by (revert Hs1; consts; lia).
  assert (Ht2 : exists ip2 size2,
            (if p_strategy p <? ZSTD_btultra then (if size1 >? m then (iend - m, m) else (ip1, size1)) else (ip1, size1))
            = (ip2, size2) /\ ip2 + size2 = iend /\ ip1 <= ip2 /\ 0 <= size2 <= size1).
  { destruct (p_strategy p <? ZSTD_btultra).
    - destruct (Z.gtb_spec size1 m).
      + exists (iend - m), m. repeat split; lia.
      + exists ip1, size1. repeat split; lia.
    - exists ip1, size1. repeat split; lia. }
  destruct Ht2 as (ip2 & size2 & -> & Hi2 & Hip & Hs2).
  assert (Hidx : idx w1 iend = c + size1).
  { unfold idx. rewrite Hend. apply u32_small. revert Hend32 Hc0 Hs1. consts. lia. }
  assert (Hidx2 : idx w1 ip2 = ip2 - base w1).
  { unfold idx. apply u32_small. revert Hend32 Hc0 Hs1. consts. lia. }
  set (lde1 := if fw then 0 else idx w1 iend).
  assert (Hlde1 : 0 <= lde1 <= iend - base w1) by (unfold lde1; destruct fw; rewrite ?Hidx; lia).
  set (ms1 := mkMS w1 lde1 (idx w1 ip2) (ms_dms ms) (ms_hashLog3 ms) (ms_dds ms) (ms_tables ms)).
  assert (Hs1' : ms_sized p ms1) by exact Hsz.
  assert (Htl1 : tables_le (ip2 - base w1) (ms_tables ms)).
  { eapply tables_le_weaken; [|exact Htl]. change (c <= ip2 - base w1). lia. }
  destruct (Z.leb_spec size2 HASH_READ_SIZE).
  - split; [|exact Hs1'].
    unfold ms_tinv. cbn [ms_window ms_tables ms_nextToUpdate ms1]. fold iend. rewrite Hidx2.
    split; [eapply tables_le_weaken; [|exact Htl1]; lia | lia].
  - pose proof (ovf_step_gen freq ms1 p ip2 iend iend (two32 - 1 - INDEXOVERFLOW_MARGIN) Hp) as Hov.
    cbv zeta in Hov. cbn [ms_window ms_loadedDictEnd ms1] in Hov.
    specialize (Hov Hu3 Hu4 ltac:(lia) ltac:(lia) ltac:(lia) ltac:(lia) Hlde1 ltac:(lia)
                    ltac:(revert Hend32; consts; lia)).
    assert (Htrig : minIndexToOverflowCorrect (cycleLog_of (p_chainLog p) (p_strategy p)) (p_windowLog p) + (iend - ip2)
                      <= CURRENT_MAX + 1 \/ iend - ip2 <= CHUNKSIZE_MAX \/ iend - base w1 <= CURRENT_MAX).
    { destruct Hc as [Hc|[_ Hsz']].
      - right; right. unfold maxD in Hm1. revert Hc Hm1. consts. lia.
      - right; left. lia. }
    specialize (Hov Htrig).
    pose proof (ovf_tables freq ms1 p ip2 iend iend (two32 - 1 - INDEXOVERFLOW_MARGIN) Hp) as Hot.
    cbv zeta in Hot. cbn [ms_window ms_loadedDictEnd ms_tables ms_nextToUpdate ms_hashLog3 ms_dds ms1] in Hot.
    specialize (Hot Hu3 Hu4 ltac:(lia) ltac:(lia) ltac:(lia) ltac:(lia) Hlde1 ltac:(lia)
                    ltac:(revert Hend32; consts; lia) Htrig Hsz Htl1 ltac:(rewrite Hidx2; lia)).
    destruct (overflowCorrectIfNeeded freq ms1 p ip2 iend) as [ms2 corr] eqn:Eov. cbn [fst] in Hov, Hot.
    destruct Hov as (Ho1 & Ho2 & Ho3 & Ho4 & Ho5 & Ho6 & Ho7 & Ho8 & _).
    destruct Hot as (Hq1 & Hq2 & Hq3 & Hq4 & Hq5).
    assert (Hidx3 : idx (ms_window ms2) iend = iend - base (ms_window ms2)).
    { unfold idx. apply u32_small. revert Hend32 Hc0 Hs1. consts. lia. }
    split.
    + unfold ms_tinv. cbn [ms_window ms_tables ms_nextToUpdate]. fold iend. rewrite Hidx3.
      split; [eapply tables_le_weaken; [|exact Hq1]; lia | lia].
    + unfold ms_sized. cbn [ms_tables ms_hashLog3 ms_dds]. exact Hq3.
Qed.

(* ---- the index effect of the block search (btultra2 first pass) ---- *)
Lemma search_effect_tinv :
  forall p ms first ip bs,
    ms_inv ms ip CB -> 0 < bs <= BLOCKSIZE_MAX -> ip + bs - base (ms_window ms) <= CURRENT_MAX ->
    ms_tinv ms ip ->
    let ms' := fst (block_search_effect p ms first ip bs) in
    ms_tinv ms' (ip + bs) /\ ms_tables ms' = ms_tables ms /\ ms_hashLog3 ms' = ms_hashLog3 ms /\ ms_dds ms' = ms_dds ms.
Proof.
  intros p ms first ip bs Hinv Hbs Hblk [Htl Hntu]. cbv zeta.
  destruct Hinv as (Hl0 & Hld & Hdc & HB & Hnb & Hlde).
  unfold block_search_effect. destruct (bs <? TINY_BLOCK); cbn [fst].
  - split; [|repeat split; reflexivity]. split; [eapply tables_le_weaken; [|exact Htl]; lia | lia].
  - match goal with |- context [if ?c then initStats_ultra ms bs else ms] => destruct c eqn:Eu end; cbn [fst].
    + apply andb_true_iff in Eu. destruct Eu as [Eu _].
      apply andb_true_iff in Eu. destruct Eu as [Eu Eidx].
      apply Z.eqb_eq in Eidx. unfold idx in Eidx.
      rewrite u32_small in Eidx by (revert HB; rewrite CB_val; consts; lia).
      unfold initStats_ultra, ms_tinv.
      cbn [ms_window ms_tables ms_nextToUpdate ms_hashLog3 ms_dds lowLimit dictLimit base nbOvf nextSrc].
      rewrite (u32_small bs) by (revert Hbs; consts; lia).
      rewrite (u32_small (dictLimit (ms_window ms) + bs)) by (revert Hbs Hblk; consts; lia).
      split; [|repeat split; reflexivity].
      split; [eapply tables_le_weaken; [|exact Htl]; lia | lia].
    + split; [|repeat split; reflexivity]. split; [eapply tables_le_weaken; [|exact Htl]; lia | lia].
Qed.

(* ------------------------------------------------------------------------------------------
   the whole-context statement
   ------------------------------------------------------------------------------------------ *)
Definition curidx (h : hstate) : Z := nextSrc (ms_window (h_ms h)) - base (ms_window (h_ms h)).

Definition TInv (h : hstate) : Prop := ms_tinv (h_ms h) (nextSrc (ms_window (h_ms h))).

(* side conditions that depend on the state the operation meets (what the library guarantees there):
   - tables have the sizes of the parameters in force whenever a correction can run over them;
   - a match finder only stores positions it has seen (at or below the current index);
   - ZSTD_resetCCtx_byAttachingCDict runs right after ZSTD_resetCCtx_internal: the window is empty at its
     current position;
   - ZSTD_resetCCtx_byCopyingCDict overwrites every table, so at the moment the CDict's window is taken the
     cells are at or below the CDict's end (a cleared table, then an OpFinder with the CDict's cells). *)
Definition op_okT (h : hstate) (o : op) : Prop :=
  let ms := h_ms h in
  match o with
  | OpBegin p h3 _ _ _ _ _ dict =>
      match dict with Some _ => tables_sized p h3 (ms_dds ms) (ms_tables ms) | None => True end
  | OpAttach _ _ => dictLimit (ms_window ms) = curidx h
  | OpContinue _ _ => ms_sized (h_params h) ms
  | OpBlockMode _ _ => ms_sized (h_params h) ms
  | OpFinder ntu t => tables_le (curidx h) t /\ 0 <= ntu <= curidx h
  | OpLdmFinder _ => True
  | OpCopyCDict w _ ntu => tables_le (nextSrc w - base w) (ms_tables ms) /\ 0 <= ntu <= nextSrc w - base w
  end.

Fixpoint hist_okT (freq : bool) (h : hstate) (ops : list op) : Prop :=
  match ops with
  | [] => True
  | o :: rest => op_okT h o /\ hist_okT freq (step freq h o) rest
  end.

Lemma step_tinv :
  forall freq h o, Inv h -> TInv h -> op_ok o -> op_okT h o -> TInv (step freq h o).
Proof.
  intros freq h o [Hp Hinv] Ht Hok HokT.
  destruct o as [p h3 ldm forced lit ldmLit lds dict | cdictEnd cdl | src blocks | src size | ntu t | t | wc ldec ntuc].
  - (* OpBegin *)
    cbn [op_ok] in Hok. destruct Hok as (Hp' & Hlds & Hdict).
    pose proof (reset_inv (h_ms h) lds forced lit h3 Hinv Hlds) as Hr. cbv zeta in Hr.
    destruct Hr as (Hr1 & Hr2 & Hr3 & Hr4 & Hr5 & Hr6).
    pose proof (reset_tinv (h_ms h) lds forced lit h3 Hinv Ht) as Hrt. cbv zeta in Hrt.
    destruct Hrt as (Hrt1 & Hrt2 & Hrt3 & Hrt4).
    cbn [step].
    set (ms1 := reset_matchState (h_ms h) (needsIndexReset (ms_window (h_ms h)) lds forced) lit h3) in *.
    destruct dict as [d|].
    + cbn [op_okT] in HokT.
      assert (Hs1 : ms_sized p ms1).
      { unfold ms_sized. rewrite Hrt2, Hrt3. destruct Hrt4 as [-> | ->]; [exact HokT | apply zero_tables_sized; exact HokT]. }
      set (ls := if ldm then Some (mkLdm (window_init ldmLit) 0
                       match h_ldm h with Some l => zero_table (ldm_table l) | None => [] end) else None).
      pose proof (loadDict_inv freq ms1 ls p (d_src d) (d_size d) (d_forceWindow d) (d_detRefPrefix d) Hp' ltac:(lia)) as Hl.
      pose proof (loadDict_tinv freq ms1 ls p (d_src d) (d_size d) (d_forceWindow d) (d_detRefPrefix d) Hp' ltac:(lia)) as Hlt.
      cbv zeta in Hl, Hlt. specialize (Hl Hr1 Hr2 Hr3 Hr4). specialize (Hlt Hr1 Hr2 Hr3 Hr4).
      assert (Hcc : nextSrc (ms_window ms1) - base (ms_window ms1) = START \/
                    0 <= nextSrc (ms_window ms1) - base (ms_window ms1) <= CURRENT_MAX - INDEXOVERFLOW_MARGIN /\
                    d_size d <= CHUNKSIZE_MAX).
      { destruct Hr5 as [[_ Hc]|(_ & Hc1 & Hc2 & Hc3)]; [left; exact Hc | right; lia]. }
      specialize (Hl Hcc). specialize (Hlt Hcc Hs1 Hrt1).
      fold ls.
      destruct (loadDictionaryContent freq ms1 ls p (d_src d) (d_size d) (d_forceWindow d) (d_detRefPrefix d) false)
        as [[[ms2 ldm2] fnc] corr] eqn:El.
      destruct Hl as (_ & Hl2 & _). destruct Hlt as (Hlt1 & _).
      unfold TInv. cbn [h_ms]. rewrite Hl2. exact Hlt1.
    + unfold TInv. cbn [h_ms]. exact Hrt1.
  - (* OpAttach *)
    cbn [op_ok] in Hok. destruct Hok as (Hcd1 & Hcd2). cbn [op_okT] in HokT. unfold curidx in HokT.
    cbn [step]. unfold TInv. cbn [h_ms]. destruct Ht as [Htl Hntu].
    destruct Hinv as (Hl0 & Hld & Hdc & HB & Hnb & Hlde).
    unfold attach_cdict. destruct (u32 (cdictEnd - cdl) =? 0); [split; assumption|].
    destruct (Z.ltb_spec (dictLimit (ms_window (h_ms h))) cdictEnd).
    + unfold window_clear, set_nextSrc, ms_tinv.
      cbn [ms_window ms_tables ms_nextToUpdate nextSrc base dictLimit lowLimit nbOvf].
      split; [eapply tables_le_weaken; [|exact Htl]; lia | lia].
    + unfold ms_tinv. cbn [ms_window ms_tables ms_nextToUpdate]. split; assumption.
  - (* OpContinue *)
    cbn [op_ok] in Hok. cbn [op_okT] in HokT. cbn [step].
    destruct (Z.eqb_spec (sumZ blocks) 0) as [|Hnz]; [exact Ht|].
    pose proof (sumZ_nonneg blocks Hok) as Hnn.
    pose proof (continue_update_inv h src (sumZ blocks) (conj Hp Hinv) ltac:(lia)) as Hu. cbv zeta in Hu.
    destruct Hu as (Hp1 & Hpe & Hinv1 & Hns1 & _).
    pose proof (continue_update_tinv h src (sumZ blocks) (conj Hp Hinv) ltac:(lia) Ht) as Hut. cbv zeta in Hut.
    destruct Hut as (Ht1 & Hta & Hh3 & Hdds).
    set (h1 := continue_update h src (sumZ blocks)) in *.
    assert (Hs1 : ms_sized (h_params h1) (h_ms h1)).
    { unfold ms_sized. rewrite Hpe, Hta, Hh3, Hdds. exact HokT. }
    pose proof (frame_blocks_inv freq blocks h1 src Hp1 Hinv1 Hok) as Hf.
    cbv zeta in Hf. destruct Hf as (_ & _ & _ & Hf4 & _).
    pose proof (frame_blocks_tinv freq blocks h1 src Hp1 Hinv1 Hok Hs1 Ht1) as Hft. cbv zeta in Hft.
    destruct Hft as [Hft _]. unfold TInv. rewrite Hf4, Hns1. exact Hft.
  - (* OpBlockMode *)
    cbn [op_ok] in Hok. cbn [op_okT] in HokT. cbn [step].
    destruct (Z.eqb_spec size 0) as [|Hnz]; [exact Ht|].
    pose proof (continue_update_inv h src size (conj Hp Hinv) ltac:(lia)) as Hu. cbv zeta in Hu.
    destruct Hu as (Hp1 & Hpe & Hinv1 & Hns1 & _).
    pose proof (continue_update_tinv h src size (conj Hp Hinv) ltac:(lia) Ht) as Hut. cbv zeta in Hut.
    destruct Hut as (Ht1 & Hta & Hh3 & Hdds).
    set (h1 := continue_update h src size) in *.
    assert (Hs1 : ms_sized (h_params h1) (h_ms h1)).
    { unfold ms_sized. rewrite Hpe, Hta, Hh3, Hdds. exact HokT. }
    pose proof (cycleLog_ok _ Hp1) as Hpo.
    assert (Hend : src + size - base (ms_window (h_ms h1)) < two32).
    { destruct Hinv1 as (_ & _ & _ & HB & _). revert HB Hok. rewrite CB_val. consts. lia. }
    pose proof (ovf_step freq (h_ms h1) (h_params h1) src (src + size) CB Hp1 Hinv1 ltac:(lia) Hend) as Hov.
    cbv zeta in Hov.
    specialize (Hov ltac:(left; pose proof (block_size_condition _ _ Hpo); lia)).
    destruct Hinv1 as (Il0 & Ild & Idc & IB & Inb & Ilde). destruct Ht1 as [Htl1 Hntu1].
    pose proof (ovf_tables freq (h_ms h1) (h_params h1) src (src + size) src CB Hp1 Il0 Ild Idc IB Inb ltac:(lia) Ilde
                  ltac:(lia) Hend ltac:(left; pose proof (block_size_condition _ _ Hpo); lia) Hs1 Htl1 Hntu1) as Hot.
    cbv zeta in Hot.
    destruct (overflowCorrectIfNeeded freq (h_ms h1) (h_params h1) src (src + size)) as [ms2 corr2] eqn:Eov.
    cbn [fst] in Hov, Hot. destruct Hov as (Hinv2 & Hb2 & Hns2 & Hcase).
    destruct Hot as (Hq1 & Hq2 & _).
    assert (Hblk : src + size - base (ms_window ms2) <= CURRENT_MAX).
    { destruct Hcase as [[-> Hle]|[Hle _]]; [exact Hle|].
      pose proof (block_size_condition _ _ Hpo). lia. }
    set (ms2c := block_mode_dict_check ms2).
    assert (Ew : ms_window ms2c = ms_window ms2) by reflexivity.
    assert (Hinv2c : ms_inv ms2c src CB) by exact Hinv2.
    assert (Hblkc : src + size - base (ms_window ms2c) <= CURRENT_MAX) by (rewrite Ew; exact Hblk).
    assert (Htc : ms_tinv ms2c src) by exact (conj Hq1 Hq2).
    assert (Hsz : 0 < size <= BLOCKSIZE_MAX) by lia.
    pose proof (search_effect_inv (h_params h1) ms2c (h_optFirst h1) src size Hinv2c Hsz Hblkc) as Hs.
    pose proof (search_effect_tinv (h_params h1) ms2c (h_optFirst h1) src size Hinv2c Hsz Hblkc Htc) as Hst.
    cbv zeta in Hs, Hst.
    destruct (block_search_effect (h_params h1) ms2c (h_optFirst h1) src size) as [ms3 first'] eqn:Es.
    cbn [fst] in Hs, Hst. destruct Hs as (_ & Hs2 & _). destruct Hst as (Hst1 & _).
    rewrite Ew in Hs2.
    unfold TInv. cbn [h_ms]. rewrite Hs2, Hns2, Hns1. exact Hst1.
  - (* OpFinder *)
    cbn [op_okT] in HokT. unfold curidx in HokT. cbn [step]. unfold TInv, ms_tinv.
    cbn [h_ms ms_window ms_tables ms_nextToUpdate]. exact HokT.
  - (* OpLdmFinder *)
    cbn [step]. destruct (h_ldm h); exact Ht.
  - (* OpCopyCDict *)
    cbn [op_okT] in HokT. cbn [step]. unfold TInv, ms_tinv.
    cbn [h_ms ms_window ms_tables ms_nextToUpdate]. exact HokT.
Qed.

(* tables_stay_below_current *)
Lemma tables_stay_below_current_lemma :
  forall freq ops h,
    Inv h -> TInv h -> Forall op_ok ops -> hist_okT freq h ops ->
    TInv (run freq h ops).
Proof.
  intros freq ops. induction ops as [|o ops IH]; intros h Hinv Ht Hall HallT.
  - exact Ht.
  - inversion Hall as [|? ? Ho Hrest]; subst. destruct HallT as [HoT HrestT].
    destruct (step_inv freq h o Hinv Ho) as [Hinv1 _].
    pose proof (step_tinv freq h o Hinv Ht Ho HoT) as Ht1.
    unfold run. cbn [fold_left]. fold (run freq (step freq h o) ops).
    apply IH; assumption.
Qed.

Lemma TInv_init p : TInv (h_init p).
Proof.
  unfold TInv, h_init, ms_tinv, tables_le, tbl_le. cbn. repeat split; try constructor; lia.
Qed.

Lemma TInv_meaning h :
  TInv h ->
  let ms := h_ms h in
  let c := nextSrc (ms_window ms) - base (ms_window ms) in
  (forall e, In e (hashTable (ms_tables ms)) \/ In e (chainTable (ms_tables ms)) \/ In e (hashTable3 (ms_tables ms)) ->
             0 <= e <= c) /\
  0 <= ms_nextToUpdate ms <= c.
Proof.
  intros [(A & B & C) D]. cbv zeta. split; [|exact D].
  unfold tbl_le in *. rewrite Forall_forall in A, B, C. intros e [H|[H|H]]; auto.
Qed.

(* ------------------------------------------------------------------------------------------
   the LDM hash table: chunk steps interleaved with what the long-distance matcher writes
   ------------------------------------------------------------------------------------------ *)
Lemma ldm_chunk_tbl :
  forall freq s wl p n,
    0 <= wl <= WINDOWLOG_MAX -> ldm_inv s p -> 0 < n <= CHUNKSIZE_MAX ->
    tbl_le (p - base (ldm_window s)) (ldm_table s) ->
    let s1 := fst (ldm_chunk_step freq s wl p (p + n)) in
    ldm_inv s1 (p + n) /\ tbl_le (p - base (ldm_window s1)) (ldm_table s1) /\
    length (ldm_table s1) = length (ldm_table s).
Proof.
  intros freq s wl p n Hwl Hinv Hn Ht. cbv zeta.
  pose proof (ldm_index_never_overflows_lemma freq wl [n] s p Hwl Hinv ltac:(repeat constructor; lia)) as [Hi _].
  cbn [ldm_run] in Hi. rewrite sumZ_cons in Hi. unfold sumZ in Hi. cbn [fold_left] in Hi. rewrite Z.add_0_r in Hi.
  split; [exact Hi|].
  destruct Hinv as (Hl0 & Hld & Hdc & HB & Hnb & Hlde).
  assert (Hb : window_bounded (ldm_window s)) by (unfold window_bounded; revert HB; consts; lia).
  pose proof (ldm_correction_lemma freq s wl p (p + n) Hwl Hb Hlde ltac:(lia) ltac:(lia)
                ltac:(revert HB Hn; consts; lia) ltac:(lia) Hld Hdc) as Hc.
  cbv zeta in Hc.
  destruct (ldm_chunk_step freq s wl p (p + n)) as [s' corr] eqn:Es. cbn [fst] in *.
  destruct Hc as (_ & _ & _ & _ & _ & _ & Hc5).
  destruct corr as [c|].
  - destruct Hc5 as (Hc51 & Hc52 & Hc53 & Hc54 & _).
    rewrite Hc54, Hc52. unfold ldm_reduceTable. rewrite map_length. split; [|reflexivity].
    unfold tbl_le in *. apply Forall_forall. intros e' Hin.
    apply in_map_iff in Hin. destruct Hin as (e & <- & Hin).
    rewrite Forall_forall in Ht. specialize (Ht e Hin).
    assert (Hmd : 1 <= 2 ^ wl) by (apply (pow2_mono 0 wl); lia).
    replace (p - (base (ldm_window s) + c)) with (p - base (ldm_window s) - c) by lia.
    apply ldm_reduce_cell_le; revert HB Hc53 Hc51 Ht Hmd; consts; lia.
  - destruct Hc5 as (Hc51 & Hc52 & _). rewrite Hc51, Hc52. split; [exact Ht | reflexivity].
Qed.

Fixpoint ldm_run_f (freq : bool) (s : ldmState) (wl p : Z) (steps : list (Z * list Z)) : ldmState :=
  match steps with
  | [] => s
  | (n, t) :: rest =>
      let s1 := fst (ldm_chunk_step freq s wl p (p + n)) in
      ldm_run_f freq (mkLdm (ldm_window s1) (ldm_loadedDictEnd s1) t) wl (p + n) rest
  end.

(* each chunk is at most ZSTD_CHUNKSIZE_MAX; after the chunk step the matcher leaves a cell alone or stores
   a position of the data seen so far *)
Fixpoint ldm_steps_ok (freq : bool) (s : ldmState) (wl p : Z) (steps : list (Z * list Z)) : Prop :=
  match steps with
  | [] => True
  | (n, t) :: rest =>
      let s1 := fst (ldm_chunk_step freq s wl p (p + n)) in
      0 < n <= CHUNKSIZE_MAX /\
      Forall2 (fun old new => new = old \/ 0 <= new <= p + n - base (ldm_window s1)) (ldm_table s1) t /\
      ldm_steps_ok freq (mkLdm (ldm_window s1) (ldm_loadedDictEnd s1) t) wl (p + n) rest
  end.

Definition sum_fst (steps : list (Z * list Z)) : Z := sumZ (map fst steps).

Lemma ldm_table_stays_below_current_lemma :
  forall freq wl steps s p,
    0 <= wl <= WINDOWLOG_MAX -> ldm_inv s p -> tbl_le (p - base (ldm_window s)) (ldm_table s) ->
    ldm_steps_ok freq s wl p steps ->
    let s' := ldm_run_f freq s wl p steps in
    ldm_inv s' (p + sum_fst steps) /\ tbl_le (p + sum_fst steps - base (ldm_window s')) (ldm_table s').
Proof.
  intros freq wl steps. induction steps as [|[n t] rest IH]; intros s p Hwl Hinv Ht Hok; cbv zeta.
  - unfold sum_fst, sumZ. cbn [map fold_left ldm_run_f]. rewrite Z.add_0_r. split; assumption.
  - cbn [ldm_steps_ok] in Hok. destruct Hok as (Hn & Hw & Hrest).
    pose proof (ldm_chunk_tbl freq s wl p n Hwl Hinv Hn Ht) as Hc. cbv zeta in Hc.
    destruct Hc as (Hi1 & Ht1 & _).
    cbn [ldm_run_f]. set (s1 := fst (ldm_chunk_step freq s wl p (p + n))) in *.
    set (s2 := mkLdm (ldm_window s1) (ldm_loadedDictEnd s1) t).
    assert (Hi2 : ldm_inv s2 (p + n)) by exact Hi1.
    assert (Ht2 : tbl_le (p + n - base (ldm_window s2)) (ldm_table s2)).
    { cbn [ldm_window ldm_table s2]. unfold tbl_le in *.
      clear - Hw Ht1 Hn. induction Hw as [|old new l l' Hon _ IHw]; [constructor|].
      inversion Ht1; subst. constructor; [|apply IHw; assumption].
      destruct Hon as [-> | Hnew]; lia. }
    specialize (IH s2 (p + n) Hwl Hi2 Ht2 Hrest). cbv zeta in IH.
    unfold sum_fst in *. cbn [map fst]. rewrite sumZ_cons.
    replace (p + (n + sumZ (map fst rest))) with (p + n + sumZ (map fst rest)) by lia. exact IH.
Qed.

(* ---- the hypotheses are satisfiable: a concrete history with tables, evaluated ---- *)
Example table_history_example :
  let p := mkCParams 10 4 4 6 false in
  let t0 := mkTables (repeat 0 16) (repeat 0 16) [] in
  let t1 := mkTables (repeat 131000 16) (1 :: repeat 132000 15) [] in
  let ops := [OpFinder 0 t0; OpBegin p 0 false true 1000 1000 0 None; OpContinue 5000 [131072; 131072];
              OpFinder 132000 t1; OpContinue 267144 [131072]] in
  Forall op_ok ops /\ Inv (h_init p) /\ TInv (h_init p) /\ hist_okT true (h_init p) ops /\
  (* in the frequent-correction build the last block starts with a correction by 131072: the cells 131000 are
     out of reach and become 0, the cells 132000 become 928, the unsorted mark stays *)
  ms_tables (h_ms (run true (h_init p) ops)) = mkTables (repeat 0 16) (1 :: repeat 928 15) [].
Proof.
  cbv zeta. split; [|split; [|split; [|split]]].
  - repeat constructor; unfold cparams_ok, block_ok; cbn; consts; try lia.
  - apply Inv_init. unfold cparams_ok. cbn. consts. lia.
  - apply TInv_init.
  - (* every intermediate state is evaluated first (innermost [step] first), then the side conditions are small *)
    cbn [hist_okT].
    repeat match goal with
    | |- context [step true ?h ?o] =>
        lazymatch h with context [step] => fail | _ => idtac end;
        let v := eval vm_compute in (step true h o) in
        replace (step true h o) with v by (vm_compute; reflexivity)
    end.
    cbn [op_okT h_ms h_params ms_tables ms_window ms_hashLog3 ms_dds].
    unfold ms_sized, tables_sized, pow2_len, curidx, tables_le, tbl_le. cbn.
    repeat split; repeat (apply Forall_cons || apply Forall_nil); try lia; try reflexivity.
  - vm_compute. reflexivity.
Qed.
