(* C15 proofs about the window functions other than the overflow correction. *)
From Coq Require Import ZArith Lia Bool List.
From ZV.Index Require Import Window Reduce Overflow OverflowProofs.
Import ListNotations.
Local Open Scope Z_scope.
Ltac Zify.zify_post_hook ::= Z.div_mod_to_equations.

Lemma two64_val : two64 = 18446744073709551616. Proof. reflexivity. Qed.

Lemma u64_small x : 0 <= x < two32 -> u64 x = x.
Proof. intros. unfold u64. apply Z.mod_small. rewrite two64_val. revert H. consts. lia. Qed.

Lemma u64_range x : 0 <= u64 x.
Proof. unfold u64. apply Z.mod_pos_bound. rewrite two64_val. lia. Qed.

(* a window whose current index (nextSrc - base) is an exact U32 and whose limits are ordered *)
Definition window_wf (w : window) : Prop :=
  0 <= lowLimit w /\ lowLimit w <= dictLimit w /\ dictLimit w <= nextSrc w - base w /\
  nextSrc w - base w < two32 /\ 0 <= nbOvf w < two32.

Lemma wf_bounded w : window_wf w -> window_bounded w.
Proof. unfold window_wf, window_bounded. lia. Qed.

(* ---- ZSTD_window_update ---- *)
Ltac upd_fin Hiff :=
  cbn [set_low set_nextSrc set_dictLimit nextSrc base dictBase dictLimit lowLimit nbOvf] in *;
  repeat split; intros; try discriminate; try lia; try (apply Hiff); try tauto;
  try (match goal with H : _ /\ _ |- _ => destruct H end; subst; try discriminate; try lia; try tauto).

Lemma window_update_sound_lemma :
  forall w src size force,
    window_wf w -> 0 < size ->
    (* pointer differences are representable (any 64-bit address space) *)
    src + size - dictBase w < two64 -> src + size - base w < two64 ->
    let c := nextSrc w - base w in
    let '(w', contiguous) := window_update w src size force in
    (* the new segment sits at indices [c, c + size) of the new referential *)
    nextSrc w' = src + size /\ src - base w' = c /\ nextSrc w' - base w' = c + size /\
    0 <= lowLimit w' /\ lowLimit w' <= dictLimit w' /\ dictLimit w' <= c /\ nbOvf w' = nbOvf w /\
    (contiguous = true <-> (src = nextSrc w /\ force = false)) /\
    (contiguous = true -> base w' = base w /\ dictBase w' = dictBase w /\ dictLimit w' = dictLimit w) /\
    (* a non-contiguous segment turns the whole old prefix into the ext-dict *)
    (contiguous = false -> dictLimit w' = c /\ dictBase w' = base w) /\
    (* the part of the ext-dict that is kept is not overwritten by the new segment *)
    (lowLimit w' = dictLimit w' \/ src + size <= dictBase w' + lowLimit w' \/ dictBase w' + dictLimit w' <= src).
Proof.
  intros w src size force Hwf Hsize Ha1 Ha2. cbv zeta.
  destruct Hwf as (Hl0 & Hld & Hdc & Hc32 & Hnb).
  unfold window_update. destruct (Z.eqb_spec size 0) as [|_]; [lia|].
  set (c := nextSrc w - base w) in *.
  assert (Hc : 0 <= c < two32) by lia.
  assert (H64 : forall x, 0 <= x < two64 -> u64 x = x) by (intros; unfold u64; apply Z.mod_small; assumption).
  destruct (negb (src =? nextSrc w) || force) eqn:Enc.
  - (* non contiguous *)
    rewrite (u64_small c Hc), (u32_small c Hc).
    set (low' := if u32 (c - dictLimit w) <? HASH_READ_SIZE then c else dictLimit w).
    assert (Hlow' : 0 <= low' <= c) by (unfold low'; destruct (_ <? _); lia).
    cbn [set_nextSrc nextSrc base dictBase dictLimit lowLimit nbOvf].
    assert (Hiff : false = true <-> src = nextSrc w /\ force = false).
    { split; [discriminate|]. intros [-> ->]. rewrite Z.eqb_refl in Enc. discriminate. }
    match goal with |- context [if ?b then _ else _] => destruct b eqn:Eov end;
      cbn [set_low nextSrc base dictBase dictLimit lowLimit nbOvf].
    + (* overlap with the ext-dict: lowLimit moves up *)
      apply andb_true_iff in Eov. destruct Eov as [E1 E2].
      apply Z.gtb_lt in E1. apply Z.ltb_lt in E2.
      rewrite (H64 (src + size - base w)) by lia.
      destruct (Z.gtb_spec (src + size - base w) c).
      * upd_fin Hiff.
      * rewrite u32_small by lia. upd_fin Hiff.
    + apply andb_false_iff in Eov.
      assert (Hdisj : low' = c \/ src + size <= base w + low' \/ base w + c <= src).
      { destruct Eov as [E|E].
        - destruct (Z.gtb_spec (src + size) (base w + low')); [discriminate|]. right; left; lia.
        - destruct (Z.ltb_spec src (base w + c)); [discriminate|]. right; right; lia. }
      upd_fin Hiff.
  - (* contiguous *)
    apply orb_false_iff in Enc. destruct Enc as [E1 E2]. apply negb_false_iff in E1. apply Z.eqb_eq in E1.
    subst force.
    cbn [set_nextSrc nextSrc base dictBase dictLimit lowLimit nbOvf].
    assert (Hiff : true = true <-> src = nextSrc w /\ false = false) by (split; auto).
    match goal with |- context [if ?b then _ else _] => destruct b eqn:Eov end;
      cbn [set_low nextSrc base dictBase dictLimit lowLimit nbOvf].
    + apply andb_true_iff in Eov. destruct Eov as [Ea Eb].
      apply Z.gtb_lt in Ea. apply Z.ltb_lt in Eb.
      rewrite (H64 (src + size - dictBase w)) by lia.
      destruct (Z.gtb_spec (src + size - dictBase w) (dictLimit w)).
      * upd_fin Hiff.
      * rewrite u32_small by lia. upd_fin Hiff.
    + apply andb_false_iff in Eov.
      assert (Hdisj : lowLimit w = dictLimit w \/ src + size <= dictBase w + lowLimit w \/ dictBase w + dictLimit w <= src).
      { destruct Eov as [E|E].
        - destruct (Z.gtb_spec (src + size) (dictBase w + lowLimit w)); [discriminate|]. right; left; lia.
        - destruct (Z.ltb_spec src (dictBase w + dictLimit w)); [discriminate|]. right; right; lia. }
      upd_fin Hiff.
Qed.

(* ---- ZSTD_window_enforceMaxDist ---- *)
Lemma enforceMaxDist_sound_lemma :
  forall w blockEnd wl lde dms,
    0 <= wl <= WINDOWLOG_MAX ->
    0 <= lowLimit w -> lowLimit w <= dictLimit w ->
    let be := blockEnd - base w in
    dictLimit w <= be -> be < two32 -> 0 <= lde <= be ->
    let '(w', lde', dms') := window_enforceMaxDist w blockEnd (2 ^ wl) (Some lde) (Some dms) in
    base w' = base w /\ dictBase w' = dictBase w /\ nextSrc w' = nextSrc w /\ nbOvf w' = nbOvf w /\
    lowLimit w <= lowLimit w' /\ lowLimit w' <= dictLimit w' /\ dictLimit w' <= be /\
    dictLimit w <= dictLimit w' /\
    (* either nothing changes (the dictionary, if any, is still within reach of the block end) ... *)
    ((w' = w /\ lde' = Some lde /\ dms' = Some dms /\ (be <= 2 ^ wl + lde \/ two32 <= 2 ^ wl + lde)) \/
    (* ... or the window is cut at maxDist and the dictionary is gone *)
     (lde' = Some 0 /\ dms' = Some false /\ be - lowLimit w' <= 2 ^ wl /\
      lowLimit w' = Z.max (lowLimit w) (be - 2 ^ wl) /\ dictLimit w' = Z.max (dictLimit w) (lowLimit w'))).
Proof.
  intros w blockEnd wl lde dms Hwl Hl0 Hld. cbv zeta. intros Hdb Hbe Hlde.
  assert (Hmd : 1 <= 2 ^ wl <= 2147483648).
  { revert Hwl. consts. intro. rewrite <- pow2_31. apply pow2_mono. lia. }
  unfold window_enforceMaxDist, idx. rewrite (u32_small (blockEnd - base w)) by lia.
  set (be := blockEnd - base w) in *.
  destruct (Z.gtb_spec be (u32 (2 ^ wl + lde))) as [Hgt|Hngt].
  - assert (Hge : 2 ^ wl <= be).
    { unfold u32 in Hgt. revert Hgt Hbe Hlde. consts. intros.
      assert (2 ^ wl + lde < 4294967296 \/ 4294967296 <= 2 ^ wl + lde) as [Hc|Hc] by lia.
      - rewrite Z.mod_small in Hgt by lia. lia.
      - lia. }
    rewrite (u32_small (be - 2 ^ wl)) by lia.
    destruct (Z.ltb_spec (lowLimit w) (be - 2 ^ wl));
      cbn [set_low set_dictLimit lowLimit dictLimit base dictBase nextSrc nbOvf];
      match goal with |- context [if ?a <? ?b then _ else _] => destruct (Z.ltb_spec a b) end;
      cbn [set_low set_dictLimit lowLimit dictLimit base dictBase nextSrc nbOvf];
      repeat split; try lia; right; repeat split; lia.
  - repeat split; try lia. left. repeat split; try reflexivity.
    unfold u32 in Hngt. revert Hngt Hbe Hlde. consts. intros.
    assert (2 ^ wl + lde < 4294967296 \/ 4294967296 <= 2 ^ wl + lde) as [Hc|Hc] by lia.
    + rewrite Z.mod_small in Hngt by lia. left. lia.
    + right. lia.
Qed.

(* ---- ZSTD_checkDictValidity: dict_scrolls_out ---- *)
Lemma dict_scrolls_out_lemma :
  forall w blockEnd wl lde dms,
    0 <= wl <= WINDOWLOG_MAX ->
    let be := blockEnd - base w in
    0 <= be < two32 -> 0 <= lde -> 2 ^ wl + lde < two32 ->
    let '(lde', dms') := checkDictValidity w blockEnd (2 ^ wl) lde dms in
    (* invalidated exactly when the block end is beyond loadedDictEnd + maxDist, or the dictionary is no
       longer adjacent to the prefix (a non-contiguous segment arrived) *)
    ((be > lde + 2 ^ wl \/ lde <> dictLimit w) -> lde' = 0 /\ dms' = false) /\
    (be <= lde + 2 ^ wl -> lde = dictLimit w -> lde' = lde /\ dms' = dms).
Proof.
  intros w blockEnd wl lde dms Hwl. cbv zeta. intros Hbe Hlde Hsum.
  unfold checkDictValidity, idx. rewrite (u32_small (blockEnd - base w)) by lia.
  rewrite (u32_small (lde + 2 ^ wl)) by lia.
  destruct (Z.gtb_spec (blockEnd - base w) (lde + 2 ^ wl)); destruct (Z.eqb_spec lde (dictLimit w));
    cbn [orb negb]; split; intros; try (split; reflexivity); try lia.
Qed.

(* ---- ZSTD_getLowestMatchIndex / ZSTD_getLowestPrefixIndex ---- *)
Lemma lowest_index_sound_lemma :
  forall lowestValid curr wl lde,
    0 <= wl <= WINDOWLOG_MAX -> 0 <= lowestValid <= curr -> curr < two32 ->
    let m := lowest_index lowestValid curr wl lde in
    lowestValid <= m <= curr /\
    (lde = 0 -> curr - m <= 2 ^ wl /\ (m = lowestValid \/ m = curr - 2 ^ wl)) /\
    (lde <> 0 -> m = lowestValid).
Proof.
  intros lowestValid curr wl lde Hwl Hlv Hc. cbv zeta.
  assert (Hmd : 1 <= 2 ^ wl <= 2147483648).
  { revert Hwl. consts. intro. rewrite <- pow2_31. apply pow2_mono. lia. }
  unfold lowest_index. revert Hwl. consts. intro Hwl. rewrite shiftl1 by lia.
  rewrite (u32_small (2 ^ wl)) by (consts; lia).
  rewrite (u32_small (curr - lowestValid)) by (consts; lia).
  destruct (Z.eqb_spec lde 0); cbn [negb].
  - destruct (Z.gtb_spec (curr - lowestValid) (2 ^ wl)).
    + rewrite u32_small by (consts; lia). repeat split; lia.
    + repeat split; lia.
  - repeat split; try lia.
Qed.

(* ---- index reset policy of ZSTD_resetCCtx_internal ---- *)
Lemma indexTooCloseToMax_spec w :
  0 <= nextSrc w - base w < two64 ->
  indexTooCloseToMax w = true <-> nextSrc w - base w > CURRENT_MAX - INDEXOVERFLOW_MARGIN.
Proof.
  intro H. unfold indexTooCloseToMax.
  assert (Hid : u64 (nextSrc w - base w) = nextSrc w - base w) by (unfold u64; apply Z.mod_small; assumption).
  rewrite Hid. rewrite (u32_small (CURRENT_MAX - INDEXOVERFLOW_MARGIN)) by (consts; lia).
  destruct (Z.gtb_spec (nextSrc w - base w) (CURRENT_MAX - INDEXOVERFLOW_MARGIN)); split; intros; try lia; try discriminate; reflexivity.
Qed.

Ltac wsimpl := cbn [set_low set_nextSrc set_dictLimit nextSrc base dictBase dictLimit lowLimit nbOvf] in *.

(* index facts of ZSTD_window_update that hold for arbitrary addresses *)
Lemma window_update_index_lemma :
  forall w src size force,
    window_wf w -> 0 < size ->
    let c := nextSrc w - base w in
    let '(w', contiguous) := window_update w src size force in
    nextSrc w' = src + size /\ src - base w' = c /\
    0 <= lowLimit w' /\ lowLimit w' <= dictLimit w' /\ dictLimit w' <= c /\ nbOvf w' = nbOvf w /\
    (contiguous = true -> w' = set_nextSrc w (src + size) \/
                          (base w' = base w /\ dictBase w' = dictBase w /\ dictLimit w' = dictLimit w)) /\
    (contiguous = false -> dictLimit w' = c).
Proof.
  intros w src size force Hwf Hsize. cbv zeta.
  destruct Hwf as (Hl0 & Hld & Hdc & Hc32 & Hnb).
  unfold window_update. destruct (Z.eqb_spec size 0) as [|_]; [lia|].
  set (c := nextSrc w - base w) in *.
  assert (Hc : 0 <= c < two32) by lia.
  destruct (negb (src =? nextSrc w) || force) eqn:Enc.
  - rewrite (u64_small c Hc), (u32_small c Hc).
    set (low' := if u32 (c - dictLimit w) <? HASH_READ_SIZE then c else dictLimit w).
    assert (Hlow' : 0 <= low' <= c) by (unfold low'; destruct (_ <? _); lia).
    cbn [set_nextSrc nextSrc base dictBase dictLimit lowLimit nbOvf].
    match goal with |- context [if ?b then _ else _] => destruct b eqn:Eov end;
      cbn [set_low nextSrc base dictBase dictLimit lowLimit nbOvf].
    + pose proof (u64_range (src + size - base w)) as Hu.
      destruct (Z.gtb_spec (u64 (src + size - base w)) c).
      * wsimpl; repeat split; intros; try discriminate; try lia.
      * rewrite u32_small by lia. wsimpl; repeat split; intros; try discriminate; lia.
    + wsimpl; repeat split; intros; try discriminate; lia.
  - apply orb_false_iff in Enc. destruct Enc as [E1 E2]. apply negb_false_iff in E1. apply Z.eqb_eq in E1.
    cbn [set_nextSrc nextSrc base dictBase dictLimit lowLimit nbOvf].
    match goal with |- context [if ?b then _ else _] => destruct b eqn:Eov end;
      cbn [set_low nextSrc base dictBase dictLimit lowLimit nbOvf].
    + pose proof (u64_range (src + size - dictBase w)) as Hu.
      destruct (Z.gtb_spec (u64 (src + size - dictBase w)) (dictLimit w)).
      * wsimpl; repeat split; intros; try discriminate; try lia; try (right; repeat split; reflexivity).
      * rewrite u32_small by lia. wsimpl; repeat split; intros; try discriminate; try lia; try (right; repeat split; reflexivity).
    + wsimpl; repeat split; intros; try discriminate; try lia; try (left; reflexivity).
Qed.
