(* C15: the serial LDM state of ZSTDMT over a whole frame: prefix load, then every job
   (ZSTDMT_serialState_update = ZSTD_window_update + ZSTD_ldm_generateSequences chunk by chunk). *)
From Coq Require Import ZArith Lia Bool List.
From ZV.Index Require Import Window Reduce Overflow History OverflowProofs WindowProofs HistoryProofs.
From ZV.Index Require Import MtJobs MtJobsProofs.
Import ListNotations.
Local Open Scope Z_scope.

(* one job: the window update, then the chunk steps over [src, src + sumZ chunks) *)
Definition mt_serial_job (freq : bool) (s : ldmState) (wl src : Z) (chunks : list Z) : ldmState :=
  let w := mt_serial_ldm_job (ldm_window s) src (sumZ chunks) in
  ldm_run freq (mkLdm w (ldm_loadedDictEnd s) (ldm_table s)) wl src chunks.

(* observer: the index of the job start is exact after the update, and every chunk boundary is exact *)
Definition mt_serial_job_ok (freq : bool) (s : ldmState) (wl src : Z) (chunks : list Z) : bool :=
  let w := mt_serial_ldm_job (ldm_window s) src (sumZ chunks) in
  exact_idx w src && ldm_run_ok freq (mkLdm w (ldm_loadedDictEnd s) (ldm_table s)) wl src chunks.

Fixpoint mt_serial_jobs (freq : bool) (s : ldmState) (wl : Z) (jobs : list (Z * list Z)) : ldmState :=
  match jobs with
  | [] => s
  | (src, chunks) :: rest => mt_serial_jobs freq (mt_serial_job freq s wl src chunks) wl rest
  end.

Fixpoint mt_serial_jobs_ok (freq : bool) (s : ldmState) (wl : Z) (jobs : list (Z * list Z)) : bool :=
  match jobs with
  | [] => true
  | (src, chunks) :: rest =>
      mt_serial_job_ok freq s wl src chunks && mt_serial_jobs_ok freq (mt_serial_job freq s wl src chunks) wl rest
  end.

(* a job has at least one byte and is cut in chunks of at most ZSTD_CHUNKSIZE_MAX (the code: 1 MiB) *)
Definition job_ok (j : Z * list Z) : Prop := snd j <> [] /\ Forall (fun n => 0 < n <= CHUNKSIZE_MAX) (snd j).

(* between jobs the current position is nextSrc *)
Definition mt_inv (s : ldmState) : Prop := ldm_inv s (nextSrc (ldm_window s)).

Lemma sumZ_pos : forall l, l <> [] -> Forall (fun n => 0 < n <= CHUNKSIZE_MAX) l -> 0 < sumZ l.
Proof.
  intros l Hne Hall. destruct l as [|a l]; [contradiction|].
  inversion Hall as [|? ? Ha Hl]; subst. rewrite sumZ_cons.
  assert (0 <= sumZ l).
  { clear -Hl. induction l as [|b l IH]; [unfold sumZ; cbn; lia|].
    inversion Hl; subst. rewrite sumZ_cons. specialize (IH H2). lia. }
  lia.
Qed.

Lemma chunk_step_nextSrc freq s wl a b :
  nextSrc (ldm_window (fst (ldm_chunk_step freq s wl a b))) = nextSrc (ldm_window s).
Proof.
  unfold ldm_chunk_step.
  destruct (window_needOverflowCorrection freq (ldm_window s) 0 (u32 (Z.shiftl 1 wl)) (ldm_loadedDictEnd s) a b).
  - unfold window_correctOverflow. cbn [ldm_window ldm_loadedDictEnd ldm_table].
    unfold window_enforceMaxDist.
    match goal with |- context [if ?c then _ else _] => destruct c end; cbn [fst ldm_window].
    + repeat match goal with |- context [if ?c then _ else _] => destruct c end; reflexivity.
    + reflexivity.
  - unfold window_enforceMaxDist.
    match goal with |- context [if ?c then _ else _] => destruct c end; cbn [fst ldm_window].
    + repeat match goal with |- context [if ?c then _ else _] => destruct c end; reflexivity.
    + reflexivity.
Qed.

Lemma ldm_run_nextSrc freq wl : forall sizes s p,
  nextSrc (ldm_window (ldm_run freq s wl p sizes)) = nextSrc (ldm_window s).
Proof.
  induction sizes as [|n rest IH]; intros s p; [reflexivity|].
  cbn [ldm_run]. rewrite IH. apply chunk_step_nextSrc.
Qed.

Lemma mt_serial_job_inv :
  forall freq wl s src chunks,
    0 <= wl <= WINDOWLOG_MAX -> mt_inv s -> job_ok (src, chunks) ->
    mt_inv (mt_serial_job freq s wl src chunks) /\ mt_serial_job_ok freq s wl src chunks = true.
Proof.
  intros freq wl s src chunks Hwl Hinv [Hne Hall]. cbn [snd] in *.
  pose proof (sumZ_pos chunks Hne Hall) as Hsz.
  unfold mt_inv, ldm_inv in Hinv. destruct Hinv as (H0 & Hld & Hdc & Hc & Hnb & Hlde).
  set (w := ldm_window s) in *.
  assert (Hwf : window_wf w).
  { unfold window_wf. revert Hc. consts. lia. }
  pose proof (window_update_index_lemma w src (sumZ chunks) false Hwf Hsz) as Hu. cbv zeta in Hu.
  unfold mt_serial_job, mt_serial_job_ok, mt_serial_ldm_job. fold w.
  destruct (window_update w src (sumZ chunks) false) as [w' cont]. cbn [fst].
  destruct Hu as (Hns & Hsb & Hl0 & Hld' & Hdc' & Hnb' & _ & _).
  assert (Hinv' : ldm_inv (mkLdm w' (ldm_loadedDictEnd s) (ldm_table s)) src).
  { unfold ldm_inv. cbn [ldm_window ldm_loadedDictEnd]. rewrite Hsb, Hnb'. lia. }
  destruct (ldm_index_never_overflows_lemma freq wl chunks _ src Hwl Hinv' Hall) as [Hi Hok].
  split.
  - unfold mt_inv. rewrite ldm_run_nextSrc. cbn [ldm_window]. rewrite Hns. exact Hi.
  - rewrite Hok, andb_true_r. apply exact_idx_true. rewrite Hsb. revert Hc. consts. lia.
Qed.

Lemma mt_serial_jobs_inv :
  forall freq wl jobs s,
    0 <= wl <= WINDOWLOG_MAX -> mt_inv s -> Forall job_ok jobs ->
    mt_inv (mt_serial_jobs freq s wl jobs) /\ mt_serial_jobs_ok freq s wl jobs = true.
Proof.
  intros freq wl jobs. induction jobs as [|[src chunks] rest IH]; intros s Hwl Hinv Hall.
  - split; [exact Hinv|reflexivity].
  - inversion Hall as [|? ? Hj Hr]; subst. cbn [mt_serial_jobs mt_serial_jobs_ok].
    destruct (mt_serial_job_inv freq wl s src chunks Hwl Hinv Hj) as [Hi Hok].
    destruct (IH _ Hwl Hi Hr) as [Hi2 Hok2]. split; [exact Hi2|]. rewrite Hok, Hok2. reflexivity.
Qed.

(* the state ZSTDMT_serialState_reset leaves: table cleared (all zero), window loaded *)
Definition mt_serial_start (lit dict n : Z) (fw : bool) (tbl : list Z) : ldmState :=
  let '(w, lde) := mt_serial_ldm_load MT_SERIAL_DICT_LIMIT lit dict n fw in mkLdm w lde tbl.

Lemma mt_serial_start_inv :
  forall lit dict n fw tbl, 0 <= n -> away_from_literal lit dict n -> mt_inv (mt_serial_start lit dict n fw tbl).
Proof.
  intros lit dict n fw tbl Hn Hd. unfold mt_serial_start.
  destruct (Z.eq_dec n 0) as [->|Hnz].
  - unfold mt_serial_ldm_load, MT_SERIAL_DICT_LIMIT.
    assert (E : (0 >? CURRENT_MAX - START) = false) by (consts; reflexivity).
    rewrite E. cbn [Z.eqb]. unfold mt_inv, ldm_inv, window_init.
    cbn [ldm_window ldm_loadedDictEnd nextSrc base dictLimit lowLimit nbOvf]. consts. lia.
  - pose proof (mt_serial_ldm_load_exact_lemma lit dict n fw ltac:(lia) Hd) as H.
    destruct (mt_serial_ldm_load MT_SERIAL_DICT_LIMIT lit dict n fw) as [w lde].
    destruct H as (Hx & Hns & Hidx & Hle & Hdl & Hll & Hlde & Hnb & Hfw).
    unfold mt_inv, ldm_inv. cbn [ldm_window ldm_loadedDictEnd].
    rewrite Hdl, Hll, Hnb.
    assert (Hm : 0 < Z.min n (CURRENT_MAX - START)) by (apply Z.min_glb_lt; [lia | consts; lia]).
    destruct fw; [rewrite (Hfw eq_refl) | rewrite (Hlde eq_refl)]; revert Hidx Hle Hm; consts; lia.
Qed.

(* the whole frame *)
Lemma mt_serial_ldm_never_overflows_lemma :
  forall freq wl lit dict n fw tbl jobs,
    0 <= wl <= WINDOWLOG_MAX -> 0 <= n -> away_from_literal lit dict n -> Forall job_ok jobs ->
    let s0 := mt_serial_start lit dict n fw tbl in
    mt_inv (mt_serial_jobs freq s0 wl jobs) /\ mt_serial_jobs_ok freq s0 wl jobs = true.
Proof.
  intros freq wl lit dict n fw tbl jobs Hwl Hn Hd Hj s0.
  apply mt_serial_jobs_inv; [exact Hwl | apply mt_serial_start_inv; assumption | exact Hj].
Qed.

(* satisfiability of the hypotheses + a concrete frame: 4.4 GB prefix, then two jobs; the second one lies below the
   first in memory (round buffer wrapped); one correction happens *)
Lemma mt_serial_frame_example_lemma :
  let s0 := mt_serial_start 1000 5000000000 4400000000 false [] in
  let jobs := [(9400000000 + 64, [1048576; 1048576; 5000]); (9400000000 - 50000000, [1048576; 77])] in
  0 <= 27 <= WINDOWLOG_MAX /\ away_from_literal 1000 5000000000 4400000000 /\
  Forall job_ok jobs /\ mt_serial_jobs_ok false s0 27 jobs = true /\
  nbOvf (ldm_window (mt_serial_jobs false s0 27 jobs)) = 1.
Proof.
  cbv zeta. split; [consts; lia|]. split; [unfold away_from_literal; consts; lia|]. split.
  - repeat constructor; cbn [snd]; try discriminate; consts; lia.
  - vm_compute. split; reflexivity.
Qed.
