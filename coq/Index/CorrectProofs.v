(* C15 proofs: the triggers of overflow correction establish the precondition of the correction;
   ZSTD_overflowCorrectIfNeeded and the LDM chunk step as a whole. *)
From Coq Require Import ZArith Lia Bool List.
From ZV.Index Require Import Window Reduce Overflow OverflowProofs ReduceProofs.
Import ListNotations.
Local Open Scope Z_scope.
Ltac Zify.zify_post_hook ::= Z.div_mod_to_equations.

Lemma minIndex_bounds cl wl :
  params_ok cl wl -> START + 2 <= minIndexToOverflowCorrect cl wl <= 3221225474.
Proof.
  intro Hp. pose proof (params_pow _ _ Hp) as [Hcs Hmd]. unfold minIndexToOverflowCorrect. consts. lia.
Qed.

(* ZSTD_window_canOverflowCorrect() = true puts the index strictly above minIndexToOverflowCorrect *)
Lemma canOverflowCorrect_min w cl wl lde src :
  params_ok cl wl -> 0 <= src - base w < two32 ->
  window_canOverflowCorrect w cl (2 ^ wl) lde src = true ->
  minIndexToOverflowCorrect cl wl < src - base w.
Proof.
  intros Hp Hc H. pose proof (params_pow _ _ Hp) as [Hcs Hmd].
  pose proof (minIndex_bounds _ _ Hp) as Hmin.
  unfold window_canOverflowCorrect, idx in H.
  rewrite (u32_small (src - base w)) in H by assumption.
  apply andb_true_iff in H. destruct H as [H _]. apply Z.gtb_lt in H.
  destruct Hp as [Hcl Hwl]. rewrite shiftl1 in H by lia.
  rewrite (u32_small (2 ^ cl)) in H by (consts; lia).
  unfold minIndexToOverflowCorrect in *.
  rewrite (u32_small (2 ^ cl + _)) in H by (consts; lia).
  rewrite (u32_small (2 ^ cl + _ + START)) in H by (consts; lia).
  lia.
Qed.

Lemma need_cases freq w cl md lde src srcEnd :
  window_needOverflowCorrection freq w cl md lde src srcEnd = true ->
  (freq = true /\ window_canOverflowCorrect w cl md lde src = true) \/ idx w srcEnd > CURRENT_MAX.
Proof.
  unfold window_needOverflowCorrection. intro H.
  destruct (freq && window_canOverflowCorrect w cl md lde src) eqn:E.
  - left. apply andb_true_iff in E. exact E.
  - right. apply Z.gtb_lt in H. lia.
Qed.

Lemma need_false freq w cl md lde src srcEnd :
  window_needOverflowCorrection freq w cl md lde src srcEnd = false -> idx w srcEnd <= CURRENT_MAX.
Proof.
  unfold window_needOverflowCorrection. intro H.
  destruct (freq && window_canOverflowCorrect w cl md lde src); [discriminate|].
  destruct (Z.gtb_spec (idx w srcEnd) CURRENT_MAX); [discriminate | lia].
Qed.

(* need_implies_correctable: whenever the code decides to correct while processing a segment of at most
   n bytes, and n is small enough for these parameters, the index is large enough for the correction to be
   a genuine reduction (the precondition of correction_preserves_window) *)
Lemma need_implies_correctable_lemma :
  forall freq w cl wl lde src srcEnd n,
    params_ok cl wl ->
    0 <= src - base w -> src <= srcEnd -> srcEnd - base w < two32 -> srcEnd - src <= n ->
    minIndexToOverflowCorrect cl wl + n <= CURRENT_MAX + 1 ->
    window_needOverflowCorrection freq w cl (2 ^ wl) lde src srcEnd = true ->
    minIndexToOverflowCorrect cl wl <= src - base w.
Proof.
  intros freq w cl wl lde src srcEnd n Hp H0 Hle Hend Hn Hsmall Hneed.
  destruct (need_cases _ _ _ _ _ _ _ Hneed) as [[_ Hcan] | Hgt].
  - apply canOverflowCorrect_min in Hcan; try assumption; lia.
  - unfold idx in Hgt. rewrite u32_small in Hgt by lia. lia.
Qed.

(* the block-sized segments of the compressor satisfy the size condition for every legal parameter set *)
Lemma block_size_condition cl wl :
  params_ok cl wl -> minIndexToOverflowCorrect cl wl + BLOCKSIZE_MAX <= CURRENT_MAX + 1.
Proof. intro Hp. pose proof (minIndex_bounds _ _ Hp). consts. lia. Qed.

(* ... and so do chunks of ZSTD_CHUNKSIZE_MAX, except in the one corner windowLog = 31 with cycleLog = 30 *)
Lemma chunk_size_condition cl wl :
  params_ok cl wl -> (cl <= 29 \/ wl <= 30) ->
  minIndexToOverflowCorrect cl wl + CHUNKSIZE_MAX <= CURRENT_MAX + 1.
Proof.
  intros Hp Hc. pose proof (params_pow _ _ Hp) as [Hcs Hmd]. destruct Hp as [Hcl Hwl].
  unfold minIndexToOverflowCorrect. consts.
  destruct Hc as [Hc|Hc].
  - pose proof (pow2_mono cl 29 ltac:(lia)) as H29. change (2 ^ 29) with 536870912 in H29. lia.
  - pose proof (pow2_mono wl 30 ltac:(lia)) as H30. rewrite pow2_30 in H30. lia.
Qed.

Example chunk_size_condition_corner :
  minIndexToOverflowCorrect 30 31 + CHUNKSIZE_MAX > CURRENT_MAX + 1.
Proof. unfold minIndexToOverflowCorrect. consts. reflexivity. Qed.

(* ---- ZSTD_cycleLog and the parameter ranges of a matchState ---- *)
Definition cparams_ok (p : cparams) : Prop :=
  0 <= p_windowLog p <= WINDOWLOG_MAX /\
  (if ZSTD_btlazy2 <=? p_strategy p then 1 else 0) <= p_chainLog p <= CHAINLOG_MAX.

Lemma cycleLog_ok p :
  cparams_ok p -> params_ok (cycleLog_of (p_chainLog p) (p_strategy p)) (p_windowLog p).
Proof.
  unfold cparams_ok, params_ok, cycleLog_of. consts. intros [Hw Hc].
  destruct (ZSTD_btlazy2 <=? p_strategy p); rewrite u32_small; consts; lia.
Qed.

Lemma maxDist_pow p : cparams_ok p -> u32 (Z.shiftl 1 (p_windowLog p)) = 2 ^ p_windowLog p.
Proof.
  intros [Hw _]. revert Hw. consts. intro Hw. rewrite shiftl1 by lia. apply u32_small.
  pose proof (pow2_mono (p_windowLog p) 31 ltac:(lia)). rewrite pow2_31 in *. consts. lia.
Qed.

(* ---- ZSTD_overflowCorrectIfNeeded as a whole ---- *)
Definition ms_bounded (ms : matchState) : Prop :=
  window_bounded (ms_window ms) /\ 0 <= ms_nextToUpdate ms < two32 /\ 0 <= ms_loadedDictEnd ms < two32.

Lemma overflow_correction_sound_lemma :
  forall freq ms p ip iend n,
    cparams_ok p -> ms_bounded ms ->
    let w := ms_window ms in
    let cl := cycleLog_of (p_chainLog p) (p_strategy p) in
    let wl := p_windowLog p in
    0 <= ip - base w -> ip <= iend -> iend - base w < two32 -> iend - ip <= n ->
    minIndexToOverflowCorrect cl wl + n <= CURRENT_MAX + 1 ->
    match overflowCorrectIfNeeded freq ms p ip iend with
    | (ms', None) => ms' = ms /\ iend - base w <= CURRENT_MAX
    | (ms', Some corr) =>
        let w' := ms_window ms' in
        (w', corr) = window_correctOverflow w cl (2 ^ wl) ip /\
        0 < corr < two32 /\
        ip - base w' = ip - base w - corr /\
        2 ^ wl + START <= ip - base w' <= 2 ^ cl + Z.max (2 ^ wl) (2 ^ cl) + 1 /\
        (* dictionaries are invalidated *)
        ms_loadedDictEnd ms' = 0 /\ ms_dms ms' = false /\
        (* nextToUpdate keeps pointing at the same byte, or is parked at 0 below the new window *)
        (corr <= ms_nextToUpdate ms ->
           ms_nextToUpdate ms' = ms_nextToUpdate ms - corr /\
           base w' + ms_nextToUpdate ms' = base w + ms_nextToUpdate ms) /\
        (ms_nextToUpdate ms < corr -> ms_nextToUpdate ms' = 0) /\
        (* every table goes through ZSTD_reduceTable with that same correction *)
        ms_tables ms' = reduceIndex (ms_tables ms) (ms_hashLog3 ms) (ms_dds ms) p corr /\
        ms_hashLog3 ms' = ms_hashLog3 ms /\ ms_dds ms' = ms_dds ms
    end.
Proof.
  intros freq ms p ip iend n Hp Hb w cl wl H0 Hle Hend Hn Hsmall.
  pose proof (cycleLog_ok p Hp) as Hpo. fold cl wl in Hpo.
  unfold overflowCorrectIfNeeded. rewrite (maxDist_pow p Hp). fold cl wl w.
  destruct (window_needOverflowCorrection freq w cl (2 ^ wl) (ms_loadedDictEnd ms) ip iend) eqn:Hneed.
  - pose proof (need_implies_correctable_lemma _ _ _ _ _ _ _ _ Hpo H0 Hle Hend Hn Hsmall Hneed) as Hmin.
    destruct Hb as [Hwb [Hntu Hlde]].
    pose proof (correction_preserves_window_lemma w cl wl ip Hpo Hwb ltac:(lia) Hmin) as Hcorr.
    cbv zeta in Hcorr.
    destruct (window_correctOverflow w cl (2 ^ wl) ip) as [w' corr] eqn:Ew.
    destruct Hcorr as (Hc1 & Hc2 & Hc3 & Hc4 & Hc5 & _ & _ & _ & _ & _ & _ & _ & _ & _ & _ & _).
    cbn [ms_window ms_loadedDictEnd ms_dms ms_nextToUpdate ms_tables ms_hashLog3 ms_dds].
    repeat split; try lia; try reflexivity.
    + intros. destruct (Z.ltb_spec (ms_nextToUpdate ms) corr); [lia|]. apply u32_small. lia.
    + intros. destruct (Z.ltb_spec (ms_nextToUpdate ms) corr); [lia|]. rewrite u32_small by lia. lia.
    + intros. destruct (Z.ltb_spec (ms_nextToUpdate ms) corr); [reflexivity|lia].
  - split; [reflexivity|]. apply need_false in Hneed. unfold idx in Hneed.
    rewrite u32_small in Hneed by lia. exact Hneed.
Qed.

(* a surviving table entry keeps designating the same byte: this is reduce_table_sound combined with
   correction_preserves_window (stated for one entry value) *)
Lemma entry_keeps_its_byte w w' corr cl wl src e pm :
  params_ok cl wl -> window_bounded w -> 0 <= src - base w < two32 ->
  minIndexToOverflowCorrect cl wl <= src - base w ->
  window_correctOverflow w cl (2 ^ wl) src = (w', corr) ->
  corr + START <= e <= src - base w ->
  reduce_cell corr pm e = e - corr /\ base w' + reduce_cell corr pm e = base w + e /\
  (src - base w') - reduce_cell corr pm e = (src - base w) - e.
Proof.
  intros Hp Hb Hc Hmin Ew He.
  pose proof (correction_preserves_window_lemma w cl wl src Hp Hb Hc Hmin) as H. cbv zeta in H.
  rewrite Ew in H. destruct H as (Hc1 & Hc2 & _ & _ & _ & _ & _ & _ & _ & _ & _ & _ & _ & _ & Hi & _).
  specialize (Hi e He). destruct Hi as (Hb1 & _ & Hd & _).
  assert (Hcell : reduce_cell corr pm e = e - corr).
  { rewrite reduce_cell_spec by (revert He Hc1; consts; lia).
    replace (pm && (e =? DUBT_UNSORTED_MARK)) with false.
    - destruct (Z.ltb_spec e (corr + START)); lia.
    - symmetry. apply andb_false_iff. right. apply Z.eqb_neq. revert He Hc1. consts. lia. }
  rewrite Hcell. repeat split; lia.
Qed.

(* ---- the LDM chunk step (cycleLog = 0) ---- *)
Ltac ldm_fin Hwin Hi c :=
  match goal with
  | |- forall e, _ -> _ -> _ =>
      let e := fresh "e" in let He1 := fresh "He1" in let He2 := fresh "He2" in
      intros e He1 He2; specialize (Hwin e He1 He2); specialize (Hi e ltac:(lia));
      unfold ldm_reduce_cell; destruct (Z.ltb_spec e c); try lia;
      rewrite u32_small by (consts; lia); lia
  | |- ldm_reduce_cell c ?e = _ =>
      let Hw := fresh "Hw" in
      assert (Hw : c + 2 <= e) by (apply Hwin; assumption);
      unfold ldm_reduce_cell; destruct (Z.ltb_spec e c); [lia|];
      unfold u32; consts; rewrite Z.mod_small by lia; lia
  | |- base _ + (?e - c) = _ =>
      let Hw := fresh "Hw" in
      assert (Hw : c + 2 <= e) by (apply Hwin; assumption);
      specialize (Hi e ltac:(lia)); lia
  | |- _ \/ _ => left; reflexivity
  | |- _ => try lia; try reflexivity
  end.

Lemma ldm_correction_lemma :
  forall freq s wl chunkStart chunkEnd,
    0 <= wl <= WINDOWLOG_MAX ->
    let w := ldm_window s in
    window_bounded w -> 0 <= ldm_loadedDictEnd s <= chunkStart - base w ->
    0 <= chunkStart - base w -> chunkStart <= chunkEnd -> chunkEnd - base w < two32 ->
    chunkEnd - chunkStart <= CHUNKSIZE_MAX ->
    lowLimit w <= dictLimit w -> dictLimit w <= chunkStart - base w ->
    let '(s', corr) := ldm_chunk_step freq s wl chunkStart chunkEnd in
    let w' := ldm_window s' in
    (* the position, its distance to every surviving index, and the limits' order are kept *)
    0 <= lowLimit w' /\ 0 <= nbOvf w' < two32 /\
    lowLimit w' <= dictLimit w' /\ dictLimit w' <= chunkEnd - base w' /\
    0 <= chunkEnd - base w' < two32 /\
    (* after the step the window reaches back at most maxDist, unless a still valid dictionary extends it *)
    (ldm_loadedDictEnd s' = 0 \/ (ldm_loadedDictEnd s' = ldm_loadedDictEnd s /\ corr = None)) /\
    match corr with
    | None => base w' = base w /\ ldm_table s' = ldm_table s /\ chunkEnd - base w <= CURRENT_MAX
    | Some c =>
        0 < c < two32 /\ base w' = base w + c /\
        2 ^ wl + START <= chunkStart - base w' <= 2 ^ wl + 2 /\
        ldm_table s' = ldm_reduceTable (ldm_table s) c /\
        (* every LDM entry within maxDist of the chunk start survives at the same byte *)
        (forall e, e <= chunkStart - base w -> (chunkStart - base w) - e <= 2 ^ wl ->
           ldm_reduce_cell c e = e - c /\ base w' + (e - c) = base w + e)
    end.
Proof.
  intros freq s wl chunkStart chunkEnd Hwl w Hb Hlde H0 Hle Hend Hn Hlim Hdl.
  assert (Hp : params_ok 0 wl) by (unfold params_ok; consts; revert Hwl; consts; lia).
  pose proof (params_pow _ _ Hp) as [_ Hmd].
  assert (Hmax : u32 (Z.shiftl 1 wl) = 2 ^ wl).
  { revert Hwl. consts. intro. rewrite shiftl1 by lia. apply u32_small. consts. lia. }
  unfold ldm_chunk_step. rewrite Hmax. fold w.
  assert (Hsmall : minIndexToOverflowCorrect 0 wl + CHUNKSIZE_MAX <= CURRENT_MAX + 1).
  { apply chunk_size_condition; [assumption | left; lia]. }
  destruct (window_needOverflowCorrection freq w 0 (2 ^ wl) (ldm_loadedDictEnd s) chunkStart chunkEnd) eqn:Hneed.
  - pose proof (need_implies_correctable_lemma _ _ _ _ _ _ _ _ Hp H0 Hle Hend Hn Hsmall Hneed) as Hmin.
    pose proof (correction_preserves_window_lemma w 0 wl chunkStart Hp Hb ltac:(lia) Hmin) as Hcorr.
    cbv zeta in Hcorr.
    destruct (window_correctOverflow w 0 (2 ^ wl) chunkStart) as [w1 c] eqn:Ew.
    destruct Hcorr as (Hc1 & Hc2 & Hc3 & Hc4 & Hc5 & _ & Hs1 & Hs2 & Ho & Hd & Hl & Hns & _ & Hnb & Hi & Hwin).
    specialize (Ho Hlim). specialize (Hd Hdl).
    cbn [ldm_window ldm_loadedDictEnd ldm_table].
    (* enforceMaxDist on the corrected window, with loadedDictEnd = 0 *)
    unfold window_enforceMaxDist, idx.
    assert (Hbase : base w1 = base w + c).
    { unfold window_correctOverflow in Ew. inversion Ew. reflexivity. }
    assert (Hce : 0 <= chunkEnd - base w1 < two32) by (revert Hc2 Hc4 Hend; consts; lia).
    rewrite (u32_small (chunkEnd - base w1)) by assumption.
    rewrite Z.add_0_r, (u32_small (2 ^ wl)) by (consts; lia).
    assert (Hw1 : 0 <= lowLimit w1 < two32 /\ 0 <= dictLimit w1 < two32).
    { revert Hs1 Hs2 Hd Hc5. consts. change (2 ^ 0) with 1. lia. }
    change (2 ^ 0) with 1 in Hc5.
    pose proof (u32_range (nbOvf w + 1)) as Hur. rewrite <- Hnb in Hur.
    destruct (Z.gtb_spec (chunkEnd - base w1) (2 ^ wl)) as [Hgt|Hngt].
    + rewrite (u32_small (chunkEnd - base w1 - 2 ^ wl)) by lia.
      destruct (Z.ltb_spec (lowLimit w1) (chunkEnd - base w1 - 2 ^ wl));
        cbn [set_low set_dictLimit lowLimit dictLimit base nbOvf ldm_window ldm_loadedDictEnd ldm_table];
        match goal with |- context [if ?a <? ?b then _ else _] => destruct (Z.ltb_spec a b) end;
        cbn [set_low set_dictLimit lowLimit dictLimit base nbOvf ldm_window ldm_loadedDictEnd ldm_table];
        consts; repeat split; ldm_fin Hwin Hi c.
    + cbn [ldm_window ldm_loadedDictEnd ldm_table].
      consts; repeat split; ldm_fin Hwin Hi c.
  - apply need_false in Hneed. unfold idx in Hneed. rewrite u32_small in Hneed by lia.
    destruct Hb as [Hlow [Hdlb Hnb]].
    cbn [ldm_window ldm_loadedDictEnd ldm_table]. fold w.
    unfold window_enforceMaxDist, idx. rewrite (u32_small (chunkEnd - base w)) by lia.
    set (lde := ldm_loadedDictEnd s) in *.
    destruct (Z.gtb_spec (chunkEnd - base w) (u32 (2 ^ wl + lde))) as [Hgt|Hngt].
    + assert (Hge : 2 ^ wl <= chunkEnd - base w).
      { unfold u32 in Hgt. revert Hgt Hlde Hmd Hend. consts. intros.
        assert (2 ^ wl + lde < 4294967296 \/ 4294967296 <= 2 ^ wl + lde) as [Hc|Hc] by lia.
        - rewrite Z.mod_small in Hgt by lia. lia.
        - lia. }
      rewrite (u32_small (chunkEnd - base w - 2 ^ wl)) by lia.
      destruct (Z.ltb_spec (lowLimit w) (chunkEnd - base w - 2 ^ wl));
        cbn [set_low set_dictLimit lowLimit dictLimit base nbOvf ldm_window ldm_loadedDictEnd ldm_table];
        match goal with |- context [if ?a <? ?b then _ else _] => destruct (Z.ltb_spec a b) end;
        cbn [set_low set_dictLimit lowLimit dictLimit base nbOvf ldm_window ldm_loadedDictEnd ldm_table];
        consts; repeat split; try lia; try (left; reflexivity).
    + cbn [ldm_window ldm_loadedDictEnd ldm_table]. consts. repeat split; try lia. right. split; reflexivity.
Qed.
