(* C15 model, part 5: the counters of the multithreaded compressor that grow with the length of ONE frame.
   Source: lib/compress/zstdmt_compress.c
     - job bookkeeping: ZSTDMT_CCtx_s.{nextJobID, doneJobID, jobIDMask} (all `unsigned`), reset to 0 by
       ZSTDMT_initCStream_internal (once per frame); ZSTDMT_createCompressionJob ("table is full" test, firstJob,
       nextJobID++), ZSTDMT_flushProduced (doneJobID++ when a job is completely flushed);
     - the 32-bit index window of the serial long-distance matcher: ZSTDMT_serialState_reset loads the raw-content
       dictionary / prefix with ZSTD_window_update (no size limit), ZSTDMT_serialState_update appends each job.
   NO proofs in this file. *)
From Coq Require Import ZArith Bool List.
From ZV.Index Require Import Window.
Import ListNotations.
Local Open Scope Z_scope.

(* ---------------- job counters ---------------- *)
Record mtc : Type := mkMtc {
  nextJobID : Z;     (* unsigned : number of jobs created so far in this frame, mod 2^32 *)
  doneJobID : Z;     (* unsigned : number of jobs completely flushed so far, mod 2^32 *)
  jobIDMask : Z      (* unsigned : (size of the jobs table) - 1, a power of two minus one *)
}.

(* ZSTDMT_initCStream_internal *)
Definition mt_frame_start (mask : Z) : mtc := mkMtc 0 0 mask.

(* ZSTDMT_createCompressionJob: if (mtctx->nextJobID > mtctx->doneJobID + mtctx->jobIDMask) return 0;  "table is full" *)
Definition mt_table_full (m : mtc) : bool := nextJobID m >? u32 (doneJobID m + jobIDMask m).

(* fields of the job description computed from the counter *)
Definition mt_firstJob (m : mtc) : bool := nextJobID m =? 0.          (* jobs[..].firstJob = (nextJobID==0); cdict only then *)
Definition mt_slot (m : mtc) : Z := Z.land (nextJobID m) (jobIDMask m). (* jobID = nextJobID & jobIDMask *)

(* the job is posted: nextJobID++ *)
Definition mt_post (m : mtc) : mtc := mkMtc (u32 (nextJobID m + 1)) (doneJobID m) (jobIDMask m).

(* ZSTDMT_flushProduced: "if (mtctx->doneJobID < mtctx->nextJobID) return 1;  some more jobs ongoing" *)
Definition mt_jobs_pending (m : mtc) : bool := doneJobID m <? nextJobID m.
(* a completed job has been copied out entirely: doneJobID++ *)
Definition mt_done (m : mtc) : mtc := mkMtc (nextJobID m) (u32 (doneJobID m + 1)) (jobIDMask m).

(* One ZSTD_compressStream2(cctx, out, in, ZSTD_e_flush) call that carries input, on a context whose previous
   jobs are all flushed (doneJobID = nextJobID: the state every such call returns in).  A job is created unless the
   table is declared full; it is then compressed, flushed and its slot freed.  None = the call cannot progress:
   no job is created, nothing is pending, ZSTDMT_flushProduced keeps answering "input not converted into a job
   yet" (1) and the for(;;) of ZSTD_compressStream2 never terminates. *)
Definition mt_flush_call (m : mtc) : option mtc :=
  if mt_table_full m then None else Some (mt_done (mt_post m)).

Fixpoint mt_flush_calls (k : nat) (m : mtc) : option mtc :=
  match k with
  | O => Some m
  | S k' => match mt_flush_calls k' m with Some m' => mt_flush_call m' | None => None end
  end.

(* executable observer for the tie: how many of [fuel] flush calls succeed, and the counters at that point *)
Fixpoint mt_flush_until_stuck (fuel : nat) (m : mtc) (n : Z) : Z * mtc :=
  match fuel with
  | O => (n, m)
  | S f => match mt_flush_call m with
           | Some m' => mt_flush_until_stuck f m' (n + 1)
           | None => (n, m)
           end
  end.

(* the same bookkeeping with counters that cannot wrap (what the tests are meant to say) *)
Definition ideal_table_full (next done mask : Z) : bool := next >? done + mask.
Definition ideal_firstJob (next : Z) : bool := next =? 0.
Definition ideal_jobs_pending (next done : Z) : bool := done <? next.

(* ---------------- serial LDM window ---------------- *)
(* ZSTDMT_serialState_reset, LDM enabled, dictContentType = ZSTD_dct_rawContent, dictSize > 0:
     ZSTD_window_init(&ldmState.window); ZSTD_window_update(&ldmState.window, dict, dictSize, 0);
     ldmState.loadedDictEnd = forceWindow ? 0 : (U32)(dictEnd - ldmState.window.base);
   [limit] = Some L models a loader that keeps only the last L bytes of the dictionary (as
   ZSTD_loadDictionaryContent does with L = ZSTD_CURRENT_MAX - ZSTD_WINDOW_START_INDEX); None = no limit. *)
Definition mt_serial_ldm_load (limit : option Z) (lit dict dictSize : Z) (forceWindow : bool) : window * Z :=
  let '(d, n) := match limit with
                 | Some L => if dictSize >? L then (dict + (dictSize - L), L) else (dict, dictSize)
                 | None => (dict, dictSize)
                 end in
  let w0 := window_init lit in
  if n =? 0 then (w0, 0) else
  let w := fst (window_update w0 d n false) in
  (w, if forceWindow then 0 else idx w (d + n)).

(* ZSTDMT_serialState_update, first statement for a job: ZSTD_window_update(&ldmState.window, src.start, src.size, 0) *)
Definition mt_serial_ldm_job (w : window) (src size : Z) : window := fst (window_update w src size false).

(* "every U32 index of this window is the exact pointer difference": the current index did not wrap *)
Definition window_exact (w : window) : bool := (0 <=? nextSrc w - base w) && (nextSrc w - base w <? two32).

(* what zstdmt_compress.c does (since the repair of finding C15-zstdmt-ldm-prefix-index-wraps):
   maxDictSize = ZSTD_CURRENT_MAX - ZSTD_WINDOW_START_INDEX *)
Definition MT_SERIAL_DICT_LIMIT : option Z := Some (CURRENT_MAX - START).
