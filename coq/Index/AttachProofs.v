(* C15 proofs, round 3: an attached dictionary (ms->dictMatchState != NULL) stays adjacent to the prefix.

   The dictionary-aware block compressors (ZSTD_dictMatchState / ZSTD_dedicatedDictSearch modes) translate an index of
   the attached CDict into the working context's index space with
       dictIndexDelta = prefixLowestIndex - (dictEnd - dictBase),      prefixLowestIndex = ms->window.dictLimit
   i.e. they assume that the dictionary ends exactly where the prefix of the window starts.  ms->loadedDictEnd records
   the index at which the dictionary was attached (ZSTD_resetCCtx_byAttachingCDict: loadedDictEnd = window.dictLimit), so
   the assumption is       dictMatchState != NULL  ->  loadedDictEnd == window.dictLimit.
   Frame mode re-establishes it in every block (ZSTD_checkDictValidity); block mode (ZSTD_compressBlock) did not until
   /repo 00d59f3 (finding C15-block-mode-attached-cdict-survives-noncontiguous-input): after a block at a new address the
   prefix starts at a higher index while the dictionary was still attached.

   [attached_dict_adjacent_lemma]: for every history, in both builds, the assumption holds after every operation.
   No arithmetic is involved: the statement is about which code paths reset dictMatchState.
   [block_mode_without_check_refuted]: the block-mode step WITHOUT the test of 00d59f3 breaks it (concrete history). *)
From Coq Require Import ZArith Lia Bool List.
From ZV.Index Require Import Window Reduce Overflow History.
Import ListNotations.
Local Open Scope Z_scope.

Definition ms_adjacent (ms : matchState) : Prop :=
  ms_dms ms = true -> ms_loadedDictEnd ms = dictLimit (ms_window ms).

Definition AInv (h : hstate) : Prop := ms_adjacent (h_ms h).

(* the one state-dependent side condition: "copy dictionary offsets" of ZSTD_resetCCtx_byCopyingCDict runs right after
   ZSTD_resetCCtx_internal, which has invalidated the match state (no dictionary attached) *)
Definition op_okA (h : hstate) (o : op) : Prop :=
  match o with
  | OpCopyCDict _ _ _ => ms_dms (h_ms h) = false
  | _ => True
  end.

Fixpoint hist_okA (freq : bool) (h : hstate) (ops : list op) : Prop :=
  match ops with
  | [] => True
  | o :: rest => op_okA h o /\ hist_okA freq (step freq h o) rest
  end.

Lemma ovf_adjacent freq ms p ip iend :
  ms_adjacent ms -> ms_adjacent (fst (overflowCorrectIfNeeded freq ms p ip iend)).
Proof.
  intro H. unfold overflowCorrectIfNeeded.
  destruct (window_needOverflowCorrection _ _ _ _ _ _ _); [|exact H].
  destruct (window_correctOverflow _ _ _ _) as [w' c]. cbn [fst].
  unfold ms_adjacent. cbn [ms_dms]. discriminate.
Qed.

Lemma ovf_dms_false freq ms p ip iend :
  ms_dms ms = false -> ms_dms (fst (overflowCorrectIfNeeded freq ms p ip iend)) = false.
Proof.
  intro H. unfold overflowCorrectIfNeeded.
  destruct (window_needOverflowCorrection _ _ _ _ _ _ _); [|exact H].
  destruct (window_correctOverflow _ _ _ _) as [w' c]. reflexivity.
Qed.

Lemma search_effect_adjacent p ms first ip bs :
  ms_adjacent ms -> ms_adjacent (fst (block_search_effect p ms first ip bs)).
Proof.
  intro H. unfold block_search_effect.
  destruct (bs <? TINY_BLOCK); [exact H|]. cbn [fst].
  destruct (ms_dms ms) eqn:Ed.
  - (* a dictionary is attached: not ZSTD_noDict mode, no first pass of btultra2 *)
    rewrite andb_false_r, andb_false_r. cbn [andb]. exact H.
  - match goal with |- context [if ?c then _ else _] => destruct c end; [|exact H].
    unfold ms_adjacent, initStats_ultra. cbn [ms_dms]. rewrite Ed. discriminate.
Qed.

(* ZSTD_loadDictionaryContent never attaches anything *)
Lemma load_dms_false freq ms ls p src size fw drp forCDict :
  ms_dms ms = false ->
  ms_dms (fst (fst (fst (loadDictionaryContent freq ms ls p src size fw drp forCDict)))) = false.
Proof.
  intro Hd. unfold loadDictionaryContent.
  repeat match goal with |- context [if ?c then _ else _] => destruct c end; cbn [fst ms_dms]; try exact Hd.
  all: match goal with |- context [overflowCorrectIfNeeded ?f ?m ?pp ?a ?b] =>
         pose proof (ovf_dms_false f m pp a b) as Ho; destruct (overflowCorrectIfNeeded f m pp a b) as [msx cx] end;
       cbn [fst ms_dms] in *; apply Ho; exact Hd.
Qed.

(* one block of ZSTD_compress_frameChunk establishes the property whatever the state before *)
Lemma frame_block_adjacent freq h ip bs : AInv (frame_block freq h ip bs).
Proof.
  unfold frame_block.
  destruct (overflowCorrectIfNeeded freq (h_ms h) (h_params h) ip (ip + bs)) as [ms1 c1].
  set (maxDist := u32 (Z.shiftl 1 (p_windowLog (h_params h)))).
  destruct (checkDictValidity (ms_window ms1) (ip + bs) maxDist (ms_loadedDictEnd ms1) (ms_dms ms1)) as [lde2 dms2] eqn:Ecd.
  assert (H2 : dms2 = true -> lde2 = dictLimit (ms_window ms1)).
  { unfold checkDictValidity in Ecd.
    destruct (_ || _) eqn:Eb in Ecd.
    - inversion Ecd; subst. discriminate.
    - inversion Ecd; subst. intros _. apply orb_false_iff in Eb. destruct Eb as [_ Eb].
      apply negb_false_iff in Eb. apply Z.eqb_eq in Eb. exact Eb. }
  destruct (window_enforceMaxDist (ms_window ms1) ip maxDist (Some lde2) (Some dms2)) as [[w3 lde3] dms3] eqn:Een.
  assert (H3 : match dms3 with Some b => b | None => dms2 end = true ->
               match lde3 with Some v => v | None => lde2 end = dictLimit w3).
  { unfold window_enforceMaxDist in Een.
    destruct (_ >? _) in Een.
    - inversion Een; subst. discriminate.
    - inversion Een; subst. exact H2. }
  match goal with |- context [block_search_effect ?p ?m ?f ?i ?b] =>
    pose proof (search_effect_adjacent p m f i b) as Hs; destruct (block_search_effect p m f i b) as [ms5 first'] end.
  cbn [fst] in Hs. unfold AInv. cbn [h_ms]. apply Hs.
  unfold ms_adjacent. cbn [ms_dms ms_loadedDictEnd ms_window]. exact H3.
Qed.

Lemma frame_blocks_adjacent freq blocks :
  forall h ip, blocks <> [] -> AInv (frame_blocks freq h ip blocks).
Proof.
  induction blocks as [|bs rest IH]; intros h ip Hne; [contradiction|].
  cbn [frame_blocks]. destruct rest as [|b2 rest'].
  - cbn [frame_blocks]. apply frame_block_adjacent.
  - apply IH. discriminate.
Qed.

Lemma sumZ_nil_zero : sumZ [] = 0. Proof. reflexivity. Qed.

Lemma step_adjacent freq h o : AInv h -> op_okA h o -> AInv (step freq h o).
Proof.
  intros Ha Hok. destruct o as [p h3 ldm forced lit ldmLit lds dict | cdictEnd cdl | src blocks | src size | ntu t | t | w lde ntu].
  - (* OpBegin: ZSTD_invalidateMatchState detaches; the dictionary load never attaches *)
    cbn [step].
    set (ms1 := reset_matchState (h_ms h) (needsIndexReset (ms_window (h_ms h)) lds forced) lit h3).
    assert (Hd : ms_dms ms1 = false).
    { unfold ms1, reset_matchState. destruct (needsIndexReset _ _ _); reflexivity. }
    destruct dict as [d|].
    + match goal with |- context [loadDictionaryContent ?f ?m ?l ?pp ?a ?b ?c ?d0 ?e] =>
        pose proof (load_dms_false f m l pp a b c d0 e Hd) as Hl;
        destruct (loadDictionaryContent f m l pp a b c d0 e) as [[[ms2 ldm2] fnc] corr] end.
      cbn [fst] in Hl. unfold AInv, ms_adjacent. cbn [h_ms]. rewrite Hl. discriminate.
    + unfold AInv, ms_adjacent. cbn [h_ms]. rewrite Hd. discriminate.
  - (* OpAttach: loadedDictEnd = dictLimit by construction *)
    cbn [step]. unfold AInv, attach_cdict. cbn [h_ms].
    destruct (u32 (cdictEnd - cdl) =? 0); [exact Ha|].
    unfold ms_adjacent. cbn [ms_dms ms_loadedDictEnd ms_window]. reflexivity.
  - (* OpContinue: the last block of the call has gone through ZSTD_checkDictValidity *)
    cbn [step]. destruct (Z.eqb_spec (sumZ blocks) 0) as [|Hnz]; [exact Ha|].
    apply frame_blocks_adjacent. intro E. subst blocks. apply Hnz. reflexivity.
  - (* OpBlockMode: the test of /repo 00d59f3 *)
    cbn [step]. destruct (size =? 0); [exact Ha|].
    destruct (overflowCorrectIfNeeded freq _ _ src (src + size)) as [ms2 c2].
    match goal with |- context [block_search_effect ?p ?m ?f ?i ?b] =>
      pose proof (search_effect_adjacent p m f i b) as Hs; destruct (block_search_effect p m f i b) as [ms3 first'] end.
    cbn [fst] in Hs. unfold AInv. cbn [h_ms]. apply Hs.
    unfold ms_adjacent, block_mode_dict_check. cbn [ms_dms ms_loadedDictEnd ms_window].
    destruct (Z.eqb_spec (ms_loadedDictEnd ms2) (dictLimit (ms_window ms2))); [intros _; assumption | discriminate].
  - cbn [step]. exact Ha.
  - cbn [step]. destruct (h_ldm h); exact Ha.
  - cbn [step op_okA] in *. unfold AInv, ms_adjacent. cbn [h_ms ms_dms]. rewrite Hok. discriminate.
Qed.

Lemma attached_dict_adjacent_lemma :
  forall freq ops h, AInv h -> hist_okA freq h ops -> AInv (run freq h ops).
Proof.
  intros freq ops. induction ops as [|o ops IH]; intros h Ha Hok; [exact Ha|].
  destruct Hok as [Ho Hrest]. unfold run. cbn [fold_left]. fold (run freq (step freq h o) ops).
  apply IH; [apply step_adjacent; assumption | exact Hrest].
Qed.

Lemma AInv_init p : AInv (h_init p).
Proof. unfold AInv, ms_adjacent, h_init. cbn. discriminate. Qed.

(* what it means for the block compressors: when the match state is in a dictionary-aware mode
   (ZSTD_matchState_dictMode: no extDict and dictMatchState != NULL) the prefix starts at the attach point *)
Lemma AInv_meaning h :
  AInv h ->
  let ms := h_ms h in
  window_hasExtDict (ms_window ms) = false -> ms_dms ms = true ->
  dictLimit (ms_window ms) = ms_loadedDictEnd ms.
Proof. intros H ms _ Hd. symmetry. apply H. exact Hd. Qed.

(* ---- refutation: block mode without the test (the code before /repo 00d59f3) ---- *)
Definition step_blockmode_unchecked (frequently : bool) (h : hstate) (src size : Z) : hstate :=
  if size =? 0 then h
  else
    let h1 := continue_update h src size in
    let '(ms2, _) := overflowCorrectIfNeeded frequently (h_ms h1) (h_params h1) src (src + size) in
    let '(ms3, first') := block_search_effect (h_params h1) ms2 (h_optFirst h1) src size in
    mkH ms3 (h_ldm h1) (h_params h1) (h_forceNC h1) first'.

(* begin, attach a CDict of 4096 bytes (its window ends at index 4098), one block of 1000 bytes, then a block of 2000
   bytes at the SAME address (input buffer re-used): the unchecked step leaves the dictionary attached with the prefix
   starting 1000 indices above the attach point and no extDict (ZSTD_dictMatchState mode: every dictionary offset is
   1000 too short); the step of the current code detaches it. *)
Lemma block_mode_without_check_refuted :
  let p := mkCParams 13 13 14 2 false in
  let h0 := run false (h_init p) [OpBegin p 0 false true 100 100 0 None; OpAttach 4098 2; OpBlockMode 1000000 1000] in
  let bad := step_blockmode_unchecked false h0 1000000 2000 in
  let good := step false h0 (OpBlockMode 1000000 2000) in
  AInv h0 /\
  ms_dms (h_ms bad) = true /\ window_hasExtDict (ms_window (h_ms bad)) = false /\
  ms_loadedDictEnd (h_ms bad) = 4098 /\ dictLimit (ms_window (h_ms bad)) = 5098 /\ ~ AInv bad /\
  ms_dms (h_ms good) = false /\ ms_window (h_ms good) = ms_window (h_ms bad).
Proof.
  cbv zeta.
  split. { unfold AInv, ms_adjacent. vm_compute. intros _. reflexivity. }
  split. { vm_compute. reflexivity. }
  split. { vm_compute. reflexivity. }
  split. { vm_compute. reflexivity. }
  split. { vm_compute. reflexivity. }
  split. { unfold AInv, ms_adjacent. vm_compute. intro H. specialize (H eq_refl). discriminate. }
  split; vm_compute; reflexivity.
Qed.

Lemma attached_dict_history_example_lemma :
  let p := mkCParams 13 13 14 2 false in
  let ops := [OpBegin p 0 false true 100 100 0 None; OpAttach 4098 2; OpContinue 1000000 [1000; 500];
              OpBlockMode 1001500 700; OpBlockMode 2000000 64] in
  AInv (h_init p) /\ hist_okA false (h_init p) ops /\
  ms_dms (h_ms (run false (h_init p) (firstn 4 ops))) = true /\
  ms_dms (h_ms (run false (h_init p) ops)) = false.
Proof.
  cbv zeta. split; [apply AInv_init|]. split; [cbn [hist_okA op_okA]; tauto|]. split; vm_compute; reflexivity.
Qed.

(* ---- the test of 00d59f3 is not over-eager: while the input stays contiguous (and no index correction runs, which
   drops every dictionary by design) a block-mode block keeps the attached dictionary ---- *)
Lemma block_mode_keeps_dict_lemma :
  forall freq h src size,
    AInv h -> ms_dms (h_ms h) = true -> h_forceNC h = false ->
    src = nextSrc (ms_window (h_ms h)) -> size <> 0 ->
    let h1 := continue_update h src size in
    window_needOverflowCorrection freq (ms_window (h_ms h1))
        (cycleLog_of (p_chainLog (h_params h1)) (p_strategy (h_params h1)))
        (u32 (Z.shiftl 1 (p_windowLog (h_params h1)))) (ms_loadedDictEnd (h_ms h1)) src (src + size) = false ->
    let h' := step freq h (OpBlockMode src size) in
    ms_dms (h_ms h') = true /\ ms_loadedDictEnd (h_ms h') = ms_loadedDictEnd (h_ms h) /\
    dictLimit (ms_window (h_ms h')) = dictLimit (ms_window (h_ms h)).
Proof.
  intros freq h src size Ha Hd Hf Hs Hnz h1 Hno. cbv zeta.
  cbn [step]. destruct (Z.eqb_spec size 0) as [|_]; [contradiction|].
  fold h1.
  unfold overflowCorrectIfNeeded. rewrite Hno.
  (* the state after the window update: same dictLimit, same loadedDictEnd, dictionary still attached *)
  assert (H1 : ms_dms (h_ms h1) = true /\ ms_loadedDictEnd (h_ms h1) = ms_loadedDictEnd (h_ms h) /\
               dictLimit (ms_window (h_ms h1)) = dictLimit (ms_window (h_ms h))).
  { unfold h1, continue_update, window_update.
    destruct (Z.eqb_spec size 0) as [|_]; [contradiction|].
    rewrite Hf, Hs, Z.eqb_refl. cbn [negb orb].
    match goal with |- context [if ?c then set_low _ _ else _] => destruct c end;
      cbn [h_ms ms_dms ms_loadedDictEnd ms_window set_low set_nextSrc dictLimit]; auto. }
  destruct H1 as (Hd1 & Hl1 & Hdl1).
  assert (Hadj : ms_loadedDictEnd (h_ms h1) = dictLimit (ms_window (h_ms h1))).
  { rewrite Hl1, Hdl1. apply Ha. exact Hd. }
  unfold block_search_effect.
  assert (Hc : ms_dms (block_mode_dict_check (h_ms h1)) = true).
  { unfold block_mode_dict_check. cbn [ms_dms]. rewrite Hadj, Z.eqb_refl. exact Hd1. }
  destruct (size <? TINY_BLOCK).
  - cbn [h_ms]. split; [exact Hc|]. unfold block_mode_dict_check. cbn [ms_loadedDictEnd ms_window]. auto.
  - rewrite Hc. rewrite andb_false_r, andb_false_r. cbn [andb h_ms].
    split; [exact Hc|]. unfold block_mode_dict_check. cbn [ms_loadedDictEnd ms_window]. auto.
Qed.

(* ---- observation 6.6 of docs/C15.md as a statement about the model: block mode does not enforce the window, so an index
   correction is visible there.  Frequent-correction build, windowLog 10, a 100-byte dictionary loaded into the context:
   after one 128 KiB block in BLOCK mode the dictionary is still in force (loadedDictEnd = 102), lowLimit = 2 and
   ZSTD_getLowestMatchIndex = 2: a table cell holding index 5000 (126174 bytes back, far beyond the 1 KiB window) can be
   used; the next block-mode block starts with a correction that turns that cell into 0.  The same bytes in FRAME mode:
   ZSTD_checkDictValidity has dropped the dictionary after the first block and the lowest usable index is curr - 1024, so
   the cell was out of reach anyway and the correction changes nothing that can be used. *)
Lemma block_mode_correction_is_visible_lemma :
  let p := mkCParams 10 4 4 1 false in
  let begin_ := OpBegin p 0 false true 1000 1000 100 (Some (mkDict 50000 100 false false)) in
  let cell := mkTables (5000 :: repeat 0 15) [] [] in
  let hb := run true (h_init p) [begin_; OpBlockMode 100000 131072; OpFinder 131174 cell] in
  let hf := run true (h_init p) [begin_; OpContinue 100000 [131072]; OpFinder 131174 cell] in
  let curr := 131174 in
  (* block mode: the cell is usable although it is 126174 bytes back *)
  ms_loadedDictEnd (h_ms hb) = 102 /\ getLowestMatchIndex (ms_window (h_ms hb)) (ms_loadedDictEnd (h_ms hb)) curr 10 = 2 /\
  (* ... and the correction at the start of the next block removes it *)
  step_ok true hb (OpBlockMode 231072 131072) = true /\
  nbOvf (ms_window (h_ms (step true hb (OpBlockMode 231072 131072)))) = 1 /\
  hd 1 (hashTable (ms_tables (h_ms (step true hb (OpBlockMode 231072 131072))))) = 0 /\
  (* frame mode: the cell was already out of reach *)
  ms_loadedDictEnd (h_ms hf) = 0 /\ getLowestMatchIndex (ms_window (h_ms hf)) (ms_loadedDictEnd (h_ms hf)) curr 10 = curr - 1024.
Proof. cbv zeta. repeat split; vm_compute; reflexivity. Qed.
