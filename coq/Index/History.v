(* C15 model, part 4: the life of one compression context as a history of operations.
   This is the call structure around the index machinery:
     ZSTD_compressBegin_internal  -> ZSTD_resetCCtx_internal (index reset policy)
                                  -> ZSTD_reset_matchState / ZSTD_invalidateMatchState
                                  -> ZSTD_loadDictionaryContent
     ZSTD_resetCCtx_byAttachingCDict (window part)
     ZSTD_compressContinue_internal -> ZSTD_window_update, then per block (ZSTD_compress_frameChunk)
                                       ZSTD_overflowCorrectIfNeeded, ZSTD_checkDictValidity,
                                       ZSTD_window_enforceMaxDist, nextToUpdate clamp,
                                       ZSTD_ldm_generateSequences (window part, per 1 MiB chunk)
   The match finders themselves are NOT modelled: what they write (table entries, nextToUpdate)
   is an arbitrary [OpFinder] step.  NO proofs in this file. *)
From Coq Require Import ZArith Bool List.
From ZV.Gen Require Gen_Sizes.
From ZV.Index Require Import Window Reduce Overflow.
Import ListNotations.
Local Open Scope Z_scope.

Definition ZSTD_dfast : Z := 2.
Definition ZSTD_btopt : Z := 7.
Definition ZSTD_btultra : Z := 8.
Definition ZSTD_btultra2 : Z := 9.
Definition PREDEF_THRESHOLD : Z := 8.      (* ZSTD_PREDEF_THRESHOLD, a macro local to zstd_opt.c *)
Definition LDM_MAX_CHUNK : Z := 1048576.   (* kMaxChunkSize, a local constant of ZSTD_ldm_generateSequences *)
(* ZSTD_buildSeqStore(): blocks below MIN_CBLOCK_SIZE+ZSTD_blockHeaderSize+1+1 bytes are not searched,
   so ZSTD_ldm_generateSequences is not called for them *)
Definition TINY_BLOCK : Z := Z.of_N Gen_Sizes.c_MIN_CBLOCK_SIZE + Z.of_N Gen_Sizes.c_ZSTD_blockHeaderSize + 2.

Record hstate : Type := mkH {
  h_ms : matchState;
  h_ldm : option ldmState;    (* Some iff appliedParams.ldmParams.enableLdm == ZSTD_ps_enable *)
  h_params : cparams;         (* appliedParams *)
  h_forceNC : bool;           (* ms->forceNonContiguous *)
  h_optFirst : bool           (* ms->opt.litLengthSum == 0 : no block of this frame went through the optimal parser yet *)
}.

Definition zero_table (t : list Z) : list Z := map (fun _ => 0) t.
Definition zero_tables (t : tables) : tables :=
  mkTables (zero_table (hashTable t)) (zero_table (chainTable t)) (zero_table (hashTable3 t)).

(* ZSTD_invalidateMatchState() *)
Definition invalidateMatchState (ms : matchState) : matchState :=
  let w := window_clear (ms_window ms) in
  mkMS w 0 (dictLimit w) false (ms_hashLog3 ms) (ms_dds ms) (ms_tables ms).

(* the index part of ZSTD_resetCCtx_internal + ZSTD_reset_matchState.
   [forced]: !zc->initialized or the workspace had to be re-allocated;
   [lit]: address of the " " literal used by ZSTD_window_init;
   a reset leaves every table zeroed (tables marked dirty, then ZSTD_cwksp_clean_tables);
   without a reset the tables keep their stale content. *)
Definition needsIndexReset (w : window) (loadedDictSize : Z) (forced : bool) : bool :=
  indexTooCloseToMax w || dictTooBig loadedDictSize || forced.

Definition reset_matchState (ms : matchState) (doReset : bool) (lit hashLog3 : Z) : matchState :=
  let ms1 :=
    if doReset then mkMS (window_init lit) (ms_loadedDictEnd ms) (ms_nextToUpdate ms) (ms_dms ms)
                         hashLog3 (ms_dds ms) (zero_tables (ms_tables ms))
    else mkMS (ms_window ms) (ms_loadedDictEnd ms) (ms_nextToUpdate ms) (ms_dms ms)
              hashLog3 (ms_dds ms) (ms_tables ms) in
  invalidateMatchState ms1.

Definition CDictIndicesAreTagged (strategy : Z) : bool := (strategy =? ZSTD_fast) || (strategy =? ZSTD_dfast).

(* ZSTD_loadDictionaryContent(): window / index part.
   Returns (ms, ldm, forceNonContiguous, Some correction if overflow correction ran). *)
Definition loadDictionaryContent (frequently : bool) (ms : matchState) (ls : option ldmState) (p : cparams)
           (src srcSize : Z) (forceWindow detRefPrefix forCDict : bool)
  : matchState * option ldmState * bool * option Z :=
  let iend := src + srcSize in
  let maxDictSize0 := u32 (CURRENT_MAX - START) in
  let maxDictSize :=
    if CDictIndicesAreTagged (p_strategy p) && forCDict
    then Z.min maxDictSize0 (u32 (u32 (Z.shiftl 1 (32 - SHORT_CACHE_TAG_BITS)) - START))
    else maxDictSize0 in
  let '(ip1, size1) := if srcSize >? maxDictSize then (iend - maxDictSize, maxDictSize) else (src, srcSize) in
  let w1 := fst (window_update (ms_window ms) ip1 size1 false) in
  let ls1 :=
    match ls with
    | Some l =>
        let lw := fst (window_update (ldm_window l) ip1 size1 false) in
        Some (mkLdm lw (if forceWindow then 0 else idx lw iend) (ldm_table l))
    | None => None
    end in
  let '(ip2, size2) :=
    if p_strategy p <? ZSTD_btultra then
      let m := u32 (Z.shiftl 8 (Z.min (Z.max (p_hashLog p) (p_chainLog p)) 28)) in
      if size1 >? m then (iend - m, m) else (ip1, size1)
    else (ip1, size1) in
  let ms1 := mkMS w1 (if forceWindow then 0 else idx w1 iend) (idx w1 ip2) (ms_dms ms)
                  (ms_hashLog3 ms) (ms_dds ms) (ms_tables ms) in
  if size2 <=? HASH_READ_SIZE then (ms1, ls1, detRefPrefix, None)
  else
    let '(ms2, corr) := overflowCorrectIfNeeded frequently ms1 p ip2 iend in
    let ms3 := mkMS (ms_window ms2) (ms_loadedDictEnd ms2) (idx (ms_window ms2) iend) (ms_dms ms2)
                    (ms_hashLog3 ms2) (ms_dds ms2) (ms_tables ms2) in
    (ms3, ls1, detRefPrefix, corr).

(* a dictionary to load: raw content at [d_src, d_src + d_size) *)
Record dictload : Type := mkDict {
  d_src : Z; d_size : Z; d_forceWindow : bool; d_detRefPrefix : bool
}.

(* the window part of ZSTD_resetCCtx_byAttachingCDict() after ZSTD_resetCCtx_internal():
   [cdictEnd] = (U32)(cdict->matchState.window.nextSrc - base), [cdictDictLimit] its dictLimit *)
Definition attach_cdict (ms : matchState) (cdictEnd cdictDictLimit : Z) : matchState :=
  let cdictLen := u32 (cdictEnd - cdictDictLimit) in
  if cdictLen =? 0 then ms
  else
    let w := ms_window ms in
    let w1 := if dictLimit w <? cdictEnd then window_clear (set_nextSrc w (base w + cdictEnd)) else w in
    mkMS w1 (dictLimit w1) (ms_nextToUpdate ms) true (ms_hashLog3 ms) (ms_dds ms) (ms_tables ms).

(* block mode (ZSTD_compressContinue_internal with frame == 0) has no ZSTD_checkDictValidity(); since /repo 00d59f3
   the second half of its test is applied after the correction:
     if (ms->loadedDictEnd != ms->window.dictLimit) ms->dictMatchState = NULL;
   (a non-contiguous segment ends the validity of an attached dictionary) *)
Definition block_mode_dict_check (ms : matchState) : matchState :=
  mkMS (ms_window ms) (ms_loadedDictEnd ms) (ms_nextToUpdate ms)
       (if ms_loadedDictEnd ms =? dictLimit (ms_window ms) then ms_dms ms else false)
       (ms_hashLog3 ms) (ms_dds ms) (ms_tables ms).

Inductive op : Type :=
| OpBegin (p : cparams) (hashLog3 : Z) (ldm : bool) (forced : bool) (lit ldmLit : Z)
          (loadedDictSize : Z) (dict : option dictload)
    (* ZSTD_compressBegin_internal without CDict, or with a CDict that is (re)loaded *)
| OpAttach (cdictEnd cdictDictLimit : Z)
    (* window part of ZSTD_resetCCtx_byAttachingCDict, right after an OpBegin without dictionary *)
| OpContinue (src : Z) (blocks : list Z)
    (* ZSTD_compressContinue_internal(frame = 1) on [src, src + sum blocks), cut in these blocks *)
| OpBlockMode (src size : Z)
    (* ZSTD_compressContinue_internal(frame = 0) : ZSTD_compressBlock *)
| OpFinder (nextToUpdate : Z) (t : tables)
    (* whatever a match finder writes: table entries and nextToUpdate *)
| OpLdmFinder (t : list Z)
    (* whatever the long-distance matcher inserts in its hash table *)
| OpCopyCDict (w : window) (loadedDictEnd nextToUpdate : Z).
    (* "copy dictionary offsets" of ZSTD_resetCCtx_byCopyingCDict, right after an OpBegin without dictionary:
       the working context takes over the CDict's window (the table copy is an OpFinder) *)

Definition sumZ (l : list Z) : Z := fold_left Z.add l 0.

(* the LDM part of one block: ZSTD_ldm_generateSequences(block) = chunks of at most LDM_MAX_CHUNK.
   [fuel] bounds the number of chunks (srcSize / LDM_MAX_CHUNK + 1 is enough). *)
Fixpoint ldm_chunks (fuel : nat) (frequently : bool) (s : ldmState) (windowLog chunkStart iend : Z) : ldmState :=
  match fuel with
  | O => s
  | S f =>
      if chunkStart <? iend then
        let remaining := iend - chunkStart in
        let chunkEnd := if remaining <? LDM_MAX_CHUNK then iend else chunkStart + LDM_MAX_CHUNK in
        let s1 := fst (ldm_chunk_step frequently s windowLog chunkStart chunkEnd) in
        ldm_chunks f frequently s1 windowLog chunkEnd iend
      else s
  end.

(* ZSTD_initStats_ultra(): after its first pass over the first block of a frame, btultra2 forgets that
   pass by moving the whole referential srcSize bytes down (zstd_opt.c) *)
Definition initStats_ultra (ms : matchState) (srcSize : Z) : matchState :=
  let w := ms_window ms in
  let dl := u32 (dictLimit w + u32 srcSize) in
  mkMS (mkWindow (nextSrc w) (base w - srcSize) (dictBase w) dl dl (nbOvf w))
       (ms_loadedDictEnd ms) dl (ms_dms ms) (ms_hashLog3 ms) (ms_dds ms) (ms_tables ms).

(* what ZSTD_buildSeqStore + the block compressor do to the index state of one block, apart from table
   writes: nothing for blocks below TINY_BLOCK; the btultra2 first pass (ZSTD_compressBlock_btultra2, selected
   only in ZSTD_noDict mode); any optimal-parser block makes opt.litLengthSum non-zero.
   Returns the match state and the new value of (opt.litLengthSum == 0). *)
Definition block_search_effect (p : cparams) (ms : matchState) (optFirst : bool) (ip bs : Z) : matchState * bool :=
  if bs <? TINY_BLOCK then (ms, optFirst)
  else
    let w := ms_window ms in
    let noDictMode := negb (window_hasExtDict w) && negb (ms_dms ms) in
    let ms' :=
      if (p_strategy p =? ZSTD_btultra2) && noDictMode && optFirst
         && (dictLimit w =? lowLimit w) && (idx w ip =? dictLimit w) && (bs >? PREDEF_THRESHOLD)
      then initStats_ultra ms bs else ms in
    (ms', if ZSTD_btopt <=? p_strategy p then false else optFirst).

(* one block of ZSTD_compress_frameChunk (index part) *)
Definition frame_block (frequently : bool) (h : hstate) (ip bs : Z) : hstate :=
  let p := h_params h in
  let maxDist := u32 (Z.shiftl 1 (p_windowLog p)) in
  let '(ms1, _) := overflowCorrectIfNeeded frequently (h_ms h) p ip (ip + bs) in
  let '(lde2, dms2) := checkDictValidity (ms_window ms1) (ip + bs) maxDist (ms_loadedDictEnd ms1) (ms_dms ms1) in
  let '(w3, lde3, dms3) := window_enforceMaxDist (ms_window ms1) ip maxDist (Some lde2) (Some dms2) in
  let lde3' := match lde3 with Some v => v | None => lde2 end in
  let dms3' := match dms3 with Some b => b | None => dms2 end in
  let ntu := if ms_nextToUpdate ms1 <? lowLimit w3 then lowLimit w3 else ms_nextToUpdate ms1 in
  let ms4 := mkMS w3 lde3' ntu dms3' (ms_hashLog3 ms1) (ms_dds ms1) (ms_tables ms1) in
  let ldm' :=
    match h_ldm h with
    | Some l => if bs <? TINY_BLOCK then Some l
                else Some (ldm_chunks (Z.to_nat (bs / LDM_MAX_CHUNK) + 1) frequently l (p_windowLog p) ip (ip + bs))
    | None => None
    end in
  let '(ms5, first') := block_search_effect p ms4 (h_optFirst h) ip bs in
  mkH ms5 ldm' p (h_forceNC h) first'.

Fixpoint frame_blocks (frequently : bool) (h : hstate) (ip : Z) (blocks : list Z) : hstate :=
  match blocks with
  | [] => h
  | bs :: rest => frame_blocks frequently (frame_block frequently h ip bs) (ip + bs) rest
  end.

(* window update at the top of ZSTD_compressContinue_internal *)
Definition continue_update (h : hstate) (src srcSize : Z) : hstate :=
  let ms := h_ms h in
  let '(w1, contiguous) := window_update (ms_window ms) src srcSize (h_forceNC h) in
  let ms1 := if contiguous then mkMS w1 (ms_loadedDictEnd ms) (ms_nextToUpdate ms) (ms_dms ms)
                                     (ms_hashLog3 ms) (ms_dds ms) (ms_tables ms)
             else mkMS w1 (ms_loadedDictEnd ms) (dictLimit w1) (ms_dms ms)
                       (ms_hashLog3 ms) (ms_dds ms) (ms_tables ms) in
  let ldm1 :=
    match h_ldm h with
    | Some l => Some (mkLdm (fst (window_update (ldm_window l) src srcSize false)) (ldm_loadedDictEnd l) (ldm_table l))
    | None => None
    end in
  mkH ms1 ldm1 (h_params h) (if contiguous then h_forceNC h else false) (h_optFirst h).

Definition step (frequently : bool) (h : hstate) (o : op) : hstate :=
  match o with
  | OpBegin p hashLog3 ldm forced lit ldmLit loadedDictSize dict =>
      let doReset := needsIndexReset (ms_window (h_ms h)) loadedDictSize forced in
      let ms1 := reset_matchState (h_ms h) doReset lit hashLog3 in
      let ldm1 :=
        if ldm then
          Some (mkLdm (window_init ldmLit) 0
                      (match h_ldm h with Some l => zero_table (ldm_table l) | None => [] end))
        else None in
      match dict with
      | None => mkH ms1 ldm1 p (h_forceNC h) true
      | Some d =>
          let '(ms2, ldm2, fnc, _) :=
            loadDictionaryContent frequently ms1 ldm1 p (d_src d) (d_size d)
                                  (d_forceWindow d) (d_detRefPrefix d) false in
          mkH ms2 ldm2 p fnc true
      end
  | OpAttach cdictEnd cdictDictLimit =>
      mkH (attach_cdict (h_ms h) cdictEnd cdictDictLimit) (h_ldm h) (h_params h) (h_forceNC h) (h_optFirst h)
  | OpContinue src blocks =>
      let srcSize := sumZ blocks in
      if srcSize =? 0 then h
      else frame_blocks frequently (continue_update h src srcSize) src blocks
  | OpBlockMode src size =>
      if size =? 0 then h
      else
        let h1 := continue_update h src size in
        let '(ms2, _) := overflowCorrectIfNeeded frequently (h_ms h1) (h_params h1) src (src + size) in
        let '(ms3, first') := block_search_effect (h_params h1) (block_mode_dict_check ms2) (h_optFirst h1) src size in
        mkH ms3 (h_ldm h1) (h_params h1) (h_forceNC h1) first'
  | OpFinder ntu t =>
      let ms := h_ms h in
      mkH (mkMS (ms_window ms) (ms_loadedDictEnd ms) ntu (ms_dms ms) (ms_hashLog3 ms) (ms_dds ms) t)
          (h_ldm h) (h_params h) (h_forceNC h) (h_optFirst h)
  | OpLdmFinder t =>
      match h_ldm h with
      | Some l => mkH (h_ms h) (Some (mkLdm (ldm_window l) (ldm_loadedDictEnd l) t)) (h_params h) (h_forceNC h) (h_optFirst h)
      | None => h
      end
  | OpCopyCDict w lde ntu =>
      let ms := h_ms h in
      mkH (mkMS w lde ntu (ms_dms ms) (ms_hashLog3 ms) (ms_dds ms) (ms_tables ms))
          (h_ldm h) (h_params h) (h_forceNC h) (h_optFirst h)
  end.

Definition run (frequently : bool) (h : hstate) (ops : list op) : hstate :=
  fold_left (step frequently) ops h.

(* a never-used context: ZSTD_createCCtx() zeroes the struct; the first ZSTD_resetCCtx_internal
   sees !initialized, i.e. [forced = true], and re-initialises the window *)
Definition h_init (p : cparams) : hstate :=
  mkH (mkMS (mkWindow 0 0 0 0 0 0) 0 0 false 0 false (mkTables [] [] [])) None p false true.

(* ------------------------------------------------------------------------------------------
   Executable "no index wrapped" observer: true iff every U32 index the code computes in this
   step is the exact (unbounded) pointer difference.  index_never_overflows proves it is
   always true; the tie also evaluates it on the real pointers. *)
Definition exact_idx (w : window) (p : Z) : bool := (0 <=? p - base w) && (p - base w <? two32).

Definition update_ok (w : window) (src srcSize : Z) (force : bool) : bool :=
  if srcSize =? 0 then true
  else if negb (src =? nextSrc w) || force then exact_idx w (nextSrc w) else true.

Definition ldm_block_ok (l : option ldmState) (p : Z) : bool :=
  match l with Some s => exact_idx (ldm_window s) p | None => true end.

(* the observer is split in the part about the match-state window and the part about the LDM window *)
Fixpoint frame_blocks_ok_ms (frequently : bool) (h : hstate) (ip : Z) (blocks : list Z) : bool :=
  match blocks with
  | [] => true
  | bs :: rest =>
      let h' := frame_block frequently h ip bs in
      exact_idx (ms_window (h_ms h')) ip && exact_idx (ms_window (h_ms h')) (ip + bs)
      && frame_blocks_ok_ms frequently h' (ip + bs) rest
  end.

Fixpoint frame_blocks_ok_ldm (frequently : bool) (h : hstate) (ip : Z) (blocks : list Z) : bool :=
  match blocks with
  | [] => true
  | bs :: rest =>
      let h' := frame_block frequently h ip bs in
      ldm_block_ok (h_ldm h') (ip + bs) && frame_blocks_ok_ldm frequently h' (ip + bs) rest
  end.

Definition step_ok_ms (frequently : bool) (h : hstate) (o : op) : bool :=
  match o with
  | OpBegin p hashLog3 ldm forced lit ldmLit loadedDictSize dict =>
      let w := ms_window (h_ms h) in
      let doReset := needsIndexReset w loadedDictSize forced in
      (doReset || exact_idx w (nextSrc w))
      && match dict with
         | None => true
         | Some d => exact_idx (ms_window (h_ms (step frequently h o))) (d_src d + d_size d)
         end
  | OpAttach _ _ => true
  | OpContinue src blocks =>
      let srcSize := sumZ blocks in
      if srcSize =? 0 then true
      else update_ok (ms_window (h_ms h)) src srcSize (h_forceNC h)
           && frame_blocks_ok_ms frequently (continue_update h src srcSize) src blocks
  | OpBlockMode src size =>
      if size =? 0 then true
      else update_ok (ms_window (h_ms h)) src size (h_forceNC h)
           && let h' := step frequently h o in
              exact_idx (ms_window (h_ms h')) src && exact_idx (ms_window (h_ms h')) (src + size)
  | OpFinder _ _ => true
  | OpLdmFinder _ => true
  | OpCopyCDict _ _ _ => true
  end.

Definition step_ok_ldm (frequently : bool) (h : hstate) (o : op) : bool :=
  match o with
  | OpBegin p hashLog3 ldm forced lit ldmLit loadedDictSize dict =>
      match dict with
      | None => true
      | Some d => ldm_block_ok (h_ldm (step frequently h o)) (d_src d + d_size d)
      end
  | OpContinue src blocks =>
      let srcSize := sumZ blocks in
      if srcSize =? 0 then true
      else match h_ldm h with Some l => update_ok (ldm_window l) src srcSize false | None => true end
           && frame_blocks_ok_ldm frequently (continue_update h src srcSize) src blocks
  | OpBlockMode src size =>
      if size =? 0 then true
      else match h_ldm h with Some l => update_ok (ldm_window l) src size false | None => true end
  | _ => true
  end.

Definition step_ok (frequently : bool) (h : hstate) (o : op) : bool :=
  step_ok_ms frequently h o && step_ok_ldm frequently h o.

Fixpoint run_ok_ms (frequently : bool) (h : hstate) (ops : list op) : bool :=
  match ops with
  | [] => true
  | o :: rest => step_ok_ms frequently h o && run_ok_ms frequently (step frequently h o) rest
  end.

Fixpoint run_ok (frequently : bool) (h : hstate) (ops : list op) : bool :=
  match ops with
  | [] => true
  | o :: rest => step_ok frequently h o && run_ok frequently (step frequently h o) rest
  end.
