(* C15 model, part 3: index overflow correction.
   Source: lib/compress/zstd_compress_internal.h ZSTD_window_canOverflowCorrect /
           ZSTD_window_needOverflowCorrection / ZSTD_window_correctOverflow,
           lib/compress/zstd_compress.c ZSTD_cycleLog / ZSTD_overflowCorrectIfNeeded /
           ZSTD_indexTooCloseToMax / ZSTD_dictTooBig,
           lib/compress/zstd_ldm.c ZSTD_ldm_generateSequences (steps 1 and 2 of each chunk).
   NO proofs in this file. *)
From Coq Require Import ZArith Bool List.
From ZV.Index Require Import Window Reduce.
Import ListNotations.
Local Open Scope Z_scope.

(* ZSTD_window_canOverflowCorrect() *)
Definition window_canOverflowCorrect (w : window) (cycleLog maxDist loadedDictEnd src : Z) : bool :=
  let cycleSize := u32 (Z.shiftl 1 cycleLog) in
  let curr := idx w src in
  let minIndexToOverflowCorrect := u32 (u32 (cycleSize + Z.max maxDist cycleSize) + START) in
  let adjustment := u32 (nbOvf w + 1) in
  let adjustedIndex := Z.max (u32 (minIndexToOverflowCorrect * adjustment)) minIndexToOverflowCorrect in
  let indexLargeEnough := curr >? adjustedIndex in
  let dictionaryInvalidated := curr >? u32 (maxDist + loadedDictEnd) in
  indexLargeEnough && dictionaryInvalidated.

(* ZSTD_window_needOverflowCorrection(); [frequently] = the build knob
   ZSTD_WINDOW_OVERFLOW_CORRECT_FREQUENTLY *)
Definition window_needOverflowCorrection (frequently : bool) (w : window)
           (cycleLog maxDist loadedDictEnd src srcEnd : Z) : bool :=
  let curr := idx w srcEnd in
  if frequently && window_canOverflowCorrect w cycleLog maxDist loadedDictEnd src then true
  else curr >? CURRENT_MAX.

(* the values ZSTD_window_correctOverflow() computes before it touches the window *)
Definition cycleSize_of (cycleLog : Z) : Z := u32 (Z.shiftl 1 cycleLog).
Definition newCurrent_of (cycleLog maxDist curr : Z) : Z :=
  let cycleSize := cycleSize_of cycleLog in
  let cycleMask := u32 (cycleSize - 1) in
  let currentCycle := Z.land curr cycleMask in
  let currentCycleCorrection := if currentCycle <? START then Z.max cycleSize START else 0 in
  u32 (u32 (currentCycle + currentCycleCorrection) + Z.max maxDist cycleSize).
Definition correction_of (cycleLog maxDist curr : Z) : Z :=
  u32 (curr - newCurrent_of cycleLog maxDist curr).

(* lowLimit / dictLimit update of ZSTD_window_correctOverflow() *)
Definition rebase_limit (limit correction : Z) : Z :=
  if limit <? u32 (correction + START) then START else u32 (limit - correction).

(* ZSTD_window_correctOverflow(): returns (window, correction) *)
Definition window_correctOverflow (w : window) (cycleLog maxDist src : Z) : window * Z :=
  let curr := idx w src in
  let correction := correction_of cycleLog maxDist curr in
  (mkWindow (nextSrc w) (base w + correction) (dictBase w + correction)
            (rebase_limit (dictLimit w) correction)
            (rebase_limit (lowLimit w) correction)
            (u32 (nbOvf w + 1)),
   correction).

(* ZSTD_cycleLog() *)
Definition cycleLog_of (chainLog strategy : Z) : Z :=
  u32 (chainLog - (if ZSTD_btlazy2 <=? strategy then 1 else 0)).

(* the part of ZSTD_matchState_t that index management reads or writes *)
Record matchState : Type := mkMS {
  ms_window : window;
  ms_loadedDictEnd : Z;      (* U32 *)
  ms_nextToUpdate : Z;       (* U32 *)
  ms_dms : bool;             (* dictMatchState != NULL *)
  ms_hashLog3 : Z;           (* U32 *)
  ms_dds : bool;             (* dedicatedDictSearch != 0 *)
  ms_tables : tables
}.

(* ZSTD_overflowCorrectIfNeeded(ms, ws, params, ip, iend); returns the new state and
   Some correction when a correction ran *)
Definition overflowCorrectIfNeeded (frequently : bool) (ms : matchState) (p : cparams) (ip iend : Z)
  : matchState * option Z :=
  let cycleLog := cycleLog_of (p_chainLog p) (p_strategy p) in
  let maxDist := u32 (Z.shiftl 1 (p_windowLog p)) in
  if window_needOverflowCorrection frequently (ms_window ms) cycleLog maxDist (ms_loadedDictEnd ms) ip iend then
    let '(w', correction) := window_correctOverflow (ms_window ms) cycleLog maxDist ip in
    let t' := reduceIndex (ms_tables ms) (ms_hashLog3 ms) (ms_dds ms) p correction in
    let ntu := if ms_nextToUpdate ms <? correction then 0 else u32 (ms_nextToUpdate ms - correction) in
    (mkMS w' 0 ntu false (ms_hashLog3 ms) (ms_dds ms) t', Some correction)
  else (ms, None).

(* ZSTD_indexTooCloseToMax(): comparison on size_t *)
Definition indexTooCloseToMax (w : window) : bool :=
  u64 (nextSrc w - base w) >? u32 (CURRENT_MAX - INDEXOVERFLOW_MARGIN).

(* ZSTD_dictTooBig() *)
Definition dictTooBig (loadedDictSize : Z) : bool := loadedDictSize >? CHUNKSIZE_MAX.

(* long-distance matcher state: window, loadedDictEnd, the [offset] column of the hash table *)
Record ldmState : Type := mkLdm {
  ldm_window : window;
  ldm_loadedDictEnd : Z;
  ldm_table : list Z
}.

(* one chunk iteration of ZSTD_ldm_generateSequences(), steps 1 (overflow correction) and
   2 (enforce max distance); step 3 (the search) does not touch the window *)
Definition ldm_chunk_step (frequently : bool) (s : ldmState) (windowLog chunkStart chunkEnd : Z)
  : ldmState * option Z :=
  let maxDist := u32 (Z.shiftl 1 windowLog) in
  let '(s1, corr) :=
    if window_needOverflowCorrection frequently (ldm_window s) 0 maxDist (ldm_loadedDictEnd s) chunkStart chunkEnd then
      let '(w', correction) := window_correctOverflow (ldm_window s) 0 maxDist chunkStart in
      (mkLdm w' 0 (ldm_reduceTable (ldm_table s) correction), Some correction)
    else (s, None) in
  let '(w2, lde2, _) := window_enforceMaxDist (ldm_window s1) chunkEnd maxDist (Some (ldm_loadedDictEnd s1)) None in
  (mkLdm w2 (match lde2 with Some v => v | None => ldm_loadedDictEnd s1 end) (ldm_table s1), corr).
