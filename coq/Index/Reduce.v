(* C15 model, part 2: index table reduction.
   Source: lib/compress/zstd_compress.c ZSTD_reduceTable_internal / ZSTD_reduceIndex,
           lib/compress/zstd_ldm.c ZSTD_ldm_reduceTable.
   NO proofs in this file. *)
From Coq Require Import ZArith Bool List.
From ZV.Index Require Import Window.
Import ListNotations.
Local Open Scope Z_scope.

(* one cell of ZSTD_reduceTable_internal *)
Definition reduce_cell (reducerValue : Z) (preserveMark : bool) (e : Z) : Z :=
  let reducerThreshold := u32 (reducerValue + START) in
  if preserveMark && (e =? DUBT_UNSORTED_MARK) then DUBT_UNSORTED_MARK
  else if e <? reducerThreshold then 0
  else u32 (e - reducerValue).

(* one row of ZSTD_ROWSIZE cells (the inner [column] loop) *)
Definition reduce_row (reducerValue : Z) (preserveMark : bool) (row : list Z) : list Z :=
  map (reduce_cell reducerValue preserveMark) row.

(* the outer [rowNb] loop: nbRows rows of ZSTD_ROWSIZE cells, cells beyond nbRows*ROWSIZE untouched *)
Fixpoint reduce_rows (nbRows : nat) (reducerValue : Z) (preserveMark : bool) (table : list Z) : list Z :=
  match nbRows with
  | O => table
  | S n => reduce_row reducerValue preserveMark (firstn (Z.to_nat ROWSIZE) table)
           ++ reduce_rows n reducerValue preserveMark (skipn (Z.to_nat ROWSIZE) table)
  end.

(* ZSTD_reduceTable_internal(table, size, reducerValue, preserveMark): nbRows = (int)size / ZSTD_ROWSIZE *)
Definition reduceTable_internal (table : list Z) (size reducerValue : Z) (preserveMark : bool) : list Z :=
  reduce_rows (Z.to_nat (size / ROWSIZE)) reducerValue preserveMark table.

(* ZSTD_ldm_reduceTable() on the [offset] fields (checksums are untouched) *)
Definition ldm_reduce_cell (reducerValue e : Z) : Z :=
  if e <? reducerValue then 0 else u32 (e - reducerValue).
Definition ldm_reduceTable (table : list Z) (reducerValue : Z) : list Z :=
  map (ldm_reduce_cell reducerValue) table.

(* strategies (ZSTD_strategy) *)
Definition ZSTD_fast : Z := 1.
Definition ZSTD_greedy : Z := 3.
Definition ZSTD_lazy2 : Z := 5.
Definition ZSTD_btlazy2 : Z := 6.

(* ZSTD_rowMatchFinderUsed / ZSTD_allocateChainTable; useRow = (mode == ZSTD_ps_enable) *)
Definition rowMatchFinderUsed (strategy : Z) (useRow : bool) : bool :=
  (ZSTD_greedy <=? strategy) && (strategy <=? ZSTD_lazy2) && useRow.
Definition allocateChainTable (strategy : Z) (useRow forDDSDict : bool) : bool :=
  forDDSDict || (negb (strategy =? ZSTD_fast) && negb (rowMatchFinderUsed strategy useRow)).

(* the tables of a ZSTD_matchState_t and the parameters ZSTD_reduceIndex reads *)
Record tables : Type := mkTables {
  hashTable : list Z;
  chainTable : list Z;
  hashTable3 : list Z
}.

Record cparams : Type := mkCParams {
  p_windowLog : Z;
  p_chainLog : Z;
  p_hashLog : Z;
  p_strategy : Z;
  p_useRow : bool      (* params->useRowMatchFinder == ZSTD_ps_enable *)
}.

(* ZSTD_reduceIndex(ms, params, reducerValue) *)
Definition reduceIndex (t : tables) (hashLog3 : Z) (dds : bool) (p : cparams) (reducerValue : Z) : tables :=
  let h := reduceTable_internal (hashTable t) (u32 (Z.shiftl 1 (p_hashLog p))) reducerValue false in
  let c :=
    if allocateChainTable (p_strategy p) (p_useRow p) dds then
      reduceTable_internal (chainTable t) (u32 (Z.shiftl 1 (p_chainLog p))) reducerValue
                           (p_strategy p =? ZSTD_btlazy2)
    else chainTable t in
  let h3 :=
    if negb (hashLog3 =? 0) then
      reduceTable_internal (hashTable3 t) (u32 (Z.shiftl 1 hashLog3)) reducerValue false
    else hashTable3 t in
  mkTables h c h3.
