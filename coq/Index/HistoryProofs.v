(* C15 proofs: index_never_overflows - the invariant of the match-state window over every history. *)
From Coq Require Import ZArith Lia Bool List.
From ZV.Index Require Import Window Reduce Overflow History OverflowProofs ReduceProofs CorrectProofs WindowProofs.
Import ListNotations.
Local Open Scope Z_scope.
Ltac Zify.zify_post_hook ::= Z.div_mod_to_equations.

(* largest index a block may start at so that its end is still an exact U32 *)
Definition CB : Z := two32 - 1 - BLOCKSIZE_MAX.
Lemma CB_val : CB = 4294836223. Proof. reflexivity. Qed.
Global Opaque CB.

(* the match state "rests" at address p (p = nextSrc between two calls, p = ip inside a frame):
   limits ordered, below the index of p, which is at most [bound]; loadedDictEnd not in the future *)
Definition ms_inv (ms : matchState) (p bound : Z) : Prop :=
  let w := ms_window ms in
  0 <= lowLimit w /\ lowLimit w <= dictLimit w /\ dictLimit w <= p - base w /\ p - base w <= bound /\
  0 <= nbOvf w < two32 /\ 0 <= ms_loadedDictEnd ms <= p - base w.

Lemma exact_idx_true w p : 0 <= p - base w < two32 -> exact_idx w p = true.
Proof. intro H. unfold exact_idx. apply andb_true_iff. split; [apply Z.leb_le | apply Z.ltb_lt]; lia. Qed.

(* in the one corner where ZSTD_CHUNKSIZE_MAX is too large for minIndexToOverflowCorrect, the correction is
   still never negative (it may be 0) *)
Lemma chunk_newCurrent_le cl wl curr :
  params_ok cl wl -> CURRENT_MAX + 1 - CHUNKSIZE_MAX <= curr < two32 ->
  newCurrent_of cl (2 ^ wl) curr <= curr.
Proof.
  intros Hp Hc.
  destruct (Z_le_gt_dec cl 29) as [H29|H29]; [|destruct (Z_le_gt_dec wl 30) as [H30|H30]].
  - pose proof (chunk_size_condition cl wl Hp (or_introl H29)).
    pose proof (newCurrent_lt cl wl curr Hp ltac:(revert Hc; consts; lia) ltac:(revert Hc H; consts; lia)). lia.
  - pose proof (chunk_size_condition cl wl Hp (or_intror H30)).
    pose proof (newCurrent_lt cl wl curr Hp ltac:(revert Hc; consts; lia) ltac:(revert Hc H; consts; lia)). lia.
  - assert (cl = 30 /\ wl = 31) as [-> ->] by (destruct Hp as [H1 H2]; revert H1 H2; consts; lia).
    rewrite newCurrent_spec by (try assumption; revert Hc; consts; lia).
    rewrite pow2_30, pow2_31. revert Hc. consts. intro Hc.
    destruct (Z.ltb_spec (curr mod 1073741824) 2); lia.
Qed.

(* ---- one ZSTD_overflowCorrectIfNeeded ---- *)
(* general form: loadedDictEnd is bounded by the index of another address q >= ip (the end of a
   dictionary being loaded) *)
Lemma ovf_step_gen :
  forall freq ms p ip iend q B,
    cparams_ok p ->
    let w := ms_window ms in
    0 <= lowLimit w -> lowLimit w <= dictLimit w -> dictLimit w <= ip - base w -> ip - base w <= B ->
    0 <= nbOvf w < two32 -> ip <= q -> 0 <= ms_loadedDictEnd ms <= q - base w ->
    ip <= iend -> iend - base w < two32 ->
    let cl := cycleLog_of (p_chainLog p) (p_strategy p) in
    let wl := p_windowLog p in
    (minIndexToOverflowCorrect cl wl + (iend - ip) <= CURRENT_MAX + 1 \/ iend - ip <= CHUNKSIZE_MAX \/
     iend - base w <= CURRENT_MAX) ->
    let ms' := fst (overflowCorrectIfNeeded freq ms p ip iend) in
    let w' := ms_window ms' in
    0 <= lowLimit w' /\ lowLimit w' <= dictLimit w' /\ dictLimit w' <= ip - base w' /\ ip - base w' <= B /\
    0 <= nbOvf w' < two32 /\ 0 <= ms_loadedDictEnd ms' <= q - base w' /\
    base w <= base w' /\ nextSrc w' = nextSrc w /\
    ((ms' = ms /\ iend - base w <= CURRENT_MAX) \/
     (ip - base w' <= minIndexToOverflowCorrect cl wl - 1 /\ ms_loadedDictEnd ms' = 0 /\ ms_dms ms' = false)).
Proof.
  intros freq ms p ip iend q B Hp w Hl0 Hld Hdc HB Hnb Hq Hlde Hle Hend cl wl Hn. cbv zeta.
  pose proof (cycleLog_ok p Hp) as Hpo. fold cl wl in Hpo.
  unfold overflowCorrectIfNeeded. rewrite (maxDist_pow p Hp). fold cl wl w.
  destruct (window_needOverflowCorrection freq w cl (2 ^ wl) (ms_loadedDictEnd ms) ip iend) eqn:Hneed.
  - assert (Hc : 0 <= ip - base w < two32) by lia.
    assert (Hnc : newCurrent_of cl (2 ^ wl) (ip - base w) <= ip - base w).
    { destruct (need_cases _ _ _ _ _ _ _ Hneed) as [[_ Hcan] | Hgt].
      - apply canOverflowCorrect_min in Hcan; try assumption.
        pose proof (newCurrent_lt cl wl (ip - base w) Hpo Hc ltac:(lia)). lia.
      - unfold idx in Hgt. rewrite u32_small in Hgt by lia.
        destruct Hn as [Hn|[Hn|Hn]].
        + pose proof (newCurrent_lt cl wl (ip - base w) Hpo Hc ltac:(lia)). lia.
        + apply chunk_newCurrent_le; [assumption|]. lia.
        + lia. }
    assert (Hwb : window_bounded w) by (unfold window_bounded; lia).
    pose proof (correction_preserves_window_gen w cl wl ip Hpo Hwb Hc Hnc) as Hcorr.
    cbv zeta in Hcorr.
    destruct (window_correctOverflow w cl (2 ^ wl) ip) as [w' corr] eqn:Ew.
    destruct Hcorr as (Hc1 & Hc2 & _ & Hc4 & Hc5 & _ & Hs1 & Hs2 & Ho & Hd & _ & Hns & _ & Hnbo & _ & _).
    assert (Hbase : base w' = base w + corr) by (unfold window_correctOverflow in Ew; inversion Ew; reflexivity).
    cbn [fst ms_window ms_loadedDictEnd ms_dms].
    pose proof (u32_range (nbOvf w + 1)).
    unfold minIndexToOverflowCorrect.
    revert Hs1 Hs2 Hc4 Hc5. consts. intros.
    repeat split; first [lia | right; repeat split; lia].
  - cbn [fst]. fold w. repeat split; try lia.
    left. split; [reflexivity|]. apply need_false in Hneed. unfold idx in Hneed.
    rewrite u32_small in Hneed by lia. exact Hneed.
Qed.

Lemma ovf_step :
  forall freq ms p ip iend B,
    cparams_ok p -> ms_inv ms ip B -> ip <= iend -> iend - base (ms_window ms) < two32 ->
    let cl := cycleLog_of (p_chainLog p) (p_strategy p) in
    let wl := p_windowLog p in
    (minIndexToOverflowCorrect cl wl + (iend - ip) <= CURRENT_MAX + 1 \/ iend - ip <= CHUNKSIZE_MAX) ->
    let ms' := fst (overflowCorrectIfNeeded freq ms p ip iend) in
    ms_inv ms' ip B /\ base (ms_window ms) <= base (ms_window ms') /\
    nextSrc (ms_window ms') = nextSrc (ms_window ms) /\
    ((ms' = ms /\ iend - base (ms_window ms) <= CURRENT_MAX) \/
     (ip - base (ms_window ms') <= minIndexToOverflowCorrect cl wl - 1 /\ ms_loadedDictEnd ms' = 0 /\ ms_dms ms' = false)).
Proof.
  intros freq ms p ip iend B Hp Hinv Hle Hend cl wl Hn.
  destruct Hinv as (Hl0 & Hld & Hdc & HB & Hnb & Hlde).
  pose proof (ovf_step_gen freq ms p ip iend ip B Hp Hl0 Hld Hdc HB Hnb ltac:(lia) Hlde Hle Hend ltac:(tauto)) as H.
  cbv zeta in H |- *. unfold ms_inv. tauto.
Qed.

(* ---- one block of ZSTD_compress_frameChunk ---- *)
Definition block_ok (bs : Z) : Prop := 0 < bs <= BLOCKSIZE_MAX.

Lemma frame_block_inv :
  forall freq h ip bs,
    cparams_ok (h_params h) -> ms_inv (h_ms h) ip CB -> block_ok bs ->
    let h' := frame_block freq h ip bs in
    ms_inv (h_ms h') (ip + bs) (CURRENT_MAX + BLOCKSIZE_MAX) /\
    h_params h' = h_params h /\
    nextSrc (ms_window (h_ms h')) = nextSrc (ms_window (h_ms h)) /\
    0 <= ip - base (ms_window (h_ms h')) /\ ip + bs - base (ms_window (h_ms h')) < two32.
Proof.
  intros freq h ip bs Hp Hinv Hbs. cbv zeta. unfold block_ok in Hbs.
  pose proof (cycleLog_ok _ Hp) as Hpo.
  assert (Hend : ip + bs - base (ms_window (h_ms h)) < two32).
  { destruct Hinv as (_ & _ & _ & HB & _). revert HB Hbs. rewrite CB_val. consts. lia. }
  pose proof (ovf_step freq (h_ms h) (h_params h) ip (ip + bs) CB Hp Hinv ltac:(lia) Hend) as Hov.
  cbv zeta in Hov.
  specialize (Hov ltac:(left; pose proof (block_size_condition _ _ Hpo); lia)).
  unfold frame_block.
  destruct (overflowCorrectIfNeeded freq (h_ms h) (h_params h) ip (ip + bs)) as [ms1 corr1] eqn:Eov.
  cbn [fst] in Hov. destruct Hov as (Hinv1 & Hb1 & Hns1 & Hcase).
  destruct Hinv1 as (Hl0 & Hld & Hdc & HB & Hnb & Hlde).
  rewrite (maxDist_pow _ Hp).
  set (wl := p_windowLog (h_params h)) in *.
  set (w1 := ms_window ms1) in *.
  assert (Hwl : 0 <= wl <= WINDOWLOG_MAX) by (destruct Hp as [Hw _]; exact Hw).
  (* the block end after the (possible) correction *)
  assert (Hblk : ip + bs - base w1 <= CURRENT_MAX).
  { destruct Hcase as [[-> Hle]|[Hle _]]; [exact Hle|].
    pose proof (block_size_condition _ _ Hpo). lia. }
  (* checkDictValidity only touches loadedDictEnd / dictMatchState *)
  destruct (checkDictValidity w1 (ip + bs) (2 ^ wl) (ms_loadedDictEnd ms1) (ms_dms ms1)) as [lde2 dms2] eqn:Ecd.
  assert (Hlde2 : 0 <= lde2 <= ip - base w1).
  { unfold checkDictValidity in Ecd. destruct (_ || _) in Ecd; inversion Ecd; subst; lia. }
  pose proof (enforceMaxDist_sound_lemma w1 ip wl lde2 dms2 Hwl Hl0 Hld) as Henf. cbv zeta in Henf.
  specialize (Henf Hdc ltac:(revert HB; rewrite CB_val; consts; lia) Hlde2).
  destruct (window_enforceMaxDist w1 ip (2 ^ wl) (Some lde2) (Some dms2)) as [[w3 lde3] dms3] eqn:Eenf.
  destruct Henf as (Hb3 & Hdb3 & Hns3 & Hnb3 & Hlow3 & Hld3 & Hdc3 & Hdd3 & Hcase3).
  assert (Hlde3 : 0 <= match lde3 with Some v => v | None => lde2 end <= ip - base w1).
  { destruct Hcase3 as [(_ & -> & _)|(-> & _)]; lia. }
  set (lde3' := match lde3 with Some v => v | None => lde2 end) in *.
  set (dms3' := match dms3 with Some b => b | None => dms2 end).
  set (ntu := if ms_nextToUpdate ms1 <? lowLimit w3 then lowLimit w3 else ms_nextToUpdate ms1).
  set (ms4 := mkMS w3 lde3' ntu dms3' (ms_hashLog3 ms1) (ms_dds ms1) (ms_tables ms1)).
  (* the search effect: nothing, or the btultra2 first pass *)
  unfold block_search_effect.
  destruct (bs <? TINY_BLOCK).
  - cbn [h_ms h_params ms_window ms_loadedDictEnd]. unfold ms_inv. cbn [ms_window ms_loadedDictEnd ms4].
    revert Hblk. consts. intros. repeat split; try lia.
  - cbn [ms_window ms4].
    match goal with |- context [if ?c then initStats_ultra ms4 bs else ms4] => destruct c eqn:Eu end.
    + (* first pass: base moves down by bs, dictLimit = lowLimit = old dictLimit + bs *)
      apply andb_true_iff in Eu. destruct Eu as [Eu _].
      apply andb_true_iff in Eu. destruct Eu as [Eu Eidx].
      apply Z.eqb_eq in Eidx. cbn [ms_window ms4] in Eidx.
      unfold idx in Eidx. rewrite Hb3 in Eidx.
      rewrite u32_small in Eidx by (revert HB; rewrite CB_val; consts; lia).
      unfold initStats_ultra. cbn [ms_window ms4 h_ms h_params ms_loadedDictEnd lowLimit dictLimit base nbOvf nextSrc].
      unfold ms_inv. cbn [ms_window ms_loadedDictEnd lowLimit dictLimit base nbOvf nextSrc].
      rewrite (u32_small bs) by (revert Hbs; consts; lia).
      rewrite (u32_small (dictLimit w3 + bs)) by (revert Hbs Hblk; consts; lia).
      revert Hblk Hbs. consts. intros. repeat split; try lia.
    + cbn [h_ms h_params ms_window ms_loadedDictEnd]. unfold ms_inv. cbn [ms_window ms_loadedDictEnd ms4].
      revert Hblk. consts. intros. repeat split; try lia.
Qed.

(* ---- all the blocks of one ZSTD_compressContinue_internal ---- *)
Lemma sumZ_from l : forall a, fold_left Z.add l a = a + fold_left Z.add l 0.
Proof.
  induction l as [|x l IH]; intro a; cbn [fold_left]; [lia|].
  rewrite (IH (a + x)), (IH (0 + x)). lia.
Qed.
Lemma sumZ_cons b l : sumZ (b :: l) = b + sumZ l.
Proof. unfold sumZ. cbn [fold_left]. rewrite sumZ_from. lia. Qed.

Lemma ms_inv_weaken ms p b1 b2 : b1 <= b2 -> ms_inv ms p b1 -> ms_inv ms p b2.
Proof. unfold ms_inv. intros. lia. Qed.

Lemma CB_ge : CURRENT_MAX + BLOCKSIZE_MAX <= CB.
Proof. rewrite CB_val. consts. lia. Qed.

Lemma frame_blocks_inv :
  forall freq blocks h ip,
    cparams_ok (h_params h) -> ms_inv (h_ms h) ip CB -> Forall block_ok blocks ->
    let h' := frame_blocks freq h ip blocks in
    ms_inv (h_ms h') (ip + sumZ blocks) CB /\
    (blocks <> [] -> ms_inv (h_ms h') (ip + sumZ blocks) (CURRENT_MAX + BLOCKSIZE_MAX)) /\
    h_params h' = h_params h /\
    nextSrc (ms_window (h_ms h')) = nextSrc (ms_window (h_ms h)) /\
    frame_blocks_ok_ms freq h ip blocks = true.
Proof.
  intros freq blocks. induction blocks as [|bs rest IH]; intros h ip Hp Hinv Hall; cbv zeta.
  - cbn [frame_blocks frame_blocks_ok_ms]. unfold sumZ. cbn [fold_left]. rewrite Z.add_0_r.
    split; [exact Hinv|]. split; [intro H; exfalso; apply H; reflexivity|]. repeat split; reflexivity.
  - inversion Hall as [|? ? Hbs Hrest]; subst.
    pose proof (frame_block_inv freq h ip bs Hp Hinv Hbs) as Hb. cbv zeta in Hb.
    destruct Hb as (Hinv1 & Hp1 & Hns1 & Hip0 & Hend1).
    cbn [frame_blocks frame_blocks_ok_ms]. rewrite sumZ_cons.
    set (h1 := frame_block freq h ip bs) in *.
    assert (Hp1' : cparams_ok (h_params h1)) by (rewrite Hp1; exact Hp).
    specialize (IH h1 (ip + bs) Hp1' (ms_inv_weaken _ _ _ _ CB_ge Hinv1) Hrest). cbv zeta in IH.
    destruct IH as (IH1 & IH2 & IH3 & IH4 & IH5).
    replace (ip + (bs + sumZ rest)) with (ip + bs + sumZ rest) by lia.
    split; [exact IH1|]. split.
    + intros _. destruct rest as [|b2 rest'].
      * cbn [frame_blocks]. unfold sumZ. cbn [fold_left]. rewrite Z.add_0_r. exact Hinv1.
      * apply IH2. discriminate.
    + split; [rewrite IH3; exact Hp1|]. split; [rewrite IH4; exact Hns1|].
      rewrite IH5, andb_true_r. unfold block_ok in Hbs.
      apply andb_true_iff. split; apply exact_idx_true; lia.
Qed.

(* ---- the whole-context invariant, between two API calls ---- *)
Definition Inv (h : hstate) : Prop :=
  cparams_ok (h_params h) /\ ms_inv (h_ms h) (nextSrc (ms_window (h_ms h))) CB.

Lemma continue_update_inv :
  forall h src size,
    Inv h -> 0 < size ->
    let h' := continue_update h src size in
    cparams_ok (h_params h') /\ h_params h' = h_params h /\ ms_inv (h_ms h') src CB /\
    nextSrc (ms_window (h_ms h')) = src + size /\
    update_ok (ms_window (h_ms h)) src size (h_forceNC h) = true.
Proof.
  intros h src size [Hp Hinv] Hsize. cbv zeta.
  destruct Hinv as (Hl0 & Hld & Hdc & HB & Hnb & Hlde).
  set (w := ms_window (h_ms h)) in *.
  assert (Hwf : window_wf w) by (unfold window_wf; revert HB; rewrite CB_val; consts; lia).
  pose proof (window_update_index_lemma w src size (h_forceNC h) Hwf Hsize) as Hu. cbv zeta in Hu.
  unfold continue_update. fold w.
  destruct (window_update w src size (h_forceNC h)) as [w1 contiguous] eqn:Eu.
  destruct Hu as (Hu1 & Hu2 & Hu3 & Hu4 & Hu5 & Hu6 & _ & _).
  assert (Hok : update_ok w src size (h_forceNC h) = true).
  { unfold update_ok. destruct (size =? 0); [reflexivity|].
    destruct (negb (src =? nextSrc w) || h_forceNC h); [|reflexivity].
    apply exact_idx_true. revert HB. rewrite CB_val. consts. lia. }
  destruct contiguous; cbn [h_ms h_params ms_window ms_loadedDictEnd];
    (split; [exact Hp|]); (split; [reflexivity|]); unfold ms_inv;
    cbn [ms_window ms_loadedDictEnd]; repeat split; try assumption; try lia.
Qed.

(* ---- what the code guarantees about each operation (side conditions of the histories) ---- *)
Definition op_ok (o : op) : Prop :=
  match o with
  | OpBegin p _ _ _ _ _ loadedDictSize dict =>
      cparams_ok p /\ 0 <= loadedDictSize /\
      (* ZSTD_compress_insertDictionary ignores dictionaries below 8 bytes; the size handed to
         ZSTD_resetCCtx_internal is the whole dictionary, the content loaded is at most that *)
      match dict with Some d => HASH_READ_SIZE <= d_size d <= loadedDictSize | None => True end
  | OpAttach cdictEnd cdictDictLimit => 0 <= cdictDictLimit <= cdictEnd /\ cdictEnd <= CURRENT_MAX
  | OpContinue _ blocks => Forall block_ok blocks
  | OpBlockMode _ size => 0 <= size <= BLOCKSIZE_MAX
  | OpFinder _ _ => True
  | OpLdmFinder _ => True
  | OpCopyCDict w lde _ =>
      0 <= lowLimit w /\ lowLimit w <= dictLimit w /\ dictLimit w <= nextSrc w - base w /\
      nextSrc w - base w <= CURRENT_MAX /\ 0 <= nbOvf w < two32 /\ 0 <= lde <= nextSrc w - base w
  end.

Lemma reset_inv :
  forall ms lds forced lit h3,
    ms_inv ms (nextSrc (ms_window ms)) CB -> 0 <= lds ->
    let doReset := needsIndexReset (ms_window ms) lds forced in
    let ms1 := reset_matchState ms doReset lit h3 in
    let w1 := ms_window ms1 in
    let c1 := nextSrc w1 - base w1 in
    lowLimit w1 = c1 /\ dictLimit w1 = c1 /\ 0 <= nbOvf w1 < two32 /\ ms_loadedDictEnd ms1 = 0 /\
    ((doReset = true /\ c1 = START) \/
     (doReset = false /\ c1 <= CURRENT_MAX - INDEXOVERFLOW_MARGIN /\ lds <= CHUNKSIZE_MAX /\ 0 <= c1)) /\
    (doReset = true \/ exact_idx (ms_window ms) (nextSrc (ms_window ms)) = true).
Proof.
  intros ms lds forced lit h3 Hinv Hlds. cbv zeta.
  destruct Hinv as (Hl0 & Hld & Hdc & HB & Hnb & Hlde).
  set (w := ms_window ms) in *.
  assert (Hc : 0 <= nextSrc w - base w < two32) by (revert HB; rewrite CB_val; consts; lia).
  unfold reset_matchState, needsIndexReset.
  destruct (indexTooCloseToMax w || dictTooBig lds || forced) eqn:Er.
  - unfold invalidateMatchState, window_clear, window_init.
    cbn [ms_window nextSrc base dictLimit lowLimit nbOvf ms_loadedDictEnd].
    replace (lit + START - lit) with START by lia.
    rewrite (u64_small START) by (consts; lia). rewrite (u32_small START) by (consts; lia).
    consts. repeat split; first [lia | left; split; [reflexivity|lia] | left; reflexivity].
  - apply orb_false_iff in Er. destruct Er as [Er _]. apply orb_false_iff in Er. destruct Er as [Et Ed].
    unfold invalidateMatchState, window_clear.
    cbn [ms_window nextSrc base dictLimit lowLimit nbOvf ms_loadedDictEnd]. fold w.
    rewrite (u64_small _ Hc), (u32_small _ Hc).
    assert (Htc : ~ (nextSrc w - base w > CURRENT_MAX - INDEXOVERFLOW_MARGIN)).
    { intro Hgt. apply (indexTooCloseToMax_spec w) in Hgt; [congruence|].
      rewrite two64_val. revert Hc. consts. lia. }
    unfold dictTooBig in Ed. destruct (Z.gtb_spec lds CHUNKSIZE_MAX); [discriminate|].
    repeat split; first [lia | right; repeat split; lia | right; apply exact_idx_true; exact Hc].
Qed.

(* ZSTD_loadDictionaryContent: after a reset the whole (truncated) dictionary fits below ZSTD_CURRENT_MAX;
   without a reset it is at most ZSTD_CHUNKSIZE_MAX bytes on top of an index that is at least
   ZSTD_INDEXOVERFLOW_MARGIN below ZSTD_CURRENT_MAX *)
Lemma loadDict_inv :
  forall freq ms ls p src size fw drp,
    cparams_ok p -> HASH_READ_SIZE <= size ->
    let w := ms_window ms in
    let c := nextSrc w - base w in
    lowLimit w = c -> dictLimit w = c -> 0 <= nbOvf w < two32 -> ms_loadedDictEnd ms = 0 ->
    (c = START \/ (0 <= c <= CURRENT_MAX - INDEXOVERFLOW_MARGIN /\ size <= CHUNKSIZE_MAX)) ->
    let '(ms', _, _, _) := loadDictionaryContent freq ms ls p src size fw drp false in
    ms_inv ms' (src + size) CB /\ nextSrc (ms_window ms') = src + size /\
    (c = START -> (src + size) - base (ms_window ms') <= CURRENT_MAX).
Proof.
  intros freq ms ls p src size fw drp Hp Hsize w c Hlow Hdl Hnb Hlde Hc. cbv zeta.
  unfold loadDictionaryContent.
  replace (CDictIndicesAreTagged (p_strategy p) && false) with false by (rewrite andb_false_r; reflexivity).
  rewrite (u32_small (CURRENT_MAX - START)) by (consts; lia).
  set (iend := src + size).
  set (maxD := CURRENT_MAX - START).
  (* first truncation *)
  assert (Ht1 : exists ip1 size1,
            (if size >? maxD then (iend - maxD, maxD) else (src, size)) = (ip1, size1) /\
            ip1 + size1 = iend /\ HASH_READ_SIZE <= size1 <= size /\ size1 <= maxD).
  { destruct (Z.gtb_spec size maxD).
    - exists (iend - maxD), maxD. unfold maxD in *. revert Hsize H. consts. intros. repeat split; lia.
    - exists src, size. unfold iend. repeat split; lia. }
  destruct Ht1 as (ip1 & size1 & -> & Hi1 & Hs1 & Hm1).
  fold w.
  assert (Hc0 : 0 <= c <= CURRENT_MAX - INDEXOVERFLOW_MARGIN) by (revert Hc; consts; lia).
  assert (Hwf : window_wf w).
  { unfold window_wf. fold c. revert Hc0. consts. lia. }
  pose proof (window_update_index_lemma w ip1 size1 false Hwf ltac:(revert Hs1; consts; lia)) as Hu.
  cbv zeta in Hu. fold c in Hu.
  destruct (window_update w ip1 size1 false) as [w1 cont1] eqn:Eu. cbn [fst].
  destruct Hu as (Hu1 & Hu2 & Hu3 & Hu4 & Hu5 & Hu6 & _ & _).
  (* the index of the dictionary end is exact *)
  assert (Hend : iend - base w1 = c + size1) by lia.
  assert (Hend32 : c + size1 <= two32 - 1 - INDEXOVERFLOW_MARGIN).
  { unfold maxD in Hm1. destruct Hc as [Hc|[Hc Hsz]]; revert Hc Hm1 Hs1; consts; lia. }
  assert (Hidx : idx w1 iend = c + size1).
  { unfold idx. rewrite Hend. apply u32_small. revert Hend32 Hc0 Hs1. consts. lia. }
  (* second truncation *)
  set (m := u32 (Z.shiftl 8 (Z.min (Z.max (p_hashLog p) (p_chainLog p)) 28))).
  assert (Hm : 0 <= m) by apply u32_range.
  assert (Hs1p : 0 < size1) by (revert Hs1; consts; lia).
  assert (Ht2 : exists ip2 size2,
            (if p_strategy p <? ZSTD_btultra then (if size1 >? m then (iend - m, m) else (ip1, size1)) else (ip1, size1))
            = (ip2, size2) /\ ip2 + size2 = iend /\ ip1 <= ip2 /\ 0 <= size2 <= size1).
  { destruct (p_strategy p <? ZSTD_btultra).
    - destruct (Z.gtb_spec size1 m).
      + exists (iend - m), m. repeat split; lia.
      + exists ip1, size1. repeat split; lia.
    - exists ip1, size1. repeat split; lia. }
  destruct Ht2 as (ip2 & size2 & -> & Hi2 & Hip & Hs2).
  set (lde1 := if fw then 0 else idx w1 iend).
  assert (Hlde1 : 0 <= lde1 <= iend - base w1) by (unfold lde1; destruct fw; rewrite ?Hidx; lia).
  set (ms1 := mkMS w1 lde1 (idx w1 ip2) (ms_dms ms) (ms_hashLog3 ms) (ms_dds ms) (ms_tables ms)).
  destruct (Z.leb_spec size2 HASH_READ_SIZE).
  - (* tiny: nothing else happens *)
    unfold ms_inv. cbn [ms_window ms_loadedDictEnd ms1]. fold iend.
    rewrite CB_val. revert Hend32 Hm1. unfold maxD. consts. intros.
    repeat split; lia.
  - pose proof (ovf_step_gen freq ms1 p ip2 iend iend (two32 - 1 - INDEXOVERFLOW_MARGIN) Hp) as Hov.
    cbv zeta in Hov. cbn [ms_window ms_loadedDictEnd ms1] in Hov.
    specialize (Hov Hu3 Hu4 ltac:(lia) ltac:(lia) ltac:(lia) ltac:(lia) Hlde1 ltac:(lia)
                    ltac:(revert Hend32; consts; lia)).
    assert (Htrig : minIndexToOverflowCorrect (cycleLog_of (p_chainLog p) (p_strategy p)) (p_windowLog p) + (iend - ip2)
                      <= CURRENT_MAX + 1 \/ iend - ip2 <= CHUNKSIZE_MAX \/ iend - base w1 <= CURRENT_MAX).
    { destruct Hc as [Hc|[_ Hsz]].
      - right; right. unfold maxD in Hm1. revert Hc Hm1. consts. lia.
      - right; left. lia. }
    specialize (Hov Htrig).
    destruct (overflowCorrectIfNeeded freq ms1 p ip2 iend) as [ms2 corr] eqn:Eov. cbn [fst] in Hov.
    destruct Hov as (Ho1 & Ho2 & Ho3 & Ho4 & Ho5 & Ho6 & Ho7 & Ho8 & _).
    unfold ms_inv. cbn [ms_window ms_loadedDictEnd]. fold iend.
    rewrite CB_val. revert Hend32 Hm1 Ho4. unfold maxD. consts. intros.
    repeat split; lia.
Qed.

Lemma sumZ_nonneg blocks : Forall block_ok blocks -> 0 <= sumZ blocks.
Proof.
  induction 1 as [|b l Hb _ IH]; [unfold sumZ; cbn; lia|].
  rewrite sumZ_cons. unfold block_ok in Hb. lia.
Qed.

(* the index effect of the block search (the btultra2 first pass) on a block whose end is below
   ZSTD_CURRENT_MAX *)
Lemma search_effect_inv :
  forall p ms first ip bs,
    ms_inv ms ip CB -> 0 < bs <= BLOCKSIZE_MAX -> ip + bs - base (ms_window ms) <= CURRENT_MAX ->
    let ms' := fst (block_search_effect p ms first ip bs) in
    ms_inv ms' (ip + bs) (CURRENT_MAX + BLOCKSIZE_MAX) /\
    nextSrc (ms_window ms') = nextSrc (ms_window ms) /\
    0 <= ip - base (ms_window ms') /\ ip + bs - base (ms_window ms') < two32.
Proof.
  intros p ms first ip bs Hinv Hbs Hblk. cbv zeta.
  destruct Hinv as (Hl0 & Hld & Hdc & HB & Hnb & Hlde).
  unfold block_search_effect. destruct (bs <? TINY_BLOCK); cbn [fst].
  - unfold ms_inv. revert Hblk Hbs. consts. intros. repeat split; lia.
  - match goal with |- context [if ?c then initStats_ultra ms bs else ms] => destruct c eqn:Eu end; cbn [fst].
    + apply andb_true_iff in Eu. destruct Eu as [Eu _].
      apply andb_true_iff in Eu. destruct Eu as [Eu Eidx].
      apply Z.eqb_eq in Eidx. unfold idx in Eidx.
      rewrite u32_small in Eidx by (revert HB; rewrite CB_val; consts; lia).
      unfold initStats_ultra, ms_inv.
      cbn [ms_window ms_loadedDictEnd lowLimit dictLimit base nbOvf nextSrc].
      rewrite (u32_small bs) by (revert Hbs; consts; lia).
      rewrite (u32_small (dictLimit (ms_window ms) + bs)) by (revert Hbs Hblk; consts; lia).
      revert Hblk Hbs. consts. intros. repeat split; lia.
    + unfold ms_inv. revert Hblk Hbs. consts. intros. repeat split; lia.
Qed.

Lemma step_inv :
  forall freq h o, Inv h -> op_ok o -> Inv (step freq h o) /\ step_ok_ms freq h o = true.
Proof.
  intros freq h o [Hp Hinv] Hok. destruct o as [p h3 ldm forced lit ldmLit lds dict | cdictEnd cdl | src blocks | src size | ntu t | t | wc ldec ntuc].
  - (* OpBegin *)
    cbn [op_ok] in Hok. destruct Hok as (Hp' & Hlds & Hdict).
    pose proof (reset_inv (h_ms h) lds forced lit h3 Hinv Hlds) as Hr. cbv zeta in Hr.
    destruct Hr as (Hr1 & Hr2 & Hr3 & Hr4 & Hr5 & Hr6).
    cbn [step step_ok_ms].
    set (ms1 := reset_matchState (h_ms h) (needsIndexReset (ms_window (h_ms h)) lds forced) lit h3) in *.
    assert (Hor : (needsIndexReset (ms_window (h_ms h)) lds forced
                   || exact_idx (ms_window (h_ms h)) (nextSrc (ms_window (h_ms h)))) = true).
    { destruct Hr6 as [->| ->]; [reflexivity | apply orb_true_r]. }
    rewrite Hor, andb_true_l.
    destruct dict as [d|].
    + pose proof (loadDict_inv freq ms1
                    (if ldm then Some (mkLdm (window_init ldmLit) 0
                       match h_ldm h with Some l => zero_table (ldm_table l) | None => [] end) else None)
                    p (d_src d) (d_size d) (d_forceWindow d) (d_detRefPrefix d) Hp' ltac:(lia)) as Hl.
      cbv zeta in Hl. specialize (Hl Hr1 Hr2 Hr3 Hr4).
      specialize (Hl ltac:(destruct Hr5 as [[_ Hc]|(_ & Hc1 & Hc2 & Hc3)]; [left; exact Hc | right; lia])).
      destruct (loadDictionaryContent freq ms1 _ p (d_src d) (d_size d) (d_forceWindow d) (d_detRefPrefix d) false)
        as [[[ms2 ldm2] fnc] corr] eqn:El.
      destruct Hl as (Hl1 & Hl2 & _).
      cbn [h_ms h_params]. split.
      * split; [exact Hp'|]. cbn [h_ms]. rewrite Hl2. exact Hl1.
      * apply exact_idx_true. destruct Hl1 as (A & B & C & D & _). revert D. rewrite CB_val. consts. lia.
    + split; [|reflexivity]. split; [exact Hp'|]. cbn [h_ms].
      unfold ms_inv. rewrite Hr1, Hr2, Hr4. rewrite CB_val.
      destruct Hr5 as [[_ Hc]|(_ & Hc1 & Hc2 & Hc3)]; revert Hr3; consts; intros; repeat split; lia.
  - (* OpAttach *)
    cbn [op_ok] in Hok. destruct Hok as (Hcd1 & Hcd2).
    cbn [step step_ok_ms]. split; [|reflexivity]. split; [exact Hp|]. cbn [h_ms].
    destruct Hinv as (Hl0 & Hld & Hdc & HB & Hnb & Hlde).
    unfold attach_cdict. destruct (u32 (cdictEnd - cdl) =? 0).
    + unfold ms_inv. repeat split; lia.
    + destruct (Z.ltb_spec (dictLimit (ms_window (h_ms h))) cdictEnd).
      * unfold window_clear, set_nextSrc, ms_inv.
        cbn [ms_window ms_loadedDictEnd nextSrc base dictLimit lowLimit nbOvf].
        replace (base (ms_window (h_ms h)) + cdictEnd - base (ms_window (h_ms h))) with cdictEnd by lia.
        rewrite (u64_small cdictEnd) by (revert Hcd2; consts; lia).
        rewrite (u32_small cdictEnd) by (revert Hcd2; consts; lia).
        rewrite CB_val. revert Hcd2. consts. intros. repeat split; lia.
      * unfold ms_inv. cbn [ms_window ms_loadedDictEnd]. repeat split; lia.
  - (* OpContinue *)
    cbn [op_ok] in Hok. cbn [step step_ok_ms].
    destruct (Z.eqb_spec (sumZ blocks) 0) as [|Hnz]; [split; [split; assumption | reflexivity]|].
    pose proof (sumZ_nonneg blocks Hok) as Hnn.
    pose proof (continue_update_inv h src (sumZ blocks) (conj Hp Hinv) ltac:(lia)) as Hu. cbv zeta in Hu.
    destruct Hu as (Hp1 & Hpe & Hinv1 & Hns1 & Hok1).
    pose proof (frame_blocks_inv freq blocks (continue_update h src (sumZ blocks)) src Hp1 Hinv1 Hok) as Hf.
    cbv zeta in Hf. destruct Hf as (Hf1 & _ & Hf3 & Hf4 & Hf5).
    split.
    + split; [rewrite Hf3; exact Hp1|]. rewrite Hf4, Hns1. exact Hf1.
    + rewrite Hok1, Hf5. reflexivity.
  - (* OpBlockMode *)
    cbn [op_ok] in Hok. cbn [step step_ok_ms].
    destruct (Z.eqb_spec size 0) as [|Hnz]; [split; [split; assumption | reflexivity]|].
    pose proof (continue_update_inv h src size (conj Hp Hinv) ltac:(lia)) as Hu. cbv zeta in Hu.
    destruct Hu as (Hp1 & Hpe & Hinv1 & Hns1 & Hok1).
    set (h1 := continue_update h src size) in *.
    pose proof (cycleLog_ok _ Hp1) as Hpo.
    assert (Hend : src + size - base (ms_window (h_ms h1)) < two32).
    { destruct Hinv1 as (_ & _ & _ & HB & _). revert HB Hok. rewrite CB_val. consts. lia. }
    pose proof (ovf_step freq (h_ms h1) (h_params h1) src (src + size) CB Hp1 Hinv1 ltac:(lia) Hend) as Hov.
    cbv zeta in Hov.
    specialize (Hov ltac:(left; pose proof (block_size_condition _ _ Hpo); lia)).
    destruct (overflowCorrectIfNeeded freq (h_ms h1) (h_params h1) src (src + size)) as [ms2 corr2] eqn:Eov.
    cbn [fst] in Hov. destruct Hov as (Hinv2 & Hb2 & Hns2 & Hcase).
    assert (Hblk : src + size - base (ms_window ms2) <= CURRENT_MAX).
    { destruct Hcase as [[-> Hle]|[Hle _]]; [exact Hle|].
      pose proof (block_size_condition _ _ Hpo). lia. }
    pose proof (search_effect_inv (h_params h1) (block_mode_dict_check ms2) (h_optFirst h1) src size Hinv2 ltac:(lia) Hblk) as Hs.
    cbv zeta in Hs.
    destruct (block_search_effect (h_params h1) (block_mode_dict_check ms2) (h_optFirst h1) src size) as [ms3 first'] eqn:Es.
    cbn [fst] in Hs. destruct Hs as (Hs1 & Hs2 & Hs3 & Hs4).
    unfold block_mode_dict_check in Hs2; cbn [ms_window] in Hs2.
    cbn [h_ms h_params]. split.
    + split; [exact Hp1|]. cbn [h_ms]. rewrite Hs2, Hns2, Hns1.
      apply (ms_inv_weaken _ _ _ _ CB_ge). exact Hs1.
    + rewrite Hok1, andb_true_l. apply andb_true_iff. split; apply exact_idx_true; lia.
  - (* OpFinder *)
    cbn [step step_ok_ms]. split; [|reflexivity]. split; [exact Hp|]. exact Hinv.
  - (* OpLdmFinder *)
    cbn [step step_ok_ms]. split; [|reflexivity]. destruct (h_ldm h); split; assumption.
  - (* OpCopyCDict *)
    cbn [op_ok] in Hok. cbn [step step_ok_ms]. split; [|reflexivity]. split; [exact Hp|].
    cbn [h_ms]. unfold ms_inv. cbn [ms_window ms_loadedDictEnd].
    rewrite CB_val. destruct Hok as (A & B & C & D & E & F). revert D. consts. intros. repeat split; lia.
Qed.

(* index_never_overflows: for every history of operations whose sizes respect what the code enforces,
   from any state satisfying the invariant (in particular a new context), the invariant holds after every
   operation and no index of the match-state window ever wrapped - whatever the number of operations,
   bytes or frames.  The statement contains no total size. *)
Lemma index_never_overflows_lemma :
  forall freq ops h, Inv h -> Forall op_ok ops -> Inv (run freq h ops) /\ run_ok_ms freq h ops = true.
Proof.
  intros freq ops. induction ops as [|o ops IH]; intros h Hinv Hall.
  - split; [exact Hinv | reflexivity].
  - inversion Hall as [|? ? Ho Hrest]; subst.
    destruct (step_inv freq h o Hinv Ho) as [Hinv1 Hok1].
    unfold run. cbn [fold_left run_ok_ms]. fold (run freq (step freq h o) ops).
    destruct (IH (step freq h o) Hinv1 Hrest) as [IH1 IH2].
    split; [exact IH1|]. rewrite Hok1, IH2. reflexivity.
Qed.

Lemma Inv_init p : cparams_ok p -> Inv (h_init p).
Proof.
  intro Hp. split; [exact Hp|]. unfold h_init, ms_inv. cbn. rewrite CB_val. consts. lia.
Qed.

(* what the invariant says in the terms of the property *)
Lemma Inv_meaning h :
  Inv h ->
  let w := ms_window (h_ms h) in
  0 <= lowLimit w /\ lowLimit w <= dictLimit w /\ dictLimit w <= nextSrc w - base w /\
  nextSrc w - base w <= CURRENT_MAX + CHUNKSIZE_MAX - BLOCKSIZE_MAX /\
  nextSrc w - base w + BLOCKSIZE_MAX < two32.
Proof.
  intros [_ (A & B & C & D & _)]. cbv zeta. revert D. rewrite CB_val. consts. lia.
Qed.

(* ---- the contract of ZSTD_CHUNKSIZE_MAX: "maximum chunk size before overflow correction needs to be
   called again".  Chunk machine = ZSTD_window_update + ZSTD_overflowCorrectIfNeeded per chunk (block mode
   without the btultra2 first pass), chunks up to ZSTD_CHUNKSIZE_MAX. ---- *)
Definition chunk_op_ok (o : op) : Prop :=
  match o with OpBlockMode _ size => 0 <= size <= CHUNKSIZE_MAX | _ => False end.

Definition InvC (h : hstate) : Prop :=
  cparams_ok (h_params h) /\ p_strategy (h_params h) <> ZSTD_btultra2 /\
  (cycleLog_of (p_chainLog (h_params h)) (p_strategy (h_params h)) <= 29 \/ p_windowLog (h_params h) <= 30) /\
  ms_inv (h_ms h) (nextSrc (ms_window (h_ms h))) CURRENT_MAX.

Lemma CMAX_le_CB : CURRENT_MAX <= CB. Proof. rewrite CB_val. consts. lia. Qed.

Lemma chunk_step_inv :
  forall freq h o, InvC h -> chunk_op_ok o -> InvC (step freq h o) /\ step_ok_ms freq h o = true.
Proof.
  intros freq h o (Hp & Hs9 & Hcorner & Hinv) Hok.
  destruct o as [| | | src size | | |]; try contradiction. cbn [chunk_op_ok] in Hok.
  cbn [step step_ok_ms].
  destruct (Z.eqb_spec size 0) as [|Hnz]; [split; [exact (conj Hp (conj Hs9 (conj Hcorner Hinv))) | reflexivity]|].
  pose proof (continue_update_inv h src size (conj Hp (ms_inv_weaken _ _ _ _ CMAX_le_CB Hinv)) ltac:(lia)) as Hu.
  cbv zeta in Hu. destruct Hu as (Hp1 & Hpe & _ & Hns1 & Hok1).
  (* redo the update facts with the tighter bound *)
  assert (Hinv1 : ms_inv (h_ms (continue_update h src size)) src CURRENT_MAX).
  { destruct Hinv as (Hl0 & Hld & Hdc & HB & Hnb & Hlde).
    set (w := ms_window (h_ms h)) in *.
    assert (Hwf : window_wf w) by (unfold window_wf; revert HB; consts; lia).
    pose proof (window_update_index_lemma w src size (h_forceNC h) Hwf ltac:(lia)) as Hu. cbv zeta in Hu.
    unfold continue_update. fold w.
    destruct (window_update w src size (h_forceNC h)) as [w1 contiguous] eqn:Eu.
    destruct Hu as (Hu1 & Hu2 & Hu3 & Hu4 & Hu5 & Hu6 & _ & _).
    destruct contiguous; cbn [h_ms ms_window ms_loadedDictEnd]; unfold ms_inv;
      cbn [ms_window ms_loadedDictEnd]; repeat split; lia. }
  set (h1 := continue_update h src size) in *.
  pose proof (cycleLog_ok _ Hp1) as Hpo.
  assert (Hend : src + size - base (ms_window (h_ms h1)) < two32).
  { destruct Hinv1 as (_ & _ & _ & HB & _). revert HB Hok. consts. lia. }
  rewrite Hpe in Hpo.
  pose proof (chunk_size_condition _ _ Hpo Hcorner) as Hcs.
  pose proof (ovf_step freq (h_ms h1) (h_params h1) src (src + size) CURRENT_MAX Hp1 Hinv1 ltac:(lia) Hend) as Hov.
  cbv zeta in Hov. rewrite Hpe in Hov.
  specialize (Hov ltac:(left; lia)).
  rewrite Hpe.
  destruct (overflowCorrectIfNeeded freq (h_ms h1) (h_params h) src (src + size)) as [ms2 corr2] eqn:Eov.
  cbn [fst] in Hov. destruct Hov as (Hinv2 & Hb2 & Hns2 & Hcase).
  assert (Hblk : src + size - base (ms_window ms2) <= CURRENT_MAX).
  { destruct Hcase as [[-> Hle]|[Hle _]]; [exact Hle | lia]. }
  (* no btultra2: the search leaves the window alone *)
  unfold block_search_effect, block_mode_dict_check. cbn [ms_window ms_loadedDictEnd ms_nextToUpdate ms_dms ms_hashLog3 ms_dds ms_tables].
  assert (H9 : (p_strategy (h_params h) =? ZSTD_btultra2) = false) by (apply Z.eqb_neq; exact Hs9).
  rewrite H9. cbn [andb].
  destruct Hinv2 as (Hl0 & Hld & Hdc & HB & Hnb & Hlde).
  destruct (size <? TINY_BLOCK); cbn [h_ms h_params]; split.
  all: try (rewrite Hok1, andb_true_l; apply andb_true_iff; split; apply exact_idx_true; cbn [h_ms ms_window]; lia).
  all: unfold InvC; cbn [h_params h_ms ms_window ms_loadedDictEnd]; (split; [exact Hp|]); (split; [exact Hs9|]); (split; [exact Hcorner|]);
    rewrite Hns2, Hns1; unfold ms_inv; cbn [ms_window ms_loadedDictEnd]; repeat split; lia.
Qed.

Lemma chunk_machine_never_overflows_lemma :
  forall freq ops h, InvC h -> Forall chunk_op_ok ops -> InvC (run freq h ops) /\ run_ok_ms freq h ops = true.
Proof.
  intros freq ops. induction ops as [|o ops IH]; intros h Hinv Hall.
  - split; [exact Hinv | reflexivity].
  - inversion Hall as [|? ? Ho Hrest]; subst.
    destruct (chunk_step_inv freq h o Hinv Ho) as [Hinv1 Hok1].
    unfold run. cbn [fold_left run_ok_ms]. fold (run freq (step freq h o) ops).
    destruct (IH (step freq h o) Hinv1 Hrest) as [IH1 IH2].
    split; [exact IH1|]. rewrite Hok1, IH2. reflexivity.
Qed.

(* ---- the LDM window, fed chunk after chunk through the chunk step of ZSTD_ldm_generateSequences ---- *)
Fixpoint ldm_run (freq : bool) (s : ldmState) (wl p : Z) (sizes : list Z) : ldmState :=
  match sizes with
  | [] => s
  | n :: rest => ldm_run freq (fst (ldm_chunk_step freq s wl p (p + n))) wl (p + n) rest
  end.

Fixpoint ldm_run_ok (freq : bool) (s : ldmState) (wl p : Z) (sizes : list Z) : bool :=
  match sizes with
  | [] => true
  | n :: rest =>
      let s' := fst (ldm_chunk_step freq s wl p (p + n)) in
      exact_idx (ldm_window s') p && exact_idx (ldm_window s') (p + n) && ldm_run_ok freq s' wl (p + n) rest
  end.

Definition ldm_inv (s : ldmState) (p : Z) : Prop :=
  let w := ldm_window s in
  0 <= lowLimit w /\ lowLimit w <= dictLimit w /\ dictLimit w <= p - base w /\ p - base w <= CURRENT_MAX /\
  0 <= nbOvf w < two32 /\ 0 <= ldm_loadedDictEnd s <= p - base w.

Lemma ldm_index_never_overflows_lemma :
  forall freq wl sizes s p,
    0 <= wl <= WINDOWLOG_MAX -> ldm_inv s p -> Forall (fun n => 0 < n <= CHUNKSIZE_MAX) sizes ->
    ldm_inv (ldm_run freq s wl p sizes) (p + sumZ sizes) /\ ldm_run_ok freq s wl p sizes = true.
Proof.
  intros freq wl sizes. induction sizes as [|n rest IH]; intros s p Hwl Hinv Hall.
  - unfold sumZ. cbn [fold_left ldm_run ldm_run_ok]. rewrite Z.add_0_r. split; [exact Hinv|reflexivity].
  - inversion Hall as [|? ? Hn Hrest]; subst.
    destruct Hinv as (Hl0 & Hld & Hdc & HB & Hnb & Hlde).
    assert (Hb : window_bounded (ldm_window s)) by (unfold window_bounded; revert HB; consts; lia).
    pose proof (ldm_correction_lemma freq s wl p (p + n) Hwl Hb Hlde ltac:(lia) ltac:(lia)
                  ltac:(revert HB Hn; consts; lia) ltac:(lia) Hld Hdc) as Hc.
    cbv zeta in Hc. cbn [ldm_run ldm_run_ok]. rewrite sumZ_cons.
    destruct (ldm_chunk_step freq s wl p (p + n)) as [s' corr] eqn:Es. cbn [fst].
    destruct Hc as (Hc0 & Hcn & Hc1 & Hc2 & Hc3 & Hc4 & Hc5).
    assert (Hmd : 1 <= 2 ^ wl <= 2147483648).
    { revert Hwl. consts. intro. rewrite <- pow2_31. apply pow2_mono. lia. }
    assert (Hinv' : ldm_inv s' (p + n)).
    { unfold ldm_inv. destruct corr as [c|].
      - destruct Hc5 as (Hc51 & Hc52 & Hc53 & _).
        destruct Hc4 as [Hz|[_ Hcontra]]; [|discriminate].
        revert Hc53 Hn. consts. intros. repeat split; lia.
      - destruct Hc5 as (Hc51 & _ & Hc53).
        destruct Hc4 as [Hz|[Hsame _]]; repeat split; try lia. }
    specialize (IH s' (p + n) Hwl Hinv' Hrest). destruct IH as [IH1 IH2].
    replace (p + (n + sumZ rest)) with (p + n + sumZ rest) by lia.
    split; [exact IH1|]. rewrite IH2, andb_true_r.
    apply andb_true_iff. split; apply exact_idx_true; [|exact Hc3].
    destruct corr as [c|].
    + destruct Hc5 as (Hc51 & Hc52 & Hc53 & _). revert Hc53. consts. lia.
    + destruct Hc5 as (Hc51 & _). rewrite Hc51. revert HB. consts. lia.
Qed.

(* ... but blocks below TINY_BLOCK bytes never reach that chunk step: the LDM window advances
   (ZSTD_window_update) without any overflow check.  For every bound there is a history of tiny blocks,
   each satisfying the per-block side condition, that drives the LDM index beyond it. *)
Lemma ldm_tiny_blocks_unchecked_lemma :
  forall freq blocks h ip l,
    h_ldm h = Some l -> Forall (fun b => 0 < b < TINY_BLOCK) blocks ->
    h_ldm (frame_blocks freq h ip blocks) = Some l.
Proof.
  intros freq blocks. induction blocks as [|b rest IH]; intros h ip l Hl Hall; [exact Hl|].
  inversion Hall as [|? ? Hb Hrest]; subst.
  cbn [frame_blocks]. apply IH; [|exact Hrest].
  unfold frame_block.
  destruct (overflowCorrectIfNeeded freq (h_ms h) (h_params h) ip (ip + b)) as [ms1 c1].
  destruct (checkDictValidity _ _ _ _ _) as [lde2 dms2].
  destruct (window_enforceMaxDist _ _ _ _ _) as [[w3 lde3] dms3].
  rewrite Hl.
  destruct (Z.ltb_spec b TINY_BLOCK); [|lia].
  destruct (block_search_effect _ _ _ _ _) as [ms5 f']. reflexivity.
Qed.

(* ---- the hypotheses of the theorems are satisfiable: concrete instances, evaluated ---- *)
Example correction_example :
  let w := mkWindow 8000000000 4330000000 4330000000 3669000000 3668990000 0 in
  (* index 3670000000 > ZSTD_CURRENT_MAX - 131072, windowLog 20, cycleLog 17 *)
  window_correctOverflow w 17 (2 ^ 20) 8000000000 =
    (mkWindow 8000000000 7998836352 7998836352 163648 153648 1, 3668836352).
Proof. vm_compute. reflexivity. Qed.

Example history_example :
  let p := mkCParams 20 17 17 3 false in
  let ops := [OpBegin p 0 false true 1000 1000 0 None; OpContinue 5000 [131072; 131072; 100]] in
  Forall op_ok ops /\ Inv (h_init p) /\
  nextSrc (ms_window (h_ms (run false (h_init p) ops))) - base (ms_window (h_ms (run false (h_init p) ops))) = 262246.
Proof.
  cbv zeta. split; [|split].
  - repeat constructor; unfold cparams_ok, block_ok; cbn; consts; try lia.
  - apply Inv_init. unfold cparams_ok. cbn. consts. lia.
  - vm_compute. reflexivity.
Qed.
