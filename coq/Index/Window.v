(* C15 model, part 1: the 32-bit index window of the match finders.
   Source: lib/compress/zstd_compress_internal.h ("Round buffer management").
   NO proofs in this file (it must still extract when a proof breaks).

   Conventions
   - pointers (BYTE const* ) are abstract addresses in Z (flat address space, no wrap);
     the tie harness reports them relative to the start of a PROT_NONE reservation;
   - U32 values are Z in [0, 2^32); every C U32 operation is written with an explicit [u32];
   - size_t casts are written with an explicit [u64];
   - constants come from ZV.Gen.Gen_Sizes / Gen_Bounds, regenerated from the current headers. *)
From Coq Require Import ZArith Bool List.
From ZV.Gen Require Import Gen_Sizes Gen_Bounds.
Import ListNotations.
Local Open Scope Z_scope.

Definition two32 : Z := 4294967296.
Definition two64 : Z := 18446744073709551616.
Definition u32 (x : Z) : Z := x mod two32.
Definition u64 (x : Z) : Z := x mod two64.

(* regenerated constants *)
Definition START : Z := Z.of_N c_ZSTD_WINDOW_START_INDEX.
Definition CURRENT_MAX : Z := Z.of_N c_ZSTD_CURRENT_MAX.
Definition CHUNKSIZE_MAX : Z := Z.of_N c_ZSTD_CHUNKSIZE_MAX.
Definition HASH_READ_SIZE : Z := Z.of_N c_HASH_READ_SIZE.
Definition DUBT_UNSORTED_MARK : Z := Z.of_N c_ZSTD_DUBT_UNSORTED_MARK.
Definition ROWSIZE : Z := Z.of_N c_ZSTD_ROWSIZE.
Definition INDEXOVERFLOW_MARGIN : Z := Z.of_N c_ZSTD_INDEXOVERFLOW_MARGIN.
Definition BLOCKSIZE_MAX : Z := Z.of_N c_ZSTD_BLOCKSIZE_MAX.
Definition WINDOWLOG_MAX : Z := z_ZSTD_WINDOWLOG_MAX.
Definition CHAINLOG_MAX : Z := z_ZSTD_CHAINLOG_MAX.
Definition SHORT_CACHE_TAG_BITS : Z := Z.of_N c_ZSTD_SHORT_CACHE_TAG_BITS.

(* ZSTD_window_t *)
Record window : Type := mkWindow {
  nextSrc : Z;      (* BYTE const*  *)
  base : Z;         (* BYTE const*  *)
  dictBase : Z;     (* BYTE const*  *)
  dictLimit : Z;    (* U32 *)
  lowLimit : Z;     (* U32 *)
  nbOvf : Z         (* U32 nbOverflowCorrections *)
}.

Definition set_low (w : window) (v : Z) : window :=
  mkWindow (nextSrc w) (base w) (dictBase w) (dictLimit w) v (nbOvf w).
Definition set_dictLimit (w : window) (v : Z) : window :=
  mkWindow (nextSrc w) (base w) (dictBase w) v (lowLimit w) (nbOvf w).
Definition set_nextSrc (w : window) (v : Z) : window :=
  mkWindow v (base w) (dictBase w) (dictLimit w) (lowLimit w) (nbOvf w).

(* index of an address in the window's referential, as the code computes it:
   (U32)((BYTE const* )p - window.base) *)
Definition idx (w : window) (p : Z) : Z := u32 (p - base w).

(* ZSTD_window_init(); [lit] is the address of the string literal " " *)
Definition window_init (lit : Z) : window :=
  mkWindow (lit + START) lit lit START START 0.

(* ZSTD_window_clear() *)
Definition window_clear (w : window) : window :=
  let endT := u64 (nextSrc w - base w) in
  let e := u32 endT in
  mkWindow (nextSrc w) (base w) (dictBase w) e e (nbOvf w).

(* ZSTD_window_isEmpty() : note the last comparison is on ptrdiff_t, not U32 *)
Definition window_isEmpty (w : window) : bool :=
  (dictLimit w =? START) && (lowLimit w =? START) && (nextSrc w - base w =? START).

(* ZSTD_window_hasExtDict() *)
Definition window_hasExtDict (w : window) : bool := lowLimit w <? dictLimit w.

(* ZSTD_window_update(): returns (window, contiguous) *)
Definition window_update (w : window) (src srcSize : Z) (forceNonContiguous : bool) : window * bool :=
  if srcSize =? 0 then (w, true) else
  let '(w1, contiguous) :=
    if negb (src =? nextSrc w) || forceNonContiguous then
      let distanceFromBase := u64 (nextSrc w - base w) in
      let low := dictLimit w in
      let dl := u32 distanceFromBase in
      let low' := if u32 (dl - low) <? HASH_READ_SIZE then dl else low in
      (mkWindow (nextSrc w) (src - distanceFromBase) (base w) dl low' (nbOvf w), false)
    else (w, true) in
  let w2 := set_nextSrc w1 (src + srcSize) in
  let w3 :=
    if (src + srcSize >? dictBase w2 + lowLimit w2) && (src <? dictBase w2 + dictLimit w2) then
      let highInputIdx := u64 ((src + srcSize) - dictBase w2) in
      let lowLimitMax := if highInputIdx >? dictLimit w2 then dictLimit w2 else u32 highInputIdx in
      set_low w2 lowLimitMax
    else w2 in
  (w3, contiguous).

(* ZSTD_window_enforceMaxDist().
   [lde] = None models loadedDictEndPtr == NULL, [dms] = None models dictMatchStatePtr == NULL;
   Some b for dms: b = true iff *dictMatchStatePtr != NULL. *)
Definition window_enforceMaxDist (w : window) (blockEnd maxDist : Z)
           (lde : option Z) (dms : option bool) : window * option Z * option bool :=
  let blockEndIdx := idx w blockEnd in
  let loadedDictEnd := match lde with Some v => v | None => 0 end in
  if blockEndIdx >? u32 (maxDist + loadedDictEnd) then
    let newLowLimit := u32 (blockEndIdx - maxDist) in
    let w1 := if lowLimit w <? newLowLimit then set_low w newLowLimit else w in
    let w2 := if dictLimit w1 <? lowLimit w1 then set_dictLimit w1 (lowLimit w1) else w1 in
    (w2, match lde with Some _ => Some 0 | None => None end,
         match dms with Some _ => Some false | None => None end)
  else (w, lde, dms).

(* ZSTD_checkDictValidity(): returns the new ( *loadedDictEndPtr, *dictMatchStatePtr != NULL ) *)
Definition checkDictValidity (w : window) (blockEnd maxDist : Z) (lde : Z) (dms : bool) : Z * bool :=
  let blockEndIdx := idx w blockEnd in
  if (blockEndIdx >? u32 (lde + maxDist)) || negb (lde =? dictLimit w) then (0, false)
  else (lde, dms).

(* ZSTD_getLowestMatchIndex() / ZSTD_getLowestPrefixIndex() *)
Definition lowest_index (lowestValid curr windowLog loadedDictEnd : Z) : Z :=
  let maxDistance := u32 (Z.shiftl 1 windowLog) in
  let withinWindow := if u32 (curr - lowestValid) >? maxDistance then u32 (curr - maxDistance) else lowestValid in
  if negb (loadedDictEnd =? 0) then lowestValid else withinWindow.

Definition getLowestMatchIndex (w : window) (loadedDictEnd curr windowLog : Z) : Z :=
  lowest_index (lowLimit w) curr windowLog loadedDictEnd.
Definition getLowestPrefixIndex (w : window) (loadedDictEnd curr windowLog : Z) : Z :=
  lowest_index (dictLimit w) curr windowLog loadedDictEnd.

(* ZSTD_index_overlap_check() *)
Definition index_overlap_check (prefixLowestIndex repIndex : Z) : bool :=
  u32 (u32 (prefixLowestIndex - 1) - repIndex) >=? 3.
