(* C15: decoding of tie case lines (lists of integers) into model calls, and encoding of the results.
   Kept in Coq so that ml/c15_driver.ml contains no logic besides integer parsing / printing.
   NO proofs in this file; nothing here is used by a theorem. *)
From Coq Require Import ZArith Bool List.
From ZV.Index Require Import Window Reduce Overflow History MtJobs.
Import ListNotations.
Local Open Scope Z_scope.

Definition b2z (b : bool) : Z := if b then 1 else 0.
Definition z2b (z : Z) : bool := negb (z =? 0).
Definition optz (z : Z) : option Z := if z <? 0 then None else Some z.
Definition optb (z : Z) : option bool := if z <? 0 then None else Some (z2b z).
Definition zopt (o : option Z) : Z := match o with Some v => v | None => -1 end.
Definition bopt (o : option bool) : Z := match o with Some b => b2z b | None => -1 end.

Definition w_out (w : window) : list Z :=
  [nextSrc w; base w; dictBase w; dictLimit w; lowLimit w; nbOvf w].

Definition w_in (l : list Z) : window * list Z :=
  match l with
  | a :: b :: c :: d :: e :: f :: r => (mkWindow a b c d e f, r)
  | _ => (mkWindow 0 0 0 0 0 0, [])
  end.

Definition nthz (l : list Z) (n : nat) : Z := nth n l 0.

Definition take (n : Z) (l : list Z) : list Z * list Z :=
  (firstn (Z.to_nat n) l, skipn (Z.to_nat n) l).

Definition tables_out (t : tables) : list Z := hashTable t ++ chainTable t ++ hashTable3 t.

(* table checksum, computed with U32 arithmetic so that the C side is a plain loop *)
Definition cksum (l : list Z) : Z := fold_left (fun acc e => u32 (u32 (acc * 31) + e)) l 7.

(* stateless calls: opcode, arguments -> results *)
Definition dispatch (freq : bool) (opcode : Z) (args : list Z) : list Z :=
  let '(w, r) := w_in args in
  match opcode with
  | 1 => w_out (window_init (nthz args 0))
  | 2 => w_out (window_clear w)
  | 3 => [b2z (window_isEmpty w)]
  | 4 => [b2z (window_hasExtDict w)]
  | 5 => let '(w', c) := window_update w (nthz r 0) (nthz r 1) (z2b (nthz r 2)) in w_out w' ++ [b2z c]
  | 6 => let '(w', lde, dms) := window_enforceMaxDist w (nthz r 0) (nthz r 1) (optz (nthz r 2)) (optb (nthz r 3)) in
         w_out w' ++ [zopt lde; bopt dms]
  | 7 => let '(lde, dms) := checkDictValidity w (nthz r 0) (nthz r 1) (nthz r 2) (z2b (nthz r 3)) in
         [lde; b2z dms]
  | 8 => [getLowestMatchIndex w (nthz r 0) (nthz r 1) (nthz r 2);
          getLowestPrefixIndex w (nthz r 0) (nthz r 1) (nthz r 2)]
  | 9 => [b2z (index_overlap_check (nthz args 0) (nthz args 1))]
  | 10 => [b2z (window_canOverflowCorrect w (nthz r 0) (nthz r 1) (nthz r 2) (nthz r 3))]
  | 11 => [b2z (window_needOverflowCorrection freq w (nthz r 0) (nthz r 1) (nthz r 2) (nthz r 3) (nthz r 4))]
  | 12 => let '(w', c) := window_correctOverflow w (nthz r 0) (nthz r 1) (nthz r 2) in c :: w_out w'
  | 13 => [b2z (indexTooCloseToMax w)]
  | 14 => [b2z (dictTooBig (nthz args 0))]
  | 15 => reduceTable_internal (skipn 3 args) (nthz args 2) (nthz args 1) (z2b (nthz args 0))
  | 16 => ldm_reduceTable (skipn 1 args) (nthz args 0)
  | 17 =>
      (* W lde ntu dms hashLog3 dds windowLog chainLog hashLog strategy useRow ip iend nh nc n3 tables *)
      let lde := nthz r 0 in let ntu := nthz r 1 in let dms := z2b (nthz r 2) in
      let h3 := nthz r 3 in let dds := z2b (nthz r 4) in
      let p := mkCParams (nthz r 5) (nthz r 6) (nthz r 7) (nthz r 8) (z2b (nthz r 9)) in
      let ip := nthz r 10 in let iend := nthz r 11 in
      let '(th, r1) := take (nthz r 12) (skipn 15 r) in
      let '(tc, r2) := take (nthz r 13) r1 in
      let '(t3, _) := take (nthz r 14) r2 in
      let ms := mkMS w lde ntu dms h3 dds (mkTables th tc t3) in
      let '(ms', corr) := overflowCorrectIfNeeded freq ms p ip iend in
      zopt corr :: w_out (ms_window ms') ++ [ms_loadedDictEnd ms'; ms_nextToUpdate ms'; b2z (ms_dms ms')]
           ++ tables_out (ms_tables ms')
  | 18 =>
      (* W lde windowLog chunkStart chunkEnd table *)
      let s := mkLdm w (nthz r 0) (skipn 4 r) in
      let '(s', corr) := ldm_chunk_step freq s (nthz r 1) (nthz r 2) (nthz r 3) in
      zopt corr :: w_out (ldm_window s') ++ [ldm_loadedDictEnd s'] ++ ldm_table s'
  | 19 =>
      (* ZSTDMT job counters: nextJobID doneJobID jobIDMask nbFlushCalls *)
      let '(n, m) := mt_flush_until_stuck (Z.to_nat (nthz args 3)) (mkMtc (nthz args 0) (nthz args 1) (nthz args 2)) 0 in
      [n; nextJobID m; doneJobID m; b2z (mt_table_full m); b2z (mt_firstJob m)]
  | 20 =>
      (* ZSTDMT serial LDM window: lit dict dictSize forceWindow src srcSize *)
      let '(w1, lde) := mt_serial_ldm_load MT_SERIAL_DICT_LIMIT (nthz args 0) (nthz args 1) (nthz args 2) (z2b (nthz args 3)) in
      let w2 := mt_serial_ldm_job w1 (nthz args 4) (nthz args 5) in
      w_out w1 ++ [lde; b2z (window_exact w1)] ++ w_out w2 ++ [b2z (window_exact w2)]
  | _ => [-999]
  end.

(* history operations: opcode, arguments -> op *)
Definition decode_op (opcode : Z) (a : list Z) : option op :=
  match opcode with
  | 101 =>
      (* wlog clog hlog strat useRow h3 ldm forced lit ldmLit loadedDictSize hasDict d_src d_size fw drp *)
      let p := mkCParams (nthz a 0) (nthz a 1) (nthz a 2) (nthz a 3) (z2b (nthz a 4)) in
      let dict := if z2b (nthz a 11)
                  then Some (mkDict (nthz a 12) (nthz a 13) (z2b (nthz a 14)) (z2b (nthz a 15))) else None in
      Some (OpBegin p (nthz a 5) (z2b (nthz a 6)) (z2b (nthz a 7)) (nthz a 8) (nthz a 9) (nthz a 10) dict)
  | 102 => Some (OpAttach (nthz a 0) (nthz a 1))
  | 103 => Some (OpContinue (nthz a 0) (skipn 1 a))
  | 104 => Some (OpBlockMode (nthz a 0) (nthz a 1))
  | 105 =>
      let '(th, r1) := take (nthz a 1) (skipn 4 a) in
      let '(tc, r2) := take (nthz a 2) r1 in
      let '(t3, _) := take (nthz a 3) r2 in
      Some (OpFinder (nthz a 0) (mkTables th tc t3))
  | 106 => Some (OpLdmFinder a)
  | 107 => let '(w, r) := w_in a in Some (OpCopyCDict w (nthz r 0) (nthz r 1))
  | _ => None
  end.

Definition h_out (h : hstate) (ok : bool) : list Z :=
  let ms := h_ms h in
  w_out (ms_window ms)
  ++ [ms_loadedDictEnd ms; ms_nextToUpdate ms; b2z (ms_dms ms); b2z (h_forceNC h);
      cksum (hashTable (ms_tables ms)); cksum (chainTable (ms_tables ms)); cksum (hashTable3 (ms_tables ms))]
  ++ match h_ldm h with
     | Some l => 1 :: w_out (ldm_window l) ++ [ldm_loadedDictEnd l; cksum (ldm_table l)]
     | None => [0]
     end
  ++ [b2z (h_optFirst h); b2z ok].

(* one history step: returns the new state and the canonical result line *)
(* opcode 108 (tie device, not an operation of the code): replace the match-state window, loadedDictEnd,
   dictMatchState flag and forceNonContiguous by observed values, so that a prediction can start from the
   state a real context was observed in *)
Definition inject (h : hstate) (a : list Z) : hstate :=
  let '(w, r) := w_in a in
  let ms := h_ms h in
  mkH (mkMS w (nthz r 0) (nthz r 3) (z2b (nthz r 1)) (ms_hashLog3 ms) (ms_dds ms) (ms_tables ms))
      (h_ldm h) (h_params h) (z2b (nthz r 2)) (z2b (nthz r 4)).

(* opcode 109 (tie device): replace nextToUpdate by the observed value (what the match finder left), so that the
   index code's own updates of nextToUpdate can be predicted for the next call *)
Definition set_ntu (h : hstate) (v : Z) : hstate :=
  let ms := h_ms h in
  mkH (mkMS (ms_window ms) (ms_loadedDictEnd ms) v (ms_dms ms) (ms_hashLog3 ms) (ms_dds ms) (ms_tables ms))
      (h_ldm h) (h_params h) (h_forceNC h) (h_optFirst h).

Definition hist_step (freq : bool) (h : hstate) (opcode : Z) (a : list Z) : hstate * list Z :=
  if opcode =? 108 then let h' := inject h a in (h', h_out h' true) else
  if opcode =? 109 then let h' := set_ntu h (nthz a 0) in (h', h_out h' true) else
  match decode_op opcode a with
  | Some o => let h' := step freq h o in (h', h_out h' (step_ok freq h o))
  | None => (h, [-999])
  end.

Definition hist_init : hstate := h_init (mkCParams 0 0 0 0 false).
