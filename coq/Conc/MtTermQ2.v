(* C11, termination under fairness, part 12: no pool thread can run (Quiet); progress of the input-side steps of the application thread. *)
From Coq Require Import List NArith ZArith Bool Arith Lia.
Import ListNotations.
From ZV.Conc Require Import Sched SchedLemmas MtModel MtProofs MtRing MtRingC MtPool MtFrame MtSleep MtStep MtLive MtErr MtErrC MtFlush MtFlushC.
From ZV.Conc Require Import MtTermDefs MtTermW MtTermA MtTermS MtTermR MtTermC1 MtTermC2 MtTermC3 MtTermC4 MtTermQ1 MtTermI.
Local Open Scope nat_scope.
(* ------------------------------------------------------------------ *)
(* no pool thread can run                                               *)

Definition Quiet (s : state) : Prop := forall t x, nth_error (ws s) t = Some x -> w_pc x = WAsleep \/ w_pc x = WSerialZ.

Lemma quiet_q cfg s : Inv4 cfg s -> Quiet s -> q (pl s) = None.
Proof.
  intros (_ & _ & P & _) Q. destruct (q (pl s)) as [k|] eqn:E; auto.
  destruct (p_take _ _ P k E) as (t & x & Hx & Px). destruct (Q t x Hx); congruence.
Qed.

Lemma quiet_done cfg s : Inv4 cfg s -> Quiet s -> forall i, inflight s i -> j_done (getj s (slot cfg i)) = true.
Proof.
  intros ((K & A) & SI & P & L) Q.
  assert (Hown : forall i, inflight s i -> j_done (getj s (slot cfg i)) = false ->
                 exists t x, nth_error (ws s) t = Some x /\ w_pc x = WSerialZ /\ w_slot x = slot cfg i).
  { intros i Hi Hd. destruct (k_own _ _ K i Hi Hd) as [O|(t & x & Hx & Ax & Es)].
    - destruct (p_take _ _ P _ O) as (t & x & Hx & Px). destruct (Q t x Hx); congruence.
    - exists t, x. split; auto. split; auto. destruct (Q t x Hx) as [X|X]; auto. rewrite X in Ax. discriminate. }
  intros i Hi. destruct (j_done (getj s (slot cfg i))) eqn:Hd; auto. exfalso.
  destruct (Hown i Hi Hd) as (t & x & Hx & Px & Es).
  pose proof (s_slp _ _ SI t x Hx Px) as H1. pose proof (l_slp _ _ L t x Hx Px) as H2.
  rewrite Es, (k_ids _ _ K i Hi) in H1. destruct Hi as (I1 & I2).
  assert (Hn : inflight s (s_next (sr s))) by (split; lia).
  destruct (j_done (getj s (slot cfg (s_next (sr s))))) eqn:Hdn.
  - destruct (l_ser _ _ L _ Hn ltac:(lia) Hdn) as (X & _). lia.
  - destruct (Hown _ Hn Hdn) as (t' & x' & Hx' & Px' & Es').
    pose proof (s_slp _ _ SI t' x' Hx' Px') as H3. rewrite Es', (k_ids _ _ K _ Hn) in H3. lia.
Qed.

Lemma quiet_busy cfg s : Inv4 cfg s -> Quiet s -> busy (pl s) = 0.
Proof.
  intros I4 Q. pose proof I4 as ((K & A) & SI & P & L). rewrite (p_busy _ _ P).
  assert (Hall : forall t x, nth_error (ws s) t = Some x -> busyp (w_pc x) = false).
  { intros t x Hx. destruct (Q t x Hx) as [X|X]; [rewrite X; reflexivity|]. exfalso.
    destruct (k_wrk _ _ K t x Hx) as (i & Hi & Es & (D & _)); [rewrite X; reflexivity|].
    rewrite Es in D. rewrite (quiet_done cfg s I4 Q i Hi) in D. discriminate. }
  unfold nbusy. clear - Hall. induction (ws s) as [|a r IH]; [reflexivity|].
  cbn. rewrite (Hall 0 a eq_refl). apply IH. intros t x Hx. apply (Hall (S t) x). exact Hx.
Qed.

(* ------------------------------------------------------------------ *)
(* R3, the input side: these steps make progress whatever the pool threads do *)

Definition Prog (cfg : config) (s s' : state) : Prop := AA cfg s' < AA cfg s \/ BB s' < BB s.

Lemma prog_ac cfg w s s' :
  TInv cfg s -> caller_step cfg w s = Some s' -> c_pc (cl s) <> CTryAdd -> Ac cfg s' < Ac cfg s -> AA cfg s' < AA cfg s.
Proof.
  intros TI H Hp Hlt. pose proof (caller_awake cfg w s s' H). pose proof (cz_le (c_pc (cl s'))).
  destruct (aw_caller_step cfg w s s' TI H) as [X|(X & _)]; [|contradiction]. unfold AA. lia.
Qed.

Lemma prog_sleep cfg w s p : caller_step cfg w s = Some (set_cpc p s) -> nzp p = false -> awake p = awake (c_pc (cl s)) ->
  AA cfg (set_cpc p s) < AA cfg s.
Proof.
  intros H Hz Ha. pose proof (caller_awake cfg w s _ H) as Hc. unfold AA.
  assert (E1 : Aw cfg (set_cpc p s) = Aw cfg s) by reflexivity.
  assert (E2 : Ac cfg (set_cpc p s) = Ac cfg s) by (unfold Ac; cbn [cl set_cpc set_cl cl_pc c_pc]; rewrite Ha; reflexivity).
  assert (E3 : cz (c_pc (cl (set_cpc p s))) = 0) by (unfold cz; cbn [cl set_cpc set_cl cl_pc c_pc]; rewrite Hz; reflexivity).
  lia.
Qed.

Lemma r3_inuse cfg w s s' j :
  TInv cfg s -> c_pc (cl s) = CInUse j -> caller_step cfg w s = Some s' -> BB s' < BB s.
Proof.
  intros TI Epc H. unfold caller_step in H. cbn zeta in H. rewrite Epc in H.
  assert (EB : BB s = 100 + n2 (next (mt s) - j)) by (unfold BB; rewrite Epc; reflexivity).
  destruct (_ <? _)%N; inv_some H.
  - match goal with |- BB (after_inuse cfg s ?u) < _ => pose proof (bb_after_inuse cfg s u) end. lia.
  - unfold scan_inuse. destruct (_ <? _)%N eqn:El.
    + apply N.ltb_lt in El. unfold BB. cbn [cl mt set_cpc set_cl cl_pc c_pc awake]. rewrite Epc. cbn [awake]. lia.
    + pose proof (bb_after_inuse cfg s (0, 0)%N). lia.
Qed.

Lemma r3_ldm2 cfg w s s' :
  (0 < c_minblk cfg)%N -> TInv cfg s -> c_pc (cl s) = CLdm2 -> caller_step cfg w s = Some s' -> AA cfg s' < AA cfg s.
Proof.
  intros Hm TI Epc H. pose proof (pre_of_tinv cfg s TI) as P. pose proof H as H'. unfold caller_step in H. cbn zeta in H. rewrite Epc in H.
  destruct (overlap_win _ _); inv_some H.
  - eapply prog_sleep; eauto. rewrite Epc. reflexivity.
  - apply (prog_ac cfg w s); auto; [rewrite Epc; discriminate|].
    assert (Hin : (0 < c_in (cl s))%N) by (destruct TI as (_ & (_ & _ & _ & A3 & _)); apply A3; rewrite Epc; reflexivity).
    pose proof (ac_hand_out_lt cfg s P Hin Hm). unfold Ac at 2. rewrite Epc. cbn [awake]. lia.
Qed.

Lemma r3_ldm1 cfg w s s' :
  (0 < c_minblk cfg)%N -> TInv cfg s -> c_pc (cl s) = CLdm1 -> caller_step cfg w s = Some s' -> Prog cfg s s'.
Proof.
  intros Hm TI Epc H. pose proof (pre_of_tinv cfg s TI) as P. pose proof H as H'. unfold caller_step in H. cbn zeta in H. rewrite Epc in H.
  destruct (overlap_win _ _); inv_some H.
  - left. eapply prog_sleep; eauto. rewrite Epc. reflexivity.
  - assert (Hin : (0 < c_in (cl s))%N) by (destruct TI as (_ & (_ & _ & _ & A3 & _)); apply A3; rewrite Epc; reflexivity).
    assert (EA : Ac cfg s = AcN cfg s + 1) by (unfold Ac; rewrite Epc; reflexivity).
    destruct (0 <? snd (c_use (cl s)))%N eqn:Ef.
    + right. pose proof (bb_move_prefix cfg s). unfold BB at 2. rewrite Epc. cbn [awake]. rewrite Ef. lia.
    + apply N.ltb_ge in Ef. assert (Hu : snd (c_use (cl s)) = 0%N) by lia.
      destruct (good_move_prefix cfg s P Hu Hin Hm) as [X|(X & Y)].
      * left. apply (prog_ac cfg w s); auto; [rewrite Epc; discriminate|lia].
      * right. unfold BB at 2. rewrite Epc. cbn [awake]. rewrite Hu. cbn. lia.
Qed.
