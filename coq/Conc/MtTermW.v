(* C11, termination under fairness, part 2: every step of a pool thread strictly decreases the pool-side potential. *)
From Coq Require Import List NArith ZArith Bool Arith Lia.
Import ListNotations.
From ZV.Conc Require Import Sched SchedLemmas MtModel MtProofs MtRing MtRingC MtPool MtFrame MtSleep MtStep MtLive MtErr MtTermDefs.
Local Open Scope nat_scope.
Lemma aw_step_le cfg s s' t w w' l c :
  (forall k, j_size (getj s' k) = j_size (getj s k)) -> ws s' = upd t w' l -> nth_error l t = Some w ->
  sumf (phiW cfg s) l <= sumf (phiW cfg s) (ws s) + c ->
  sumf (phiW cfg s') (ws s') + phiW cfg s w <= sumf (phiW cfg s) (ws s) + c + phiW cfg s w'.
Proof.
  intros Hs Hw Hn Hc. rewrite (sumf_ext (phiW cfg s') (phiW cfg s)) by (intros; apply phiW_ext; exact Hs).
  rewrite Hw. pose proof (sumf_upd (phiW cfg s) t w' l w Hn). lia.
Qed.

Lemma queueW_ext cfg s s' : (forall k, j_size (getj s' k) = j_size (getj s k)) -> q (pl s') = q (pl s) -> queueW cfg s' = queueW cfg s.
Proof. intros Hs Hq. unfold queueW, jobW, nbc. rewrite Hq. destruct (q (pl s)); auto. rewrite Hs. reflexivity. Qed.

Lemma phiW_pc cfg s w p : w_pc w = p -> phiW cfg s w = phiW cfg s (mkW p (w_slot w) false false 0%N).
Proof. intros <-. reflexivity. Qed.

Ltac ph := unfold phiW; cbn [w_pc w_slot w_set_pc]; repeat match goal with E : w_pc _ = _ |- _ => rewrite E end; try reflexivity; try lia.

Lemma aw_step_bc cfg s s' t w w' :
  (forall k, j_size (getj s' k) = j_size (getj s k)) -> ws s' = upd t w' (wake_serial (ws s)) -> nth_error (ws s) t = Some w ->
  w_pc w <> WSerialZ ->
  sumf (phiW cfg s') (ws s') + phiW cfg s w <= sumf (phiW cfg s) (ws s) + length (ws s) + phiW cfg s w'.
Proof.
  intros Hs Hw Hn Hz. apply aw_step_le with (t := t) (l := wake_serial (ws s)); auto.
  - apply wake_serial_self; auto.
  - apply sumf_wake_serial.
Qed.

Ltac stepc :=
  match goal with
  | Hsz : forall k, j_size (getj ?s' k) = j_size (getj ?s k), Hw : nth_error (ws ?s) ?t = Some ?w,
    H0 : sumf (phiW ?cfg ?s) (ws ?s) <= _ |- _ =>
    let E := fresh "E" in
    pose proof (aw_step_le cfg s s' t w _ (ws s) 0 Hsz eq_refl Hw H0) as E;
    rewrite (queueW_ext cfg s s' Hsz eq_refl); cbn [cl set_w set_ws set_pl set_job set_jobs];
    try match type of E with context[phiW cfg s (w_set_pc ?p w)] =>
      let P2 := fresh "P2" in eassert (P2 : phiW cfg s (w_set_pc p w) <= _) by ph end
  end.

Lemma aw_worker_step cfg t s s' :
  KInv cfg s -> length (ws s) = c_nbw cfg -> worker_step cfg t s = Some s' ->
  Aw cfg s' + cz (c_pc (cl s')) < Aw cfg s + cz (c_pc (cl s)).
Proof.
  intros K HL H. pose proof (worker_step_size cfg t s s' H) as Hsz.
  unfold worker_step in H. destruct (nth_error (ws s) t) as [w|] eqn:Hw; [|discriminate].
  unfold Aw. pose proof (le_n (sumf (phiW cfg s) (ws s))) as H0. rewrite <- (Nat.add_0_r (sumf _ _)) in H0 at 2.
  destruct (w_pc w) eqn:Epc; try discriminate.
  - (* WIdle *)
    assert (P1 : phiW cfg s w = 1) by ph.
    destruct (q (pl s)) as [sl|] eqn:Eq.
    + destruct (Nat.leb _ _); inv_some H.
      * pose proof (aw_step_le cfg s _ t w _ (ws s) 0 Hsz eq_refl Hw H0) as E.
        rewrite (queueW_ext cfg s _ Hsz eq_refl). assert (P2 : phiW cfg s (w_set_pc WAsleep w) = 0) by ph.
        cbn [cl set_w set_ws]. lia.
      * pose proof (aw_step_le cfg s _ t w _ (ws s) 0 Hsz eq_refl Hw H0) as E.
        unfold queueW at 1 2. cbn [pl set_w set_ws set_pl q pl_busy pl_q]. rewrite Eq.
        assert (P2 : phiW cfg s (mkW WGetCCtx sl false false 0%N) = jobW cfg s sl) by ph. cbn [cl set_w set_ws set_pl]. lia.
    + inv_some H. pose proof (aw_step_le cfg s _ t w _ (ws s) 0 Hsz eq_refl Hw H0) as E.
      rewrite (queueW_ext cfg s _ Hsz eq_refl). assert (P2 : phiW cfg s (w_set_pc WAsleep w) = 0) by ph.
      cbn [cl set_w set_ws]. lia.
  - (* WGetCCtx *)
    assert (P1 : phiW cfg s w = 2 * nbc cfg s (w_slot w) + 17 + 2 * c_nbw cfg) by ph.
    inv_some H. pose proof (aw_step_le cfg s _ t w _ (ws s) 0 Hsz eq_refl Hw H0) as E.
    rewrite (queueW_ext cfg s _ Hsz eq_refl). cbn [cl set_w set_ws set_pl].
    match type of E with context[phiW cfg s ?x] => lazymatch x with w => fail | _ => assert (P2 : phiW cfg s x <= 2 * nbc cfg s (w_slot w) + 16 + 2 * c_nbw cfg) end end.
    { destruct (sp_on (pl s)); [ph|]. pose proof (phi_after_getseq cfg s WGetCCtx (w_slot w) ((0 <? cp_av (pl s))%N || negb (err_is (job_pay cfg s (getj s (w_slot w))) ErrCCtx)) false 0%N). lia. }
    lia.
  - (* WGetSeq *)
    assert (P1 : phiW cfg s w = 2 * nbc cfg s (w_slot w) + 16 + 2 * c_nbw cfg) by ph.
    inv_some H. pose proof (aw_step_le cfg s _ t w _ (ws s) 0 Hsz eq_refl Hw H0) as E.
    rewrite (queueW_ext cfg s _ Hsz eq_refl). cbn [cl set_w set_ws set_pl].
    match type of E with context[phiW cfg s (after_getseq ?x)] => pose proof (phi_after_getseq cfg s (w_pc x) (w_slot x) (w_cctx x) (w_seq x) (w_lastc x)) as P2 end.
    cbn [w_pc w_slot w_cctx w_seq w_lastc] in P2. lia.
  - (* WGetBuf *)
    assert (P1 : phiW cfg s w = 2 * nbc cfg s (w_slot w) + 15 + 2 * c_nbw cfg) by ph.
    repeat match type of H with (if ?b then _ else _) = _ => destruct b end; inv_some H; stepc; lia.
  - (* WSetDst *)
    assert (P1 : phiW cfg s w = 2 * nbc cfg s (w_slot w) + 14 + 2 * c_nbw cfg) by ph.
    repeat match type of H with (if ?b then _ else _) = _ => destruct b end; inv_some H; stepc; lia.
  - (* WJobErr *)
    assert (P1 : phiW cfg s w = 9 + c_nbw cfg) by ph. inv_some H; stepc; lia.
  - (* WSerial *)
    assert (P1 : phiW cfg s w = 2 * nbc cfg s (w_slot w) + 13 + 2 * c_nbw cfg) by ph.
    destruct (_ <? _)%N; [inv_some H; stepc; lia|].
    assert (Hz : w_pc w <> WSerialZ) by (rewrite Epc; discriminate).
    pose proof (phi_after_serial cfg s w (getj s (w_slot w)) (job_pay cfg s (getj s (w_slot w)))) as P2.
    destruct (negb _); inv_some H; [stepc; lia|].
    destruct (_ && ldm (mt s)).
    + match goal with |- context[cz (c_pc (cl (set_w _ _ (wake_caller_ldm ?x))))] => pose proof (cz_wake_ldm x) as Hc; destruct (wake_ldm_proj x) as (_ & _ & _ & Ep & Ew & _) end.
      pose proof (aw_step_bc cfg s _ t w _ Hsz ltac:(cbn [ws set_w set_ws]; rewrite Ew; reflexivity) Hw Hz) as E.
      rewrite (queueW_ext cfg s _ Hsz) by (cbn [pl set_w set_ws]; rewrite Ep; reflexivity).
      cbn [cl set_w set_ws set_sr] in *. lia.
    + pose proof (aw_step_bc cfg s _ t w _ Hsz eq_refl Hw Hz) as E.
      rewrite (queueW_ext cfg s _ Hsz eq_refl). cbn [cl set_w set_ws set_sr] in *. lia.
  - (* WChunk *)
    assert (P1 : phiW cfg s w = 2 * (nbc cfg s (w_slot w) - N.to_nat k) + 10 + c_nbw cfg) by ph.
    destruct (k_wrk _ _ K t w Hw) as (i & _ & _ & (_ & _ & Hk)); [rewrite Epc; reflexivity|]. rewrite Epc in Hk.
    assert (Hlt : N.to_nat k < nbc cfg s (w_slot w)) by (unfold nbc; lia).
    inv_some H.
    pose proof (phi_next_chunk cfg s w (getj s (w_slot w)) (job_pay cfg s (getj s (w_slot w))) (k + 1)%N) as P2.
    match goal with |- context[cz (c_pc (cl (set_w _ _ (wake_caller_job ?c ?kk ?x))))] => pose proof (cz_wake_job c kk x) as Hc; destruct (wake_job_proj c kk x) as (_ & _ & _ & Ep & Ew & _) end.
    pose proof (aw_step_le cfg s _ t w _ (ws s) 0 Hsz ltac:(cbn [ws set_w set_ws]; rewrite Ew; reflexivity) Hw H0) as E.
    rewrite (queueW_ext cfg s _ Hsz) by (cbn [pl set_w set_ws]; rewrite Ep; reflexivity).
    cbn [cl set_w set_ws set_job set_jobs] in *. lia.
  - (* WEnsure *)
    assert (P1 : phiW cfg s w = 8 + c_nbw cfg) by ph.
    assert (Hz : w_pc w <> WSerialZ) by (rewrite Epc; discriminate).
    pose proof (phi_after_ensure cfg s w) as P2. inv_some H.
    destruct (_ <=? _)%N.
    + match goal with |- context[cz (c_pc (cl (set_w _ _ (wake_caller_ldm ?x))))] => pose proof (cz_wake_ldm x) as Hc; destruct (wake_ldm_proj x) as (_ & _ & _ & Ep & Ew & _) end.
      pose proof (aw_step_bc cfg s _ t w _ Hsz ltac:(cbn [ws set_w set_ws]; rewrite Ew; reflexivity) Hw Hz) as E.
      rewrite (queueW_ext cfg s _ Hsz) by (cbn [pl set_w set_ws]; rewrite Ep; reflexivity).
      cbn [cl set_w set_ws set_sr] in *. lia.
    + stepc. lia.
  - (* WRelSeq *)
    assert (P1 : phiW cfg s w = 6) by ph. inv_some H. destruct (w_cctx w); stepc; lia.
  - assert (P1 : phiW cfg s w = 5) by ph. inv_some H. stepc; lia.
  - (* WReport *)
    assert (P1 : phiW cfg s w = 4) by ph. inv_some H.
    assert (P2 : phiW cfg s (w_set_pc WFinish w) = 2) by ph.
    match goal with |- context[cz (c_pc (cl (set_w _ _ (wake_caller_job ?c ?kk ?x))))] => pose proof (cz_wake_job c kk x) as Hc; destruct (wake_job_proj c kk x) as (_ & _ & _ & Ep & Ew & _) end.
    pose proof (aw_step_le cfg s _ t w _ (ws s) 0 Hsz ltac:(cbn [ws set_w set_ws]; rewrite Ew; reflexivity) Hw H0) as E.
    rewrite (queueW_ext cfg s _ Hsz) by (cbn [pl set_w set_ws]; rewrite Ep; reflexivity).
    cbn [cl set_w set_ws set_job set_jobs] in *. lia.
  - assert (P1 : phiW cfg s w = 2) by ph. inv_some H. stepc; lia.
Qed.
