(* C11 mt_flush_in_order, part 1: the flush log as a list -- definitions (chain, fin_sorted, Link) and the pure list lemmas
   (what appending a flush entry / completing a job / opening a new frame does).  The model part is in MtFlushC.v. *)
From Coq Require Import List NArith ZArith Bool Arith Lia.
Import ListNotations.
Local Open Scope N_scope.

(* ------------------------------------------------------------------ *)
(* entries                                                              *)

Definition ent := (N * N * N * N)%type.     (* g_out: frame, job id, offset in the job's output, length *)
Definition fent := (N * N * N)%type.        (* g_fin: frame, job id, total compressed size *)
Definition e_fr (x : ent) : N := fst (fst (fst x)).
Definition e_id (x : ent) : N := snd (fst (fst x)).
Definition e_off (x : ent) : N := snd (fst x).
Definition e_len (x : ent) : N := snd x.
Definition f_fr (x : fent) : N := fst (fst x).
Definition f_id (x : fent) : N := snd (fst x).
Definition f_tot (x : fent) : N := snd x.

(* y may directly follow x in the flush log *)
Definition follows (F : list fent) (x y : ent) : Prop :=
  let '(f, i, o, n) := x in let '(f', i', o', _) := y in
  (f' = f /\ i' = i /\ o' = o + n)                               (* the same job continues where it stopped *)
  \/ (f' = f /\ i' = i + 1 /\ o' = 0 /\ In (f, i, o + n) F)      (* the next job starts at 0 after job i was finished with exactly o+n bytes *)
  \/ (f < f' /\ i' = 0 /\ o' = 0).                               (* a later frame starts with its job 0 at offset 0 *)

(* y may directly follow x in the log of completely flushed jobs *)
Definition fin_follows (x y : fent) : Prop :=
  let '(f, i, _) := x in let '(f', i', _) := y in
  (f' = f /\ i' = i + 1) \/ (f < f' /\ i' = 0).

Fixpoint lastopt {A} (l : list A) : option A :=
  match l with [] => None | x :: r => match r with [] => Some x | _ => lastopt r end end.

Inductive adj {A} (R : A -> A -> Prop) : list A -> Prop :=
  | adj_nil : adj R []
  | adj_one x : adj R [x]
  | adj_cons x y l : R x y -> adj R (y :: l) -> adj R (x :: y :: l).

(* the flush log is a chain: adjacent entries follow each other, every copy is non-empty, the log starts with job 0 at offset 0 *)
Definition chain (F : list fent) (G : list ent) : Prop :=
  adj (follows F) G /\ Forall (fun x => 0 < e_len x) G /\ match G with [] => True | x :: _ => e_id x = 0 /\ e_off x = 0 end.

(* the completion log: strictly increasing (frame, id), ids consecutive inside a frame, every frame starts with job 0 *)
Definition fin_sorted (F : list fent) : Prop :=
  adj fin_follows F /\ match F with [] => True | x :: _ => f_id x = 0 end.

(* bytes of job (f, i) in the flush log *)
Definition hit (x : ent) (f i : N) : bool := (e_fr x =? f) && (e_id x =? i).
Fixpoint sumlen (G : list ent) (f i : N) : N :=
  match G with [] => 0 | x :: r => (if hit x f i then e_len x else 0) + sumlen r f i end.

(* what holds of the two logs whatever the compressor is doing; f = current frame number *)
Record FAp (G : list ent) (F : list fent) (f : N) : Prop := mkFAp {
  fa_chain : chain F G;
  fa_fin : fin_sorted F;
  fa_gfr : Forall (fun x => e_fr x <= f) G;          (* no entry of a frame that does not exist yet *)
  fa_ffr : Forall (fun x => f_fr x <= f) F;
  fa_tot : Forall (fun x => f_tot x = sumlen G (f_fr x) (f_id x) /\ 0 < f_tot x) F }.   (* a finished job: all its bytes were flushed *)

(* position of the flush cursor: frame f, job d (= doneJobID), cf bytes of it flushed *)
Definition Pos (G : list ent) (F : list fent) (f d cf : N) : Prop :=
  match lastopt G with None => d = 0 /\ cf = 0 | Some x => follows F x (f, d, cf, 0) end.
Definition FPos (F : list fent) (f d : N) : Prop :=
  match lastopt F with None => d = 0 | Some x => fin_follows x (f, d, 0) end.

Record Link (G : list ent) (F : list fent) (f d cf : N) : Prop := mkLink {
  l_pos : Pos G F f d cf;                                         (* the log ends where job d stands *)
  l_fpos : FPos F f d;
  l_sum : sumlen G f d = cf;                                      (* job d: exactly cf bytes flushed *)
  l_fin : forall i, i < d -> exists t, In (f, i, t) F;            (* the jobs before d are finished *)
  l_gid : forall x, In x G -> e_fr x = f -> e_id x <= d;          (* no job after d has been flushed *)
  l_fid : forall x, In x F -> f_fr x = f -> f_id x < d }.         (* job d and the later ones are not finished *)

(* ------------------------------------------------------------------ *)
(* lists                                                                *)

Lemma lastopt_snoc {A} (l : list A) x : lastopt (l ++ [x]) = Some x.
Proof.
  induction l as [|a l IH]; [reflexivity|]. cbn [app lastopt]. destruct (l ++ [x]) eqn:E; [destruct l; discriminate|exact IH].
Qed.

Lemma lastopt_nil {A} (l : list A) : lastopt l = None -> l = [].
Proof. induction l as [|a [|b l] IH]; auto; try discriminate. intros H. apply IH in H. discriminate. Qed.

Lemma lastopt_in {A} (l : list A) x : lastopt l = Some x -> In x l.
Proof.
  induction l as [|a [|b l] IH]; try discriminate.
  - cbn. intros H; inversion H; auto.
  - intros H. right. apply IH. exact H.
Qed.

Lemma adj_snoc {A} (R : A -> A -> Prop) l y : adj R l -> (forall x, lastopt l = Some x -> R x y) -> adj R (l ++ [y]).
Proof.
  induction 1 as [|x|x y0 l Hxy Ha IH]; intros H; cbn [app].
  - constructor.
  - constructor; [apply H; reflexivity|constructor].
  - constructor; [exact Hxy|]. apply IH. exact H.
Qed.

Lemma adj_impl {A} (R R' : A -> A -> Prop) l : (forall x y, R x y -> R' x y) -> adj R l -> adj R' l.
Proof. intros H. induction 1; constructor; auto. Qed.

Lemma sumlen_snoc G x f i : sumlen (G ++ [x]) f i = sumlen G f i + (if hit x f i then e_len x else 0).
Proof. induction G as [|a G IH]; cbn [app sumlen]; [lia|]. rewrite IH. lia. Qed.

Lemma sumlen_zero G f i : (forall x, In x G -> hit x f i = false) -> sumlen G f i = 0.
Proof.
  induction G as [|a G IH]; intros H; cbn [sumlen]; [reflexivity|].
  rewrite (H a) by (left; reflexivity). rewrite IH; [reflexivity|]. intros x Hx. apply H. right. exact Hx.
Qed.

Lemma hit_true x f i : hit x f i = true <-> e_fr x = f /\ e_id x = i.
Proof. unfold hit. rewrite andb_true_iff, !N.eqb_eq. tauto. Qed.

Lemma hit_false x f i : (e_fr x = f -> e_id x <> i) -> hit x f i = false.
Proof. intros H. destruct (hit x f i) eqn:E; auto. apply hit_true in E. destruct E as (A & B). destruct (H A B). Qed.

Lemma follows_mono F F' x y : incl F F' -> follows F x y -> follows F' x y.
Proof.
  intros Hi. destruct x as [[[f i] o] n], y as [[[f' i'] o'] n']. cbn.
  intros [H|[(A & B & C & D)|H]]; auto. right; left. repeat split; auto.
Qed.

Lemma chain_mono F F' G : incl F F' -> chain F G -> chain F' G.
Proof. intros Hi (A & B & C). split; [|split; auto]. eapply adj_impl; [|exact A]. intros x y. apply follows_mono. exact Hi. Qed.

(* ------------------------------------------------------------------ *)
(* the three events                                                     *)

(* tf > 0 bytes of job d are copied to the caller *)
Lemma fap_append G F f d cf tf :
  FAp G F f -> Link G F f d cf -> 0 < tf -> FAp (G ++ [(f, d, cf, tf)]) F f.
Proof.
  intros [(C1 & C2 & C3) FS GF FF TT] [LP LF LS LN LG LI] Htf. constructor; [|exact FS| |exact FF|].
  - split; [|split].
    + apply adj_snoc; auto. intros x Hx. unfold Pos in LP. rewrite Hx in LP.
      destruct x as [[[f0 i0] o0] n0]. cbn in *. exact LP.
    + apply Forall_app. split; auto.
    + destruct G as [|x G]; cbn [app]; [exact LP|exact C3].
  - apply Forall_app. split; auto. constructor; [cbn; lia|constructor].
  - rewrite Forall_forall in *. intros x Hx. destruct (TT x Hx) as (T1 & T2). split; auto.
    rewrite sumlen_snoc. rewrite hit_false; [lia|]. cbn. intros E1 E2.
    assert (f_id x < d) by (apply LI; auto). lia.
Qed.

Lemma link_append G F f d cf tf :
  Link G F f d cf -> Link (G ++ [(f, d, cf, tf)]) F f d (cf + tf).
Proof.
  intros [LP LF LS LN LG LI]. constructor; [| exact LF| |exact LN| |exact LI].
  - unfold Pos. rewrite lastopt_snoc. cbn. left. auto.
  - rewrite sumlen_snoc. replace (hit (f, d, cf, tf) f d) with true by (symmetry; apply hit_true; auto). cbn. lia.
  - intros x Hx. apply in_app_or in Hx. destruct Hx as [Hx|[<-|[]]]; auto. cbn. lia.
Qed.

(* job d is completely flushed (cs > 0 bytes): doneJobID++ *)
Lemma pos_full G F f d cs : Pos G F f d cs -> 0 < cs ->
  exists o n, lastopt G = Some (f, d, o, n) /\ o + n = cs.
Proof.
  unfold Pos. intros H Hc. destruct (lastopt G) as [[[[f0 i0] o0] n0]|]; [|lia].
  cbn in H. destruct H as [(A & B & C)|[(A & B & C & D)|(A & B & C)]]; try lia. subst. eauto.
Qed.

Lemma fap_complete G F f d cs :
  FAp G F f -> Link G F f d cs -> 0 < cs -> FAp G (F ++ [(f, d, cs)]) f.
Proof.
  intros [C FS GF FF TT] [LP LF LS LN LG LI] Hcs. constructor; [| |exact GF| |].
  - eapply chain_mono; [|exact C]. apply incl_appl, incl_refl.
  - destruct FS as (S1 & S2). split.
    + apply adj_snoc; auto. intros x Hx. unfold FPos in LF. rewrite Hx in LF. destruct x as [[f0 i0] t0]. cbn in *. exact LF.
    + destruct F as [|x F]; cbn [app]; [exact LF|exact S2].
  - apply Forall_app. split; [exact FF|]. constructor; [cbn; lia|constructor].
  - apply Forall_app. split; [exact TT|]. constructor; [|constructor]. cbn. split; [symmetry; exact LS|exact Hcs].
Qed.

Lemma link_complete G F f d cs :
  Link G F f d cs -> 0 < cs -> Link G (F ++ [(f, d, cs)]) f (d + 1) 0.
Proof.
  intros [LP LF LS LN LG LI] Hcs. destruct (pos_full _ _ _ _ _ LP Hcs) as (o & n & Hl & Ho). constructor.
  - unfold Pos. rewrite Hl. cbn. right; left. repeat split; auto. apply in_or_app. right. left. rewrite Ho. reflexivity.
  - unfold FPos. rewrite lastopt_snoc. cbn. left. auto.
  - apply sumlen_zero. intros x Hx. apply hit_false. intros E. specialize (LG x Hx E). lia.
  - intros i Hi. destruct (N.eq_dec i d) as [->|Hne].
    + exists cs. apply in_or_app. right. left. reflexivity.
    + destruct (LN i) as (t & Ht); [lia|]. exists t. apply in_or_app. left. exact Ht.
  - intros x Hx E. specialize (LG x Hx E). lia.
  - intros x Hx E. apply in_app_or in Hx. destruct Hx as [Hx|[<-|[]]]; [specialize (LI x Hx E); lia|cbn; lia].
Qed.

(* ZSTDMT_initCStream_internal: a new frame *)
Lemma fap_newframe G F f : FAp G F f -> FAp G F (f + 1).
Proof.
  intros [C FS GF FF TT]. constructor; [exact C|exact FS| | |exact TT].
  - eapply Forall_impl; [|exact GF]. cbn. intros; lia.
  - eapply Forall_impl; [|exact FF]. cbn. intros; lia.
Qed.

Lemma link_newframe G F f : FAp G F f -> Link G F (f + 1) 0 0.
Proof.
  intros [C FS GF FF TT]. rewrite Forall_forall in GF, FF. constructor.
  - unfold Pos. destruct (lastopt G) as [x|] eqn:E; [|auto]. apply lastopt_in in E. specialize (GF x E).
    destruct x as [[[f0 i0] o0] n0]. cbn in *. right; right. repeat split; auto. lia.
  - unfold FPos. destruct (lastopt F) as [x|] eqn:E; [|auto]. apply lastopt_in in E. specialize (FF x E).
    destruct x as [[f0 i0] t0]. cbn in *. right. split; auto. lia.
  - apply sumlen_zero. intros x Hx. apply hit_false. intros E. specialize (GF x Hx). lia.
  - intros i Hi. lia.
  - intros x Hx E. specialize (GF x Hx). lia.
  - intros x Hx E. specialize (FF x Hx). lia.
Qed.

Lemma fap_nil f : FAp [] [] f.
Proof. constructor; try constructor; cbn; auto; constructor. Qed.

(* ------------------------------------------------------------------ *)
(* consequences of the chain property (not used by the invariant proof) *)

Definition key_lt (a b : N * N) : Prop := fst a < fst b \/ (fst a = fst b /\ snd a < snd b).
Definition fkey (x : fent) : N * N := (f_fr x, f_id x).

Lemma fin_follows_lt x y : fin_follows x y -> key_lt (fkey x) (fkey y).
Proof. destruct x as [[f i] t], y as [[f' i'] t']. unfold key_lt. cbn. intros [(A & B)|(A & B)]; [right|left]; lia. Qed.

(* every (frame, id) occurs at most once in the completion log, in increasing order *)
Lemma fin_sorted_lt F : adj fin_follows F ->
  forall a b l1 l2 l3, F = l1 ++ a :: l2 ++ b :: l3 -> key_lt (fkey a) (fkey b).
Proof.
  induction 1 as [|x|x y l Hxy Ha IH]; intros a b l1 l2 l3 E.
  - destruct l1; discriminate.
  - destruct l1 as [|? [|? ?]]; try discriminate. inversion E. destruct l2; discriminate.
  - destruct l1 as [|x0 l1].
    + cbn in E. inversion E; subst a. clear E.
      destruct l2 as [|y0 l2].
      * cbn in H1. inversion H1; subst. apply fin_follows_lt. exact Hxy.
      * cbn in H1. inversion H1; subst y0. assert (L1 : key_lt (fkey x) (fkey y)) by (apply fin_follows_lt; exact Hxy).
        assert (L2 : key_lt (fkey y) (fkey b)) by (apply (IH y b [] l2 l3); cbn; congruence).
        unfold key_lt in *. lia.
    + cbn in E. inversion E; subst x0. apply (IH a b l1 l2 l3). exact H1.
Qed.
