(* C11, termination under fairness, part 1: the pool-side potential [Aw] (pool threads + the queued job) of the zstdmt model.
   Every step of a pool thread strictly decreases [Aw] (+ the price of waking the caller); a step of the application thread never
   increases it, except POOL_tryAdd, which adds the price of the posted job.
   Prices: a woken sleeper on serial.cond needs one step to go back to sleep, so a broadcast costs nbWorkers; a chunk costs 2 (one
   step + the wake-up of the caller on job_cond); the wake-up of a pool thread on queuePopCond costs 1 (paid by POOL_tryAdd). *)
From Coq Require Import List NArith ZArith Bool Arith Lia.
Import ListNotations.
From ZV.Conc Require Import Sched SchedLemmas MtModel MtProofs MtRing MtRingC MtPool MtFrame MtSleep MtStep MtLive MtErr.
Local Open Scope nat_scope.

(* ------------------------------------------------------------------ *)
(* sums over lists                                                      *)

Fixpoint sumf {A} (f : A -> nat) (l : list A) : nat := match l with [] => 0 | a :: r => f a + sumf f r end.

Lemma sumf_upd {A} (f : A -> nat) t x l a : nth_error l t = Some a -> sumf f (upd t x l) + f a = sumf f l + f x.
Proof.
  revert t. induction l as [|b r IH]; intros t H; destruct t; cbn in H; try discriminate.
  - inversion H; subst. cbn. lia.
  - cbn. specialize (IH _ H). lia.
Qed.

Lemma sumf_ext {A} (f g : A -> nat) l : (forall a, In a l -> f a = g a) -> sumf f l = sumf g l.
Proof. induction l as [|b r IH]; intros H; cbn; auto. rewrite (H b), IH; auto; [intros; apply H; right; auto|left; auto]. Qed.

Lemma sumf_map_le {A} (f : A -> nat) (g : A -> A) l c : (forall a, f (g a) <= f a + c) -> sumf f (map g l) <= sumf f l + c * length l.
Proof. intros H. induction l as [|b r IH]; cbn [map sumf length]; [lia|]. specialize (H b). lia. Qed.

(* ------------------------------------------------------------------ *)
(* the potential of a pool thread                                       *)

(* number of chunks of the job in slot k *)
Definition nbc (cfg : config) (s : state) (k : nat) : nat := N.to_nat (nb_chunks cfg (j_size (getj s k))).

(* price of a job that waits in the queue / that a pool thread has just popped *)
Definition jobW (cfg : config) (s : state) (k : nat) : nat := 2 * nbc cfg s k + 17 + 2 * c_nbw cfg.

Definition phiW (cfg : config) (s : state) (w : wloc) : nat :=
  let B := c_nbw cfg in let nb := nbc cfg s (w_slot w) in
  match w_pc w with
  | WAsleep => 0
  | WIdle => 1
  | WFinish => 2
  | WReport => 4
  | WRelCCtx => 5
  | WRelSeq => 6
  | WEnsure => 8 + B
  | WJobErr => 9 + B
  | WChunk k => 2 * (nb - N.to_nat k) + 10 + B
  | WSerialZ => 2 * nb + 12 + 2 * B
  | WSerial => 2 * nb + 13 + 2 * B
  | WSetDst => 2 * nb + 14 + 2 * B
  | WGetBuf => 2 * nb + 15 + 2 * B
  | WGetSeq => 2 * nb + 16 + 2 * B
  | WGetCCtx => 2 * nb + 17 + 2 * B
  end.

Definition queueW (cfg : config) (s : state) : nat := match q (pl s) with Some k => jobW cfg s k | None => 0 end.

(* the pool-side potential *)
Definition Aw (cfg : config) (s : state) : nat := sumf (phiW cfg s) (ws s) + queueW cfg s.

(* 1 when the application thread is awake, 0 when it sleeps on a condition: a pool thread that wakes it pays 1 *)
Definition cz (p : cpc) : nat := if nzp p then 1 else 0.

(* [phiW] reads the state only through the job sizes *)
Lemma phiW_ext cfg s s' w : (forall k, j_size (getj s' k) = j_size (getj s k)) -> phiW cfg s' w = phiW cfg s w.
Proof. intros H. unfold phiW, nbc. rewrite H. reflexivity. Qed.

Lemma phiW_ext1 cfg s s' w :
  (active (w_pc w) = true -> j_size (getj s' (w_slot w)) = j_size (getj s (w_slot w))) -> phiW cfg s' w = phiW cfg s w.
Proof. intros H. unfold phiW, nbc. destruct (w_pc w); try reflexivity; rewrite H; reflexivity. Qed.

Lemma phiW_wake cfg s w : phiW cfg s (match w_pc w with WSerialZ => w_set_pc WSerial w | _ => w end) <= phiW cfg s w + 1.
Proof. destruct (w_pc w) eqn:E; try lia. unfold phiW. cbn [w_pc w_slot w_set_pc]. rewrite E. lia. Qed.

Lemma sumf_wake_serial cfg s l : sumf (phiW cfg s) (wake_serial l) <= sumf (phiW cfg s) l + length l.
Proof. unfold wake_serial. pose proof (sumf_map_le (phiW cfg s) _ l 1 (phiW_wake cfg s)). lia. Qed.

(* ------------------------------------------------------------------ *)
(* bounds on the continuation of a pool thread                          *)

Lemma phi_next_chunk cfg s w j p c :
  phiW cfg s (next_chunk cfg w j p c) <= 2 * (nbc cfg s (w_slot w) - N.to_nat c) + 10 + c_nbw cfg.
Proof.
  unfold next_chunk, last_block.
  repeat match goal with |- context[if ?b then _ else _] => destruct b end; unfold phiW; cbn [w_pc w_slot w_set_pc]; lia.
Qed.

Lemma phi_after_serial cfg s w j p : phiW cfg s (after_serial cfg w j p) <= 2 * (nbc cfg s (w_slot w) - 1) + 10 + c_nbw cfg.
Proof.
  unfold after_serial. destruct (_ && _); [unfold phiW; cbn [w_pc w_slot w_set_pc]; lia|].
  pose proof (phi_next_chunk cfg s w j p 1%N). change (N.to_nat 1) with 1 in H. exact H.
Qed.

Lemma phi_after_ensure cfg s w : phiW cfg s (after_ensure w) <= 6.
Proof. unfold after_ensure. destruct (w_seq w); [|destruct (w_cctx w)]; unfold phiW; cbn [w_pc w_set_pc]; lia. Qed.

Lemma phi_after_getseq cfg s p k c sq l :
  phiW cfg s (after_getseq (mkW p k c sq l)) <= 2 * nbc cfg s k + 15 + 2 * c_nbw cfg.
Proof. unfold after_getseq. cbn [w_cctx]. destruct c; unfold phiW; cbn [w_pc w_slot w_set_pc]; lia. Qed.

(* ------------------------------------------------------------------ *)
(* a pool thread never changes the size of a job                        *)

Lemma size_set_job s k j' k0 : j_size j' = j_size (getj s k) -> j_size (getj (set_job k j' s) k0) = j_size (getj s k0).
Proof.
  intros H. destruct (Nat.eq_dec k k0) as [<-|Hne]; [|rewrite getj_set_job_neq; auto].
  destruct (Nat.lt_ge_cases k (length (jobs s))) as [Hl|Hl]; [rewrite getj_set_job_eq; auto|].
  unfold getj, set_job, set_jobs. cbn [jobs]. rewrite !nth_overflow; auto. rewrite upd_length. exact Hl.
Qed.

Lemma worker_step_size cfg t s s' : worker_step cfg t s = Some s' -> forall k, j_size (getj s' k) = j_size (getj s k).
Proof.
  intros H k. unfold worker_step in H. destruct (nth_error (ws s) t) as [w|]; [|discriminate].
  destruct (w_pc w); try discriminate;
    repeat match type of H with
           | (if ?b then _ else _) = _ => destruct b
           | match ?x with Some _ => _ | None => _ end = _ => destruct x
           end; inv_some H;
    repeat match goal with |- context[if ?b then _ else _] => destruct b end;
    rewrite ?getj_set_w, ?getj_wake_job, ?getj_wake_ldm, ?getj_set_sr, ?getj_set_ws; try reflexivity;
    try (apply size_set_job; reflexivity).
  all: apply (size_set_job (set_pl (pl_bp (take (bp_nb (pl s))) (pl s)) s) (w_slot w) (j_set_dst true (getj s (w_slot w))) k); reflexivity.
Qed.

(* waking the caller costs at most 1 *)
Lemma cz_wake_job cfg k s : cz (c_pc (cl (wake_caller_job cfg k s))) <= cz (c_pc (cl s)) + 1.
Proof. unfold wake_caller_job. destruct (c_pc (cl s)) eqn:E; cbn iota; rewrite ?E; try lia; destruct (Nat.eqb _ _); cbn; rewrite ?E; cbn; lia. Qed.
Lemma cz_wake_ldm s : cz (c_pc (cl (wake_caller_ldm s))) <= cz (c_pc (cl s)) + 1.
Proof. unfold wake_caller_ldm. destruct (c_pc (cl s)) eqn:E; cbn; rewrite ?E; cbn; lia. Qed.
