(* C12, liveness, part 2: what a state without enabled threads looks like; jobs that only use POOL_tryAdd can
   never wedge the pool; fair schedulers do not stall; the combined statement. *)
From Coq Require Import List Arith Bool Lia ZArith.
Import ListNotations.
From ZV.Conc Require Import Sched SchedLemmas PoolModel PoolLemmas PoolInvDefs PoolInv1 PoolInv2 PoolInv3 PoolInv4 PoolInv5
     PoolInv6 PoolInv7 PoolSafety PoolTheorems PoolLive.
From ZV.Conc Require Import PoolTermDefs PoolTermStep PoolTerm.

(* ---- a state in which no thread can run ---- *)
Theorem complete_run bodies progs n q sched :
  progs <> [] -> 1 <= n ->
  let cfg := mkcfg true progs bodies in
  let s := reach true bodies progs n q sched in
  enabled_list cfg s = [] ->
  (all_done s = true /\ pending (sg s) = [] /\ running s = [] /\
   forall k, k < next (sg s) -> cnt k (done (sg s)) = 1 /\ cnt k (started (sg s)) = 1)
  \/ (self_blocked s = true /\ shutdown (sp s) = false).
Proof.
  intros Hp Hn cfg s Hen. destruct (all_done s) eqn:Ed.
  - left. pose proof (live_reachable bodies progs n q sched Hp Hn) as HL. fold s in HL.
    destruct (lv_main _ _ HL) as (m & Hm & _).
    assert (Hd : t_pc m = Done).
    { unfold all_done in Ed. rewrite forallb_forall in Ed. specialize (Ed m (nth_error_In _ _ Hm)). destruct (t_pc m); auto; discriminate. }
    split; [reflexivity|]. exact (proj2 (free_all_done bodies progs n q sched m Hp Hn Hm Hd)).
  - right. apply (deadlock_free bodies progs n q sched Hp Hn). unfold stuck. fold s. rewrite Ed. fold cfg. rewrite Hen. reflexivity.
Qed.

(* ---- jobs that post with POOL_tryAdd only never block: the pool cannot wedge ---- *)
Definition tryonly (bodies : list (list post)) : Prop := forall j x, In x (nth j bodies []) -> fst x = KTry.

Definition pc_noblock (c : pc) : Prop := match c with PLock KAdd _ | PWait _ | PAsleep _ => False | _ => True end.
Definition wk_ok (th : thread) : Prop :=
  t_worker th = true -> pc_noblock (t_pc th) /\ Forall (fun x : post => fst x = KTry) (t_posts th).
Definition NoBlock (s : state) : Prop := Forall wk_ok (st s).

Lemma wk_wake_push th : wk_ok th -> wk_ok (wake_push th).
Proof.
  unfold wk_ok, wake_push. destruct (t_pc th) eqn:E; auto; cbn [t_worker t_pc t_posts set_pc]; intros H Hw; specialize (H Hw); rewrite ?E; cbn in *; tauto.
Qed.
Lemma wk_wake_pop th : wk_ok th -> wk_ok (wake_pop th).
Proof.
  unfold wk_ok, wake_pop. destruct (t_pc th) eqn:E; auto; cbn [t_worker t_pc t_posts set_pc]; intros H Hw; specialize (H Hw); rewrite ?E; cbn in *; tauto.
Qed.

Lemma wk_set_pc c th : pc_noblock c -> wk_ok th -> wk_ok (set_pc c th).
Proof. unfold wk_ok. cbn [t_worker t_pc t_posts set_pc]. intros Hc H Hw. specialize (H Hw). tauto. Qed.

Lemma wk_finish cfg tid th g th' g' :
  finish_op cfg tid th g = (th', g') -> (t_worker th = true -> Forall (fun x : post => fst x = KTry) (t_posts th)) -> wk_ok th'.
Proof.
  intros H HF. apply finish_op_cases in H.
  destruct H as [(Hw & k & j & r & Hp & -> & _)|[(Hw & Hp & -> & _)|(Hw & c & ops' & Hn & -> & _)]]; unfold wk_ok; cbn [t_worker t_pc t_posts].
  - intros _. specialize (HF Hw). rewrite Hp in HF. inversion HF as [|? ? Hk Hr]; subst. cbn in Hk. subst k. cbn. auto.
  - intros _. cbn. auto.
  - discriminate.
Qed.

Lemma noblock_step cfg tid w s s' : tryonly (c_bodies cfg) -> NoBlock s -> step cfg tid w s = Some s' -> NoBlock s'.
Proof.
  unfold NoBlock. intros HT HN H.
  step_inv H; cbn [st]; pose proof (Forall_nth_error _ _ _ _ HN Hth) as Hwk; cbn beta in Hwk;
    try (apply Forall_app; split; [|apply Forall_repeat; unfold wk_ok, new_worker; cbn; auto]);
    apply Forall_upd;
    try (apply Forall_signal; [apply wk_wake_pop|]);
    try (apply Forall_broadcast; [first [apply wk_wake_pop|apply wk_wake_push]|]);
    try (apply Forall_wake_pushers; [apply wk_wake_push|]);
    auto;
    try (apply wk_set_pc; [exact I|exact Hwk]);
    try (eapply wk_finish; [eassumption|]; cbn [t_worker t_posts]; intros Hw; first [exact (proj2 (Hwk Hw)) | idtac]).
  all: try (unfold wk_ok in *; cbn [t_worker t_pc t_posts set_pc] in *; intros Hw; specialize (Hwk Hw); rewrite Epc in Hwk; cbn in Hwk; tauto).
  all: try (unfold wk_ok; cbn; auto; fail).
  - (* the job starts: its posts are the body *)
    apply Forall_forall. intros x Hx. exact (HT _ _ Hx).
Qed.

Lemma noblock_init progs n q : NoBlock (init progs n q).
Proof.
  unfold NoBlock. eapply Forall_impl; [|apply init_threads]. intros th (_ & [[Hw _]| ->]); unfold wk_ok.
  - rewrite Hw. discriminate.
  - cbn. auto.
Qed.

Lemma noblock_not_self_blocked s : NoBlock s -> self_blocked s = false.
Proof.
  unfold NoBlock, self_blocked. intros HN. destruct (existsb _ (st s)) eqn:E; auto. exfalso.
  apply existsb_exists in E. destruct E as (th & Hin & Hb). apply andb_prop in Hb. destruct Hb as [Hw Hpc].
  rewrite Forall_forall in HN. destruct (HN th Hin Hw) as [Hc _]. destruct (t_pc th); try discriminate. exact Hc.
Qed.

Theorem tryonly_never_self_blocked fx bodies progs n q sched :
  tryonly bodies -> self_blocked (reach fx bodies progs n q sched) = false.
Proof.
  intros HT. apply noblock_not_self_blocked. unfold reach. apply run_invariant.
  - intros s t w s' Hs H. exact (noblock_step (mkcfg fx progs bodies) t w s s' HT Hs H).
  - apply noblock_init.
Qed.

(* ---- enabledness does not depend on the wake choice ---- *)
Lemma step_none_choice cfg t w w' s : step cfg t w s = None -> step cfg t w' s = None.
Proof.
  unfold step. destruct (nth_error (st s) t) as [th|]; [|reflexivity].
  destruct (t_pc th); auto;
    repeat match goal with
           | |- context [match ?k with KAdd => _ | KTry => _ end] => destruct k
           | |- context [if ?c then _ else _] => destruct c
           | |- context [let '(_, _) := finish_op ?a ?b ?c ?d in _] => destruct (finish_op a b c d)
           | |- context [match t_cur ?th with _ => _ end] => destruct (t_cur th)
           end; auto; discriminate.
Qed.

(* ---- a scheduler that picks every thread again and again does not stall ---- *)
Definition fair (bound : nat) (sigma : nat -> nat * nat) : Prop := forall i t, t < bound -> exists j, i <= j /\ fst (sigma j) = t.

Lemma fair_non_stalling fx bodies progs n q sigma :
  progs <> [] -> 1 <= n ->
  fair (max_threads progs n) sigma -> non_stalling fx bodies progs n q sigma.
Proof.
  intros Hp Hn Hfair i Hen. set (cfg := mkcfg fx progs bodies) in *.
  destruct (enabled_list cfg (state_at fx bodies progs n q sigma i)) as [|t r] eqn:E; [congruence|]. clear Hen.
  assert (Hin : In t (enabled_list cfg (state_at fx bodies progs n q sigma i))) by (rewrite E; left; reflexivity).
  unfold enabled_list in Hin. apply filter_In in Hin. destruct Hin as [Hseq Hstep]. apply in_seq in Hseq.
  assert (Hlt : t < max_threads progs n).
  { pose proof (terminv_at fx bodies progs n q sigma (fun _ => 0) Hp Hn i) as [_ HL]. unfold LenOK in HL. cbn [wT run_parm] in HL. lia. }
  destruct (Hfair i t Hlt) as (j & Hij & Hj).
  (* search the picks i .. j-1 for an effective one *)
  assert (Hsearch : forall d, (exists k, i <= k /\ k < i + d /\ step cfg (fst (sigma k)) (snd (sigma k)) (state_at fx bodies progs n q sigma k) <> None)
                              \/ state_at fx bodies progs n q sigma (i + d) = state_at fx bodies progs n q sigma i).
  { induction d as [|d IH]; [right; f_equal; lia|].
    destruct IH as [(k & H1 & H2 & H3)|Heq]; [left; exists k; repeat split; auto; lia|].
    destruct (step cfg (fst (sigma (i + d))) (snd (sigma (i + d))) (state_at fx bodies progs n q sigma (i + d))) as [s'|] eqn:Es.
    - left. exists (i + d). repeat split; try lia. rewrite Es. discriminate.
    - right. replace (i + S d) with (S (i + d)) by lia. rewrite state_at_S. unfold exec. fold cfg. rewrite Es. exact Heq. }
  destruct (Hsearch (j - i)) as [(k & H1 & H2 & H3)|Heq].
  - exists k. split; auto.
  - exists j. split; auto. replace (i + (j - i)) with j in Heq by lia. rewrite Heq, Hj.
    intros Hnone. apply (step_none_choice _ _ _ 0) in Hnone. fold cfg in Hnone. rewrite Hnone in Hstep. discriminate.
Qed.

(* round robin over the threads is fair *)
Lemma round_robin_fair b : 1 <= b -> fair b (fun i => (i mod b, 0)).
Proof.
  intros Hb i t Ht. exists (i * b + t). split; [nia|]. cbn [fst]. rewrite Nat.add_comm, Nat.mod_add by lia. apply Nat.mod_small. exact Ht.
Qed.

(* ---- the liveness theorem ---- *)
Theorem non_stalling_run_completes bodies progs n q JW sigma :
  progs <> [] -> 1 <= n -> weights_ok progs n bodies JW ->
  non_stalling true bodies progs n q sigma ->
  exists i, let s := state_at true bodies progs n q sigma i in
    (all_done s = true /\ pending (sg s) = [] /\ running s = [] /\
     forall k, k < next (sg s) -> cnt k (done (sg s)) = 1 /\ cnt k (started (sg s)) = 1)
    \/ (self_blocked s = true /\ shutdown (sp s) = false).
Proof.
  intros Hp Hn HW Hns. destruct (non_stalling_terminates true bodies progs n q sigma JW Hp Hn HW Hns) as (i & Hi).
  exists i. apply complete_run; auto.
Qed.

Theorem fair_run_completes bodies progs n q JW sigma :
  progs <> [] -> 1 <= n -> weights_ok progs n bodies JW -> tryonly bodies ->
  fair (max_threads progs n) sigma ->
  exists i, let s := state_at true bodies progs n q sigma i in
    all_done s = true /\ pending (sg s) = [] /\ running s = [] /\
    forall k, k < next (sg s) -> cnt k (done (sg s)) = 1 /\ cnt k (started (sg s)) = 1.
Proof.
  intros Hp Hn HW HT Hf.
  destruct (non_stalling_run_completes bodies progs n q JW sigma Hp Hn HW (fair_non_stalling true bodies progs n q sigma Hp Hn Hf)) as (i & [H|[H _]]).
  - exists i. exact H.
  - exfalso. unfold state_at in H. rewrite (tryonly_never_self_blocked true bodies progs n q _ HT) in H. discriminate.
Qed.
