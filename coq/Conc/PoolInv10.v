(* Layer 10: once POOL_join has broadcast queuePushCond (shutdown is set), nobody sleeps on it any more. *)
From Coq Require Import List Arith Bool Lia ZArith.
Import ListNotations.
From ZV.Conc Require Import Sched PoolModel PoolLemmas PoolInvDefs PoolInv1 PoolInv2 PoolInv3 PoolInv4 PoolInv5 PoolInv6 PoolInv7.

Definition fpost c := match c with FBcastPop | FJoin _ | Done => true | _ => false end.
Definition FreeOK (s : state) := forall m, nth_error (st s) 0 = Some m -> fpost (t_pc m) = true -> sumf npush (st s) = 0.

Lemma npush_wake_push_le th : npush (wake_push th) <= npush th.
Proof. unfold npush, asleep_push, wake_push. destruct (t_pc th) eqn:E; cbn; rewrite ?E; auto. Qed.
Lemma npush_wake_pop th : npush (wake_pop th) = npush th.
Proof. unfold npush, asleep_push, wake_pop. destruct (t_pc th) eqn:E; cbn; rewrite ?E; auto. Qed.

Lemma sumf_npush_broadcast ths : sumf npush (broadcast wake_push ths) = 0.
Proof.
  unfold broadcast. rewrite sumf_map. apply sumf_zero. apply Forall_forall. intros th _.
  unfold npush, asleep_push, wake_push. destruct (t_pc th) eqn:E; cbn; rewrite ?E; auto.
Qed.
Lemma sumf_npush_signal_le w ths : sumf npush (signal asleep_push wake_push w ths) <= sumf npush ths.
Proof.
  destruct (signal_cases asleep_push wake_push w ths) as [[_ ->]|(i & th & Hi & _ & ->)]; auto.
  pose proof (sumf_upd npush i (wake_push th) ths th Hi). pose proof (npush_wake_push_le th). lia.
Qed.
Lemma sumf_npush_wake_pushers_le b w ths : sumf npush (wake_pushers b w ths) <= sumf npush ths.
Proof. destruct b; cbn; [rewrite sumf_npush_broadcast; lia|apply sumf_npush_signal_le]. Qed.

Lemma npush_finish cfg tid th g th' g' : finish_op cfg tid th g = (th', g') -> npush th' = 0.
Proof.
  intros H. apply finish_op_cases in H.
  destruct H as [(Hw & k & j & r & _ & -> & _)|[(Hw & _ & -> & _)|(Hw & c & ops' & Hn & -> & _)]]; cbn; auto.
  apply next_client_pc in Hn. unfold npush, asleep_push; cbn.
  destruct Hn as [(k & j & ->)|[->|[(n & ->)|[(_ & [[-> _]|[-> _]] & _)|(_ & -> & _)]]]]; auto.
Qed.

Lemma step_npush cfg tid w s s' th :
  step cfg tid w s = Some s' -> nth_error (st s) tid = Some th ->
  sumf npush (st s') <= sumf npush (st s) + (match t_pc th with PWait _ | JWait => 1 | _ => 0 end) /\
  (t_pc th = FBcastPush -> sumf npush (st s') = 0).
Proof.
  intros H Hth0. step_inv H; inversion Hth0; subst; cbn [st]; rewrite ?Epc;
    try match goal with Hf : finish_op _ _ _ _ = _ |- _ => pose proof (npush_finish _ _ _ _ _ _ Hf) end;
    (split; [|try discriminate]).
  all: try (sum_upd npush npush_wake_pop npush_wake_pop; unfold npush, asleep_push in *; cbn in *; rewrite ?Epc in *; cbn in *; lia).
  all: rewrite ?sumf_app, ?sumf_repeat.
  all: try match goal with
           | |- context [upd ?t ?x (wake_pushers ?b ?w0 ?l)] =>
             pose proof (sumf_npush_wake_pushers_le b w0 l);
             pose proof (sumf_upd npush t x (wake_pushers b w0 l) th (nth_error_wake_pushers b w0 l t th Hth ltac:(not_asleep Epc)))
           | |- context [upd ?t ?x (broadcast wake_push ?l)] =>
             pose proof (sumf_npush_broadcast l);
             pose proof (sumf_upd npush t x (broadcast wake_push l) th (nth_error_broadcast_push l t th Hth ltac:(not_asleep Epc)))
           end.
  all: unfold npush, asleep_push in *; cbn in *; rewrite ?Epc in *; cbn in *; try lia.
Qed.

Lemma fpost_relevant c : fpost c = true -> relevant c = true /\ fphase c = true /\ fphase0 c = true.
Proof. destruct c; cbn; try discriminate; auto. Qed.

Lemma free_step cfg tid w s s' :
  RoleOK s -> ShapeOK cfg s -> AssertOK s -> MainOK cfg s -> FreeOK s -> step cfg tid w s = Some s' -> FreeOK s'.
Proof.
  unfold FreeOK. intros HR (HL & HK & Hlim & HWk & HMo) HA (m & Hm & Hw & HA1 & HB & HC & HD & HE & HG) HF H m' Hm' Hp'.
  assert (Hth : exists th, nth_error (st s) tid = Some th) by (unfold step in H; destruct (nth_error (st s) tid); [eauto|discriminate]).
  destruct Hth as (th & Hth).
  destruct (step_npush _ _ _ _ _ _ H Hth) as [Hn1 Hn2].
  pose proof (Forall_nth_error _ _ _ _ HR Hth) as Hrole. cbn beta in Hrole.
  destruct (Nat.eq_dec tid 0) as [Ht0|Ht0].
  - assert (Heq : th = m) by (rewrite Ht0 in Hth; congruence). subst th.
    destruct (main_transition cfg tid w s s' m ltac:(lia) H Hth Hw Hrole) as (m2 & Hm2 & _ & Htr).
    rewrite Ht0 in Hm2. rewrite Hm' in Hm2. inversion Hm2; subst m2.
    destruct Htr as [(Hr & Hr')|[(c & Hc & Hdc & Hc')|[(H1 & H2)|[(H1 & H2)|[(H1 & H2)|[(H1 & H2)|(i & Hi & Hdi & Hi')]]]]]].
    + destruct Hr' as [Hr'|[(Hq & _)|(Hq & _)]]; [|rewrite Hq in Hp'; discriminate|rewrite Hq in Hp'; discriminate].
      destruct (fpost_relevant _ Hp') as [Hrel _]. congruence.
    + destruct Hc' as [(Hq & _)|(Hq & _)]; rewrite Hq in Hp'; discriminate.
    + rewrite H2 in Hp'. discriminate.
    + rewrite H2 in Hp'. discriminate.
    + apply Hn2. exact H1.
    + specialize (HF _ Hm ltac:(rewrite H1; reflexivity)). rewrite H1 in Hn1. lia.
    + specialize (HF _ Hm ltac:(rewrite Hi; reflexivity)). rewrite Hi in Hn1. lia.
  - destruct (step_other _ _ _ _ _ _ _ H Hm ltac:(lia)) as (m2 & Hm2 & Hwk). rewrite Hm' in Hm2. inversion Hm2; subst m2.
    destruct (woken_relevant _ _ Hwk) as [Hr1 Hr2].
    destruct (fpost_relevant _ Hp') as (Hrel & _).
    destruct (relevant (t_pc m)) eqn:Er; [|rewrite (Hr2 eq_refl) in Hrel; discriminate].
    rewrite (Hr1 eq_refl) in Hp'. destruct (fpost_relevant _ Hp') as (_ & Hfp & Hfp0).
    specialize (HF _ Hm Hp').
    assert (Hnw : match t_pc th with PWait _ | JWait => 1 | _ => 0 end = 0).
    { destruct (t_pc th) eqn:Epc; auto.
      - pose proof (HA _ _ Hth) as Has. unfold assert_ok in Has. rewrite Epc in Has. apply andb_prop in Has. destruct Has as [_ Has].
        rewrite HA1, Hfp in Has. discriminate.
      - unfold role_ok in Hrole. rewrite Epc in Hrole. destruct (t_worker th) eqn:Ew; [cbn in Hrole; discriminate|].
        pose proof (HWk _ _ Hth) as Hpos. rewrite Ew in Hpos. symmetry in Hpos. apply negb_false_iff, Nat.ltb_lt in Hpos.
        assert (Hd : done_at (st s) tid = true) by (apply HC; [exact Hfp0|lia]).
        apply done_at_spec in Hd. destruct Hd as (x & Hx & Hxd). rewrite Hth in Hx. inversion Hx; subst. congruence. }
    lia.
Qed.
