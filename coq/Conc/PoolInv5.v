(* Layer 5: assertions that hold while a thread is inside the critical section (Owicki-Gries style):
   what a thread decided under the mutex is still true when it acts on it. *)
From Coq Require Import List Arith Bool Lia ZArith.
Import ListNotations.
From ZV.Conc Require Import Sched PoolModel PoolLemmas PoolInvDefs PoolInv1.

Definition assert_ok (p : pool) (th : thread) : bool :=
  match t_pc th with
  | JUnlock => qempty p && (busy p =? 0)
  | JWait => negb (qempty p) || (0 <? busy p)
  | PWait _ => is_full p && negb (shutdown p)
  | WWait => (qempty p || (limit p <=? busy p)) && negb (shutdown p)
  | WUnlockExit => shutdown p
  | FUnlock | FBcastPush | FBcastPop | FJoin _ => shutdown p
  | _ => true
  end.

Definition AssertOK (s : state) := forall t x, nth_error (st s) t = Some x -> assert_ok (sp s) x = true.

Lemma assert_nonholding p p' x : holds (t_pc x) = false -> assert_ok p x = true -> shutdown p = true -> shutdown p' = true -> assert_ok p' x = true.
Proof. unfold assert_ok. destruct (t_pc x); cbn; try discriminate; auto; intros; congruence. Qed.

(* nobody else is inside the critical section when [tid] is, or when the mutex is free *)
Lemma others_nonholding s tid th :
  MutexOK s -> nth_error (st s) tid = Some th -> (holds (t_pc th) = true \/ owner (sp s) = None) ->
  forall t x, t <> tid -> nth_error (st s) t = Some x -> holds (t_pc x) = false.
Proof.
  unfold MutexOK. intros HM Hth Hc t x Hne Hx.
  pose proof (sumf_upd nholds tid (mkT Done [] None [] false) (st s) th Hth) as Hs.
  assert (H0 : sumf nholds (upd tid (mkT Done [] None [] false) (st s)) = 0).
  { assert (Hd : nholds (mkT Done [] None [] false) = 0) by reflexivity. rewrite Hd in Hs.
    destruct Hc as [Hc|Hc].
    - assert (H1 : nholds th = 1) by (unfold nholds; rewrite Hc; reflexivity). destruct (owner (sp s)); lia.
    - rewrite Hc in HM. lia. }
  apply sumf_zero in H0. rewrite <- (nth_error_upd_neq tid (mkT Done [] None [] false)) in Hx by auto.
  pose proof (Forall_nth_error _ _ _ _ H0 Hx) as Hz. unfold nholds in Hz. destruct (holds (t_pc x)); auto; discriminate.
Qed.

Lemma woken_holds x0 x : woken x0 x -> holds (t_pc x) = holds (t_pc x0).
Proof. intros [->|[->| ->]]; auto; [unfold wake_push|unfold wake_pop]; destruct (t_pc x0) eqn:E; cbn; rewrite ?E; auto. Qed.
Lemma woken_assert p x0 x : woken x0 x -> assert_ok p x0 = true -> assert_ok p x = true.
Proof. intros [->|[->| ->]]; auto; [unfold wake_push|unfold wake_pop]; unfold assert_ok; destruct (t_pc x0) eqn:E; cbn; rewrite ?E; auto. Qed.

Lemma finish_assert cfg tid th g th' g' p : finish_op cfg tid th g = (th', g') -> shutdown p = false -> assert_ok p th' = true.
Proof.
  intros H Hs. apply finish_op_cases in H.
  destruct H as [(Hw & k & j & r & _ & -> & _)|[(Hw & _ & -> & _)|(Hw & c & ops' & Hn & -> & _)]]; cbn; auto.
  apply next_client_pc in Hn. unfold assert_ok; cbn.
  destruct Hn as [(k & j & ->)|[->|[(n & ->)|[(_ & [[-> _]|[-> _]] & _)|(_ & -> & _)]]]]; auto.
Qed.

Lemma assert_nonholding' p p' x :
  holds (t_pc x) = false -> assert_ok p x = true -> (shutdown p = true -> shutdown p' = true) -> assert_ok p' x = true.
Proof. unfold assert_ok. destruct (t_pc x); cbn; try discriminate; auto. Qed.

Lemma finish_assert' cfg tid th g th' g' p : finish_op cfg tid th g = (th', g') -> assert_ok p th' = true.
Proof.
  intros H. apply finish_op_cases in H.
  destruct H as [(Hw & k & j & r & _ & -> & _)|[(Hw & _ & -> & _)|(Hw & c & ops' & Hn & -> & _)]]; cbn; auto.
  apply next_client_pc in Hn. unfold assert_ok; cbn.
  destruct Hn as [(k & j & ->)|[->|[(n & ->)|[(_ & [[-> _]|[-> _]] & _)|(_ & -> & _)]]]]; auto.
Qed.

Ltac boolsolve :=
  repeat match goal with
         | H : _ && _ = true |- _ => apply andb_prop in H; destruct H
         | H : _ || _ = false |- _ => apply orb_false_iff in H; destruct H
         | H : negb _ = true |- _ => apply negb_true_iff in H
         | H : negb _ = false |- _ => apply negb_false_iff in H
         end;
  repeat match goal with H : ?b = _ |- context [?b] => rewrite H end; cbn; auto.

Lemma assert_step cfg tid w s s' : MutexOK s -> AssertOK s -> step cfg tid w s = Some s' -> AssertOK s'.
Proof.
  unfold AssertOK. intros HM HA H t' x Hx.
  step_inv H; cbn [st sp] in *; pose proof (HA _ _ Hth) as Hself; others Hx;
    try (eapply finish_assert'; eassumption);
    try (unfold new_worker, assert_ok; cbn; reflexivity);
    (* another thread *)
    try (match goal with
         | Hn : ?t <> ?td, Hx0 : nth_error (st s) ?t = Some ?x0, Hw : woken ?x0 ?y |- assert_ok ?p' ?y = true =>
           first [ (* the pool is untouched *)
                   solve [apply (woken_assert _ _ _ Hw); eauto]
                 | (* the stepping thread owns or acquires the mutex *)
                   solve [apply (assert_nonholding' (sp s));
                          [ rewrite (woken_holds _ _ Hw);
                            apply (others_nonholding s td th HM Hth ltac:(first [left; rewrite Epc; reflexivity | right; apply is_free_owner; assumption]) _ _ Hn Hx0)
                          | apply (woken_assert _ _ _ Hw); eauto
                          | cbn; auto ]] ]
         end);
    (* the stepping thread itself *)
    unfold assert_ok, is_full in *; cbn in *; rewrite ?Epc in *; cbn in *; boolsolve;
    try (destruct (busy (sp s)); [reflexivity|discriminate]).
Qed.
