(* C11: what ONE step of the application thread can do to the job table (frame lemma, no invariant needed): nextJobID moves by at most
   one, doneJobID never goes back, and the description of a job (id, source, prefix, consumed, error, first/last, completion flag) is
   only ever rewritten in slot(nextJobID) while the ring is not full -- or when no job is in flight at all. *)
From Coq Require Import List NArith ZArith Bool Arith Lia.
Import ListNotations.
From ZV.Conc Require Import Sched SchedLemmas MtModel MtProofs.
From ZV.Conc Require Import MtRing.
Local Open Scope N_scope.

(* the description of a job without the flush bookkeeping (cSize, dstBuff, frameChecksumNeeded, dstFlushed) *)
Definition jcore (j : job) : job :=
  mkJob (j_id j) (j_src j) (j_size j) (j_pstart j) (j_psize j) (j_consumed j) 0 (j_err j) false (j_first j) (j_last j) false 0 (j_done j)
        (j_abs j) (j_lap j).

Definition GR (cfg : config) (s s' : state) : Prop :=
  eq_swp s s' /\ next (mt s') = next (mt s) /\ done (mt s) <= done (mt s') /\ length (jobs s') = length (jobs s) /\
  (next (mt s') <= done (mt s') \/
   forall k, jcore (getj s' k) = jcore (getj s k) \/ (k = slot cfg (next (mt s)) /\ next (mt s) < done (mt s') + Mr cfg)).

Lemma gr_refl cfg s : GR cfg s s.
Proof. split; [apply eq_swp_refl|]. repeat split; try lia. right. intros k. left. reflexivity. Qed.

Lemma gr_trans cfg a b c : GR cfg a b -> GR cfg b c -> GR cfg a c.
Proof.
  intros (S1 & N1 & D1 & L1 & J1) (S2 & N2 & D2 & L2 & J2).
  split; [eapply eq_swp_trans; eauto|]. split; [congruence|]. split; [lia|]. split; [congruence|].
  destruct J2 as [J2|J2]; [left; exact J2|].
  destruct J1 as [J1|J1]; [left; lia|].
  right. intros k. destruct (J2 k) as [E2|(E2 & E2')]; [|right; rewrite <- N1; auto].
  destruct (J1 k) as [E1|(E1 & E1')]; [left; congruence|right; split; auto; lia].
Qed.

(* a change that touches neither the ring counters nor the jobs nor (sr, ws, pl) *)
Lemma gr_same cfg s s' :
  eq_swp s s' -> next (mt s') = next (mt s) -> done (mt s') = done (mt s) -> jobs s' = jobs s -> GR cfg s s'.
Proof.
  intros S N D J. split; auto. split; auto. split; [lia|]. split; [congruence|]. right. intros k. left. unfold getj. rewrite J. reflexivity.
Qed.

Ltac gr_via L := eapply gr_trans; [|apply L]; try (apply gr_same; [repeat split|reflexivity|reflexivity|reflexivity]; fail).
Ltac gr_id := apply gr_same; [repeat split|reflexivity|reflexivity|reflexivity].

Lemma jcore_upd_flush cs ck fl j : jcore (j_upd_flush cs ck fl j) = jcore j. Proof. destruct j; reflexivity. Qed.
Lemma jcore_set_dst d j : jcore (j_set_dst d j) = jcore j. Proof. destruct j; reflexivity. Qed.

(* a job table update in one slot that keeps the description *)
Lemma gr_set_job_core cfg s k j' : jcore j' = jcore (getj s k) -> GR cfg s (set_job k j' s).
Proof.
  intros E. split; [repeat split|]. split; [reflexivity|]. split; [cbn; lia|]. split; [cbn; apply upd_length|].
  right. intros k0. left. destruct (Nat.eq_dec k k0) as [<-|Hne].
  - destruct (Nat.lt_ge_cases k (length (jobs s))) as [H|H].
    + rewrite getj_set_job_eq by auto. exact E.
    + unfold getj, set_job, set_jobs. cbn [jobs]. rewrite !nth_overflow; auto. rewrite upd_length. exact H.
  - rewrite getj_set_job_neq by auto. reflexivity.
Qed.

Lemma gr_set_job_next cfg s j' : next (mt s) < done (mt s) + Mr cfg -> GR cfg s (set_job (slot cfg (next (mt s))) j' s).
Proof.
  intros Hlt. split; [repeat split|]. split; [reflexivity|]. split; [cbn; lia|]. split; [cbn; apply upd_length|].
  right. intros k. destruct (Nat.eq_dec (slot cfg (next (mt s))) k) as [<-|Hne]; [right; auto|left].
  rewrite getj_set_job_neq by auto. reflexivity.
Qed.

Lemma gr_prepare_job cfg s n e : next (mt s) < done (mt s) + Mr cfg -> GR cfg s (prepare_job cfg s n e).
Proof.
  intros Hlt. unfold prepare_job. cbn zeta.
  destruct e; cbn [andb]; try destruct (next (mt s) =? 0); (eapply gr_trans; [apply gr_set_job_next; exact Hlt|]); gr_id.
Qed.

Lemma prepare_job_ring cfg s n e : done (mt (prepare_job cfg s n e)) = done (mt s) /\ next (mt (prepare_job cfg s n e)) = next (mt s).
Proof. unfold prepare_job. cbn zeta. destruct e; cbn [andb]; try destruct (next (mt s) =? 0); split; reflexivity. Qed.

Lemma gr_create_job cfg s e : GR cfg s (create_job cfg s e).
Proof.
  unfold create_job.
  destruct (done (mt s) + mask cfg <? next (mt s)) eqn:E; [gr_id|].
  apply N.ltb_ge in E. pose proof (mask_Mr cfg).
  destruct (ready (mt s)); [gr_id|].
  assert (G : GR cfg s (prepare_job cfg s (ifill (mt s)) e)) by (apply gr_prepare_job; lia).
  destruct (prepare_job_ring cfg s (ifill (mt s)) e) as (Ed & En).
  destruct (_ && _).
  - eapply gr_trans; [exact G|]. eapply gr_trans; [|gr_id].
    rewrite <- En. apply gr_set_job_next. rewrite Ed, En. lia.
  - eapply gr_trans; [exact G|gr_id].
Qed.

Lemma gr_create_phase cfg s : GR cfg s (create_phase cfg s).
Proof. unfold create_phase. match goal with |- GR _ _ (if ?b then _ else _) => destruct b end; [gr_via gr_create_job|gr_id]. Qed.

Lemma gr_fill_phase cfg s : GR cfg s (fill_phase cfg s).
Proof.
  unfold fill_phase. destruct (ihas (mt s)); [|apply gr_create_phase].
  destruct (sync_point cfg (mt s) (c_in (cl s))). gr_via gr_create_phase.
Qed.

Lemma gr_hand_out cfg s : GR cfg s (hand_out cfg s).
Proof. unfold hand_out. gr_via gr_fill_phase. Qed.

Lemma gr_after_wrap cfg s : GR cfg s (after_wrap cfg s).
Proof. unfold after_wrap. destruct (overlap _ _); [apply gr_fill_phase|]. destruct (ldm (mt s)); [gr_id|apply gr_hand_out]. Qed.

Lemma gr_move_prefix cfg s : GR cfg s (move_prefix cfg s).
Proof. unfold move_prefix. gr_via gr_after_wrap. Qed.

Lemma gr_after_inuse cfg s u : GR cfg s (after_inuse cfg s u).
Proof.
  unfold after_inuse. cbn [mt set_cl].
  destruct (_ <? _); [|gr_via gr_after_wrap].
  destruct (overlap _ _); [gr_via gr_fill_phase|]. destruct (ldm (mt s)); [gr_id|gr_via gr_move_prefix].
Qed.

Lemma gr_scan_inuse cfg s j : GR cfg s (scan_inuse cfg s j).
Proof. unfold scan_inuse. destruct (_ <? _); [gr_id|apply gr_after_inuse]. Qed.

Lemma gr_gen_body cfg s : GR cfg s (gen_body cfg s).
Proof.
  unfold gen_body. destruct (_ && _); [|apply gr_create_phase].
  destruct (negb _); [apply gr_scan_inuse|apply gr_fill_phase].
Qed.

(* clearing the table: only when no job is in flight *)
Lemma gr_nojobs cfg s s' :
  eq_swp s s' -> next (mt s') = next (mt s) -> done (mt s') = done (mt s) -> length (jobs s') = length (jobs s) ->
  next (mt s) <= done (mt s) -> GR cfg s s'.
Proof. intros S N D L H. split; auto. split; auto. split; [lia|]. split; auto. left. lia. Qed.

Lemma gr_rel_scan_k cfg i kd :
  (forall s1, GR cfg s1 (kd s1)) ->
  forall fuel s k, next (mt s) <= done (mt s) -> GR cfg s (rel_scan_k i kd s k fuel).
Proof.
  intros Hkd. induction fuel as [|f IH]; intros s k H; cbn [rel_scan_k].
  - eapply gr_trans; [|apply Hkd]. gr_id.
  - destruct (Nat.ltb k (length (jobs s))).
    + destruct (j_dst (getj s k)); [gr_id|].
      eapply gr_trans; [|apply IH; exact H].
      apply gr_nojobs; auto; [repeat split|cbn; apply upd_length].
    + eapply gr_trans; [|apply Hkd]. gr_id.
Qed.

Lemma gr_init_params cfg s : GR cfg s (init_params s).
Proof. unfold init_params. gr_id. Qed.

Lemma gr_start_ops cfg ops : forall s, GR cfg s (start_ops cfg s ops).
Proof.
  induction ops as [|o r IH]; intros s; cbn [start_ops]; [gr_id|].
  destruct o as [fp|e i o].
  - destruct (alldone (mt s)); [gr_via gr_init_params|].
    destruct (done (mt s) <? next (mt s)) eqn:E; [gr_id|]. apply N.ltb_ge in E.
    eapply gr_trans; [|apply gr_rel_scan_k; [intros; apply gr_init_params|exact E]]. gr_id.
  - destruct (_ && _); [gr_id|]. destruct (_ && _); [gr_id|]. destruct (_ && _).
    + destruct r as [|[fp|e' i' o'] r']; try gr_id; (eapply gr_trans; [|apply IH]; gr_id).
    + gr_via gr_gen_body.
Qed.

Lemma gr_finish_op cfg s r : GR cfg s (finish_op cfg s r).
Proof. unfold finish_op. gr_via gr_start_ops. Qed.

Lemma gr_rel_scan cfg i s k f : next (mt s) <= done (mt s) -> GR cfg s (rel_scan cfg i s k f).
Proof. intros H. unfold rel_scan. apply gr_rel_scan_k; auto. intros s1. destruct i; [apply gr_init_params|apply gr_finish_op]. Qed.

Lemma gr_wait_all cfg i s : GR cfg s (wait_all cfg i s).
Proof. unfold wait_all. destruct (_ <? _) eqn:E; [gr_id|]. apply N.ltb_ge in E. apply gr_rel_scan; auto. Qed.

Lemma gr_gen_again cfg s : GR cfg s (gen_again cfg s).
Proof. unfold gen_again. destruct (_ && _); [gr_via gr_finish_op|gr_via gr_gen_body]. Qed.

Lemma gr_gen_return cfg s v : GR cfg s (gen_return cfg s v).
Proof.
  unfold gen_return. repeat match goal with |- GR _ _ (if ?b then _ else _) => destruct b end;
  first [apply gr_finish_op|apply gr_gen_again].
Qed.

Lemma gr_flush_return cfg s : GR cfg s (flush_return cfg s).
Proof.
  unfold flush_return, flush_tail.
  repeat match goal with |- GR _ _ (let '(_, _) := (if ?b then _ else _) in _) => destruct b end; try apply gr_gen_return.
  gr_via gr_gen_return.
Qed.

Lemma gr_complete_job cfg s : GR cfg s (complete_job cfg s).
Proof.
  unfold complete_job. eapply gr_trans; [|apply gr_flush_return].
  eapply gr_trans; [apply (gr_set_job_core cfg s (slot cfg (done (mt s)))
                           (j_set_dst false (j_upd_flush 0 (j_ckneed (getj s (slot cfg (done (mt s))))) (j_flushed (getj s (slot cfg (done (mt s)))))
                                                         (getj s (slot cfg (done (mt s)))))))|].
  - rewrite jcore_set_dst, jcore_upd_flush. reflexivity.
  - split; [repeat split|]. split; [reflexivity|]. split; [cbn; lia|]. split; [reflexivity|]. right. intros k. left. reflexivity.
Qed.

Lemma gr_flush_body cfg s : GR cfg s (flush_body cfg s).
Proof.
  unfold flush_body. cbn zeta.
  destruct (j_err _); [apply gr_wait_all|].
  set (k := slot cfg (done (mt s))). set (j := getj s k).
  set (fin := j_consumed j =? j_size j). set (ck := fin && j_ckneed j). set (cs := if ck then j_csize j + 4 else j_csize j).
  destruct (0 <? cs).
  - match goal with |- GR _ _ (if _ then _ else if _ then gen_return cfg ?x _ else _) => set (s1 := x) end.
    assert (G1 : GR cfg s s1).
    { unfold s1. eapply gr_trans; [apply (gr_set_job_core cfg s k); apply jcore_upd_flush|]. gr_id. }
    destruct (fin && (_ =? cs)).
    + destruct (j_dst j); [eapply gr_trans; [exact G1|gr_id]|eapply gr_trans; [exact G1|apply gr_complete_job]].
    + repeat match goal with |- GR _ _ (if ?b then _ else _) => destruct b end;
        (eapply gr_trans; [exact G1|first [apply gr_gen_return|apply gr_flush_return]]).
  - match goal with |- GR _ _ (if _ then gen_return cfg ?x _ else _) => set (s1 := x) end.
    assert (G1 : GR cfg s s1).
    { unfold s1. eapply gr_trans; [apply (gr_set_job_core cfg s k); apply jcore_upd_flush|]. gr_id. }
    repeat match goal with |- GR _ _ (if ?b then _ else _) => destruct b end;
      (eapply gr_trans; [exact G1|first [apply gr_gen_return|apply gr_flush_return]]).
Qed.
