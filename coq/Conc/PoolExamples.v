(* C12: concrete witnesses (evaluated by vm_compute).
   1. The code BEFORE the F5 repair (POOL_thread signals one waiter on queuePushCond) deadlocks: finding F5.
   2. Non-vacuity: the hypotheses of the theorems are satisfiable and runs do reach completion. *)
From Coq Require Import List Arith Bool.
Import ListNotations.
From ZV.Conc Require Import Sched PoolModel PoolTheorems.

(* pool(1 thread, queue 0); client 0 posts two jobs with POOL_add, client 1 calls POOL_joinJobs.
   tid 0,1 = clients, tid 2 = the worker.  Found on the real pool.c (with the two broadcasts turned back into
   signals) by the deterministic scheduler, replayed here through the model. *)
Definition f5_progs : list (list op) := [[OAdd 0; OAdd 1]; [OJoinJobs]].
Definition f5_bodies : list (list post) := [[]; []].
Definition f5_sched : list (nat * nat) :=
  [(0,0);(0,0);(0,0);(2,0);(2,0);(2,0);(1,0);(1,0);(0,0);(0,0);(2,0);(2,1);(2,0);(2,0);(2,0);(1,0);(1,0)].

Lemma lost_wakeup_witness :
  let s := reach false f5_bodies f5_progs 1 0 f5_sched in
  stuck (mkcfg false f5_progs f5_bodies) s = true /\ self_blocked s = false /\
  pending (sg s) = [] /\ busy (sp s) = 0 /\ map t_pc (st s) = [PAsleep 1; Done; WAsleep].
Proof. vm_compute. repeat split; reflexivity. Qed.

(* the same schedule on the repaired code: nobody is stuck *)
Lemma lost_wakeup_repaired :
  let s := reach true f5_bodies f5_progs 1 0 f5_sched in
  stuck (mkcfg true f5_progs f5_bodies) s = false.
Proof. vm_compute. reflexivity. Qed.

Theorem lost_wakeup_refuted :
  exists bodies progs n q sched,
    progs <> [] /\ 1 <= n /\
    let s := reach false bodies progs n q sched in
    stuck (mkcfg false progs bodies) s = true /\ self_blocked s = false.
Proof.
  exists f5_bodies, f5_progs, 1, 0, f5_sched. split; [discriminate|]. split; [auto|].
  destruct lost_wakeup_witness as (H1 & H2 & _). split; assumption.
Qed.

(* two POOL_joinJobs callers are enough as well *)
Definition f5b_progs : list (list op) := [[OAdd 0]; [OJoinJobs]; [OJoinJobs]].
Definition f5b_sched : list (nat * nat) :=
  [(0,0);(0,0);(0,0);(3,0);(3,0);(3,0);(2,0);(2,0);(1,0);(1,0);(3,0);(3,1);(3,0);(3,0);(3,0);(2,0);(2,0)].
Lemma lost_wakeup_two_joiners :
  let s := reach false [[]] f5b_progs 1 0 f5b_sched in
  stuck (mkcfg false f5b_progs [[]]) s = true /\ self_blocked s = false.
Proof. vm_compute. split; reflexivity. Qed.

(* non-vacuity: 2 threads, queue 1, two clients, a job that posts; a complete run *)
Definition nv_progs : list (list op) := [[OAdd 0; OTry 1; OJoinJobs; OResize 3; OAdd 2]; [OTry 3; OJoinJobs]].
Definition nv_bodies : list (list post) := [[(KTry, 4)]; []; []; []; []].
Fixpoint round_robin (fuel n : nat) : list (nat * nat) :=
  match fuel with 0 => [] | S f => map (fun t => (t, 0)) (seq 0 n) ++ round_robin f n end.
Lemma nonvacuous_run :
  let s := reach true nv_bodies nv_progs 2 1 (round_robin 60 5) in
  all_done s = true /\ next (sg s) = 3 /\ length (done (sg s)) = 3 /\ refused (sg s) = [3; 4] /\ cap (sp s) = 3.
Proof. vm_compute. repeat split; reflexivity. Qed.
