(* Layer 2: shape of the thread table (clients first, then workers; main-only operations at tid 0; limits). *)
From Coq Require Import List Arith Bool Lia ZArith.
Import ListNotations.
From ZV.Conc Require Import Sched PoolModel PoolLemmas PoolInvDefs PoolInv1.

Definition mainonly c := match c with MJoin _ | FLock | FUnlock | FBcastPush | FBcastPop | FJoin _ => true | _ => false end.

Definition ShapeOK (cfg : config) (s : state) :=
  length (st s) = c_K cfg + cap (sp s) /\ 1 <= c_K cfg /\ (1 <= limit (sp s) /\ limit (sp s) <= cap (sp s)) /\
  (forall t th, nth_error (st s) t = Some th -> t_worker th = negb (t <? c_K cfg)) /\
  (forall t th, nth_error (st s) t = Some th -> mainonly (t_pc th) = true -> t = 0).

Lemma woken_worker x0 x : woken x0 x -> t_worker x = t_worker x0.
Proof. intros [->|[->| ->]]; auto; [unfold wake_push|unfold wake_pop]; destruct (t_pc x0); auto. Qed.
Lemma woken_mainonly x0 x : woken x0 x -> mainonly (t_pc x) = mainonly (t_pc x0).
Proof. intros [->|[->| ->]]; auto; [unfold wake_push|unfold wake_pop]; destruct (t_pc x0) eqn:E; cbn; rewrite ?E; auto. Qed.

Lemma finish_worker cfg tid th g th' g' : finish_op cfg tid th g = (th', g') -> t_worker th' = t_worker th.
Proof.
  intros H. apply finish_op_cases in H.
  destruct H as [(Hw & k & j & r & _ & -> & _)|[(Hw & _ & -> & _)|(Hw & c & ops' & Hn & -> & _)]]; cbn; auto.
Qed.
Lemma finish_mainonly cfg tid th g th' g' : finish_op cfg tid th g = (th', g') -> mainonly (t_pc th') = true -> tid = 0.
Proof.
  intros H. apply finish_op_cases in H.
  destruct H as [(Hw & k & j & r & _ & -> & _)|[(Hw & _ & -> & _)|(Hw & c & ops' & Hn & -> & _)]]; cbn; try discriminate.
  apply next_client_pc in Hn.
  destruct Hn as [(k & j & ->)|[->|[(n & ->)|[(? & _)|(_ & -> & _)]]]]; cbn; auto; discriminate.
Qed.

Lemma shape_step cfg tid w s s' : RoleOK s -> ShapeOK cfg s -> step cfg tid w s = Some s' -> ShapeOK cfg s'.
Proof.
  unfold ShapeOK. intros HR (HL & HK & Hlim & HW & HMo) H.
  step_inv H; cbn -[Nat.ltb Nat.leb Nat.modulo]; (split; [|split; [exact HK|split; [|split]]]).
  (* length *)
  all: try (rewrite ?app_length, ?upd_length, ?repeat_length, ?broadcast_length, ?signal_length, ?wake_pushers_length; cbn;
            try (apply Nat.leb_gt in E0); lia).
  (* limits *)
  all: try (cbn; try (apply Nat.leb_le in E0); try (apply Nat.leb_gt in E0); try (apply Nat.eqb_neq in E1); lia).
  (* worker flag by position *)
  all: try (intros t' x Hx; others Hx;
            first [ solve [rewrite (woken_worker _ _ Hwoken); eauto]
                  | solve [cbn; symmetry; apply negb_true_iff, Nat.ltb_ge; lia]
                  | solve [try (erewrite finish_worker by eassumption); cbn; try (apply (HW _ _ Hth)); specialize (HW _ _ Hth); cbn in HW; auto]
                  | solve [role_th HR Hth; unfold role_ok in Hrole; rewrite Epc in Hrole; rewrite <- (HW _ _ Hth); cbn; destruct (t_worker th); auto; discriminate]
                  | solve [erewrite finish_worker by eassumption; cbn [t_worker]; role_th HR Hth; unfold role_ok in Hrole; rewrite Epc in Hrole; rewrite <- (HW _ _ Hth); destruct (t_worker th); auto; discriminate] ]).
  (* main-only pcs *)
  all: try (intros t' x Hx Hm; others Hx;
            first [ solve [rewrite (woken_mainonly _ _ Hwoken) in Hm; eauto]
                  | solve [cbn in Hm; discriminate Hm]
                  | solve [eapply finish_mainonly; eassumption]
                  | solve [apply (HMo _ _ Hth); rewrite Epc; reflexivity] ]).
Qed.
