(* C11: mt_error_propagates, part 2 (the caller's side).  For every schedule, call program and payload oracle:
   - err_sticky (E1): a failed job in flight stays in flight, failed, unflushed, until the caller waits for / releases all jobs;
     flush_only_done_job / err_blocks_output: output is only ever taken from the error-free job at doneJobID;
   - err_noticed (E2): ZSTDMT_flushProduced finding the error flag of the job at doneJobID enters ZSTDMT_waitForAllJobsCompleted;
   - err_path_reports (E3): the error path ends with everything released and the call returning an error code. *)
From Coq Require Import List NArith ZArith Bool Arith Lia.
Import ListNotations.
From ZV.Conc Require Import Sched SchedLemmas MtModel MtProofs MtRing MtRingC MtPool MtFrame MtSleep MtStep MtLive MtErr.
Local Open Scope N_scope.

(* ------------------------------------------------------------------ *)
(* what one step of the application thread outside the wait-and-release phase does to the ring *)

Lemma ir_inflight_job cfg s s' i : IR cfg s s' -> inflight s i -> getj s' (slot cfg i) = getj s (slot cfg i).
Proof.
  intros (_ & _ & _ & _ & J) (A & B). destruct J as [J|J]; [lia|].
  destruct (J (slot cfg i)) as [E|(E & Hlt)]; auto. exfalso. revert E. apply slot_neq; lia.
Qed.

Record CStep (cfg : config) (s s' : state) : Prop := mkCS {
  cs_next : done (mt s) < next (mt s) -> next (mt s) <= next (mt s');
  cs_done : done (mt s) < next (mt s) ->
            done (mt s') = done (mt s) \/ (done (mt s') = done (mt s) + 1 /\ j_err (getj s (slot cfg (done (mt s)))) = false);
  cs_out : g_out (gh s') = g_out (gh s) \/
           exists off len, g_out (gh s') = g_out (gh s) ++ [(fr (mt s), done (mt s), off, len)] /\
                           done (mt s) < next (mt s) /\ j_err (getj s (slot cfg (done (mt s)))) = false;
  cs_res : exists l, c_res (cl s') = c_res (cl s) ++ l;
  cs_keep : forall i, inflight s i -> i <> done (mt s) \/ j_err (getj s (slot cfg i)) = true ->
            getj s' (slot cfg i) = getj s (slot cfg i) }.

Lemma cstep_ir cfg s s' : IR cfg s s' -> CStep cfg s s'.
Proof.
  intros G. pose proof G as (D & N & Gh & R & J). constructor.
  - intros _. lia.
  - intros _. left. exact D.
  - left. rewrite Gh. reflexivity.
  - exact R.
  - intros i Hi _. eapply ir_inflight_job; eauto.
Qed.

Lemma cstep_nojobs cfg s s' :
  done (mt s) = next (mt s) -> gh s' = gh s -> (exists l, c_res (cl s') = c_res (cl s) ++ l) -> CStep cfg s s'.
Proof.
  intros E G R. constructor; try (intros; lia); auto.
  - left. rewrite G. reflexivity.
  - intros i (A & B). lia.
Qed.

(* the job part of ZSTDMT_flushProduced: writes only slot(doneJobID), logs at most one copy out of that job, may free its position *)
Record Head (cfg : config) (s sa : state) : Prop := mkHd {
  h_next : next (mt sa) = next (mt s);
  h_done : done (mt sa) = done (mt s) \/ (done (mt sa) = done (mt s) + 1 /\ done (mt s) < next (mt s));
  h_res : c_res (cl sa) = c_res (cl s);
  h_out : g_out (gh sa) = g_out (gh s) \/
          exists off len, g_out (gh sa) = g_out (gh s) ++ [(fr (mt s), j_id (getj s (slot cfg (done (mt s)))), off, len)] /\
                          done (mt s) < next (mt s);
  h_jobs : forall k, k <> slot cfg (done (mt s)) -> getj sa k = getj s k }.

Lemma cstep_head cfg s sa s' :
  KB cfg s -> j_err (getj s (slot cfg (done (mt s)))) = false -> Head cfg s sa -> IR cfg sa s' -> CStep cfg s s'.
Proof.
  intros K Eerr [HN HD HR HO HJ] G. pose proof G as (D & N & Gh & (l & R) & J). destruct (b_rng _ _ K) as (R1 & R2).
  constructor.
  - intros _. lia.
  - intros _. destruct HD as [HD|(HD & _)]; [left|right; split; auto]; lia.
  - rewrite Gh. destruct HO as [HO|(off & len & HO & Hlt)]; [left; exact HO|right].
    exists off, len. split; [|split; auto]. rewrite HO. rewrite (b_ids _ _ K (done (mt s))) by (split; lia). reflexivity.
  - exists l. rewrite R, HR. reflexivity.
  - intros i (A & B) Hor.
    assert (Hne : i <> done (mt s)) by (destruct Hor as [X|X]; [exact X|intro; subst i; congruence]).
    rewrite (ir_inflight_job cfg sa s' i G) by (split; [destruct HD as [HD|(HD & _)]; lia|lia]).
    apply HJ. intro E. symmetry in E. revert E. apply slot_neq; lia.
Qed.

Definition complete_head (cfg : config) (s : state) : state :=
  let m := mt s in let k := slot cfg (done m) in let j := getj s k in let g := gh s in
  set_mt (mt_ring (done m + 1) (next m) (ready m) (ended m) (alldone m) m)
    (set_gh (mkG (g_out g) (g_fin g ++ [(fr m, j_id j, j_csize j)]) (g_ck g))
       (set_job k (j_set_dst false (j_upd_flush 0 (j_ckneed j) (j_flushed j) j)) s)).

Lemma complete_job_eq cfg s : complete_job cfg s = flush_return cfg (complete_head cfg s).
Proof. reflexivity. Qed.

Lemma head_complete cfg s sa :
  Head cfg s sa -> done (mt sa) = done (mt s) -> done (mt s) < next (mt s) -> Head cfg s (complete_head cfg sa).
Proof.
  intros [HN HD HR HO HJ] E Hlt. unfold complete_head. constructor; cbn [mt gh cl set_mt set_gh set_job set_jobs mt_ring done next g_out].
  - exact HN.
  - right. split; [lia|exact Hlt].
  - exact HR.
  - exact HO.
  - intros k Hk. rewrite getj_set_mt, getj_set_gh. rewrite E. rewrite getj_set_job_neq by auto. apply HJ; exact Hk.
Qed.

Lemma flush_body_head cfg s :
  Mid cfg s -> Flow s -> j_err (getj s (slot cfg (done (mt s)))) = false ->
  exists sa, Head cfg s sa /\ IR cfg sa (flush_body cfg s).
Proof.
  intros M F Eerr. unfold flush_body. cbn zeta. rewrite Eerr.
  set (k := slot cfg (done (mt s))). set (j := getj s k).
  pose proof (m_kb _ _ M) as K. destruct (b_rng _ _ K) as (R1 & R2).
  assert (Hkm : (k < N.to_nat (Mr cfg))%nat) by apply slot_lt.
  set (fin := j_consumed j =? j_size j).
  set (ck := fin && j_ckneed j).
  set (cs := if ck then j_csize j + 4 else j_csize j).
  assert (Hg1 : forall g : ghost, g_out (if ck then mkG (g_out g) (g_fin g) (g_ck g ++ [(j_id j, s_log (sr s))]) else g) = g_out g)
    by (intros g; destruct ck; reflexivity).
  assert (Hjobs : forall j1 k0, k0 <> k -> getj (set_job k j1 s) k0 = getj s k0) by (intros; apply getj_set_job_neq; auto).
  destruct (N.eq_dec (done (mt s)) (next (mt s))) as [Edn|Edn].
  - (* no job in flight: nothing to flush *)
    assert (Hj : j_csize j = 0 /\ ck = false).
    { destruct (m_n1 _ _ M k Hkm) as [(S1 & S2 & S3 & S4 & S5)|(Ek & Er)].
      - intros i (A & B). lia.
      - fold j in S2, S3. unfold ck. rewrite S3. split; auto. apply andb_false_r.
      - assert (Ha : alldone (mt s) = false).
        { destruct (alldone (mt s)) eqn:X; auto. destruct F as (_ & F2). destruct (F2 X) as (_ & ? & _). congruence. }
        destruct (m_n2 _ _ M Er Ha) as ((_ & _ & P3 & P4 & _) & P6 & _). rewrite <- Edn in P3, P4, P6. fold k in P3, P4, P6. fold j in P3, P4, P6.
        split; auto. unfold ck, fin. destruct (j_consumed j =? j_size j) eqn:X; auto. apply N.eqb_eq in X. rewrite P6; auto. lia. }
    destruct Hj as (Hcs & Hck). assert (Hz : 0 <? cs = false) by (unfold cs; rewrite Hck, Hcs; reflexivity). rewrite Hz.
    match goal with |- exists sa, _ /\ IR cfg sa (if _ then gen_return cfg ?x _ else _) => exists x end.
    split.
    + constructor; cbn [mt gh cl set_gh set_job set_jobs]; [reflexivity|left; reflexivity|reflexivity| |].
      * left. apply Hg1.
      * intros k0 Hk0. rewrite getj_set_gh. apply Hjobs; exact Hk0.
    + repeat match goal with |- IR _ _ (if ?b then _ else _) => destruct b end; first [apply ir_gen_return|apply ir_flush_return].
  - assert (Hlt : done (mt s) < next (mt s)) by lia.
    destruct (0 <? cs) eqn:Ecs.
    + match goal with |- exists sa, _ /\ IR cfg sa (if _ then _ else if _ then gen_return cfg ?x _ else _) => set (s1 := x) end.
      assert (H1 : Head cfg s s1).
      { unfold s1. constructor; cbn [mt gh cl set_gh set_cl set_job set_jobs cl_io c_res]; [reflexivity|left; reflexivity|reflexivity| |].
        - destruct (0 <? N.min (cs - j_flushed j) (c_out (cl s))); cbn [g_out]; rewrite Hg1; [right|left; reflexivity].
          eexists; eexists. split; [reflexivity|exact Hlt].
        - intros k0 Hk0. rewrite getj_set_gh, getj_set_cl. apply Hjobs; exact Hk0. }
      destruct (fin && (_ =? cs)).
      * destruct (j_dst j).
        -- exists s1. split; [exact H1|ir_id].
        -- rewrite complete_job_eq. exists (complete_head cfg s1). split; [|apply ir_flush_return].
           apply head_complete; auto.
      * exists s1. split; [exact H1|].
        repeat match goal with |- IR _ _ (if ?b then _ else _) => destruct b end; first [apply ir_gen_return|apply ir_flush_return].
    + match goal with |- exists sa, _ /\ IR cfg sa (if _ then gen_return cfg ?x _ else _) => exists x end.
      split.
      * constructor; cbn [mt gh cl set_gh set_job set_jobs]; [reflexivity|left; reflexivity|reflexivity| |].
        -- left. apply Hg1.
        -- intros k0 Hk0. rewrite getj_set_gh. apply Hjobs; exact Hk0.
      * repeat match goal with |- IR _ _ (if ?b then _ else _) => destruct b end; first [apply ir_gen_return|apply ir_flush_return].
Qed.

Lemma caller_step_cstep cfg w s s' :
  TInv cfg s -> relphase (c_pc (cl s)) = false -> caller_step cfg w s = Some s' -> CStep cfg s s'.
Proof.
  intros TI Hrel H. pose proof TI as (K & A). pose proof (k_pc _ _ K) as P. unfold PcInv in P.
  destruct P as (PA & PB & PC & PD & PE & PF & PG). pose proof (kinv_kb _ _ K) as KBs.
  unfold caller_step in H. cbn zeta in H.
  destruct (c_pc (cl s)) eqn:Epc; try discriminate; cbn [awake relphase] in *; try discriminate.
  - (* CInUse *) destruct (_ <? _); inv_some H; apply cstep_ir; [apply ir_after_inuse|apply ir_scan_inuse].
  - (* CLdm1 *) destruct (overlap_win _ _); inv_some H; apply cstep_ir; [ir_id|apply ir_move_prefix].
  - (* CLdm2 *) destruct (overlap_win _ _); inv_some H; apply cstep_ir; [ir_id|apply ir_hand_out].
  - (* CGetBuf *)
    destruct (PB eq_refl) as ((Hlt & _) & _). inv_some H.
    constructor; cbn [mt gh cl set_cpc set_cl set_mt set_job set_jobs set_pl mt_ring done next cl_pc c_res].
    + intros _. lia.
    + intros _. left. reflexivity.
    + left. reflexivity.
    + exists []. rewrite app_nil_r. reflexivity.
    + intros i Hi _. rewrite getj_set_cpc, getj_set_mt.
      rewrite getj_set_job_neq by (intro E; symmetry in E; revert E; apply inflight_not_next; auto). reflexivity.
  - (* CTryAdd *)
    destruct (_ || _); inv_some H; [apply cstep_ir; ir_id|].
    constructor; cbn [mt gh cl set_cpc set_cl set_mt set_ws set_pl mt_ring done next cl_pc c_res].
    + intros _. lia.
    + intros _. left. reflexivity.
    + left. reflexivity.
    + exists []. rewrite app_nil_r. reflexivity.
    + intros i Hi _. reflexivity.
  - (* CFlush *)
    assert (M : Mid cfg s) by (apply mid_of_tinv; auto; rewrite Epc; cbn; auto; discriminate).
    assert (F : Flow s) by (apply flow_of_ainv; auto; rewrite Epc; reflexivity).
    destruct (_ && _); inv_some H; [apply cstep_ir; ir_id|].
    destruct (j_err (getj s (slot cfg (done (mt s))))) eqn:Eerr.
    + apply cstep_ir. unfold flush_body. cbn zeta. rewrite Eerr. apply ir_wait_all.
    + destruct (flush_body_head cfg s M F Eerr) as (sa & Hd & G). eapply cstep_head; eauto.
  - (* CRelBuf *)
    destruct (PE eq_refl) as (E1 & _). inv_some H.
    match goal with |- CStep cfg s (complete_job cfg ?x) => set (s0 := x) end.
    rewrite complete_job_eq. eapply cstep_head with (sa := complete_head cfg s0); [exact KBs|exact E1| |apply ir_flush_return].
    apply (head_complete cfg s s0); [|reflexivity|exact PD].
    constructor; [reflexivity|left; reflexivity|reflexivity|left; reflexivity|intros; reflexivity].
  - (* CInitBuf *)
    inv_some H.
    apply cstep_nojobs; [exact PD|reflexivity|exists []; rewrite app_nil_r; reflexivity].
  - (* CInitSeq *)
    destruct (ldm (mt s)); inv_some H;
    (match goal with |- CStep ?c s (finish_op _ ?x ?r) => destruct (ir_finish_op c x r) as (_ & _ & G & R & _) end;
     apply cstep_nojobs; [exact PD|rewrite G; reflexivity|exact R]).
Qed.

(* ------------------------------------------------------------------ *)
(* pool threads: the error flag is never cleared, dstFlushed and the ghost logs are the caller's *)

Definition jmono (j j' : job) : Prop :=
  j_flushed j' = j_flushed j /\ j_id j' = j_id j /\ (j_err j = true -> j_err j' = true).
Lemma jmono_refl j : jmono j j. Proof. repeat split; auto. Qed.

Lemma jmono_set_job s k0 j' : jmono (getj s k0) j' -> forall k, jmono (getj s k) (getj (set_job k0 j' s) k).
Proof.
  intros H k. destruct (Nat.eq_dec k0 k) as [<-|Hne]; [|rewrite getj_set_job_neq by auto; apply jmono_refl].
  destruct (Nat.lt_ge_cases k0 (length (jobs s))) as [Hl|Hl]; [rewrite getj_set_job_eq by auto; exact H|].
  unfold getj, set_job, set_jobs. cbn [jobs]. rewrite !nth_overflow; [apply jmono_refl|..]; rewrite ?upd_length; exact Hl.
Qed.

Lemma gh_wake_job c k x : gh (wake_caller_job c k x) = gh x. Proof. apply wake_job_proj. Qed.
Lemma gh_wake_ldm x : gh (wake_caller_ldm x) = gh x. Proof. apply wake_ldm_proj. Qed.
Lemma res_wake_job c k x : c_res (cl (wake_caller_job c k x)) = c_res (cl x).
Proof. unfold wake_caller_job. destruct (c_pc (cl x)); try reflexivity; destruct (Nat.eqb _ _); reflexivity. Qed.
Lemma res_wake_ldm x : c_res (cl (wake_caller_ldm x)) = c_res (cl x).
Proof. unfold wake_caller_ldm. destruct (c_pc (cl x)); reflexivity. Qed.

Lemma set_job_set_pl x k j s : set_job k j (set_pl x s) = set_pl x (set_job k j s).
Proof. reflexivity. Qed.

Lemma worker_step_mono cfg t s s' :
  worker_step cfg t s = Some s' ->
  gh s' = gh s /\ c_res (cl s') = c_res (cl s) /\ forall k, jmono (getj s k) (getj s' k).
Proof.
  unfold worker_step. intros H. destruct (nth_error (ws s) t) as [w|]; [|discriminate].
  destruct (w_pc w); try discriminate;
    repeat match type of H with
           | (if ?b then _ else _) = _ => destruct b
           | match ?x with Some _ => _ | None => _ end = _ => destruct x
           end; inv_some H;
    repeat match goal with |- context[if ?b then _ else _] => destruct b eqn:? end;
    (split; [|split]);
    cbn [gh cl set_w set_ws set_pl set_job set_jobs set_sr];
    rewrite ?gh_wake_job, ?gh_wake_ldm, ?res_wake_job, ?res_wake_ldm;
    cbn [gh cl set_w set_ws set_pl set_job set_jobs set_sr]; try reflexivity;
    intros k0; rewrite ?set_job_set_pl, ?getj_set_w, ?getj_wake_job, ?getj_wake_ldm, ?getj_set_sr, ?getj_set_ws, ?getj_set_pl;
    first [apply jmono_refl | apply jmono_set_job; cbn; repeat split; auto; intros; congruence].
Qed.

(* ------------------------------------------------------------------ *)
(* the wait-and-release phase hands nothing to the application *)

Lemma release_step_ir cfg w s s' :
  TInv cfg s -> relphase (c_pc (cl s)) = true -> caller_step cfg w s = Some s' ->
  gh s' = gh s /\ exists l, c_res (cl s') = c_res (cl s) ++ l.
Proof.
  intros (K & _) Hrel H. pose proof (k_pc _ _ K) as P. unfold PcInv in P. destruct P as (_ & _ & _ & PD & _).
  unfold caller_step in H. cbn zeta in H.
  destruct (c_pc (cl s)) eqn:Epc; try discriminate; cbn [awake relphase] in *; try discriminate.
  - destruct (negb _); inv_some H; [split; [reflexivity|exists []; rewrite app_nil_r; reflexivity]|].
    match goal with |- gh (wait_all cfg ?i ?x) = _ /\ _ => destruct (ir_wait_all cfg i x) as (_ & _ & G & R & _) end.
    split; [rewrite G; reflexivity|exact R].
  - inv_some H.
    match goal with |- gh (rel_scan cfg ?i ?x ?k ?f) = _ /\ _ => destruct (ir_rel_scan cfg i x k f) as (_ & _ & G & R & _) end.
    + cbn [mt zero_slot set_job set_jobs set_pl]. rewrite PD. lia.
    + split; [rewrite G; reflexivity|exact R].
Qed.

(* ------------------------------------------------------------------ *)
(* E1                                                                   *)

Definition out_id (e : N * N * N * N) : N := snd (fst (fst e)).

(* every entry of the flush log is a copy out of the job at doneJobID, made by the application thread, and that job has no error *)
Lemma flush_only_done_job_inv cfg t w s s' :
  TInv cfg s -> step cfg t w s = Some s' ->
  g_out (gh s') = g_out (gh s) \/
  exists off len, t = 0%nat /\ g_out (gh s') = g_out (gh s) ++ [(fr (mt s), done (mt s), off, len)] /\
                  done (mt s) < next (mt s) /\ j_err (getj s (slot cfg (done (mt s)))) = false.
Proof.
  intros TI H. destruct t as [|t]; cbn [step] in H.
  - destruct (relphase (c_pc (cl s))) eqn:Hrel.
    + left. destruct (release_step_ir cfg w s s' TI Hrel H) as (G & _). rewrite G. reflexivity.
    + destruct (cs_out _ _ _ (caller_step_cstep cfg w s s' TI Hrel H)) as [E|(off & len & E & X & Y)]; [left; exact E|right].
      exists off, len. auto.
  - left. destruct (worker_step_mono cfg t s s' H) as (G & _). rewrite G. reflexivity.
Qed.

Lemma err_sticky_inv cfg t w s s' i :
  TInv cfg s -> step cfg t w s = Some s' -> inflight s i -> j_err (getj s (slot cfg i)) = true ->
  (t = 0%nat /\ relphase (c_pc (cl s)) = true) \/
  (inflight s' i /\ j_err (getj s' (slot cfg i)) = true /\
   j_flushed (getj s' (slot cfg i)) = j_flushed (getj s (slot cfg i)) /\
   exists l, g_out (gh s') = g_out (gh s) ++ l /\ forall e, In e l -> out_id e <> i).
Proof.
  intros TI H Hi Herr. destruct t as [|t]; cbn [step] in H.
  - destruct (relphase (c_pc (cl s))) eqn:Hrel; [left; auto|right].
    pose proof (caller_step_cstep cfg w s s' TI Hrel H) as [CN CD CO CR CK].
    destruct Hi as (A & B). assert (Hlt : done (mt s) < next (mt s)) by lia.
    rewrite (CK i) by (auto; split; auto). specialize (CN Hlt). specialize (CD Hlt).
    split; [|split; [exact Herr|split; [reflexivity|]]].
    + split; [|lia]. destruct CD as [E|(E & X)]; [lia|]. assert (i <> done (mt s)) by (intro; subst i; congruence). lia.
    + destruct CO as [E|(off & len & E & _ & X)].
      * exists []. rewrite app_nil_r. split; [exact E|]. intros e [].
      * eexists. split; [exact E|]. intros e [<-|[]]. cbn. intro; subst i; congruence.
  - right. destruct (worker_step_aux cfg t s s' H) as (Em & _). destruct (worker_step_mono cfg t s s' H) as (G & _ & J).
    destruct (J (slot cfg i)) as (J1 & _ & J3).
    split; [unfold inflight in *; rewrite Em; exact Hi|]. split; [apply J3; exact Herr|]. split; [exact J1|].
    exists []. rewrite app_nil_r, G. split; [reflexivity|]. intros e [].
Qed.

(* E1: reachable states *)
Theorem err_sticky cfg ops sched t w s' i :
  0 < c_chunk cfg -> ops_ok ops -> let s := run state (step cfg) sched (init cfg ops) in
  step cfg t w s = Some s' -> inflight s i -> j_err (getj s (slot cfg i)) = true ->
  (t = 0%nat /\ relphase (c_pc (cl s)) = true) \/
  (inflight s' i /\ j_err (getj s' (slot cfg i)) = true /\
   j_flushed (getj s' (slot cfg i)) = j_flushed (getj s (slot cfg i)) /\
   exists l, g_out (gh s') = g_out (gh s) ++ l /\ forall e, In e l -> out_id e <> i).
Proof. intros Hc Ho s. apply err_sticky_inv. apply tinv_reachable; auto. Qed.

Theorem flush_only_done_job cfg ops sched t w s' :
  0 < c_chunk cfg -> ops_ok ops -> let s := run state (step cfg) sched (init cfg ops) in
  step cfg t w s = Some s' ->
  g_out (gh s') = g_out (gh s) \/
  exists off len, t = 0%nat /\ g_out (gh s') = g_out (gh s) ++ [(fr (mt s), done (mt s), off, len)] /\
                  done (mt s) < next (mt s) /\ j_err (getj s (slot cfg (done (mt s)))) = false.
Proof. intros Hc Ho s. apply flush_only_done_job_inv. apply tinv_reachable; auto. Qed.

(* once the job at doneJobID has failed, no step of any thread hands output to the application *)
Theorem err_blocks_output cfg ops sched t w s' :
  0 < c_chunk cfg -> ops_ok ops -> let s := run state (step cfg) sched (init cfg ops) in
  step cfg t w s = Some s' -> j_err (getj s (slot cfg (done (mt s)))) = true -> g_out (gh s') = g_out (gh s).
Proof.
  intros Hc Ho s H E. destruct (flush_only_done_job cfg ops sched t w s' Hc Ho H) as [X|(off & len & _ & _ & _ & X)]; [exact X|].
  fold s in X. congruence.
Qed.

(* ------------------------------------------------------------------ *)
(* E2: ZSTDMT_flushProduced notices the error of the job at doneJobID    *)

(* outside the wait-and-release phase an error flag is only ever seen on a job in flight *)
Lemma err_flag_inflight cfg s :
  Mid cfg s -> Flow s -> j_err (getj s (slot cfg (done (mt s)))) = true -> done (mt s) < next (mt s).
Proof.
  intros M F Eerr. destruct (b_rng _ _ (m_kb _ _ M)) as (R1 & _).
  destruct (N.eq_dec (done (mt s)) (next (mt s))) as [Edn|Edn]; [exfalso|lia].
  destruct (m_n1 _ _ M (slot cfg (done (mt s))) (slot_lt cfg _)) as [(S1 & _)|(Ek & Er)].
  - intros i (A & B). lia.
  - congruence.
  - assert (Ha : alldone (mt s) = false).
    { destruct (alldone (mt s)) eqn:X; auto. destruct F as (_ & F2). destruct (F2 X) as (_ & ? & _). congruence. }
    destruct (m_n2 _ _ M Er Ha) as ((_ & _ & _ & _ & P5) & _). rewrite <- Edn in P5. congruence.
Qed.

Lemma err_noticed_inv cfg w s s' :
  TInv cfg s -> c_pc (cl s) = CFlush -> j_err (getj s (slot cfg (done (mt s)))) = true -> caller_step cfg w s = Some s' ->
  done (mt s) < next (mt s) /\ s' = set_cpc (CWait false) s.
Proof.
  intros TI Epc Eerr H. pose proof TI as (K & A).
  assert (M : Mid cfg s) by (apply mid_of_tinv; auto; rewrite Epc; cbn; auto; discriminate).
  assert (F : Flow s) by (apply flow_of_ainv; auto; rewrite Epc; reflexivity).
  pose proof (err_flag_inflight cfg s M F Eerr) as Hlt. split; [exact Hlt|].
  unfold caller_step in H. cbn zeta in H. rewrite Epc in H. unfold jslot in H. rewrite Eerr in H.
  cbn [negb andb] in H. rewrite andb_false_r in H. cbn [andb] in H. inv_some H.
  unfold flush_body. cbn zeta. rewrite Eerr. unfold wait_all. apply N.ltb_lt in Hlt. rewrite Hlt. reflexivity.
Qed.

(* E2 *)
Theorem err_noticed cfg ops sched w s' :
  0 < c_chunk cfg -> ops_ok ops -> let s := run state (step cfg) sched (init cfg ops) in
  c_pc (cl s) = CFlush -> j_err (getj s (slot cfg (done (mt s)))) = true -> caller_step cfg w s = Some s' ->
  done (mt s) < next (mt s) /\ s' = set_cpc (CWait false) s /\
  c_pc (cl s') = CWait false /\ c_res (cl s') = c_res (cl s) /\ gh s' = gh s /\ mt s' = mt s /\ jobs s' = jobs s.
Proof.
  intros Hc Ho s Epc Eerr H.
  destruct (err_noticed_inv cfg w s s' (tinv_reachable cfg ops sched Hc Ho) Epc Eerr H) as (Hlt & E).
  split; [exact Hlt|]. split; [exact E|]. rewrite E. repeat split.
Qed.

(* ------------------------------------------------------------------ *)
(* E3: the error path ends with everything released and an error code   *)

Definition Released (s : state) : Prop :=
  done (mt s) = next (mt s) /\ alldone (mt s) = true /\ ihas (mt s) = false /\ ifill (mt s) = 0 /\
  (forall k, getj s k = job0) /\ q (pl s) = None /\ (forall t w, nth_error (ws s) t = Some w -> active (w_pc w) = false).

Lemma set_jobs_same s : set_jobs (jobs s) s = s.
Proof. destruct s; reflexivity. Qed.

(* ZSTDMT_releaseAllJobResources from slot k on: it stops at the lock of the buffer pool for a slot k' >= k that still holds an output
   buffer, or it runs to its end with the whole table zeroed (then allJobsCompleted = 1, the input buffer is dropped) *)
Lemma rel_scan_k_spec i kd : forall fuel s k,
  (forall k', (k' < k)%nat -> getj s k' = job0) -> (length (jobs s) <= k + fuel)%nat ->
  (exists js k', rel_scan_k i kd s k fuel = set_cpc (CRelAll i k') (set_jobs js s) /\ (k <= k' < length (jobs s))%nat) \/
  (exists js, rel_scan_k i kd s k fuel = kd (rel_clear (set_jobs js s)) /\ forall k', nth k' js job0 = job0).
Proof.
  assert (Hend : forall s k, (forall k', (k' < k)%nat -> getj s k' = job0) -> (length (jobs s) <= k)%nat ->
                 exists js, kd (rel_clear s) = kd (rel_clear (set_jobs js s)) /\ forall k', nth k' js job0 = job0).
  { intros s k Hz Hl. exists (jobs s). rewrite set_jobs_same. split; [reflexivity|]. intros k'.
    destruct (Nat.lt_ge_cases k' (length (jobs s))) as [X|X]; [apply Hz; lia|apply nth_overflow; exact X]. }
  induction fuel as [|f IH]; intros s k Hz Hl; cbn [rel_scan_k].
  - right. apply (Hend s k); auto. lia.
  - destruct (Nat.ltb k (length (jobs s))) eqn:Ek.
    + apply Nat.ltb_lt in Ek. destruct (j_dst (getj s k)).
      * left. exists (jobs s), k. rewrite set_jobs_same. split; [reflexivity|lia].
      * destruct (IH (zero_slot k s) (S k)) as [(js & k' & E & Hk')|(js & E & Hjs)].
        -- intros k' Hk'. destruct (Nat.eq_dec k' k) as [->|Hne]; [apply getj_zero_slot|].
           unfold zero_slot. rewrite getj_set_job_neq by auto. apply Hz. lia.
        -- cbn [zero_slot set_job set_jobs jobs]. rewrite upd_length. lia.
        -- left. exists js, k'. split; [exact E|]. cbn [zero_slot set_job set_jobs jobs] in Hk'. rewrite upd_length in Hk'. lia.
        -- right. exists js. split; [exact E|exact Hjs].
    + apply Nat.ltb_ge in Ek. right. apply (Hend s k); auto.
Qed.

Lemma finish_err_res cfg s : exists l, c_res (cl (finish_op cfg s RErr)) = c_res (cl s) ++ RErr :: l.
Proof.
  unfold finish_op.
  destruct (ir_start_ops cfg (ops_after RErr (c_ops (cl s))) (record_res RErr s)) as (_ & _ & _ & (l & R) & _).
  exists l. rewrite R. cbn [record_res cl set_cl c_res]. rewrite <- app_assoc. reflexivity.
Qed.

Lemma err_path_reports_inv cfg w s s' :
  TInv cfg s -> (c_pc (cl s) = CWait false \/ exists k, c_pc (cl s) = CRelAll false k) -> caller_step cfg w s = Some s' ->
  ((c_pc (cl s') = CWait false \/ c_pc (cl s') = CWaitZ false \/
    exists k', c_pc (cl s') = CRelAll false k' /\ (k' < length (jobs s))%nat /\ forall k, c_pc (cl s) = CRelAll false k -> (k < k')%nat) /\
   c_res (cl s') = c_res (cl s) /\ gh s' = gh s) \/
  (exists s1, Released s1 /\ c_res (cl s1) = c_res (cl s) /\ gh s1 = gh s /\ s' = finish_op cfg s1 RErr /\
              exists l, c_res (cl s') = c_res (cl s) ++ RErr :: l).
Proof.
  intros (K & A) Hp H. pose proof (k_pc _ _ K) as P. unfold PcInv in P. destruct P as (_ & _ & _ & PD & _ & _ & PG).
  unfold caller_step in H. cbn zeta in H.
  destruct Hp as [Epc|(k & Epc)]; rewrite Epc in H, PD, PG; cbn [awake] in PD, PG.
  - (* ZSTDMT_waitForAllJobsCompleted *)
    unfold jslot in H. destruct (j_done (getj s (slot cfg (done (mt s))))) eqn:Ed; cbn [negb] in H; inv_some H.
    2:{ left. split; [right; left; reflexivity|split; reflexivity]. }
    unfold wait_all. cbn [mt set_mt mt_ring done next].
    destruct (done (mt s) + 1 <? next (mt s)) eqn:El.
    { left. split; [left; reflexivity|split; reflexivity]. }
    apply N.ltb_ge in El. unfold rel_scan.
    match goal with |- context[rel_scan_k ?i ?kd ?x ?k0 ?f] => destruct (rel_scan_k_spec i kd f x k0) as [(js & k' & E & Hk')|(js & E & Hjs)] end.
    + intros k' Hk'. lia.
    + lia.
    + left. rewrite E. split; [|split; reflexivity]. right; right. exists k'. split; [reflexivity|]. split; [exact (proj2 Hk')|].
      intros k0 X. rewrite Epc in X. discriminate.
    + right. rewrite E. match type of E with _ = finish_op cfg ?x RErr => exists x end.
      split; [|split; [reflexivity|split; [reflexivity|split; [reflexivity|match goal with |- exists l, c_res (cl (finish_op cfg ?y RErr)) = _ => exact (finish_err_res cfg y) end]]]].
      unfold Released. cbn [mt pl ws rel_clear set_mt set_jobs mt_ring mt_buf done next alldone ihas ifill].
      split; [lia|]. split; [reflexivity|]. split; [reflexivity|]. split; [reflexivity|]. split; [exact Hjs|].
      assert (Hno : forall i, inflight s i -> j_done (getj s (slot cfg i)) = false -> False).
      { intros i (X & Y) Z. assert (i = done (mt s)) by lia. subst i. congruence. }
      split.
      * destruct (q (pl s)) as [k0|] eqn:Eq; auto. exfalso. destruct (k_que _ _ K k0 Eq) as (i & Hi & Ek & (Ad & _)).
        apply (Hno i Hi). rewrite <- Ek. exact Ad.
      * intros t x Hx. destruct (active (w_pc x)) eqn:Ax; auto. exfalso. destruct (k_wrk _ _ K t x Hx Ax) as (i & Hi & Ek & (Ad & _)).
        apply (Hno i Hi). rewrite <- Ek. exact Ad.
  - (* ZSTDMT_releaseAllJobResources *)
    inv_some H. unfold rel_scan.
    match goal with |- context[rel_scan_k ?i ?kd ?x ?k0 ?f] => destruct (rel_scan_k_spec i kd f x k0) as [(js & k' & E & Hk')|(js & E & Hjs)] end.
    + intros k' Hk'. destruct (Nat.eq_dec k' k) as [->|Hne]; [apply getj_zero_slot|].
      unfold zero_slot. rewrite getj_set_job_neq by auto. apply PG. lia.
    + cbn [zero_slot set_job set_jobs set_pl jobs]. rewrite upd_length. lia.
    + left. rewrite E. split; [|split; reflexivity]. right; right. exists k'.
      cbn [zero_slot set_job set_jobs set_pl jobs] in Hk'. rewrite upd_length in Hk'. split; [reflexivity|]. split; [lia|].
      intros k0 X. rewrite Epc in X. inversion X; subst. lia.
    + right. rewrite E. match type of E with _ = finish_op cfg ?x RErr => exists x end.
      split; [|split; [reflexivity|split; [reflexivity|split; [reflexivity|match goal with |- exists l, c_res (cl (finish_op cfg ?y RErr)) = _ => exact (finish_err_res cfg y) end]]]].
      unfold Released. cbn [mt pl ws rel_clear zero_slot set_mt set_job set_jobs set_pl mt_ring mt_buf done next alldone ihas ifill q pl_bp].
      split; [exact PD|]. split; [reflexivity|]. split; [reflexivity|]. split; [reflexivity|]. split; [exact Hjs|].
      split.
      * destruct (q (pl s)) as [k0|] eqn:Eq; auto. exfalso. destruct (k_que _ _ K k0 Eq) as (i & (X & Y) & _). lia.
      * intros t x Hx. destruct (active (w_pc x)) eqn:Ax; auto. exfalso. destruct (k_wrk _ _ K t x Hx Ax) as (i & (X & Y) & _). lia.
Qed.

(* E3 *)
Theorem err_path_reports cfg ops sched w s' :
  0 < c_chunk cfg -> ops_ok ops -> let s := run state (step cfg) sched (init cfg ops) in
  (c_pc (cl s) = CWait false \/ exists k, c_pc (cl s) = CRelAll false k) -> caller_step cfg w s = Some s' ->
  ((c_pc (cl s') = CWait false \/ c_pc (cl s') = CWaitZ false \/
    exists k', c_pc (cl s') = CRelAll false k' /\ (k' < length (jobs s))%nat /\ forall k, c_pc (cl s) = CRelAll false k -> (k < k')%nat) /\
   c_res (cl s') = c_res (cl s) /\ gh s' = gh s) \/
  (exists s1, Released s1 /\ c_res (cl s1) = c_res (cl s) /\ gh s1 = gh s /\ s' = finish_op cfg s1 RErr /\
              exists l, c_res (cl s') = c_res (cl s) ++ RErr :: l).
Proof. intros Hc Ho s. apply err_path_reports_inv. apply tinv_reachable; auto. Qed.

(* ------------------------------------------------------------------ *)
(* run level: from the moment ZSTDMT_flushProduced has taken the error path, under every continuation of the schedule, nothing is handed
   to the application and no call returns until ZSTD_compressStream2 returns an error code *)

Definition on_err_path (p : cpc) : bool :=
  match p with CWait false | CWaitZ false | CRelAll false _ => true | _ => false end.

Lemma on_err_path_awake p p' : awake p' = awake p -> on_err_path p' = on_err_path p.
Proof. destruct p, p'; cbn; intros E; try discriminate; try reflexivity; inversion E; reflexivity. Qed.

Lemma step_res_mono cfg t w s s' : TInv cfg s -> step cfg t w s = Some s' -> exists l, c_res (cl s') = c_res (cl s) ++ l.
Proof.
  intros TI H. destruct t as [|t]; cbn [step] in H.
  - destruct (relphase (c_pc (cl s))) eqn:Hrel.
    + apply (release_step_ir cfg w s s' TI Hrel H).
    + apply (cs_res _ _ _ (caller_step_cstep cfg w s s' TI Hrel H)).
  - destruct (worker_step_mono cfg t s s' H) as (_ & R & _). exists []. rewrite app_nil_r. exact R.
Qed.

Lemma run_res_mono cfg : 0 < c_chunk cfg -> forall sched s, TInv cfg s ->
  exists l, c_res (cl (run state (step cfg) sched s)) = c_res (cl s) ++ l.
Proof.
  intros Hc. induction sched as [|c r IH]; intros s TI; [exists []; rewrite app_nil_r; reflexivity|].
  cbn [run fold_left]. change (fold_left (exec state (step cfg)) r ?x) with (run state (step cfg) r x).
  unfold exec. destruct (step cfg (fst c) (snd c) s) as [s'|] eqn:E; [|apply IH; exact TI].
  destruct (step_res_mono cfg _ _ s s' TI E) as (l1 & R1).
  destruct (IH s' (tinv_step cfg _ _ s s' Hc TI E)) as (l2 & R2).
  exists (l1 ++ l2). rewrite R2, R1, app_assoc. reflexivity.
Qed.

Lemma err_path_step cfg t w s s' :
  TInv cfg s -> on_err_path (c_pc (cl s)) = true -> step cfg t w s = Some s' ->
  (on_err_path (c_pc (cl s')) = true /\ c_res (cl s') = c_res (cl s) /\ g_out (gh s') = g_out (gh s)) \/
  exists l, c_res (cl s') = c_res (cl s) ++ RErr :: l.
Proof.
  intros TI Hp H. destruct t as [|t]; cbn [step] in H.
  - assert (Hpc : c_pc (cl s) = CWait false \/ exists k, c_pc (cl s) = CRelAll false k).
    { destruct (c_pc (cl s)) as [| | | | | | | | | |i|i|i k| | |] eqn:Epc; try discriminate; try destruct i; try discriminate.
      - left; reflexivity.
      - unfold caller_step in H. rewrite Epc in H. discriminate.
      - right. exists k. reflexivity. }
    destruct (err_path_reports_inv cfg w s s' TI Hpc H) as [(Hp' & R & G)|(s1 & _ & _ & _ & _ & R)]; [left|right; exact R].
    split; [|split; [exact R|rewrite G; reflexivity]].
    destruct Hp' as [E|[E|(k' & E & _)]]; rewrite E; reflexivity.
  - left. destruct (worker_step_aux cfg t s s' H) as (_ & Ep & _). destruct (worker_step_mono cfg t s s' H) as (G & R & _).
    split; [rewrite (on_err_path_awake _ _ Ep); exact Hp|]. split; [exact R|rewrite G; reflexivity].
Qed.

Lemma err_path_run cfg : 0 < c_chunk cfg -> forall sched s, TInv cfg s -> on_err_path (c_pc (cl s)) = true ->
  let s2 := run state (step cfg) sched s in
  (on_err_path (c_pc (cl s2)) = true /\ c_res (cl s2) = c_res (cl s) /\ g_out (gh s2) = g_out (gh s)) \/
  exists l, c_res (cl s2) = c_res (cl s) ++ RErr :: l.
Proof.
  intros Hc. induction sched as [|c r IH]; intros s TI Hp; [left; auto|].
  cbn [run fold_left]. change (fold_left (exec state (step cfg)) r ?x) with (run state (step cfg) r x).
  unfold exec. destruct (step cfg (fst c) (snd c) s) as [s'|] eqn:E; [|apply IH; auto].
  pose proof (tinv_step cfg _ _ s s' Hc TI E) as TI'.
  destruct (err_path_step cfg _ _ s s' TI Hp E) as [(Hp' & R & G)|(l & R)].
  - destruct (IH s' TI' Hp') as [(A & B & C)|(l & B)]; [left|right].
    + split; [exact A|]. split; congruence.
    + exists l. rewrite B, R. reflexivity.
  - right. destruct (run_res_mono cfg Hc r s' TI') as (l2 & R2). exists (l ++ l2). rewrite R2, R. rewrite <- app_assoc. reflexivity.
Qed.

(* mt_error_propagates, safety form: sched1 leads to a state in which the caller is on the error path of ZSTDMT_flushProduced (by
   err_noticed: it has seen the error flag of the job at doneJobID); whatever sched2 follows, either the caller is still waiting for /
   releasing the jobs, no call has returned and no byte has been handed out since, or the first call result since is an error *)
Theorem mt_error_propagates cfg ops sched1 sched2 :
  0 < c_chunk cfg -> ops_ok ops ->
  let s := run state (step cfg) sched1 (init cfg ops) in
  let s2 := run state (step cfg) (sched1 ++ sched2) (init cfg ops) in
  on_err_path (c_pc (cl s)) = true ->
  (on_err_path (c_pc (cl s2)) = true /\ c_res (cl s2) = c_res (cl s) /\ g_out (gh s2) = g_out (gh s)) \/
  exists l, c_res (cl s2) = c_res (cl s) ++ RErr :: l.
Proof.
  intros Hc Ho s s2 Hp. unfold s2. rewrite run_app. apply err_path_run; auto. apply tinv_reachable; auto.
Qed.
