(* C12, termination: every step strictly decreases [mu]; [LenOK] is an invariant. *)
From Coq Require Import List Arith Bool Lia ZArith.
Import ListNotations.
From ZV.Conc Require Import Sched SchedLemmas PoolModel PoolLemmas PoolInvDefs PoolInv1 PoolInv2 PoolInv3.
From ZV.Conc Require Import PoolTermDefs.

Ltac len_upd f :=
  repeat match goal with
         | |- context [sumf f (?a ++ ?b)] => rewrite (sumf_app f a b)
         | |- context [sumf f (repeat ?x ?n)] => rewrite (sumf_repeat f x n)
         end.

(* poses  sumf phi (new list) + phi th <= sumf phi (old list) + cost + phi th' *)
Ltac mu_upd cfg P :=
  len_upd (phi cfg P);
  let Hs := fresh "Hs" in
  match goal with
  | Hth : nth_error ?ths ?t = Some ?th, Epc : t_pc ?th = _ |- context [sumf (phi cfg P) (upd ?t ?x (signal ?g wake_pop ?ww ?ths))] =>
    pose proof (sum_step_le (phi cfg P) ths _ t th x _ (sumf_signal_le (phi cfg P) g wake_pop ww ths 2 (phi_wake_pop cfg P))
                            (nth_error_signal g wake_pop ww ths t th Hth ltac:(not_asleep Epc))) as Hs
  | Hth : nth_error ?ths ?t = Some ?th, Epc : t_pc ?th = _ |- context [sumf (phi cfg P) (upd ?t ?x (broadcast wake_pop ?ths))] =>
    pose proof (sum_step_le (phi cfg P) ths _ t th x _ (sumf_broadcast_le (phi cfg P) wake_pop ths 2 (phi_wake_pop cfg P))
                            (nth_error_broadcast_pop ths t th Hth ltac:(not_asleep Epc))) as Hs
  | Hth : nth_error ?ths ?t = Some ?th, Epc : t_pc ?th = _ |- context [sumf (phi cfg P) (upd ?t ?x (broadcast wake_push ?ths))] =>
    pose proof (sum_step_le (phi cfg P) ths _ t th x _ (sumf_broadcast_le (phi cfg P) wake_push ths 2 (phi_wake_push cfg P))
                            (nth_error_broadcast_push ths t th Hth ltac:(not_asleep Epc))) as Hs
  | Hth : nth_error ?ths ?t = Some ?th, Epc : t_pc ?th = _ |- context [sumf (phi cfg P) (upd ?t ?x (wake_pushers ?b ?ww ?ths))] =>
    pose proof (sum_step_le (phi cfg P) ths _ t th x _ (sumf_wake_pushers_le (phi cfg P) b ww ths 2 (phi_wake_push cfg P)
                                                                               ltac:(pose proof (nth_error_Some_lt _ _ _ Hth); lia))
                            (nth_error_wake_pushers b ww ths t th Hth ltac:(not_asleep Epc))) as Hs
  | Hth : nth_error ?ths ?t = Some ?th |- context [sumf (phi cfg P) (upd ?t ?x ?ths)] =>
    pose proof (sumf_upd (phi cfg P) t x ths th Hth) as Hs
  end.

Lemma mu_step cfg P tid w s s' :
  ShapeOK cfg s -> RingOK s -> LenOK P s -> 2 * wT P <= wB P -> WOK cfg P ->
  step cfg tid w s = Some s' -> mu cfg P s' < mu cfg P s.
Proof.
  unfold mu, LenOK. intros (Hlen & HK & _ & _ & _) HRing HL HB HW H.
  assert (HLT : length (st s) <= wT P) by lia.
  step_inv H;
    try match goal with Hf : finish_op _ _ _ _ = _ |- _ =>
          let Hp := fresh "Hpend" in pose proof (proj1 (finish_pending _ _ _ _ _ _ Hf)) as Hp;
          let Hq := fresh "Hphi" in pose proof (proj1 (finish_phi cfg P _ _ _ _ _ Hf)) as Hq end;
    cbn [sp sg st pending set_owner set_shutdown set_busy set_limit set_cap_limit set_cap enqueue pop
         g_push g_pop g_drop g_refuse g_start g_done] in *;
    rewrite ?Hpend.
  all: try (mu_upd cfg P; unfold phi in *; cbn [t_pc set_pc t_ops t_posts t_worker t_cur] in *; rewrite ?Epc in *;
            unfold rest in *; cbn [t_pc set_pc t_ops t_posts t_worker t_cur] in *;
            rewrite ?sumf_app; cbn [sumf entW snd]; unfold entW; cbn [snd]; unfold WL2, FLW, FINAL in *; nia).
  - (* resize beyond the capacity: new workers *)
    mu_upd cfg P. change (phi cfg P new_worker) with 2.
    unfold phi in *; cbn [t_pc set_pc] in *; rewrite ?Epc in *. rewrite rest_set_pc in *. nia.
  - (* resize beyond the capacity, pthread_create fails: fewer new workers *)
    pose proof (created_le w (n - cap (sp s))) as Hcr. apply Nat.leb_gt in E0.
    mu_upd cfg P. change (phi cfg P new_worker) with 2.
    unfold phi in *; cbn [t_pc set_pc] in *; rewrite ?Epc in *. rewrite rest_set_pc in *. nia.
  - (* main joins the next client *)
    apply Nat.ltb_lt in E0. mu_upd cfg P. unfold phi in *; cbn [t_pc set_pc] in *; rewrite ?Epc in *. lia.
  - (* POOL_join joins the next worker *)
    apply Nat.ltb_lt in E0. mu_upd cfg P. unfold phi in *; cbn [t_pc set_pc] in *; rewrite ?Epc in *. lia.
  - (* pop *)
    apply orb_false_iff in E0. destruct E0 as [Eq _].
    destruct (ring_pop _ _ HRing Eq) as (e & r & Hl & He & _). rewrite Hl, He. cbn [tl sumf].
    mu_upd cfg P. unfold phi in *; cbn [t_pc t_cur] in *; rewrite ?Epc in *. unfold curW in *; cbn [t_cur] in *.
    specialize (HW (snd e)). unfold WL2 in *. change (entW P e) with (wJ P (snd e)). lia.
  - (* the broadcast after the pop *)
    mu_upd cfg P. unfold phi in *; cbn [t_pc set_pc] in *; rewrite ?Epc in *. unfold curW in *; cbn [t_cur set_pc] in *. nia.
  - (* the job starts *)
    mu_upd cfg P. unfold phi in Hs at 2; rewrite Epc in Hs. unfold curW in Hs; rewrite Ecur in Hs.
    unfold rest in Hphi; cbn [t_ops t_posts t_worker] in Hphi. unfold opsW in Hphi; cbn [sumf] in Hphi. lia.
Qed.

Lemma len_step cfg P tid w s s' : LenOK P s -> step cfg tid w s = Some s' -> LenOK P s'.
Proof.
  unfold LenOK. intros HL H.
  step_inv H;
    try match goal with Hf : finish_op _ _ _ _ = _ |- _ =>
          let Hq := fresh "Hthr" in pose proof (proj2 (finish_phi cfg P _ _ _ _ _ Hf)) as Hq end;
    cbn [sp sg st] in *;
    rewrite ?app_length, ?upd_length, ?repeat_length, ?broadcast_length, ?signal_length, ?wake_pushers_length;
    sum_upd thrW thrW_wake_push thrW_wake_pop;
    unfold thrW in *; cbn [t_pc set_pc t_ops t_posts t_worker t_cur new_worker sumf] in *; rewrite ?Epc in *;
    try (apply Nat.leb_gt in E0);
    try match goal with |- context [created ?ww ?d] => pose proof (created_le ww d) end; lia.
Qed.
