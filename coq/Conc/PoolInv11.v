(* Layer 11 (round 3, after baece04: POOL_resize also broadcasts queuePushCond): "a blocking post returns once capacity exists".
   A thread asleep in POOL_add still faces a full queue (and no shutdown), or a broadcast of queuePushCond is about to be
   delivered - WITHOUT the escape "or a worker is busy" of layer 9: the poster no longer depends on the end of a running job. *)
From Coq Require Import List Arith Bool Lia ZArith.
Import ListNotations.
From ZV.Conc Require Import Sched PoolModel PoolLemmas PoolInvDefs PoolInv1 PoolInv2 PoolInv3 PoolInv4 PoolInv5 PoolInv6 PoolInv7 PoolInv8 PoolInv9.
From ZV.Conc Require Import SchedLemmas PoolInv10 PoolSafety PoolTheorems PoolLive.

(* the threads whose coming operations include a broadcast of queuePushCond *)
Definition npb2 th := b2n (match t_pc th with WBcast1 | WBcast2 | FUnlock | FBcastPush | RBcast | RBcastPush => true | _ => false end).

Definition pa_ok (p : pool) (pb : nat) (x : thread) : bool :=
  match t_pc x with
  | PAsleep _ => (is_full p && negb (shutdown p)) || (1 <=? pb)
  | _ => true
  end.
Definition PostWake (s : state) := forall t x, nth_error (st s) t = Some x -> pa_ok (sp s) (sumf npb2 (st s)) x = true.

Lemma pa_wake_push p pb x : pa_ok p pb (wake_push x) = true.
Proof. unfold pa_ok, wake_push. destruct (t_pc x) eqn:E; cbn; rewrite ?E; auto. Qed.
Lemma pa_wake_pop p pb x : pa_ok p pb (wake_pop x) = pa_ok p pb x.
Proof. unfold pa_ok, wake_pop. destruct (t_pc x) eqn:E; cbn; rewrite ?E; auto. Qed.
Lemma woken_pa p pb x0 x : woken x0 x -> pa_ok p pb x0 = true -> pa_ok p pb x = true.
Proof. intros [->|[->| ->]] H; auto; [apply pa_wake_push|now rewrite pa_wake_pop]. Qed.

Lemma pa_transfer p pb p' pb' x :
  pa_ok p pb x = true ->
  (1 <= pb -> 1 <= pb') ->
  (is_full p = true -> shutdown p = false -> (is_full p' = true /\ shutdown p' = false) \/ 1 <= pb') ->
  pa_ok p' pb' x = true.
Proof.
  unfold pa_ok. intros H C1 C3. destruct (t_pc x); auto.
  apply orb_prop in H. destruct H as [H|H].
  - apply andb_prop in H. destruct H as [Hf Hs]. apply negb_true_iff in Hs.
    destruct (C3 Hf Hs) as [[Ha Hb]|Hx]; [rewrite Ha, Hb; reflexivity|].
    apply orb_true_iff. right. now apply Nat.leb_le.
  - apply Nat.leb_le in H. apply orb_true_iff. right. apply Nat.leb_le. auto.
Qed.

Lemma npb2_wake_push th : npb2 (wake_push th) = npb2 th.
Proof. unfold npb2, wake_push. destruct (t_pc th) eqn:E; cbn; rewrite ?E; auto. Qed.
Lemma npb2_wake_pop th : npb2 (wake_pop th) = npb2 th.
Proof. unfold npb2, wake_pop. destruct (t_pc th) eqn:E; cbn; rewrite ?E; auto. Qed.

Lemma finish_postwake cfg tid th g th' g' p pb : finish_op cfg tid th g = (th', g') -> npb2 th' = 0 /\ pa_ok p pb th' = true.
Proof.
  intros H. apply finish_op_cases in H.
  destruct H as [(Hw & k & j & r & _ & -> & _)|[(Hw & _ & -> & _)|(Hw & c & ops' & Hn & -> & _)]]; cbn; auto.
  apply next_client_pc in Hn. unfold npb2, pa_ok; cbn.
  destruct Hn as [(k & j & ->)|[->|[(n & ->)|[(_ & [[-> _]|[-> _]] & _)|(_ & -> & _)]]]]; auto.
Qed.

Lemma pa_after_bcast p pb tid th' ths t x :
  nth_error (upd tid th' (broadcast wake_push ths)) t = Some x -> pa_ok p pb th' = true -> pa_ok p pb x = true.
Proof.
  rewrite nth_error_upd. destruct ((t =? tid) && (tid <? length (broadcast wake_push ths))).
  - intros H; inversion H; subst; auto.
  - rewrite nth_error_broadcast. destruct (nth_error ths t); cbn; intros H; inversion H; subst. intros _. apply pa_wake_push.
Qed.

Ltac pa_side :=
  intros;
  first [ congruence
        | left; split; assumption
        | lia
        | cbn; lia
        | left; split; [assumption|assumption]
        | right; cbn; lia
        | right; lia ].

Lemma postwake_step cfg tid w s s' :
  c_fix cfg = true -> ShapeOK cfg s -> AssertOK s -> PostWake s -> step cfg tid w s = Some s' -> PostWake s'.
Proof.
  unfold PostWake. intros Hfix (_ & _ & Hlim & _) HA HP H t' x Hx.
  step_inv H; cbn [st sp] in *; rewrite ?Hfix in *; cbn [wake_pushers] in *; pose proof (HA _ _ Hth) as Hself;
    try (eapply pa_after_bcast; [exact Hx|reflexivity]);
    others Hx;
    try (eapply finish_postwake; eassumption);
    try (unfold pa_ok; cbn; reflexivity);
    try match goal with Hf : finish_op _ _ _ _ = _ |- _ => destruct (finish_postwake _ _ _ _ _ _ (sp s) 0 Hf) as [Hf1 _] end.
  all: try (match goal with
            | Hx0 : nth_error (st ?s0) ?t = Some ?x0, Hw : woken ?x0 ?y |- pa_ok ?p' ?pb' ?y = true =>
              apply (woken_pa _ _ _ _ Hw);
              sum_upd npb2 npb2_wake_push npb2_wake_pop;
              apply (pa_transfer (sp s0) (sumf npb2 (st s0)) _ _ _ (HP _ _ Hx0));
              unfold npb2 in *; cbn in Hs; rewrite ?Epc in Hs; cbn in Hs; pa_side
            end).
  - (* POOL_add enqueues: the queue was not full *)
    apply (woken_pa _ _ _ _ Hwoken). sum_upd npb2 npb2_wake_push npb2_wake_pop.
    apply (pa_transfer (sp s) (sumf npb2 (st s)) _ _ _ (HP _ _ Hx)); unfold npb2 in *; cbn in Hs; rewrite ?Epc in Hs; cbn in Hs; intros.
    + lia.
    + rewrite H in E0; rewrite ?E1 in E0; cbn in E0; discriminate.
  - (* POOL_add goes to sleep: it saw a full queue and no shutdown, under the mutex *)
    unfold assert_ok in Hself. rewrite Epc in Hself. unfold pa_ok. cbn [t_pc set_pc]. apply orb_true_iff. left. exact Hself.
Qed.


Lemma postwake_init progs n q : PostWake (init progs n q).
Proof.
  unfold PostWake. intros t x Hx. pose proof (init_threads progs n q) as HI.
  pose proof (Forall_nth_error _ _ _ _ HI Hx) as [_ [[_ Hp]| ->]]; unfold pa_ok.
  - destruct (t_pc x); auto; discriminate.
  - reflexivity.
Qed.

Definition LivePost (cfg : config) (s : state) : Prop := Live cfg s /\ PostWake s.

Lemma livepost_reachable bodies progs n q sched :
  progs <> [] -> 1 <= n -> LivePost (mkcfg true progs bodies) (reach true bodies progs n q sched).
Proof.
  intros Hp Hn. unfold reach. apply run_invariant.
  - intros s t w s' [HL HP] H. split; [eapply live_step; eauto|].
    apply (postwake_step (mkcfg true progs bodies) t w s s' eq_refl (sf_shape _ _ (lv_safe _ _ HL)) (sf_assert _ _ (lv_safe _ _ HL)) HP H).
  - split; [now apply live_init | apply postwake_init].
Qed.

(* "a blocking post returns once capacity exists": in every reachable state of the current code a thread asleep in POOL_add faces a
   full queue (and no shutdown), or some thread's coming operations include a broadcast of queuePushCond *)
Theorem blocked_add_has_reason bodies progs n q sched t x j :
  progs <> [] -> 1 <= n ->
  let s := reach true bodies progs n q sched in
  nth_error (st s) t = Some x -> t_pc x = PAsleep j ->
  (is_full (sp s) = true /\ shutdown (sp s) = false) \/ 1 <= sumf npb2 (st s).
Proof.
  intros Hp Hn s Hx Hpc. pose proof (proj2 (livepost_reachable bodies progs n q sched Hp Hn) t x Hx) as H.
  fold s in H. unfold pa_ok in H. rewrite Hpc in H. apply orb_prop in H. destruct H as [H|H].
  - apply andb_prop in H. destruct H as [Hf Hs]. apply negb_true_iff in Hs. auto.
  - right. now apply Nat.leb_le.
Qed.

(* the situation of the round-3 finding: pool(1 thread, hand-off), client 0 posts job 0 and blocks posting job 1 (the thread is busy),
   client 1 raises threadLimit to 2: the queue is no longer full, the poster is still asleep, and the pending broadcast (RBcast, then
   RBcastPush) is what wakes it - two steps of the resizer later it stands at its mutex_lock again *)
Definition rw_progs : list (list op) := [[OAdd 0; OAdd 1]; [OResize 2]].
Definition rw_sched : list (nat * nat) := [(0,0); (0,0); (0,0); (2,0); (2,0); (2,0); (0,0); (0,0); (1,0)].

Lemma resize_wakes_blocked_add :
  let s := reach true [[]; []] rw_progs 1 0 rw_sched in
  let s2 := reach true [[]; []] rw_progs 1 0 (rw_sched ++ [(1,0); (1,0)]) in
  t_pc (nth 0 (st s) dthread) = PAsleep 1 /\ is_full (sp s) = false /\ shutdown (sp s) = false /\ busy (sp s) = 1 /\ sumf npb2 (st s) = 1 /\
  t_pc (nth 0 (st s2) dthread) = PLock KAdd 1.
Proof. vm_compute. repeat split; reflexivity. Qed.
