(* C11: one step of the application thread never rewrites the description of a job that is in flight before and after the step; one step of
   a pool thread never touches a job other than its own.  (Transition form of "a slot is reused only after doneJobID has passed it".) *)
From Coq Require Import List NArith ZArith Bool Arith Lia.
Import ListNotations.
From ZV.Conc Require Import Sched SchedLemmas MtModel MtProofs.
From ZV.Conc Require Import MtRing MtRingC MtFrame.
Local Open Scope N_scope.

Definition keeps_jobs_in_flight (cfg : config) (s s' : state) : Prop :=
  forall i, inflight s i -> inflight s' i -> jcore (getj s' (slot cfg i)) = jcore (getj s (slot cfg i)).

Lemma gr_keeps cfg s s' : GR cfg s s' -> keeps_jobs_in_flight cfg s s'.
Proof.
  intros (_ & En & Ed & _ & J) i (A & B) (A' & B'). destruct J as [J|J]; [lia|].
  destruct (J (slot cfg i)) as [E|(E & E')]; auto. exfalso. revert E. apply slot_neq; lia.
Qed.

Lemma keeps_ext cfg s s0 s' : (forall k, getj s0 k = getj s k) -> done (mt s0) = done (mt s) -> next (mt s0) = next (mt s) ->
  keeps_jobs_in_flight cfg s0 s' -> keeps_jobs_in_flight cfg s s'.
Proof. intros Hg Hd Hn H i Hi Hi'. rewrite <- Hg. apply H; auto. unfold inflight in *. rewrite Hd, Hn. exact Hi. Qed.

Theorem caller_step_keeps_jobs cfg w s s' :
  TInv cfg s -> caller_step cfg w s = Some s' -> keeps_jobs_in_flight cfg s s'.
Proof.
  intros (K & A) H. pose proof (k_pc _ _ K) as P. unfold PcInv in P. destruct P as (PA & PB & PC & PD & PE & PF & PG).
  unfold caller_step in H. cbn zeta in H.
  destruct (c_pc (cl s)) eqn:Epc; try discriminate; cbn [awake relphase] in *.
  - destruct (_ <? _); inv_some H; apply gr_keeps; [apply gr_after_inuse|apply gr_scan_inuse].
  - destruct (overlap_win _ _); inv_some H; apply gr_keeps; [apply gr_same; [repeat split|reflexivity|reflexivity|reflexivity]|apply gr_move_prefix].
  - destruct (overlap_win _ _); inv_some H; apply gr_keeps; [apply gr_same; [repeat split|reflexivity|reflexivity|reflexivity]|apply gr_hand_out].
  - (* CGetBuf *)
    destruct (PB eq_refl) as ((Hlt & _) & _). inv_some H. intros i0 Hi _.
    rewrite getj_set_cpc, getj_set_mt. rewrite getj_set_job_neq by (intro E; symmetry in E; revert E; apply inflight_not_next; auto). reflexivity.
  - (* CTryAdd *)
    destruct (_ || _); inv_some H; intros i0 Hi _; reflexivity.
  - destruct (_ && _); inv_some H; apply gr_keeps; [apply gr_same; [repeat split|reflexivity|reflexivity|reflexivity]|apply gr_flush_body].
  - inv_some H. eapply keeps_ext with (s0 := set_pl _ s); [reflexivity..|]. apply gr_keeps. apply gr_complete_job.
  - unfold jslot in H. destruct (negb _); inv_some H.
    + intros i0 Hi _. reflexivity.
    + apply gr_keeps. eapply gr_trans; [|apply gr_wait_all].
      split; [repeat split|]. split; [reflexivity|]. split; [cbn; lia|]. split; [reflexivity|]. right. intros k. left. reflexivity.
  - (* CRelAll: no job in flight *)
    inv_some H. intros i0 (X & Y). lia.
  - (* CInitBuf: no job in flight *)
    intros i0 (X & Y). lia.
  - destruct (ldm (mt s)); inv_some H.
    + eapply keeps_ext with (s0 := set_sr _ (set_pl _ s)); [reflexivity..|]. apply gr_keeps. apply gr_finish_op.
    + eapply keeps_ext with (s0 := set_sr _ (set_pl _ s)); [reflexivity..|]. apply gr_keeps. apply gr_finish_op.
Qed.

(* a pool thread only writes the job description of the slot it holds *)
Theorem worker_step_own_job cfg t s s' w :
  worker_step cfg t s = Some s' -> nth_error (ws s) t = Some w -> forall k, k <> w_slot w -> getj s' k = getj s k.
Proof.
  intros H Hw k Hk. unfold worker_step in H. rewrite Hw in H.
  assert (Hwj : forall c k0 x, getj (wake_caller_job c k0 x) k = getj x k).
  { intros. unfold getj. destruct (wake_job_proj c k0 x) as (_ & E & _). rewrite E. reflexivity. }
  assert (Hwl : forall x, getj (wake_caller_ldm x) k = getj x k).
  { intros. unfold getj. destruct (wake_ldm_proj x) as (_ & E & _). rewrite E. reflexivity. }
  destruct (w_pc w); try discriminate;
    repeat match type of H with
           | (if ?b then _ else _) = _ => destruct b
           | match ?x with Some _ => _ | None => _ end = _ => destruct x
           end; inv_some H;
    repeat match goal with |- context[if ?b then _ else _] => destruct b end;
    change (getj (set_w t ?a ?x) k) with (getj x k);
    rewrite ?Hwj, ?Hwl; try reflexivity;
    try (change (getj (set_w _ _ ?x) k) with (getj x k); rewrite ?Hwj, ?Hwl);
    try (rewrite getj_set_job_neq by auto); reflexivity.
Qed.

(* for reachable states *)
Theorem reachable_caller_step_keeps_jobs cfg ops sched w s' :
  0 < c_chunk cfg -> ops_ok ops -> let s := run state (step cfg) sched (init cfg ops) in
  step cfg 0 w s = Some s' ->
  forall i, done (mt s) <= i < next (mt s) -> done (mt s') <= i < next (mt s') ->
  jcore (getj s' (slot cfg i)) = jcore (getj s (slot cfg i)).
Proof.
  intros Hc Ho s H i Hi Hi'. cbn [step] in H.
  exact (caller_step_keeps_jobs cfg w s s' (tinv_reachable cfg ops sched Hc Ho) H i Hi Hi').
Qed.

Theorem worker_step_writes_own_job cfg t w0 s s' w :
  step cfg (S t) w0 s = Some s' -> nth_error (ws s) t = Some w -> forall k, k <> w_slot w -> getj s' k = getj s k.
Proof. cbn [step]. apply worker_step_own_job. Qed.
