(* C11: every step of the application thread preserves the ring / ownership invariant (MtRing.KInv) together with an auxiliary
   invariant on the frame state (AInv); the combined invariant TInv holds in every state reachable under every schedule. *)
From Coq Require Import List NArith ZArith Bool Arith Lia.
Import ListNotations.
From ZV.Conc Require Import Sched SchedLemmas MtModel MtProofs.
From ZV.Conc Require Import MtRing.
Local Open Scope N_scope.
Ltac Zify.zify_post_hook ::= Z.div_mod_to_equations.

(* ------------------------------------------------------------------ *)
(* the part of KInv that does not depend on where the caller stands     *)

Record KB (cfg : config) (s : state) : Prop := mkKB {
  b_len : length (jobs s) = N.to_nat (Mr cfg);
  b_rng : done (mt s) <= next (mt s) /\ next (mt s) <= done (mt s) + Mr cfg;
  b_ids : forall i, inflight s i -> j_id (getj s (slot cfg i)) = i;
  b_wrk : forall t w, nth_error (ws s) t = Some w -> active (w_pc w) = true ->
            exists i, inflight s i /\ w_slot w = slot cfg i /\ Act cfg (w_pc w) (getj s (w_slot w));
  b_que : forall k, q (pl s) = Some k -> exists i, inflight s i /\ k = slot cfg i /\ Act cfg WGetCCtx (getj s k);
  b_uniq : forall t1 t2 w1 w2, nth_error (ws s) t1 = Some w1 -> nth_error (ws s) t2 = Some w2 ->
            active (w_pc w1) = true -> active (w_pc w2) = true -> w_slot w1 = w_slot w2 -> t1 = t2;
  b_uq : forall t w k, nth_error (ws s) t = Some w -> active (w_pc w) = true -> q (pl s) = Some k -> w_slot w <> k;
  b_own : forall i, inflight s i -> j_done (getj s (slot cfg i)) = false -> owned s (slot cfg i) }.

Lemma kinv_kb cfg s : KInv cfg s -> KB cfg s.
Proof. intros [H1 H2 H3 H4 H5 H6 H7 H8 H9]. constructor; auto. Qed.
Lemma kb_kinv cfg s : KB cfg s -> PcInv cfg s -> KInv cfg s.
Proof. intros [H1 H2 H3 H4 H5 H6 H7 H8] H9. constructor; auto. Qed.

Lemma kb_ext cfg s s' :
  done (mt s') = done (mt s) -> next (mt s') = next (mt s) -> jobs s' = jobs s -> ws s' = ws s -> q (pl s') = q (pl s) ->
  KB cfg s -> KB cfg s'.
Proof.
  intros Hd Hn Hj Hw Hq [H1 H2 H3 H4 H5 H6 H7 H8].
  constructor; unfold inflight, owned, getj in *; rewrite ?Hd, ?Hn, ?Hj, ?Hw, ?Hq; auto.
Qed.

(* ------------------------------------------------------------------ *)
(* auxiliary invariant: frame state vs. where the caller stands          *)

Definition ops_ok (ops : list cop) : Prop :=
  Forall (fun o => match o with OpInit fp => 0 < fp_target fp | _ => True end) ops.
Definition TgOk (s : state) : Prop := 0 < target (mt s) /\ 0 < fp_target (c_fp (cl s)) /\ ops_ok (c_ops (cl s)).
Definition qpc (p : cpc) : bool := match p with CDone | CInitBuf | CWait _ | CWaitZ _ | CRelAll _ _ => true | _ => false end.
Definition inpc (p : cpc) : bool := match p with CInUse _ | CLdm1 | CLdm1Z | CLdm2 | CLdm2Z => true | _ => false end.

Definition AInv (s : state) : Prop :=
  let m := mt s in let p := awake (c_pc (cl s)) in
  TgOk s /\
  (ended m = true -> c_in (cl s) = 0 \/ qpc p = true) /\
  (alldone m = true -> p = CDone \/ p = CInitBuf \/ (p = CFlush /\ ended m = true /\ ready m = false /\ ifill m = 0)) /\
  (inpc p = true -> 0 < c_in (cl s)) /\
  (p = CInitBuf -> alldone m = true) /\
  (ended m = true -> ifill m = 0).

Definition TInv (cfg : config) (s : state) : Prop := KInv cfg s /\ AInv s.

(* the invariant of the caller's unsynchronised code (no reference to its pc), outside the release phase *)
Record Mid (cfg : config) (s : state) : Prop := mkMid {
  m_kb : KB cfg s;
  m_n1 : forall k, (k < N.to_nat (Mr cfg))%nat -> (forall i, inflight s i -> slot cfg i <> k) ->
           Stale (getj s k) \/ (k = slot cfg (next (mt s)) /\ ready (mt s) = true);
  m_n2 : ready (mt s) = true -> alldone (mt s) = false -> PrepSlot cfg s;
  m_n3 : alldone (mt s) = true -> done (mt s) = next (mt s) /\ forall k, (k < N.to_nat (Mr cfg))%nat -> Stale (getj s k);
  m_tg : TgOk s;
  m_e1 : ended (mt s) = true -> ifill (mt s) = 0 }.

Definition Flow (s : state) : Prop :=
  (ended (mt s) = true -> c_in (cl s) = 0) /\
  (alldone (mt s) = true -> ended (mt s) = true /\ ready (mt s) = false /\ ifill (mt s) = 0).

Lemma mid_ext cfg s s' :
  done (mt s') = done (mt s) -> next (mt s') = next (mt s) -> ready (mt s') = ready (mt s) -> alldone (mt s') = alldone (mt s) ->
  ended (mt s') = ended (mt s) -> (ifill (mt s') = ifill (mt s) \/ ended (mt s') = false) ->
  target (mt s') = target (mt s) -> jobs s' = jobs s -> ws s' = ws s -> q (pl s') = q (pl s) ->
  c_fp (cl s') = c_fp (cl s) -> c_ops (cl s') = c_ops (cl s) ->
  Mid cfg s -> Mid cfg s'.
Proof.
  intros Hd Hn Hr Ha He Hi Ht Hj Hw Hq Hf Ho [K N1 N2 N3 T E1].
  constructor.
  - eapply kb_ext; eauto.
  - unfold inflight, getj in *. rewrite ?Hd, ?Hn, ?Hr, ?Hj. exact N1.
  - unfold PrepSlot, PrepSlot0, getj in *. rewrite ?Hd, ?Hn, ?Hr, ?Ha, ?He, ?Hj. exact N2.
  - unfold getj in *. rewrite ?Hd, ?Hn, ?Ha, ?Hj. exact N3.
  - unfold TgOk in *. rewrite Ht, Hf, Ho. exact T.
  - intros X. destruct Hi as [Hi|Hi]; [|congruence]. rewrite Hi. apply E1. congruence.
Qed.

Lemma mid_of_tinv cfg s :
  TInv cfg s -> relphase (awake (c_pc (cl s))) = false -> awake (c_pc (cl s)) <> CTryAdd -> awake (c_pc (cl s)) <> CGetBuf ->
  Mid cfg s.
Proof.
  intros (K & A) Hr H1 H2. pose proof (k_pc _ _ K) as P. unfold PcInv in P. destruct P as (_ & _ & C & _ & _ & F & _).
  destruct (C Hr) as (C1 & C2).
  constructor; auto.
  - apply kinv_kb; auto.
  - intros k Hk Hn. destruct (C1 k Hk Hn) as [?|(E & [?|[?|?]])]; auto; contradiction.
  - apply A.
  - apply A.
Qed.

Lemma flow_of_ainv s : AInv s -> qpc (awake (c_pc (cl s))) = false -> Flow s.
Proof.
  intros (_ & A1 & A2 & _) Hq. split.
  - intros He. destruct (A1 He) as [?|?]; auto. congruence.
  - intros Ha. destruct (A2 Ha) as [E|[E|(E & ?)]]; auto; rewrite E in Hq; discriminate.
Qed.

(* ------------------------------------------------------------------ *)
(* reaching a pc of the normal phase                                    *)

Definition plain (p : cpc) : bool :=
  match p with CInUse _ | CLdm1 | CLdm2 | CLdm1Z | CLdm2Z | CFlush | CFlushZ | CDone => true | _ => false end.

Lemma pcinv_plain cfg s :
  Mid cfg s -> plain (c_pc (cl s)) = true -> PcInv cfg s.
Proof.
  intros [K N1 N2 N3 T E1] Hp. unfold PcInv.
  assert (Ha : forall x, plain x = true -> plain (awake x) = true) by (destruct x; auto).
  apply Ha in Hp. clear Ha.
  refine (conj _ (conj _ (conj (fun Hrel => conj _ _) (conj _ (conj _ (conj _ _)))))).
  - intros E. rewrite E in Hp. discriminate.
  - intros E. rewrite E in Hp. discriminate.
  - intros k Hk Hn. destruct (N1 k Hk Hn) as [?|(? & ?)]; auto. right. split; auto. left; auto.
  - exact N2.
  - destruct (awake (c_pc (cl s))); auto; discriminate.
  - intros E. rewrite E in Hp. discriminate.
  - exact N3.
  - destruct (awake (c_pc (cl s))); auto; discriminate.
Qed.

Lemma tinv_plain cfg s :
  Mid cfg s -> Flow s -> plain (c_pc (cl s)) = true ->
  (inpc (c_pc (cl s)) = true -> 0 < c_in (cl s) /\ alldone (mt s) = false) ->
  TInv cfg s.
Proof.
  intros M (F1 & F2) Hp Hi. split.
  - apply kb_kinv; [apply M|apply pcinv_plain; auto].
  - unfold AInv. split; [apply M|]. split; [auto|]. split; [|split; [|split; [|exact (m_e1 _ _ M)]]].
    + intros Ha. destruct (F2 Ha) as (? & ? & ?).
      destruct (c_pc (cl s)) eqn:E; try discriminate; cbn; auto;
        try (destruct Hi as (_ & Hi); [reflexivity|congruence]).
    + intros Hin. apply Hi. destruct (c_pc (cl s)); auto.
    + intros E. destruct (c_pc (cl s)); discriminate.
Qed.

(* ------------------------------------------------------------------ *)
(* ring operations                                                      *)

Lemma kb_slot_inj cfg s i i' : KB cfg s -> inflight s i -> inflight s i' -> slot cfg i = slot cfg i' -> i = i'.
Proof.
  intros K (A1 & A2) (B1 & B2) E. destruct (b_rng _ _ K) as (R1 & R2).
  destruct (N.le_ge_cases i i').
  - apply (slot_inj cfg); auto; lia.
  - symmetry. apply (slot_inj cfg); auto; lia.
Qed.

(* KB only reads the job descriptions of the slots in flight *)
Lemma kb_ext2 cfg s s' :
  done (mt s') = done (mt s) -> next (mt s') = next (mt s) -> length (jobs s') = length (jobs s) -> ws s' = ws s -> q (pl s') = q (pl s) ->
  (forall i, inflight s i -> getj s' (slot cfg i) = getj s (slot cfg i)) ->
  KB cfg s -> KB cfg s'.
Proof.
  intros Hd Hn Hl Hw Hq Hj K.
  assert (Hin : forall i, inflight s' i <-> inflight s i) by (intros; unfold inflight; rewrite Hd, Hn; tauto).
  constructor.
  - rewrite Hl. apply K.
  - rewrite Hd, Hn. apply K.
  - intros i Hi. apply Hin in Hi. rewrite Hj by auto. apply K; auto.
  - intros t w H A. rewrite Hw in H. destruct (b_wrk _ _ K t w H A) as (i & Hi & E & Ac). exists i. split; [apply Hin; auto|]. split; auto.
    rewrite E, Hj by auto. rewrite <- E. exact Ac.
  - intros k H. rewrite Hq in H. destruct (b_que _ _ K k H) as (i & Hi & E & Ac). exists i. split; [apply Hin; auto|]. split; auto.
    rewrite E, Hj by auto. rewrite <- E. exact Ac.
  - rewrite Hw. apply K.
  - rewrite Hw, Hq. apply K.
  - intros i Hi Hdn. apply Hin in Hi. rewrite Hj in Hdn by auto. pose proof (b_own _ _ K i Hi Hdn) as O.
    unfold owned in *. rewrite Hw, Hq. exact O.
Qed.

(* a slot in flight is updated in place (flush bookkeeping): identity, completion flag and Act are kept *)
Lemma kb_upd_inflight cfg s i j' :
  KB cfg s -> inflight s i -> j_id j' = i -> j_done j' = j_done (getj s (slot cfg i)) ->
  (forall p, Act cfg p (getj s (slot cfg i)) -> Act cfg p j') ->
  KB cfg (set_job (slot cfg i) j' s).
Proof.
  intros K Hi Hid Hdn Hact.
  assert (Hl : (slot cfg i < length (jobs s))%nat) by (rewrite (b_len _ _ K); apply slot_lt).
  assert (Hg : forall k, getj (set_job (slot cfg i) j' s) k = if Nat.eq_dec (slot cfg i) k then j' else getj s k).
  { intros k. destruct (Nat.eq_dec (slot cfg i) k) as [<-|Hne]; [apply getj_set_job_eq; auto|apply getj_set_job_neq; auto]. }
  constructor; cbn [mt ws pl set_job set_jobs jobs].
  - rewrite upd_length. apply K.
  - apply K.
  - intros i' Hi'. change (j_id (getj (set_job (slot cfg i) j' s) (slot cfg i')) = i'). rewrite Hg.
    destruct (Nat.eq_dec _ _) as [E|E]; [|apply K; auto]. rewrite Hid. eapply kb_slot_inj; eauto.
  - intros t w H A. destruct (b_wrk _ _ K t w H A) as (i1 & Hi1 & E & Ac). exists i1. split; auto. split; auto.
    change (Act cfg (w_pc w) (getj (set_job (slot cfg i) j' s) (w_slot w))). rewrite Hg.
    destruct (Nat.eq_dec _ _) as [E1|E1]; auto. apply Hact. rewrite E1. exact Ac.
  - intros k H. destruct (b_que _ _ K k H) as (i1 & Hi1 & E & Ac). exists i1. split; auto. split; auto.
    change (Act cfg WGetCCtx (getj (set_job (slot cfg i) j' s) k)). rewrite Hg.
    destruct (Nat.eq_dec _ _) as [E1|E1]; auto. apply Hact. rewrite E1. exact Ac.
  - apply K.
  - apply K.
  - intros i' Hi' Hd'. change (j_done (getj (set_job (slot cfg i) j' s) (slot cfg i')) = false) in Hd'. rewrite Hg in Hd'.
    assert (O : owned s (slot cfg i')).
    { apply (b_own _ _ K); auto. destruct (Nat.eq_dec _ _) as [E|E]; auto. rewrite <- E. congruence. }
    exact O.
Qed.

Lemma mid_upd_inflight cfg s i j' :
  Mid cfg s -> inflight s i -> j_id j' = i -> j_done j' = j_done (getj s (slot cfg i)) ->
  (forall p, Act cfg p (getj s (slot cfg i)) -> Act cfg p j') ->
  Mid cfg (set_job (slot cfg i) j' s).
Proof.
  intros [K N1 N2 N3 T E1] Hi Hid Hdn Hact.
  assert (Hg : forall k, k <> slot cfg i -> getj (set_job (slot cfg i) j' s) k = getj s k).
  { intros k Hk. apply getj_set_job_neq; auto. }
  constructor.
  - apply kb_upd_inflight; auto.
  - intros k Hk Hn. cbn [mt set_job set_jobs]. rewrite Hg by (intro; subst; eapply Hn; eauto). apply N1; auto.
  - intros Hr Ha. specialize (N2 Hr Ha). pose proof N2 as ((Hlt & _) & _).
    unfold PrepSlot, PrepSlot0 in *. cbn [mt set_job set_jobs]. cbn zeta in *.
    rewrite Hg; auto. intro E. symmetry in E. revert E. apply inflight_not_next; auto.
  - intros Ha. destruct (N3 Ha) as (E & _). destruct Hi. cbn [mt set_job set_jobs] in *. lia.
  - exact T.
  - exact E1.
Qed.

(* the oldest job in flight leaves the ring: nobody owns it, its slot becomes stale *)
Lemma mid_complete cfg s j' m' :
  Mid cfg s -> done (mt s) < next (mt s) -> ~ owned s (slot cfg (done (mt s))) -> Stale j' ->
  done m' = done (mt s) + 1 -> next m' = next (mt s) -> ready m' = ready (mt s) -> alldone m' = alldone (mt s) -> target m' = target (mt s) ->
  ended m' = ended (mt s) -> ifill m' = ifill (mt s) ->
  Mid cfg (set_mt m' (set_job (slot cfg (done (mt s))) j' s)).
Proof.
  intros [K N1 N2 N3 T ME1] Hlt Hno Hst Hd Hn Hr Ha Ht Hen Hif.
  destruct (b_rng _ _ K) as (R1 & R2).
  set (kd := slot cfg (done (mt s))).
  assert (Hl : (kd < length (jobs s))%nat) by (rewrite (b_len _ _ K); apply slot_lt).
  assert (Hg : forall k, getj (set_mt m' (set_job kd j' s)) k = if Nat.eq_dec kd k then j' else getj s k).
  { intros k. change (getj (set_mt m' (set_job kd j' s)) k) with (getj (set_job kd j' s) k).
    destruct (Nat.eq_dec kd k) as [<-|Hne]; [apply getj_set_job_eq; auto|apply getj_set_job_neq; auto]. }
  assert (Hin : forall i, inflight (set_mt m' (set_job kd j' s)) i -> inflight s i /\ slot cfg i <> kd).
  { intros i (A & B). cbn [mt set_mt] in A, B. rewrite Hd in A. rewrite Hn in B. split; [split; lia|].
    intro E. symmetry in E. revert E. apply slot_neq; lia. }
  assert (Hdone : inflight s (done (mt s))) by (split; lia).
  constructor.
  - constructor; cbn [mt ws pl jobs set_mt set_job set_jobs].
    + rewrite upd_length. apply K.
    + rewrite Hd, Hn. lia.
    + intros i Hi. destruct (Hin i Hi) as (Hi0 & Hne). rewrite Hg. destruct (Nat.eq_dec _ _); [congruence|]. apply K; auto.
    + intros t w H A. destruct (b_wrk _ _ K t w H A) as (i & Hi & E & Ac).
      assert (i <> done (mt s)).
      { intro; subst i. apply Hno. right. exists t, w. auto. }
      exists i. split; [split; cbn [mt set_mt]; rewrite ?Hd, ?Hn; destruct Hi; lia|]. split; auto.
      change (Act cfg (w_pc w) (getj (set_mt m' (set_job kd j' s)) (w_slot w))). rewrite Hg. destruct (Nat.eq_dec _ _) as [E1|E1]; auto.
      exfalso. apply H0. eapply kb_slot_inj; eauto. unfold kd in E1. congruence.
    + intros k H. destruct (b_que _ _ K k H) as (i & Hi & E & Ac).
      assert (i <> done (mt s)).
      { intro; subst i. apply Hno. left. congruence. }
      exists i. split; [split; cbn [mt set_mt]; rewrite ?Hd, ?Hn; destruct Hi; lia|]. split; auto.
      change (Act cfg WGetCCtx (getj (set_mt m' (set_job kd j' s)) k)). rewrite Hg. destruct (Nat.eq_dec _ _) as [E1|E1]; auto.
      exfalso. apply H0. eapply kb_slot_inj; eauto. unfold kd in E1. congruence.
    + apply K.
    + apply K.
    + intros i Hi Hd'. destruct (Hin i Hi) as (Hi0 & Hne).
      change (j_done (getj (set_mt m' (set_job kd j' s)) (slot cfg i)) = false) in Hd'. rewrite Hg in Hd'.
      destruct (Nat.eq_dec _ _); [congruence|]. exact (b_own _ _ K i Hi0 Hd').
  - intros k Hk Hnin. cbn [mt set_mt]. rewrite Hn, Hr. rewrite Hg. destruct (Nat.eq_dec kd k) as [E|E]; [left; exact Hst|].
    apply N1; auto. intros i Hi Ek. destruct (N.eq_dec i (done (mt s))) as [->|Hne]; [unfold kd in E; congruence|].
    apply (Hnin i); auto. split; cbn [mt set_mt]; rewrite ?Hd, ?Hn; destruct Hi; lia.
  - cbn [mt set_mt]. rewrite Hr, Ha. intros Hrd Hal. specialize (N2 Hrd Hal). pose proof N2 as ((Hlt' & _) & _).
    unfold PrepSlot, PrepSlot0 in *. cbn [mt set_mt]. cbn zeta in *. rewrite Hd, Hn, Hen, Hg.
    destruct (Nat.eq_dec _ _) as [E|E].
    + exfalso. revert E. unfold kd. apply slot_neq; lia.
    + destruct N2 as ((? & ? & ? & ? & ?) & ? & ? & ?). repeat split; auto; lia.
  - cbn [mt set_mt]. rewrite Ha. intros Hal. destruct (N3 Hal) as (E & _). lia.
  - unfold TgOk in *. cbn [mt cl set_mt set_job set_jobs]. rewrite Ht. exact T.
  - cbn [mt set_mt]. rewrite Hen, Hif. exact ME1.
Qed.

(* ------------------------------------------------------------------ *)
(* ZSTDMT_createCompressionJob                                          *)

Lemma getj_set_cpc p s k : getj (set_cpc p s) k = getj s k. Proof. reflexivity. Qed.
Lemma getj_set_cl c s k : getj (set_cl c s) k = getj s k. Proof. reflexivity. Qed.
Lemma getj_set_mt m s k : getj (set_mt m s) k = getj s k. Proof. reflexivity. Qed.
Lemma getj_set_gh g s k : getj (set_gh g s) k = getj s k. Proof. reflexivity. Qed.
Lemma getj_set_pl x s k : getj (set_pl x s) k = getj s k. Proof. reflexivity. Qed.

Lemma tinv_at_prep cfg s s' :
  Mid cfg s -> ready (mt s) = false -> alldone (mt s) = false -> next (mt s) < done (mt s) + Mr cfg ->
  done (mt s') = done (mt s) -> next (mt s') = next (mt s) -> ready (mt s') = false -> alldone (mt s') = false ->
  target (mt s') = target (mt s) -> length (jobs s') = length (jobs s) -> ws s' = ws s -> q (pl s') = q (pl s) ->
  c_fp (cl s') = c_fp (cl s) -> c_ops (cl s') = c_ops (cl s) ->
  (forall k, k <> slot cfg (next (mt s)) -> getj s' k = getj s k) ->
  (ended (mt s') = true -> c_in (cl s') = 0) -> (ended (mt s') = true -> ifill (mt s') = 0) ->
  (c_pc (cl s') = CTryAdd /\ PrepSlot cfg s') \/
  (c_pc (cl s') = CGetBuf /\ PrepSlot0 cfg s' /\ j_done (getj s' (slot cfg (next (mt s')))) = true /\
   j_size (getj s' (slot cfg (next (mt s')))) = 0 /\ j_last (getj s' (slot cfg (next (mt s')))) = true /\ ended (mt s') = true) ->
  TInv cfg s'.
Proof.
  intros [K N1 N2 N3 T E1] Hr Ha Hlt Hd Hn Hr' Ha' Ht Hl Hw Hq Hf Ho Hg He He2 Hp.
  assert (Hin : forall i, inflight s' i <-> inflight s i) by (intros; unfold inflight; rewrite Hd, Hn; tauto).
  assert (Hpc : awake (c_pc (cl s')) = c_pc (cl s') /\ (c_pc (cl s') = CTryAdd \/ c_pc (cl s') = CGetBuf)).
  { destruct Hp as [(E & _)|(E & _)]; rewrite E; auto. }
  destruct Hpc as (Hw1 & Hpc).
  split.
  - apply kb_kinv.
    + eapply kb_ext2; eauto. intros i Hi. apply Hg. apply inflight_not_next; auto.
    + unfold PcInv. rewrite Hw1.
      refine (conj _ (conj _ (conj (fun Hrel => conj _ _) (conj _ (conj _ (conj _ _)))))).
      * intros E. destruct Hp as [(_ & P)|(E' & _)]; [exact P|congruence].
      * intros E. destruct Hp as [(E' & _)|(_ & P & P1 & P2 & P3 & P4)]; [congruence|exact (conj P (conj P1 (conj Hr' (conj P2 (conj P3 P4)))))].
      * intros k Hk Hnin. destruct (Nat.eq_dec k (slot cfg (next (mt s)))) as [E|E].
        -- right. rewrite Hn. split; auto. unfold prepared. rewrite Hw1. tauto.
        -- left. rewrite Hg by auto. destruct (N1 k Hk) as [?|(? & ?)]; auto; [|contradiction].
           intros i Hi. apply Hnin. apply Hin; auto.
      * intros E. congruence.
      * destruct Hpc as [E|E]; rewrite E; exact I.
      * intros E. destruct Hpc; congruence.
      * intros E. congruence.
      * destruct Hpc as [E|E]; rewrite E; exact I.
  - unfold AInv. rewrite Hw1. split; [unfold TgOk in *; rewrite Ht, Hf, Ho; exact T|].
    split; [auto|]. split; [intros; congruence|]. split; [|split; [|exact He2]].
    + destruct Hpc as [E|E]; rewrite E; discriminate.
    + intros E. destruct Hpc; congruence.
Qed.

Lemma prepare_job_frame cfg s n e :
  let s1 := prepare_job cfg s n e in
  done (mt s1) = done (mt s) /\ next (mt s1) = next (mt s) /\ ready (mt s1) = ready (mt s) /\ alldone (mt s1) = alldone (mt s) /\
  target (mt s1) = target (mt s) /\ length (jobs s1) = length (jobs s) /\ ws s1 = ws s /\ pl s1 = pl s /\ cl s1 = cl s /\
  (ended (mt s1) = true -> ended (mt s) = true \/ e = EEnd) /\ (e = EEnd -> ended (mt s1) = true) /\ ifill (mt s1) = 0 /\
  (forall k, k <> slot cfg (next (mt s)) -> getj s1 k = getj s k).
Proof.
  unfold prepare_job. cbn zeta.
  destruct e; cbn [andb]; try destruct (next (mt s) =? 0); cbn [mt jobs ws pl cl set_mt set_job set_jobs];
    repeat split; try (rewrite upd_length; reflexivity); auto; try discriminate;
    intros k Hk; unfold getj; cbn [jobs]; apply nth_upd_neq; auto.
Qed.

Lemma tinv_create_job cfg s e2 :
  Mid cfg s -> Flow s -> alldone (mt s) = false -> (e2 = EEnd -> c_in (cl s) = 0) ->
  (ready (mt s) = false -> ifill (mt s) = 0 -> e2 = EEnd) ->
  TInv cfg (create_job cfg s e2).
Proof.
  intros M F Ha He Hcond. unfold create_job.
  destruct (done (mt s) + mask cfg <? next (mt s)) eqn:Efull.
  { apply tinv_plain; auto; try discriminate. eapply mid_ext; [..|exact M]; first [reflexivity | left; reflexivity]. }
  apply N.ltb_ge in Efull. pose proof (mask_Mr cfg) as HM.
  assert (Hlt : next (mt s) < done (mt s) + Mr cfg) by lia.
  destruct (ready (mt s)) eqn:Er.
  { (* a job is already prepared *)
    pose proof (m_n2 _ _ M Er Ha) as P.
    assert (M' : Mid cfg (set_cpc CTryAdd s)) by (eapply mid_ext; [..|exact M]; first [reflexivity | left; reflexivity]).
    split.
    - apply kb_kinv; [apply M'|]. destruct M' as [K N1 N2 N3 T ME1]. unfold PcInv. cbn [cl set_cpc set_cl cl_pc c_pc awake mt].
      refine (conj _ (conj _ (conj (fun Hrel => conj _ _) (conj _ (conj _ (conj _ _)))))); try discriminate; auto.
      all: try (intros E; congruence).
      all: try (intros k Hk Hn; destruct (N1 k Hk Hn) as [?|(? & ?)]; auto; right; split; auto; left; auto).
    - destruct F as (F1 & F2). unfold AInv. cbn [cl set_cpc set_cl cl_pc c_pc awake mt c_in c_fp c_ops].
      split; [apply M|]. split; [auto|]. split; [congruence|]. split; [discriminate|]. split; [discriminate|exact (m_e1 _ _ M)]. }
  (* prepare a new job *)
  pose proof (prepare_job_frame cfg s (ifill (mt s)) e2) as Hf. cbn zeta in Hf.
  set (s1 := prepare_job cfg s (ifill (mt s)) e2) in *.
  destruct Hf as (Hd & Hn & Hr & Hal & Ht & Hl & Hw & Hp & Hc & Hen & Hen2 & Hif & Hg).
  assert (Hk : (slot cfg (next (mt s)) < length (jobs s))%nat) by (rewrite (b_len _ _ (m_kb _ _ M)); apply slot_lt).
  assert (Hnew : getj s1 (slot cfg (next (mt s))) =
     mkJob (next (mt s)) (istart (mt s)) (ifill (mt s)) (pstart (mt s)) (psize (mt s)) 0 0 false false (next (mt s) =? 0)
           (match e2 with EEnd => true | _ => false end)
           (cksum (mt s) && (match e2 with EEnd => true | _ => false end) && (0 <? next (mt s))) 0 false (iabs (mt s)) (lap (mt s))).
  { unfold s1, prepare_job. cbn zeta. apply getj_set_job_eq. exact Hk. }
  assert (Hend : ended (mt s1) = true -> c_in (cl s1) = 0).
  { intros E. rewrite Hc. destruct (Hen E) as [E1|E1]; [apply F; auto|auto]. }
  destruct ((ifill (mt s) =? 0) && (0 <? next (mt s))) eqn:Elast.
  - (* ZSTDMT_writeLastEmptyBlock *)
    eapply (tinv_at_prep cfg s); eauto; cbn [mt jobs ws pl cl set_cpc set_cl set_job set_jobs cl_pc c_fp c_ops c_in c_pc]; try congruence.
    all: try (rewrite upd_length; exact Hl).
    all: try (intros k Hk'; rewrite getj_set_cpc, getj_set_job_neq by auto; apply Hg; auto).
    all: try (right).
    apply andb_prop in Elast. destruct Elast as (E0 & _). apply N.eqb_eq in E0.
    assert (Ee : e2 = EEnd) by (apply Hcond; auto).
    split; [reflexivity|]. unfold PrepSlot0. cbn [mt set_cpc set_cl set_job set_jobs]. cbn zeta.
    rewrite Hn, Hd. rewrite getj_set_cpc, getj_set_job_eq by (rewrite Hl; exact Hk). rewrite Hnew. rewrite Ee. cbn. repeat split; auto.
    all: try (apply Hen2; exact Ee).
  - eapply (tinv_at_prep cfg s); eauto; cbn [mt jobs ws pl cl set_cpc set_cl cl_pc c_fp c_ops c_in c_pc]; try congruence.
    left. split; [reflexivity|]. unfold PrepSlot, PrepSlot0. cbn [mt set_cpc set_cl]. cbn zeta.
    rewrite Hn, Hd. change (getj (set_cpc CTryAdd s1) (slot cfg (next (mt s)))) with (getj s1 (slot cfg (next (mt s)))).
    rewrite Hnew. cbn. repeat split; auto.
    + intros E0. apply N.eqb_eq in E0. rewrite E0 in Elast. cbn in Elast.
      destruct (0 <? next (mt s)); [discriminate|]. rewrite andb_false_r. reflexivity.
    + intros El. apply Hen2. destruct e2; auto; discriminate.
Qed.

(* ------------------------------------------------------------------ *)
(* the input side of ZSTDMT_compressStream_generic                      *)

Ltac mid_same M := eapply mid_ext; [..|exact M]; first [reflexivity | left; reflexivity | right; assumption].

Lemma tinv_create_phase cfg s : Mid cfg s -> Flow s -> TInv cfg (create_phase cfg s).
Proof.
  intros M F. unfold create_phase.
  set (e2 := match c_e2 (cl s) with EEnd => if 0 <? c_in (cl s) then EFlush else EEnd | e => e end).
  set (s' := set_cl (cl_io e2 (c_fwd (cl s)) (c_in (cl s)) (c_out (cl s)) (cl s)) s).
  assert (M' : Mid cfg s') by mid_same M.
  assert (F' : Flow s') by exact F.
  assert (He : e2 = EEnd -> c_in (cl s') = 0).
  { unfold e2. cbn. destruct (c_e2 (cl s)); try discriminate. destruct (0 <? c_in (cl s)) eqn:E; [discriminate|]. apply N.ltb_ge in E. lia. }
  match goal with |- TInv cfg (if ?b then _ else _) => destruct b eqn:Eb end.
  - destruct (m_tg _ _ M) as (T & _).
    assert (Ht0 : target (mt s) <=? 0 = false) by (apply N.leb_gt; lia).
    apply tinv_create_job; auto.
    + destruct (alldone (mt s)) eqn:Ea; auto. exfalso.
      destruct F as (_ & F2). destruct (F2 Ea) as (E1 & E2 & E3).
      rewrite E1, E2, E3 in Eb. cbn in Eb. rewrite Ht0 in Eb.
      rewrite !andb_false_r in Eb. discriminate.
    + (* nothing buffered and no prepared job: only ZSTD_e_end (frame not yet ended) leads here *)
      change (ready (mt s) = false -> ifill (mt s) = 0 -> e2 = EEnd). intros Er Ei.
      change (mt s') with (mt s) in Eb. rewrite Er, Ei, Ht0 in Eb. cbn in Eb. rewrite andb_false_r in Eb. cbn in Eb.
      destruct e2; cbn in Eb; auto; discriminate.
  - apply tinv_plain; auto; try discriminate. mid_same M'.
Qed.

Lemma tinv_fill_phase cfg s : Mid cfg s -> ended (mt s) = false -> alldone (mt s) = false -> TInv cfg (fill_phase cfg s).
Proof.
  intros M He Ha. unfold fill_phase.
  assert (F : Flow s) by (split; intros; congruence).
  destruct (ihas (mt s)); [|apply tinv_create_phase; auto].
  destruct (sync_point cfg (mt s) (c_in (cl s))) as [toLoad fl].
  apply tinv_create_phase.
  - eapply mid_ext; [..|exact M]; first [reflexivity | right; exact He].
  - split; cbn [mt cl set_mt set_cl mt_buf ended alldone]; intros; congruence.
Qed.

Lemma tinv_hand_out cfg s : Mid cfg s -> ended (mt s) = false -> alldone (mt s) = false -> TInv cfg (hand_out cfg s).
Proof. intros M He Ha. unfold hand_out. apply tinv_fill_phase; auto. mid_same M. Qed.

Lemma tinv_after_wrap cfg s :
  Mid cfg s -> ended (mt s) = false -> alldone (mt s) = false -> 0 < c_in (cl s) -> TInv cfg (after_wrap cfg s).
Proof.
  intros M He Ha Hi. unfold after_wrap.
  destruct (overlap _ _); [apply tinv_fill_phase; auto|].
  destruct (ldm (mt s)); [|apply tinv_hand_out; auto].
  apply tinv_plain; auto; try reflexivity; [mid_same M|split; cbn; intros; congruence].
Qed.

Lemma tinv_move_prefix cfg s :
  Mid cfg s -> ended (mt s) = false -> alldone (mt s) = false -> 0 < c_in (cl s) -> TInv cfg (move_prefix cfg s).
Proof. intros M He Ha Hi. unfold move_prefix. apply tinv_after_wrap; auto. mid_same M. Qed.

Lemma tinv_after_inuse cfg s u :
  Mid cfg s -> ended (mt s) = false -> alldone (mt s) = false -> 0 < c_in (cl s) -> TInv cfg (after_inuse cfg s u).
Proof.
  intros M He Ha Hi. unfold after_inuse.
  assert (M' : Mid cfg (set_cl (cl_use u (cl s)) s)) by mid_same M.
  cbn [mt set_cl].
  destruct (rcap (mt s) - rpos (mt s) <? target (mt s)); [|apply tinv_after_wrap; auto].
  destruct (overlap _ _); [apply tinv_fill_phase; auto|].
  destruct (ldm (mt s)); [|apply tinv_move_prefix; auto].
  apply tinv_plain; auto; try reflexivity; [mid_same M'|split; cbn; intros; congruence].
Qed.

Lemma tinv_scan_inuse cfg s j :
  Mid cfg s -> ended (mt s) = false -> alldone (mt s) = false -> 0 < c_in (cl s) -> TInv cfg (scan_inuse cfg s j).
Proof.
  intros M He Ha Hi. unfold scan_inuse.
  destruct (j <? next (mt s)); [|apply tinv_after_inuse; auto].
  apply tinv_plain; auto; try reflexivity; [mid_same M|split; cbn; intros; congruence].
Qed.

Lemma tinv_gen_body cfg s : Mid cfg s -> Flow s -> TInv cfg (gen_body cfg s).
Proof.
  intros M F. unfold gen_body.
  destruct (negb (ready (mt s)) && (0 <? c_in (cl s))) eqn:E; [|apply tinv_create_phase; auto].
  apply andb_prop in E. destruct E as (_ & E). apply N.ltb_lt in E.
  assert (He : ended (mt s) = false).
  { destruct (ended (mt s)) eqn:X; auto. destruct F as (F1 & _). specialize (F1 X). lia. }
  assert (Ha : alldone (mt s) = false).
  { destruct (alldone (mt s)) eqn:X; auto. destruct F as (F1 & F2). destruct (F2 X) as (X1 & _). specialize (F1 X1). lia. }
  destruct (negb (ihas (mt s))); [apply tinv_scan_inuse|apply tinv_fill_phase]; auto.
Qed.

(* ------------------------------------------------------------------ *)
(* starting the next call; ZSTDMT_waitForAllJobsCompleted / ZSTDMT_releaseAllJobResources / ZSTDMT_initCStream_internal *)

Lemma mid_ext' cfg s s' :
  done (mt s') = done (mt s) -> next (mt s') = next (mt s) -> ready (mt s') = ready (mt s) -> alldone (mt s') = alldone (mt s) ->
  ended (mt s') = ended (mt s) -> ifill (mt s') = ifill (mt s) ->
  jobs s' = jobs s -> ws s' = ws s -> q (pl s') = q (pl s) -> TgOk s' ->
  Mid cfg s -> Mid cfg s'.
Proof.
  intros Hd Hn Hr Ha He Hi Hj Hw Hq T' [K N1 N2 N3 T E1].
  constructor; auto.
  - eapply kb_ext; eauto.
  - unfold inflight, getj in *. rewrite ?Hd, ?Hn, ?Hr, ?Hj. exact N1.
  - unfold PrepSlot, PrepSlot0, getj in *. rewrite ?Hd, ?Hn, ?Hr, ?Ha, ?He, ?Hj. exact N2.
  - unfold getj in *. rewrite ?Hd, ?Hn, ?Ha, ?Hj. exact N3.
  - rewrite He, Hi. exact E1.
Qed.

Lemma stale_job0 : Stale job0. Proof. repeat split. Qed.

Lemma tinv_done cfg s : Mid cfg s -> TInv cfg (stop_ops s).
Proof.
  intros M.
  assert (M' : Mid cfg (stop_ops s)).
  { eapply mid_ext'; [..|exact M]; try reflexivity. destruct (m_tg _ _ M) as (T1 & T2 & _). repeat split; auto. constructor. }
  split.
  - apply kb_kinv; [apply M'|]. apply pcinv_plain; auto.
  - unfold AInv. cbn. split; [apply M'|]. split; [auto|]. split; [auto|]. split; [discriminate|]. split; [discriminate|exact (m_e1 _ _ M)].
Qed.

Lemma tinv_init_params cfg s : Mid cfg s -> alldone (mt s) = true -> TInv cfg (init_params s).
Proof.
  intros [K N1 N2 N3 (T1 & T2 & T3) ME1] Ha. destruct (N3 Ha) as (Hdn & Hst).
  unfold init_params. split.
  - apply kb_kinv; [eapply kb_ext; [..|exact K]; reflexivity|].
    unfold PcInv. cbn [cl mt set_cpc set_cl set_mt cl_pc c_pc awake done next ready alldone relphase].
    refine (conj _ (conj _ (conj (fun Hrel => conj _ _) (conj _ (conj _ (conj _ _)))))); try discriminate; auto.
    all: try (intros k Hk _; left; apply Hst; auto).
    all: try (intros _ E; congruence).
  - unfold AInv, TgOk. cbn. split; [repeat split; auto|]. split; [auto|]. split; [auto|]. split; [discriminate|]. split; [auto|exact ME1].
Qed.

(* the release phase: every job has been waited for, the table is being cleared *)
Lemma tinv_relphase cfg s p :
  KB cfg s -> alldone (mt s) = false -> TgOk s -> (ended (mt s) = true -> ifill (mt s) = 0) ->
  match p with CWait _ => done (mt s) < next (mt s)
             | CRelAll _ k => done (mt s) = next (mt s) /\ forall k', (k' < k)%nat -> getj s k' = job0
             | _ => False end ->
  TInv cfg (set_cpc p s).
Proof.
  intros K Ha T HE1 Hp. split.
  - apply kb_kinv; [eapply kb_ext; [..|exact K]; reflexivity|].
    unfold PcInv. cbn [cl mt set_cpc set_cl cl_pc c_pc].
    destruct p; try contradiction; cbn [awake relphase];
      (refine (conj _ (conj _ (conj (fun Hrel => conj _ _) (conj _ (conj _ (conj _ _)))))); try discriminate; try tauto; try congruence).
  - unfold AInv. cbn [cl mt set_cpc set_cl cl_pc c_pc c_in].
    split; [exact T|]. destruct p; try contradiction; cbn; (split; [auto|]); (split; [congruence|]); (split; [discriminate|]); (split; [discriminate|exact HE1]).
Qed.

Lemma kb_zero_slot cfg s k : KB cfg s -> done (mt s) = next (mt s) -> KB cfg (zero_slot k s).
Proof.
  intros K E. eapply kb_ext2; [..|exact K]; try reflexivity.
  - cbn. apply upd_length.
  - intros i (A & B). lia.
Qed.

Lemma tinv_rel_scan_k cfg i kd :
  (forall s1, Mid cfg s1 -> alldone (mt s1) = true -> TInv cfg (kd s1)) ->
  forall fuel s k,
  KB cfg s -> done (mt s) = next (mt s) -> alldone (mt s) = false -> TgOk s -> (ended (mt s) = true -> ifill (mt s) = 0) ->
  (forall k', (k' < k)%nat -> getj s k' = job0) -> (length (jobs s) <= k + fuel)%nat ->
  TInv cfg (rel_scan_k i kd s k fuel).
Proof.
  intros Hkd.
  assert (Hend : forall s k, KB cfg s -> done (mt s) = next (mt s) -> TgOk s ->
                 (forall k', (k' < k)%nat -> getj s k' = job0) -> (length (jobs s) <= k)%nat -> TInv cfg (kd (rel_clear s))).
  { intros s k K E T Hz Hl. apply Hkd; [|reflexivity].
    assert (Hall : forall k', (k' < N.to_nat (Mr cfg))%nat -> Stale (getj (rel_clear s) k')).
    { intros k' Hk'. change (getj (rel_clear s) k') with (getj s k'). rewrite Hz; [apply stale_job0|]. rewrite <- (b_len _ _ K) in Hk'. lia. }
    constructor.
    - eapply kb_ext; [..|exact K]; reflexivity.
    - intros k' Hk' _. left. auto.
    - cbn. intros _ X. discriminate.
    - intros _. split; auto.
    - exact T.
    - intros _. reflexivity. }
  induction fuel as [|f IH]; intros s k K E Ha T HE1 Hz Hl; cbn [rel_scan_k].
  - eapply Hend; eauto. lia.
  - destruct (Nat.ltb k (length (jobs s))) eqn:Ek.
    + apply Nat.ltb_lt in Ek. destruct (j_dst (getj s k)).
      * apply tinv_relphase; auto.
      * apply IH; auto.
        -- apply kb_zero_slot; auto.
        -- intros k' Hk'. destruct (Nat.eq_dec k' k) as [->|Hne].
           ++ apply getj_set_job_eq; auto.
           ++ unfold zero_slot. rewrite getj_set_job_neq by auto. apply Hz. lia.
        -- cbn. rewrite upd_length. lia.
    + apply Nat.ltb_ge in Ek. eapply Hend; eauto.
Qed.

Definition head_cs (ops : list cop) : bool := match ops with OpCS _ _ _ :: _ => true | _ => false end.
Definition Flow0 (s : state) : Prop :=
  alldone (mt s) = true -> ended (mt s) = true -> ready (mt s) = false /\ ifill (mt s) = 0.

Lemma tinv_start_ops cfg ops : forall s,
  Mid cfg s -> ops_ok ops -> (head_cs ops = true -> Flow0 s) -> TInv cfg (start_ops cfg s ops).
Proof.
  induction ops as [|o r IH]; intros s M Ho Hf; cbn [start_ops]; [apply tinv_done; auto|].
  inversion Ho as [|? ? Ho1 Ho2]; subst.
  destruct (m_tg _ _ M) as (T1 & T2 & T3).
  destruct o as [fp|e i o].
  - (* ZSTDMT_initCStream_internal *)
    set (s1 := set_cl _ s).
    assert (T' : TgOk s1) by (repeat split; auto).
    assert (M1 : Mid cfg s1) by (eapply mid_ext'; [..|exact M]; auto; reflexivity).
    destruct (alldone (mt s)) eqn:Ea; [apply tinv_init_params; auto|].
    destruct (done (mt s) <? next (mt s)) eqn:El.
    + apply N.ltb_lt in El. apply tinv_relphase; auto; [apply M1|exact (m_e1 _ _ M)].
    + apply N.ltb_ge in El. destruct (b_rng _ _ (m_kb _ _ M)) as (R1 & _).
      apply tinv_rel_scan_k; auto.
      * intros; apply tinv_init_params; auto.
      * apply M1.
      * change (done (mt s) = next (mt s)). lia.
      * exact (m_e1 _ _ M).
      * intros k' Hk'. lia.
  - (* ZSTD_compressStream2 *)
    set (s1 := set_cl _ s).
    assert (T' : TgOk s1) by (repeat split; auto).
    assert (M1 : Mid cfg s1) by (eapply mid_ext'; [..|exact M]; auto; reflexivity).
    destruct (alldone (mt s) && negb (ended (mt s))) eqn:E1; [apply tinv_done; auto|].
    destruct (ended (mt s) && (0 <? i) && negb (is_continue e)) eqn:E2; [apply tinv_done; auto|].
    destruct (ended (mt s) && is_continue e) eqn:E3.
    + assert (M2 : Mid cfg (record_res RErr s1)) by (eapply mid_ext'; [..|exact M1]; auto; reflexivity).
      destruct r as [|[fp|e' i' o'] r']; try (apply tinv_done; exact M2); apply IH; auto; discriminate.
    + apply tinv_gen_body; auto. specialize (Hf eq_refl). split.
      * change (ended (mt s) = true -> i = 0). intros He. rewrite He in *. cbn in E2, E3. rewrite E3 in E2. cbn in E2.
        rewrite andb_true_r in E2. apply N.ltb_ge in E2. lia.
      * change (alldone (mt s) = true -> ended (mt s) = true /\ ready (mt s) = false /\ ifill (mt s) = 0).
        intros Ha. rewrite Ha in E1. cbn in E1. destruct (ended (mt s)) eqn:He; [|discriminate].
        split; auto.
Qed.

Lemma tinv_finish_ok cfg s v : Mid cfg s -> Flow0 s -> TInv cfg (finish_op cfg s (ROk v)).
Proof.
  intros M F. unfold finish_op. cbn [ops_after]. apply tinv_start_ops.
  - eapply mid_ext'; [..|exact M]; try reflexivity. exact (m_tg _ _ M).
  - apply (m_tg _ _ M).
  - intros _. exact F.
Qed.

Lemma tinv_finish_err cfg s : Mid cfg s -> TInv cfg (finish_op cfg s RErr).
Proof.
  intros M. unfold finish_op.
  assert (M' : Mid cfg (record_res RErr s)) by (eapply mid_ext'; [..|exact M]; try reflexivity; exact (m_tg _ _ M)).
  destruct (m_tg _ _ M) as (_ & _ & T3).
  cbn [ops_after record_res cl set_cl c_ops].
  destruct (c_ops (cl s)) as [|[fp|e i o] r] eqn:Eo.
  - apply tinv_start_ops; auto; discriminate.
  - apply tinv_start_ops; auto; discriminate.
  - apply tinv_start_ops; auto; [constructor|discriminate].
Qed.

Lemma tinv_rel_scan cfg i s k fuel :
  KB cfg s -> done (mt s) = next (mt s) -> alldone (mt s) = false -> TgOk s -> (ended (mt s) = true -> ifill (mt s) = 0) ->
  (forall k', (k' < k)%nat -> getj s k' = job0) -> (length (jobs s) <= k + fuel)%nat ->
  TInv cfg (rel_scan cfg i s k fuel).
Proof.
  intros. unfold rel_scan. apply tinv_rel_scan_k; auto.
  intros s1 M1 A1. destruct i; [apply tinv_init_params; auto|apply tinv_finish_err; auto].
Qed.

Lemma tinv_wait_all cfg i s :
  KB cfg s -> alldone (mt s) = false -> TgOk s -> (ended (mt s) = true -> ifill (mt s) = 0) -> TInv cfg (wait_all cfg i s).
Proof.
  intros K Ha T HE1. unfold wait_all. destruct (done (mt s) <? next (mt s)) eqn:E.
  - apply N.ltb_lt in E. apply tinv_relphase; auto.
  - apply N.ltb_ge in E. destruct (b_rng _ _ K). apply tinv_rel_scan; auto; [lia|intros; lia].
Qed.

(* ------------------------------------------------------------------ *)
(* the output side: ZSTDMT_flushProduced and the return to ZSTD_compressStream2 *)

Lemma flow_flow0 s : Flow s -> Flow0 s.
Proof. intros (_ & F2) Ha _. destruct (F2 Ha) as (_ & ? & ?). auto. Qed.

Lemma tinv_gen_again cfg s : Mid cfg s -> Flow s -> TInv cfg (gen_again cfg s).
Proof.
  intros M F. unfold gen_again.
  set (s1 := set_cl _ s).
  assert (M1 : Mid cfg s1) by mid_same M.
  assert (F1 : Flow s1) by exact F.
  destruct (ended (mt s) && is_continue (c_e (cl s))); [apply tinv_finish_err; auto|apply tinv_gen_body; auto].
Qed.

Lemma tinv_gen_return cfg s v : Mid cfg s -> Flow s -> TInv cfg (gen_return cfg s v).
Proof.
  intros M F. unfold gen_return.
  repeat match goal with |- TInv cfg (if ?b then _ else _) => destruct b end;
    first [apply tinv_finish_ok; auto; apply flow_flow0; auto|apply tinv_gen_again; auto].
Qed.

Lemma tinv_flush_return cfg s : Mid cfg s -> Flow s -> TInv cfg (flush_return cfg s).
Proof.
  intros M F. unfold flush_return, flush_tail.
  destruct (done (mt s) <? next (mt s)) eqn:E1; [apply tinv_gen_return; auto|].
  destruct (ready (mt s)) eqn:E2; [apply tinv_gen_return; auto|].
  destruct (0 <? ifill (mt s)) eqn:E3; [apply tinv_gen_return; auto|].
  apply N.ltb_ge in E1. apply N.ltb_ge in E3.
  destruct M as [K N1 N2 N3 T ME1]. destruct (b_rng _ _ K) as (R1 & _).
  assert (Hall : forall k, (k < N.to_nat (Mr cfg))%nat -> Stale (getj s k)).
  { intros k Hk. destruct (N1 k Hk) as [?|(_ & ?)]; auto; [|congruence]. intros i (A & B). lia. }
  apply tinv_gen_return.
  - constructor.
    + eapply kb_ext; [..|exact K]; reflexivity.
    + intros k Hk _. left. apply Hall; auto.
    + cbn. intros X. congruence.
    + cbn. intros _. split; [lia|exact Hall].
    + exact T.
    + exact ME1.
  - destruct F as (F1 & F2). split; cbn; auto; intros X; repeat split; auto; lia.
Qed.

Lemma not_owned_fin cfg s i :
  KB cfg s -> inflight s i -> let j := getj s (slot cfg i) in
  j_consumed j = j_size j -> (0 < j_csize j \/ j_ckneed j = true) -> ~ owned s (slot cfg i).
Proof.
  intros K Hi j Hf Hc [O|(t & w & H & A & E)].
  - destruct (b_que _ _ K _ O) as (i' & Hi' & E' & (_ & [X|(X1 & X2 & X3)] & _)); fold j in X || (fold j in X1, X2, X3); [lia|].
    destruct Hc; [lia|congruence].
  - destruct (b_wrk _ _ K t w H A) as (i' & Hi' & E' & (_ & Y & _)). rewrite E in Y. fold j in Y.
    destruct Y as [X|(X1 & X2 & X3)]; [lia|]. destruct Hc; [lia|congruence].
Qed.

Lemma act_flush cfg p j fl :
  Act cfg p j ->
  Act cfg p (j_upd_flush (if (j_consumed j =? j_size j) && j_ckneed j then j_csize j + 4 else j_csize j)
                         (if (j_consumed j =? j_size j) && j_ckneed j then false else j_ckneed j) fl j).
Proof.
  intros (A & B & C).
  assert (E : (j_consumed j =? j_size j) && j_ckneed j = false).
  { destruct B as [X|(X1 & X2 & X3)]; [|rewrite X3; apply andb_false_r].
    assert (j_consumed j =? j_size j = false) by (apply N.eqb_neq; lia). rewrite H. reflexivity. }
  rewrite E. repeat split; cbn; auto.
Qed.

Lemma j_upd_flush_same j : j_upd_flush (j_csize j) (j_ckneed j) (j_flushed j) j = j.
Proof. destruct j; reflexivity. Qed.

Lemma tinv_complete_job cfg s :
  Mid cfg s -> Flow s -> done (mt s) < next (mt s) ->
  let j := getj s (slot cfg (done (mt s))) in
  j_err j = false -> j_consumed j = j_size j -> j_ckneed j = false -> ~ owned s (slot cfg (done (mt s))) ->
  TInv cfg (complete_job cfg s).
Proof.
  intros M F Hlt j He Hc Hk Hno. unfold complete_job. fold j.
  apply tinv_flush_return.
  - match goal with |- Mid cfg (set_mt ?m' (set_gh ?g (set_job ?k ?j' s))) =>
      assert (M1 : Mid cfg (set_mt m' (set_job k j' s))) end.
    { apply mid_complete; auto. repeat split; cbn; auto. }
    eapply mid_ext; [..|exact M1]; first [reflexivity | left; reflexivity].
  - exact F.
Qed.

Lemma tinv_relbuf cfg s :
  Mid cfg s -> Flow s -> done (mt s) < next (mt s) ->
  let j := getj s (slot cfg (done (mt s))) in
  j_err j = false -> j_consumed j = j_size j -> 0 < j_csize j -> j_ckneed j = false -> j_done j = true ->
  TInv cfg (set_cpc CRelBuf s).
Proof.
  intros M (F1 & F2) Hlt j H1 H2 H3 H4 H5.
  assert (M' : Mid cfg (set_cpc CRelBuf s)) by mid_same M.
  assert (Ha : alldone (mt s) = false).
  { destruct (alldone (mt s)) eqn:X; auto. destruct (m_n3 _ _ M X). lia. }
  split.
  - apply kb_kinv; [apply M'|]. destruct M' as [K N1 N2 N3 T ME1]. unfold PcInv. cbn [cl set_cpc set_cl cl_pc c_pc awake mt relphase].
    refine (conj _ (conj _ (conj (fun Hrel => conj _ _) (conj _ (conj _ (conj _ _)))))); try discriminate; auto.
    all: try (intros k Hk Hn; destruct (N1 k Hk Hn) as [?|(? & ?)]; auto; right; split; auto; left; auto).
    all: try (intros _; cbn zeta; repeat split; auto).
  - unfold AInv. cbn [cl set_cpc set_cl cl_pc c_pc awake mt c_in].
    split; [apply M|]. split; [auto|]. split; [congruence|]. split; [discriminate|]. split; [discriminate|exact (m_e1 _ _ M)].
Qed.

Lemma tinv_flush_body cfg s : Mid cfg s -> Flow s -> TInv cfg (flush_body cfg s).
Proof.
  intros M F. unfold flush_body. cbn zeta.
  set (k := slot cfg (done (mt s))). set (j := getj s k).
  pose proof (m_kb _ _ M) as K. destruct (b_rng _ _ K) as (R1 & R2).
  assert (Hkl : (k < length (jobs s))%nat) by (rewrite (b_len _ _ K); apply slot_lt).
  assert (Hkm : (k < N.to_nat (Mr cfg))%nat) by apply slot_lt.
  destruct (j_err j) eqn:Eerr.
  { (* a job failed: wait for the others, release everything *)
    apply tinv_wait_all; auto; [|apply M|exact (m_e1 _ _ M)].
    destruct (alldone (mt s)) eqn:X; auto. destruct (m_n3 _ _ M X) as (_ & S). destruct (S k Hkm) as (S1 & _). fold j in S1. congruence. }
  set (fin := j_consumed j =? j_size j).
  set (ck := fin && j_ckneed j).
  set (cs := if ck then j_csize j + 4 else j_csize j).
  destruct (N.eq_dec (done (mt s)) (next (mt s))) as [Edn|Edn].
  - (* no job in flight: slot(done) is stale or holds the prepared job; nothing to flush *)
    assert (Hj : j_csize j = 0 /\ ck = false).
    { destruct (m_n1 _ _ M k Hkm) as [(S1 & S2 & S3 & S4 & S5)|(Ek & Er)].
      - intros i (A & B). lia.
      - fold j in S2, S3. unfold ck. rewrite S3. split; auto. apply andb_false_r.
      - assert (Ha : alldone (mt s) = false).
        { destruct (alldone (mt s)) eqn:X; auto. destruct F as (_ & F2). destruct (F2 X) as (_ & ? & _). congruence. }
        destruct (m_n2 _ _ M Er Ha) as ((_ & _ & P3 & P4 & _) & P6 & _). rewrite <- Edn in P3, P4, P6. fold k in P3, P4, P6. fold j in P3, P4, P6.
        split; auto. unfold ck, fin. destruct (j_consumed j =? j_size j) eqn:X; auto. apply N.eqb_eq in X. rewrite P6; auto. lia. }
    destruct Hj as (Hcs & Hck). unfold cs. rewrite Hck, Hcs. cbn [N.ltb N.compare].
    change (0 <? 0) with false. cbn iota.
    rewrite <- Hcs. rewrite j_upd_flush_same. unfold k, j. rewrite set_job_same by exact Hkl. fold k. fold j.
    assert (M1 : forall g, Mid cfg (set_gh g s)) by (intros; mid_same M).
    rewrite Hcs. replace (j_flushed j <? 0) with false by (symmetry; apply N.ltb_ge; lia).
    destruct (j_consumed j <? j_size j); [apply tinv_gen_return|apply tinv_flush_return]; auto.
  - (* the oldest job in flight *)
    assert (Hlt : done (mt s) < next (mt s)) by lia.
    assert (Hi : inflight s (done (mt s))) by (split; lia).
    set (ck' := if ck then false else j_ckneed j).
    assert (Mupd : forall fl, Mid cfg (set_job k (j_upd_flush cs ck' fl j) s)).
    { intros fl. apply mid_upd_inflight; auto.
      - cbn. apply (b_ids _ _ K); auto.
      - intros p Hp. apply act_flush. exact Hp. }
    destruct (0 <? cs) eqn:Ecs.
    + apply N.ltb_lt in Ecs.
      set (tf := N.min (cs - j_flushed j) (c_out (cl s))).
      match goal with |- TInv cfg (if _ then _ else if _ then gen_return cfg ?x _ else _) => set (s1 := x) end.
      assert (M1 : Mid cfg s1) by (unfold s1; eapply mid_ext; [..|exact (Mupd (j_flushed j + tf))]; first [reflexivity | left; reflexivity]).
      assert (F1 : Flow s1) by exact F.
      destruct (fin && (j_flushed j + tf =? cs)) eqn:Efin.
      * apply andb_prop in Efin. destruct Efin as (Ef & Efl). unfold fin in Ef. apply N.eqb_eq in Ef. apply N.eqb_eq in Efl.
        assert (Hck : ck' = false) by (unfold ck', ck, fin; rewrite (proj2 (N.eqb_eq _ _) Ef); cbn; destruct (j_ckneed j); reflexivity).
        assert (Hc : 0 < j_csize j \/ j_ckneed j = true).
        { unfold cs, ck, fin in Ecs. rewrite (proj2 (N.eqb_eq _ _) Ef) in Ecs. cbn in Ecs. destruct (j_ckneed j); auto. }
        assert (Hno : ~ owned s k) by (apply not_owned_fin; auto).
        assert (Hg1 : getj s1 k = j_upd_flush cs ck' (j_flushed j + tf) j).
        { unfold s1. rewrite getj_set_gh, getj_set_cl. apply getj_set_job_eq; auto. }
        destruct (j_dst j).
        -- apply tinv_relbuf; auto; change (done (mt s1)) with (done (mt s)); fold k; rewrite ?Hg1; cbn; auto.
           destruct (j_done j) eqn:X; auto. exfalso. apply Hno. apply (b_own _ _ K); auto.
        -- apply tinv_complete_job; auto; change (done (mt s1)) with (done (mt s)); fold k; rewrite ?Hg1; cbn; auto.
      * destruct (j_flushed j + tf <? cs); [apply tinv_gen_return; auto|].
        destruct (j_consumed j <? j_size j); [apply tinv_gen_return|apply tinv_flush_return]; auto.
    + match goal with |- TInv cfg (if _ then gen_return cfg ?x _ else _) => set (s1 := x) end.
      assert (M1 : Mid cfg s1) by (unfold s1; eapply mid_ext; [..|exact (Mupd (j_flushed j))]; first [reflexivity | left; reflexivity]).
      assert (F1 : Flow s1) by exact F.
      destruct (j_flushed j <? cs); [apply tinv_gen_return; auto|].
      destruct (j_consumed j <? j_size j); [apply tinv_gen_return|apply tinv_flush_return]; auto.
Qed.

(* ------------------------------------------------------------------ *)
(* posting a job (POOL_tryAdd) / ZSTDMT_writeLastEmptyBlock: nextJobID++  *)

Lemma indices_from_spec {A} (f : A -> bool) : forall l n i, In i (indices_from f n l) ->
  exists x, nth_error l (i - n) = Some x /\ f x = true /\ (n <= i)%nat.
Proof.
  induction l as [|a r IH]; intros n i H; cbn in H; [contradiction|].
  destruct (f a) eqn:E.
  - destruct H as [<-|H].
    + exists a. rewrite Nat.sub_diag. auto.
    + destruct (IH _ _ H) as (x & H1 & H2 & H3). exists x. replace (i - n)%nat with (S (i - S n)) by lia. cbn. auto with arith.
  - destruct (IH _ _ H) as (x & H1 & H2 & H3). exists x. replace (i - n)%nat with (S (i - S n)) by lia. cbn. auto with arith.
Qed.

Lemma signal_pop_spec w l :
  (forall t x, nth_error (signal_pop w l) t = Some x -> active (w_pc x) = true -> nth_error l t = Some x) /\
  (forall t x, nth_error l t = Some x -> active (w_pc x) = true -> nth_error (signal_pop w l) t = Some x).
Proof.
  unfold signal_pop. destruct (pop_sleepers l) as [|i0 r] eqn:E; [auto|].
  set (i := nth (w mod length (i0 :: r)) (i0 :: r) i0).
  assert (Hin : In i (pop_sleepers l)).
  { rewrite E. apply nth_In. apply Nat.mod_upper_bound. discriminate. }
  unfold pop_sleepers in Hin. apply indices_from_spec in Hin. destruct Hin as (x0 & H0 & Hf & _). rewrite Nat.sub_0_r in H0.
  split; intros t x H A.
  - apply nth_error_upd_inv in H. destruct H as [(-> & -> & _)|(_ & H)]; auto. discriminate.
  - destruct (Nat.eq_dec t i) as [->|Hne]; [|rewrite nth_error_upd_neq; auto].
    rewrite H0 in H. inversion H; subst. destruct (w_pc x); discriminate.
Qed.

Lemma mid_post cfg s s' :
  KB cfg s -> next (mt s) < done (mt s) + Mr cfg ->
  (forall k, (k < N.to_nat (Mr cfg))%nat -> (forall i, inflight s i -> slot cfg i <> k) -> Stale (getj s k) \/ k = slot cfg (next (mt s))) ->
  done (mt s') = done (mt s) -> next (mt s') = next (mt s) + 1 -> ready (mt s') = false -> alldone (mt s') = false ->
  length (jobs s') = length (jobs s) ->
  (forall k, k <> slot cfg (next (mt s)) -> getj s' k = getj s k) -> j_id (getj s' (slot cfg (next (mt s)))) = next (mt s) ->
  (forall t x, nth_error (ws s') t = Some x -> active (w_pc x) = true -> nth_error (ws s) t = Some x) ->
  (forall t x, nth_error (ws s) t = Some x -> active (w_pc x) = true -> nth_error (ws s') t = Some x) ->
  ((q (pl s') = q (pl s) /\ j_done (getj s' (slot cfg (next (mt s)))) = true) \/
   (q (pl s) = None /\ q (pl s') = Some (slot cfg (next (mt s))) /\ Act cfg WGetCCtx (getj s' (slot cfg (next (mt s)))))) ->
  TgOk s' -> (ended (mt s') = true -> ifill (mt s') = 0) -> Mid cfg s'.
Proof.
  intros K Hlt C1 Hd Hn Hr Ha Hl Hg Hid Hw1 Hw2 Hq T HE1.
  destruct (b_rng _ _ K) as (R1 & R2).
  set (kn := slot cfg (next (mt s))) in *.
  assert (Hin : forall i, inflight s' i <-> inflight s i \/ i = next (mt s)).
  { intros i. unfold inflight. rewrite Hd, Hn. lia. }
  assert (Hold : forall i, inflight s i -> getj s' (slot cfg i) = getj s (slot cfg i)).
  { intros i Hi. apply Hg. apply inflight_not_next; auto. }
  assert (Hqold : forall k0, q (pl s) = Some k0 -> q (pl s') = Some k0).
  { intros k0 E. destruct Hq as [(E1 & _)|(E1 & _)]; congruence. }
  constructor.
  - constructor.
    + rewrite Hl. apply K.
    + rewrite Hd, Hn. lia.
    + intros i Hi. apply Hin in Hi. destruct Hi as [Hi| ->]; [rewrite Hold by auto; apply K; auto|exact Hid].
    + intros t x H A. apply Hw1 in H; auto. destruct (b_wrk _ _ K t x H A) as (i & Hi & E & Ac).
      exists i. split; [apply Hin; auto|]. split; auto. rewrite E, Hold by auto. rewrite <- E. exact Ac.
    + intros k0 H. destruct Hq as [(E1 & _)|(E1 & E2 & Ac)].
      * rewrite E1 in H. destruct (b_que _ _ K k0 H) as (i & Hi & E & Ac). exists i. split; [apply Hin; auto|]. split; auto.
        rewrite E, Hold by auto. rewrite <- E. exact Ac.
      * rewrite E2 in H. inversion H; subst k0. exists (next (mt s)). split; [apply Hin; auto|]. split; auto.
    + intros t1 t2 x1 x2 H1 H2 A1 A2 E. apply Hw1 in H1; auto. apply Hw1 in H2; auto. eapply (b_uniq _ _ K); eauto.
    + intros t x k0 H A H0. apply Hw1 in H; auto. destruct Hq as [(E1 & _)|(E1 & E2 & _)].
      * rewrite E1 in H0. eapply (b_uq _ _ K); eauto.
      * rewrite E2 in H0. inversion H0; subst k0. destruct (b_wrk _ _ K t x H A) as (i & Hi & E & _). rewrite E. apply inflight_not_next; auto.
    + intros i Hi Hdn. apply Hin in Hi. destruct Hi as [Hi| ->].
      * rewrite Hold in Hdn by auto. destruct (b_own _ _ K i Hi Hdn) as [O|(t & x & H & A & E)].
        -- left. auto.
        -- right. exists t, x. auto.
      * destruct Hq as [(_ & E2)|(_ & E2 & _)]; [fold kn in Hdn; congruence|left; exact E2].
  - intros k Hk Hnin. left.
    assert (k <> kn).
    { intro; subst k. apply (Hnin (next (mt s))); auto. apply Hin. auto. }
    rewrite Hg by auto. destruct (C1 k Hk) as [?|?]; auto; [|contradiction].
    intros i Hi. apply Hnin. apply Hin. auto.
  - intros X. congruence.
  - intros X. congruence.
  - exact T.
  - exact HE1.
Qed.

(* ------------------------------------------------------------------ *)
(* remaining ring operations of the caller                              *)

(* ZSTDMT_waitForAllJobsCompleted: the oldest job has reported completion, doneJobID++ *)
Lemma kb_advance cfg s m' :
  KB cfg s -> done (mt s) < next (mt s) -> j_done (getj s (slot cfg (done (mt s)))) = true ->
  done m' = done (mt s) + 1 -> next m' = next (mt s) -> KB cfg (set_mt m' s).
Proof.
  intros K Hlt Hdn Hd Hn. destruct (b_rng _ _ K) as (R1 & R2).
  assert (Hdone : inflight s (done (mt s))) by (split; lia).
  assert (Hin : forall i, inflight (set_mt m' s) i -> inflight s i) by (intros i (A & B); cbn [mt set_mt] in A, B; split; lia).
  assert (Hact : forall p i, inflight s i -> Act cfg p (getj s (slot cfg i)) -> inflight (set_mt m' s) i).
  { intros p i Hi (A & _). destruct (N.eq_dec i (done (mt s))) as [->|Hne]; [congruence|].
    destruct Hi. split; cbn [mt set_mt]; lia. }
  constructor; cbn [jobs ws pl set_mt].
  - apply K.
  - cbn [mt set_mt]. lia.
  - intros i Hi. apply (b_ids _ _ K); auto.
  - intros t w H A. destruct (b_wrk _ _ K t w H A) as (i & Hi & E & Ac). exists i. split; [eapply Hact; eauto; rewrite <- E; eauto|auto].
  - intros k H. destruct (b_que _ _ K k H) as (i & Hi & E & Ac). exists i. split; [eapply Hact; eauto; rewrite <- E; eauto|auto].
  - apply K.
  - apply K.
  - intros i Hi Hd'. apply (b_own _ _ K); auto.
Qed.

(* ZSTDMT_initCStream_internal resets the ring of an idle context *)
Lemma kb_reset cfg s s' :
  KB cfg s -> done (mt s) = next (mt s) -> done (mt s') = 0 -> next (mt s') = 0 -> jobs s' = jobs s -> ws s' = ws s -> q (pl s') = q (pl s) ->
  KB cfg s'.
Proof.
  intros K E Hd Hn Hj Hw Hq.
  assert (Hno : forall i, ~ inflight s i) by (intros i (A & B); lia).
  constructor.
  - rewrite Hj. apply K.
  - rewrite Hd, Hn. pose proof (Mr_pos cfg). lia.
  - intros i (A & B). lia.
  - intros t w H A. rewrite Hw in H. destruct (b_wrk _ _ K t w H A) as (i & Hi & _). destruct (Hno i Hi).
  - intros k H. rewrite Hq in H. destruct (b_que _ _ K k H) as (i & Hi & _). destruct (Hno i Hi).
  - rewrite Hw. apply K.
  - rewrite Hw, Hq. apply K.
  - intros i (A & B). lia.
Qed.

Lemma tinv_sleep cfg s p' : TInv cfg s -> awake p' = awake (c_pc (cl s)) -> TInv cfg (set_cpc p' s).
Proof.
  intros (K & A) E. split.
  - eapply kinv_ext; [..|exact K]; try reflexivity. exact E.
  - unfold AInv in *. cbn [mt cl set_cpc set_cl cl_pc c_pc c_in]. rewrite E. exact A.
Qed.

Lemma tinv_initseq cfg s : Mid cfg s -> done (mt s) = next (mt s) -> done (mt s) = 0 -> ended (mt s) = false -> alldone (mt s) = false -> TInv cfg (set_cpc CInitSeq s).
Proof.
  intros M Hd Hd0 He Ha.
  assert (M' : Mid cfg (set_cpc CInitSeq s)) by mid_same M.
  split.
  - apply kb_kinv; [apply M'|]. destruct M' as [K N1 N2 N3 T ME1]. unfold PcInv. cbn [cl set_cpc set_cl cl_pc c_pc awake mt relphase].
    refine (conj _ (conj _ (conj (fun Hrel => conj _ _) (conj _ (conj _ (conj _ _)))))); try discriminate; auto.
    all: try (intros k Hk Hn; destruct (N1 k Hk Hn) as [?|(? & ?)]; auto; right; split; auto; left; auto).
  - unfold AInv. cbn [cl set_cpc set_cl cl_pc c_pc awake mt c_in].
    split; [apply M|]. split; [congruence|]. split; [congruence|]. split; [discriminate|]. split; [discriminate|congruence].
Qed.

(* ------------------------------------------------------------------ *)
(* every step of the application thread preserves the invariant         *)

Lemma getj_zero_slot s k : getj (zero_slot k s) k = job0.
Proof.
  unfold zero_slot. destruct (Nat.lt_ge_cases k (length (jobs s))) as [H|H]; [apply getj_set_job_eq; auto|].
  unfold getj, set_job, set_jobs. cbn [jobs]. apply nth_overflow. rewrite upd_length. exact H.
Qed.

Lemma tinv_caller_step cfg w s s' : TInv cfg s -> caller_step cfg w s = Some s' -> TInv cfg s'.
Proof.
  intros TI H. pose proof TI as (K & A). pose proof (k_pc _ _ K) as P. unfold PcInv in P.
  destruct P as (PA & PB & PC & PD & PE & PF & PG). pose proof A as (AT & A1 & A2 & A3 & A4 & A5).
  unfold caller_step in H. cbn zeta in H.
  destruct (c_pc (cl s)) eqn:Epc; try discriminate; cbn [awake relphase qpc inpc] in *.
  - (* CInUse *)
    assert (M : Mid cfg s) by (apply mid_of_tinv; auto; rewrite Epc; cbn; auto; discriminate).
    assert (Hi : 0 < c_in (cl s)) by (apply A3; reflexivity).
    assert (He : ended (mt s) = false).
    { destruct (ended (mt s)) eqn:X; auto. destruct (A1 eq_refl); [lia|discriminate]. }
    assert (Ha : alldone (mt s) = false).
    { destruct (alldone (mt s)) eqn:X; auto. destruct (A2 eq_refl) as [?|[?|(? & _)]]; discriminate. }
    destruct (_ <? _); inv_some H; [apply tinv_after_inuse|apply tinv_scan_inuse]; auto.
  - (* CLdm1 *)
    assert (M : Mid cfg s) by (apply mid_of_tinv; auto; rewrite Epc; cbn; auto; discriminate).
    assert (Hi : 0 < c_in (cl s)) by (apply A3; reflexivity).
    assert (He : ended (mt s) = false).
    { destruct (ended (mt s)) eqn:X; auto. destruct (A1 eq_refl); [lia|discriminate]. }
    assert (Ha : alldone (mt s) = false).
    { destruct (alldone (mt s)) eqn:X; auto. destruct (A2 eq_refl) as [?|[?|(? & _)]]; discriminate. }
    destruct (overlap_win _ _); inv_some H; [apply tinv_sleep; auto; rewrite Epc; reflexivity|apply tinv_move_prefix; auto].
  - (* CLdm2 *)
    assert (M : Mid cfg s) by (apply mid_of_tinv; auto; rewrite Epc; cbn; auto; discriminate).
    assert (He : ended (mt s) = false).
    { destruct (ended (mt s)) eqn:X; auto. assert (0 < c_in (cl s)) by (apply A3; reflexivity). destruct (A1 eq_refl); [lia|discriminate]. }
    assert (Ha : alldone (mt s) = false).
    { destruct (alldone (mt s)) eqn:X; auto. destruct (A2 eq_refl) as [?|[?|(? & _)]]; discriminate. }
    destruct (overlap_win _ _); inv_some H; [apply tinv_sleep; auto; rewrite Epc; reflexivity|apply tinv_hand_out; auto].
  - (* CGetBuf : ZSTDMT_writeLastEmptyBlock *)
    destruct (PB eq_refl) as (P0 & Pd & Pr & Psz & Pla & Pen). destruct (PC eq_refl) as (C1 & _).
    pose proof P0 as (Hlt & Hid & _).
    assert (Ha : alldone (mt s) = false).
    { destruct (alldone (mt s)) eqn:X; auto. destruct (A2 eq_refl) as [?|[?|(? & _)]]; discriminate. }
    assert (F : Flow s) by (apply flow_of_ainv; auto; rewrite Epc; reflexivity).
    assert (Hkl : (slot cfg (next (mt s)) < length (jobs s))%nat) by (rewrite (k_len _ _ K); apply slot_lt).
    inv_some H.
    apply tinv_plain; try reflexivity; try discriminate.
    + eapply (mid_post cfg s); try (apply kinv_kb; exact K); auto; cbn [mt jobs ws pl cl set_cpc set_cl set_mt set_job set_jobs set_pl mt_ring done next ready alldone].
      * intros k Hk Hn. destruct (C1 k Hk Hn) as [?|(? & _)]; auto.
      * apply upd_length.
      * intros k Hk. rewrite getj_set_cpc, getj_set_mt. rewrite getj_set_job_neq by auto. reflexivity.
      * rewrite getj_set_cpc, getj_set_mt. rewrite getj_set_job_eq by exact Hkl. destruct (negb _); cbn; exact Hid.
      * left. split; [reflexivity|]. rewrite getj_set_cpc, getj_set_mt. rewrite getj_set_job_eq by exact Hkl. destruct (negb _); cbn; exact Pd.
    + destruct F as (F1 & F2). split; cbn; auto; intros X; congruence.
  - (* CTryAdd : POOL_tryAdd *)
    pose proof (PA eq_refl) as PS. destruct (PC eq_refl) as (C1 & _).
    pose proof PS as ((Hlt & Hid & Hc0 & Hcs & Her) & Hck & Hdn & Hle).
    assert (Ha : alldone (mt s) = false).
    { destruct (alldone (mt s)) eqn:X; auto. destruct (A2 eq_refl) as [?|[?|(? & _)]]; discriminate. }
    assert (F : Flow s) by (apply flow_of_ainv; auto; rewrite Epc; reflexivity).
    destruct (Nat.eqb (busy (pl s)) (c_nbw cfg) || _) eqn:Ebusy; inv_some H.
    + (* no pool thread available: jobReady *)
      apply tinv_plain; try reflexivity; try discriminate.
      * constructor.
        -- eapply kb_ext; [..|apply kinv_kb; exact K]; reflexivity.
        -- intros k Hk Hn. destruct (C1 k Hk Hn) as [?|(? & _)]; auto.
        -- intros _ _. exact PS.
        -- cbn. intros X. congruence.
        -- exact AT.
        -- exact A5.
      * destruct F as (F1 & F2). split; cbn; auto; intros X; congruence.
    + apply orb_false_elim in Ebusy. destruct Ebusy as (_ & Eq).
      assert (Hq : q (pl s) = None) by (destruct (q (pl s)); [discriminate|reflexivity]).
      destruct (signal_pop_spec w (ws s)) as (S1 & S2).
      apply tinv_plain; try reflexivity; try discriminate.
      * eapply (mid_post cfg s); try (apply kinv_kb; exact K); auto; cbn [mt jobs ws pl cl set_cpc set_cl set_mt set_ws set_pl mt_ring done next ready alldone q pl_q].
        -- intros k Hk Hn. destruct (C1 k Hk Hn) as [?|(? & _)]; auto.
        -- right. split; [exact Hq|]. split; [reflexivity|].
           change (Act cfg WGetCCtx (getj s (slot cfg (next (mt s))))). repeat split; auto.
           destruct (N.eq_dec (j_size (getj s (slot cfg (next (mt s))))) 0) as [E|E]; [right; auto|left; lia].
      * destruct F as (F1 & F2). split; cbn; auto; intros X; congruence.
  - (* CFlush : ZSTDMT_flushProduced *)
    assert (M : Mid cfg s) by (apply mid_of_tinv; auto; rewrite Epc; cbn; auto; discriminate).
    assert (F : Flow s) by (apply flow_of_ainv; auto; rewrite Epc; reflexivity).
    destruct (_ && _); inv_some H; [apply tinv_sleep; auto; rewrite Epc; reflexivity|apply tinv_flush_body; auto].
  - (* CRelBuf *)
    assert (M : Mid cfg s) by (apply mid_of_tinv; auto; rewrite Epc; cbn; auto; discriminate).
    assert (F : Flow s) by (apply flow_of_ainv; auto; rewrite Epc; reflexivity).
    destruct (PE eq_refl) as (E1 & E2 & E3 & E4 & E5).
    inv_some H.
    match goal with |- TInv cfg (complete_job cfg ?x) => set (s0 := x) end.
    assert (M0 : Mid cfg s0) by mid_same M.
    apply tinv_complete_job; auto.
    apply (not_owned_fin cfg s0); auto; [apply M0|split; [reflexivity|exact PD]].
  - (* CWait : ZSTDMT_waitForAllJobsCompleted *)
    assert (Ha : alldone (mt s) = false).
    { destruct (alldone (mt s)) eqn:X; auto. destruct (A2 eq_refl) as [?|[?|(? & _)]]; discriminate. }
    unfold jslot in H. destruct (j_done (getj s (slot cfg (done (mt s))))) eqn:Ed; cbn [negb] in H; inv_some H.
    + apply tinv_wait_all; auto. apply kb_advance; auto. apply kinv_kb; auto.
    + apply tinv_sleep; auto. rewrite Epc. reflexivity.
  - (* CRelAll : ZSTDMT_releaseAllJobResources *)
    assert (Ha : alldone (mt s) = false).
    { destruct (alldone (mt s)) eqn:X; auto. destruct (A2 eq_refl) as [?|[?|(? & _)]]; discriminate. }
    inv_some H. apply tinv_rel_scan; auto.
    + apply kb_zero_slot; auto. eapply kb_ext; [..|apply kinv_kb; exact K]; reflexivity.
    + intros k' Hk'. destruct (Nat.eq_dec k' k) as [->|Hne]; [apply getj_zero_slot|].
      unfold zero_slot. rewrite getj_set_job_neq by auto. apply PG. lia.
    + cbn. rewrite upd_length. lia.
  - (* CInitBuf : the ring is reset *)
    assert (M : Mid cfg s) by (apply mid_of_tinv; auto; rewrite Epc; cbn; auto; discriminate).
    pose proof (A4 eq_refl) as Hal. destruct (PF Hal) as (Hdn & Hst).
    match type of H with Some (set_cpc _ ?x) = _ => set (s1 := x) in * end.
    assert (M1 : Mid cfg s1).
    { constructor.
      - eapply kb_reset; [apply kinv_kb; exact K|exact Hdn|..]; reflexivity.
      - intros k Hk _. left. apply Hst; auto.
      - cbn. discriminate.
      - cbn. discriminate.
      - exact AT.
      - cbn. discriminate. }
    inv_some H. apply tinv_initseq; auto.
  - (* CInitSeq *)
    assert (M : Mid cfg s) by (apply mid_of_tinv; auto; rewrite Epc; cbn; auto; discriminate).
    assert (F : Flow s) by (apply flow_of_ainv; auto; rewrite Epc; reflexivity).
    destruct (ldm (mt s)); inv_some H; (apply tinv_finish_ok; [mid_same M|apply flow_flow0; exact F]).
Qed.

(* ------------------------------------------------------------------ *)
(* pool threads do not touch what AInv reads                            *)

Definition aux_eq (s s' : state) : Prop :=
  mt s' = mt s /\ awake (c_pc (cl s')) = awake (c_pc (cl s)) /\ c_in (cl s') = c_in (cl s) /\
  c_fp (cl s') = c_fp (cl s) /\ c_ops (cl s') = c_ops (cl s).
Lemma aux_refl s : aux_eq s s. Proof. repeat split. Qed.
Lemma aux_trans a b c : aux_eq a b -> aux_eq b c -> aux_eq a c.
Proof. unfold aux_eq. intros (?&?&?&?&?) (?&?&?&?&?). repeat split; congruence. Qed.
Lemma aux_set_w t w s : aux_eq s (set_w t w s). Proof. repeat split. Qed.
Lemma aux_set_pl x s : aux_eq s (set_pl x s). Proof. repeat split. Qed.
Lemma aux_set_job k j s : aux_eq s (set_job k j s). Proof. repeat split. Qed.
Lemma aux_set_sr x s : aux_eq s (set_sr x s). Proof. repeat split. Qed.
Lemma aux_set_ws x s : aux_eq s (set_ws x s). Proof. repeat split. Qed.
Lemma aux_wake_ldm s : aux_eq s (wake_caller_ldm s).
Proof. unfold wake_caller_ldm. destruct (c_pc (cl s)) eqn:E; unfold aux_eq; cbn; rewrite ?E; repeat split. Qed.
Lemma aux_wake_job cfg k s : aux_eq s (wake_caller_job cfg k s).
Proof.
  unfold wake_caller_job. destruct (c_pc (cl s)) eqn:E; try (unfold aux_eq; cbn; rewrite ?E; repeat split; fail);
    destruct (Nat.eqb _ _); unfold aux_eq; cbn; rewrite ?E; repeat split.
Qed.

Ltac aux_solve :=
  repeat first [ apply aux_refl
               | eapply aux_trans; [|first [apply aux_set_w|apply aux_set_pl|apply aux_set_job|apply aux_set_sr|apply aux_set_ws
                                           |apply aux_wake_ldm|apply aux_wake_job]] ].

Lemma worker_step_aux cfg t s s' : worker_step cfg t s = Some s' -> aux_eq s s'.
Proof.
  unfold worker_step. intros H.
  destruct (nth_error (ws s) t) as [w|]; [|discriminate].
  destruct (w_pc w); try discriminate;
    repeat match type of H with
           | (if ?b then _ else _) = _ => destruct b
           | match ?x with Some _ => _ | None => _ end = _ => destruct x
           end; inv_some H;
    repeat match goal with |- context[if ?b then _ else _] => destruct b end; aux_solve.
Qed.

Lemma ainv_aux s s' : aux_eq s s' -> AInv s -> AInv s'.
Proof. intros (E1 & E2 & E3 & E4 & E5). unfold AInv, TgOk. rewrite E1, E2, E3, E4, E5. auto. Qed.

(* ------------------------------------------------------------------ *)
(* the invariant holds in every state reachable under every schedule    *)

Lemma tinv_step cfg t w s s' : 0 < c_chunk cfg -> TInv cfg s -> step cfg t w s = Some s' -> TInv cfg s'.
Proof.
  intros Hc TI H. destruct t as [|t]; cbn [step] in H.
  - eapply tinv_caller_step; eauto.
  - destruct TI as (K & A). split.
    + eapply kinv_worker_step; eauto.
    + eapply ainv_aux; [eapply worker_step_aux; eauto|exact A].
Qed.

Lemma nth_error_repeat {A} (a : A) n t x : nth_error (repeat a n) t = Some x -> x = a.
Proof. intros H. apply nth_error_In in H. apply repeat_spec in H. exact H. Qed.

Lemma tinv_init cfg ops : ops_ok ops -> TInv cfg (init cfg ops).
Proof.
  intros Ho. unfold init. apply tinv_start_ops; auto; [|intros _ _ X; discriminate].
  assert (Hg : forall k, getj (mkS (mkMt 0 0 false false true 0 0 false 0 0 0 0 1 0 false false false [] 0 0 0 0)
                (repeat job0 (N.to_nat (mask cfg) + 1)) (mkSer 0 [] false win0 win0)
                (mkPl None 0 0 (2 * N.of_nat (c_nbw cfg) + 3) 1 (N.of_nat (c_nbw cfg)) 0 (N.of_nat (c_nbw cfg)) false)
                (mkCl CDone [] EContinue EContinue false 0 0 0 0 (0, 0) fp0 []) (repeat w0 (c_nbw cfg)) (mkG [] [] [])) k = job0).
  { intros k. unfold getj. cbn [jobs]. destruct (nth_in_or_default k (repeat job0 (N.to_nat (mask cfg) + 1)) job0) as [H|H]; auto.
    apply repeat_spec in H. exact H. }
  constructor.
  - constructor; cbn [mt jobs ws pl done next q].
    + rewrite repeat_length. pose proof (mask_Mr cfg). lia.
    + pose proof (Mr_pos cfg). lia.
    + intros i (A & B). cbn in A, B. lia.
    + intros t w H A. apply nth_error_repeat in H. subst. discriminate.
    + discriminate.
    + intros t1 t2 w1 w2 H1 H2 A1. apply nth_error_repeat in H1. subst. discriminate.
    + discriminate.
    + intros i (A & B). cbn in A, B. lia.
  - intros k Hk _. left. rewrite Hg. apply stale_job0.
  - cbn. discriminate.
  - intros _. split; [reflexivity|]. intros k Hk. rewrite Hg. apply stale_job0.
  - repeat split; cbn; try lia. constructor.
  - cbn. discriminate.
Qed.

Theorem tinv_reachable cfg ops sched :
  0 < c_chunk cfg -> ops_ok ops -> TInv cfg (run state (step cfg) sched (init cfg ops)).
Proof.
  intros Hc Ho. apply (run_invariant state (step cfg) (TInv cfg)).
  - intros s t w s' Hi Hst. eapply tinv_step; eauto.
  - apply tinv_init; auto.
Qed.
