(* Layer 7: the phases of the main client. *)
From Coq Require Import List Arith Bool Lia ZArith.
Import ListNotations.
From ZV.Conc Require Import Sched PoolModel PoolLemmas PoolInvDefs PoolInv1 PoolInv2 PoolInv3 PoolInv4 PoolInv5 PoolInv6.

(* ---- what any step does to shutdown / threadCapacity / the sleepers on queuePopCond ---- *)
Lemma step_shutdown cfg tid w s s' th :
  step cfg tid w s = Some s' -> nth_error (st s) tid = Some th ->
  (shutdown (sp s) = true -> shutdown (sp s') = true) /\ (t_pc th <> FLock -> shutdown (sp s') = shutdown (sp s)) /\
  (t_pc th = FLock -> shutdown (sp s') = true).
Proof.
  intros H Hth0. step_inv H; inversion Hth0; subst; cbn; repeat split; auto; try congruence.
Qed.

Lemma step_cap cfg tid w s s' th :
  step cfg tid w s = Some s' -> nth_error (st s) tid = Some th ->
  cap (sp s) <= cap (sp s') /\ ((forall n, t_pc th <> RLock n) -> cap (sp s') = cap (sp s)).
Proof.
  intros H Hth0. step_inv H; inversion Hth0; subst; cbn; split; auto; try congruence; try lia;
    try (apply Nat.leb_gt in E0; lia); try (intros Hn; exfalso; eapply Hn; eauto).
Qed.

Lemma naslp_wake_pop_le th : naslp (wake_pop th) <= naslp th.
Proof. unfold naslp, asleep_pop, wake_pop. destruct (t_pc th) eqn:E; cbn; rewrite ?E; auto. Qed.
Lemma naslp_wake_push th : naslp (wake_push th) = naslp th.
Proof. unfold naslp, asleep_pop, wake_push. destruct (t_pc th) eqn:E; cbn; rewrite ?E; auto. Qed.

Lemma sumf_map_le {A} (f : A -> nat) g l : (forall a, f (g a) <= f a) -> sumf f (map g l) <= sumf f l.
Proof. intros H. induction l; cbn; auto. specialize (H a). lia. Qed.

Lemma sumf_naslp_broadcast_pop ths : sumf naslp (broadcast wake_pop ths) = 0.
Proof.
  unfold broadcast. rewrite sumf_map. apply sumf_zero. apply Forall_forall. intros th _.
  unfold naslp, asleep_pop, wake_pop. destruct (t_pc th) eqn:E; cbn; rewrite ?E; auto.
Qed.

Lemma sumf_naslp_signal_le w ths : sumf naslp (signal asleep_pop wake_pop w ths) <= sumf naslp ths.
Proof.
  destruct (signal_cases asleep_pop wake_pop w ths) as [[_ ->]|(i & th & Hi & _ & ->)]; auto.
  pose proof (sumf_upd naslp i (wake_pop th) ths th Hi). pose proof (naslp_wake_pop_le th). lia.
Qed.

Lemma naslp_finish cfg tid th g th' g' : finish_op cfg tid th g = (th', g') -> naslp th' = 0.
Proof.
  intros H. apply finish_op_cases in H.
  destruct H as [(Hw & k & j & r & _ & -> & _)|[(Hw & _ & -> & _)|(Hw & c & ops' & Hn & -> & _)]]; cbn; auto.
  apply next_client_pc in Hn. unfold naslp, asleep_pop; cbn.
  destruct Hn as [(k & j & ->)|[->|[(n & ->)|[(_ & [[-> _]|[-> _]] & _)|(_ & -> & _)]]]]; auto.
Qed.

Lemma step_naslp cfg tid w s s' th :
  step cfg tid w s = Some s' -> nth_error (st s) tid = Some th ->
  sumf naslp (st s') <= sumf naslp (st s) + (match t_pc th with WWait => 1 | _ => 0 end) /\
  (t_pc th = FBcastPop -> sumf naslp (st s') = 0).
Proof.
  intros H Hth0. step_inv H; inversion Hth0; subst; cbn [st]; rewrite ?Epc;
    try match goal with Hf : finish_op _ _ _ _ = _ |- _ => pose proof (naslp_finish _ _ _ _ _ _ Hf) end;
    (split; [|try discriminate]).
  all: try (sum_upd naslp naslp_wake_push naslp_wake_push; unfold naslp, asleep_pop in *; cbn in *; rewrite ?Epc in *; cbn in *; lia).
  all: rewrite ?sumf_app, ?sumf_repeat.
  (* the transformers that wake poppers *)
  all: try match goal with
           | |- context [upd ?t ?x (signal asleep_pop wake_pop ?w0 ?l)] =>
             pose proof (sumf_naslp_signal_le w0 l);
             pose proof (sumf_upd naslp t x (signal asleep_pop wake_pop w0 l) th (nth_error_signal asleep_pop wake_pop w0 l t th Hth ltac:(not_asleep Epc)))
           | |- context [upd ?t ?x (broadcast wake_pop ?l)] =>
             pose proof (sumf_naslp_broadcast_pop l);
             pose proof (sumf_upd naslp t x (broadcast wake_pop l) th (nth_error_broadcast_pop l t th Hth ltac:(not_asleep Epc)))
           end.
  all: unfold naslp, asleep_pop in *; cbn in *; rewrite ?Epc in *; cbn in *; try lia.
Qed.

(* ---- the main client ---- *)
Definition fphase c := match c with FUnlock | FBcastPush | FBcastPop | FJoin _ | Done => true | _ => false end.
Definition fphase0 c := match c with FLock => true | _ => fphase c end.
Definition joined c := match c with FJoin _ | Done => true | _ => false end.
Definition relevant c := mainonly c || match c with Done => true | _ => false end.

Definition MainOK (cfg : config) (s : state) := exists m, nth_error (st s) 0 = Some m /\ t_worker m = false /\
  shutdown (sp s) = fphase (t_pc m) /\
  (forall c, t_pc m = MJoin c -> (1 <= c /\ c < c_K cfg) /\ forall j, 1 <= j < c -> done_at (st s) j = true) /\
  (fphase0 (t_pc m) = true -> forall j, 1 <= j < c_K cfg -> done_at (st s) j = true) /\
  (forall i, t_pc m = FJoin i -> i < cap (sp s) /\ forall j, j < i -> done_at (st s) (c_K cfg + j) = true) /\
  (t_pc m = Done -> forall j, j < cap (sp s) -> done_at (st s) (c_K cfg + j) = true) /\
  (joined (t_pc m) = true -> sumf naslp (st s) = 0).

Lemma woken_relevant m m' : woken m m' ->
  (relevant (t_pc m) = true -> t_pc m' = t_pc m) /\ (relevant (t_pc m) = false -> relevant (t_pc m') = false).
Proof. intros [->|[->| ->]]; auto; [unfold wake_push|unfold wake_pop]; destruct (t_pc m) eqn:E; cbn; rewrite ?E; auto; split; auto; discriminate. Qed.

Lemma finish_main cfg tid th g th' g' :
  tid <= 0 -> finish_op cfg tid th g = (th', g') -> t_worker th = false ->
  t_worker th' = false /\ (relevant (t_pc th') = false \/ (t_pc th' = MJoin 1 /\ 1 < c_K cfg) \/ (t_pc th' = FLock /\ c_K cfg <= 1)).
Proof.
  intros Ht H Hw. apply finish_op_cases in H.
  destruct H as [(Hw' & _)|[(Hw' & _)|(_ & c & ops' & Hn & -> & _)]]; try congruence.
  cbn. split; auto. apply next_client_pc in Hn.
  destruct Hn as [(k & j & ->)|[->|[(n & ->)|[(_ & [[-> ?]|[-> ?]] & _)|(? & _)]]]]; auto; lia.
Qed.

Lemma main_transition cfg tid w s s' m :
  tid <= 0 -> step cfg tid w s = Some s' -> nth_error (st s) tid = Some m -> t_worker m = false -> role_ok m = true ->
  exists m', nth_error (st s') tid = Some m' /\ t_worker m' = false /\
    ((relevant (t_pc m) = false /\ (relevant (t_pc m') = false \/ (t_pc m' = MJoin 1 /\ 1 < c_K cfg) \/ (t_pc m' = FLock /\ c_K cfg <= 1))) \/
     (exists c, t_pc m = MJoin c /\ is_done (st s) c = true /\ ((t_pc m' = MJoin (S c) /\ S c < c_K cfg) \/ (t_pc m' = FLock /\ c_K cfg <= S c))) \/
     (t_pc m = FLock /\ t_pc m' = FUnlock) \/ (t_pc m = FUnlock /\ t_pc m' = FBcastPush) \/ (t_pc m = FBcastPush /\ t_pc m' = FBcastPop) \/
     (t_pc m = FBcastPop /\ t_pc m' = FJoin 0) \/
     (exists i, t_pc m = FJoin i /\ is_done (st s) (c_K cfg + i) = true /\ ((t_pc m' = FJoin (S i) /\ S i < cap (sp s)) \/ (t_pc m' = Done /\ cap (sp s) <= S i)))).
Proof.
  intros Ht0 H Hm Hw Hrole. pose proof (nth_error_Some_lt _ _ _ Hm) as Hlt.
  step_inv H; inversion Hm; subst; cbn [st];
    unfold role_ok in Hrole; rewrite Hw, Epc in Hrole; cbn in Hrole; try discriminate;
    try rewrite nth_error_app1 by (rewrite upd_length; exact Hlt);
    (rewrite nth_error_upd_eq by (rewrite ?broadcast_length, ?signal_length, ?wake_pushers_length; exact Hlt));
    eexists; (split; [reflexivity|]);
    try match goal with Hf : finish_op _ _ _ _ = _ |- _ => destruct (finish_main _ _ _ _ _ _ Ht0 Hf Hw) as [Hw' Hfm] end;
    (split; [cbn [t_worker set_pc]; assumption|]); rewrite ?Epc; cbn [t_pc set_pc relevant mainonly orb].
  all: try (left; split; [reflexivity|first [assumption|left; reflexivity]]).
  all: try (right; left; eexists; split; [reflexivity|split; [eassumption|first [left; split; [reflexivity|now apply Nat.ltb_lt]|right; split; [reflexivity|now apply Nat.ltb_ge]]]]).
  all: try (right; right; left; split; reflexivity).
  all: try (right; right; right; left; split; reflexivity).
  all: try (right; right; right; right; left; split; reflexivity).
  all: try (right; right; right; right; right; left; split; reflexivity).
  all: try (right; right; right; right; right; right; eexists; split; [reflexivity|split; [eassumption|first [left; split; [reflexivity|now apply Nat.ltb_lt]|right; split; [reflexivity|now apply Nat.ltb_ge]]]]).
Qed.

Lemma fphase_relevant c : fphase c = true -> relevant c = true.
Proof. destruct c; cbn; auto. Qed.
Lemma fphase0_relevant c : fphase0 c = true -> relevant c = true.
Proof. destruct c; cbn; auto. Qed.
Lemma joined_fphase c : joined c = true -> fphase c = true.
Proof. destruct c; cbn; auto. Qed.
Lemma relevant_false_fphase c : relevant c = false -> fphase c = false /\ fphase0 c = false /\ joined c = false /\ (forall k, c <> MJoin k) /\ (forall i, c <> FJoin i) /\ c <> Done /\ c <> FLock.
Proof. destruct c; cbn; intros; try discriminate; repeat split; auto; congruence. Qed.

Lemma main_step cfg tid w s s' :
  RoleOK s -> ShapeOK cfg s -> AssertOK s -> MainOK cfg s -> step cfg tid w s = Some s' -> MainOK cfg s'.
Proof.
  intros HR (HL & HK & Hlim & HWk & HMo) HA (m & Hm & Hw & HA1 & HB & HC & HD & HE & HG) H.
  assert (Hth : exists th, nth_error (st s) tid = Some th) by (unfold step in H; destruct (nth_error (st s) tid); [eauto|discriminate]).
  destruct Hth as (th & Hth).
  destruct (step_shutdown _ _ _ _ _ _ H Hth) as (Hsd1 & Hsd2 & Hsd3).
  destruct (step_cap _ _ _ _ _ _ H Hth) as [Hc1 Hc2]. destruct (step_naslp _ _ _ _ _ _ H Hth) as [Hn1 Hn2].
  assert (Hdone : forall j, done_at (st s) j = true -> done_at (st s') j = true) by (intros; eapply done_stable; eauto).
  pose proof (Forall_nth_error _ _ _ _ HR Hth) as Hrole. cbn beta in Hrole.
  destruct (Nat.eq_dec tid 0) as [Ht0|Ht0].
  - assert (Heq : th = m) by (rewrite Ht0 in Hth; congruence). subst th.
    destruct (main_transition cfg tid w s s' m ltac:(lia) H Hth Hw Hrole) as (m' & Hm' & Hw' & Htr).
    rewrite Ht0 in Hm'. exists m'. split; [exact Hm'|]. split; [exact Hw'|].
    destruct Htr as [(Hr & Hr')|[(c & Hc & Hdc & Hc')|[(H1 & H2)|[(H1 & H2)|[(H1 & H2)|[(H1 & H2)|(i & Hi & Hdi & Hi')]]]]]].
    + (* an ordinary pool operation of the main client *)
      destruct (relevant_false_fphase _ Hr) as (F1 & F2 & F3 & F4 & F5 & F6 & F7).
      rewrite (Hsd2 F7), HA1, F1.
      destruct Hr' as [Hr'|[(Hp & HK1)|(Hp & HK1)]].
      * destruct (relevant_false_fphase _ Hr') as (G1 & G2 & G3 & G4 & G5 & G6 & G7).
        rewrite G1, G2, G3. repeat split; auto; try discriminate; intros; try congruence; try (exfalso; eapply G4; eassumption); try (exfalso; eapply G5; eassumption).
      * rewrite Hp. cbn. repeat split; auto; try discriminate; intros; try discriminate; inversion H0; subst; lia.
      * rewrite Hp. cbn. repeat split; auto; try discriminate; intros; try discriminate. lia.
    + (* joined client c *)
      assert (Hne : t_pc m <> FLock) by congruence. rewrite (Hsd2 Hne), HA1, Hc. destruct (HB _ Hc) as [Hc1' Hcj].
      destruct Hc' as [(Hp & HSc)|(Hp & HSc)]; rewrite Hp; cbn; repeat split; auto; try discriminate; intros; try discriminate;
        try (inversion H0; subst; lia);
        try (inversion H0; subst; destruct (Nat.eq_dec j c) as [->|]; [apply Hdone, is_done_done_at; auto; lia|apply Hdone, Hcj; lia]);
        try (destruct (Nat.eq_dec j c) as [->|]; [apply Hdone, is_done_done_at; auto; lia|apply Hdone, Hcj; lia]).
    + rewrite (Hsd3 H1), H2. rewrite H1 in *. cbn in *. repeat split; auto; try discriminate; intros; try discriminate; try (apply Hdone, HC; auto).
    + assert (Hne : t_pc m <> FLock) by congruence. rewrite (Hsd2 Hne), HA1, H2. rewrite H1 in *. cbn in *.
      repeat split; auto; try discriminate; intros; try discriminate; try (apply Hdone, HC; auto).
    + assert (Hne : t_pc m <> FLock) by congruence. rewrite (Hsd2 Hne), HA1, H2. rewrite H1 in *. cbn in *.
      repeat split; auto; try discriminate; intros; try discriminate; try (apply Hdone, HC; auto).
    + assert (Hne : t_pc m <> FLock) by congruence. rewrite (Hsd2 Hne), HA1, H2. rewrite H1 in *. cbn in *.
      repeat split; auto; try discriminate; intros; try discriminate; try (apply Hdone, HC; auto; fail); try lia; try (inversion H0; lia).
    + assert (Hne : t_pc m <> FLock) by congruence. rewrite (Hsd2 Hne), HA1. destruct (HD _ Hi) as [Hic Hij].
      assert (HGs : sumf naslp (st s') = 0). { rewrite Hi in Hn1, HG. cbn in HG. specialize (HG eq_refl). lia. }
      assert (Hcap : cap (sp s') = cap (sp s)) by (apply Hc2; intros; congruence).
      rewrite Hi in *. cbn in HC.
      destruct Hi' as [(Hp & HSi)|(Hp & HSi)]; rewrite Hp; cbn; repeat split; auto; try discriminate; intros; try discriminate;
        try (apply Hdone, HC; auto; fail);
        try (inversion H0; subst; lia);
        try (inversion H0; subst; destruct (Nat.eq_dec j i) as [->|]; [apply Hdone, is_done_done_at; auto; lia|apply Hdone, Hij; lia]);
        try (rewrite Hcap in *; destruct (Nat.eq_dec j i) as [->|]; [apply Hdone, is_done_done_at; auto; lia|apply Hdone, Hij; lia]).
  - (* another thread steps *)
    destruct (step_other _ _ _ _ _ _ _ H Hm ltac:(lia)) as (m' & Hm' & Hwk).
    exists m'. split; [exact Hm'|]. split; [rewrite (woken_worker _ _ Hwk); exact Hw|].
    assert (Hnf : t_pc th <> FLock). { intros Hf. apply Ht0. apply (HMo _ _ Hth). rewrite Hf. reflexivity. }
    rewrite (Hsd2 Hnf), HA1.
    destruct (woken_relevant _ _ Hwk) as [Hr1 Hr2].
    destruct (relevant (t_pc m)) eqn:Er.
    + rewrite (Hr1 eq_refl). repeat split; intros.
      * apply (HB _ H0).
      * apply (HB _ H0).
      * apply Hdone. apply (HB _ H0). auto.
      * apply Hdone, HC; auto.
      * destruct (HD _ H0). lia.
      * apply Hdone. destruct (HD _ H0) as [_ Hj]. auto.
      * (* no resize once the main client is done *)
        assert (Hcap : cap (sp s') = cap (sp s)).
        { apply Hc2. intros n Hn. unfold role_ok in Hrole. rewrite Hn in Hrole.
          destruct (t_worker th) eqn:Ew; [cbn in Hrole; discriminate|].
          pose proof (HWk _ _ Hth) as Hpos. rewrite Ew in Hpos. symmetry in Hpos. apply negb_false_iff, Nat.ltb_lt in Hpos.
          assert (Hd : done_at (st s) tid = true) by (apply HC; [rewrite H0; reflexivity|lia]).
          apply done_at_spec in Hd. destruct Hd as (x & Hx & Hxd). rewrite Hth in Hx. inversion Hx; subst. congruence. }
        rewrite Hcap in H1. apply Hdone, HE; auto.
      * assert (Hnw : t_pc th <> WWait).
        { intros Hww. pose proof (HA _ _ Hth) as Has. unfold assert_ok in Has. rewrite Hww in Has. apply andb_prop in Has. destruct Has as [_ Has].
          rewrite HA1, (joined_fphase _ H0) in Has. discriminate. }
        specialize (HG H0). destruct (t_pc th); try congruence; lia.
    + specialize (Hr2 eq_refl).
      destruct (relevant_false_fphase _ Er) as (F1 & F2 & F3 & F4 & F5 & F6 & F7).
      destruct (relevant_false_fphase _ Hr2) as (G1 & G2 & G3 & G4 & G5 & G6 & G7).
      rewrite F1, G1, G2, G3. repeat split; auto; try discriminate; intros; try congruence; try (exfalso; eapply G4; eassumption); try (exfalso; eapply G5; eassumption).
Qed.
