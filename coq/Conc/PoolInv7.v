(* Layer 7: the phases of the main client. *)
From Coq Require Import List Arith Bool Lia ZArith.
Import ListNotations.
From ZV.Conc Require Import Sched PoolModel PoolLemmas PoolInvDefs PoolInv1 PoolInv2 PoolInv3 PoolInv4 PoolInv5 PoolInv6.

(* ---- what any step does to shutdown / threadCapacity / the sleepers on queuePopCond ---- *)
Lemma step_shutdown cfg tid w s s' th :
  step cfg tid w s = Some s' -> nth_error (st s) tid = Some th ->
  (shutdown (sp s) = true -> shutdown (sp s') = true) /\ (t_pc th <> FLock -> shutdown (sp s') = shutdown (sp s)) /\
  (t_pc th = FLock -> shutdown (sp s') = true).
Proof.
  intros H Hth0. step_inv H; inversion Hth0; subst; cbn; repeat split; auto; try congruence.
Qed.

Lemma step_cap cfg tid w s s' th :
  step cfg tid w s = Some s' -> nth_error (st s) tid = Some th ->
  cap (sp s) <= cap (sp s') /\ ((forall n, t_pc th <> RLock n) -> cap (sp s') = cap (sp s)).
Proof.
  intros H Hth0. step_inv H; inversion Hth0; subst; cbn; split; auto; try congruence; try lia;
    try (apply Nat.leb_gt in E0; lia); try (intros Hn; exfalso; eapply Hn; eauto).
Qed.

Lemma naslp_wake_pop_le th : naslp (wake_pop th) <= naslp th.
Proof. unfold naslp, asleep_pop, wake_pop. destruct (t_pc th) eqn:E; cbn; rewrite ?E; auto. Qed.
Lemma naslp_wake_push th : naslp (wake_push th) = naslp th.
Proof. unfold naslp, asleep_pop, wake_push. destruct (t_pc th) eqn:E; cbn; rewrite ?E; auto. Qed.

Lemma sumf_map_le {A} (f : A -> nat) g l : (forall a, f (g a) <= f a) -> sumf f (map g l) <= sumf f l.
Proof. intros H. induction l; cbn; auto. specialize (H a). lia. Qed.

Lemma sumf_naslp_broadcast_pop ths : sumf naslp (broadcast wake_pop ths) = 0.
Proof.
  unfold broadcast. rewrite sumf_map. apply sumf_zero. apply Forall_forall. intros th _.
  unfold naslp, asleep_pop, wake_pop. destruct (t_pc th) eqn:E; cbn; rewrite ?E; auto.
Qed.

Lemma sumf_naslp_signal_le w ths : sumf naslp (signal asleep_pop wake_pop w ths) <= sumf naslp ths.
Proof.
  destruct (signal_cases asleep_pop wake_pop w ths) as [[_ ->]|(i & th & Hi & _ & ->)]; auto.
  pose proof (sumf_upd naslp i (wake_pop th) ths th Hi). pose proof (naslp_wake_pop_le th). lia.
Qed.

Lemma naslp_finish cfg tid th g th' g' : finish_op cfg tid th g = (th', g') -> naslp th' = 0.
Proof.
  intros H. apply finish_op_cases in H.
  destruct H as [(Hw & k & j & r & _ & -> & _)|[(Hw & _ & -> & _)|(Hw & c & ops' & Hn & -> & _)]]; cbn; auto.
  apply next_client_pc in Hn. unfold naslp, asleep_pop; cbn.
  destruct Hn as [(k & j & ->)|[->|[(n & ->)|[(_ & [[-> _]|[-> _]] & _)|(_ & -> & _)]]]]; auto.
Qed.

Lemma step_naslp cfg tid w s s' th :
  step cfg tid w s = Some s' -> nth_error (st s) tid = Some th ->
  sumf naslp (st s') <= sumf naslp (st s) + (match t_pc th with WWait => 1 | _ => 0 end) /\
  (t_pc th = FBcastPop -> sumf naslp (st s') = 0).
Proof.
  intros H Hth0. step_inv H; inversion Hth0; subst; cbn [st]; rewrite ?Epc;
    try match goal with Hf : finish_op _ _ _ _ = _ |- _ => pose proof (naslp_finish _ _ _ _ _ _ Hf) end;
    (split; [|try discriminate]).
  all: try (sum_upd naslp naslp_wake_push naslp_wake_push; unfold naslp, asleep_pop in *; cbn in *; rewrite ?Epc in *; cbn in *; lia).
  all: rewrite ?sumf_app, ?sumf_repeat.
  (* the transformers that wake poppers *)
  all: try match goal with
           | |- context [upd ?t ?x (signal asleep_pop wake_pop ?w0 ?l)] =>
             pose proof (sumf_naslp_signal_le w0 l);
             pose proof (sumf_upd naslp t x (signal asleep_pop wake_pop w0 l) th (nth_error_signal asleep_pop wake_pop w0 l t th Hth ltac:(not_asleep Epc)))
           | |- context [upd ?t ?x (broadcast wake_pop ?l)] =>
             pose proof (sumf_naslp_broadcast_pop l);
             pose proof (sumf_upd naslp t x (broadcast wake_pop l) th (nth_error_broadcast_pop l t th Hth ltac:(not_asleep Epc)))
           end.
  all: unfold naslp, asleep_pop in *; cbn in *; rewrite ?Epc in *; cbn in *; try lia.
Qed.

(* ---- the main client ---- *)
Definition fphase c := match c with FUnlock | FBcastPush | FBcastPop | FJoin _ | Done => true | _ => false end.
Definition fphase0 c := match c with FLock => true | _ => fphase c end.
Definition joined c := match c with FJoin _ | Done => true | _ => false end.
Definition relevant c := mainonly c || match c with Done => true | _ => false end.

Definition MainOK (cfg : config) (s : state) := exists m, nth_error (st s) 0 = Some m /\ t_worker m = false /\
  shutdown (sp s) = fphase (t_pc m) /\
  (forall c, t_pc m = MJoin c -> 1 <= c /\ forall j, 1 <= j < c -> done_at (st s) j = true) /\
  (fphase0 (t_pc m) = true -> forall j, 1 <= j < c_K cfg -> done_at (st s) j = true) /\
  (forall i, t_pc m = FJoin i -> i < cap (sp s) /\ forall j, j < i -> done_at (st s) (c_K cfg + j) = true) /\
  (t_pc m = Done -> forall j, j < cap (sp s) -> done_at (st s) (c_K cfg + j) = true) /\
  (joined (t_pc m) = true -> sumf naslp (st s) = 0).

Lemma woken_relevant m m' : woken m m' ->
  (relevant (t_pc m) = true -> t_pc m' = t_pc m) /\ (relevant (t_pc m) = false -> relevant (t_pc m') = false).
Proof. intros [->|[->| ->]]; auto; [unfold wake_push|unfold wake_pop]; destruct (t_pc m) eqn:E; cbn; rewrite ?E; auto; split; auto; discriminate. Qed.

Lemma finish_main cfg tid th g th' g' :
  tid <= 0 -> finish_op cfg tid th g = (th', g') -> t_worker th = false ->
  t_worker th' = false /\ (relevant (t_pc th') = false \/ (t_pc th' = MJoin 1 /\ 1 < c_K cfg) \/ (t_pc th' = FLock /\ c_K cfg <= 1)).
Proof.
  intros Ht H Hw. apply finish_op_cases in H.
  destruct H as [(Hw' & _)|[(Hw' & _)|(_ & c & ops' & Hn & -> & _)]]; try congruence.
  cbn. split; auto. apply next_client_pc in Hn.
  destruct Hn as [(k & j & ->)|[->|[(n & ->)|[(_ & [[-> ?]|[-> ?]] & _)|(? & _)]]]]; auto; lia.
Qed.

Lemma main_transition cfg tid w s s' m :
  tid <= 0 -> step cfg tid w s = Some s' -> nth_error (st s) tid = Some m -> t_worker m = false -> role_ok m = true ->
  exists m', nth_error (st s') tid = Some m' /\ t_worker m' = false /\
    ((relevant (t_pc m) = false /\ (relevant (t_pc m') = false \/ (t_pc m' = MJoin 1 /\ 1 < c_K cfg) \/ (t_pc m' = FLock /\ c_K cfg <= 1))) \/
     (exists c, t_pc m = MJoin c /\ is_done (st s) c = true /\ ((t_pc m' = MJoin (S c) /\ S c < c_K cfg) \/ (t_pc m' = FLock /\ c_K cfg <= S c))) \/
     (t_pc m = FLock /\ t_pc m' = FUnlock) \/ (t_pc m = FUnlock /\ t_pc m' = FBcastPush) \/ (t_pc m = FBcastPush /\ t_pc m' = FBcastPop) \/
     (t_pc m = FBcastPop /\ t_pc m' = FJoin 0) \/
     (exists i, t_pc m = FJoin i /\ is_done (st s) (c_K cfg + i) = true /\ ((t_pc m' = FJoin (S i) /\ S i < cap (sp s)) \/ (t_pc m' = Done /\ cap (sp s) <= S i)))).
Proof.
  intros Ht0 H Hm Hw Hrole. pose proof (nth_error_Some_lt _ _ _ Hm) as Hlt.
  step_inv H; inversion Hm; subst; cbn [st];
    unfold role_ok in Hrole; rewrite Hw, Epc in Hrole; cbn in Hrole; try discriminate;
    try rewrite nth_error_app1 by (rewrite upd_length; exact Hlt);
    (rewrite nth_error_upd_eq by (rewrite ?broadcast_length, ?signal_length, ?wake_pushers_length; exact Hlt));
    eexists; (split; [reflexivity|]);
    try match goal with Hf : finish_op _ _ _ _ = _ |- _ => destruct (finish_main _ _ _ _ _ _ Ht0 Hf Hw) as [Hw' Hfm] end;
    (split; [cbn [t_worker set_pc]; assumption|]); rewrite ?Epc; cbn [t_pc set_pc relevant mainonly orb].
  all: try (left; split; [reflexivity|first [assumption|left; reflexivity]]).
  all: try (right; left; eexists; split; [reflexivity|split; [eassumption|first [left; split; [reflexivity|now apply Nat.ltb_lt]|right; split; [reflexivity|now apply Nat.ltb_ge]]]]).
  all: try (right; right; left; split; reflexivity).
  all: try (right; right; right; left; split; reflexivity).
  all: try (right; right; right; right; left; split; reflexivity).
  all: try (right; right; right; right; right; left; split; reflexivity).
  all: try (right; right; right; right; right; right; eexists; split; [reflexivity|split; [eassumption|first [left; split; [reflexivity|now apply Nat.ltb_lt]|right; split; [reflexivity|now apply Nat.ltb_ge]]]]).
Qed.
