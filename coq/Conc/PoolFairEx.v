(* C12: non-vacuity of the liveness theorems (their hypotheses are satisfiable) *)
From Coq Require Import List Arith Bool Lia.
Import ListNotations.
From ZV.Conc Require Import Sched PoolModel PoolLemmas PoolInv4 PoolTheorems PoolExamples.
From ZV.Conc Require Import PoolTermDefs PoolTerm PoolFair.

Lemma nv_dag : dag nv_bodies.
Proof.
  intros j x. destruct j as [|[|[|[|[|j]]]]]; cbn; intros H; try tauto.
  - destruct H as [<-|[]]. cbn. lia.
  - destruct j; destruct H.
Qed.

Lemma nv_tryonly : tryonly nv_bodies.
Proof.
  intros j x. destruct j as [|[|[|[|[|j]]]]]; cbn; intros H; try tauto.
  - destruct H as [<-|[]]. reflexivity.
  - destruct j; destruct H.
Qed.

(* the round-robin scheduler over 2 clients + up to 3 workers + spare ids completes the run of PoolExamples.nv_* *)
Example fair_example :
  exists i, let s := state_at true nv_bodies nv_progs 2 1 (fun i => (i mod max_threads nv_progs 2, 0)) i in
    all_done s = true /\ pending (sg s) = [] /\ running s = [] /\
    forall k, k < next (sg s) -> cnt k (done (sg s)) = 1 /\ cnt k (started (sg s)) = 1.
Proof.
  destruct (dag_weights nv_progs 2 nv_bodies nv_dag) as (JW & HW).
  apply (fair_run_completes nv_bodies nv_progs 2 1 JW); auto.
  - discriminate.
  - exact nv_tryonly.
  - apply round_robin_fair. cbn. lia.
Qed.
