(* Layer 1: role discipline and mutual exclusion. *)
From Coq Require Import List Arith Bool Lia ZArith.
Import ListNotations.
From ZV.Conc Require Import Sched PoolModel PoolLemmas PoolInvDefs.

Definition RoleOK (s : state) := Forall (fun th => role_ok th = true) (st s).
(* exactly the owner is inside a critical section *)
Definition MutexOK (s : state) := sumf nholds (st s) = match owner (sp s) with Some _ => 1 | None => 0 end.

Lemma role_wake_push th : role_ok th = true -> role_ok (wake_push th) = true.
Proof. unfold role_ok, wake_push. destruct (t_pc th) eqn:E; cbn; rewrite ?E; auto; destruct (t_worker th); cbn; auto. Qed.
Lemma role_wake_pop th : role_ok th = true -> role_ok (wake_pop th) = true.
Proof. unfold role_ok, wake_pop. destruct (t_pc th) eqn:E; cbn; rewrite ?E; auto; destruct (t_worker th); cbn; auto. Qed.

Lemma role_finish cfg tid th g th' g' :
  role_ok th = true -> finish_op cfg tid th g = (th', g') -> role_ok th' = true.
Proof.
  intros Hr H. apply finish_op_cases in H.
  destruct H as [(Hw & k & j & r & _ & -> & _)|[(Hw & _ & -> & _)|(Hw & c & ops' & Hn & -> & _)]]; cbn; auto.
  apply next_client_pc in Hn. unfold role_ok; cbn.
  destruct Hn as [(k & j & ->)|[->|[(n & ->)|[(_ & [[-> _]|[-> _]] & _)|(_ & -> & _)]]]]; auto.
Qed.

Ltac role_th HR Hth := let Hr := fresh "Hrole" in pose proof (Forall_nth_error _ _ _ _ HR Hth) as Hr; cbn beta in Hr.

Lemma role_step cfg tid w s s' : RoleOK s -> step cfg tid w s = Some s' -> RoleOK s'.
Proof.
  unfold RoleOK. intros HR H. step_inv H; cbn; role_th HR Hth;
    try (apply Forall_app; split; [|apply Forall_repeat; reflexivity]);
    apply Forall_upd;
    try (apply Forall_signal; [apply role_wake_pop|]);
    try (apply Forall_broadcast; [first [apply role_wake_pop|apply role_wake_push]|]);
    try (apply Forall_wake_pushers; [apply role_wake_push|]);
    auto;
    try (eapply role_finish; [|eassumption]; try exact Hrole);
    try (unfold role_ok in *; cbn; rewrite Epc in Hrole; destruct (t_worker th); cbn in *; congruence).
Qed.

Lemma nholds_wake_push th : nholds (wake_push th) = nholds th.
Proof. unfold nholds, wake_push. destruct (t_pc th) eqn:E; cbn; rewrite ?E; auto. Qed.
Lemma nholds_wake_pop th : nholds (wake_pop th) = nholds th.
Proof. unfold nholds, wake_pop. destruct (t_pc th) eqn:E; cbn; rewrite ?E; auto. Qed.

Lemma finish_not_holding cfg tid th g th' g' : finish_op cfg tid th g = (th', g') -> nholds th' = 0.
Proof.
  intros H. apply finish_op_cases in H.
  destruct H as [(Hw & k & j & r & _ & -> & _)|[(Hw & _ & -> & _)|(Hw & c & ops' & Hn & -> & _)]]; cbn; auto.
  apply next_client_pc in Hn. unfold nholds; cbn.
  destruct Hn as [(k & j & ->)|[->|[(n & ->)|[(_ & [[-> _]|[-> _]] & _)|(_ & -> & _)]]]]; auto.
Qed.

(* the thread lists produced by a step, as far as a wake-invariant sum is concerned *)
Lemma sum_step_wake (f : thread -> nat) ths ths' tid th x :
  sumf f ths' = sumf f ths -> nth_error ths' tid = Some th -> sumf f (upd tid x ths') + f th = sumf f ths + f x.
Proof. intros Hs Hn. rewrite <- Hs. now apply sumf_upd. Qed.

Ltac not_asleep Epc := first [unfold asleep_pop; rewrite Epc; reflexivity | unfold asleep_push; rewrite Epc; reflexivity].

(* [sum_upd f Hpush Hpop]: poses the equation  sumf f (new list) + f th = sumf f (old list) + f th'  for a sum
   that the wake functions leave alone (Hpush : forall th, f (wake_push th) = f th, Hpop likewise) *)
Ltac sum_upd f Hpush Hpop :=
  repeat match goal with
         | |- context [sumf f (?a ++ ?b)] => rewrite (sumf_app f a b)
         | |- context [sumf f (repeat ?x ?n)] => rewrite (sumf_repeat f x n)
         end;
  let Hs := fresh "Hs" in
  match goal with
  | Hth : nth_error ?ths ?t = Some ?th, Epc : t_pc ?th = _ |- context [sumf f (upd ?t ?x (signal ?g wake_pop ?ww ?ths))] =>
    pose proof (sum_step_wake f ths _ t th x (sumf_signal_same f g wake_pop ww ths Hpop) (nth_error_signal g wake_pop ww ths t th Hth ltac:(not_asleep Epc))) as Hs
  | Hth : nth_error ?ths ?t = Some ?th, Epc : t_pc ?th = _ |- context [sumf f (upd ?t ?x (broadcast wake_pop ?ths))] =>
    pose proof (sum_step_wake f ths _ t th x (sumf_broadcast_same f wake_pop ths Hpop) (nth_error_broadcast_pop ths t th Hth ltac:(not_asleep Epc))) as Hs
  | Hth : nth_error ?ths ?t = Some ?th, Epc : t_pc ?th = _ |- context [sumf f (upd ?t ?x (broadcast wake_push ?ths))] =>
    pose proof (sum_step_wake f ths _ t th x (sumf_broadcast_same f wake_push ths Hpush) (nth_error_broadcast_push ths t th Hth ltac:(not_asleep Epc))) as Hs
  | Hth : nth_error ?ths ?t = Some ?th, Epc : t_pc ?th = _ |- context [sumf f (upd ?t ?x (wake_pushers ?b ?ww ?ths))] =>
    pose proof (sum_step_wake f ths _ t th x (sumf_wake_pushers_same f b ww ths Hpush) (nth_error_wake_pushers b ww ths t th Hth ltac:(not_asleep Epc))) as Hs
  | Hth : nth_error ?ths ?t = Some ?th |- context [sumf f (upd ?t ?x ?ths)] =>
    pose proof (sumf_upd f t x ths th Hth) as Hs
  end.

Lemma is_free_owner p : is_free p = true -> owner p = None.
Proof. unfold is_free. destruct (owner p); auto; discriminate. Qed.

Lemma mutex_step cfg tid w s s' : MutexOK s -> step cfg tid w s = Some s' -> MutexOK s'.
Proof.
  unfold MutexOK. intros HM H.
  step_inv H; cbn;
    try (apply is_free_owner in E; rewrite E in HM);
    try match goal with Hf : finish_op _ _ _ _ = _ |- _ => pose proof (finish_not_holding _ _ _ _ _ _ Hf) end;
    sum_upd nholds nholds_wake_push nholds_wake_pop; unfold nholds in *; cbn in *; rewrite ?Epc in *; cbn in *; destruct (owner (sp s)); lia.
Qed.
