(* C12 round 3: the coarse model PoolShared (several clients on one pool) moves the pool by the SAME six transitions
   (PoolAbs.vtrans) that every step of the fine-grained model PoolModel is proved to be (PoolAbs.step_is_pool_transition):
   both are refinements of one transition system on the clients' view of the pool. *)
From Coq Require Import List Arith Bool Lia Permutation.
Import ListNotations.
From ZV.Conc Require PoolShared.
From ZV.Conc Require Import PoolModel PoolAbs.

Definition aview (s : PoolShared.astate) : view :=
  mkV (map fst (PoolShared.a_pend s)) (map fst (PoolShared.running s)) (map fst (PoolShared.a_done s))
      (PoolShared.a_busy s) (PoolShared.a_limit s) (length (PoolShared.a_work s)) (PoolShared.afull s).

Theorem astep_is_pool_transition a s s' : PoolShared.astep a s = Some s' -> vtrans (aview s) (aview s').
Proof.
  unfold PoolShared.astep. destruct (a <? length (PoolShared.a_progs s)).
  - destruct (nth a (PoolShared.a_progs s) []) as [|o r]; [discriminate|].
    destruct o.
    + destruct (PoolShared.afull s) eqn:Ef; intro H; inversion H; subst; clear H.
      * apply VT_stutter; unfold same_pool; auto.
      * apply VT_push with (t := PoolShared.a_next s); unfold same_pool; cbn; auto. rewrite map_app. auto.
    + destruct (PoolShared.afull s) eqn:Ef; intro H; inversion H; subst; clear H.
      * apply VT_stutter; unfold same_pool; cbn; auto.
      * apply VT_push with (t := PoolShared.a_next s); unfold same_pool; cbn; auto. rewrite map_app. auto.
    + destruct (n =? 0) eqn:En; intro H; inversion H; subst; clear H.
      * apply VT_stutter; unfold same_pool; cbn; auto.
      * apply Nat.eqb_neq in En. apply VT_resize; cbn; auto.
        -- unfold PoolShared.running. cbn. rewrite PoolShared.running_app_idle. auto.
        -- rewrite app_length, repeat_length. lia.
        -- right. rewrite app_length, repeat_length. lia.
    + destruct (PoolShared.has_job a s); intro H; inversion H; subst; clear H.
      apply VT_stutter; unfold same_pool; cbn; auto.
  - destruct (nth_error (PoolShared.a_work s) (a - length (PoolShared.a_progs s))) as [w|] eqn:Ew; [|discriminate].
    destruct w.
    + destruct (PoolShared.a_pend s) as [|e p'] eqn:Ep; [discriminate|].
      destruct (PoolShared.a_busy s <? PoolShared.a_limit s) eqn:Eb; [|discriminate].
      intro H; inversion H; subst; clear H. apply Nat.ltb_lt in Eb.
      apply VT_pop with (t := fst e); cbn; auto.
      * rewrite Ep. auto.
      * unfold PoolShared.running. cbn.
        change (fst e :: map fst (flat_map PoolShared.wrun (PoolShared.a_work s))) with (map fst (e :: flat_map PoolShared.wrun (PoolShared.a_work s))).
        apply Permutation_map. apply PoolShared.running_upd_idle_run; auto.
      * apply PoolShared.upd_length.
    + intro H; inversion H; subst; clear H.
      apply VT_complete with (t := fst e); unfold same_pool; cbn; auto.
      * unfold PoolShared.running. cbn.
        change (fst e :: map fst (flat_map PoolShared.wrun (PoolShared.upd (a - length (PoolShared.a_progs s)) PoolShared.WFin (PoolShared.a_work s))))
          with (map fst (e :: flat_map PoolShared.wrun (PoolShared.upd (a - length (PoolShared.a_progs s)) PoolShared.WFin (PoolShared.a_work s)))).
        apply Permutation_map. apply PoolShared.running_upd_run_fin; auto.
      * rewrite map_app. auto.
      * repeat split; auto. apply PoolShared.upd_length.
    + intro H; inversion H; subst; clear H.
      apply VT_release; cbn; auto.
      * unfold PoolShared.running. cbn. rewrite PoolShared.running_upd_fin_idle; auto.
      * apply PoolShared.upd_length.
Qed.
