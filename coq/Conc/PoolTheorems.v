(* C12 theorems, safety part.  All quantify over: every job table [bodies], every tuple of client
   programs [progs] (non-empty: client 0 is the thread that created the pool and frees it), every thread
   count n >= 1, every queue size q >= 0, and EVERY schedule (list of (thread, wake choice)). *)
From Coq Require Import List Arith Bool Lia ZArith.
Import ListNotations.
From ZV.Conc Require Import Sched SchedLemmas PoolModel PoolLemmas PoolInvDefs PoolInv1 PoolInv2 PoolInv3 PoolInv4 PoolInv5 PoolSafety.

Definition reach (fx : bool) bodies progs n q sched : state :=
  run state (step (mkcfg fx progs bodies)) sched (init progs n q).

Lemma sumf_ncur_running k ths :
  sumf (ncur k) ths = cnt k (flat_map (fun th => match t_cur th with Some e => [e] | None => [] end) ths).
Proof.
  induction ths as [|th r IH]; [reflexivity|]. cbn [sumf flat_map]. rewrite cnt_app, <- IH. unfold ncur at 1. destruct (t_cur th); unfold cnt; cbn; lia.
Qed.

(* 1. the ring *)
Theorem ring_inv fx bodies progs n q sched :
  progs <> [] -> 1 <= n ->
  let s := reach fx bodies progs n q sched in
  Ring (sp s) (pending (sg s)) /\ (qempty (sp s) = true <-> pending (sg s) = []).
Proof.
  intros Hp Hn s. pose proof (sf_ring _ _ (safe_reachable_any fx bodies progs n q sched Hp Hn)) as HR. fold (reach fx bodies progs n q sched) in HR. fold s in HR.
  split; [exact HR|]. destruct HR as (_ & _ & _ & _ & He & _). rewrite He. destruct (pending (sg s)); cbn; split; intros; congruence.
Qed.

(* 2. exactly once *)
Theorem exactly_once fx bodies progs n q sched k :
  progs <> [] -> 1 <= n ->
  let s := reach fx bodies progs n q sched in
  let total := cnt k (pending (sg s)) + cnt k (running s) + cnt k (done (sg s)) in
  (k < next (sg s) -> total = 1) /\ (next (sg s) <= k -> total = 0) /\
  cnt k (started (sg s)) <= 1 /\ cnt k (done (sg s)) <= cnt k (started (sg s)).
Proof.
  intros Hp Hn s total. pose proof (safe_reachable_any fx bodies progs n q sched Hp Hn) as HS. fold (reach fx bodies progs n q sched) in HS. fold s in HS.
  pose proof (sf_tickets _ _ HS k) as [H1 H2]. pose proof (sf_started _ _ HS k) as H3.
  unfold total, running. rewrite <- sumf_ncur_running.
  assert (Hle : sumf (nrun k) (st s) <= sumf (ncur k) (st s)).
  { apply sumf_le. intros th. unfold nrun. destruct (posting (t_pc th)); lia. }
  repeat split; auto; destruct (Nat.lt_ge_cases k (next (sg s))) as [Hk|Hk]; try specialize (H1 Hk); try specialize (H2 Hk); lia.
Qed.

(* 3. POOL_joinJobs postcondition: when the call is about to return, every job accepted so far has finished *)
Lemma cur_busy th : cur_ok th = true -> nbusy th = 0 -> t_cur th = None.
Proof.
  unfold cur_ok, nbusy. destruct (t_cur th); auto. intros H. apply andb_prop in H. destruct H as [-> H].
  cbn. destruct (t_pc th); cbn in *; try discriminate.
Qed.

Lemma flat_cur_nil ths : Forall (fun th => t_cur th = None) ths ->
  flat_map (fun th => match t_cur th with Some e => [e] | None => [] end) ths = [].
Proof. induction 1 as [|x l Hx _ IH]; [reflexivity|]. cbn [flat_map]. rewrite Hx. exact IH. Qed.

Theorem joinJobs_post fx bodies progs n q sched t th :
  progs <> [] -> 1 <= n ->
  let s := reach fx bodies progs n q sched in
  nth_error (st s) t = Some th -> t_pc th = JUnlock ->
  pending (sg s) = [] /\ running s = [] /\ forall k, k < next (sg s) -> cnt k (done (sg s)) = 1.
Proof.
  intros Hp Hn s Hth Hpc. pose proof (safe_reachable_any fx bodies progs n q sched Hp Hn) as HS. fold (reach fx bodies progs n q sched) in HS. fold s in HS.
  pose proof (sf_assert _ _ HS _ _ Hth) as HA. unfold assert_ok in HA. rewrite Hpc in HA. apply andb_prop in HA. destruct HA as [He Hb].
  apply Nat.eqb_eq in Hb.
  assert (Hpend : pending (sg s) = []).
  { destruct (sf_ring _ _ HS) as (_ & _ & _ & _ & He' & _). rewrite He in He'. destruct (pending (sg s)); auto. discriminate. }
  assert (Hcur : Forall (fun th => t_cur th = None) (st s)).
  { pose proof (sf_busy _ _ HS) as HB. unfold BusyOK in HB. rewrite Hb in HB. symmetry in HB. apply sumf_zero in HB.
    pose proof (sf_cur _ _ HS) as HC. unfold CurOK in HC.
    apply Forall_forall. intros x Hx. rewrite Forall_forall in HC, HB. apply cur_busy; auto. }
  assert (Hrun : running s = []).
  { unfold running. now apply flat_cur_nil. }
  repeat split; auto. intros k Hk.
  pose proof (sf_tickets _ _ HS k) as [H1 _]. specialize (H1 Hk). rewrite Hpend in H1.
  rewrite sumf_ncur_running in H1. fold (running s) in H1. rewrite Hrun in H1. unfold cnt at 1 2 in H1. cbn in H1. exact H1.
Qed.

(* 4. POOL_tryAdd: a refusal changes nothing but the mutex owner and the refusal log; an acceptance
      enqueues exactly the posted job under a fresh ticket *)
Theorem tryAdd_refusal_lossless cfg tid w s s' th j :
  step cfg tid w s = Some s' -> nth_error (st s) tid = Some th -> t_pc th = PLock KTry j ->
  (is_full (sp s) = true ->
     sp s' = set_owner (Some tid) (sp s) /\ pending (sg s') = pending (sg s) /\ next (sg s') = next (sg s) /\
     done (sg s') = done (sg s) /\ started (sg s') = started (sg s) /\ refused (sg s') = refused (sg s) ++ [j]) /\
  (is_full (sp s) = false -> shutdown (sp s) = false ->
     pending (sg s') = pending (sg s) ++ [(next (sg s), j)] /\ next (sg s') = S (next (sg s)) /\ refused (sg s') = refused (sg s)).
Proof.
  intros H Hth Hpc. unfold step in H. rewrite Hth, Hpc in H.
  destruct (is_free (sp s)); [|discriminate]. destruct (is_full (sp s)).
  - inversion H; subst; cbn. split; [auto 10|intros; discriminate].
  - destruct (shutdown (sp s)); inversion H; subst; cbn; split; intros; try discriminate; auto.
Qed.
