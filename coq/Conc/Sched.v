(* Generic interleaving semantics (DESIGN 5.5).  Definitions only; lemmas are in SchedLemmas.v.

   A system is given by [step : tid -> choice -> St -> option St]:
   the atomic section of thread [tid] from the synchronisation operation it is
   standing at up to (not including) its next synchronisation operation;
   [None] = the thread is disabled (mutex taken, asleep on a condition,
   joining an unfinished thread, finished).  [choice] resolves the
   non-determinism inside the operation (which waiter pthread_cond_signal wakes).
   A schedule is a list of (tid, choice); disabled picks are skipped, so that
   EVERY list is a schedule and theorems quantify over all lists. *)
From Coq Require Import List.
Import ListNotations.

Section Sched.
  Variable St : Type.
  Variable step : nat -> nat -> St -> option St.

  Definition exec (s : St) (c : nat * nat) : St :=
    match step (fst c) (snd c) s with Some s' => s' | None => s end.

  Definition run (sched : list (nat * nat)) (s : St) : St := fold_left exec sched s.

  Definition enabled (t : nat) (s : St) : bool :=
    match step t 0 s with Some _ => true | None => false end.

  (* strict run: None as soon as a disabled thread is picked (used by the lock-step tie) *)
  Fixpoint run_strict (sched : list (nat * nat)) (s : St) : option St :=
    match sched with
    | [] => Some s
    | c :: r => match step (fst c) (snd c) s with Some s' => run_strict r s' | None => None end
    end.

End Sched.
