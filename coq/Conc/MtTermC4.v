(* C11, termination under fairness, part 9: R2 (every step of a pool thread strictly decreases the potential AA) and R1 (no step of
   the application thread increases it; [slack] = the steps that decrease it for sure). *)
From Coq Require Import List NArith ZArith Bool Arith Lia.
Import ListNotations.
From ZV.Conc Require Import Sched SchedLemmas MtModel MtProofs MtRing MtRingC MtPool MtFrame MtSleep MtStep MtLive MtErr.
From ZV.Conc Require Import MtTermDefs MtTermW MtTermA MtTermS MtTermR MtTermC1 MtTermC2 MtTermC3.
Local Open Scope nat_scope.
(* ------------------------------------------------------------------ *)
(* a pool thread leaves the caller's potential alone                    *)

Definition cl_same (s s' : state) : Prop :=
  mt s' = mt s /\ awake (c_pc (cl s')) = awake (c_pc (cl s)) /\ cl_pc CDone (cl s') = cl_pc CDone (cl s).
Lemma cls_refl s : cl_same s s. Proof. repeat split. Qed.
Lemma cls_trans a b c : cl_same a b -> cl_same b c -> cl_same a c.
Proof. unfold cl_same. intros (?&?&?) (?&?&?). repeat split; congruence. Qed.
Lemma cls_set_w t w s : cl_same s (set_w t w s). Proof. repeat split. Qed.
Lemma cls_set_pl x s : cl_same s (set_pl x s). Proof. repeat split. Qed.
Lemma cls_set_job k j s : cl_same s (set_job k j s). Proof. repeat split. Qed.
Lemma cls_set_sr x s : cl_same s (set_sr x s). Proof. repeat split. Qed.
Lemma cls_set_ws x s : cl_same s (set_ws x s). Proof. repeat split. Qed.
Lemma cls_wake_ldm s : cl_same s (wake_caller_ldm s).
Proof. unfold wake_caller_ldm. destruct (c_pc (cl s)) eqn:E; unfold cl_same; cbn; rewrite ?E; repeat split. Qed.
Lemma cls_wake_job cfg k s : cl_same s (wake_caller_job cfg k s).
Proof.
  unfold wake_caller_job. destruct (c_pc (cl s)) eqn:E; try (unfold cl_same; cbn; rewrite ?E; repeat split; fail);
    destruct (Nat.eqb _ _); unfold cl_same; cbn; rewrite ?E; repeat split.
Qed.

Ltac cls_solve :=
  repeat first [ apply cls_refl
               | eapply cls_trans; [|first [apply cls_set_w|apply cls_set_pl|apply cls_set_job|apply cls_set_sr|apply cls_set_ws
                                           |apply cls_wake_ldm|apply cls_wake_job]] ].

Lemma worker_step_cl cfg t s s' : worker_step cfg t s = Some s' -> cl_same s s'.
Proof.
  unfold worker_step. intros H.
  destruct (nth_error (ws s) t) as [w|]; [|discriminate].
  destruct (w_pc w); try discriminate;
    repeat match type of H with
           | (if ?b then _ else _) = _ => destruct b
           | match ?x with Some _ => _ | None => _ end = _ => destruct x
           end; inv_some H;
    repeat match goal with |- context[if ?b then _ else _] => destruct b end; cls_solve.
Qed.

Lemma ac_cl_same cfg s s' : cl_same s s' -> (forall k, j_size (getj s' k) = j_size (getj s k)) -> Ac cfg s' = Ac cfg s.
Proof.
  intros (Em & Ep & Ec) Hs.
  assert (E1 : c_ops (cl s') = c_ops (cl s)) by (change (c_ops (cl s')) with (c_ops (cl_pc CDone (cl s'))); rewrite Ec; reflexivity).
  assert (E2 : c_in (cl s') = c_in (cl s)) by (change (c_in (cl s')) with (c_in (cl_pc CDone (cl s'))); rewrite Ec; reflexivity).
  assert (E3 : c_out (cl s') = c_out (cl s)) by (change (c_out (cl s')) with (c_out (cl_pc CDone (cl s'))); rewrite Ec; reflexivity).
  assert (E4 : psz cfg s' = psz cfg s) by (unfold psz; rewrite Em, Hs; reflexivity).
  assert (E5 : FT cfg s' = FT cfg s) by (unfold FT, NPf; rewrite Em, E4; reflexivity).
  assert (E6 : AcN cfg s' = AcN cfg s) by (unfold AcN; rewrite E1, E2, E3, E5; reflexivity).
  unfold Ac. rewrite Ep, Em, E1, E4, E5, E6. reflexivity.
Qed.

(* R2: every step of a pool thread strictly decreases the potential *)
Lemma aa_worker_step cfg t s s' :
  KInv cfg s -> length (ws s) = c_nbw cfg -> worker_step cfg t s = Some s' -> AA cfg s' < AA cfg s.
Proof.
  intros K HL H. unfold AA.
  rewrite (ac_cl_same cfg s s' (worker_step_cl cfg t s s' H) (worker_step_size cfg t s s' H)).
  pose proof (aw_worker_step cfg t s s' K HL H). lia.
Qed.

(* ------------------------------------------------------------------ *)
(* R1: no step of the application thread increases the potential        *)

Lemma nbc_le cfg s k : (0 < c_chunk cfg)%N -> nbc cfg s k <= n2 (j_size (getj s k)).
Proof.
  intros Hc. unfold nbc, nb_chunks. set (z := j_size (getj s k)).
  assert ((z + (c_chunk cfg - 1)) / c_chunk cfg <= z)%N; [|lia].
  destruct (N.eq_dec z 0) as [->|Hz].
  - rewrite N.add_0_l. rewrite N.div_small by lia. lia.
  - apply N.div_le_upper_bound; [lia|]. nia.
Qed.

Lemma pre_of_tinv cfg s : TInv cfg s -> Pre cfg s.
Proof. intros (K & (T & _) & _). split; [exact (k_len _ _ K)|exact T]. Qed.

Lemma caller_awake cfg w s s' : caller_step cfg w s = Some s' -> cz (c_pc (cl s)) = 1.
Proof. unfold caller_step. cbn zeta. destruct (c_pc (cl s)); try discriminate; reflexivity. Qed.

Lemma cz_le p : cz p <= 1. Proof. unfold cz. destruct (nzp p); lia. Qed.

(* strictness: which steps of the application thread decrease the potential for sure *)
Definition slack (cfg : config) (s : state) : nat :=
  match c_pc (cl s) with
  | CInUse _ | CLdm1 | CLdm2 | CFlush => 0
  | CTryAdd => if Nat.eqb (busy (pl s)) (c_nbw cfg) || (match q (pl s) with Some _ => true | None => false end) then 0 else 1
  | _ => 1
  end.

Lemma ac_rel_scan_lt cfg i s k fuel :
  length (jobs s) = MR cfg -> Ac cfg (rel_scan cfg i s (S k) fuel) < (MR cfg - k) + relK cfg i (c_ops (cl s)).
Proof.
  intros JL. unfold rel_scan.
  destruct (ac_rel_scan_k cfg i (fun s1 => if i then init_params s1 else finish_op cfg s1 RErr)
              (fun ops => relK cfg i ops - 1)
              ltac:(intros s1 Ha; destruct i; [rewrite ac_init_params; unfold relK; lia|pose proof (ac_finish_err cfg s1 Ha); unfold relK; lia])
              fuel s (S k)) as [X|(k' & X1 & X2 & X3 & X4)].
  - assert (1 <= relK cfg i (c_ops (cl s))) by (unfold relK; destruct i; lia). lia.
  - unfold Ac. rewrite X1. cbn [awake]. rewrite X4. lia.
Qed.

Lemma ac_finish_ft cfg s r : Pre cfg s -> Ac cfg (finish_op cfg s r) <= opsW cfg (c_ops (cl s)) + FT cfg s.
Proof.
  intros P. unfold finish_op.
  pose proof (ac_start_ops cfg (ops_after r (c_ops (cl s))) (record_res r s) ltac:(pre_same P)) as X.
  change (FT cfg (record_res r s)) with (FT cfg s) in X. pose proof (opsW_after cfg r (c_ops (cl s))). lia.
Qed.

(* nextJobID++ *)
Lemma acn_post cfg s s' :
  c_ops (cl s') = c_ops (cl s) -> c_in (cl s') = c_in (cl s) -> c_out (cl s') = c_out (cl s) ->
  ifill (mt s') = ifill (mt s) -> ended (mt s') = ended (mt s) -> ready (mt s') = false ->
  next (mt s') = (next (mt s) + 1)%N -> done (mt s') = done (mt s) -> (done (mt s) <= next (mt s))%N ->
  AcN cfg s' + (if ready (mt s) then PP cfg + 2 * psz cfg s else 0) = AcN cfg s + 2.
Proof.
  intros A1 A2 A3 A4 A5 A6 A7 A8 A9. unfold AcN, FT, NPf. rewrite A1, A2, A3, A4, A5, A6, A7, A8. lia.
Qed.

Lemma aa_caller_step cfg w s s' :
  (0 < c_chunk cfg)%N -> TInv cfg s -> caller_step cfg w s = Some s' -> AA cfg s' + slack cfg s <= AA cfg s.
Proof.
  intros Hc TI H. pose proof (pre_of_tinv cfg s TI) as P. pose proof (caller_awake cfg w s s' H) as Hz.
  pose proof (cz_le (c_pc (cl s'))) as Hz'.
  pose proof (aw_caller_step cfg w s s' TI H) as HA.
  pose proof TI as (K & A). pose proof (k_pc _ _ K) as PI. unfold PcInv in PI. destruct PI as (PA & PB & PC & PD & PE & PF & PG).
  unfold AA, slack. unfold caller_step in H. cbn zeta in H.
  destruct (c_pc (cl s)) eqn:Epc; try discriminate; cbn [awake relphase] in *;
    try (destruct HA as [HA|(X & _)]; [|discriminate X]).
  - (* CInUse *)
    assert (E : Ac cfg s = AcN cfg s + 1) by (unfold Ac; rewrite Epc; reflexivity).
    destruct (_ <? _)%N; inv_some H; [pose proof (ac_after_inuse cfg s (if (j_psize (jslot cfg s j) =? 0)%N then (j_src (jslot cfg s j), j_size (jslot cfg s j)) else (j_pstart (jslot cfg s j), j_psize (jslot cfg s j))) P)|pose proof (ac_scan_inuse cfg s (j + 1)%N P)]; lia.
  - (* CLdm1 *)
    assert (E : Ac cfg s = AcN cfg s + 1) by (unfold Ac; rewrite Epc; reflexivity).
    destruct (overlap_win _ _); inv_some H; [rewrite ac_at; cbn [awake cz nzp cl set_cpc set_cl cl_pc c_pc]; lia|pose proof (ac_move_prefix cfg s P); lia].
  - (* CLdm2 *)
    assert (E : Ac cfg s = AcN cfg s + 1) by (unfold Ac; rewrite Epc; reflexivity).
    destruct (overlap_win _ _); inv_some H; [rewrite ac_at; cbn [awake cz nzp cl set_cpc set_cl cl_pc c_pc]; lia|pose proof (ac_hand_out cfg s P); lia].
  - (* CGetBuf *)
    destruct (PB eq_refl) as (_ & _ & Er & _). destruct (k_rng _ _ K) as (R1 & _).
    assert (E : Ac cfg s = AcN cfg s + 1 + (PP cfg + 2 * psz cfg s)) by (unfold Ac; rewrite Epc; cbn [awake]; rewrite Er; reflexivity).
    inv_some H. match goal with |- context[set_cpc CFlush ?x] => set (sx := x) in * end.
    rewrite ac_at. cbn [awake]. change (cz (c_pc (cl (set_cpc CFlush sx)))) with 1.
    pose proof (acn_post cfg s sx eq_refl eq_refl eq_refl eq_refl eq_refl Er eq_refl eq_refl R1) as E2.
    rewrite Er in E2. unfold PP, JWc in *. lia.
  - (* CTryAdd *)
    destruct (k_rng _ _ K) as (R1 & _).
    assert (E : Ac cfg s = AcN cfg s + 1 + (if ready (mt s) then 0 else PP cfg + 2 * psz cfg s)) by (unfold Ac; rewrite Epc; reflexivity).
    destruct (_ || _) eqn:Eb; inv_some H.
    + destruct HA as [HA|(_ & Q1 & Q2 & _)]; [|cbn in Q2; congruence].
      match goal with |- context[set_cpc CFlush ?x] => set (sx := x) in * end.
      rewrite ac_at. cbn [awake]. change (cz (c_pc (cl (set_cpc CFlush sx)))) with 1.
      assert (E2 : AcN cfg sx = AcN cfg s + (if ready (mt s) then 0 else PP cfg + 2 * psz cfg s)).
      { unfold AcN, FT. change (psz cfg sx) with (psz cfg s). change (NPf sx) with (NPf s). cbn [mt cl sx set_mt mt_ring ready next done ifill].
        destruct (ready (mt s)); lia. }
      lia.
    + match goal with |- context[set_cpc CFlush ?x] => set (sx := x) in * end.
      rewrite ac_at. cbn [awake]. change (cz (c_pc (cl (set_cpc CFlush sx)))) with 1.
      pose proof (acn_post cfg s sx eq_refl eq_refl eq_refl eq_refl eq_refl eq_refl eq_refl eq_refl R1) as E2.
      pose proof (nbc_le cfg s (slot cfg (next (mt s))) Hc) as Hn. fold (psz cfg s) in Hn.
      assert (HA2 : Aw cfg (set_cpc CFlush sx) <= Aw cfg s + jobW cfg s (slot cfg (next (mt s))) + 1) by (destruct HA as [HA|(_ & _ & _ & _ & _ & HA)]; lia).
      unfold jobW, PP, JWc in *. destruct (ready (mt s)); lia.
  - (* CFlush *)
    assert (E : Ac cfg s = AcN cfg s + 1) by (unfold Ac; rewrite Epc; reflexivity).
    destruct (_ && _); inv_some H; [rewrite ac_at; cbn [awake cz nzp cl set_cpc set_cl cl_pc c_pc]; lia|pose proof (ac_flush_body cfg s P); lia].
  - (* CRelBuf *)
    assert (E : Ac cfg s = AcN cfg s) by (unfold Ac; rewrite Epc; reflexivity).
    inv_some H. match goal with |- context[complete_job cfg ?x] => set (sx := x) in * end.
    pose proof (ac_complete_job cfg sx ltac:(pre_same P)) as X. change (AcN cfg sx) with (AcN cfg s) in X.
    change (done (mt sx)) with (done (mt s)) in X. change (next (mt sx)) with (next (mt s)) in X.
    rewrite (proj2 (N.ltb_lt _ _) PD) in X. lia.
  - (* CWait *)
    assert (E : Ac cfg s = 2 * n2 (next (mt s) - done (mt s)) + MR cfg + 1 + relK cfg i (c_ops (cl s))) by (unfold Ac; rewrite Epc; reflexivity).
    destruct (negb _); inv_some H; [rewrite ac_at; cbn [awake cz nzp cl set_cpc set_cl cl_pc c_pc]; lia|].
    match goal with |- context[wait_all cfg i ?x] => set (sx := x) in *; pose proof (ac_wait_all cfg i sx) as X end.
    change (c_ops (cl sx)) with (c_ops (cl s)) in X. change (next (mt sx)) with (next (mt s)) in X.
    change (done (mt sx)) with (done (mt s) + 1)%N in X. lia.
  - (* CRelAll *)
    assert (E : Ac cfg s = (MR cfg - k) + relK cfg i (c_ops (cl s))) by (unfold Ac; rewrite Epc; reflexivity).
    inv_some H. match goal with |- context[rel_scan cfg i ?x (S k) ?f] => pose proof (ac_rel_scan_lt cfg i x k f) as X end.
    cbn [jobs zero_slot set_job set_jobs set_pl] in X. rewrite upd_length in X. specialize (X (proj1 P)).
    cbn [c_ops cl zero_slot set_job set_jobs set_pl] in X. lia.
  - (* CInitBuf *)
    assert (E : Ac cfg s = initW cfg (c_ops (cl s))) by (unfold Ac; rewrite Epc; reflexivity).
    match type of H with Some (set_cpc _ ?x) = _ => set (s1 := x) in * end.
    assert (F : FT cfg s1 = WJ cfg + RELC cfg) by (unfold FT, NPf; cbn; lia).
    assert (P1 : Pre cfg s1) by (pre_same P).
    inv_some H.
    rewrite ac_at. cbn [awake]. change (c_ops (cl s1)) with (c_ops (cl s)). unfold initW in E. lia.
  - (* CInitSeq *)
    assert (E : Ac cfg s = opsW cfg (c_ops (cl s)) + FT cfg s + 1) by (unfold Ac; rewrite Epc; reflexivity).
    destruct (ldm (mt s)); inv_some H.
    + match goal with |- context[finish_op cfg ?x _] => set (s1 := x) in * end.
      pose proof (ac_finish_ft cfg s1 (ROk 0) ltac:(pre_same P)) as X.
      change (c_ops (cl s1)) with (c_ops (cl s)) in X. change (FT cfg s1) with (FT cfg s) in X. lia.
    + match goal with |- context[finish_op cfg ?x _] => set (s1 := x) in * end.
      pose proof (ac_finish_ft cfg s1 (ROk 0) ltac:(pre_same P)) as X.
      change (c_ops (cl s1)) with (c_ops (cl s)) in X. change (FT cfg s1) with (FT cfg s) in X. lia.
Qed.
