(* C11: pool-thread steps preserve the geometry invariant; the invariant holds in every reachable state; input ranges are safe. *)
From Coq Require Import List NArith ZArith Bool Arith Lia.
Import ListNotations.
From ZV.Conc Require Import Sched SchedLemmas MtModel MtProofs.
From ZV.Conc Require Import MtRing MtRingC MtFrame MtSleep MtStep MtLive MtGeo MtGeoC.
Local Open Scope N_scope.

(* ------------------------------------------------------------------ *)
(* a pool thread only moves [consumed] (and flags) of its own job; an unfinished job was unfinished before *)

Definition jgs (j : job) : N * N * N * N * N := (j_src j, j_size j, j_pstart j, j_psize j, j_lap j).
Definition Rj (j' j : job) : Prop := jgs j' = jgs j /\ (unfin j' -> unfin j).

Lemma rj_refl j : Rj j j. Proof. split; auto. Qed.
Lemma jgs_fields j j' : jgs j' = jgs j ->
  j_src j' = j_src j /\ j_size j' = j_size j /\ j_pstart j' = j_pstart j /\ j_psize j' = j_psize j /\ j_lap j' = j_lap j.
Proof. unfold jgs. intros H. inversion H. repeat split; reflexivity. Qed.

Lemma rj_set_job s k j' : Rj j' (getj s k) -> forall k0, Rj (getj (set_job k j' s) k0) (getj s k0).
Proof.
  intros E k0. destruct (Nat.eq_dec k k0) as [<-|Hne]; [|rewrite getj_set_job_neq by auto; apply rj_refl].
  destruct (Nat.lt_ge_cases k (length (jobs s))) as [H|H].
  - rewrite getj_set_job_eq by auto. exact E.
  - unfold getj, set_job, set_jobs. cbn [jobs]. rewrite !nth_overflow; auto; [apply rj_refl|]. rewrite upd_length. exact H.
Qed.

Lemma gm_mext cfg s s' pb :
  mgf (mt s') = mgf (mt s) -> (forall k, Rj (getj s' k) (getj s k)) -> GM cfg s pb -> GM cfg s' pb.
Proof.
  intros Hm Hj [B Jg Mo Fw Fs Pr Ne]. apply mgf_fields in Hm. destruct Hm as (Ed & En & Ee & Er & Ec & Ei & Eis & Eif & Eps & Epz & Et & Ept & Ew & El).
  assert (Hin : forall i, inflight s' i <-> inflight s i) by (intros; unfold inflight; rewrite Ed, En; tauto).
  assert (Hlv : forall i, live s' pb i <-> live s pb i) by (intros; unfold live; rewrite Hin, En; tauto).
  assert (Hf : forall i, let j := J cfg s i in let j' := J cfg s' i in
            j_src j' = j_src j /\ j_size j' = j_size j /\ j_pstart j' = j_pstart j /\ j_psize j' = j_psize j /\ j_lap j' = j_lap j)
    by (intros i; apply jgs_fields; apply Hj).
  assert (Hu : forall i, unfin (J cfg s' i) -> unfin (J cfg s i)) by (intros i; apply Hj).
  assert (Hvs : forall i, vs (mt s') (J cfg s' i) = vs (mt s) (J cfg s i)).
  { intros i. destruct (Hf i) as (E1 & _ & _ & _ & E6). unfold vs. rewrite E1, E6, Ec. reflexivity. }
  assert (Hvf : VF (mt s') = VF (mt s)) by (unfold VF; rewrite El, Ec, Er; reflexivity).
  constructor.
  - destruct B as [b1 b2 b3 b4 b5 b6 b7 b8]. constructor; rewrite ?Ec, ?Et, ?Ept, ?Epz, ?Eps, ?Er, ?Ei, ?Eis, ?Eif; auto.
    unfold need_cap in *. rewrite Ew, Et, Ept. exact b1.
  - intros i Hi. apply Hlv in Hi. destruct (Hf i) as (E1 & E2 & E3 & E4 & E6). destruct (Jg i Hi) as [A Bq C D F G H].
    constructor; unfold VF, vs in *; rewrite ?E1, ?E2, ?E3, ?E4, ?E6, ?Et, ?Ept, ?Ec, ?El, ?Er, ?Epz; auto.
  - intros i i' Hi Hi' Hlt. apply Hlv in Hi. apply Hlv in Hi'. destruct (Hf i) as (_ & E2 & _). destruct (Hf i') as (_ & E2' & _ & E4' & _).
    rewrite !Hvs, E2, E2', E4'. apply Mo; auto.
  - intros i Hi Hx. apply Hin in Hi. destruct (Hf i) as (_ & _ & _ & E4 & _). rewrite Hvs, Hvf, E4, Ec. apply Fw; auto.
  - unfold Fstrong. rewrite Ei. intros Hh i Hi Hx. apply Hin in Hi. destruct (Hf i) as (_ & _ & _ & E4 & _). rewrite Hvs, Hvf, E4, Ec, Et. apply Fs; auto.
  - intros Hp. destruct (Pr Hp) as (P1 & P2 & P3). unfold PrepGeo. rewrite En, Ei, El, Er. destruct (Hf (next (mt s))) as (E1 & E2 & _ & _ & E6).
    rewrite E1, E2, E6. auto.
  - rewrite Ee. intros He i Hi. apply Hlv in Hi. destruct (Hf i) as (_ & E2 & _). rewrite E2. apply Ne; auto.
Qed.

Lemma scanto_mext cfg s s' k :
  done (mt s') = done (mt s) -> next (mt s') = next (mt s) -> (forall k, Rj (getj s' k) (getj s k)) -> ScanTo cfg s k -> ScanTo cfg s' k.
Proof. intros Ed En Hj H i Hi Hlt Hu. unfold inflight in Hi. rewrite Ed, En in Hi. apply (H i Hi Hlt). apply Hj. exact Hu. Qed.

Lemma useok_mext cfg s s' use :
  mgf (mt s') = mgf (mt s) -> (forall k, Rj (getj s' k) (getj s k)) -> UseOk cfg s use -> UseOk cfg s' use.
Proof.
  intros Hm Hj U. pose proof Hm as Hm0. apply mgf_fields in Hm. destruct Hm as (Ed & En & Ee & Er & Ec & Ei & Eis & Eif & Eps & Epz & Et & Ept & Ew & El).
  assert (Hin : forall i, inflight s' i <-> inflight s i) by (intros; unfold inflight; rewrite Ed, En; tauto).
  destruct U as [(U1 & U2)|(d & Hd & Sc & Sz & Eu & Fd)].
  - left. split; auto. intros i Hi Hu. apply Hin in Hi. apply (U2 i Hi). apply Hj. exact Hu.
  - right. exists d. destruct (jgs_fields _ _ (proj1 (Hj (slot cfg d)))) as (E1 & E2 & E3 & E4 & E6).
    split; [apply Hin; auto|]. split; [eapply scanto_mext; eauto|]. unfold J in *. rewrite E2.
    split; auto. split; [unfold use_of; rewrite E1, E2, E3, E4; exact Eu|].
    unfold VF, vs. rewrite El, Ec, Er, E4, E1, E6. exact Fd.
Qed.

Lemma worker_geo cfg t s s' : 0 < c_chunk cfg -> KInv cfg s -> worker_step cfg t s = Some s' -> forall k, Rj (getj s' k) (getj s k).
Proof.
  intros Hch K H k. pose proof H as H0. unfold worker_step in H.
  destruct (nth_error (ws s) t) as [w|] eqn:Hw; [|discriminate].
  destruct (Nat.eq_dec k (w_slot w)) as [->|Hne]; [|rewrite (worker_step_own_job cfg t s s' w H0 Hw k Hne); apply rj_refl].
  assert (Hwj : forall c k0 x k1, getj (wake_caller_job c k0 x) k1 = getj x k1) by (intros; apply getj_wake_job).
  assert (Hwl : forall x k1, getj (wake_caller_ldm x) k1 = getj x k1) by (intros; apply getj_wake_ldm).
  destruct (w_pc w) eqn:Epc; try discriminate.
  - destruct (q (pl s)); [destruct (Nat.leb _ _)|]; inv_some H; apply rj_refl.
  - inv_some H. apply rj_refl.
  - inv_some H. apply rj_refl.
  - (* WGetBuf *)
    destruct (negb _); [inv_some H; apply rj_refl|].
    repeat match type of H with (if ?b then _ else _) = _ => destruct b end; inv_some H;
      change (getj (set_w t ?a ?x) ?k1) with (getj x k1);
      change (getj s (w_slot w)) with (getj (set_pl (pl_bp (take (bp_nb (pl s))) (pl s)) s) (w_slot w)) at 2;
      apply rj_set_job; (split; [reflexivity|auto]).
  - (* WJobErr *)
    inv_some H. change (getj (set_w t ?a ?x) ?k1) with (getj x k1). apply rj_set_job. split; [reflexivity|auto].
  - (* WSerial *)
    destruct (_ <? _); [inv_some H; apply rj_refl|]. destruct (negb _); inv_some H; [apply rj_refl|].
    destruct (_ && ldm (mt s)); change (getj (set_w t ?a ?x) ?k1) with (getj x k1); rewrite ?Hwl; apply rj_refl.
  - (* WChunk *)
    inv_some H. change (getj (set_w t ?a ?x) ?k1) with (getj x k1). rewrite Hwj. apply rj_set_job. split; [reflexivity|].
    destruct (k_wrk _ _ K t w Hw) as (i & _ & _ & (_ & Hact & _)); [rewrite Epc; reflexivity|].
    unfold unfin. cbn [j_upd_work j_consumed j_size]. intros X. destruct Hact as [Y|(Y & _)]; [exact Y|lia].
  - (* WEnsure *)
    inv_some H. destruct (_ <=? _); change (getj (set_w t ?a ?x) ?k1) with (getj x k1); rewrite ?Hwl; apply rj_refl.
  - inv_some H. apply rj_refl.
  - inv_some H. apply rj_refl.
  - (* WReport *)
    inv_some H. change (getj (set_w t ?a ?x) ?k1) with (getj x k1). rewrite Hwj. apply rj_set_job. split; [reflexivity|].
    unfold unfin. cbn [j_set_done j_upd_work j_consumed j_size]. lia.
  - inv_some H. apply rj_refl.
Qed.

Lemma worker_step_use cfg t s s' : worker_step cfg t s = Some s' -> c_use (cl s') = c_use (cl s).
Proof.
  unfold worker_step. intros H.
  assert (Hwj : forall c k0 x, c_use (cl (wake_caller_job c k0 x)) = c_use (cl x)).
  { intros. unfold wake_caller_job. destruct (c_pc (cl x)); try reflexivity; destruct (Nat.eqb _ _); reflexivity. }
  assert (Hwl : forall x, c_use (cl (wake_caller_ldm x)) = c_use (cl x)).
  { intros. unfold wake_caller_ldm. destruct (c_pc (cl x)); reflexivity. }
  destruct (nth_error (ws s) t) as [w|]; [|discriminate].
  destruct (w_pc w); try discriminate;
    repeat match type of H with
           | (if ?b then _ else _) = _ => destruct b
           | match ?x with Some _ => _ | None => _ end = _ => destruct x
           end; inv_some H;
    repeat match goal with |- context[if ?b then _ else _] => destruct b end;
    cbn [cl set_w set_ws set_pl set_job set_jobs set_sr]; rewrite ?Hwj, ?Hwl; reflexivity.
Qed.

Lemma gi_worker_step cfg t s s' : 0 < c_chunk cfg -> KInv cfg s -> GInv cfg s -> worker_step cfg t s = Some s' -> GInv cfg s'.
Proof.
  intros Hch K (N & G) H. split; [eapply pg_worker_step; eauto|].
  destruct (worker_step_aux cfg t s s' H) as (Em & Ep & _). pose proof (worker_geo cfg t s s' Hch K H) as Hj. pose proof (worker_step_use cfg t s s' H) as Eu.
  rewrite Em, Ep. intros Ha Hr. destruct (G Ha Hr) as (G1 & P1).
  assert (Hm : mgf (mt s') = mgf (mt s)) by (rewrite Em; reflexivity).
  split.
  - unfold pbof in *. rewrite Em, Ep. eapply gm_mext; eauto.
  - unfold PcGeo in *. rewrite Ep. destruct (awake (c_pc (cl s))) eqn:Eaw; auto; rewrite ?Em, ?Eu.
    + destruct P1 as (A & B & C & D). refine (conj A (conj B (conj C _))). eapply scanto_mext; [rewrite Em; reflexivity|rewrite Em; reflexivity|exact Hj|exact D].
    + destruct P1 as (A & B & C & D). refine (conj A (conj B (conj _ D))). eapply useok_mext; [exact Hm|exact Hj|exact C].
    + destruct P1 as (A & B & C & D). refine (conj A (conj B (conj _ D))). eapply useok_mext; [exact Hm|exact Hj|exact C].
Qed.

(* ------------------------------------------------------------------ *)
(* every reachable state *)

Lemma gi_init cfg ops : ops_ok ops -> geo_ops ops -> GInv cfg (init cfg ops).
Proof.
  intros Ho Hg. unfold init.
  match goal with |- GInv cfg (start_ops cfg ?x ops) => set (s0 := x) end.
  assert (Hg0 : forall k, getj s0 k = job0).
  { intros k. unfold getj, s0. cbn [jobs]. destruct (nth_in_or_default k (repeat job0 (N.to_nat (mask cfg) + 1)) job0) as [H|H]; auto.
    apply repeat_spec in H. exact H. }
  apply gi_start_ops; auto.
  - constructor.
    + constructor; cbn [mt jobs ws pl done next q s0].
      * rewrite repeat_length. pose proof (mask_Mr cfg). lia.
      * pose proof (Mr_pos cfg). lia.
      * intros i (A & B). cbn in A, B. lia.
      * intros t w H A. apply nth_error_repeat in H. subst. discriminate.
      * discriminate.
      * intros t1 t2 w1 w2 H1 H2 A1. apply nth_error_repeat in H1. subst. discriminate.
      * discriminate.
      * intros i (A & B). cbn in A, B. lia.
    + intros k Hk _. left. rewrite Hg0. apply stale_job0.
    + cbn. discriminate.
    + intros _. split; [reflexivity|]. intros k Hk. rewrite Hg0. apply stale_job0.
    + repeat split; cbn; try lia. constructor.
    + cbn. discriminate.
  - split; [cbn; lia|split; [cbn; lia|constructor]].
  - intros _ _ X. discriminate.
  - intros X. discriminate.
Qed.

Theorem ginv_reachable cfg ops sched :
  0 < c_chunk cfg -> ops_ok ops -> geo_ops ops ->
  let s := run state (step cfg) sched (init cfg ops) in TInv cfg s /\ GInv cfg s.
Proof.
  intros Hc Ho Hg. apply (run_invariant state (step cfg) (fun s => TInv cfg s /\ GInv cfg s)).
  - intros s t w s' (TI & GI) Hst. split; [eapply tinv_step; eauto|].
    destruct t as [|t]; cbn [step] in Hst; [eapply gi_caller_step; eauto|eapply gi_worker_step; eauto; apply TI].
  - split; [apply tinv_init; auto|apply gi_init; auto].
Qed.

(* ------------------------------------------------------------------ *)
(* mt_input_ranges_safe *)

(* whenever the application thread holds an input buffer [istart, istart + targetSectionSize) (it writes the caller's bytes into it),
   the buffer lies inside the round buffer and overlaps neither the source nor the prefix of any job in flight that its worker has not
   consumed completely *)
Theorem input_ranges_safe cfg ops sched :
  0 < c_chunk cfg -> ops_ok ops -> geo_ops ops ->
  let s := run state (step cfg) sched (init cfg ops) in
  alldone (mt s) = false -> relphase (awake (c_pc (cl s))) = false -> ihas (mt s) = true ->
  istart (mt s) + target (mt s) <= rcap (mt s) /\ ifill (mt s) <= target (mt s) /\
  forall i, inflight s i -> j_consumed (getj s (slot cfg i)) < j_size (getj s (slot cfg i)) ->
    j_src (getj s (slot cfg i)) + j_size (getj s (slot cfg i)) <= rcap (mt s) /\
    overlap (istart (mt s), target (mt s)) (j_src (getj s (slot cfg i)), j_size (getj s (slot cfg i))) = false /\
    overlap (istart (mt s), target (mt s)) (j_pstart (getj s (slot cfg i)), j_psize (getj s (slot cfg i))) = false.
Proof.
  intros Hc Ho Hg s Ha Hr Hh. destruct (ginv_reachable cfg ops sched Hc Ho Hg) as (TI & (_ & GI)). fold s in TI, GI.
  destruct (GI Ha Hr) as (G & _). pose proof (gm_b _ _ _ G) as B. destruct (bg_ih _ _ B Hh) as (Ei & Hroom & Hf).
  split; [lia|]. split; [exact Hf|]. intros i Hi Hu.
  assert (Hl : live s (pbof s) i) by (left; exact Hi).
  pose proof (gm_j _ _ _ G i Hl) as Gj. fold (J cfg s i) in *.
  assert (Hs : 0 < j_size (J cfg s i)) by lia.
  pose proof (gm_fs _ _ _ G Hh i Hi Hu) as Fs. pose proof (jg_hi _ _ Gj Hs) as Hhi. pose proof (jg_room _ _ Gj Hs) as Hrm. pose proof (jg_lap _ _ Gj) as Hlap.
  pose proof (jgeo_psrc _ _ Gj Hs) as Hps. pose proof (bg_t _ _ B) as Ht. pose proof (jg_size _ _ Gj) as Hsz.
  unfold VF, vs in *. rewrite Ei.
  split; [lia|].
  assert (Hcase : (j_src (J cfg s i) + j_size (J cfg s i) <= rpos (mt s)) \/ (rpos (mt s) + target (mt s) + j_psize (J cfg s i) <= j_src (J cfg s i))).
  { destruct (N.lt_trichotomy (j_lap (J cfg s i) + 1) (lap (mt s))) as [Hlt|[Heq|Hgt]].
    - exfalso. assert (X : (j_lap (J cfg s i) + 2) * rcap (mt s) <= lap (mt s) * rcap (mt s)) by (apply N.mul_le_mono_r; lia). lia.
    - right. rewrite <- Heq in Fs. lia.
    - left. assert (E : j_lap (J cfg s i) = lap (mt s)) by lia. rewrite E in Hhi. lia. }
  split; apply overlap_false; cbn [fst snd].
  - right. right. destruct Hcase as [X|X]; [left; lia|right; lia].
  - destruct (N.eq_dec (j_psize (J cfg s i)) 0) as [E0|E0]; [right; left; exact E0|].
    pose proof (jg_pre _ _ Gj Hs ltac:(lia)) as Hpre. right. right. destruct Hcase as [X|X]; [left; lia|right; lia].
Qed.

(* the prefix move at the wrap (memmove to the start of the round buffer) and everything else the application thread has written in the
   current lap: an unfinished job in flight that was created in an EARLIER lap is exactly one lap old and lies (prefix included) at or
   above roundBuff.pos, so nothing in [0, roundBuff.pos) of the current lap - in particular the moved prefix [0, prefix.size) - overlaps it;
   an unfinished job of the CURRENT lap ends at or below roundBuff.pos *)
Theorem older_laps_above_frontier cfg ops sched :
  0 < c_chunk cfg -> ops_ok ops -> geo_ops ops ->
  let s := run state (step cfg) sched (init cfg ops) in
  alldone (mt s) = false -> relphase (awake (c_pc (cl s))) = false ->
  (0 < psize (mt s) -> pstart (mt s) + psize (mt s) = rpos (mt s)) /\
  forall i, inflight s i -> j_consumed (getj s (slot cfg i)) < j_size (getj s (slot cfg i)) ->
    let j := getj s (slot cfg i) in
    (j_lap j = lap (mt s) /\ j_src j + j_size j <= rpos (mt s)) \/
    (j_lap j + 1 = lap (mt s) /\ rpos (mt s) + j_psize j <= j_src j /\ (0 < j_psize j -> j_pstart j + j_psize j = j_src j) /\
     forall a n, a + n <= rpos (mt s) -> overlap (a, n) (j_src j, j_size j) = false /\ overlap (a, n) (j_pstart j, j_psize j) = false).
Proof.
  intros Hc Ho Hg s Ha Hr. destruct (ginv_reachable cfg ops sched Hc Ho Hg) as (TI & (_ & GI)). fold s in TI, GI.
  destruct (GI Ha Hr) as (G & _). pose proof (gm_b _ _ _ G) as B. split; [exact (bg_pp _ _ B)|]. intros i Hi Hu j.
  assert (Hl : live s (pbof s) i) by (left; exact Hi).
  pose proof (gm_j _ _ _ G i Hl) as Gj. fold (J cfg s i) in Gj. fold j in Gj, Hu.
  assert (Hs : 0 < j_size j) by lia.
  pose proof (gm_fw _ _ _ G i Hi Hu) as Fw. fold (J cfg s i) in Fw. fold j in Fw.
  pose proof (jg_hi _ _ Gj Hs) as Hhi. pose proof (jg_room _ _ Gj Hs) as Hrm. pose proof (jg_lap _ _ Gj) as Hlap.
  pose proof (jgeo_psrc _ _ Gj Hs) as Hps. pose proof (bg_t _ _ B) as Ht. pose proof (jg_pre _ _ Gj Hs) as Hpre.
  unfold VF, vs, J in *. fold j in Fw, Hhi, Hrm, Hlap, Hps, Hpre.
  destruct (N.lt_trichotomy (j_lap j + 1) (lap (mt s))) as [Hlt|[Heq|Hgt]].
  { exfalso. assert (X : (j_lap j + 2) * rcap (mt s) <= lap (mt s) * rcap (mt s)) by (apply N.mul_le_mono_r; lia).
    rewrite N.mul_add_distr_r in X. specialize (Hrm). lia. }
  2: { left. assert (E : j_lap j = lap (mt s)) by lia. split; [exact E|]. rewrite E in Hhi. lia. }
  right. assert (Hx : rpos (mt s) + j_psize j <= j_src j) by (rewrite <- Heq in Fw; lia).
  split; [lia|]. split; [exact Hx|]. split; [exact Hpre|].
  intros a n Han. split; apply overlap_false; cbn [fst snd].
  - right. right. right. lia.
  - destruct (N.eq_dec (j_psize j) 0) as [E0|E0]; [right; left; exact E0|]. specialize (Hpre ltac:(lia)). right. right. right. lia.
Qed.
