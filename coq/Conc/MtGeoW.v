(* C11: pool-thread steps preserve the geometry invariant; the invariant holds in every reachable state; input ranges are safe. *)
From Coq Require Import List NArith ZArith Bool Arith Lia.
Import ListNotations.
From ZV.Conc Require Import Sched SchedLemmas MtModel MtProofs.
From ZV.Conc Require Import MtRing MtRingC MtFrame MtSleep MtStep MtLive MtGeo MtGeoC.
Local Open Scope N_scope.

(* ------------------------------------------------------------------ *)
(* a pool thread only moves [consumed] (and flags) of its own job; an unfinished job was unfinished before *)

Definition jgs (j : job) : N * N * N * N * N := (j_src j, j_size j, j_pstart j, j_psize j, j_lap j).
Definition Rj (j' j : job) : Prop := jgs j' = jgs j /\ (unfin j' -> unfin j).

Lemma rj_refl j : Rj j j. Proof. split; auto. Qed.
Lemma jgs_fields j j' : jgs j' = jgs j ->
  j_src j' = j_src j /\ j_size j' = j_size j /\ j_pstart j' = j_pstart j /\ j_psize j' = j_psize j /\ j_lap j' = j_lap j.
Proof. unfold jgs. intros H. inversion H. repeat split; reflexivity. Qed.

Lemma rj_set_job s k j' : Rj j' (getj s k) -> forall k0, Rj (getj (set_job k j' s) k0) (getj s k0).
Proof.
  intros E k0. destruct (Nat.eq_dec k k0) as [<-|Hne]; [|rewrite getj_set_job_neq by auto; apply rj_refl].
  destruct (Nat.lt_ge_cases k (length (jobs s))) as [H|H].
  - rewrite getj_set_job_eq by auto. exact E.
  - unfold getj, set_job, set_jobs. cbn [jobs]. rewrite !nth_overflow; auto; [apply rj_refl|]. rewrite upd_length. exact H.
Qed.

Lemma gm_mext cfg s s' pb :
  mgf (mt s') = mgf (mt s) -> (forall k, Rj (getj s' k) (getj s k)) -> GM cfg s pb -> WG cfg s' pb ->
  (ldm (mt s) = true -> ihas (mt s) = true -> overlap_win (istart (mt s), target (mt s)) (s_w (sr s')) = false) -> GM cfg s' pb.
Proof.
  intros Hm Hj [B Jg Mo Fw Fs Pr Ne Ch _ _] Wn' Wf'. apply mgf_fields in Hm. destruct Hm as (Ed & En & Ee & Er & Ec & Ei & Eis & Eif & Eps & Epz & Et & Ept & Ew & El & Eld).
  assert (Hin : forall i, inflight s' i <-> inflight s i) by (intros; unfold inflight; rewrite Ed, En; tauto).
  assert (Hlv : forall i, live s' pb i <-> live s pb i) by (intros; unfold live; rewrite Hin, En; tauto).
  assert (Hf : forall i, let j := J cfg s i in let j' := J cfg s' i in
            j_src j' = j_src j /\ j_size j' = j_size j /\ j_pstart j' = j_pstart j /\ j_psize j' = j_psize j /\ j_lap j' = j_lap j)
    by (intros i; apply jgs_fields; apply Hj).
  assert (Hu : forall i, unfin (J cfg s' i) -> unfin (J cfg s i)) by (intros i; apply Hj).
  assert (Hvs : forall i, vs (mt s') (J cfg s' i) = vs (mt s) (J cfg s i)).
  { intros i. destruct (Hf i) as (E1 & _ & _ & _ & E6). unfold vs. rewrite E1, E6, Ec. reflexivity. }
  assert (Hvf : VF (mt s') = VF (mt s)) by (unfold VF; rewrite El, Ec, Er; reflexivity).
  constructor.
  - destruct B as [b1 b2 b3 b4 b5 b6 b7 b8 b9]. constructor; rewrite ?Ec, ?Et, ?Ept, ?Epz, ?Eps, ?Er, ?Ei, ?Eis, ?Eif, ?Ee; auto.
    unfold need_cap in *. rewrite Ew, Et, Ept. exact b1.
  - intros i Hi. apply Hlv in Hi. destruct (Hf i) as (E1 & E2 & E3 & E4 & E6). destruct (Jg i Hi) as [A Bq C D F G H].
    constructor; unfold VF, vs in *; rewrite ?E1, ?E2, ?E3, ?E4, ?E6, ?Et, ?Ept, ?Ec, ?El, ?Er, ?Epz; auto.
  - intros i i' Hi Hi' Hlt. apply Hlv in Hi. apply Hlv in Hi'. destruct (Hf i) as (_ & E2 & _). destruct (Hf i') as (_ & E2' & _ & E4' & _).
    rewrite !Hvs, E2, E2', E4'. apply Mo; auto.
  - intros i Hi Hx. apply Hin in Hi. destruct (Hf i) as (_ & _ & _ & E4 & _). rewrite Hvs, Hvf, E4, Ec. apply Fw; auto.
  - unfold Fstrong. rewrite Ei. intros Hh i Hi Hx. apply Hin in Hi. destruct (Hf i) as (_ & _ & _ & E4 & _). rewrite Hvs, Hvf, E4, Ec, Et. apply Fs; auto.
  - intros Hp. destruct (Pr Hp) as (P1 & P2 & P3). unfold PrepGeo. rewrite En, Ei, El, Er. destruct (Hf (next (mt s))) as (E1 & E2 & _ & _ & E6).
    rewrite E1, E2, E6. auto.
  - rewrite Ee. intros He i Hi. apply Hlv in Hi. destruct (Hf i) as (_ & E2 & _). rewrite E2. apply Ne; auto.
  - eapply chain_ext; [..|exact Ch]; auto.
    + intros i Hi. apply Hlv; auto.
    + intros i Hi Hn X. apply Hn. apply Hlv; auto.
    + intros i _. destruct (Hf i) as (E1 & E2 & _ & E4 & E6). auto.
  - exact Wn'.
  - rewrite Eld, Ei, Eis, Et. exact Wf'.
Qed.

(* the input buffer [istart, istart + target) and an unfinished job in flight: disjoint addresses *)
Lemma buffer_job_disjoint cfg s pb i :
  GM cfg s pb -> ihas (mt s) = true -> inflight s i -> unfin (J cfg s i) ->
  overlap (istart (mt s), target (mt s)) (j_src (J cfg s i), j_size (J cfg s i)) = false /\
  overlap (istart (mt s), target (mt s)) (j_pstart (J cfg s i), j_psize (J cfg s i)) = false.
Proof.
  intros G Hh Hi Hu. pose proof (gm_b _ _ _ G) as B. destruct (bg_ih _ _ B Hh) as (Ei & Hroom & Hf).
  assert (Hl : live s pb i) by (left; exact Hi).
  pose proof (gm_j _ _ _ G i Hl) as Gj.
  assert (Hs : 0 < j_size (J cfg s i)) by (unfold unfin in Hu; lia).
  pose proof (gm_fs _ _ _ G Hh i Hi Hu) as Fs. pose proof (jg_hi _ _ Gj Hs) as Hhi. pose proof (jg_room _ _ Gj Hs) as Hrm. pose proof (jg_lap _ _ Gj) as Hlap.
  pose proof (jgeo_psrc _ _ Gj Hs) as Hps. pose proof (bg_t _ _ B) as Ht. pose proof (jg_size _ _ Gj) as Hsz.
  unfold VF, vs in *. rewrite Ei.
  assert (Hcase : (j_src (J cfg s i) + j_size (J cfg s i) <= rpos (mt s)) \/ (rpos (mt s) + target (mt s) + j_psize (J cfg s i) <= j_src (J cfg s i))).
  { destruct (N.lt_trichotomy (j_lap (J cfg s i) + 1) (lap (mt s))) as [Hlt|[Heq|Hgt]].
    - exfalso. assert (X : (j_lap (J cfg s i) + 2) * rcap (mt s) <= lap (mt s) * rcap (mt s)) by (apply N.mul_le_mono_r; lia). lia.
    - right. rewrite <- Heq in Fs. lia.
    - left. assert (E : j_lap (J cfg s i) = lap (mt s)) by lia. rewrite E in Hhi. lia. }
  split; apply overlap_false; cbn [fst snd].
  - right. right. destruct Hcase as [X|X]; [left; lia|right; lia].
  - destruct (N.eq_dec (j_psize (J cfg s i)) 0) as [E0|E0]; [right; left; exact E0|].
    pose proof (jg_pre _ _ Gj Hs ltac:(lia)) as Hpre. right. right. destruct Hcase as [X|X]; [left; lia|right; lia].
Qed.

(* WG when the serial state is untouched *)
Lemma wg_mext cfg s s' pb :
  mgf (mt s') = mgf (mt s) -> (forall k, Rj (getj s' k) (getj s k)) -> sr s' = sr s -> WG cfg s pb -> WG cfg s' pb.
Proof.
  intros Hm Hj Hsr Wn. apply mgf_fields in Hm. destruct Hm as (Ed & En & Ee & Er & Ec & Ei & Eis & Eif & Eps & Epz & Et & Ept & Ew & El & Eld).
  assert (Hin : forall i, inflight s' i <-> inflight s i) by (intros; unfold inflight; rewrite Ed, En; tauto).
  assert (Hlv : forall i, live s' pb i <-> live s pb i) by (intros; unfold live; rewrite Hin, En; tauto).
  eapply wg_ext; [..|exact Wn]; auto; try (rewrite Hsr; reflexivity).
  - intros i Hi. apply Hlv; auto.
  - intros i _. destruct (jgs_fields _ _ (proj1 (Hj (slot cfg i)))) as (E1 & E2 & _ & E4 & E6). unfold J. auto.
Qed.

Lemma scanto_mext cfg s s' k :
  done (mt s') = done (mt s) -> next (mt s') = next (mt s) -> (forall k, Rj (getj s' k) (getj s k)) -> ScanTo cfg s k -> ScanTo cfg s' k.
Proof. intros Ed En Hj H i Hi Hlt Hu. unfold inflight in Hi. rewrite Ed, En in Hi. apply (H i Hi Hlt). apply Hj. exact Hu. Qed.

Lemma useok_mext cfg s s' use :
  mgf (mt s') = mgf (mt s) -> (forall k, Rj (getj s' k) (getj s k)) -> UseOk cfg s use -> UseOk cfg s' use.
Proof.
  intros Hm Hj U. pose proof Hm as Hm0. apply mgf_fields in Hm. destruct Hm as (Ed & En & Ee & Er & Ec & Ei & Eis & Eif & Eps & Epz & Et & Ept & Ew & El & Eld).
  assert (Hin : forall i, inflight s' i <-> inflight s i) by (intros; unfold inflight; rewrite Ed, En; tauto).
  destruct U as [(U1 & U2)|(d & Hd & Sc & Sz & Eu & Fd)].
  - left. split; auto. intros i Hi Hu. apply Hin in Hi. apply (U2 i Hi). apply Hj. exact Hu.
  - right. exists d. destruct (jgs_fields _ _ (proj1 (Hj (slot cfg d)))) as (E1 & E2 & E3 & E4 & E6).
    split; [apply Hin; auto|]. split; [eapply scanto_mext; eauto|]. unfold J in *. rewrite E2.
    split; auto. split; [unfold use_of; rewrite E1, E2, E3, E4; exact Eu|].
    unfold VF, vs. rewrite El, Ec, Er, E4, E1, E6. exact Fd.
Qed.

Lemma worker_geo cfg t s s' : 0 < c_chunk cfg -> KInv cfg s -> worker_step cfg t s = Some s' -> forall k, Rj (getj s' k) (getj s k).
Proof.
  intros Hch K H k. pose proof H as H0. unfold worker_step in H.
  destruct (nth_error (ws s) t) as [w|] eqn:Hw; [|discriminate].
  destruct (Nat.eq_dec k (w_slot w)) as [->|Hne]; [|rewrite (worker_step_own_job cfg t s s' w H0 Hw k Hne); apply rj_refl].
  assert (Hwj : forall c k0 x k1, getj (wake_caller_job c k0 x) k1 = getj x k1) by (intros; apply getj_wake_job).
  assert (Hwl : forall x k1, getj (wake_caller_ldm x) k1 = getj x k1) by (intros; apply getj_wake_ldm).
  destruct (w_pc w) eqn:Epc; try discriminate.
  - destruct (q (pl s)); [destruct (Nat.leb _ _)|]; inv_some H; apply rj_refl.
  - inv_some H. apply rj_refl.
  - inv_some H. apply rj_refl.
  - (* WGetBuf *)
    destruct (negb _); inv_some H; apply rj_refl.
  - (* WSetDst *)
    repeat match type of H with (if ?b then _ else _) = _ => destruct b end; inv_some H;
      change (getj (set_w t ?a ?x) ?k1) with (getj x k1); apply rj_set_job; (split; [reflexivity|auto]).
  - (* WJobErr *)
    inv_some H. change (getj (set_w t ?a ?x) ?k1) with (getj x k1). apply rj_set_job. split; [reflexivity|auto].
  - (* WSerial *)
    destruct (_ <? _); [inv_some H; apply rj_refl|]. destruct (negb _); inv_some H; [apply rj_refl|].
    destruct (_ && ldm (mt s)); change (getj (set_w t ?a ?x) ?k1) with (getj x k1); rewrite ?Hwl; apply rj_refl.
  - (* WChunk *)
    inv_some H. change (getj (set_w t ?a ?x) ?k1) with (getj x k1). rewrite Hwj. apply rj_set_job. split; [reflexivity|].
    destruct (k_wrk _ _ K t w Hw) as (i & _ & _ & (_ & Hact & _)); [rewrite Epc; reflexivity|].
    unfold unfin. cbn [j_upd_work j_consumed j_size]. intros X. destruct Hact as [Y|(Y & _)]; [exact Y|lia].
  - (* WEnsure *)
    inv_some H. destruct (_ <=? _); change (getj (set_w t ?a ?x) ?k1) with (getj x k1); rewrite ?Hwl; apply rj_refl.
  - inv_some H. apply rj_refl.
  - inv_some H. apply rj_refl.
  - (* WReport *)
    inv_some H. change (getj (set_w t ?a ?x) ?k1) with (getj x k1). rewrite Hwj. apply rj_set_job. split; [reflexivity|].
    unfold unfin. cbn [j_set_done j_upd_work j_consumed j_size]. lia.
  - inv_some H. apply rj_refl.
Qed.

Lemma worker_step_use cfg t s s' : worker_step cfg t s = Some s' -> c_use (cl s') = c_use (cl s).
Proof.
  unfold worker_step. intros H.
  assert (Hwj : forall c k0 x, c_use (cl (wake_caller_job c k0 x)) = c_use (cl x)).
  { intros. unfold wake_caller_job. destruct (c_pc (cl x)); try reflexivity; destruct (Nat.eqb _ _); reflexivity. }
  assert (Hwl : forall x, c_use (cl (wake_caller_ldm x)) = c_use (cl x)).
  { intros. unfold wake_caller_ldm. destruct (c_pc (cl x)); reflexivity. }
  destruct (nth_error (ws s) t) as [w|]; [|discriminate].
  destruct (w_pc w); try discriminate;
    repeat match type of H with
           | (if ?b then _ else _) = _ => destruct b
           | match ?x with Some _ => _ | None => _ end = _ => destruct x
           end; inv_some H;
    repeat match goal with |- context[if ?b then _ else _] => destruct b end;
    cbn [cl set_w set_ws set_pl set_job set_jobs set_sr]; rewrite ?Hwj, ?Hwl; reflexivity.
Qed.

(* what a pool-thread step does to the serial state: nothing, or its job takes its turn (serial.nextJobID = its id: LDM window update,
   nextJobID++), or ZSTDMT_serialState_ensureFinished skips a failed job (nextJobID jumps past it, both LDM windows are cleared) *)
Lemma worker_sr cfg t s s' : worker_step cfg t s = Some s' ->
  sr s' = sr s \/
  (exists w, nth_error (ws s) t = Some w /\ w_pc w = WSerial /\ s_next (sr s) = j_id (getj s (w_slot w)) /\
     s_next (sr s') = s_next (sr s) + 1 /\
     let w1 := win_cap (wsize (mt s)) (win_update (s_w (sr s)) (j_src (getj s (w_slot w))) (j_size (getj s (w_slot w)))) in
     s_w (sr s') = (if ldm (mt s) then w1 else s_w (sr s)) /\ s_lw (sr s') = (if ldm (mt s) then w1 else s_lw (sr s))) \/
  (exists w, nth_error (ws s) t = Some w /\ w_pc w = WEnsure /\ s_next (sr s) <= j_id (getj s (w_slot w)) /\
     s_next (sr s') = j_id (getj s (w_slot w)) + 1 /\ s_w (sr s') = win_clear (s_w (sr s)) /\ s_lw (sr s') = win_clear (s_lw (sr s))).
Proof.
  unfold worker_step. intros H.
  assert (Hwj : forall c k0 x, sr (wake_caller_job c k0 x) = sr x) by (intros; apply wake_job_proj).
  assert (Hwl : forall x, sr (wake_caller_ldm x) = sr x) by (intros; apply wake_ldm_proj).
  destruct (nth_error (ws s) t) as [w|] eqn:Hw; [|discriminate].
  destruct (w_pc w) eqn:Epc; try discriminate.
  - destruct (q (pl s)); [destruct (Nat.leb _ _)|]; inv_some H; left; reflexivity.
  - inv_some H. left. reflexivity.
  - inv_some H. left. reflexivity.
  - repeat match type of H with (if ?b then _ else _) = _ => destruct b end; inv_some H; left; reflexivity.
  - repeat match type of H with (if ?b then _ else _) = _ => destruct b end; inv_some H; left; reflexivity.
  - inv_some H. left. reflexivity.
  - (* WSerial *)
    destruct (_ <? _); [inv_some H; left; reflexivity|].
    destruct (s_next (sr s) =? j_id (getj s (w_slot w))) eqn:Em; cbn [negb] in H; inv_some H; [|left; reflexivity].
    apply N.eqb_eq in Em. right. left. exists w. split; [reflexivity|]. split; [exact Epc|]. split; [exact Em|].
    cbn [andb]. destruct (ldm (mt s)); cbn [sr set_w set_ws]; rewrite ?Hwl; cbn [sr set_sr s_next s_w s_lw]; repeat split; reflexivity.
  - inv_some H. cbn [sr set_w set_ws set_job set_jobs]. rewrite Hwj. left. reflexivity.
  - (* WEnsure *)
    inv_some H. destruct (s_next (sr s) <=? j_id (getj s (w_slot w))) eqn:El; [|left; reflexivity].
    apply N.leb_le in El. right. right. exists w. split; [reflexivity|]. split; [exact Epc|]. split; [exact El|].
    cbn [sr set_w set_ws]. rewrite Hwl. cbn [sr set_sr s_next s_w s_lw]. repeat split; reflexivity.
  - inv_some H. left. reflexivity.
  - inv_some H. left. reflexivity.
  - inv_some H. cbn [sr set_w set_ws set_job set_jobs]. rewrite Hwj. left. reflexivity.
  - inv_some H. left. reflexivity.
Qed.

(* the job at serial.nextJobID takes its turn: the LDM window swallows its source and is cut to windowSize *)
Lemma wg_serial_mine cfg s s' pb :
  GM cfg s pb -> live s pb (s_next (sr s)) ->
  mgf (mt s') = mgf (mt s) -> (forall k, Rj (getj s' k) (getj s k)) ->
  s_next (sr s') = s_next (sr s) + 1 ->
  s_w (sr s') = win_cap (wsize (mt s)) (win_update (s_w (sr s)) (j_src (J cfg s (s_next (sr s)))) (j_size (J cfg s (s_next (sr s))))) ->
  WG cfg s' pb.
Proof.
  intros G Hn Hm Hj Esn Esw. pose proof G as [B Jg Mo Fw Fs Pr Ne Ch Wn].
  apply mgf_fields in Hm. destruct Hm as (Ed & En & Ee & Er & Ec & Ei & Eis & Eif & Eps & Epz & Et & Ept & Ew & El & Eld).
  assert (Hin : forall i, inflight s' i <-> inflight s i) by (intros; unfold inflight; rewrite Ed, En; tauto).
  assert (Hlv : forall i, live s' pb i <-> live s pb i) by (intros; unfold live; rewrite Hin, En; tauto).
  assert (Hf : forall i, j_src (J cfg s' i) = j_src (J cfg s i) /\ j_size (J cfg s' i) = j_size (J cfg s i) /\ j_psize (J cfg s' i) = j_psize (J cfg s i) /\ j_lap (J cfg s' i) = j_lap (J cfg s i)).
  { intros i. destruct (jgs_fields _ _ (proj1 (Hj (slot cfg i)))) as (E1 & E2 & _ & E4 & E6). unfold J. auto. }
  unfold WG. rewrite Eld, Ee, Esw, Ew, El, Ec, Et, Ept, Esn, En. intros Hl He.
  destruct (Ch He) as (C1 & C2).
  unfold WG in Wn. specialize (Wn Hl He). destruct (s_w (sr s)) as [[[el eh] pl] ph]. destruct Wn as (W1 & W2 & W3 & W4).
  set (n := s_next (sr s)) in *. set (jn := J cfg s n) in *.
  pose proof (Jg n Hn) as Gn. fold jn in Gn. pose proof (Ne He n Hn) as Hsz. fold jn in Hsz.
  pose proof (win_update_spec el eh pl ph (j_src jn) (j_size jn) Hsz W1 W2) as U.
  destruct (win_update (el, eh, pl, ph) (j_src jn) (j_size jn)) as [[[el1 eh1] pl1] ph1]. destruct U as (U1 & U2).
  assert (U3 : el1 <= eh1 /\ pl1 <= ph1) by (destruct U2 as [(A & B' & C & D)|(A & B' & C & D)]; lia).
  pose proof (win_cap_spec (wsize (mt s)) el1 eh1 pl1 ph1 (proj1 U3) (proj2 U3)) as V.
  destruct (win_cap (wsize (mt s)) (el1, eh1, pl1, ph1)) as [[[el2 eh2] pl2] ph2]. destruct V as (V1 & V2 & V3 & V4 & V5 & V6).
  split; [lia|]. split; [lia|]. split; [exact V5|]. right.
  (* the lap of the new prefix part is the lap of the job; what follows the job follows the window *)
  exists (j_lap jn).
  assert (Hend : ph2 = jend jn) by (unfold jend; lia).
  split; [exact (jg_lap _ _ Gn)|]. split; [pose proof (jg_room _ _ Gn Hsz); pose proof (jg_size _ _ Gn); lia|].
  split; [|split].
  - (* the extDict part *)
    intros Hx. assert (Hx1 : el1 < eh1) by lia. specialize (V6 Hx). subst pl2.
    destruct U2 as [(A & B' & C & D)|(A & B' & C & D)].
    + (* contiguous: the old extDict part, possibly shortened *)
      assert (Hx0 : el < eh) by lia.
      destruct W4 as [(W4 & _)|(Lp & L1 & L2 & L3 & L4 & L5)]; [lia|]. destruct (L3 Hx0) as (X1 & X2 & X3 & X4).
      destruct (L4 Hn) as [(Y1 & Y2)|(Y1 & Y2 & Y3)]; fold jn in Y1, Y2.
      * rewrite Y1. repeat split; try lia.
      * exfalso. pose proof (jg_psz _ _ Gn). pose proof (cap_bounds _ _ B). pose proof (bg_t _ _ B). lia.
    + (* after the wrap: the old prefix part becomes the extDict part *)
      destruct W4 as [(W4 & W5)|(Lp & L1 & L2 & L3 & L4 & L5)]; [lia|].
      destruct (L4 Hn) as [(Y1 & Y2)|(Y1 & Y2 & Y3)]; fold jn in Y1, Y2; [congruence|]. fold jn in Y3.
      rewrite Y1. pose proof (jg_psz _ _ Gn). repeat split; try lia.
  - intros Hi. apply Hlv in Hi. destruct (Hf (n + 1)) as (F1 & F2 & F3 & F4). rewrite Hend.
    eapply cont_ext; [exact Ec|exact Et|exact F4|exact F1|exact F3|]. apply C1; auto.
  - intros Hp Hx. rewrite Hend. eapply contc_ext; [exact El|exact Er|exact Epz|exact Ec|exact Et|]. apply C2; auto.
    intros [(_ & X)|(X & _)]; [lia|congruence].
Qed.

Lemma wg_cleared cfg s s' pb :
  mgf (mt s') = mgf (mt s) -> s_w (sr s') = win_clear (s_w (sr s)) -> WG cfg s' pb.
Proof.
  intros Hm Esw. unfold WG. rewrite Esw. intros _ _. destruct (s_w (sr s)) as [[[el eh] pl] ph]. cbn [win_clear].
  split; [lia|]. split; [lia|]. split; [lia|]. left. split; reflexivity.
Qed.

Lemma gm_worker_step cfg t s s' pb : 0 < c_chunk cfg -> KInv cfg s -> worker_step cfg t s = Some s' -> GM cfg s pb -> GM cfg s' pb.
Proof.
  intros Hch K H G1.
  destruct (worker_step_aux cfg t s s' H) as (Em & _). pose proof (worker_geo cfg t s s' Hch K H) as Hj.
  assert (Hm : mgf (mt s') = mgf (mt s)) by (rewrite Em; reflexivity).
  destruct (worker_sr cfg t s s' H) as [E|[(w & Hw & Epc & Emine & Esn & Esw & _)|(w & Hw & Epc & Ele & Esn & Esw & _)]].
  - eapply gm_mext; [exact Hm|exact Hj|exact G1| |].
    + eapply wg_mext; [exact Hm|exact Hj|exact E|apply G1].
    + rewrite E. apply (gm_wfree _ _ _ G1).
  - destruct (k_wrk _ _ K t w Hw) as (i & Hi & Ek & Hact); [rewrite Epc; reflexivity|].
    assert (Ei : s_next (sr s) = i) by (rewrite Emine, Ek; apply (k_ids _ _ K); exact Hi).
    destruct (ldm (mt s)) eqn:Eldm.
    + eapply gm_mext; [exact Hm|exact Hj|exact G1| |].
      * eapply wg_serial_mine; [exact G1|rewrite Ei; left; exact Hi|exact Hm|exact Hj|exact Esn|].
        unfold J. rewrite Ei, <- Ek. exact Esw.
      * (* the window grows by the source of a job that is in flight and unfinished: disjoint from the input buffer *)
        intros _ Hh. rewrite Esw.
        destruct (overlap_win (istart (mt s), target (mt s)) (win_cap (wsize (mt s)) (win_update (s_w (sr s)) (j_src (getj s (w_slot w))) (j_size (getj s (w_slot w)))))) eqn:Eov; [exfalso|reflexivity].
        destruct Hact as (_ & Hc & _).
        assert (He : ended (mt s) = false \/ ended (mt s) = true) by (destruct (ended (mt s)); auto).
        pose proof (gm_win _ _ _ G1) as Wn. pose proof (gm_wfree _ _ _ G1 Eldm Hh) as Wf.
        destruct (N.eq_dec (j_size (getj s (w_slot w))) 0) as [Ez|Ez].
        { (* an empty job does not change the window; cutting only shrinks it *)
          unfold win_update in Eov. rewrite Ez in Eov. cbn [N.eqb] in Eov.
          destruct (s_w (sr s)) as [[[el eh] pl] ph] eqn:Ew.
          assert (Hwf : el <= eh /\ pl <= ph).
          { destruct He as [He|He].
            - unfold WG in Wn. rewrite Ew in Wn. destruct (Wn Eldm He) as (A & B' & _). auto.
            - (* after the frame has ended no input buffer is held *)
              exfalso. pose proof (bg_end _ _ (gm_b _ _ _ G1) He). congruence. }
          destruct Hwf as (A & B').
          pose proof (win_cap_spec (wsize (mt s)) el eh pl ph A B') as V.
          destruct (win_cap (wsize (mt s)) (el, eh, pl, ph)) as [[[el2 eh2] pl2] ph2]. destruct V as (V1 & V2 & V3 & V4 & _).
          unfold overlap_win in Eov, Wf. apply orb_prop in Eov. apply orb_false_elim in Wf. destruct Wf as (Wf1 & Wf2).
          destruct Eov as [X|X]; [rewrite (overlap_sub _ (el, eh - el) _ X) in Wf1|rewrite (overlap_sub _ (pl, ph - pl) _ X) in Wf2]; cbn [fst snd]; try discriminate; lia. }
        destruct Hc as [Hc|(Hc & _)]; [|lia].
        destruct (s_w (sr s)) as [[[el eh] pl] ph] eqn:Ew.
        assert (Hwf : el <= eh /\ pl <= ph).
        { destruct He as [He|He].
          - unfold WG in Wn. rewrite Ew in Wn. destruct (Wn Eldm He) as (A & B' & _). auto.
          - exfalso. pose proof (bg_end _ _ (gm_b _ _ _ G1) He). congruence. }
        assert (Hpos : 0 < j_size (getj s (w_slot w))) by lia.
        destruct (overlap_win_serial _ _ el eh pl ph _ _ Hpos (proj1 Hwf) (proj2 Hwf) Eov) as [X|X]; [congruence|].
        destruct (buffer_job_disjoint cfg s pb i G1 Hh Hi) as (D1 & _); [unfold unfin, J; rewrite <- Ek; exact Hc|].
        unfold J in D1. rewrite <- Ek in D1. congruence.
    + eapply gm_mext; [exact Hm|exact Hj|exact G1| |].
      * unfold WG. rewrite Em, Eldm. discriminate.
      * intros X. congruence.
  - eapply gm_mext; [exact Hm|exact Hj|exact G1| |].
    + eapply wg_cleared; [exact Hm|exact Esw].
    + intros _ _. rewrite Esw. destruct (s_w (sr s)) as [[[el eh] pl] ph]. cbn [win_clear]. unfold overlap_win, overlap. cbn [fst snd]. rewrite !N.sub_diag. cbn. rewrite !orb_true_r. reflexivity.
Qed.

Lemma pcgeo_worker_step cfg t s s' : 0 < c_chunk cfg -> KInv cfg s -> worker_step cfg t s = Some s' -> PcGeo cfg s -> PcGeo cfg s'.
Proof.
  intros Hch K H P1.
  destruct (worker_step_aux cfg t s s' H) as (Em & Ep & _). pose proof (worker_geo cfg t s s' Hch K H) as Hj. pose proof (worker_step_use cfg t s s' H) as Eu.
  assert (Hm : mgf (mt s') = mgf (mt s)) by (rewrite Em; reflexivity).
  unfold PcGeo in *. rewrite Ep, Em, Eu. destruct (awake (c_pc (cl s))); try exact I.
  - destruct P1 as (A & B & C & D). refine (conj A (conj B (conj C _))). eapply scanto_mext; [rewrite Em; reflexivity|rewrite Em; reflexivity|exact Hj|exact D].
  - destruct P1 as (A & B & C & D). refine (conj A (conj B (conj _ D))). eapply useok_mext; [exact Hm|exact Hj|exact C].
  - destruct P1 as (A & B & C & D). refine (conj A (conj B (conj _ D))). eapply useok_mext; [exact Hm|exact Hj|exact C].
Qed.

Lemma gi_worker_step cfg t s s' : 0 < c_chunk cfg -> KInv cfg s -> GInv cfg s -> worker_step cfg t s = Some s' -> GInv cfg s'.
Proof.
  intros Hch K (N & G) H. split; [eapply pg_worker_step; eauto|].
  destruct (worker_step_aux cfg t s s' H) as (Em & Ep & _).
  assert (Hpb : pbof s' = pbof s) by (unfold pbof; rewrite Em, Ep; reflexivity).
  rewrite Em, Ep. intros Ha Hr. specialize (G Ha Hr). rewrite Hpb.
  destruct (awake (c_pc (cl s))) eqn:Eaw;
    try (destruct G as (G1 & P1); split; [eapply gm_worker_step; eauto|eapply pcgeo_worker_step; eauto]).
  (* between setBufferSize and setNbSeq: no pool thread holds a job, the serial state does not move *)
  destruct G as (F1 & F2 & F3 & F4 & F5 & F6 & F7 & F8 & F9 & F10). unfold Fresh. rewrite Em. repeat split; auto.
  destruct (worker_sr cfg t s s' H) as [E|[(w & Hw & Epc & _)|(w & Hw & Epc & _)]]; [rewrite E; exact F10| |];
    (exfalso; destruct (k_wrk _ _ K t w Hw) as (i & (X & Y) & _); [rewrite Epc; reflexivity|lia]).
Qed.

(* ------------------------------------------------------------------ *)
(* the serial state: published window = window; serial.nextJobID <= nextJobID *)

Lemma awake_initseq p : awake p = CInitSeq -> p = CInitSeq.
Proof. destruct p; cbn; intros X; try discriminate; reflexivity. Qed.

Lemma srok_worker_step cfg t s s' : KInv cfg s -> SrOk s -> worker_step cfg t s = Some s' -> SrOk s'.
Proof.
  intros K (S1 & S2) H. destruct (worker_step_aux cfg t s s' H) as (Em & Ep & _). unfold SrOk. rewrite Em.
  destruct (worker_sr cfg t s s' H) as [E|[(w & Hw & Epc & Emine & Esn & Esw & Elw)|(w & Hw & Epc & Ele & Esn & Esw & Elw)]].
  - rewrite E. split; [exact S1|]. destruct S2 as [S2|(X & Y)]; [left; exact S2|right]. split; [|exact Y].
    apply awake_initseq. rewrite Ep, X. reflexivity.
  - destruct (k_wrk _ _ K t w Hw) as (i & (X & Y) & Ek & _); [rewrite Epc; reflexivity|].
    assert (Ei : j_id (getj s (w_slot w)) = i) by (rewrite Ek; apply (k_ids _ _ K); split; auto).
    split; [rewrite Esw, Elw; destruct (ldm (mt s)); congruence|]. left. rewrite Esn, Emine, Ei. lia.
  - destruct (k_wrk _ _ K t w Hw) as (i & (X & Y) & Ek & _); [rewrite Epc; reflexivity|].
    assert (Ei : j_id (getj s (w_slot w)) = i) by (rewrite Ek; apply (k_ids _ _ K); split; auto).
    split; [rewrite Esw, Elw, S1; reflexivity|]. left. rewrite Esn, Ei. lia.
Qed.

Lemma srok_caller_step cfg w s s' : TInv cfg s -> SrOk s -> caller_step cfg w s = Some s' -> SrOk s'.
Proof.
  intros (K & A) (S1 & S2') H. pose proof (k_pc _ _ K) as P. unfold PcInv in P. destruct P as (PA & PB & _).
  assert (Hgr0 : s_next (sr s) <= next (mt s) -> forall x, GR cfg s x -> SrOk x).
  { intros S2 x ((Es & _) & En & _). unfold SrOk. rewrite Es, En. auto. }
  assert (Hgr0' : s_next (sr s) <= next (mt s) -> forall x0 x, sr x0 = sr s -> next (mt x0) = next (mt s) -> GR cfg x0 x -> SrOk x).
  { intros S2 x0 x Es0 En0 ((Es & _) & En & _). unfold SrOk. rewrite Es, Es0, En, En0. auto. }
  unfold caller_step in H. cbn zeta in H.
  destruct (c_pc (cl s)) eqn:Epc; try discriminate.
  all: try (assert (S2 : s_next (sr s) <= next (mt s)) by (destruct S2' as [S2|(X & _)]; [exact S2|discriminate]);
            pose proof (Hgr0 S2) as Hgr; pose proof (Hgr0' S2) as Hgr').
  - destruct (_ <? _); inv_some H; apply Hgr; [apply gr_after_inuse|apply gr_scan_inuse].
  - destruct (overlap_win _ _); inv_some H; [split; auto|apply Hgr; apply gr_move_prefix].
  - destruct (overlap_win _ _); inv_some H; [split; auto|apply Hgr; apply gr_hand_out].
  - inv_some H. unfold SrOk. cbn [sr mt set_cpc set_cl set_mt set_job set_jobs set_pl mt_ring next]. split; [exact S1|left; lia].
  - destruct (_ || _); inv_some H; unfold SrOk; cbn [sr mt set_cpc set_cl set_mt set_ws set_pl mt_ring next]; split; auto; left; lia.
  - destruct (_ && _); inv_some H; [split; auto|apply Hgr; apply gr_flush_body].
  - inv_some H. eapply Hgr'; [..|apply gr_complete_job]; reflexivity.
  - unfold jslot in H. destruct (negb _); inv_some H; [split; auto|].
    eapply Hgr'; [..|apply gr_wait_all]; reflexivity.
  - inv_some H. eapply Hgr'; [..|apply gr_rel_scan]; [reflexivity|reflexivity|].
    cbn [mt zero_slot set_job set_jobs set_pl]. destruct (k_pc _ _ K) as (_ & _ & _ & D & _). rewrite Epc in D. cbn in D. lia.
  - (* CInitBuf: nextJobID is reset; serial.nextJobID too when the frame has LDM, else after ZSTDMT_setNbSeq; the windows are kept *)
    match type of H with Some (set_cpc _ ?x) = _ => set (s1 := x) in * end.
    inv_some H. unfold SrOk. cbn [cl mt sr s1 set_cpc set_cl cl_pc c_pc set_sr set_mt next ldm].
    destruct (ldm (mt s)); (split; [exact S1|]); [left; cbn; lia|right; split; reflexivity].
  - (* CInitSeq: both windows are reset (LDM), or serial.nextJobID is (no LDM) *)
    destruct (ldm (mt s)) eqn:Eldm; inv_some H.
    + match goal with |- SrOk (finish_op cfg ?x _) => set (s1 := x) end.
      destruct (gr_finish_op cfg s1 (ROk 0)) as ((Es & _) & En & _). unfold SrOk. rewrite Es, En.
      cbn [sr mt s1 set_sr set_pl s_lw s_w s_next]. split; [reflexivity|left].
      destruct S2' as [S2|(_ & X)]; [exact S2|congruence].
    + match goal with |- SrOk (finish_op cfg ?x _) => set (s1 := x) end.
      destruct (gr_finish_op cfg s1 (ROk 0)) as ((Es & _) & En & _). unfold SrOk. rewrite Es, En.
      cbn [sr mt s1 set_sr set_pl s_lw s_w s_next]. split; [exact S1|left; lia].
Qed.

(* ------------------------------------------------------------------ *)
(* every reachable state *)

Lemma gi_init cfg ops : ops_ok ops -> geo_ops ops -> GInv cfg (init cfg ops).
Proof.
  intros Ho Hg. unfold init.
  match goal with |- GInv cfg (start_ops cfg ?x ops) => set (s0 := x) end.
  assert (Hg0 : forall k, getj s0 k = job0).
  { intros k. unfold getj, s0. cbn [jobs]. destruct (nth_in_or_default k (repeat job0 (N.to_nat (mask cfg) + 1)) job0) as [H|H]; auto.
    apply repeat_spec in H. exact H. }
  apply gi_start_ops; auto.
  - constructor.
    + constructor; cbn [mt jobs ws pl done next q s0].
      * rewrite repeat_length. pose proof (mask_Mr cfg). lia.
      * pose proof (Mr_pos cfg). lia.
      * intros i (A & B). cbn in A, B. lia.
      * intros t w H A. apply nth_error_repeat in H. subst. discriminate.
      * discriminate.
      * intros t1 t2 w1 w2 H1 H2 A1. apply nth_error_repeat in H1. subst. discriminate.
      * discriminate.
      * intros i (A & B). cbn in A, B. lia.
    + intros k Hk _. left. rewrite Hg0. apply stale_job0.
    + cbn. discriminate.
    + intros _. split; [reflexivity|]. intros k Hk. rewrite Hg0. apply stale_job0.
    + repeat split; cbn; try lia. constructor.
    + cbn. discriminate.
  - split; [cbn; lia|split; [cbn; lia|constructor]].
  - intros _ _ X. discriminate.
  - intros X. discriminate.
Qed.

Lemma srok_init cfg ops : SrOk (init cfg ops).
Proof.
  unfold init. match goal with |- SrOk (start_ops cfg ?x ops) => set (s0 := x) end.
  destruct (gr_start_ops cfg ops s0) as ((Es & _) & En & _). unfold SrOk. rewrite Es, En. cbn. split; [reflexivity|lia].
Qed.

Theorem ginv_reachable cfg ops sched :
  0 < c_chunk cfg -> ops_ok ops -> geo_ops ops ->
  let s := run state (step cfg) sched (init cfg ops) in TInv cfg s /\ SrOk s /\ GInv cfg s.
Proof.
  intros Hc Ho Hg. apply (run_invariant state (step cfg) (fun s => TInv cfg s /\ SrOk s /\ GInv cfg s)).
  - intros s t w s' (TI & SR & GI) Hst. split; [eapply tinv_step; eauto|].
    destruct t as [|t]; cbn [step] in Hst.
    + split; [eapply srok_caller_step; eauto|eapply gi_caller_step; eauto].
    + split; [eapply srok_worker_step; eauto; apply TI|eapply gi_worker_step; eauto; apply TI].
  - split; [apply tinv_init; auto|]. split; [apply srok_init|apply gi_init; auto].
Qed.

(* GM outside the short window between setBufferSize and setNbSeq *)
Lemma ginv_gm cfg s : GInv cfg s -> alldone (mt s) = false -> relphase (awake (c_pc (cl s))) = false ->
  (Fresh cfg s /\ awake (c_pc (cl s)) = CInitSeq) \/ (GM cfg s (pbof s) /\ PcGeo cfg s).
Proof. intros (_ & G) Ha Hr. specialize (G Ha Hr). destruct (awake (c_pc (cl s))); auto. Qed.

(* ------------------------------------------------------------------ *)
(* mt_input_ranges_safe *)

(* whenever the application thread holds an input buffer [istart, istart + targetSectionSize) (it writes the caller's bytes into it),
   the buffer lies inside the round buffer and overlaps neither the source nor the prefix of any job in flight that its worker has not
   consumed completely *)
Theorem input_ranges_safe cfg ops sched :
  0 < c_chunk cfg -> ops_ok ops -> geo_ops ops ->
  let s := run state (step cfg) sched (init cfg ops) in
  alldone (mt s) = false -> relphase (awake (c_pc (cl s))) = false -> ihas (mt s) = true ->
  istart (mt s) + target (mt s) <= rcap (mt s) /\ ifill (mt s) <= target (mt s) /\
  forall i, inflight s i -> j_consumed (getj s (slot cfg i)) < j_size (getj s (slot cfg i)) ->
    j_src (getj s (slot cfg i)) + j_size (getj s (slot cfg i)) <= rcap (mt s) /\
    overlap (istart (mt s), target (mt s)) (j_src (getj s (slot cfg i)), j_size (getj s (slot cfg i))) = false /\
    overlap (istart (mt s), target (mt s)) (j_pstart (getj s (slot cfg i)), j_psize (getj s (slot cfg i))) = false.
Proof.
  intros Hc Ho Hg s Ha Hr Hh. destruct (ginv_reachable cfg ops sched Hc Ho Hg) as (TI & _ & GI). fold s in TI, GI.
  destruct (ginv_gm cfg s GI Ha Hr) as [((_ & _ & _ & _ & _ & X & _) & _)|(G & _)]; [congruence|].
  pose proof (gm_b _ _ _ G) as B. destruct (bg_ih _ _ B Hh) as (Ei & Hroom & Hf).
  split; [lia|]. split; [exact Hf|]. intros i Hi Hu.
  assert (Hl : live s (pbof s) i) by (left; exact Hi).
  pose proof (gm_j _ _ _ G i Hl) as Gj. fold (J cfg s i) in *.
  assert (Hs : 0 < j_size (J cfg s i)) by lia.
  pose proof (gm_fs _ _ _ G Hh i Hi Hu) as Fs. pose proof (jg_hi _ _ Gj Hs) as Hhi. pose proof (jg_room _ _ Gj Hs) as Hrm. pose proof (jg_lap _ _ Gj) as Hlap.
  pose proof (jgeo_psrc _ _ Gj Hs) as Hps. pose proof (bg_t _ _ B) as Ht. pose proof (jg_size _ _ Gj) as Hsz.
  unfold VF, vs in *. rewrite Ei.
  split; [lia|].
  assert (Hcase : (j_src (J cfg s i) + j_size (J cfg s i) <= rpos (mt s)) \/ (rpos (mt s) + target (mt s) + j_psize (J cfg s i) <= j_src (J cfg s i))).
  { destruct (N.lt_trichotomy (j_lap (J cfg s i) + 1) (lap (mt s))) as [Hlt|[Heq|Hgt]].
    - exfalso. assert (X : (j_lap (J cfg s i) + 2) * rcap (mt s) <= lap (mt s) * rcap (mt s)) by (apply N.mul_le_mono_r; lia). lia.
    - right. rewrite <- Heq in Fs. lia.
    - left. assert (E : j_lap (J cfg s i) = lap (mt s)) by lia. rewrite E in Hhi. lia. }
  split; apply overlap_false; cbn [fst snd].
  - right. right. destruct Hcase as [X|X]; [left; lia|right; lia].
  - destruct (N.eq_dec (j_psize (J cfg s i)) 0) as [E0|E0]; [right; left; exact E0|].
    pose proof (jg_pre _ _ Gj Hs ltac:(lia)) as Hpre. right. right. destruct Hcase as [X|X]; [left; lia|right; lia].
Qed.

(* the prefix move at the wrap (memmove to the start of the round buffer) and everything else the application thread has written in the
   current lap: an unfinished job in flight that was created in an EARLIER lap is exactly one lap old and lies (prefix included) at or
   above roundBuff.pos, so nothing in [0, roundBuff.pos) of the current lap - in particular the moved prefix [0, prefix.size) - overlaps it;
   an unfinished job of the CURRENT lap ends at or below roundBuff.pos *)
Theorem older_laps_above_frontier cfg ops sched :
  0 < c_chunk cfg -> ops_ok ops -> geo_ops ops ->
  let s := run state (step cfg) sched (init cfg ops) in
  alldone (mt s) = false -> relphase (awake (c_pc (cl s))) = false ->
  (0 < psize (mt s) -> pstart (mt s) + psize (mt s) = rpos (mt s)) /\
  forall i, inflight s i -> j_consumed (getj s (slot cfg i)) < j_size (getj s (slot cfg i)) ->
    let j := getj s (slot cfg i) in
    (j_lap j = lap (mt s) /\ j_src j + j_size j <= rpos (mt s)) \/
    (j_lap j + 1 = lap (mt s) /\ rpos (mt s) + j_psize j <= j_src j /\ (0 < j_psize j -> j_pstart j + j_psize j = j_src j) /\
     forall a n, a + n <= rpos (mt s) -> overlap (a, n) (j_src j, j_size j) = false /\ overlap (a, n) (j_pstart j, j_psize j) = false).
Proof.
  intros Hc Ho Hg s Ha Hr. destruct (ginv_reachable cfg ops sched Hc Ho Hg) as (TI & _ & GI). fold s in TI, GI.
  destruct (ginv_gm cfg s GI Ha Hr) as [((F1 & F2 & _ & _ & _ & _ & _ & F8 & _) & _)|(G & _)].
  { split; [rewrite F8; lia|]. intros i (X & Y). lia. }
  pose proof (gm_b _ _ _ G) as B. split; [exact (bg_pp _ _ B)|]. intros i Hi Hu j.
  assert (Hl : live s (pbof s) i) by (left; exact Hi).
  pose proof (gm_j _ _ _ G i Hl) as Gj. fold (J cfg s i) in Gj. fold j in Gj, Hu.
  assert (Hs : 0 < j_size j) by lia.
  pose proof (gm_fw _ _ _ G i Hi Hu) as Fw. fold (J cfg s i) in Fw. fold j in Fw.
  pose proof (jg_hi _ _ Gj Hs) as Hhi. pose proof (jg_room _ _ Gj Hs) as Hrm. pose proof (jg_lap _ _ Gj) as Hlap.
  pose proof (jgeo_psrc _ _ Gj Hs) as Hps. pose proof (bg_t _ _ B) as Ht. pose proof (jg_pre _ _ Gj Hs) as Hpre.
  unfold VF, vs, J in *. fold j in Fw, Hhi, Hrm, Hlap, Hps, Hpre.
  destruct (N.lt_trichotomy (j_lap j + 1) (lap (mt s))) as [Hlt|[Heq|Hgt]].
  { exfalso. assert (X : (j_lap j + 2) * rcap (mt s) <= lap (mt s) * rcap (mt s)) by (apply N.mul_le_mono_r; lia).
    rewrite N.mul_add_distr_r in X. specialize (Hrm). lia. }
  2: { left. assert (E : j_lap j = lap (mt s)) by lia. split; [exact E|]. rewrite E in Hhi. lia. }
  right. assert (Hx : rpos (mt s) + j_psize j <= j_src j) by (rewrite <- Heq in Fw; lia).
  split; [lia|]. split; [exact Hx|]. split; [exact Hpre|].
  intros a n Han. split; apply overlap_false; cbn [fst snd].
  - right. right. right. lia.
  - destruct (N.eq_dec (j_psize j) 0) as [E0|E0]; [right; left; exact E0|]. specialize (Hpre ltac:(lia)). right. right. right. lia.
Qed.

(* ... nor the LDM window: the published copy ldmWindow always equals ldmState.window (the window the next serial section searches), and
   while the application thread holds an input buffer the buffer overlaps neither part of it *)
Theorem ldm_window_safe cfg ops sched :
  0 < c_chunk cfg -> ops_ok ops -> geo_ops ops ->
  let s := run state (step cfg) sched (init cfg ops) in
  s_lw (sr s) = s_w (sr s) /\
  (alldone (mt s) = false -> relphase (awake (c_pc (cl s))) = false -> ldm (mt s) = true -> ihas (mt s) = true ->
   overlap_win (istart (mt s), target (mt s)) (s_w (sr s)) = false).
Proof.
  intros Hc Ho Hg s. destruct (ginv_reachable cfg ops sched Hc Ho Hg) as (_ & (Sy & _) & GI). fold s in Sy, GI.
  split; [exact Sy|]. intros Ha Hr Hl Hh.
  destruct (ginv_gm cfg s GI Ha Hr) as [((_ & _ & _ & _ & _ & X & _) & _)|(G & _)]; [congruence|].
  exact (gm_wfree _ _ _ G Hl Hh).
Qed.
