(* C11: consequences of the ring / ownership invariant (MtRing.KInv, MtRingC.TInv) for every state reachable under every
   schedule, every call program (whose frames have a non-zero job size) and every payload oracle. *)
From Coq Require Import List NArith ZArith Bool Arith Lia.
Import ListNotations.
From ZV.Conc Require Import Sched SchedLemmas MtModel MtProofs.
From ZV.Conc Require Import MtRing MtRingC.
Local Open Scope N_scope.

Definition reach (cfg : config) (ops : list cop) (sched : list (nat * nat)) : state := run state (step cfg) sched (init cfg ops).

Lemma Mr_pow cfg : Mr cfg = 2 ^ c_rlog cfg. Proof. reflexivity. Qed.

(* the jobs in flight are doneJobID .. nextJobID-1, at most 2^rlog of them, each in its own slot, each slot carrying its own id *)
Theorem ring_ids_consecutive cfg ops sched :
  0 < c_chunk cfg -> ops_ok ops -> let s := reach cfg ops sched in
  length (jobs s) = N.to_nat (2 ^ c_rlog cfg) /\
  done (mt s) <= next (mt s) /\ next (mt s) <= done (mt s) + 2 ^ c_rlog cfg /\
  (forall i, done (mt s) <= i < next (mt s) -> j_id (getj s (slot cfg i)) = i) /\
  (forall i i', done (mt s) <= i < next (mt s) -> done (mt s) <= i' < next (mt s) -> slot cfg i = slot cfg i' -> i = i').
Proof.
  intros Hc Ho s. destruct (tinv_reachable cfg ops sched Hc Ho) as (K & _). fold (reach cfg ops sched) in K. fold s in K.
  split; [exact (k_len _ _ K)|]. destruct (k_rng _ _ K) as (R1 & R2). split; [exact R1|]. split; [exact R2|]. split.
  - intros i Hi. apply (k_ids _ _ K). exact Hi.
  - intros i i' Hi Hi' E. eapply inflight_slot_inj; eauto.
Qed.

(* no two pool threads work on the same slot, and none works on the slot of the job waiting in the pool queue *)
Theorem workers_own_distinct_slots cfg ops sched :
  0 < c_chunk cfg -> ops_ok ops -> let s := reach cfg ops sched in
  (forall t1 t2 w1 w2, nth_error (ws s) t1 = Some w1 -> nth_error (ws s) t2 = Some w2 ->
     active (w_pc w1) = true -> active (w_pc w2) = true -> w_slot w1 = w_slot w2 -> t1 = t2) /\
  (forall t w k, nth_error (ws s) t = Some w -> active (w_pc w) = true -> q (pl s) = Some k -> w_slot w <> k).
Proof.
  intros Hc Ho s. destruct (tinv_reachable cfg ops sched Hc Ho) as (K & _). fold (reach cfg ops sched) in K. fold s in K.
  split; [exact (k_uniq _ _ K)|exact (k_uq _ _ K)].
Qed.

(* a slot held by a pool thread (or by the queue) is a slot in flight, carries that job's id, and the caller's two completion
   tests are false for it: jobCompleted is 0, and consumed < src.size unless the job is empty and has produced nothing *)
Theorem owned_slot_in_flight cfg ops sched :
  0 < c_chunk cfg -> ops_ok ops -> let s := reach cfg ops sched in
  forall k, owned s k ->
  exists i, done (mt s) <= i < next (mt s) /\ k = slot cfg i /\ j_id (getj s k) = i /\ j_done (getj s k) = false /\
            (j_consumed (getj s k) < j_size (getj s k) \/
             (j_size (getj s k) = 0 /\ j_csize (getj s k) = 0 /\ j_ckneed (getj s k) = false)).
Proof.
  intros Hc Ho s. destruct (tinv_reachable cfg ops sched Hc Ho) as (K & _). fold (reach cfg ops sched) in K. fold s in K.
  intros k [O|(t & w & H & A & E)].
  - destruct (k_que _ _ K k O) as (i & Hi & E & (A1 & A2 & _)). exists i. split; [exact Hi|]. split; [exact E|].
    split; [rewrite E; apply (k_ids _ _ K); exact Hi|]. auto.
  - destruct (k_wrk _ _ K t w H A) as (i & Hi & E' & (A1 & A2 & _)). rewrite E in *. exists i. split; [exact Hi|]. split; [exact E'|].
    split; [rewrite E'; apply (k_ids _ _ K); exact Hi|]. auto.
Qed.

(* no job is lost: a job in flight that has not reported completion is in the queue or on a pool thread *)
Theorem unfinished_job_has_owner cfg ops sched :
  0 < c_chunk cfg -> ops_ok ops -> let s := reach cfg ops sched in
  forall i, done (mt s) <= i < next (mt s) -> j_done (getj s (slot cfg i)) = false -> owned s (slot cfg i).
Proof.
  intros Hc Ho s. destruct (tinv_reachable cfg ops sched Hc Ho) as (K & _). fold (reach cfg ops sched) in K. fold s in K.
  intros i Hi Hd. apply (k_own _ _ K); auto.
Qed.

(* slot reuse: outside the wait-and-release phase, a slot that holds no job in flight is stale (its last job ended without error,
   was consumed and flushed completely, cSize reset, checksum appended, buffer released) or it is slot(nextJobID), freshly prepared
   while the ring is not full; by [owned_slot_in_flight] no pool thread holds such a slot *)
Theorem ring_slot_reuse cfg ops sched :
  0 < c_chunk cfg -> ops_ok ops -> let s := reach cfg ops sched in
  relphase (awake (c_pc (cl s))) = false ->
  forall k, (k < N.to_nat (2 ^ c_rlog cfg))%nat -> (forall i, done (mt s) <= i < next (mt s) -> slot cfg i <> k) ->
  Stale (getj s k) \/
  (k = slot cfg (next (mt s)) /\ next (mt s) < done (mt s) + 2 ^ c_rlog cfg /\ j_id (getj s k) = next (mt s) /\
   j_consumed (getj s k) = 0 /\ j_csize (getj s k) = 0 /\ j_err (getj s k) = false).
Proof.
  intros Hc Ho s. destruct (tinv_reachable cfg ops sched Hc Ho) as (K & _). fold (reach cfg ops sched) in K. fold s in K.
  intros Hr k Hk Hn. pose proof (k_pc _ _ K) as P. unfold PcInv in P. destruct P as (PA & PB & PC & _ & _ & PF & _).
  destruct (PC Hr) as (C1 & C2). destruct (C1 k Hk Hn) as [S|(E & Pr)]; [left; exact S|].
  destruct (alldone (mt s)) eqn:Ea; [left; apply PF; auto|].
  right. split; [exact E|]. rewrite E.
  destruct Pr as [R|[R|R]].
  - destruct (C2 R eq_refl) as (P0 & _). exact P0.
  - destruct (PA R) as (P0 & _). exact P0.
  - destruct (PB R) as (P0 & _). exact P0.
Qed.

(* the job table is cleared (ZSTDMT_releaseAllJobResources) and the ring is reset (ZSTDMT_initCStream_internal) only when no job
   is in flight: no pool thread is working on a job, the pool queue is empty *)
Theorem release_only_when_idle cfg ops sched :
  0 < c_chunk cfg -> ops_ok ops -> let s := reach cfg ops sched in
  match awake (c_pc (cl s)) with CRelAll _ _ | CInitBuf | CInitSeq => True | _ => False end ->
  done (mt s) = next (mt s) /\ q (pl s) = None /\
  forall t w, nth_error (ws s) t = Some w -> active (w_pc w) = false.
Proof.
  intros Hc Ho s. destruct (tinv_reachable cfg ops sched Hc Ho) as (K & _). fold (reach cfg ops sched) in K. fold s in K.
  intros Hp. pose proof (k_pc _ _ K) as P. unfold PcInv in P. destruct P as (_ & _ & _ & PD & _).
  assert (E : done (mt s) = next (mt s)) by (destruct (awake (c_pc (cl s))); try contradiction; exact PD).
  split; [exact E|]. split.
  - destruct (q (pl s)) as [k|] eqn:Eq; auto. destruct (k_que _ _ K k Eq) as (i & (A & B) & _). lia.
  - intros t w H. destruct (active (w_pc w)) eqn:A; auto. destruct (k_wrk _ _ K t w H A) as (i & (X & Y) & _). lia.
Qed.

(* doneJobID only moves past a job that nobody works on any more: at the buffer release of ZSTDMT_flushProduced the job is
   error-free, consumed and flushed completely, its checksum is written, its worker has reported, nobody owns the slot *)
Theorem job_leaves_ring_complete cfg ops sched :
  0 < c_chunk cfg -> ops_ok ops -> let s := reach cfg ops sched in
  awake (c_pc (cl s)) = CRelBuf ->
  let j := getj s (slot cfg (done (mt s))) in
  done (mt s) < next (mt s) /\ j_err j = false /\ j_consumed j = j_size j /\ j_ckneed j = false /\ j_done j = true /\
  ~ owned s (slot cfg (done (mt s))).
Proof.
  intros Hc Ho s. destruct (tinv_reachable cfg ops sched Hc Ho) as (K & _). fold (reach cfg ops sched) in K. fold s in K.
  intros Hp j. pose proof (k_pc _ _ K) as P. unfold PcInv in P. destruct P as (_ & _ & _ & PD & PE & _).
  rewrite Hp in PD. destruct (PE Hp) as (E1 & E2 & E3 & E4 & E5). fold j in E1, E2, E3, E4, E5.
  repeat split; auto.
  apply (not_owned_fin cfg s (done (mt s))); auto; [apply kinv_kb; exact K|split; [lia|exact PD]].
Qed.

Example ops_ok_example : ops_ok [OpInit (mkFP 524288 0 true false false [] 0); OpCS EEnd 600000 100000].
Proof. repeat constructor. Qed.
