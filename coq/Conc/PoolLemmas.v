(* List / counting / modular-arithmetic lemmas used by the pool proofs. *)
From Coq Require Import List Arith Bool Lia ZArith.
Import ListNotations.
From ZV.Conc Require Import PoolModel.

Ltac Zify.zify_post_hook ::= Z.div_mod_to_equations.

(* ---------- POOL_resize: threads created before pthread_create fails ---------- *)
Lemma created_le w d : created w d <= d.
Proof. unfold created. destruct w; [lia|apply Nat.le_min_r]. Qed.
Lemma created_0 d : created 0 d = d.
Proof. reflexivity. Qed.

(* ---------- upd ---------- *)
Lemma upd_length {A} i (x : A) l : length (upd i x l) = length l.
Proof. revert i; induction l; destruct i; cbn; auto. Qed.

Lemma nth_error_upd {A} i (x : A) l t :
  nth_error (upd i x l) t = if (t =? i) && (i <? length l) then Some x else nth_error l t.
Proof.
  revert i t; induction l as [|a l IH]; intros i t.
  - cbn. destruct i, t; cbn; try rewrite andb_false_r; auto.
  - destruct i, t; cbn; auto. rewrite IH. reflexivity.
Qed.

Lemma nth_error_upd_eq {A} i (x : A) l : i < length l -> nth_error (upd i x l) i = Some x.
Proof. intros H. apply Nat.ltb_lt in H. rewrite nth_error_upd, Nat.eqb_refl, H. reflexivity. Qed.

Lemma nth_error_upd_neq {A} i (x : A) l t : t <> i -> nth_error (upd i x l) t = nth_error l t.
Proof. intros H. rewrite nth_error_upd. apply Nat.eqb_neq in H. now rewrite H. Qed.

Lemma nth_error_Some_lt {A} (l : list A) t x : nth_error l t = Some x -> t < length l.
Proof. intros H. apply nth_error_Some. congruence. Qed.

Lemma nth_upd_eq {A} i (x d : A) l : i < length l -> nth i (upd i x l) d = x.
Proof. intros H. apply nth_error_nth. now apply nth_error_upd_eq. Qed.

Lemma nth_upd_neq {A} i (x d : A) l t : t <> i -> nth t (upd i x l) d = nth t l d.
Proof.
  intros H. revert i t H; induction l as [|a l IH]; intros i t H.
  - destruct i; reflexivity.
  - destruct i, t; cbn; auto; try congruence.
Qed.

Lemma nth_error_nth' {A} (l : list A) t d x : nth_error l t = Some x -> nth t l d = x.
Proof. apply nth_error_nth. Qed.

Lemma upd_app_l {A} i (x : A) l l' : i < length l -> upd i x (l ++ l') = upd i x l ++ l'.
Proof. revert i; induction l; intros i H; cbn in *; [lia|]. destruct i; cbn; auto. rewrite IHl; auto; lia. Qed.

Lemma Forall_upd {A} (Q : A -> Prop) i x l : Forall Q l -> Q x -> Forall Q (upd i x l).
Proof. intros H Hx. revert i; induction H; intros i; destruct i; cbn; auto. Qed.

(* ---------- sums over the thread list ---------- *)
Fixpoint sumf {A} (f : A -> nat) (l : list A) : nat :=
  match l with [] => 0 | a :: r => f a + sumf f r end.

Lemma sumf_app {A} (f : A -> nat) l l' : sumf f (l ++ l') = sumf f l + sumf f l'.
Proof. induction l; cbn; lia. Qed.

Lemma sumf_upd {A} (f : A -> nat) i x l th :
  nth_error l i = Some th -> sumf f (upd i x l) + f th = sumf f l + f x.
Proof.
  revert i; induction l as [|a l IH]; intros i H; destruct i; cbn in *; try discriminate.
  - inversion H; subst. lia.
  - specialize (IH _ H). lia.
Qed.

Lemma sumf_map {A B} (f : B -> nat) (g : A -> B) l : sumf f (map g l) = sumf (fun a => f (g a)) l.
Proof. induction l; cbn; auto. Qed.

Lemma sumf_ext {A} (f g : A -> nat) l : (forall a, In a l -> f a = g a) -> sumf f l = sumf g l.
Proof. induction l; cbn; intros H; auto. Qed.

Lemma sumf_repeat {A} (f : A -> nat) x n : sumf f (repeat x n) = n * f x.
Proof. induction n; cbn; lia. Qed.

Lemma sumf_zero {A} (f : A -> nat) l : sumf f l = 0 <-> Forall (fun a => f a = 0) l.
Proof.
  induction l; cbn; split; intros H; auto.
  - constructor; [lia|]. apply IHl. lia.
  - inversion H as [|? ? Ha Hl]; subst. apply IHl in Hl. lia.
Qed.

Lemma sumf_le {A} (f g : A -> nat) l : (forall a, f a <= g a) -> sumf f l <= sumf g l.
Proof. intros H; induction l; cbn; auto. specialize (H a). lia. Qed.

Lemma sumf_plus {A} (f g : A -> nat) l : sumf (fun a => f a + g a) l = sumf f l + sumf g l.
Proof. induction l; cbn; lia. Qed.

Lemma sumf_nth_le {A} (f : A -> nat) l i th : nth_error l i = Some th -> f th <= sumf f l.
Proof. revert i; induction l; intros i H; destruct i; cbn in *; try discriminate. inversion H; subst; lia. apply IHl in H. lia. Qed.

Lemma sumf_pos_ex {A} (f : A -> nat) l : 0 < sumf f l -> exists i th, nth_error l i = Some th /\ 0 < f th.
Proof.
  induction l; cbn; intros H; [lia|].
  destruct (f a) eqn:E.
  - destruct IHl as (i & th & H1 & H2); [lia|]. exists (S i), th; auto.
  - exists 0, a; cbn; split; auto; lia.
Qed.

Definition b2n (b : bool) : nat := if b then 1 else 0.

(* ---------- indices_from / signal ---------- *)
Lemma indices_from_spec {A} (f : A -> bool) l : forall s i, In i (indices_from f s l) <-> exists th, s <= i /\ nth_error l (i - s) = Some th /\ f th = true.
Proof.
  induction l as [|a l IH]; intros s i; cbn.
  - split; [tauto|]. intros (th & _ & H & _). destruct (i - s); discriminate.
  - destruct (f a) eqn:Fa; cbn; rewrite IH; split.
    + intros [<-|(th & H1 & H2 & H3)].
      * exists a. rewrite Nat.sub_diag. auto.
      * exists th. replace (i - s) with (S (i - S s)) by lia. cbn. repeat split; auto; lia.
    + intros (th & H1 & H2 & H3). destruct (Nat.eq_dec s i) as [->|Hne]; [now left|right].
      exists th. replace (i - s) with (S (i - S s)) in H2 by lia. cbn in H2. repeat split; auto; lia.
    + intros (th & H1 & H2 & H3). exists th. replace (i - s) with (S (i - S s)) by lia. cbn. repeat split; auto; lia.
    + intros (th & H1 & H2 & H3). destruct (Nat.eq_dec s i) as [->|Hne].
      * rewrite Nat.sub_diag in H2. cbn in H2. congruence.
      * exists th. replace (i - s) with (S (i - S s)) in H2 by lia. cbn in H2. repeat split; auto; lia.
Qed.

Lemma indices_from_nil {A} (f : A -> bool) l s : indices_from f s l = [] <-> Forall (fun a => f a = false) l.
Proof.
  revert s; induction l as [|a l IH]; intros s; cbn; [split; auto|].
  destruct (f a) eqn:Fa; split; intros H; try discriminate.
  - inversion H; congruence.
  - constructor; auto. eapply IH; eauto.
  - inversion H; subst. eapply IH; eauto.
Qed.

(* what [signal] does: nothing when nobody sleeps, otherwise it wakes exactly one sleeper *)
Lemma signal_cases f wake w ths :
  (Forall (fun th => f th = false) ths /\ signal f wake w ths = ths) \/
  (exists i th, nth_error ths i = Some th /\ f th = true /\ signal f wake w ths = upd i (wake th) ths).
Proof.
  unfold signal, sleepers. destruct (indices_from f 0 ths) as [|i0 r] eqn:E.
  - left. split; auto. eapply indices_from_nil; eauto.
  - right. set (i := nth (w mod length (i0 :: r)) (i0 :: r) i0).
    assert (Hin : In i (i0 :: r)). { apply nth_In. apply Nat.mod_upper_bound. cbn; lia. }
    rewrite <- E in Hin. apply indices_from_spec in Hin. destruct Hin as (th & _ & H2 & H3).
    rewrite Nat.sub_0_r in H2. exists i, th. repeat split; auto.
    erewrite nth_error_nth'; eauto.
Qed.

(* ---------- modular arithmetic for the ring ---------- *)
Lemma mod_inj q h a b : a < q -> b < q -> (h + a) mod q = (h + b) mod q -> a = b.
Proof.
  intros Ha Hb H. assert (q <> 0) by lia.
  pose proof (Nat.div_mod (h + a) q ltac:(lia)). pose proof (Nat.div_mod (h + b) q ltac:(lia)).
  pose proof (Nat.mod_upper_bound (h + a) q ltac:(lia)).
  rewrite H in H1. 
  assert ((h + a) / q = (h + b) / q \/ (h + a) / q < (h + b) / q \/ (h + b) / q < (h + a) / q) as [E|[E|E]] by lia.
  - rewrite E in H1. lia.
  - nia.
  - nia.
Qed.

Lemma mod_succ_shift q h i : q <> 0 -> ((h + 1) mod q + i) mod q = (h + S i) mod q.
Proof. intros. rewrite Nat.add_mod_idemp_l by auto. f_equal. lia. Qed.

Lemma mod_tail_succ q h p : q <> 0 -> ((h + p) mod q + 1) mod q = (h + S p) mod q.
Proof. intros. rewrite Nat.add_mod_idemp_l by auto. f_equal. lia. Qed.
