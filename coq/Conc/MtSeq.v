(* C11, third wave: the sequence pool follows the frame's LDM flag (the model-level statement of fix 97c340a).
   Outside the two pool sections of ZSTDMT_initCStream_internal the buffer size of the sequence pool is non-zero exactly when the frame
   uses long-distance matching; a pool thread holds a sequence buffer, or stands at the sequence pool's mutex (ZSTDMT_getSeq /
   ZSTDMT_releaseSeq), only while the frame uses LDM: the jobs of a frame without LDM neither lock the sequence pool nor allocate from it,
   whatever frames the context compressed before. *)
From Coq Require Import List NArith ZArith Bool Arith Lia.
Import ListNotations.
From ZV.Conc Require Import Sched SchedLemmas MtModel MtProofs MtRing MtRingC MtPool MtFrame MtSleep MtStep MtLive.
Local Open Scope N_scope.

(* ------------------------------------------------------------------ *)
(* the caller's code: the LDM flag of the context changes only in init_params, which ends at CInitBuf *)

Definition LQ (a b : state) : Prop := ldm (mt b) = ldm (mt a) \/ c_pc (cl b) = CInitBuf.

Lemma lq_refl a : LQ a a. Proof. left; reflexivity. Qed.
Lemma lq_l a b c : LQ b c -> ldm (mt b) = ldm (mt a) -> LQ a c.
Proof. intros [H|H] E; [left; congruence|right; exact H]. Qed.
Ltac lq_via H := eapply lq_l; [apply H|]; try reflexivity.
Ltac lq_if := repeat match goal with |- LQ _ (if ?b then _ else _) => destruct b end.

Lemma ldm_prepare_job cfg s n e : ldm (mt (prepare_job cfg s n e)) = ldm (mt s).
Proof. unfold prepare_job. cbn zeta. destruct e; cbn [andb]; try destruct (next (mt s) =? 0); reflexivity. Qed.

Lemma lq_set_cpc p s : LQ s (set_cpc p s). Proof. left; reflexivity. Qed.
Lemma lq_init_params s : LQ s (init_params s). Proof. right; reflexivity. Qed.
Lemma lq_stop_ops s : LQ s (stop_ops s). Proof. left; reflexivity. Qed.

Lemma lq_create_job cfg s e : LQ s (create_job cfg s e).
Proof.
  unfold create_job. lq_if; try (left; reflexivity).
  - left. cbn [mt set_cpc set_cl set_job set_jobs]. apply ldm_prepare_job.
  - left. cbn [mt set_cpc set_cl]. apply ldm_prepare_job.
Qed.
Lemma lq_create_phase cfg s : LQ s (create_phase cfg s).
Proof. unfold create_phase. lq_if; [lq_via lq_create_job|left; reflexivity]. Qed.
Lemma lq_fill_phase cfg s : LQ s (fill_phase cfg s).
Proof.
  unfold fill_phase. destruct (ihas (mt s)); [|apply lq_create_phase].
  destruct (sync_point cfg (mt s) (c_in (cl s))). lq_via lq_create_phase.
Qed.
Lemma lq_hand_out cfg s : LQ s (hand_out cfg s).
Proof. unfold hand_out. lq_via lq_fill_phase. Qed.
Lemma lq_after_wrap cfg s : LQ s (after_wrap cfg s).
Proof. unfold after_wrap. lq_if; first [apply lq_fill_phase|apply lq_set_cpc|apply lq_hand_out]. Qed.
Lemma lq_move_prefix cfg s : LQ s (move_prefix cfg s).
Proof. unfold move_prefix. lq_via lq_after_wrap. Qed.
Lemma lq_after_inuse cfg s u : LQ s (after_inuse cfg s u).
Proof.
  unfold after_inuse. lq_if;
  first [lq_via lq_fill_phase; fail|lq_via lq_set_cpc; fail|lq_via lq_move_prefix; fail|lq_via lq_after_wrap].
Qed.
Lemma lq_scan_inuse cfg s j : LQ s (scan_inuse cfg s j).
Proof. unfold scan_inuse. destruct (_ <? _); [apply lq_set_cpc|apply lq_after_inuse]. Qed.
Lemma lq_gen_body cfg s : LQ s (gen_body cfg s).
Proof. unfold gen_body. lq_if; first [apply lq_scan_inuse|apply lq_fill_phase|apply lq_create_phase]. Qed.

Lemma lq_rel_scan_k i kd : (forall s1, LQ s1 (kd s1)) -> forall f s k, LQ s (rel_scan_k i kd s k f).
Proof.
  intros Hk. induction f; intros s k; cbn [rel_scan_k].
  - lq_via Hk.
  - destruct (Nat.ltb k (length (jobs s))).
    + destruct (j_dst (getj s k)); [apply lq_set_cpc|]. lq_via IHf.
    + lq_via Hk.
Qed.

Lemma lq_start_ops cfg ops : forall s, LQ s (start_ops cfg s ops).
Proof.
  induction ops as [|o r IH]; intros s; cbn [start_ops]; [apply lq_stop_ops|].
  destruct o as [fp|e i o].
  - destruct (alldone (mt s)); [right; reflexivity|].
    destruct (_ <? _); [left; reflexivity|].
    eapply lq_l; [apply lq_rel_scan_k; intros; apply lq_init_params|reflexivity].
  - destruct (alldone (mt s) && negb (ended (mt s))); [apply lq_stop_ops|].
    destruct (ended (mt s) && (0 <? i) && negb (is_continue e)); [apply lq_stop_ops|].
    destruct (ended (mt s) && is_continue e).
    + destruct r as [|[fp|e' i' o'] r'].
      * lq_via IH.
      * lq_via IH.
      * left; reflexivity.
    + lq_via lq_gen_body.
Qed.

Lemma lq_finish_op cfg s r : LQ s (finish_op cfg s r).
Proof. unfold finish_op. lq_via lq_start_ops. Qed.
Lemma lq_rel_scan cfg i s k f : LQ s (rel_scan cfg i s k f).
Proof. unfold rel_scan. apply lq_rel_scan_k. intros s1. destruct i; [apply lq_init_params|apply lq_finish_op]. Qed.
Lemma lq_wait_all cfg i s : LQ s (wait_all cfg i s).
Proof. unfold wait_all. destruct (_ <? _); [apply lq_set_cpc|apply lq_rel_scan]. Qed.
Lemma lq_gen_again cfg s : LQ s (gen_again cfg s).
Proof. unfold gen_again. destruct (_ && _); [lq_via lq_finish_op|lq_via lq_gen_body]. Qed.
Lemma lq_gen_return cfg s v : LQ s (gen_return cfg s v).
Proof. unfold gen_return. lq_if; first [apply lq_finish_op|apply lq_gen_again]. Qed.
Lemma lq_flush_return cfg s : LQ s (flush_return cfg s).
Proof.
  unfold flush_return. destruct (flush_tail s (c_e2 (cl s))) as [s1 v] eqn:E.
  eapply lq_l; [apply lq_gen_return|].
  unfold flush_tail in E. repeat match type of E with (if ?b then _ else _) = _ => destruct b end; inversion E; subst; reflexivity.
Qed.
Lemma lq_complete_job cfg s : LQ s (complete_job cfg s).
Proof. unfold complete_job. lq_via lq_flush_return. Qed.
Lemma lq_flush_body cfg s : LQ s (flush_body cfg s).
Proof.
  unfold flush_body. destruct (j_err _); [apply lq_wait_all|]. cbn zeta.
  lq_if; first [lq_via lq_set_cpc; fail|lq_via lq_complete_job; fail|lq_via lq_gen_return; fail|lq_via lq_flush_return].
Qed.

(* ------------------------------------------------------------------ *)
(* one step of the application thread: LDM flag, sequence-pool flag, pool threads *)

Definition is_initseq (p : cpc) : bool := match p with CInitSeq => true | _ => false end.

(* what a caller step does to the pool threads and to the flag of the sequence pool *)
Definition PW (s s' : state) : Prop :=
  (forall t x, nth_error (ws s') t = Some x -> active (w_pc x) = true -> nth_error (ws s) t = Some x) /\
  sp_on (pl s') = (if is_initseq (c_pc (cl s)) then ldm (mt s) else sp_on (pl s)).

Lemma pw_swp s x s' :
  eq_swp x s' -> ws x = ws s -> sp_on (pl x) = (if is_initseq (c_pc (cl s)) then ldm (mt s) else sp_on (pl s)) -> PW s s'.
Proof. intros (_ & Ew & Ep) Hw Hp. split; [rewrite Ew, Hw; auto|rewrite Ep; exact Hp]. Qed.

Ltac swp_any :=
  first [ apply swp_after_inuse | apply swp_scan_inuse | apply swp_move_prefix | apply swp_hand_out
        | apply swp_flush_body | apply swp_complete_job | apply swp_wait_all | apply swp_rel_scan | apply swp_finish_op | apply eq_swp_refl ].
Ltac lq_any :=
  first [ apply lq_after_inuse | apply lq_scan_inuse | apply lq_move_prefix | apply lq_hand_out
        | apply lq_flush_body | apply lq_complete_job | apply lq_wait_all | apply lq_rel_scan | apply lq_finish_op | apply lq_refl ].

Lemma caller_step_q cfg w s s' :
  caller_step cfg w s = Some s' ->
  LQ s s' /\ (c_pc (cl s) = CInitBuf -> c_pc (cl s') = CInitSeq) /\ PW s s'.
Proof.
  unfold caller_step. intros H.
  destruct (c_pc (cl s)) eqn:Epc; try discriminate; cbn [is_initseq];
  repeat match type of H with (if ?b then _ else _) = _ => destruct b eqn:? end; inv_some H.
  all: split; [first [left; reflexivity | lq_any | eapply lq_l; [lq_any|reflexivity]]|split; [try discriminate|]].

  all: try (eapply pw_swp; [swp_any|reflexivity|cbn [pl set_pl set_sr set_mt set_job set_jobs set_ws set_cpc set_cl pl_bp pl_q pl_sp sp_on]; rewrite ?Epc; reflexivity]; fail).
  - (* CTryAdd, posted: queuePopCond is signalled *)
    destruct (signal_pop_spec w (ws s)) as (S1 & _). split; [cbn [ws set_cpc set_cl set_mt set_ws]; exact S1|].
    cbn [pl set_cpc set_cl set_mt set_ws set_pl pl_q sp_on]. rewrite Epc. reflexivity.
  - intros _. reflexivity.
  - (* CInitSeq, LDM *) 
    eapply pw_swp; [apply swp_finish_op|reflexivity|]. cbn [pl set_pl set_sr pl_sp sp_on]. rewrite Epc. cbn [is_initseq]. symmetry; assumption.
  - (* CInitSeq, no LDM *)
    eapply pw_swp; [apply swp_finish_op|reflexivity|]. cbn [pl set_pl set_sr pl_sp sp_on]. rewrite Epc. cbn [is_initseq]. symmetry; assumption.
Qed.

(* ------------------------------------------------------------------ *)
(* one step of a pool thread *)

Definition seqpc (p : wpc) : bool := match p with WGetSeq | WRelSeq => true | _ => false end.

(* how the step of a pool thread changes its own record: the "holds a sequence buffer" flag is raised only by ZSTDMT_getSeq, the thread
   comes to stand at the sequence pool only from ZSTDMT_getCCtx when the pool is switched on, or with a buffer to give back *)
Definition WT (on : bool) (w w' : wloc) : Prop :=
  (w_seq w' = true -> active (w_pc w') = true -> (w_seq w = true /\ active (w_pc w) = true) \/ w_pc w = WGetSeq) /\
  (seqpc (w_pc w') = true -> (w_pc w = WGetCCtx /\ on = true) \/ (w_seq w = true /\ active (w_pc w) = true)).

Ltac wt_solve Epc :=
  unfold WT, after_getseq, after_ensure, after_serial, next_chunk, last_block;
  repeat match goal with |- context[if ?b then _ else _] => destruct b eqn:? end;
  cbn [w_seq w_pc w_set_pc w_slot w_cctx active seqpc]; rewrite ?Epc; cbn [active seqpc];
  (split; intros; try discriminate; try congruence;
   first [ left; split; [assumption|reflexivity] | right; split; [assumption|reflexivity] | left; split; reflexivity | right; reflexivity
         | left; split; [reflexivity|assumption] | idtac ]).

Lemma worker_step_ws cfg t s s' w :
  worker_step cfg t s = Some s' -> nth_error (ws s) t = Some w ->
  exists w', (ws s' = upd t w' (ws s) \/ ws s' = upd t w' (wake_serial (ws s))) /\ sp_on (pl s') = sp_on (pl s) /\ mt s' = mt s /\
             WT (sp_on (pl s)) w w'.
Proof.
  intros H Hw. unfold worker_step in H. rewrite Hw in H.
  destruct (w_pc w) eqn:Epc; try discriminate;
    repeat match type of H with
           | (if ?b then _ else _) = _ => destruct b eqn:?
           | match ?x with Some _ => _ | None => _ end = _ => destruct x eqn:?
           end; inv_some H.
  all: repeat match goal with |- context[if ?b then wake_caller_ldm _ else _] => destruct b eqn:? end.
  all: eexists; (split; [cbn [ws set_w set_ws set_sr set_pl set_job set_jobs]; rewrite ?ws_wake_job, ?ws_wake_ldm; cbn [ws set_w set_ws set_sr set_pl set_job set_jobs];
                         try first [left; reflexivity|right; reflexivity]|]).


  all: (split; [cbn [pl set_w set_ws set_sr set_pl set_job set_jobs]; 
                repeat match goal with |- context[pl (wake_caller_job ?c ?k ?x)] => replace (pl (wake_caller_job c k x)) with (pl x) by (symmetry; apply wake_job_proj) end;
                repeat match goal with |- context[pl (wake_caller_ldm ?x)] => replace (pl (wake_caller_ldm x)) with (pl x) by (symmetry; apply wake_ldm_proj) end;
                cbn [pl set_w set_ws set_sr set_pl set_job set_jobs pl_q pl_busy pl_bp pl_cp pl_sp sp_on]; reflexivity|]).
  all: (split; [cbn [mt set_w set_ws set_sr set_pl set_job set_jobs];
                repeat match goal with |- context[mt (wake_caller_job ?c ?k ?x)] => replace (mt (wake_caller_job c k x)) with (mt x) by (symmetry; apply wake_job_proj) end;
                repeat match goal with |- context[mt (wake_caller_ldm ?x)] => replace (mt (wake_caller_ldm x)) with (mt x) by (symmetry; apply wake_ldm_proj) end;
                reflexivity|]).
  all: wt_solve Epc.
Qed.

(* ------------------------------------------------------------------ *)
(* the invariant *)

Record QInv (s : state) : Prop := mkQ {
  (* outside the two pool sections of ZSTDMT_initCStream_internal: the sequence pool is switched on iff the frame uses LDM *)
  q_pool : c_pc (cl s) <> CInitBuf -> c_pc (cl s) <> CInitSeq -> sp_on (pl s) = ldm (mt s);
  (* a pool thread inside a job holds a sequence buffer only in an LDM frame *)
  q_held : forall t w, nth_error (ws s) t = Some w -> active (w_pc w) = true -> w_seq w = true -> ldm (mt s) = true;
  (* a pool thread stands at the sequence pool's mutex only while the pool is switched on *)
  q_at : forall t w, nth_error (ws s) t = Some w -> seqpc (w_pc w) = true -> sp_on (pl s) = true }.

Lemma seqpc_active p : seqpc p = true -> active p = true.
Proof. destruct p; cbn; intros; try discriminate; reflexivity. Qed.

Lemma awake_initbuf p : awake p = CInitBuf -> p = CInitBuf.
Proof. destruct p; cbn; intros X; try discriminate; reflexivity. Qed.
Lemma awake_initseq0 p : awake p = CInitSeq -> p = CInitSeq.
Proof. destruct p; cbn; intros X; try discriminate; reflexivity. Qed.

(* a pool thread inside a job: the caller is not inside ZSTDMT_initCStream_internal's pool sections (mt_release_only_when_idle) *)
Lemma active_not_init cfg s t w :
  KInv cfg s -> nth_error (ws s) t = Some w -> active (w_pc w) = true -> c_pc (cl s) <> CInitBuf /\ c_pc (cl s) <> CInitSeq.
Proof.
  intros K Hw A. destruct (k_wrk _ _ K t w Hw A) as (i & (X & Y) & _).
  pose proof (k_pc _ _ K) as P. unfold PcInv in P. destruct P as (_ & _ & _ & PD & _).
  split; intros E; rewrite E in PD; cbn in PD; lia.
Qed.

Lemma wake_serial_q l t w : nth_error (wake_serial l) t = Some w ->
  exists w0, nth_error l t = Some w0 /\ w_seq w = w_seq w0 /\ active (w_pc w) = active (w_pc w0) /\ seqpc (w_pc w) = seqpc (w_pc w0).
Proof.
  unfold wake_serial. rewrite nth_error_map. destruct (nth_error l t) as [w0|]; [|discriminate]. cbn. intros H; inversion H; subst; clear H.
  exists w0. split; auto. destruct w0 as [p k c sq lc]. destruct p; cbn; repeat split; reflexivity.
Qed.

Lemma qinv_worker_step cfg t s s' : KInv cfg s -> QInv s -> worker_step cfg t s = Some s' -> QInv s'.
Proof.
  intros K [QP QH QA] H.
  destruct (nth_error (ws s) t) as [w|] eqn:Hw; [|unfold worker_step in H; rewrite Hw in H; discriminate].
  destruct (worker_step_ws cfg t s s' w H Hw) as (w' & Hws & Hsp & Hmt & (WT1 & WT2)).
  destruct (worker_step_aux cfg t s s' H) as (_ & Eaw & _).
  assert (Hpc : (c_pc (cl s') <> CInitBuf -> c_pc (cl s) <> CInitBuf) /\ (c_pc (cl s') <> CInitSeq -> c_pc (cl s) <> CInitSeq)).
  { split; intros X Y; apply X; [apply awake_initbuf|apply awake_initseq0]; rewrite Eaw, Y; reflexivity. }
  (* the record of every pool thread in s' comes from one in s *)
  assert (Hall : forall t' x', nth_error (ws s') t' = Some x' ->
            (t' = t /\ x' = w') \/
            (exists x, nth_error (ws s) t' = Some x /\ w_seq x' = w_seq x /\ active (w_pc x') = active (w_pc x) /\ seqpc (w_pc x') = seqpc (w_pc x))).
  { intros t' x' Hx. destruct Hws as [E|E]; rewrite E in Hx; apply nth_error_upd_inv in Hx; destruct Hx as [(A & B & _)|(A & B)]; auto; right.
    - exists x'. repeat split; auto.
    - apply wake_serial_q in B. exact B. }
  (* facts about the stepping thread before the step *)
  assert (Hown : w_seq w' = true -> active (w_pc w') = true -> ldm (mt s) = true).
  { intros A B. destruct (WT1 A B) as [(C & D)|C]; [eapply QH; eauto|].
    assert (Aw : active (w_pc w) = true) by (rewrite C; reflexivity).
    destruct (active_not_init cfg s t w K Hw Aw) as (N1 & N2).
    rewrite <- (QP N1 N2). eapply QA; eauto. rewrite C. reflexivity. }
  constructor; rewrite ?Hsp, ?Hmt.
  - intros N1 N2. apply QP; [apply Hpc; exact N1|apply Hpc; exact N2].
  - intros t' x' Hx A B. destruct (Hall t' x' Hx) as [(-> & ->)|(x & Hx0 & E1 & E2 & _)]; [apply Hown; auto|].
    eapply QH; [exact Hx0|congruence|congruence].
  - intros t' x' Hx A. destruct (Hall t' x' Hx) as [(-> & ->)|(x & Hx0 & _ & _ & E3)]; [|eapply QA; [exact Hx0|congruence]].
    destruct (WT2 A) as [(C & D)|(C & D)]; [exact D|].
    destruct (active_not_init cfg s t w K Hw D) as (N1 & N2). rewrite (QP N1 N2). eapply QH; eauto.
Qed.

Lemma qinv_caller_step cfg w s s' : TInv cfg s -> QInv s -> caller_step cfg w s = Some s' -> QInv s'.
Proof.
  intros TI [QP QH QA] H. assert (TI' : TInv cfg s') by (eapply tinv_caller_step; eauto). destruct TI' as (K' & _). destruct TI as (K & _).
  destruct (caller_step_q cfg w s s' H) as (L & Hbuf & (PWw & PWp)).
  (* a pool thread inside a job in s': the LDM flag did not change *)
  assert (Hldm : forall t x, nth_error (ws s') t = Some x -> active (w_pc x) = true -> ldm (mt s') = ldm (mt s) /\ c_pc (cl s) <> CInitBuf /\ c_pc (cl s) <> CInitSeq).
  { intros t x Hx A. destruct (active_not_init cfg s' t x K' Hx A) as (N1 & N2).
    destruct (active_not_init cfg s t x K (PWw t x Hx A) A) as (M1 & M2).
    destruct L as [L|L]; [auto|contradiction]. }
  constructor.
  - intros N1 N2. rewrite PWp. destruct L as [L|L]; [|contradiction]. rewrite L.
    destruct (c_pc (cl s)) eqn:Epc; cbn [is_initseq]; try (apply QP; rewrite ?Epc; discriminate); try reflexivity.
    (* CInitBuf: the step ends at CInitSeq *) exfalso. apply N2. apply Hbuf. reflexivity.
  - intros t x Hx A B. destruct (Hldm t x Hx A) as (E & _). rewrite E. eapply QH; [apply PWw; eauto|exact A|exact B].
  - intros t x Hx A. assert (A' := seqpc_active _ A). destruct (Hldm t x Hx A') as (_ & M1 & M2). rewrite PWp.
    destruct (c_pc (cl s)) eqn:Epc; cbn [is_initseq]; try (eapply QA; [apply PWw; eauto|exact A]). exfalso. apply M2. reflexivity.
Qed.

Lemma qinv_init cfg ops : QInv (init cfg ops).
Proof.
  unfold init. match goal with |- QInv (start_ops cfg ?x ops) => set (s0 := x) end.
  destruct (swp_start_ops cfg ops s0) as (_ & Ew & Ep). pose proof (lq_start_ops cfg ops s0) as L.
  constructor; rewrite ?Ew, ?Ep.
  - intros N1 _. destruct L as [L|L]; [rewrite L; reflexivity|contradiction].
  - intros t w Hw A. apply nth_error_repeat in Hw. subst. discriminate.
  - intros t w Hw A. apply nth_error_repeat in Hw. subst. discriminate.
Qed.

Theorem qinv_reachable cfg ops sched :
  0 < c_chunk cfg -> ops_ok ops -> QInv (run state (step cfg) sched (init cfg ops)).
Proof.
  intros Hc Ho.
  assert (X : TInv cfg (run state (step cfg) sched (init cfg ops)) /\ QInv (run state (step cfg) sched (init cfg ops))).
  { apply (run_invariant state (step cfg) (fun s => TInv cfg s /\ QInv s)).
    - intros s t w s' (TI & Q) Hst. split; [eapply tinv_step; eauto|]. destruct t as [|t]; cbn [step] in Hst.
      + eapply qinv_caller_step; eauto.
      + eapply qinv_worker_step; eauto. apply TI.
    - split; [apply tinv_init; auto|apply qinv_init]. }
  apply X.
Qed.

(* the statement in words: see Properties_C11.mt_seq_pool_follows_ldm *)
Theorem seq_pool_follows_ldm cfg ops sched :
  0 < c_chunk cfg -> ops_ok ops -> let s := run state (step cfg) sched (init cfg ops) in
  (c_pc (cl s) <> CInitBuf -> c_pc (cl s) <> CInitSeq -> sp_on (pl s) = ldm (mt s)) /\
  (forall t w, nth_error (ws s) t = Some w -> active (w_pc w) = true -> w_seq w = true -> ldm (mt s) = true) /\
  (forall t w, nth_error (ws s) t = Some w -> w_pc w = WGetSeq \/ w_pc w = WRelSeq -> sp_on (pl s) = true /\ ldm (mt s) = true).
Proof.
  intros Hc Ho s. pose proof (qinv_reachable cfg ops sched Hc Ho) as [QP QH QA]. fold s in QP, QH, QA.
  pose proof (tinv_reachable cfg ops sched Hc Ho) as (K & _). fold s in K.
  split; [exact QP|]. split; [exact QH|].
  intros t w Hw Hpc. assert (A : seqpc (w_pc w) = true) by (destruct Hpc as [E|E]; rewrite E; reflexivity).
  assert (B := QA t w Hw A). split; [exact B|].
  destruct (active_not_init cfg s t w K Hw (seqpc_active _ A)) as (N1 & N2). rewrite <- (QP N1 N2). exact B.
Qed.

(* transition form (any state): one step of any thread leaves the LDM flag of the context alone unless it is a step of the application
   thread that ends at the ZSTDMT_setBufferSize section of ZSTDMT_initCStream_internal (where, by mt_release_only_when_idle, no pool thread
   holds a job and the queue is empty): the flag a job reads (serial section, ZSTDMT_getSeq test, round-buffer wait) is constant during the job *)
Theorem ldm_flag_changes_only_at_init cfg t w s s' :
  step cfg t w s = Some s' -> ldm (mt s') = ldm (mt s) \/ (t = 0%nat /\ c_pc (cl s') = CInitBuf).
Proof.
  destruct t as [|t]; cbn [step]; intros H.
  - destruct (caller_step_q cfg w s s' H) as ([L|L] & _); [left; exact L|right; split; [reflexivity|exact L]].
  - left. destruct (worker_step_aux cfg t s s' H) as (Em & _). rewrite Em. reflexivity.
Qed.
