(* C11: every step of the application thread preserves the geometry invariant GInv (MtGeo.v). *)
From Coq Require Import List NArith ZArith Bool Arith Lia.
Import ListNotations.
From ZV.Conc Require Import Sched SchedLemmas MtModel MtProofs.
From ZV.Conc Require Import MtRing MtRingC MtFrame MtSleep MtGeo.
Local Open Scope N_scope.

(* ------------------------------------------------------------------ *)
(* PgOk through the caller's code tree (it only reads target/ptarget of the mtctx, c_fp, c_ops) *)

Lemma pg_ext s s' : target (mt s') = target (mt s) -> ptarget (mt s') = ptarget (mt s) -> c_fp (cl s') = c_fp (cl s) -> c_ops (cl s') = c_ops (cl s) ->
  PgOk s -> PgOk s'.
Proof. intros A B C D (X & Y & Z). unfold PgOk. rewrite A, B, C, D. auto. Qed.

Ltac pg_same N := eapply pg_ext; [..|exact N]; reflexivity.
Ltac pg_if := repeat match goal with |- PgOk (if ?b then _ else _) => destruct b end.

Lemma pg_pc s p : PgOk s -> PgOk (set_cpc p s).
Proof. intros N. pg_same N. Qed.

Lemma pg_create_job cfg s e : PgOk s -> PgOk (create_job cfg s e).
Proof.
  intros N. unfold create_job. pg_if; try (apply pg_pc; auto; fail).
  - apply pg_pc. eapply pg_ext; [..|exact N]; try reflexivity;
    unfold prepare_job; cbn zeta; destruct e; cbn [andb]; try destruct (next (mt s) =? 0); reflexivity.
  - apply pg_pc. eapply pg_ext; [..|exact N]; try reflexivity;
    unfold prepare_job; cbn zeta; destruct e; cbn [andb]; try destruct (next (mt s) =? 0); reflexivity.
Qed.
Lemma pg_create_phase cfg s : PgOk s -> PgOk (create_phase cfg s).
Proof. intros N. unfold create_phase. pg_if; [apply pg_create_job; pg_same N|apply pg_pc; pg_same N]. Qed.
Lemma pg_fill_phase cfg s : PgOk s -> PgOk (fill_phase cfg s).
Proof.
  intros N. unfold fill_phase. destruct (ihas (mt s)); [|apply pg_create_phase; auto]. destruct (sync_point _ _ _).
  apply pg_create_phase. pg_same N.
Qed.
Lemma pg_hand_out cfg s : PgOk s -> PgOk (hand_out cfg s).
Proof. intros N. apply pg_fill_phase. pg_same N. Qed.
Lemma pg_after_wrap cfg s : PgOk s -> PgOk (after_wrap cfg s).
Proof. intros N. unfold after_wrap. pg_if; first [apply pg_fill_phase; auto|apply pg_pc; auto|apply pg_hand_out; auto]. Qed.
Lemma pg_move_prefix cfg s : PgOk s -> PgOk (move_prefix cfg s).
Proof. intros N. apply pg_after_wrap. pg_same N. Qed.
Lemma pg_after_inuse cfg s u : PgOk s -> PgOk (after_inuse cfg s u).
Proof.
  intros N. unfold after_inuse. cbn zeta.
  assert (N1 : PgOk (set_cl (cl_use u (cl s)) s)) by pg_same N.
  pg_if; first [apply pg_fill_phase; auto|apply pg_pc; auto|apply pg_move_prefix; auto|apply pg_after_wrap; auto].
Qed.
Lemma pg_scan_inuse cfg s j : PgOk s -> PgOk (scan_inuse cfg s j).
Proof. intros N. unfold scan_inuse. pg_if; [apply pg_pc; auto|apply pg_after_inuse; auto]. Qed.
Lemma pg_gen_body cfg s : PgOk s -> PgOk (gen_body cfg s).
Proof. intros N. unfold gen_body. pg_if; first [apply pg_scan_inuse|apply pg_fill_phase|apply pg_create_phase]; auto. Qed.
Lemma pg_init_params s : fp_prefix (c_fp (cl s)) <= fp_target (c_fp (cl s)) -> geo_ops (c_ops (cl s)) -> PgOk (init_params s).
Proof. intros F O. unfold init_params. split; [cbn; exact F|split; auto]. Qed.
Lemma pg_rel_scan_k i kd : (forall s1, PgOk s1 -> PgOk (kd s1)) -> forall f s k, PgOk s -> PgOk (rel_scan_k i kd s k f).
Proof.
  intros H. induction f; intros s k N; cbn [rel_scan_k]; [apply H; pg_same N|].
  pg_if; first [apply pg_pc; auto; fail|apply IHf; pg_same N|apply H; pg_same N].
Qed.
Lemma pg_stop_ops s : PgOk s -> PgOk (stop_ops s).
Proof. intros (L & F & O). split; auto. split; auto. constructor. Qed.
Lemma pg_start_ops cfg ops : forall s, PgOk s -> geo_ops ops -> PgOk (start_ops cfg s ops).
Proof.
  induction ops as [|o r IH]; intros s N Ho; cbn [start_ops]; [apply pg_stop_ops; auto|].
  inversion Ho as [|? ? Ho1 Ho2]; subst. destruct N as (L & F & O).
  destruct o as [fp|e i o].
  - set (s1 := set_cl _ s).
    pg_if; [apply pg_init_params; auto|apply pg_pc; split; auto|].
    apply pg_rel_scan_k; [|split; auto]. intros s2 (_ & F2 & O2). apply pg_init_params; auto.
  - set (s1 := set_cl _ s). assert (N1 : PgOk s1) by (split; [exact L|split; [exact F|exact Ho2]]).
    assert (N0 : PgOk s) by (split; auto).
    pg_if; try (apply pg_stop_ops; auto; fail); [|apply pg_gen_body; auto].
    assert (N2 : PgOk (record_res RErr s1)) by pg_same N1.
    destruct r as [|[fp|e' i' o'] r']; first [apply pg_stop_ops; auto; fail|apply IH; auto].
Qed.
Lemma pg_finish_op cfg s r : PgOk s -> PgOk (finish_op cfg s r).
Proof.
  intros N. unfold finish_op. apply pg_start_ops; [pg_same N|].
  destruct N as (_ & _ & O). unfold ops_after. destruct r; auto. destruct (c_ops (cl s)) as [|[fp|e i o] l]; auto. constructor.
Qed.
Lemma pg_rel_scan cfg i s k f : PgOk s -> PgOk (rel_scan cfg i s k f).
Proof.
  intros N. unfold rel_scan. apply pg_rel_scan_k; auto. intros s1 N1. destruct i; [destruct N1 as (_ & F & O); apply pg_init_params; auto|apply pg_finish_op; auto].
Qed.
Lemma pg_wait_all cfg i s : PgOk s -> PgOk (wait_all cfg i s).
Proof. intros N. unfold wait_all. pg_if; [apply pg_pc; auto|apply pg_rel_scan; auto]. Qed.
Lemma pg_gen_again cfg s : PgOk s -> PgOk (gen_again cfg s).
Proof. intros N. unfold gen_again. pg_if; [apply pg_finish_op|apply pg_gen_body]; pg_same N. Qed.
Lemma pg_gen_return cfg s v : PgOk s -> PgOk (gen_return cfg s v).
Proof. intros N. unfold gen_return. pg_if; first [apply pg_finish_op|apply pg_gen_again]; auto. Qed.
Lemma pg_flush_return cfg s : PgOk s -> PgOk (flush_return cfg s).
Proof.
  intros N. unfold flush_return, flush_tail.
  repeat match goal with |- PgOk (let '(_, _) := (if ?b then _ else _) in _) => destruct b end; apply pg_gen_return; first [exact N|pg_same N].
Qed.
Lemma pg_complete_job cfg s : PgOk s -> PgOk (complete_job cfg s).
Proof. intros N. apply pg_flush_return. pg_same N. Qed.
Lemma pg_flush_body cfg s : PgOk s -> PgOk (flush_body cfg s).
Proof.
  intros N. unfold flush_body. cbn zeta.
  pg_if; first [apply pg_wait_all; auto; fail|apply pg_pc; pg_same N
               |apply pg_complete_job; pg_same N|apply pg_gen_return; pg_same N|apply pg_flush_return; pg_same N].
Qed.

Lemma pg_caller_step cfg w s s' : PgOk s -> caller_step cfg w s = Some s' -> PgOk s'.
Proof.
  intros N H. unfold caller_step in H. cbn zeta in H.
  destruct (c_pc (cl s)) eqn:Epc; try discriminate.
  all: repeat match type of H with (if ?b then _ else _) = _ => destruct b end; inv_some H.
  all: try (first [apply pg_after_inuse|apply pg_scan_inuse|apply pg_move_prefix|apply pg_hand_out|apply pg_flush_body|apply pg_complete_job
                  |apply pg_wait_all|apply pg_rel_scan|apply pg_finish_op]; pg_same N).
  all: try (apply pg_pc; pg_same N).
Qed.

Lemma pg_worker_step cfg t s s' : PgOk s -> worker_step cfg t s = Some s' -> PgOk s'.
Proof. intros N H. destruct (worker_step_aux cfg t s s' H) as (Em & _ & _ & Ef & Eo). unfold PgOk. rewrite Em, Ef, Eo. exact N. Qed.

Lemma pg_init cfg ops : geo_ops ops -> PgOk (init cfg ops).
Proof. intros Ho. unfold init. apply pg_start_ops; auto. split; [cbn; lia|split; [cbn; lia|constructor]]. Qed.

(* ------------------------------------------------------------------ *)
(* GM: changes that do not touch the geometry *)

Ltac gm_same G := eapply gm_ext; [..|exact G]; first [reflexivity|intros; reflexivity].

Lemma live_false s i : live s false i <-> inflight s i.
Proof. unfold live. split; [intros [H|(H & _)]; [exact H|discriminate]|auto]. Qed.

(* the endpoint of a piece of the caller's code: a pc is set *)
Lemma ginv_at cfg s p :
  awake p <> CInitSeq -> PgOk s ->
  (alldone (mt s) = false -> relphase (awake p) = false -> GM cfg s (pbof (set_cpc p s)) /\ PcGeo cfg (set_cpc p s)) ->
  GInv cfg (set_cpc p s).
Proof.
  intros Hp N H. split; [apply pg_pc; exact N|]. cbn [mt cl set_cpc set_cl cl_pc c_pc]. intros Ha Hr. destruct (H Ha Hr) as (G & P).
  assert (X : GM cfg (set_cpc p s) (pbof (set_cpc p s)) /\ PcGeo cfg (set_cpc p s)).
  { split; auto. eapply gm_ext; [..|exact G]; first [reflexivity|intros; reflexivity]. }
  destruct (awake p); try exact X. contradiction.
Qed.

Lemma ginv_vac cfg s : PgOk s -> alldone (mt s) = true -> GInv cfg s.
Proof. intros N H. split; auto. intros X. congruence. Qed.

Lemma ginv_rel cfg s : PgOk s -> relphase (awake (c_pc (cl s))) = true -> GInv cfg s.
Proof. intros N H. split; auto. intros _ X. congruence. Qed.

(* ------------------------------------------------------------------ *)
(* ZSTDMT_createCompressionJob *)

Lemma prepare_job_mt cfg s n e :
  let s1 := prepare_job cfg s n e in let m := mt s in let m1 := mt s1 in
  let endf := match e with EEnd => true | _ => false end in
  done m1 = done m /\ next m1 = next m /\ ready m1 = ready m /\ alldone m1 = alldone m /\
  rcap m1 = rcap m /\ target m1 = target m /\ ptarget m1 = ptarget m /\ wsize m1 = wsize m /\ lap m1 = lap m /\ ldm m1 = ldm m /\
  rpos m1 = rpos m + n /\ ihas m1 = false /\ istart m1 = 0 /\ ifill m1 = 0 /\
  psize m1 = (if endf then 0 else N.min n (ptarget m)) /\
  pstart m1 = (if endf then 0 else istart m + n - N.min n (ptarget m)) /\
  ended m1 = (ended m || endf).
Proof.
  unfold prepare_job. cbn zeta.
  destruct e; cbn [andb]; try destruct (next (mt s) =? 0); cbn [mt set_mt set_job set_jobs mt_buf mt_ring mt_cksum done next ready alldone rcap target ptarget wsize lap ldm
    rpos ihas istart ifill psize pstart ended]; rewrite ?orb_false_r, ?orb_true_r; repeat split; reflexivity.
Qed.

Lemma prepare_job_new cfg s n e : (slot cfg (next (mt s)) < length (jobs s))%nat ->
  let j := getj (prepare_job cfg s n e) (slot cfg (next (mt s))) in
  j_src j = istart (mt s) /\ j_size j = n /\ j_pstart j = pstart (mt s) /\ j_psize j = psize (mt s) /\ j_consumed j = 0 /\ j_lap j = lap (mt s).
Proof.
  intros Hk. cbn zeta.
  assert (E : getj (prepare_job cfg s n e) (slot cfg (next (mt s))) =
     mkJob (next (mt s)) (istart (mt s)) n (pstart (mt s)) (psize (mt s)) 0 0 false false (next (mt s) =? 0)
           (match e with EEnd => true | _ => false end)
           (cksum (mt s) && (match e with EEnd => true | _ => false end) && (0 <? next (mt s))) 0 false (iabs (mt s)) (lap (mt s))).
  { unfold prepare_job. cbn zeta. apply getj_set_job_eq. exact Hk. }
  rewrite E. cbn. repeat split; reflexivity.
Qed.

Lemma prepare_job_old cfg s n e k : k <> slot cfg (next (mt s)) -> getj (prepare_job cfg s n e) k = getj s k.
Proof. intros Hk. unfold prepare_job. cbn zeta. rewrite getj_set_mt. apply getj_set_job_neq. auto. Qed.

Lemma gm_prepare_job cfg s e2 :
  KB cfg s -> next (mt s) < done (mt s) + Mr cfg -> GM cfg s false -> (ifill (mt s) = 0 -> e2 = EEnd) ->
  GM cfg (prepare_job cfg s (ifill (mt s)) e2) true.
Proof.
  intros K Hlt [B Jg Mo Fw Fs _ Ne Ch Wn _] Hcond.
  set (n := ifill (mt s)) in *. set (s1 := prepare_job cfg s n e2).
  pose proof (prepare_job_mt cfg s n e2) as Hm. cbn zeta in Hm. fold s1 in Hm.
  destruct Hm as (Ed & En & Erd & Ead & Ec & Et & Ept & Ew & El & Eld & Er & Eih & Eis & Eif & Eps & Epst & Een).
  assert (Hk : (slot cfg (next (mt s)) < length (jobs s))%nat) by (rewrite (b_len _ _ K); apply slot_lt).
  pose proof (prepare_job_new cfg s n e2 Hk) as Hnew. cbn zeta in Hnew. fold s1 in Hnew. destruct Hnew as (N1 & N2 & N3 & N4 & N5 & N6).
  assert (Hold : forall i, inflight s i -> J cfg s1 i = J cfg s i).
  { intros i Hi. unfold J. apply prepare_job_old. apply inflight_not_next; auto. }
  assert (Hin : forall i, inflight s1 i <-> inflight s i) by (intros; unfold inflight; rewrite Ed, En; tauto).
  assert (Hlv : forall i, live s1 true i -> inflight s i \/ i = next (mt s)).
  { intros i [H|(_ & H)]; [left; apply Hin; auto|right; congruence]. }
  destruct B as [b1 b2 b3 b4 b5 b6 b7 b8 b9].
  assert (Hn : n <= target (mt s) /\ (0 < n -> ihas (mt s) = true)).
  { destruct (ihas (mt s)) eqn:Eh; [destruct (b7 eq_refl) as (_ & _ & X); split; auto|unfold n; rewrite (b8 eq_refl); split; lia]. }
  destruct Hn as (Hn1 & Hn2).
  assert (Hih : 0 < n -> istart (mt s) = rpos (mt s) /\ rpos (mt s) + target (mt s) <= rcap (mt s)).
  { intros X. destruct (b7 (Hn2 X)) as (A & B & _). auto. }
  set (endf := match e2 with EEnd => true | _ => false end) in *.
  assert (Hpz : psize (mt s1) <= n /\ psize (mt s1) <= ptarget (mt s)) by (rewrite Eps; destruct endf; lia).
  assert (Hvf : VF (mt s1) = VF (mt s) + n) by (unfold VF; rewrite El, Ec, Er; lia).
  assert (Hvs : forall j, vs (mt s1) j = vs (mt s) j) by (intros; unfold vs; rewrite Ec; reflexivity).
  constructor.
  - constructor.
    + unfold need_cap in *. rewrite Ec, Ew, Et, Ept. exact b1.
    + rewrite Et. exact b2.
    + rewrite Et, Ept. exact b3.
    + rewrite Ept. apply Hpz.
    + intros Hp. rewrite Er. rewrite Eps, Epst in *. destruct endf; [lia|].
      assert (0 < n) by lia. destruct (Hih H) as (A & _). lia.
    + rewrite Er, Ec. destruct (N.eq_dec n 0) as [Hz|Hz]; [lia|]. destruct (Hih ltac:(lia)). lia.
    + rewrite Eih. discriminate.
    + intros _. exact Eif.
    + intros _. exact Eih.
  - intros i Hi. destruct (Hlv i Hi) as [Hi0| ->].
    + rewrite (Hold i Hi0). destruct (Jg i (proj2 (live_false s i) Hi0)) as [A Bq C D F G H].
      constructor.
      * rewrite Et; exact A.
      * rewrite Ept; exact Bq.
      * rewrite El; exact C.
      * rewrite Et, Ec; exact D.
      * exact F.
      * intros X. rewrite Hvs, Hvf. specialize (G X). lia.
      * intros X. rewrite Hvs, Hvf. specialize (G X). lia.
    + unfold J. fold s1. constructor.
      * rewrite N2, Et; lia.
      * rewrite N4, Ept; exact b4.
      * rewrite N6, El; lia.
      * rewrite N2, N1, Et, Ec. intros X. destruct (Hih X). lia.
      * rewrite N2, N4, N3, N1. intros X Y. destruct (Hih X). specialize (b5 Y). lia.
      * rewrite N2. intros X. unfold vs. rewrite N1, N6, Ec, Hvf. destruct (Hih X). unfold VF. lia.
      * rewrite N2. intros X. unfold vs. rewrite N1, N6, Ec, Hvf. destruct (Hih X). unfold VF. lia.
  - intros i i' Hi Hi' Hii Hs Hs'. destruct (Hlv i Hi) as [Hi0| ->]; destruct (Hlv i' Hi') as [Hi0'| ->].
    + rewrite (Hold i Hi0), (Hold i' Hi0') in *. rewrite !Hvs. apply Mo; auto; apply live_false; auto.
    + rewrite (Hold i Hi0) in *. change (J cfg s1 (next (mt s))) with (getj s1 (slot cfg (next (mt s)))) in *.
      rewrite N2 in Hs'. destruct (Hih Hs') as (A & _).
      pose proof (jg_cur _ _ (Jg i (proj2 (live_false s i) Hi0)) Hs) as H. unfold VF in H. unfold vs in *. rewrite N1, N4, N6, Ec. lia.
    + destruct Hi0' as (_ & X). lia.
    + lia.
  - intros i Hi Hu. apply Hin in Hi. rewrite (Hold i Hi) in *. rewrite Hvs, Hvf, Ec.
    destruct (N.eq_dec n 0) as [Ez|Ez]; [rewrite Ez; specialize (Fw i Hi Hu); lia|].
    specialize (Fs (Hn2 ltac:(lia)) i Hi Hu). lia.
  - intros X. congruence.
  - intros _. split; [exact Eih|]. rewrite En. unfold J. fold s1. rewrite N1, N2, N6, El, Er. split; auto.
    intros X. destruct (Hih X). lia.
  - rewrite Een. intros He i Hi. apply orb_false_elim in He. destruct He as (He1 & He2).
    destruct (Hlv i Hi) as [Hi0| ->].
    + rewrite (Hold i Hi0). apply Ne; auto. apply live_false; auto.
    + unfold J. fold s1. rewrite N2. destruct (N.eq_dec n 0) as [Ez|Ez]; [|lia].
      specialize (Hcond Ez). subst e2. discriminate.
  - (* Chain *)
    unfold Chain. rewrite Een. intros He'. apply orb_false_elim in He'. destruct He' as (He & Hef).
    assert (Hnpos : 0 < n).
    { destruct (N.eq_dec n 0) as [Ez|Ez]; [|lia]. specialize (Hcond Ez). subst e2. discriminate. }
    destruct (Hih Hnpos) as (Hi1 & Hi2). destruct (Ch He) as (C1 & C2).
    assert (Hnew : forall L e, ContC (mt s) L e -> Cont (mt s1) L e (J cfg s1 (next (mt s)))).
    { intros L e [(A1 & A2)|(A1 & A2 & A3)]; unfold Cont, J; fold s1; rewrite N1, N4, N6, Ec, Et; [left|right]; repeat split; auto; congruence. }
    split.
    + intros i Hi Hi'. destruct (Hlv i Hi) as [Hi0|Ei]; destruct (Hlv (i + 1) Hi') as [Hi0'|Hi0'].
      * rewrite (Hold i Hi0), (Hold (i + 1) Hi0'). eapply cont_ext; [exact Ec|exact Et|reflexivity..|]. apply C1; apply live_false; auto.
      * rewrite (Hold i Hi0), Hi0'. apply Hnew. apply C2; [apply live_false; auto|]. rewrite Hi0'. intros X. apply live_false in X. destruct X. lia.
      * destruct Hi0' as (_ & X). lia.
      * lia.
    + intros i Hi Hn'. destruct (Hlv i Hi) as [Hi0|Ei].
      * exfalso. apply Hn'. destruct Hi0 as (A1 & A2). destruct (N.eq_dec (i + 1) (next (mt s))) as [E|E]; [right; split; [reflexivity|congruence]|left; apply Hin; split; lia].
      * rewrite Ei. unfold J, jend. fold s1. rewrite N1, N2, N6. left. rewrite El, Er. split; [reflexivity|lia].
  - (* WG *)
    unfold WG in *. change (sr s1) with (sr s). rewrite Een, Eld, Ew, El, Ec, Et, Ept, En. intros Hl He'. apply orb_false_elim in He'. destruct He' as (He & Hef).
    assert (Hnpos : 0 < n).
    { destruct (N.eq_dec n 0) as [Ez|Ez]; [|lia]. specialize (Hcond Ez). subst e2. discriminate. }
    destruct (Hih Hnpos) as (Hi1 & Hi2).
    specialize (Wn Hl He). destruct (s_w (sr s)) as [[[el eh] pl] ph]. destruct Wn as (W1 & W2 & W3 & W4).
    split; [exact W1|]. split; [exact W2|]. split; [exact W3|].
    destruct W4 as [W4|(Lp & L1 & L2 & L3 & L4 & L5)]; [left; exact W4|right]. exists Lp. split; [exact L1|]. split; [exact L2|]. split; [exact L3|]. split.
    + intros Hi. destruct (Hlv _ Hi) as [Hi0|Hi0].
      * rewrite (Hold _ Hi0). eapply cont_ext; [exact Ec|exact Et|reflexivity..|]. apply L4. apply live_false; auto.
      * rewrite Hi0. specialize (L5 eq_refl Hi0). destruct L5 as [(A1 & A2)|(A1 & A2 & A3)]; unfold Cont, J; fold s1; rewrite N1, N4, N6; [left|right]; repeat split; auto; congruence.
    + discriminate.
  - intros _ X. congruence.
Qed.

Lemma pg_prepare_job cfg s n e : PgOk s -> PgOk (prepare_job cfg s n e).
Proof.
  intros N. pose proof (prepare_job_mt cfg s n e) as Hm. cbn zeta in Hm. destruct Hm as (_ & _ & _ & _ & _ & Et & Ept & _).
  eapply pg_ext; [exact Et|exact Ept|..|exact N]; reflexivity.
Qed.

Lemma jgf_set_done j : jgf (j_set_done j) = jgf j. Proof. reflexivity. Qed.

Lemma gi_create_job cfg s e2 :
  Mid cfg s -> PgOk s -> alldone (mt s) = false -> GM cfg s (ready (mt s)) ->
  (ready (mt s) = false -> ifill (mt s) = 0 -> e2 = EEnd) ->
  GInv cfg (create_job cfg s e2).
Proof.
  intros M N Ha G Hcond. unfold create_job.
  destruct (done (mt s) + mask cfg <? next (mt s)) eqn:Efull.
  { apply ginv_at; [discriminate|..]; auto. intros _ _. unfold pbof. cbn. rewrite orb_false_r. split; [exact G|exact I]. }
  apply N.ltb_ge in Efull. pose proof (mask_Mr cfg) as HM.
  assert (Hlt : next (mt s) < done (mt s) + Mr cfg) by lia.
  destruct (ready (mt s)) eqn:Er.
  { apply ginv_at; [discriminate|..]; auto. intros _ _. unfold pbof. cbn. rewrite Er. split; [exact G|exact I]. }
  pose proof (gm_prepare_job cfg s e2 (m_kb _ _ M) Hlt G (Hcond eq_refl)) as G1.
  set (s1 := prepare_job cfg s (ifill (mt s)) e2) in *.
  assert (N1 : PgOk s1) by (apply pg_prepare_job; auto).
  assert (Hk : (slot cfg (next (mt s)) < length (jobs s1))%nat).
  { unfold s1, prepare_job. cbn zeta. cbn [jobs set_mt set_job set_jobs]. rewrite upd_length. rewrite (b_len _ _ (m_kb _ _ M)). apply slot_lt. }
  destruct ((ifill (mt s) =? 0) && (0 <? next (mt s))).
  - apply ginv_at; [discriminate|..]; [eapply pg_ext; [..|exact N1]; reflexivity|]. intros _ _. unfold pbof. cbn [awake set_cpc set_cl cl_pc c_pc cl]. rewrite orb_true_r.
    split; [|exact I]. eapply gm_ext; [..|exact G1]; [reflexivity|reflexivity|].
    intros k. rewrite getj_upd_eq_dec by exact Hk. destruct (Nat.eq_dec _ _) as [<-|]; reflexivity.
  - apply ginv_at; [discriminate|..]; auto. intros _ _. unfold pbof. cbn [awake set_cpc set_cl cl_pc c_pc cl]. rewrite orb_true_r. split; [exact G1|exact I].
Qed.

(* ------------------------------------------------------------------ *)
(* the input side *)

Lemma gm_set_cl cfg c s pb : GM cfg s pb -> GM cfg (set_cl c s) pb.
Proof. intros G. gm_same G. Qed.

Lemma gi_create_phase cfg s : Mid cfg s -> Flow s -> PgOk s -> GMr cfg s -> GInv cfg (create_phase cfg s).
Proof.
  intros M F N G. unfold create_phase.
  set (e2 := match c_e2 (cl s) with EEnd => if 0 <? c_in (cl s) then EFlush else EEnd | e => e end).
  set (s' := set_cl (cl_io e2 (c_fwd (cl s)) (c_in (cl s)) (c_out (cl s)) (cl s)) s).
  assert (M' : Mid cfg s') by mid_same M.
  assert (N' : PgOk s') by pg_same N.
  match goal with |- GInv cfg (if ?b then _ else _) => destruct b eqn:Eb end.
  - destruct (m_tg _ _ M) as (T & _).
    assert (Ht0 : target (mt s) <=? 0 = false) by (apply N.leb_gt; lia).
    assert (Ha : alldone (mt s) = false).
    { destruct (alldone (mt s)) eqn:Ea; auto. exfalso.
      destruct F as (_ & F2). destruct (F2 Ea) as (E1 & E2 & E3).
      change (mt s') with (mt s) in Eb. rewrite E1, E2, E3 in Eb. cbn in Eb. rewrite Ht0 in Eb.
      rewrite !andb_false_r in Eb. discriminate. }
    apply gi_create_job; auto.
    + apply gm_set_cl. apply G. exact Ha.
    + change (ready (mt s) = false -> ifill (mt s) = 0 -> e2 = EEnd). intros Er Ei.
      change (mt s') with (mt s) in Eb. rewrite Er, Ei, Ht0 in Eb. cbn in Eb. rewrite andb_false_r in Eb. cbn in Eb.
      destruct e2; cbn in Eb; auto; discriminate.
  - apply ginv_at; [discriminate|..]; auto. intros Ha _. unfold pbof. cbn. rewrite orb_false_r. split; [|exact I]. apply gm_set_cl. apply G. exact Ha.
Qed.

Lemma first_hit_le l lo hi h : first_hit l lo hi = Some h -> lo < h /\ h <= hi.
Proof. unfold first_hit. intros H. apply find_some in H. destruct H as (_ & H). apply andb_prop in H. rewrite N.ltb_lt, N.leb_le in H. exact H. Qed.

Lemma sync_point_le cfg m avail : fst (sync_point cfg m avail) <= target m - ifill m.
Proof.
  unfold sync_point. cbn zeta.
  repeat match goal with
         | |- context[if ?b then _ else _] => destruct b
         | |- context[match first_hit ?a ?b ?c with _ => _ end] => destruct (first_hit a b c) eqn:?
         end; cbn [fst]; try lia;
  match goal with H : first_hit _ _ _ = Some _ |- _ => apply first_hit_le in H end; lia.
Qed.

Lemma gm_fill cfg s pb toLoad :
  ihas (mt s) = true -> toLoad <= target (mt s) - ifill (mt s) -> GM cfg s pb ->
  GM cfg (set_mt (mt_buf (rpos (mt s)) true (istart (mt s)) (ifill (mt s) + toLoad) (pstart (mt s)) (psize (mt s)) (lap (mt s)) (iabs (mt s)) (mt s)) s) pb.
Proof.
  intros Hh Hl [B Jg Mo Fw Fs Pr Ne Ch Wn Wf].
  constructor.
  - destruct B as [b1 b2 b3 b4 b5 b6 b7 b8 b9]. constructor; cbn [mt set_mt mt_buf rcap target ptarget psize pstart rpos ihas istart ifill ended]; auto.
    + intros _. destruct (b7 Hh) as (A & B' & C). repeat split; auto. lia.
    + discriminate.
    + intros X. specialize (b9 X). congruence.
  - intros i Hi. eapply jgeo_ext; [reflexivity|..|apply Jg; exact Hi]; reflexivity.
  - exact Mo.
  - exact Fw.
  - intros _. exact (Fs Hh).
  - intros X. destruct (Pr X) as (P1 & _). congruence.
  - exact Ne.
  - eapply chain_ext; [intros i H; exact H|intros i _ H; exact H|reflexivity..|intros i _; repeat split|exact Ch].
  - eapply wg_ext; [intros i H; exact H|reflexivity..|intros i _; repeat split|exact Wn].
  - intros Hld _. exact (Wf Hld Hh).
Qed.

Lemma gi_fill_phase cfg s :
  Mid cfg s -> ended (mt s) = false -> alldone (mt s) = false -> PgOk s -> GM cfg s (ready (mt s)) -> GInv cfg (fill_phase cfg s).
Proof.
  intros M He Ha N G. unfold fill_phase.
  assert (F : Flow s) by (split; intros; congruence).
  destruct (ihas (mt s)) eqn:Eh; [|apply gi_create_phase; auto; intros _; exact G].
  pose proof (sync_point_le cfg (mt s) (c_in (cl s))) as Hsp.
  destruct (sync_point cfg (mt s) (c_in (cl s))) as [toLoad fl]. cbn [fst] in Hsp.
  apply gi_create_phase.
  - eapply mid_ext; [..|exact M]; first [reflexivity | right; exact He].
  - split; cbn [mt cl set_mt set_cl mt_buf ended alldone]; intros; congruence.
  - pg_same N.
  - intros _. apply (gm_fill cfg (set_cl _ s) (ready (mt s)) toLoad Eh Hsp). apply gm_set_cl. exact G.
Qed.

(* ZSTDMT_tryGetInputRange hands out [roundBuff.pos, roundBuff.pos + targetSectionSize) *)
Lemma gm_hand_out cfg s :
  ihas (mt s) = false -> ended (mt s) = false -> rpos (mt s) + target (mt s) <= rcap (mt s) ->
  (forall i, inflight s i -> unfin (J cfg s i) -> VF (mt s) + target (mt s) + j_psize (J cfg s i) <= vs (mt s) (J cfg s i) + rcap (mt s)) ->
  (ldm (mt s) = true -> overlap_win (rpos (mt s), target (mt s)) (s_w (sr s)) = false) ->
  GM cfg s false ->
  GM cfg (set_mt (mt_buf (rpos (mt s)) true (rpos (mt s)) 0 (pstart (mt s)) (psize (mt s)) (lap (mt s)) (iabs (mt s)) (mt s)) s) false.
Proof.
  intros Hh He Hr Hs Hwf [B Jg Mo Fw Fs Pr Ne Ch Wn _].
  constructor.
  - destruct B as [b1 b2 b3 b4 b5 b6 b7 b8 b9]. constructor; cbn [mt set_mt mt_buf rcap target ptarget psize pstart rpos ihas istart ifill ended]; auto;
      try discriminate; try (intros X; congruence). intros _. repeat split; auto. lia.
  - intros i Hi. eapply jgeo_ext; [reflexivity|..|apply Jg; exact Hi]; reflexivity.
  - exact Mo.
  - exact Fw.
  - intros _. exact Hs.
  - discriminate.
  - exact Ne.
  - eapply chain_ext; [intros i H; exact H|intros i _ H; exact H|reflexivity..|intros i _; repeat split|exact Ch].
  - eapply wg_ext; [intros i H; exact H|reflexivity..|intros i _; repeat split|exact Wn].
  - intros Hld _. exact (Hwf Hld).
Qed.

(* from what the scan of the jobs has established and the range test: the new buffer collides with no unfinished job *)
Lemma use_strong cfg s use :
  GM cfg s false -> UseOk cfg s use -> rpos (mt s) + target (mt s) <= rcap (mt s) -> overlap (rpos (mt s), target (mt s)) use = false ->
  forall i, inflight s i -> unfin (J cfg s i) -> VF (mt s) + target (mt s) + j_psize (J cfg s i) <= vs (mt s) (J cfg s i) + rcap (mt s).
Proof.
  intros G U Hr Ho i Hi Hu. destruct U as [(_ & U)|(d & Hd & Sc & Sz & Eu & Fd)]; [destruct (U i Hi Hu)|].
  pose proof (gm_j _ _ _ G d (proj2 (live_false s d) Hd)) as Gd.
  pose proof (use_key_handout (mt s) (J cfg s d) use Gd Sz Eu Fd Hr Ho (bg_t _ _ (gm_b _ _ _ G))) as K.
  destruct (N.lt_trichotomy i d) as [Hlt|[->|Hgt]]; [destruct (Sc i Hi Hlt Hu)|exact K|].
  assert (Hsi : 0 < j_size (J cfg s i)) by (unfold unfin in Hu; lia).
  pose proof (gm_mono _ _ _ G d i (proj2 (live_false s d) Hd) (proj2 (live_false s i) Hi) Hgt Sz Hsi). lia.
Qed.

Lemma useok_set_cpc cfg s p use : UseOk cfg s use -> UseOk cfg (set_cpc p s) use.
Proof. apply useok_ext; [reflexivity|intros; reflexivity]. Qed.
Lemma useok_set_cl cfg s c use : UseOk cfg s use -> UseOk cfg (set_cl c s) use.
Proof. apply useok_ext; [reflexivity|intros; reflexivity]. Qed.

Lemma gi_hand_out cfg s :
  Mid cfg s -> ended (mt s) = false -> alldone (mt s) = false -> PgOk s -> ready (mt s) = false -> GM cfg s false ->
  ihas (mt s) = false -> rpos (mt s) + target (mt s) <= rcap (mt s) -> UseOk cfg s (c_use (cl s)) ->
  overlap (rpos (mt s), target (mt s)) (c_use (cl s)) = false ->
  (ldm (mt s) = true -> overlap_win (rpos (mt s), target (mt s)) (s_w (sr s)) = false) -> GInv cfg (hand_out cfg s).
Proof.
  intros M He Ha N Er G Hh Hr U Ho Hwf. unfold hand_out. apply gi_fill_phase; [|exact He|exact Ha| |].
  - eapply mid_ext; [..|exact M]; first [reflexivity | right; exact He].
  - pg_same N.
  - cbn [mt set_mt mt_buf ready]. rewrite Er. apply gm_hand_out; auto. apply (use_strong cfg s _ G U Hr Ho).
Qed.

Lemma gi_after_wrap cfg s :
  Mid cfg s -> ended (mt s) = false -> alldone (mt s) = false -> PgOk s -> ready (mt s) = false -> GM cfg s false ->
  ihas (mt s) = false -> rpos (mt s) + target (mt s) <= rcap (mt s) -> UseOk cfg s (c_use (cl s)) -> GInv cfg (after_wrap cfg s).
Proof.
  intros M He Ha N Er G Hh Hr U. unfold after_wrap.
  destruct (overlap _ _) eqn:Eo; [apply gi_fill_phase; auto; rewrite Er; exact G|].
  destruct (ldm (mt s)) eqn:Eldm; [|apply gi_hand_out; auto; intros X; congruence].
  apply ginv_at; [discriminate|..]; auto. intros _ _. unfold pbof. cbn [awake set_cpc set_cl cl_pc c_pc cl mt]. rewrite Er. split; [exact G|].
  unfold PcGeo. cbn [awake set_cpc set_cl cl_pc c_pc cl mt c_use]. refine (conj Hh (conj Er (conj _ (conj (conj _ Eldm) Eo)))); [apply useok_set_cpc; exact U|lia].
Qed.

(* the prefix is moved to the start of the buffer: roundBuff.pos = prefix size, one more lap *)
Lemma gm_move_prefix cfg s :
  GM cfg s false -> ihas (mt s) = false -> rcap (mt s) - rpos (mt s) < target (mt s) -> UseOk cfg s (c_use (cl s)) ->
  overlap (0, psize (mt s)) (c_use (cl s)) = false ->
  let s' := set_mt (mt_buf (psize (mt s)) (ihas (mt s)) (istart (mt s)) (ifill (mt s)) 0 (psize (mt s)) (lap (mt s) + 1) (iabs (mt s)) (mt s)) s in
  GM cfg s' false /\ UseOk cfg s' (c_use (cl s)) /\ rpos (mt s') + target (mt s') <= rcap (mt s').
Proof.
  intros G Hh Hw U Ho s'. pose proof G as [B Jg Mo Fw Fs Pr Ne Ch Wn Wf]. pose proof (cap_bounds _ _ B) as (Hc1 & _).
  destruct B as [b1 b2 b3 b4 b5 b6 b7 b8 b9].
  assert (Hvf : VF (mt s') = lap (mt s) * rcap (mt s) + rcap (mt s) + psize (mt s)) by (unfold VF; cbn; lia).
  assert (Hvfle : VF (mt s) <= lap (mt s) * rcap (mt s) + rcap (mt s)) by (unfold VF; lia).
  assert (Hvs : forall j, vs (mt s') j = vs (mt s) j) by reflexivity.
  assert (Hin : forall i, inflight s' i <-> inflight s i) by (intros; reflexivity).
  (* the frontier after the move has not lapped the oldest unfinished job *)
  assert (Hkey : forall i, inflight s i -> unfin (J cfg s i) -> VF (mt s') + j_psize (J cfg s i) <= vs (mt s) (J cfg s i) + rcap (mt s)).
  { intros i Hi Hu. destruct U as [(_ & U)|(d & Hd & Sc & Sz & Eu & Fd)]; [destruct (U i Hi Hu)|].
    pose proof (Jg d (proj2 (live_false s d) Hd)) as Gd.
    pose proof (use_key_wrap (mt s) (J cfg s d) _ Gd Sz Eu Fd b6 Hw Ho) as K. rewrite Hvf.
    destruct (N.lt_trichotomy i d) as [Hlt|[->|Hgt]]; [destruct (Sc i Hi Hlt Hu)|nia|].
    assert (Hsi : 0 < j_size (J cfg s i)) by (unfold unfin in Hu; lia).
    pose proof (Mo d i (proj2 (live_false s d) Hd) (proj2 (live_false s i) Hi) Hgt Sz Hsi). nia. }
  assert (Hcc : forall L e, ContC (mt s) L e -> ContC (mt s') L e).
  { intros L e [(A1 & A2)|(A1 & A2 & A3)]; unfold ContC; cbn [mt set_mt mt_buf lap rpos psize rcap target s'].
    - right. repeat split; auto; lia.
    - exfalso. lia. }
  split; [|split].
  - constructor.
    + constructor; cbn [mt set_mt mt_buf rcap target ptarget psize pstart rpos ihas istart ifill ended s']; auto; try lia.
    + intros i Hi. apply live_false in Hi. destruct (Jg i (proj2 (live_false s i) Hi)) as [A Bq C D F Gh H].
      change (J cfg s' i) with (J cfg s i).
      constructor.
      * exact A.
      * exact Bq.
      * change (j_lap (J cfg s i) <= lap (mt s) + 1). lia.
      * exact D.
      * exact F.
      * intros X. rewrite Hvs, Hvf. specialize (Gh X). lia.
      * intros X. rewrite Hvs, Hvf. specialize (Gh X). change (psize (mt s')) with (psize (mt s)). lia.
    + exact Mo.
    + intros i Hi Hu. rewrite Hvs. apply Hkey; auto.
    + intros X. change (ihas (mt s) = true) in X. congruence.
    + discriminate.
    + exact Ne.
    + intros He. destruct (Ch He) as (C1 & C2). split; [exact C1|]. intros i Hi Hn. apply Hcc. apply C2; auto.
    + unfold WG in *. change (sr s') with (sr s). intros Hl He. specialize (Wn Hl He). destruct (s_w (sr s)) as [[[el eh] pl] ph].
      destruct Wn as (W1 & W2 & W3 & W4). split; [exact W1|]. split; [exact W2|]. split; [exact W3|].
      destruct W4 as [W4|(Lp & L1 & L2 & L3 & L4 & L5)]; [left; exact W4|right]. exists Lp.
      split; [change (Lp <= lap (mt s) + 1); lia|]. split; [exact L2|]. split; [exact L3|]. split; [exact L4|].
      intros Hp Hx. apply Hcc. apply L5; auto.
    + intros _ X. change (ihas (mt s) = true) in X. congruence.
  - destruct U as [U|(d & Hd & Sc & Sz & Eu & Fd)]; [left; exact U|].
    right. exists d. split; [exact Hd|]. split; [exact Sc|]. split; [exact Sz|]. split; [exact Eu|].
    change (VF (mt s') + j_psize (J cfg s d) <= vs (mt s) (J cfg s d) + rcap (mt s)).
    pose proof (Jg d (proj2 (live_false s d) Hd)) as Gd.
    pose proof (use_key_wrap (mt s) (J cfg s d) _ Gd Sz Eu Fd b6 Hw Ho) as K. rewrite Hvf. nia.
  - cbn [mt set_mt mt_buf rpos target rcap s']. lia.
Qed.

Lemma gi_move_prefix cfg s :
  Mid cfg s -> ended (mt s) = false -> alldone (mt s) = false -> PgOk s -> ready (mt s) = false -> GM cfg s false ->
  ihas (mt s) = false -> rcap (mt s) - rpos (mt s) < target (mt s) -> UseOk cfg s (c_use (cl s)) ->
  overlap (0, psize (mt s)) (c_use (cl s)) = false -> GInv cfg (move_prefix cfg s).
Proof.
  intros M He Ha N Er G Hh Hw U Ho. unfold move_prefix.
  destruct (gm_move_prefix cfg s G Hh Hw U Ho) as (G' & U' & Hr').
  apply gi_after_wrap; [|exact He|exact Ha| |exact Er|exact G'|exact Hh|exact Hr'|exact U'].
  - eapply mid_ext; [..|exact M]; first [reflexivity | left; reflexivity].
  - pg_same N.
Qed.

Lemma gi_after_inuse cfg s u :
  Mid cfg s -> ended (mt s) = false -> alldone (mt s) = false -> PgOk s -> ready (mt s) = false -> GM cfg s false ->
  ihas (mt s) = false -> UseOk cfg s u -> GInv cfg (after_inuse cfg s u).
Proof.
  intros M He Ha N Er G Hh U. unfold after_inuse. cbn zeta.
  set (s0 := set_cl (cl_use u (cl s)) s).
  assert (M0 : Mid cfg s0) by mid_same M.
  assert (N0 : PgOk s0) by pg_same N.
  assert (G0 : GM cfg s0 false) by (apply gm_set_cl; exact G).
  assert (U0 : UseOk cfg s0 (c_use (cl s0))) by (apply useok_set_cl; exact U).
  change (mt s0) with (mt s).
  destruct (rcap (mt s) - rpos (mt s) <? target (mt s)) eqn:Ew.
  - apply N.ltb_lt in Ew.
    destruct (overlap (0, psize (mt s)) u) eqn:Eo; [apply gi_fill_phase; auto; change (ready (mt s0)) with (ready (mt s)); rewrite Er; exact G0|].
    destruct (ldm (mt s)) eqn:Eldm; [|apply gi_move_prefix; auto].
    apply ginv_at; [discriminate|..]; auto. intros _ _. unfold pbof. cbn [awake set_cpc set_cl cl_pc c_pc cl mt s0]. rewrite Er. split; [exact G0|].
    unfold PcGeo. cbn [awake set_cpc set_cl cl_pc c_pc cl mt c_use s0 cl_use]. refine (conj Hh (conj Er (conj _ (conj (conj Ew Eldm) Eo)))). apply useok_set_cpc. exact U0.
  - apply N.ltb_ge in Ew. apply gi_after_wrap; auto.
    pose proof (bg_rp _ _ (gm_b _ _ _ G)). pose proof (bg_t _ _ (gm_b _ _ _ G)). change (mt s0) with (mt s). lia.
Qed.

Lemma gi_scan_inuse cfg s j :
  Mid cfg s -> ended (mt s) = false -> alldone (mt s) = false -> PgOk s -> ready (mt s) = false -> GM cfg s false ->
  ihas (mt s) = false -> done (mt s) <= j -> ScanTo cfg s j -> GInv cfg (scan_inuse cfg s j).
Proof.
  intros M He Ha N Er G Hh Hd Sc. unfold scan_inuse.
  destruct (j <? next (mt s)) eqn:E.
  - apply ginv_at; [discriminate|..]; auto. intros _ _. unfold pbof. cbn [awake set_cpc set_cl cl_pc c_pc cl mt]. rewrite Er. split; [exact G|].
    unfold PcGeo. cbn [awake set_cpc set_cl cl_pc c_pc cl mt]. apply N.ltb_lt in E. refine (conj Hh (conj Er (conj (conj Hd E) _))). intros i Hi Hl. apply Sc; auto.
  - apply N.ltb_ge in E. apply gi_after_inuse; auto. left. split; [reflexivity|]. intros i Hi. apply Sc; auto. destruct Hi. lia.
Qed.

Lemma gi_gen_body cfg s : Mid cfg s -> Flow s -> PgOk s -> GMr cfg s -> GInv cfg (gen_body cfg s).
Proof.
  intros M F N G. unfold gen_body.
  destruct (negb (ready (mt s)) && (0 <? c_in (cl s))) eqn:E; [|apply gi_create_phase; auto].
  apply andb_prop in E. destruct E as (E0 & E). apply N.ltb_lt in E. apply negb_true_iff in E0.
  assert (He : ended (mt s) = false).
  { destruct (ended (mt s)) eqn:X; auto. destruct F as (F1 & _). specialize (F1 X). lia. }
  assert (Ha : alldone (mt s) = false).
  { destruct (alldone (mt s)) eqn:X; auto. destruct F as (F1 & F2). destruct (F2 X) as (X1 & _). specialize (F1 X1). lia. }
  specialize (G Ha).
  destruct (ihas (mt s)) eqn:Eh; cbn [negb]; [apply gi_fill_phase; auto|].
  rewrite E0 in G. apply gi_scan_inuse; auto; [lia|]. intros i (A & _) Hlt. lia.
Qed.

(* ------------------------------------------------------------------ *)
(* doneJobID moves on: fewer jobs are live *)

Definition mgf' (m : mtc) := (next m, ended m, rpos m, rcap m, (ihas m, istart m, ifill m), (pstart m, psize m), (target m, ptarget m, wsize m), lap m, ldm m).

Lemma gm_adv cfg s s' pb :
  mgf' (mt s') = mgf' (mt s) -> done (mt s) <= done (mt s') -> sr s' = sr s -> (forall k, jgf (getj s' k) = jgf (getj s k)) -> GM cfg s pb -> GM cfg s' pb.
Proof.
  intros Hm Hd Hsr Hj [B Jg Mo Fw Fs Pr Ne Ch Wn Wf]. unfold mgf' in Hm.
  assert (Hm' : next (mt s') = next (mt s) /\ ended (mt s') = ended (mt s) /\ rpos (mt s') = rpos (mt s) /\ rcap (mt s') = rcap (mt s) /\
                ihas (mt s') = ihas (mt s) /\ istart (mt s') = istart (mt s) /\ ifill (mt s') = ifill (mt s) /\ pstart (mt s') = pstart (mt s) /\
                psize (mt s') = psize (mt s) /\ target (mt s') = target (mt s) /\ ptarget (mt s') = ptarget (mt s) /\ wsize (mt s') = wsize (mt s) /\
                lap (mt s') = lap (mt s) /\ ldm (mt s') = ldm (mt s)) by (inversion Hm; repeat split; (reflexivity || assumption)).
  destruct Hm' as (En & Ee & Er & Ec & Ei & Eis & Eif & Eps & Epz & Et & Ept & Ew & El & Eld).
  assert (Hin : forall i, inflight s' i -> inflight s i) by (intros i (A & A'); unfold inflight; split; lia).
  assert (Hlv : forall i, live s' pb i -> live s pb i) by (intros i [H|(H1 & H2)]; [left; auto|right; split; congruence]).
  assert (Hf : forall i, let j := J cfg s i in let j' := J cfg s' i in
            j_src j' = j_src j /\ j_size j' = j_size j /\ j_pstart j' = j_pstart j /\ j_psize j' = j_psize j /\ j_consumed j' = j_consumed j /\ j_lap j' = j_lap j)
    by (intros i; apply jgf_fields; apply Hj).
  assert (Hvs : forall i, vs (mt s') (J cfg s' i) = vs (mt s) (J cfg s i)).
  { intros i. destruct (Hf i) as (E1 & _ & _ & _ & _ & E6). unfold vs. rewrite E1, E6, Ec. reflexivity. }
  assert (Hvf : VF (mt s') = VF (mt s)) by (unfold VF; rewrite El, Ec, Er; reflexivity).
  constructor.
  - destruct B as [b1 b2 b3 b4 b5 b6 b7 b8 b9]. constructor; rewrite ?Ec, ?Et, ?Ept, ?Epz, ?Eps, ?Er, ?Ei, ?Eis, ?Eif, ?Ee; auto.
    unfold need_cap in *. rewrite Ew, Et, Ept. exact b1.
  - intros i Hi. apply Hlv in Hi. eapply jgeo_ext; [apply Hj|..|apply Jg; exact Hi]; auto.
  - intros i i' Hi Hi' Hlt. apply Hlv in Hi. apply Hlv in Hi'. destruct (Hf i) as (_ & E2 & _). destruct (Hf i') as (_ & E2' & _ & E4' & _).
    rewrite !Hvs, E2, E2', E4'. apply Mo; auto.
  - intros i Hi. apply Hin in Hi. destruct (Hf i) as (_ & E2 & _ & E4 & E5 & _). unfold unfin. rewrite Hvs, Hvf, E2, E4, E5, Ec. apply Fw; auto.
  - unfold Fstrong. rewrite Ei. intros Hh i Hi. apply Hin in Hi. destruct (Hf i) as (_ & E2 & _ & E4 & E5 & _). unfold unfin. rewrite Hvs, Hvf, E2, E4, E5, Ec, Et. apply Fs; auto.
  - intros Hp. destruct (Pr Hp) as (P1 & P2 & P3). unfold PrepGeo. rewrite En, Ei, El, Er. destruct (Hf (next (mt s))) as (E1 & E2 & _ & _ & _ & E6).
    rewrite E1, E2, E6. auto.
  - rewrite Ee. intros He i Hi. apply Hlv in Hi. destruct (Hf i) as (_ & E2 & _). rewrite E2. apply Ne; auto.
  - eapply chain_ext; [exact Hlv| |exact Ee|exact El|exact Er|exact Epz|exact Ec|exact Et| |exact Ch].
    + intros i Hi Hn [X|(X1 & X2)]; apply Hn.
      * destruct X as (X1 & X2). destruct Hi as [(Y1 & Y2)|(Y1 & Y2)]; [left; split; [lia|rewrite En; exact X2]|left; split; [lia|rewrite En; exact X2]].
      * right. split; [exact X1|congruence].
    + intros i _. destruct (Hf i) as (E1 & E2 & _ & E4 & _ & E6). auto.
  - eapply wg_ext; [exact Hlv|exact Ee|exact Eld|exact El|exact Er|exact Epz|exact Ec|exact Et|exact Ept|exact Ew|exact En|rewrite Hsr; reflexivity|rewrite Hsr; reflexivity| |exact Wn].
    intros i _. destruct (Hf i) as (E1 & E2 & _ & E4 & _ & E6). auto.
  - rewrite Eld, Ei, Eis, Et, Hsr. exact Wf.
Qed.

(* ------------------------------------------------------------------ *)
(* starting the next call; release; init *)

Lemma gmr_ext cfg s s' :
  mgf (mt s') = mgf (mt s) -> alldone (mt s') = alldone (mt s) -> ready (mt s') = ready (mt s) -> sr s' = sr s -> (forall k, jgf (getj s' k) = jgf (getj s k)) ->
  GMr cfg s -> GMr cfg s'.
Proof. intros Hm Ha Hr Hs Hj G X. rewrite Hr. eapply gm_ext; [exact Hm|exact Hs|exact Hj|]. apply G. congruence. Qed.

Ltac gmr_same G := eapply gmr_ext; [..|exact G]; [reflexivity|reflexivity|reflexivity|reflexivity|intros; reflexivity].

Lemma gi_done cfg s : PgOk s -> GMr cfg s -> GInv cfg (stop_ops s).
Proof.
  intros N G. split; [apply pg_stop_ops; exact N|]. intros Ha _. split; [|exact I].
  unfold pbof. cbn [awake stop_ops set_cl c_pc cl mt]. rewrite orb_false_r. eapply gm_ext; [..|apply G; exact Ha]; first [reflexivity|intros; reflexivity].
Qed.

Lemma gi_init_params cfg s : PgOk s -> alldone (mt s) = true -> GInv cfg (init_params s).
Proof. intros (_ & F & O) Ha. apply ginv_vac; [apply pg_init_params; auto|exact Ha]. Qed.

Lemma gi_rel_scan_k cfg i kd :
  (forall s1, PgOk s1 -> alldone (mt s1) = true -> GInv cfg (kd s1)) ->
  forall fuel s k, PgOk s -> GInv cfg (rel_scan_k i kd s k fuel).
Proof.
  intros Hkd. induction fuel as [|f IH]; intros s k N; cbn [rel_scan_k].
  - apply Hkd; [pg_same N|reflexivity].
  - destruct (Nat.ltb k (length (jobs s))).
    + destruct (j_dst (getj s k)); [apply ginv_rel; [apply pg_pc; exact N|reflexivity]|apply IH; pg_same N].
    + apply Hkd; [pg_same N|reflexivity].
Qed.

Lemma gi_start_ops cfg ops : forall s,
  Mid cfg s -> PgOk s -> ops_ok ops -> geo_ops ops -> (head_cs ops = true -> Flow0 s) -> GMr cfg s -> GInv cfg (start_ops cfg s ops).
Proof.
  induction ops as [|o r IH]; intros s M N Ho Hg Hf G; cbn [start_ops]; [apply gi_done; auto|].
  inversion Ho as [|? ? Ho1 Ho2]; subst. inversion Hg as [|? ? Hg1 Hg2]; subst.
  destruct (m_tg _ _ M) as (T1 & T2 & T3). destruct N as (N1 & N2 & N3).
  destruct o as [fp|e i o].
  - set (s1 := set_cl _ s).
    assert (N' : PgOk s1) by (split; [exact N1|split; [exact Hg1|exact Hg2]]).
    destruct (alldone (mt s)) eqn:Ea; [apply gi_init_params; auto|].
    destruct (done (mt s) <? next (mt s)) eqn:El; [apply ginv_rel; [apply pg_pc; exact N'|reflexivity]|].
    apply gi_rel_scan_k; auto. intros; apply gi_init_params; auto.
  - set (s1 := set_cl _ s).
    assert (T' : TgOk s1) by (repeat split; auto).
    assert (M1 : Mid cfg s1) by (eapply mid_ext'; [..|exact M]; auto; reflexivity).
    assert (N' : PgOk s1) by (split; [exact N1|split; [exact N2|exact Hg2]]).
    assert (G1 : GMr cfg s1) by gmr_same G.
    assert (Gs : GMr cfg s) by exact G.
    destruct (alldone (mt s) && negb (ended (mt s))) eqn:E1; [apply gi_done; auto; split; auto|].
    destruct (ended (mt s) && (0 <? i) && negb (is_continue e)) eqn:E2; [apply gi_done; auto; split; auto|].
    destruct (ended (mt s) && is_continue e) eqn:E3.
    + assert (M2 : Mid cfg (record_res RErr s1)) by (eapply mid_ext'; [..|exact M1]; auto; reflexivity).
      assert (N2' : PgOk (record_res RErr s1)) by pg_same N'.
      assert (G2 : GMr cfg (record_res RErr s1)) by gmr_same G1.
      destruct r as [|[fp|e' i' o'] r']; try (apply gi_done; auto); apply IH; auto; discriminate.
    + apply gi_gen_body; auto. specialize (Hf eq_refl). split.
      * change (ended (mt s) = true -> i = 0). intros He. rewrite He in *. cbn in E2, E3. rewrite E3 in E2. cbn in E2.
        rewrite andb_true_r in E2. apply N.ltb_ge in E2. lia.
      * change (alldone (mt s) = true -> ended (mt s) = true /\ ready (mt s) = false /\ ifill (mt s) = 0).
        intros Ha. rewrite Ha in E1. cbn in E1. destruct (ended (mt s)) eqn:He; [|discriminate].
        split; auto.
Qed.

Lemma gi_finish_ok cfg s v : Mid cfg s -> Flow0 s -> PgOk s -> GMr cfg s -> GInv cfg (finish_op cfg s (ROk v)).
Proof.
  intros M F N G. unfold finish_op. cbn [ops_after]. apply gi_start_ops.
  - eapply mid_ext'; [..|exact M]; try reflexivity. exact (m_tg _ _ M).
  - pg_same N.
  - apply (m_tg _ _ M).
  - apply N.
  - intros _. exact F.
  - gmr_same G.
Qed.

(* after an error the program stops or re-initialises: no Mid needed *)
Lemma gi_finish_err cfg s : PgOk s -> GMr cfg s -> GInv cfg (finish_op cfg s RErr).
Proof.
  intros N G. unfold finish_op.
  assert (N' : PgOk (record_res RErr s)) by pg_same N.
  assert (G' : GMr cfg (record_res RErr s)) by gmr_same G.
  destruct N as (N1 & N2 & N3).
  cbn [ops_after record_res cl set_cl c_ops].
  destruct (c_ops (cl s)) as [|[fp|e i o] r] eqn:Eo; try (apply gi_done; auto; fail).
  cbn [start_ops]. inversion N3 as [|? ? Hg1 Hg2]; subst.
  set (s1 := set_cl _ (record_res RErr s)).
  assert (N1' : PgOk s1) by (split; [exact N1|split; [exact Hg1|exact Hg2]]).
  destruct (alldone (mt (record_res RErr s))) eqn:Ea; [apply gi_init_params; auto|].
  destruct (_ <? _); [apply ginv_rel; [apply pg_pc; exact N1'|reflexivity]|].
  apply gi_rel_scan_k; auto. intros; apply gi_init_params; auto.
Qed.

Lemma gi_rel_scan cfg i s k fuel : PgOk s -> GInv cfg (rel_scan cfg i s k fuel).
Proof.
  intros N. unfold rel_scan. apply gi_rel_scan_k; auto.
  intros s1 N1 A1. destruct i; [apply gi_init_params; auto|apply gi_finish_err; auto]. intros X. congruence.
Qed.

Lemma gi_wait_all cfg i s : PgOk s -> GInv cfg (wait_all cfg i s).
Proof. intros N. unfold wait_all. destruct (_ <? _); [apply ginv_rel; [apply pg_pc; exact N|reflexivity]|apply gi_rel_scan; exact N]. Qed.

(* ------------------------------------------------------------------ *)
(* the output side *)

Lemma gi_gen_again cfg s : Mid cfg s -> Flow s -> PgOk s -> GMr cfg s -> GInv cfg (gen_again cfg s).
Proof.
  intros M F N G. unfold gen_again.
  set (s1 := set_cl _ s).
  assert (M1 : Mid cfg s1) by mid_same M.
  assert (F1 : Flow s1) by exact F.
  assert (N1 : PgOk s1) by pg_same N.
  assert (G1 : GMr cfg s1) by gmr_same G.
  destruct (ended (mt s) && is_continue (c_e (cl s))); [apply gi_finish_err; auto|apply gi_gen_body; auto].
Qed.

Lemma gi_gen_return cfg s v : Mid cfg s -> Flow s -> PgOk s -> GMr cfg s -> GInv cfg (gen_return cfg s v).
Proof.
  intros M F N G. unfold gen_return.
  repeat match goal with |- GInv cfg (if ?b then _ else _) => destruct b end;
    first [apply gi_finish_ok; auto; apply flow_flow0; auto|apply gi_gen_again; auto].
Qed.

Lemma gi_flush_return cfg s : Mid cfg s -> Flow s -> PgOk s -> GMr cfg s -> GInv cfg (flush_return cfg s).
Proof.
  intros M F N G. unfold flush_return, flush_tail.
  destruct (done (mt s) <? next (mt s)) eqn:E1; [apply gi_gen_return; auto|].
  destruct (ready (mt s)) eqn:E2; [apply gi_gen_return; auto|].
  destruct (0 <? ifill (mt s)) eqn:E3; [apply gi_gen_return; auto|].
  apply N.ltb_ge in E1. apply N.ltb_ge in E3.
  pose proof M as [K N1 N2 N3 T ME1]. destruct (b_rng _ _ K) as (R1 & _).
  assert (Hall : forall k, (k < N.to_nat (Mr cfg))%nat -> Stale (getj s k)).
  { intros k Hk. destruct (N1 k Hk) as [?|(_ & ?)]; auto; [|congruence]. intros i (A & B). lia. }
  apply gi_gen_return.
  - constructor.
    + eapply kb_ext; [..|exact K]; reflexivity.
    + intros k Hk _. left. apply Hall; auto.
    + cbn. intros X. congruence.
    + cbn. intros _. split; [lia|exact Hall].
    + exact T.
    + exact ME1.
  - destruct F as (F1 & F2). split; cbn; auto; intros X; repeat split; auto; lia.
  - pg_same N.
  - intros X. cbn [mt set_mt mt_ring alldone ready] in X.
    assert (Ha : alldone (mt s) = false).
    { destruct (alldone (mt s)) eqn:Y; auto. destruct F as (_ & F2). destruct (F2 Y) as (Z & _). congruence. }
    pose proof (G Ha) as G0. rewrite E2 in G0. cbn [mt set_mt mt_ring ready]. eapply gm_ext; [..|exact G0]; first [reflexivity|intros; reflexivity].
Qed.

Lemma jgf_upd_flush cs ck fl j : jgf (j_upd_flush cs ck fl j) = jgf j. Proof. reflexivity. Qed.
Lemma jgf_set_dst d j : jgf (j_set_dst d j) = jgf j. Proof. reflexivity. Qed.

Lemma jgf_set_job s k j' : jgf j' = jgf (getj s k) -> forall k0, jgf (getj (set_job k j' s) k0) = jgf (getj s k0).
Proof.
  intros E k0. destruct (Nat.eq_dec k k0) as [<-|Hne]; [|rewrite getj_set_job_neq by auto; reflexivity].
  destruct (Nat.lt_ge_cases k (length (jobs s))) as [H|H].
  - rewrite getj_set_job_eq by auto. exact E.
  - unfold getj, set_job, set_jobs. cbn [jobs]. rewrite !nth_overflow; auto. rewrite upd_length. exact H.
Qed.

Lemma gi_complete_job cfg s :
  Mid cfg s -> Flow s -> done (mt s) < next (mt s) ->
  let j := getj s (slot cfg (done (mt s))) in
  j_err j = false -> j_consumed j = j_size j -> j_ckneed j = false -> ~ owned s (slot cfg (done (mt s))) ->
  PgOk s -> GMr cfg s -> GInv cfg (complete_job cfg s).
Proof.
  intros M F Hlt j He Hc Hk Hno N G. unfold complete_job. fold j.
  apply gi_flush_return.
  - match goal with |- Mid cfg (set_mt ?m' (set_gh ?g (set_job ?k ?j' s))) =>
      assert (M1 : Mid cfg (set_mt m' (set_job k j' s))) end.
    { apply mid_complete; auto. repeat split; cbn; auto. }
    eapply mid_ext; [..|exact M1]; first [reflexivity | left; reflexivity].
  - exact F.
  - pg_same N.
  - intros X. cbn [mt set_mt mt_ring alldone ready] in X |- *. eapply gm_adv; [..|apply G; exact X]; [reflexivity|cbn; lia|reflexivity|].
    intros k0. rewrite getj_set_mt, getj_set_gh. apply jgf_set_job. reflexivity.
Qed.

Lemma gi_relbuf cfg s : PgOk s -> GMr cfg s -> GInv cfg (set_cpc CRelBuf s).
Proof.
  intros N G. apply ginv_at; [discriminate|..]; auto. intros Ha _. unfold pbof. cbn [awake set_cpc set_cl cl_pc c_pc cl mt]. rewrite orb_false_r. split; [apply G; exact Ha|exact I].
Qed.

Lemma gi_flush_body cfg s : Mid cfg s -> Flow s -> PgOk s -> GMr cfg s -> GInv cfg (flush_body cfg s).
Proof.
  intros M F N G. unfold flush_body. cbn zeta.
  set (k := slot cfg (done (mt s))). set (j := getj s k).
  pose proof (m_kb _ _ M) as K. destruct (b_rng _ _ K) as (R1 & R2).
  assert (Hkl : (k < length (jobs s))%nat) by (rewrite (b_len _ _ K); apply slot_lt).
  assert (Hkm : (k < N.to_nat (Mr cfg))%nat) by apply slot_lt.
  destruct (j_err j) eqn:Eerr; [apply gi_wait_all; exact N|].
  set (fin := j_consumed j =? j_size j).
  set (ck := fin && j_ckneed j).
  set (cs := if ck then j_csize j + 4 else j_csize j).
  destruct (N.eq_dec (done (mt s)) (next (mt s))) as [Edn|Edn].
  - (* no job in flight: nothing to flush *)
    assert (Hj : j_csize j = 0 /\ ck = false).
    { destruct (m_n1 _ _ M k Hkm) as [(S1 & S2 & S3 & S4 & S5)|(Ek & Er)].
      - intros i (A & B). lia.
      - fold j in S2, S3. unfold ck. rewrite S3. split; auto. apply andb_false_r.
      - assert (Ha : alldone (mt s) = false).
        { destruct (alldone (mt s)) eqn:X; auto. destruct F as (_ & F2). destruct (F2 X) as (_ & ? & _). congruence. }
        destruct (m_n2 _ _ M Er Ha) as ((_ & _ & P3 & P4 & _) & P6 & _). rewrite <- Edn in P3, P4, P6. fold k in P3, P4, P6. fold j in P3, P4, P6.
        split; auto. unfold ck, fin. destruct (j_consumed j =? j_size j) eqn:X; auto. apply N.eqb_eq in X. rewrite P6; auto. lia. }
    destruct Hj as (Hcs & Hck). unfold cs. rewrite Hck, Hcs. cbn [N.ltb N.compare].
    change (0 <? 0) with false. cbn iota.
    rewrite <- Hcs. rewrite j_upd_flush_same. unfold k, j. rewrite set_job_same by exact Hkl. fold k. fold j.
    assert (M1 : forall g, Mid cfg (set_gh g s)) by (intros; mid_same M).
    assert (N1 : forall g, PgOk (set_gh g s)) by (intros; pg_same N).
    assert (G1 : forall g, GMr cfg (set_gh g s)) by (intros; gmr_same G).
    rewrite Hcs. replace (j_flushed j <? 0) with false by (symmetry; apply N.ltb_ge; lia).
    destruct (j_consumed j <? j_size j); [apply gi_gen_return|apply gi_flush_return]; auto.
  - (* the oldest job in flight *)
    assert (Hlt : done (mt s) < next (mt s)) by lia.
    assert (Hi : inflight s (done (mt s))) by (split; lia).
    set (ck' := if ck then false else j_ckneed j).
    assert (Mupd : forall fl, Mid cfg (set_job k (j_upd_flush cs ck' fl j) s)).
    { intros fl. apply mid_upd_inflight; auto.
      - cbn. apply (b_ids _ _ K); auto.
      - intros p Hp. apply act_flush. exact Hp. }
    assert (Gupd : forall fl, GMr cfg (set_job k (j_upd_flush cs ck' fl j) s)).
    { intros fl. eapply gmr_ext; [..|exact G]; try reflexivity. apply jgf_set_job. reflexivity. }
    destruct (0 <? cs) eqn:Ecs.
    + apply N.ltb_lt in Ecs.
      set (tf := N.min (cs - j_flushed j) (c_out (cl s))).
      match goal with |- GInv cfg (if _ then _ else if _ then gen_return cfg ?x _ else _) => set (s1 := x) end.
      assert (M1 : Mid cfg s1) by (unfold s1; eapply mid_ext; [..|exact (Mupd (j_flushed j + tf))]; first [reflexivity | left; reflexivity]).
      assert (F1 : Flow s1) by exact F.
      assert (N1 : PgOk s1) by (unfold s1; pg_same N).
      assert (G1 : GMr cfg s1) by (unfold s1; eapply gmr_ext; [..|exact (Gupd (j_flushed j + tf))]; try reflexivity; intros; reflexivity).
      destruct (fin && (j_flushed j + tf =? cs)) eqn:Efin.
      * apply andb_prop in Efin. destruct Efin as (Ef & Efl). unfold fin in Ef. apply N.eqb_eq in Ef. apply N.eqb_eq in Efl.
        assert (Hck : ck' = false) by (unfold ck', ck, fin; rewrite (proj2 (N.eqb_eq _ _) Ef); cbn; destruct (j_ckneed j); reflexivity).
        assert (Hc : 0 < j_csize j \/ j_ckneed j = true).
        { unfold cs, ck, fin in Ecs. rewrite (proj2 (N.eqb_eq _ _) Ef) in Ecs. cbn in Ecs. destruct (j_ckneed j); auto. }
        assert (Hno : ~ owned s k) by (apply not_owned_fin; auto).
        assert (Hg1 : getj s1 k = j_upd_flush cs ck' (j_flushed j + tf) j).
        { unfold s1. rewrite getj_set_gh, getj_set_cl. apply getj_set_job_eq; auto. }
        destruct (j_dst j).
        -- apply gi_relbuf; auto.
        -- apply gi_complete_job; auto; change (done (mt s1)) with (done (mt s)); fold k; rewrite ?Hg1; cbn; auto.
      * destruct (j_flushed j + tf <? cs); [apply gi_gen_return; auto|].
        destruct (j_consumed j <? j_size j); [apply gi_gen_return|apply gi_flush_return]; auto.
    + match goal with |- GInv cfg (if _ then gen_return cfg ?x _ else _) => set (s1 := x) end.
      assert (M1 : Mid cfg s1) by (unfold s1; eapply mid_ext; [..|exact (Mupd (j_flushed j))]; first [reflexivity | left; reflexivity]).
      assert (F1 : Flow s1) by exact F.
      assert (N1 : PgOk s1) by (unfold s1; pg_same N).
      assert (G1 : GMr cfg s1) by (unfold s1; eapply gmr_ext; [..|exact (Gupd (j_flushed j))]; try reflexivity; intros; reflexivity).
      destruct (j_flushed j <? cs); [apply gi_gen_return; auto|].
      destruct (j_consumed j <? j_size j); [apply gi_gen_return|apply gi_flush_return]; auto.
Qed.

(* ------------------------------------------------------------------ *)
(* nextJobID++: the prepared job is in flight *)

Lemma gm_post cfg s s' :
  GM cfg s true -> length (jobs s) = N.to_nat (Mr cfg) -> next (mt s) < done (mt s) + Mr cfg -> done (mt s) <= next (mt s) ->
  s_lw (sr s) = s_w (sr s) /\ s_next (sr s) <= next (mt s) -> sr s' = sr s ->
  mgf' (mt s') = (next (mt s) + 1, ended (mt s), rpos (mt s), rcap (mt s), (ihas (mt s), istart (mt s), ifill (mt s)), (pstart (mt s), psize (mt s)),
                  (target (mt s), ptarget (mt s), wsize (mt s)), lap (mt s), ldm (mt s)) ->
  done (mt s') = done (mt s) ->
  (forall k, k <> slot cfg (next (mt s)) -> jgf (getj s' k) = jgf (getj s k)) ->
  (jgf (getj s' (slot cfg (next (mt s)))) = jgf (getj s (slot cfg (next (mt s)))) \/
   (j_size (getj s (slot cfg (next (mt s)))) = 0 /\ j_size (getj s' (slot cfg (next (mt s)))) = 0 /\
    j_psize (getj s' (slot cfg (next (mt s)))) = j_psize (getj s (slot cfg (next (mt s)))) /\
    j_lap (getj s' (slot cfg (next (mt s)))) = j_lap (getj s (slot cfg (next (mt s)))))) ->
  GM cfg s' false.
Proof.
  intros G Hlen Hlt Hdn (Hsy & Hsle) Hsr Hm Hd Hj Hn. pose proof G as [B Jg Mo Fw Fs Pr Ne Ch Wn Wf]. pose proof (cap_bounds _ _ B) as (Hc1 & _).
  unfold mgf' in Hm.
  assert (Hm' : next (mt s') = next (mt s) + 1 /\ ended (mt s') = ended (mt s) /\ rpos (mt s') = rpos (mt s) /\ rcap (mt s') = rcap (mt s) /\
                ihas (mt s') = ihas (mt s) /\ istart (mt s') = istart (mt s) /\ ifill (mt s') = ifill (mt s) /\ pstart (mt s') = pstart (mt s) /\
                psize (mt s') = psize (mt s) /\ target (mt s') = target (mt s) /\ ptarget (mt s') = ptarget (mt s) /\ wsize (mt s') = wsize (mt s) /\
                lap (mt s') = lap (mt s) /\ ldm (mt s') = ldm (mt s)) by (inversion Hm; repeat split; (reflexivity || assumption)).
  destruct Hm' as (En & Ee & Er & Ec & Ei & Eis & Eif & Eps & Epz & Et & Ept & Ew & El & Eld).
  destruct (Pr eq_refl) as (P1 & P2 & P3).
  set (kn := slot cfg (next (mt s))) in *.
  assert (Hlv : forall i, inflight s' i -> live s true i).
  { intros i (A & A'). rewrite Hd in A. rewrite En in A'. destruct (N.eq_dec i (next (mt s))) as [->|Hne]; [right; auto|left; split; lia]. }
  assert (Hold : forall i, inflight s i -> jgf (J cfg s' i) = jgf (J cfg s i)).
  { intros i Hi. unfold J. apply Hj. apply inflight_not_next; auto. }
  (* the geometric fields of a live job with a source are unchanged *)
  assert (Hf : forall i, live s true i -> 0 < j_size (J cfg s i) \/ 0 < j_size (J cfg s' i) -> jgf (J cfg s' i) = jgf (J cfg s i)).
  { intros i [Hi|(_ & ->)] Hs; [apply Hold; auto|]. unfold J. fold kn. destruct Hn as [E|(E1 & E2 & _)]; [exact E|]. unfold J in Hs. fold kn in Hs. lia. }
  assert (Hvf : VF (mt s') = VF (mt s)) by (unfold VF; rewrite El, Ec, Er; reflexivity).
  assert (Hsz : forall i, live s true i -> j_size (J cfg s' i) = j_size (J cfg s i) /\ j_psize (J cfg s' i) = j_psize (J cfg s i) /\ j_lap (J cfg s' i) = j_lap (J cfg s i)).
  { intros i [Hi|(_ & ->)].
    - destruct (jgf_fields _ _ (Hold i Hi)) as (_ & E2 & _ & E4 & _ & E6). auto.
    - unfold J. fold kn. destruct Hn as [E|(E1 & E2 & E3 & E4)]; [destruct (jgf_fields _ _ E) as (_ & E2 & _ & E4 & _ & E6); auto|]. rewrite E1, E2. auto. }
  constructor.
  - destruct B as [b1 b2 b3 b4 b5 b6 b7 b8 b9]. constructor; rewrite ?Ec, ?Et, ?Ept, ?Epz, ?Eps, ?Er, ?Ei, ?Eis, ?Eif, ?Ee; auto.
    unfold need_cap in *. rewrite Ew, Et, Ept. exact b1.
  - intros i Hi. apply live_false in Hi. pose proof (Hlv i Hi) as Hl. destruct (Hsz i Hl) as (S1 & S2 & S3). pose proof (Jg i Hl) as [A Bq C D F Gh H].
    constructor; rewrite ?S1, ?S2, ?S3, ?Et, ?Ept, ?El, ?Ec, ?Hvf, ?Epz; auto.
    + intros X. destruct (jgf_fields _ _ (Hf i Hl (or_introl X))) as (E1 & _). rewrite E1. auto.
    + intros X Y. destruct (jgf_fields _ _ (Hf i Hl (or_introl X))) as (E1 & _ & E3 & _). rewrite E1, E3. auto.
    + intros X. destruct (jgf_fields _ _ (Hf i Hl (or_introl X))) as (E1 & _ & _ & _ & _ & E6). unfold vs in *. rewrite E1, E6, Ec. auto.
    + intros X. destruct (jgf_fields _ _ (Hf i Hl (or_introl X))) as (E1 & _ & _ & _ & _ & E6). unfold vs in *. rewrite E1, E6, Ec. auto.
  - intros i i' Hi Hi' Hii Hs Hs'. apply live_false in Hi. apply live_false in Hi'. pose proof (Hlv i Hi) as Hl. pose proof (Hlv i' Hi') as Hl'.
    destruct (jgf_fields _ _ (Hf i Hl (or_intror Hs))) as (E1 & E2 & _ & _ & _ & E6).
    destruct (jgf_fields _ _ (Hf i' Hl' (or_intror Hs'))) as (E1' & E2' & _ & E4' & _ & E6').
    unfold vs. rewrite E1, E6, E1', E6', E4', Ec. rewrite E2 in Hs. rewrite E2' in Hs'. apply (Mo i i' Hl Hl' Hii Hs Hs').
  - intros i Hi Hu. pose proof (Hlv i Hi) as Hl.
    assert (Hs : 0 < j_size (J cfg s' i)) by (unfold unfin in Hu; lia).
    destruct (jgf_fields _ _ (Hf i Hl (or_intror Hs))) as (E1 & E2 & _ & E4 & E5 & E6).
    unfold vs. rewrite Hvf, E1, E4, E6, Ec. destruct Hl as [Hi0|(_ & ->)].
    + apply Fw; auto. unfold unfin in *. rewrite <- E2, <- E5. exact Hu.
    + rewrite E2 in Hs. specialize (P3 Hs). pose proof (Jg (next (mt s)) (or_intror (conj eq_refl eq_refl))) as [A Bq C D F Gh H].
      unfold VF. rewrite P2. lia.
  - unfold Fstrong. rewrite Ei, P1. discriminate.
  - discriminate.
  - rewrite Ee. intros He i Hi. apply live_false in Hi. pose proof (Hlv i Hi) as Hl. destruct (Hsz i Hl) as (S1 & _). rewrite S1. apply Ne; auto.
  - (* Chain *)
    unfold Chain. rewrite Ee. intros He. destruct (Ch He) as (C1 & C2).
    assert (Hfe : forall i, live s true i -> jgf (J cfg s' i) = jgf (J cfg s i)) by (intros i Li; apply Hf; auto; left; apply Ne; auto).
    assert (Hcv : forall i, live s true i -> inflight s' i).
    { intros i [(A & A')|(_ & ->)]; split; lia. }
    split.
    + intros i Hi Hi'. apply live_false in Hi. apply live_false in Hi'. pose proof (Hlv i Hi) as L. pose proof (Hlv (i + 1) Hi') as L'.
      destruct (jgf_fields _ _ (Hfe i L)) as (A1 & A2 & _ & A4 & _ & A6). destruct (jgf_fields _ _ (Hfe (i + 1) L')) as (B1 & B2 & _ & B4 & _ & B6).
      unfold jend. rewrite A1, A2, A6. eapply cont_ext; [exact Ec|exact Et|exact B6|exact B1|exact B4|]. apply C1; auto.
    + intros i Hi Hn'. apply live_false in Hi. pose proof (Hlv i Hi) as L.
      destruct (jgf_fields _ _ (Hfe i L)) as (A1 & A2 & _ & A4 & _ & A6).
      unfold jend. rewrite A1, A2, A6. eapply contc_ext; [exact El|exact Er|exact Epz|exact Ec|exact Et|]. apply C2; auto.
      intros X. apply Hn'. apply live_false. apply Hcv. exact X.
  - (* WG *)
    unfold WG in *. rewrite Hsr, Ee, Eld, Ew, El, Ec, Et, Ept, En. intros Hl He. specialize (Wn Hl He). destruct (s_w (sr s)) as [[[el eh] pl] ph].
    destruct Wn as (W1 & W2 & W3 & W4). split; [exact W1|]. split; [exact W2|]. split; [exact W3|].
    destruct W4 as [W4|(Lp & L1 & L2 & L3 & L4 & L5)]; [left; exact W4|right]. exists Lp. split; [exact L1|]. split; [exact L2|]. split; [exact L3|]. split.
    + intros Hi. apply live_false in Hi. pose proof (Hlv _ Hi) as L.
      assert (Hsz0 : 0 < j_size (J cfg s (s_next (sr s)))) by (apply Ne; auto).
      destruct (jgf_fields _ _ (Hf _ L (or_introl Hsz0))) as (B1 & B2 & _ & B4 & _ & B6).
      eapply cont_ext; [exact Ec|exact Et|exact B6|exact B1|exact B4|]. apply L4; auto.
    + intros _ Hx. exfalso. lia.
  - rewrite Ei, P1. intros _ X. discriminate.
Qed.

(* a fresh frame *)
Lemma gm_fresh cfg s :
  done (mt s) = 0 -> next (mt s) = 0 -> rpos (mt s) = 0 -> ihas (mt s) = false -> ifill (mt s) = 0 -> psize (mt s) = 0 ->
  need_cap cfg (mt s) <= rcap (mt s) -> 0 < target (mt s) -> ptarget (mt s) <= target (mt s) -> (ldm (mt s) = true -> s_w (sr s) = win0) -> GM cfg s false.
Proof.
  intros Hd Hn Hr Hh Hf Hp Hc Ht Hpt Hw0.
  assert (Hno : forall i, ~ live s false i) by (intros i [(A & A')|(X & _)]; [lia|discriminate]).
  constructor.
  - constructor; auto; try lia; try congruence.
  - intros i Hi. destruct (Hno i Hi).
  - intros i i' Hi. destruct (Hno i Hi).
  - intros i (A & A'). lia.
  - intros X. congruence.
  - discriminate.
  - intros _ i Hi. destruct (Hno i Hi).
  - intros _. split; intros i Hi; destruct (Hno i Hi).
  - unfold WG. intros Hl _. rewrite (Hw0 Hl). unfold win0. split; [lia|]. split; [lia|]. split; [lia|]. left. split; reflexivity.
  - intros _ X. congruence.
Qed.

Lemma gi_sleep cfg s p' : GInv cfg s -> awake p' = awake (c_pc (cl s)) -> GInv cfg (set_cpc p' s).
Proof.
  intros (N & G) E. split; [apply pg_pc; exact N|].
  unfold pbof, PcGeo in *. cbn [mt cl set_cpc set_cl cl_pc c_pc c_use]. rewrite E. intros Ha Hr. specialize (G Ha Hr).
  destruct (awake (c_pc (cl s))); try exact G;
    (destruct G as (G1 & P1); split; [eapply gm_ext; [..|exact G1]; first [reflexivity|intros; reflexivity]|exact P1]).
Qed.

(* ------------------------------------------------------------------ *)
(* every step of the application thread *)

Lemma gi_caller_step cfg w s s' : TInv cfg s -> SrOk s -> GInv cfg s -> caller_step cfg w s = Some s' -> GInv cfg s'.
Proof.
  intros TI SR GI0 H. pose proof GI0 as (N & GI). pose proof TI as (K & A). pose proof (k_pc _ _ K) as P. unfold PcInv in P.
  destruct P as (PA & PB & PC & PD & PE & PF & PG). pose proof A as (AT & A1 & A2 & A3 & A4 & A5).
  unfold caller_step in H. cbn zeta in H.
  destruct (c_pc (cl s)) eqn:Epc; try discriminate; unfold pbof, PcGeo in GI; rewrite Epc in GI; cbn [awake relphase qpc inpc] in *.
  - (* CInUse *)
    assert (M : Mid cfg s) by (apply mid_of_tinv; auto; rewrite Epc; cbn; auto; discriminate).
    assert (Hi : 0 < c_in (cl s)) by (apply A3; reflexivity).
    assert (He : ended (mt s) = false).
    { destruct (ended (mt s)) eqn:X; auto. destruct (A1 eq_refl); [lia|discriminate]. }
    assert (Ha : alldone (mt s) = false).
    { destruct (alldone (mt s)) eqn:X; auto. destruct (A2 eq_refl) as [?|[?|(? & _)]]; discriminate. }
    destruct (GI Ha eq_refl) as (G & Hh & Er & (Hd1 & Hd2) & Sc). rewrite Er in G. cbn [orb] in G.
    unfold jslot in H. destruct (j_consumed (getj s (slot cfg j)) <? j_size (getj s (slot cfg j))) eqn:Eu; inv_some H.
    + apply N.ltb_lt in Eu. assert (Hj : inflight s j) by (split; auto).
      apply gi_after_inuse; auto. right. exists j. split; [exact Hj|]. split; [exact Sc|]. split; [unfold J; lia|]. split; [reflexivity|].
      apply (gm_fw _ _ _ G j Hj Eu).
    + apply N.ltb_ge in Eu. apply gi_scan_inuse; auto; [lia|].
      intros i Hi' Hl. destruct (N.eq_dec i j) as [->|Hne]; [unfold unfin, J; lia|apply Sc; auto; lia].
  - (* CLdm1 *)
    assert (M : Mid cfg s) by (apply mid_of_tinv; auto; rewrite Epc; cbn; auto; discriminate).
    assert (He : ended (mt s) = false).
    { destruct (ended (mt s)) eqn:X; auto. assert (0 < c_in (cl s)) by (apply A3; reflexivity). destruct (A1 eq_refl); [lia|discriminate]. }
    assert (Ha : alldone (mt s) = false).
    { destruct (alldone (mt s)) eqn:X; auto. destruct (A2 eq_refl) as [?|[?|(? & _)]]; discriminate. }
    destruct (GI Ha eq_refl) as (G & Hh & Er & U & (Hw & Hldm) & Ho). rewrite Er in G. cbn [orb] in G.
    destruct (overlap_win _ _); inv_some H; [apply gi_sleep; [exact GI0|rewrite Epc; reflexivity]|apply gi_move_prefix; auto].
  - (* CLdm2 *)
    assert (M : Mid cfg s) by (apply mid_of_tinv; auto; rewrite Epc; cbn; auto; discriminate).
    assert (He : ended (mt s) = false).
    { destruct (ended (mt s)) eqn:X; auto. assert (0 < c_in (cl s)) by (apply A3; reflexivity). destruct (A1 eq_refl); [lia|discriminate]. }
    assert (Ha : alldone (mt s) = false).
    { destruct (alldone (mt s)) eqn:X; auto. destruct (A2 eq_refl) as [?|[?|(? & _)]]; discriminate. }
    destruct (GI Ha eq_refl) as (G & Hh & Er & U & (Hw & Hldm) & Ho). rewrite Er in G. cbn [orb] in G.
    destruct (overlap_win _ _) eqn:Eov; inv_some H; [apply gi_sleep; [exact GI0|rewrite Epc; reflexivity]|apply gi_hand_out; auto].
    + pose proof (bg_t _ _ (gm_b _ _ _ G)). lia.
    + intros _. rewrite <- (proj1 SR). exact Eov.
  - (* CGetBuf *)
    destruct (PB eq_refl) as (P0 & Pd & Pr & Psz & Pla & Pen). pose proof P0 as (Hlt & Hid & _).
    assert (Ha : alldone (mt s) = false).
    { destruct (alldone (mt s)) eqn:X; auto. destruct (A2 eq_refl) as [?|[?|(? & _)]]; discriminate. }
    destruct (GI Ha eq_refl) as (G & _). rewrite orb_true_r in G.
    assert (Hkl : (slot cfg (next (mt s)) < length (jobs s))%nat) by (rewrite (k_len _ _ K); apply slot_lt).
    inv_some H. apply ginv_at; [discriminate|..]; [pg_same N|]. intros _ _. unfold pbof. cbn [awake set_cpc set_cl cl_pc c_pc cl mt set_mt mt_ring ready]. rewrite Pr. cbn [orb].
    split; [|exact I].
    eapply (gm_post cfg s); [exact G|exact (k_len _ _ K)|exact Hlt|exact (proj1 (k_rng _ _ K))|exact (conj (proj1 SR) ltac:(destruct (proj2 SR) as [X|(X & _)]; [exact X|rewrite Epc in X; discriminate]))|reflexivity|reflexivity|reflexivity| |].
    + intros k Hk. rewrite getj_set_mt. rewrite getj_set_job_neq by auto. reflexivity.
    + right. rewrite getj_set_mt, getj_set_job_eq by exact Hkl. split; [exact Psz|]. match goal with |- context[if ?b then _ else _] => destruct b end; cbn; repeat split; try reflexivity; exact Psz.
  - (* CTryAdd *)
    pose proof (PA eq_refl) as ((Hlt & Hid & _) & _).
    assert (Ha : alldone (mt s) = false).
    { destruct (alldone (mt s)) eqn:X; auto. destruct (A2 eq_refl) as [?|[?|(? & _)]]; discriminate. }
    destruct (GI Ha eq_refl) as (G & _). rewrite orb_true_r in G.
    destruct (Nat.eqb (busy (pl s)) (c_nbw cfg) || _); inv_some H.
    + apply ginv_at; [discriminate|..]; [pg_same N|]. intros _ _. unfold pbof. cbn [awake set_cpc set_cl cl_pc c_pc cl mt set_mt mt_ring ready orb].
      split; [|exact I]. eapply gm_ext; [..|exact G]; first [reflexivity|intros; reflexivity].
    + apply ginv_at; [discriminate|..]; [pg_same N|]. intros _ _. unfold pbof. cbn [awake set_cpc set_cl cl_pc c_pc cl mt set_mt mt_ring ready orb].
      split; [|exact I].
      eapply (gm_post cfg s); [exact G|exact (k_len _ _ K)|exact Hlt|exact (proj1 (k_rng _ _ K))|exact (conj (proj1 SR) ltac:(destruct (proj2 SR) as [X|(X & _)]; [exact X|rewrite Epc in X; discriminate]))|reflexivity|reflexivity|reflexivity| |]; [intros; reflexivity|left; reflexivity].
  - (* CFlush *)
    assert (M : Mid cfg s) by (apply mid_of_tinv; auto; rewrite Epc; cbn; auto; discriminate).
    assert (F : Flow s) by (apply flow_of_ainv; auto; rewrite Epc; reflexivity).
    destruct (_ && _); inv_some H; [apply gi_sleep; [exact GI0|rewrite Epc; reflexivity]|].
    apply gi_flush_body; auto. intros Ha. destruct (GI Ha eq_refl) as (G & _). rewrite orb_false_r in G. exact G.
  - (* CRelBuf *)
    assert (M : Mid cfg s) by (apply mid_of_tinv; auto; rewrite Epc; cbn; auto; discriminate).
    assert (F : Flow s) by (apply flow_of_ainv; auto; rewrite Epc; reflexivity).
    destruct (PE eq_refl) as (E1 & E2 & E3 & E4 & E5).
    inv_some H.
    match goal with |- GInv cfg (complete_job cfg ?x) => set (s0 := x) end.
    assert (M0 : Mid cfg s0) by mid_same M.
    apply gi_complete_job; [exact M0|exact F|exact PD|exact E1|exact E2|exact E4| |pg_same N|].
    + apply (not_owned_fin cfg s0); auto; [apply M0|split; [reflexivity|exact PD]].
    + intros Ha. destruct (GI Ha eq_refl) as (G & _). rewrite orb_false_r in G. eapply gm_ext; [..|exact G]; first [reflexivity|intros; reflexivity].
  - (* CWait *)
    unfold jslot in H. destruct (negb _); inv_some H; [apply ginv_rel; [apply pg_pc; exact N|reflexivity]|apply gi_wait_all; pg_same N].
  - (* CRelAll *)
    inv_some H. apply gi_rel_scan. pg_same N.
  - (* CInitBuf *)
    assert (M : Mid cfg s) by (apply mid_of_tinv; auto; rewrite Epc; cbn; auto; discriminate).
    pose proof (A4 eq_refl) as Hal. destruct (PF Hal) as (Hdn & Hst).
    match type of H with Some (set_cpc _ ?x) = _ => set (s1 := x) in * end.
    assert (M1 : Mid cfg s1).
    { constructor.
      - eapply kb_reset; [apply kinv_kb; exact K|exact Hdn|..]; reflexivity.
      - intros k Hk _. left. apply Hst; auto.
      - cbn. discriminate.
      - cbn. discriminate.
      - exact AT.
      - cbn. discriminate. }
    assert (N1 : PgOk s1) by pg_same N.
    assert (Hcap : need_cap cfg (mt s1) <= rcap (mt s1)).
    { cbn [mt s1 set_sr set_mt rcap]. unfold need_cap. cbn [wsize target ptarget]. fold (need_cap cfg (mt s)).
      destruct (rcap (mt s) <? need_cap cfg (mt s)) eqn:X; [lia|apply N.ltb_ge in X; exact X]. }
    inv_some H.
    (* ZSTDMT_setNbSeq (and, for an LDM frame, the reset of the LDM window) are still to come *)
    split; [apply pg_pc; exact N1|]. intros _ _. cbn [awake set_cpc set_cl cl_pc c_pc cl].
    unfold Fresh. cbn [mt sr s1 set_cpc set_cl set_sr set_mt done next ready ended rpos ihas ifill psize s_next]. repeat split; auto.
    cbn [ldm]. intros X. rewrite X. reflexivity.
  - (* CInitSeq *)
    assert (M : Mid cfg s) by (apply mid_of_tinv; auto; rewrite Epc; cbn; auto; discriminate).
    assert (F : Flow s) by (apply flow_of_ainv; auto; rewrite Epc; reflexivity).
    destruct (ldm (mt s)) eqn:Eldm; inv_some H.
    + apply gi_finish_ok; [mid_same M|apply flow_flow0; exact F|pg_same N|].
      intros Ha. destruct (GI Ha eq_refl) as (F1 & F2 & F3 & F4 & F5 & F6 & F7 & F8 & F9 & F10).
      destruct N as (N0 & _). destruct AT as (T0 & _).
      cbn [mt set_sr set_pl ready]. rewrite F3. apply gm_fresh; auto.
    + (* a frame without LDM: the windows are left alone, nobody reads them *)
      apply gi_finish_ok; [mid_same M|apply flow_flow0; exact F|pg_same N|].
      intros Ha. destruct (GI Ha eq_refl) as (F1 & F2 & F3 & F4 & F5 & F6 & F7 & F8 & F9 & F10).
      destruct N as (N0 & _). destruct AT as (T0 & _).
      cbn [mt set_sr set_pl ready]. rewrite F3. apply gm_fresh; auto.
      cbn [mt set_pl set_sr]. intros X. change (ldm (mt s) = true) in X. rewrite Eldm in X. discriminate.
Qed.
