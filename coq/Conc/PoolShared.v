(* C12 round 3: SEVERAL CLIENTS POSTING TO ONE POOL - the way ZSTDMT uses a thread pool that is shared by several
   compression contexts (ZSTD_createThreadPool / ZSTD_CCtx_refThreadPool).

   Granularity: one step = one critical section of pool.c (every pool operation used here is a single critical section
   under queueMutex: POOL_tryAdd, the pop in POOL_thread, the numThreadsBusy-- after the job, POOL_resize), plus the
   completion of a job's function.  PoolAbs.v ties these transitions to the fine-grained model PoolModel.v (every step of
   PoolModel is one of them or changes nothing they see - checked on every lock-step run).

   A client is one compression context driven by its application thread:
     APost    ZSTDMT_createCompressionJob: POOL_tryAdd, and when the pool refuses, the job stays prepared (jobReady) and
              ZSTD_compressStream2 tries again: the client SPINS on POOL_tryAdd until the job is accepted;
     ATry     one POOL_tryAdd, the refusal is accepted;
     AResize  ZSTDMT_resize -> POOL_resize(shared pool, nbWorkers) (0 is refused by POOL_resize);
     AWait    ZSTDMT_waitForAllJobsCompleted: blocks until every job of THIS client has finished (what ZSTDMT_freeCCtx does
              on a provided pool since f02e35a, and what the start of the next frame does).
   A worker is idle, runs a job, or has finished the job's function and not yet decremented numThreadsBusy.

   NO proofs in the model part; the proofs follow in the second half of the file. *)
From Coq Require Import List Arith Bool Lia Permutation.
Import ListNotations.

Definition aentry := (nat * nat)%type.                 (* ticket, owner client *)
Inductive wstate := WIdle | WRun (e : aentry) | WFin.
Inductive aop := APost | ATry | AResize (n : nat) | AWait.

Record astate := mkA {
  a_pend : list aentry;        (* the queue, FIFO *)
  a_work : list wstate;        (* one per thread ever created: threadCapacity = length *)
  a_done : list aentry;        (* log of finished jobs *)
  a_busy : nat;                (* numThreadsBusy *)
  a_limit : nat;               (* threadLimit *)
  a_q : nat;                   (* queue size asked at creation; 0 = hand-off pool (what ZSTDMT and ZSTD_createThreadPool use) *)
  a_next : nat;                (* next ticket *)
  a_progs : list (list aop) }. (* what each client still does *)

Fixpoint upd {A} (i : nat) (x : A) (l : list A) : list A :=
  match l, i with
  | [], _ => []
  | _ :: r, 0 => x :: r
  | a :: r, S i' => a :: upd i' x r
  end.

(* isQueueFull *)
Definition afull (s : astate) : bool :=
  if 0 <? a_q s then length (a_pend s) =? a_q s
  else (a_busy s =? a_limit s) || negb (match a_pend s with [] => true | _ => false end).

Definition wrun (w : wstate) : list aentry := match w with WRun e => [e] | _ => [] end.
Definition running (s : astate) : list aentry := flat_map wrun (a_work s).
Definition owned (c : nat) (l : list aentry) : list aentry := filter (fun e => snd e =? c) l.
Definition has_job (c : nat) (s : astate) : bool :=
  match owned c (a_pend s ++ running s) with [] => false | _ => true end.

Definition set_prog c r s := mkA (a_pend s) (a_work s) (a_done s) (a_busy s) (a_limit s) (a_q s) (a_next s) (upd c r (a_progs s)).
Definition push c r s :=
  mkA (a_pend s ++ [(a_next s, c)]) (a_work s) (a_done s) (a_busy s) (a_limit s) (a_q s) (S (a_next s)) (upd c r (a_progs s)).

Definition astep (a : nat) (s : astate) : option astate :=
  let K := length (a_progs s) in
  if a <? K then
    match nth a (a_progs s) [] with
    | [] => None
    | APost :: r => if afull s then Some s else Some (push a r s)
    | ATry :: r => if afull s then Some (set_prog a r s) else Some (push a r s)
    | AResize n :: r =>
      if n =? 0 then Some (set_prog a r s)
      else Some (mkA (a_pend s) (a_work s ++ repeat WIdle (n - length (a_work s))) (a_done s) (a_busy s) n (a_q s) (a_next s) (upd a r (a_progs s)))
    | AWait :: r => if has_job a s then None else Some (set_prog a r s)
    end
  else
    let i := a - K in
    match nth_error (a_work s) i with
    | None => None
    | Some WIdle =>
      match a_pend s with
      | e :: p' => if a_busy s <? a_limit s
                   then Some (mkA p' (upd i (WRun e) (a_work s)) (a_done s) (S (a_busy s)) (a_limit s) (a_q s) (a_next s) (a_progs s))
                   else None
      | [] => None
      end
    | Some (WRun e) => Some (mkA (a_pend s) (upd i WFin (a_work s)) (a_done s ++ [e]) (a_busy s) (a_limit s) (a_q s) (a_next s) (a_progs s))
    | Some WFin => Some (mkA (a_pend s) (upd i WIdle (a_work s)) (a_done s) (a_busy s - 1) (a_limit s) (a_q s) (a_next s) (a_progs s))
    end.

Definition ainit (progs : list (list aop)) (threads q : nat) : astate :=
  mkA [] (repeat WIdle threads) [] 0 threads q 0 progs.

(* picks of disabled actors are skipped *)
Definition apick (a : nat) (s : astate) : astate := match astep a s with Some s' => s' | None => s end.
Fixpoint arun (sched : list nat) (s : astate) : astate :=
  match sched with [] => s | a :: r => arun r (apick a s) end.
(* infinite schedules *)
Fixpoint arun_inf (sigma : nat -> nat) (n : nat) (s : astate) : astate :=
  match n with 0 => s | S k => apick (sigma k) (arun_inf sigma k s) end.

Definition all_idle (s : astate) : bool := forallb (fun w => match w with WIdle => true | _ => false end) (a_work s).
Definition afinal (s : astate) : bool :=
  forallb (fun p => match p with [] => true | _ => false end) (a_progs s)
  && match a_pend s with [] => true | _ => false end && all_idle s.

(* ======================================================================= proofs *)

Definition nonidle (w : wstate) : nat := match w with WIdle => 0 | _ => 1 end.
Definition count_busy (l : list wstate) : nat := list_sum (map nonidle l).

Record AInv (s : astate) : Prop := {
  i_busy : a_busy s = count_busy (a_work s);
  i_lim1 : 1 <= a_limit s;
  i_limc : a_limit s <= length (a_work s);
  i_perm : Permutation (map fst (a_pend s ++ running s ++ a_done s)) (seq 0 (a_next s)) }.

Lemma upd_length : forall A i (x : A) l, length (upd i x l) = length l.
Proof. induction i; destruct l; simpl; auto. Qed.

Lemma nth_error_upd_count : forall l i w x, nth_error l i = Some w ->
  count_busy (upd i x l) + nonidle w = count_busy l + nonidle x.
Proof.
  unfold count_busy. induction l; destruct i; simpl; intros; try discriminate.
  - inversion H; subst. lia.
  - specialize (IHl _ _ x H). lia.
Qed.

Lemma running_upd_idle_run : forall l i e, nth_error l i = Some WIdle ->
  Permutation (flat_map wrun (upd i (WRun e) l)) (e :: flat_map wrun l).
Proof.
  induction l; destruct i; simpl; intros; try discriminate.
  - inversion H; subst. simpl. apply Permutation_refl.
  - destruct a; simpl.
    + apply IHl; auto.
    + eapply perm_trans; [apply perm_skip; apply IHl; auto | apply perm_swap].
    + apply IHl; auto.
Qed.

Lemma running_upd_run_fin : forall l i e, nth_error l i = Some (WRun e) ->
  Permutation (flat_map wrun l) (e :: flat_map wrun (upd i WFin l)).
Proof.
  induction l; destruct i; simpl; intros; try discriminate.
  - inversion H; subst. simpl. apply Permutation_refl.
  - destruct a; simpl.
    + apply IHl; auto.
    + eapply perm_trans; [apply perm_skip; apply IHl; eauto | apply perm_swap].
    + apply IHl; auto.
Qed.

Lemma running_upd_fin_idle : forall l i, nth_error l i = Some WFin ->
  flat_map wrun (upd i WIdle l) = flat_map wrun l.
Proof.
  induction l; destruct i; simpl; intros; try discriminate.
  - inversion H; subst. reflexivity.
  - f_equal. apply IHl; auto.
Qed.

Lemma running_app_idle : forall l k, flat_map wrun (l ++ repeat WIdle k) = flat_map wrun l.
Proof.
  intros. rewrite flat_map_app. replace (flat_map wrun (repeat WIdle k)) with (@nil aentry).
  - apply app_nil_r.
  - induction k; simpl; auto.
Qed.

Lemma count_app_idle : forall l k, count_busy (l ++ repeat WIdle k) = count_busy l.
Proof.
  unfold count_busy. intros. rewrite map_app, list_sum_app.
  replace (list_sum (map nonidle (repeat WIdle k))) with 0; [lia|]. induction k; simpl; auto.
Qed.

Lemma ainit_inv : forall progs threads q, 1 <= threads -> AInv (ainit progs threads q).
Proof.
  intros. constructor; simpl.
  - generalize (count_app_idle [] threads). simpl. auto.
  - auto.
  - rewrite repeat_length. auto.
  - unfold running. simpl. generalize (running_app_idle [] threads). simpl. intros ->. simpl. apply Permutation_refl.
Qed.

Lemma push_perm : forall (c : nat) (p r d : list aentry) (n : nat),
  Permutation (map fst (p ++ r ++ d)) (seq 0 n) ->
  Permutation (map fst ((p ++ [(n, c)]) ++ r ++ d)) (seq 0 (S n)).
Proof.
  intros. rewrite seq_S. simpl.
  apply Permutation_trans with (map fst ((n, c) :: p ++ r ++ d)).
  - apply Permutation_map. rewrite <- app_assoc. simpl. apply Permutation_sym. apply Permutation_middle.
  - simpl. apply Permutation_trans with (n :: seq 0 n).
    + apply perm_skip; auto.
    + apply Permutation_cons_append.
Qed.

Lemma perm_pop : forall (e : aentry) (p' run run' d : list aentry) X,
  Permutation run' (e :: run) ->
  Permutation (map fst ((e :: p') ++ run ++ d)) X -> Permutation (map fst (p' ++ run' ++ d)) X.
Proof.
  intros. apply perm_trans with (map fst ((e :: p') ++ run ++ d)); auto. apply Permutation_map. simpl.
  apply perm_trans with (p' ++ (e :: run) ++ d).
  - apply Permutation_app_head, Permutation_app_tail; auto.
  - simpl. apply Permutation_sym, Permutation_middle.
Qed.

Lemma perm_fin : forall (e : aentry) (p run run' d : list aentry) X,
  Permutation run (e :: run') ->
  Permutation (map fst (p ++ run ++ d)) X -> Permutation (map fst (p ++ run' ++ d ++ [e])) X.
Proof.
  intros. apply perm_trans with (map fst (p ++ run ++ d)); auto. apply Permutation_map.
  apply Permutation_app_head. apply perm_trans with ((e :: run') ++ d).
  - simpl. rewrite app_assoc. apply Permutation_sym, Permutation_cons_append.
  - apply Permutation_app_tail, Permutation_sym; auto.
Qed.

Lemma astep_inv : forall a s s', AInv s -> astep a s = Some s' -> AInv s'.
Proof.
  intros a s s' I. destruct I as [Ib I1 Ic Ip]. unfold astep.
  destruct (a <? length (a_progs s)).
  - destruct (nth a (a_progs s) []) as [|o r]; [discriminate|].
    destruct o.
    + destruct (afull s); intro H; inversion H; subst; [constructor; auto|].
      constructor; simpl; auto. unfold running; simpl. apply push_perm; auto.
    + destruct (afull s); intro H; inversion H; subst; [constructor; auto|].
      constructor; simpl; auto. unfold running; simpl. apply push_perm; auto.
    + destruct (n =? 0) eqn:En; intro H; inversion H; subst; [constructor; auto|].
      apply Nat.eqb_neq in En.
      constructor; simpl.
      * rewrite count_app_idle; auto.
      * lia.
      * rewrite app_length, repeat_length. lia.
      * unfold running in *; simpl. rewrite running_app_idle. auto.
    + destruct (has_job a s); intro H; inversion H; subst. constructor; auto.
  - destruct (nth_error (a_work s) (a - length (a_progs s))) as [w|] eqn:Ew; [|discriminate].
    destruct w.
    + destruct (a_pend s) as [|e p'] eqn:Ep; [discriminate|].
      destruct (a_busy s <? a_limit s) eqn:Eb; [|discriminate].
      intro H; inversion H; subst; clear H. constructor; simpl; auto.
      * generalize (nth_error_upd_count _ _ _ (WRun e) Ew). simpl. lia.
      * rewrite upd_length; auto.
      * unfold running in *; simpl. try rewrite Ep in Ip.
        eapply perm_pop; [apply running_upd_idle_run; eauto | exact Ip].
    + intro H; inversion H; subst; clear H. constructor; simpl; auto.
      * generalize (nth_error_upd_count _ _ _ WFin Ew). simpl. lia.
      * rewrite upd_length; auto.
      * unfold running in *; simpl.
        eapply perm_fin; [apply running_upd_run_fin; eauto | exact Ip].
    + intro H; inversion H; subst; clear H. constructor; simpl; auto.
      * generalize (nth_error_upd_count _ _ _ WIdle Ew). simpl. lia.
      * rewrite upd_length; auto.
      * unfold running in *; simpl. rewrite running_upd_fin_idle; auto.
Qed.

Lemma apick_inv : forall a s, AInv s -> AInv (apick a s).
Proof. intros. unfold apick. destruct (astep a s) eqn:E; auto. eapply astep_inv; eauto. Qed.

Lemma arun_inv : forall sched s, AInv s -> AInv (arun sched s).
Proof. induction sched; simpl; intros; auto. apply IHsched. apply apick_inv; auto. Qed.

Lemma arun_inf_inv : forall sigma n s, AInv s -> AInv (arun_inf sigma n s).
Proof. induction n; simpl; intros; auto. apply apick_inv; auto. Qed.

(* ---- exactly once ---- *)
Theorem shared_exactly_once_lemma : forall progs threads q sched, 1 <= threads ->
  let s := arun sched (ainit progs threads q) in
  forall k, (k < a_next s -> count_occ Nat.eq_dec (map fst (a_pend s ++ running s ++ a_done s)) k = 1)
         /\ (a_next s <= k -> count_occ Nat.eq_dec (map fst (a_pend s ++ running s ++ a_done s)) k = 0).
Proof.
  intros. assert (I : AInv s) by (apply arun_inv; apply ainit_inv; auto).
  destruct I as [_ _ _ Ip].
  rewrite (Permutation_count_occ Nat.eq_dec) in Ip. rewrite Ip.
  assert (ND : NoDup (seq 0 (a_next s))) by apply seq_NoDup.
  split; intro.
  - apply NoDup_count_occ'; auto. apply in_seq. lia.
  - apply count_occ_not_In. rewrite in_seq. lia.
Qed.

(* ---- the measure ---- *)
Definition op_cost (o : aop) : nat := match o with APost | ATry => 4 | _ => 1 end.
Definition prog_cost (p : list aop) : nat := list_sum (map op_cost p).
Definition w_cost (w : wstate) : nat := match w with WIdle => 0 | WRun _ => 2 | WFin => 1 end.
Definition amu (s : astate) : nat :=
  list_sum (map prog_cost (a_progs s)) + 3 * length (a_pend s) + list_sum (map w_cost (a_work s)).

Lemma prog_cost_cons : forall o r, prog_cost (o :: r) = op_cost o + prog_cost r.
Proof. reflexivity. Qed.

Lemma sum_upd : forall (f : list aop -> nat) l i x, i < length l ->
  list_sum (map f (upd i x l)) + f (nth i l []) = list_sum (map f l) + f x.
Proof.
  induction l; destruct i; simpl; intros; try lia.
  specialize (IHl i x). assert (i < length l) by lia. specialize (IHl H0). lia.
Qed.

Lemma wsum_upd : forall l i w x, nth_error l i = Some w ->
  list_sum (map w_cost (upd i x l)) + w_cost w = list_sum (map w_cost l) + w_cost x.
Proof.
  induction l; destruct i; simpl; intros; try discriminate.
  - inversion H; subst. lia.
  - specialize (IHl _ _ x H). lia.
Qed.

Lemma wsum_app_idle : forall l k, list_sum (map w_cost (l ++ repeat WIdle k)) = list_sum (map w_cost l).
Proof.
  intros. rewrite map_app, list_sum_app.
  replace (list_sum (map w_cost (repeat WIdle k))) with 0; [lia|]. induction k; simpl; auto.
Qed.

(* every step either changes nothing (a refused POOL_tryAdd of a spinning client) or makes the measure smaller *)
Lemma astep_decreases : forall a s s', astep a s = Some s' -> s' = s \/ amu s' < amu s.
Proof.
  intros a s s'. unfold astep.
  destruct (a <? length (a_progs s)) eqn:Ea.
  - apply Nat.ltb_lt in Ea.
    destruct (nth a (a_progs s) []) as [|o r] eqn:En; [discriminate|].
    assert (S1 : forall x, list_sum (map prog_cost (upd a x (a_progs s))) + prog_cost (o :: r) = list_sum (map prog_cost (a_progs s)) + prog_cost x).
    { intro x. rewrite <- En. apply sum_upd; auto. }
    specialize (S1 r). rewrite prog_cost_cons in S1.
    destruct o; cbn [op_cost] in S1.
    + destruct (afull s); intro H; inversion H; subst; auto. right. unfold amu; cbn [a_progs a_pend a_work push]. rewrite app_length. cbn [length]. lia.
    + destruct (afull s); intro H; inversion H; subst; right; unfold amu; cbn [a_progs a_pend a_work push set_prog]; [|rewrite app_length; cbn [length]]; lia.
    + destruct (n =? 0); intro H; inversion H; subst; right; unfold amu; cbn [a_progs a_pend a_work set_prog]; [|rewrite wsum_app_idle]; lia.
    + destruct (has_job a s); intro H; inversion H; subst. right. unfold amu; cbn [a_progs a_pend a_work set_prog]. lia.
  - destruct (nth_error (a_work s) (a - length (a_progs s))) as [w|] eqn:Ew; [|discriminate].
    destruct w.
    + destruct (a_pend s) as [|e p'] eqn:Ep; [discriminate|].
      destruct (a_busy s <? a_limit s); [|discriminate].
      intro H; inversion H; subst; clear H. right. unfold amu; simpl. rewrite Ep. simpl.
      generalize (wsum_upd _ _ _ (WRun e) Ew). simpl. lia.
    + intro H; inversion H; subst; clear H. right. unfold amu; simpl.
      generalize (wsum_upd _ _ _ WFin Ew). simpl. lia.
    + intro H; inversion H; subst; clear H. right. unfold amu; simpl.
      generalize (wsum_upd _ _ _ WIdle Ew). simpl. lia.
Qed.

Lemma apick_decreases : forall a s, apick a s = s \/ amu (apick a s) < amu s.
Proof. intros. unfold apick. destruct (astep a s) eqn:E; auto. apply astep_decreases in E. auto. Qed.

(* ---- progress: in a state that is not final SOME actor has a step that makes the measure smaller ---- *)
Lemma all_idle_count : forall l, forallb (fun w => match w with WIdle => true | _ => false end) l = true -> count_busy l = 0 /\ flat_map wrun l = [].
Proof.
  unfold count_busy. induction l; simpl; intros; auto.
  apply andb_true_iff in H. destruct H. destruct a; try discriminate. simpl. auto.
Qed.

Lemma not_idle_exists : forall l, forallb (fun w => match w with WIdle => true | _ => false end) l = false ->
  exists i w, nth_error l i = Some w /\ w <> WIdle.
Proof.
  induction l; simpl; intros; try discriminate.
  destruct a.
  - simpl in H. destruct (IHl H) as (i & w & ? & ?). exists (S i), w. auto.
  - exists 0, (WRun e). split; auto. discriminate.
  - exists 0, WFin. split; auto. discriminate.
Qed.

Lemma progs_nonempty_exists : forall (l : list (list aop)),
  forallb (fun p => match p with [] => true | _ => false end) l = false ->
  exists c o r, c < length l /\ nth c l [] = o :: r.
Proof.
  induction l; simpl; intros; try discriminate.
  destruct a as [|o r].
  - simpl in H. destruct (IHl H) as (c & o & r & ? & ?). exists (S c), o, r. split; auto. lia.
  - exists 0, o, r. split; auto. lia.
Qed.

Lemma progress : forall s, AInv s -> afinal s = false ->
  exists a s', astep a s = Some s' /\ amu s' < amu s.
Proof.
  intros s [Ib I1 Ic Ip] F.
  assert (D : forall a s', astep a s = Some s' -> s' <> s -> exists a s', astep a s = Some s' /\ amu s' < amu s).
  { intros a s' E N. exists a, s'. split; auto. destruct (astep_decreases _ _ _ E); auto. contradiction. }
  destruct (all_idle s) eqn:EI.
  - (* all workers idle *)
    unfold all_idle in EI. destruct (all_idle_count _ EI) as [C0 R0].
    destruct (a_pend s) as [|e p'] eqn:Ep.
    + (* nothing queued: some client has something to do *)
      unfold afinal in F. rewrite Ep in F. unfold all_idle in F. rewrite EI in F. rewrite !andb_true_r in F.
      destruct (progs_nonempty_exists _ F) as (c & o & r & Hc & Hn).
      assert (NF : afull s = false).
      { unfold afull. rewrite Ep. destruct (0 <? a_q s) eqn:Eq.
        - apply Nat.ltb_lt in Eq. cbn [length]. apply Nat.eqb_neq. lia.
        - cbn [negb]. rewrite orb_false_r. apply Nat.eqb_neq. lia. }
      assert (NJ : has_job c s = false).
      { unfold has_job, running. rewrite Ep, R0. reflexivity. }
      exists c. unfold astep. apply Nat.ltb_lt in Hc. rewrite Hc, Hn. apply Nat.ltb_lt in Hc.
      assert (S1 : list_sum (map prog_cost (upd c r (a_progs s))) + prog_cost (o :: r) = list_sum (map prog_cost (a_progs s)) + prog_cost r).
      { rewrite <- Hn. apply sum_upd; auto. }
      rewrite prog_cost_cons in S1.
      destruct o; cbn [op_cost] in S1.
      * rewrite NF. eexists; split; eauto. unfold amu; cbn [a_progs a_pend a_work push]. rewrite app_length; cbn [length]. lia.
      * rewrite NF. eexists; split; eauto. unfold amu; cbn [a_progs a_pend a_work push]. rewrite app_length; cbn [length]. lia.
      * destruct (n =? 0); eexists; split; eauto; unfold amu; cbn [a_progs a_pend a_work set_prog]; [|rewrite wsum_app_idle]; lia.
      * rewrite NJ. eexists; split; eauto. unfold amu; cbn [a_progs a_pend a_work set_prog]. lia.
    + (* a job is queued and every worker is idle: worker 0 pops it *)
      assert (B0 : a_busy s = 0) by lia.
      assert (Hb : a_busy s <? a_limit s = true) by (apply Nat.ltb_lt; lia).
      destruct (a_work s) as [|w0 wr] eqn:Ew; [simpl in Ic; lia|].
      simpl in EI. apply andb_true_iff in EI. destruct EI as [E0 _]. destruct w0; try discriminate.
      exists (length (a_progs s)). unfold astep. rewrite Nat.ltb_irrefl, Nat.sub_diag, Ew, Ep. cbn [nth_error].
      rewrite Hb. eexists; split; eauto. unfold amu; simpl. rewrite Ew, Ep. simpl. lia.
  - (* some worker is running or finishing: its next step is enabled *)
    unfold all_idle in EI. destruct (not_idle_exists _ EI) as (i & w & Hw & Nw).
    exists (length (a_progs s) + i). unfold astep.
    assert (Hl : length (a_progs s) + i <? length (a_progs s) = false) by (apply Nat.ltb_ge; lia).
    rewrite Hl. replace (length (a_progs s) + i - length (a_progs s)) with i by lia. rewrite Hw.
    destruct w; [contradiction| |]; eexists; (split; [reflexivity|]); unfold amu; simpl.
    + generalize (wsum_upd _ _ _ WFin Hw). simpl. lia.
    + generalize (wsum_upd _ _ _ WIdle Hw). simpl. lia.
Qed.

(* ---- liveness under a fair scheduler ---- *)
Definition afair (sigma : nat -> nat) : Prop := forall a n, exists m, n <= m /\ sigma m = a.

Lemma fair_decrease : forall sigma, afair sigma -> forall s0 n, AInv s0 ->
  afinal (arun_inf sigma n s0) = false ->
  exists n', n < n' /\ amu (arun_inf sigma n' s0) < amu (arun_inf sigma n s0).
Proof.
  intros sigma F s0 n I NF.
  assert (In : AInv (arun_inf sigma n s0)) by (apply arun_inf_inv; auto).
  destruct (progress _ In NF) as (a & s' & Ea & Lt).
  destruct (F a n) as (m & Hm & Sm).
  remember (m - n) as d. revert n NF In Ea Lt Hm Heqd.
  induction d; intros.
  - assert (m = n) by lia. subst m.
    exists (S n). split; [lia|]. simpl. rewrite Sm. unfold apick. rewrite Ea. auto.
  - destruct (apick_decreases (sigma n) (arun_inf sigma n s0)) as [Same | Less].
    + assert (E1 : arun_inf sigma (S n) s0 = arun_inf sigma n s0) by (simpl; auto).
      destruct (IHd (S n)) as (n' & Hn' & Hlt); try rewrite E1; auto; try lia.
      exists n'. split; [lia|]. rewrite E1 in Hlt. auto.
    + exists (S n). split; [lia|]. simpl. auto.
Qed.

Theorem shared_fair_terminates_lemma : forall sigma progs threads q, 1 <= threads -> afair sigma ->
  exists n, afinal (arun_inf sigma n (ainit progs threads q)) = true.
Proof.
  intros sigma progs threads q T F.
  set (s0 := ainit progs threads q). assert (I : AInv s0) by (apply ainit_inv; auto).
  assert (G : forall M n, amu (arun_inf sigma n s0) <= M -> exists n', afinal (arun_inf sigma n' s0) = true).
  { induction M; intros n Hn.
    - destruct (afinal (arun_inf sigma n s0)) eqn:E; [exists n; auto|].
      destruct (fair_decrease sigma F s0 n I E) as (n' & _ & Hlt). lia.
    - destruct (afinal (arun_inf sigma n s0)) eqn:E; [exists n; auto|].
      destruct (fair_decrease sigma F s0 n I E) as (n' & _ & Hlt). apply (IHM n'). lia. }
  apply (G (amu s0) 0). simpl. auto.
Qed.

(* at a final state every accepted job has been executed exactly once *)
Lemma final_all_done : forall s, AInv s -> afinal s = true ->
  forall k, (k < a_next s -> count_occ Nat.eq_dec (map fst (a_done s)) k = 1)
         /\ (a_next s <= k -> count_occ Nat.eq_dec (map fst (a_done s)) k = 0).
Proof.
  intros s [_ _ _ Ip] F k. unfold afinal in F. apply andb_true_iff in F. destruct F as [F Fi].
  apply andb_true_iff in F. destruct F as [_ Fp].
  destruct (a_pend s) eqn:Ep; [|discriminate]. unfold all_idle in Fi. destruct (all_idle_count _ Fi) as [_ R0].
  unfold running in Ip. rewrite R0 in Ip. simpl in Ip.
  rewrite (Permutation_count_occ Nat.eq_dec) in Ip. rewrite Ip.
  assert (ND : NoDup (seq 0 (a_next s))) by apply seq_NoDup.
  split; intro.
  - apply NoDup_count_occ'; auto. apply in_seq. lia.
  - apply count_occ_not_In. rewrite in_seq. lia.
Qed.

(* ---- a spinning client can be refused any number of times: the number of steps is NOT bounded ---- *)
Lemma spin_unbounded_lemma : forall s c r, c < length (a_progs s) -> nth c (a_progs s) [] = APost :: r -> afull s = true ->
  forall n, arun (repeat c n) s = s.
Proof.
  intros s c r Hc Hn Hf. induction n; simpl; auto.
  unfold apick, astep. apply Nat.ltb_lt in Hc. rewrite Hc, Hn, Hf. auto.
Qed.

(* ---- a client that has waited for its jobs and posts nothing more: none of its jobs is queued or running, for ever
        (ZSTDMT_freeCCtx on a shared pool may free the job descriptions; other clients keep using the pool) ---- *)
Definition quiescent (c : nat) (s : astate) : Prop := nth c (a_progs s) [] = [] /\ has_job c s = false.

Lemma nth_upd_other : forall (l : list (list aop)) i j x, i <> j -> nth i (upd j x l) [] = nth i l [].
Proof. induction l; destruct i, j; simpl; intros; auto; try lia. Qed.

Lemma owned_app : forall c l1 l2, owned c (l1 ++ l2) = owned c l1 ++ owned c l2.
Proof. intros. unfold owned. apply filter_app. Qed.

Lemma owned_perm : forall c l1 l2, Permutation l1 l2 -> Permutation (owned c l1) (owned c l2).
Proof.
  intros c l1 l2 P. unfold owned. induction P; simpl; auto.
  - destruct (snd x =? c); auto.
  - destruct (snd x =? c), (snd y =? c); auto. apply perm_swap.
  - eapply perm_trans; eauto.
Qed.

Lemma has_job_false : forall c s, has_job c s = false <-> owned c (a_pend s) = [] /\ owned c (running s) = [].
Proof.
  intros. unfold has_job. rewrite owned_app. destruct (owned c (a_pend s)); simpl.
  - destruct (owned c (running s)); split; intros; auto; try discriminate. destruct H; discriminate.
  - split; intros; try discriminate. destruct H; discriminate.
Qed.

Lemma astep_quiescent : forall a s s' c, quiescent c s -> astep a s = Some s' -> quiescent c s'.
Proof.
  intros a s s' c [Qp Qj]. apply has_job_false in Qj. destruct Qj as [Q1 Q2]. unfold quiescent. rewrite has_job_false.
  unfold astep. destruct (a <? length (a_progs s)) eqn:Ea.
  - destruct (nth a (a_progs s) []) as [|o r] eqn:En; [discriminate|].
    assert (Nac : c <> a) by (intro; subst; rewrite Qp in En; discriminate).
    destruct o.
    + destruct (afull s); intro H; inversion H; subst; auto.
      simpl. rewrite nth_upd_other by auto. unfold running; simpl. rewrite owned_app, Q1. simpl.
      destruct (a =? c) eqn:E; [apply Nat.eqb_eq in E; lia|]. auto.
    + destruct (afull s); intro H; inversion H; subst; simpl; rewrite nth_upd_other by auto; auto.
      unfold running; simpl. rewrite owned_app, Q1. simpl.
      destruct (a =? c) eqn:E; [apply Nat.eqb_eq in E; lia|]. auto.
    + destruct (n =? 0); intro H; inversion H; subst; simpl; rewrite nth_upd_other by auto; auto.
      unfold running in *; simpl. rewrite running_app_idle. auto.
    + destruct (has_job a s); intro H; inversion H; subst; simpl; rewrite nth_upd_other by auto; auto.
  - destruct (nth_error (a_work s) (a - length (a_progs s))) as [w|] eqn:Ew; [|discriminate].
    destruct w.
    + destruct (a_pend s) as [|e p'] eqn:Ep; [discriminate|].
      destruct (a_busy s <? a_limit s); [|discriminate].
      intro H; inversion H; subst; clear H. simpl. unfold running in *; simpl.
      simpl in Q1. destruct (snd e =? c) eqn:Ec; [discriminate|].
      split; auto. split; auto.
      assert (P := owned_perm c _ _ (running_upd_idle_run _ _ e Ew)). simpl in P. rewrite Ec, Q2 in P.
      apply Permutation_sym, Permutation_nil in P. auto.
    + intro H; inversion H; subst; clear H. simpl. unfold running in *; simpl. split; auto. split; auto.
      assert (P := owned_perm c _ _ (running_upd_run_fin _ _ e Ew)). rewrite Q2 in P.
      apply Permutation_nil in P. simpl in P. destruct (snd e =? c); [discriminate|auto].
    + intro H; inversion H; subst; clear H. simpl. unfold running in *; simpl. rewrite running_upd_fin_idle; auto.
Qed.

Theorem shared_quiescent_forever_lemma : forall sched s c, quiescent c s -> quiescent c (arun sched s).
Proof.
  induction sched; simpl; intros; auto. apply IHsched. unfold apick.
  destruct (astep a s) eqn:E; auto. eapply astep_quiescent; eauto.
Qed.

(* the step that ends AWait establishes it when the client's program ends there *)
Lemma wait_establishes_quiescent : forall c s s', c < length (a_progs s) -> nth c (a_progs s) [] = [AWait] ->
  astep c s = Some s' -> quiescent c s'.
Proof.
  intros c s s' Hc Hn. unfold astep. apply Nat.ltb_lt in Hc. rewrite Hc, Hn. apply Nat.ltb_lt in Hc.
  destruct (has_job c s) eqn:Ej; intro H; inversion H; subst. split.
  - simpl. clear - Hc. revert c Hc. induction (a_progs s); destruct c; simpl; intros; auto; try lia. apply IHl. lia.
  - unfold has_job in *. simpl. auto.
Qed.

(* ---- no job is started beyond threadLimit, whoever lowered it ---- *)
Lemma pop_below_limit_lemma : forall a s s', astep a s = Some s' -> a_busy s < a_busy s' ->
  a_busy s' = S (a_busy s) /\ a_busy s < a_limit s /\ a_limit s' = a_limit s
  /\ exists e, a_pend s = e :: a_pend s' /\ In e (running s').
Proof.
  intros a s s'. unfold astep. destruct (a <? length (a_progs s)).
  - destruct (nth a (a_progs s) []) as [|o r]; [discriminate|].
    destruct o; [destruct (afull s)|destruct (afull s)|destruct (n =? 0)|destruct (has_job a s)];
      intro H; inversion H; subst; simpl; intros; lia.
  - destruct (nth_error (a_work s) (a - length (a_progs s))) as [w|] eqn:Ew; [|discriminate].
    destruct w.
    + destruct (a_pend s) as [|e p'] eqn:Ep; [discriminate|].
      destruct (a_busy s <? a_limit s) eqn:Eb; [|discriminate].
      intro H; inversion H; subst; clear H. simpl. intros _. apply Nat.ltb_lt in Eb.
      repeat split; auto. exists e. split; auto. unfold running; simpl.
      eapply Permutation_in; [apply Permutation_sym; apply running_upd_idle_run; eauto|]. simpl; auto.
    + intro H; inversion H; subst; simpl; intros; lia.
    + intro H; inversion H; subst; simpl; intros; lia.
Qed.

(* ---- the statements as Properties_C12.v gives them ---- *)
Definition areach (progs : list (list aop)) (threads q : nat) (sched : list nat) : astate := arun sched (ainit progs threads q).

Theorem shared_progress_lemma : forall progs threads q sched, 1 <= threads ->
  let s := areach progs threads q sched in
  afinal s = false -> exists a s', astep a s = Some s' /\ amu s' < amu s.
Proof. intros. apply progress; auto. apply arun_inv, ainit_inv; auto. Qed.

Theorem shared_fair_run_completes_lemma : forall sigma progs threads q, 1 <= threads -> afair sigma ->
  exists n, let s := arun_inf sigma n (ainit progs threads q) in
    afinal s = true /\
    forall k, (k < a_next s -> count_occ Nat.eq_dec (map fst (a_done s)) k = 1)
           /\ (a_next s <= k -> count_occ Nat.eq_dec (map fst (a_done s)) k = 0).
Proof.
  intros sigma progs threads q T F. destruct (shared_fair_terminates_lemma sigma progs threads q T F) as (n & Hn).
  exists n. cbv zeta. split; auto. apply final_all_done; auto. apply arun_inf_inv, ainit_inv; auto.
Qed.

Theorem shared_wait_then_quiescent_lemma : forall c s s' sched, c < length (a_progs s) -> nth c (a_progs s) [] = [AWait] ->
  astep c s = Some s' ->
  let s'' := arun sched s' in nth c (a_progs s'') [] = [] /\ owned c (a_pend s'' ++ running s'') = [].
Proof.
  intros c s s' sched Hc Hn Hs s''.
  assert (Q : quiescent c s'') by (apply shared_quiescent_forever_lemma; eapply wait_establishes_quiescent; eauto).
  destruct Q as [Q1 Q2]. split; auto. unfold has_job in Q2. destruct (owned c (a_pend s'' ++ running s'')); auto; discriminate.
Qed.

(* a fair scheduler exists: m - (sqrt m)^2 visits every actor again and again *)
Definition sq_sigma (m : nat) : nat := m - Nat.sqrt m * Nat.sqrt m.

Lemma sq_sigma_fair : afair sq_sigma.
Proof.
  intros a n. set (k := a + n). exists (k * k + a). split; [nia|].
  unfold sq_sigma. assert (E : Nat.sqrt (k * k + a) = k) by (apply Nat.sqrt_unique; nia).
  rewrite E. lia.
Qed.

(* two contexts on a pool of ONE thread, the second one also resizes the pool: under the fair scheduler everything completes;
   on the way the second context is refused (it spins): the state [arun [0] ...] is full for it, any number of times *)
Definition ex_progs : list (list aop) := [[APost; APost; AWait]; [APost; AResize 2; APost; AWait]].

Lemma ex_completes : let s := arun_inf sq_sigma 400 (ainit ex_progs 1 0) in
  afinal s = true /\ map fst (a_done s) = [0; 1; 2; 3] /\ length (a_work s) = 2.
Proof. vm_compute. auto. Qed.

Lemma ex_spins : let s := areach ex_progs 1 0 [0] in
  afull s = true /\ nth 1 (a_progs s) [] = [APost; AResize 2; APost; AWait] /\ forall n, arun (repeat 1 n) s = s.
Proof.
  cbv zeta. split; [vm_compute; auto|]. split; [vm_compute; auto|].
  apply spin_unbounded_lemma with (r := [AResize 2; APost; AWait]); vm_compute; auto.
Qed.
