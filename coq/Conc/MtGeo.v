(* C11: geometry of the round input buffer (ZSTDMT_tryGetInputRange / getInputDataInUse / isOverlapped, the prefix move at the wrap).
   Definitions and arithmetic.  Positions are compared through VIRTUAL positions: lap * capacity + offset, where [lap] (ghost) counts the
   wraps of the buffer; a range handed to the caller collides with older data exactly when the older data lies a full capacity or more
   behind the end of the range.

   GM (the invariant of the caller's unsynchronised code, no reference to its pc):
     - BGeo: capacity >= need_cap, prefix inside the buffer and ending at roundBuff.pos, the input buffer is [pos, pos+target);
     - JGeo: every live job (in flight, or prepared in slot(nextJobID)) lies inside the buffer, behind the frontier, its prefix ends at
       its source;
     - Mono: a younger live job (prefix included) starts at or after the start of the source of an older one;
     - Fweak / Fstrong: the frontier (resp. the end of the input buffer being filled) has not lapped an unfinished job in flight. *)
From Coq Require Import List NArith ZArith Bool Arith Lia.
Import ListNotations.
From ZV.Conc Require Import Sched SchedLemmas MtModel MtProofs.
From ZV.Conc Require Import MtRing MtRingC MtFrame MtSleep.
Local Open Scope N_scope.

(* ------------------------------------------------------------------ *)
(* hypotheses on the call program: ZSTDMT_initCStream_internal makes targetSectionSize >= targetPrefixSize *)

Definition geo_ops (ops : list cop) : Prop :=
  Forall (fun o => match o with OpInit fp => fp_prefix fp <= fp_target fp | _ => True end) ops.
Definition PgOk (s : state) : Prop :=
  ptarget (mt s) <= target (mt s) /\ fp_prefix (c_fp (cl s)) <= fp_target (c_fp (cl s)) /\ geo_ops (c_ops (cl s)).

(* ------------------------------------------------------------------ *)
(* virtual positions *)

Definition VF (m : mtc) : N := lap m * rcap m + rpos m.                (* the frontier: end of the last source written *)
Definition vs (m : mtc) (j : job) : N := j_lap j * rcap m + j_src j.   (* start of a job's source *)
Definition unfin (j : job) : Prop := j_consumed j < j_size j.
Definition J (cfg : config) (s : state) (i : N) : job := getj s (slot cfg i).

Record JGeo (m : mtc) (j : job) : Prop := mkJG {
  jg_size : j_size j <= target m;
  jg_psz : j_psize j <= ptarget m;
  jg_lap : j_lap j <= lap m;
  jg_room : 0 < j_size j -> j_src j + target m <= rcap m;
  jg_pre : 0 < j_size j -> 0 < j_psize j -> j_pstart j + j_psize j = j_src j;
  jg_hi : 0 < j_size j -> vs m j + j_size j <= VF m;
  jg_cur : 0 < j_size j -> vs m j + psize m <= VF m }.

Record BGeo (cfg : config) (m : mtc) : Prop := mkBG {
  bg_cap : need_cap cfg m <= rcap m;
  bg_t : 0 < target m;
  bg_pt : ptarget m <= target m;
  bg_ps : psize m <= ptarget m;
  bg_pp : 0 < psize m -> pstart m + psize m = rpos m;
  bg_rp : rpos m <= rcap m;
  bg_ih : ihas m = true -> istart m = rpos m /\ rpos m + target m <= rcap m /\ ifill m <= target m;
  bg_nf : ihas m = false -> ifill m = 0;
  bg_end : ended m = true -> ihas m = false }.

Definition live (s : state) (pb : bool) (i : N) : Prop := inflight s i \/ (pb = true /\ i = next (mt s)).

Definition Mono (cfg : config) (s : state) (pb : bool) : Prop :=
  forall i i', live s pb i -> live s pb i' -> i < i' -> 0 < j_size (J cfg s i) -> 0 < j_size (J cfg s i') ->
  vs (mt s) (J cfg s i) + j_psize (J cfg s i') <= vs (mt s) (J cfg s i').

Definition Fweak (cfg : config) (s : state) : Prop :=
  forall i, inflight s i -> unfin (J cfg s i) -> VF (mt s) + j_psize (J cfg s i) <= vs (mt s) (J cfg s i) + rcap (mt s).
Definition Fstrong (cfg : config) (s : state) : Prop :=
  ihas (mt s) = true ->
  forall i, inflight s i -> unfin (J cfg s i) -> VF (mt s) + target (mt s) + j_psize (J cfg s i) <= vs (mt s) (J cfg s i) + rcap (mt s).

(* the job prepared in slot(nextJobID): created in the current lap, its source ends at roundBuff.pos, no input buffer is held *)
Definition PrepGeo (cfg : config) (s : state) : Prop :=
  ihas (mt s) = false /\ j_lap (J cfg s (next (mt s))) = lap (mt s) /\
  (0 < j_size (J cfg s (next (mt s))) -> j_src (J cfg s (next (mt s))) + j_size (J cfg s (next (mt s))) = rpos (mt s)).

(* a source that ended at address e in lap L is continued by job j / by the caller's write position: contiguously, or after the wrap
   (one lap later, right behind the moved prefix, and the old lap ended within targetSectionSize of the end of the buffer) *)
Definition Cont (m : mtc) (L e : N) (j : job) : Prop :=
  (j_lap j = L /\ j_src j = e) \/ (j_lap j = L + 1 /\ j_src j = j_psize j /\ rcap m < e + target m).
Definition ContC (m : mtc) (L e : N) : Prop :=
  (lap m = L /\ rpos m = e) \/ (lap m = L + 1 /\ rpos m = psize m /\ rcap m < e + target m).
Definition jend (j : job) : N := j_src j + j_size j.

(* the sources of consecutive live jobs follow each other; the caller's position follows the newest live job *)
Definition Chain (cfg : config) (s : state) (pb : bool) : Prop :=
  ended (mt s) = false ->
  (forall i, live s pb i -> live s pb (i + 1) -> Cont (mt s) (j_lap (J cfg s i)) (jend (J cfg s i)) (J cfg s (i + 1))) /\
  (forall i, live s pb i -> ~ live s pb (i + 1) -> ContC (mt s) (j_lap (J cfg s i)) (jend (J cfg s i))).

(* the LDM window (serial.ldmState.window) while long-distance matching is on: at most windowSize bytes; either empty (start of the frame,
   or cleared because a failed job broke the history), or: its prefix part lies in some lap Lp and ends where the job whose serial turn comes
   next (serial.nextJobID) - or the caller's write position - continues; its extDict part, if any, is a tail of lap Lp-1 that reaches into
   the last targetSectionSize bytes of the buffer, and then the prefix part starts right behind the moved prefix of lap Lp *)
Definition WG (cfg : config) (s : state) (pb : bool) : Prop :=
  ldm (mt s) = true -> ended (mt s) = false ->
  let '(el, eh, pl, ph) := s_w (sr s) in
  el <= eh /\ pl <= ph /\ (eh - el) + (ph - pl) <= wsize (mt s) /\
  ((el = eh /\ pl = ph) \/
   exists Lp, Lp <= lap (mt s) /\ ph <= rcap (mt s) /\
     (el < eh -> 1 <= Lp /\ eh <= rcap (mt s) /\ rcap (mt s) < eh + target (mt s) /\ pl <= ptarget (mt s)) /\
     (live s pb (s_next (sr s)) -> Cont (mt s) Lp ph (J cfg s (s_next (sr s)))) /\
     (pb = false -> s_next (sr s) = next (mt s) -> ContC (mt s) Lp ph)).

(* facts about the serial state that hold in every reachable state: the published copy of the LDM window is the LDM window (with the
   repair of finding C11-ldm-wait-after-worker-error); serial.nextJobID never runs ahead of nextJobID (with the repair of finding
   C11-serial-turn-skipped-after-error).  The one exception: while ZSTDMT_initCStream_internal stands at ZSTDMT_setNbSeq, nextJobID is already 0
   and serial.nextJobID of a frame without LDM is not yet (ZSTDMT_serialState_reset resets it after that call since fix 97c340a); no pool
   thread holds a job at that point (mt_release_only_when_idle) *)
Definition SrOk (s : state) : Prop :=
  s_lw (sr s) = s_w (sr s) /\ (s_next (sr s) <= next (mt s) \/ (c_pc (cl s) = CInitSeq /\ ldm (mt s) = false)).

Record GM (cfg : config) (s : state) (pb : bool) : Prop := mkGM {
  gm_b : BGeo cfg (mt s);
  gm_j : forall i, live s pb i -> JGeo (mt s) (J cfg s i);
  gm_mono : Mono cfg s pb;
  gm_fw : Fweak cfg s;
  gm_fs : Fstrong cfg s;
  gm_prep : pb = true -> PrepGeo cfg s;
  gm_ne : ended (mt s) = false -> forall i, live s pb i -> 0 < j_size (J cfg s i);
  gm_chain : Chain cfg s pb;
  gm_win : WG cfg s pb;
  (* the input buffer held by the caller does not overlap the LDM window *)
  gm_wfree : ldm (mt s) = true -> ihas (mt s) = true -> overlap_win (istart (mt s), target (mt s)) (s_w (sr s)) = false }.

(* what ZSTDMT_getInputDataInUse has established so far *)
Definition ScanTo (cfg : config) (s : state) (k : N) : Prop := forall i, inflight s i -> i < k -> ~ unfin (J cfg s i).
Definition use_of (j : job) : N * N := if j_psize j =? 0 then (j_src j, j_size j) else (j_pstart j, j_psize j).
Definition UseOk (cfg : config) (s : state) (use : N * N) : Prop :=
  (snd use = 0 /\ forall i, inflight s i -> ~ unfin (J cfg s i)) \/
  (exists d, inflight s d /\ ScanTo cfg s d /\ 0 < j_size (J cfg s d) /\ use = use_of (J cfg s d) /\
             VF (mt s) + j_psize (J cfg s d) <= vs (mt s) (J cfg s d) + rcap (mt s)).

Definition pbof (s : state) : bool :=
  ready (mt s) || match awake (c_pc (cl s)) with CTryAdd | CGetBuf => true | _ => false end.

Definition PcGeo (cfg : config) (s : state) : Prop :=
  match awake (c_pc (cl s)) with
  | CInUse k => ihas (mt s) = false /\ ready (mt s) = false /\ (done (mt s) <= k /\ k < next (mt s)) /\ ScanTo cfg s k
  | CLdm1 => ihas (mt s) = false /\ ready (mt s) = false /\ UseOk cfg s (c_use (cl s)) /\
             (rcap (mt s) - rpos (mt s) < target (mt s) /\ ldm (mt s) = true) /\ overlap (0, psize (mt s)) (c_use (cl s)) = false
  | CLdm2 => ihas (mt s) = false /\ ready (mt s) = false /\ UseOk cfg s (c_use (cl s)) /\
             (target (mt s) <= rcap (mt s) - rpos (mt s) /\ ldm (mt s) = true) /\ overlap (rpos (mt s), target (mt s)) (c_use (cl s)) = false
  | _ => True
  end.

(* the invariant: while a frame is open and the caller is not waiting for / releasing the jobs of an abandoned frame *)
(* between ZSTDMT_setBufferSize and ZSTDMT_setNbSeq of ZSTDMT_initCStream_internal: everything is reset but the LDM window (LDM frames),
   resp. but serial.nextJobID (frames without LDM: ZSTDMT_serialState_reset calls ZSTDMT_setNbSeq first since fix 97c340a) *)
Definition Fresh (cfg : config) (s : state) : Prop :=
  done (mt s) = 0 /\ next (mt s) = 0 /\ ready (mt s) = false /\ ended (mt s) = false /\ rpos (mt s) = 0 /\ ihas (mt s) = false /\ ifill (mt s) = 0 /\
  psize (mt s) = 0 /\ need_cap cfg (mt s) <= rcap (mt s) /\ (ldm (mt s) = true -> s_next (sr s) = 0).

Definition GInv (cfg : config) (s : state) : Prop :=
  PgOk s /\
  (alldone (mt s) = false -> relphase (awake (c_pc (cl s))) = false ->
   match awake (c_pc (cl s)) with CInitSeq => Fresh cfg s | _ => GM cfg s (pbof s) /\ PcGeo cfg s end).

(* the invariant in the middle of the caller's code *)
Definition GMr (cfg : config) (s : state) : Prop := alldone (mt s) = false -> GM cfg s (ready (mt s)).

(* ------------------------------------------------------------------ *)
(* arithmetic *)

Lemma overlap_false a b : overlap a b = false <-> (snd a = 0 \/ snd b = 0 \/ fst b + snd b <= fst a \/ fst a + snd a <= fst b).
Proof.
  unfold overlap. destruct (snd a =? 0) eqn:Ea; [apply N.eqb_eq in Ea; cbn; tauto|].
  destruct (snd b =? 0) eqn:Eb; [apply N.eqb_eq in Eb; cbn; tauto|]. cbn [orb].
  apply N.eqb_neq in Ea. apply N.eqb_neq in Eb.
  rewrite andb_false_iff, !N.ltb_ge. split; [intros [H|H]; auto|intros [H|[H|[H|H]]]; auto; contradiction].
Qed.

Lemma overlap_true a b : overlap a b = true -> 0 < snd a /\ 0 < snd b /\ fst a < fst b + snd b /\ fst b < fst a + snd a.
Proof.
  unfold overlap. destruct (snd a =? 0) eqn:Ea; [discriminate|]. destruct (snd b =? 0) eqn:Eb; [discriminate|]. cbn [orb].
  apply N.eqb_neq in Ea. apply N.eqb_neq in Eb. rewrite andb_true_iff, !N.ltb_lt. intros (A & B). repeat split; auto; lia.
Qed.

Lemma cap_bounds cfg m : BGeo cfg m -> 2 * target m + ptarget m <= rcap m /\ wsize m + 2 * target m + ptarget m <= rcap m.
Proof.
  intros [Hc Ht Hpt _ _ _ _ _ _]. unfold need_cap in Hc.
  destruct (0 <? ptarget m) eqn:E; [apply N.ltb_lt in E|apply N.ltb_ge in E]; nia.
Qed.

Lemma vf_lap m : VF m <= (lap m + 1) * rcap m \/ rcap m < rpos m.
Proof. unfold VF. destruct (N.le_gt_cases (rpos m) (rcap m)); [left; nia|right; auto]. Qed.

(* the prefix of a non-empty job lies below its source *)
Lemma jgeo_psrc m j : JGeo m j -> 0 < j_size j -> j_psize j <= j_src j.
Proof. intros G H. destruct (N.eq_dec (j_psize j) 0) as [E|E]; [lia|]. pose proof (jg_pre _ _ G H ltac:(lia)). lia. Qed.

Lemma use_of_spec m j : JGeo m j -> 0 < j_size j -> fst (use_of j) + j_psize j = j_src j /\ 0 < snd (use_of j).
Proof.
  intros G H. unfold use_of. destruct (j_psize j =? 0) eqn:E; cbn [fst snd].
  - apply N.eqb_eq in E. lia.
  - apply N.eqb_neq in E. pose proof (jg_pre _ _ G H ltac:(lia)). lia.
Qed.

(* the range test against the oldest unfinished job decides for all of them: key inequality for job d *)
Lemma use_key_handout m j use :
  JGeo m j -> 0 < j_size j -> use = use_of j ->
  VF m + j_psize j <= vs m j + rcap m ->           (* the frontier has not lapped job d *)
  rpos m + target m <= rcap m -> overlap (rpos m, target m) use = false -> 0 < target m ->
  VF m + target m + j_psize j <= vs m j + rcap m.
Proof.
  intros G Hs -> Hf Hr Ho Ht. destruct (use_of_spec m j G Hs) as (Hu & Hn).
  apply overlap_false in Ho. cbn [fst snd] in Ho.
  pose proof (jg_lap _ _ G) as Hl. pose proof (jg_room _ _ G Hs) as Hroom. unfold VF, vs in *.
  assert (Hk : exists k, lap m = j_lap j + k) by (exists (lap m - j_lap j); lia). destruct Hk as (k & Ek). rewrite Ek in *.
  destruct (N.eq_dec k 0) as [->|Hk0]; [nia|].
  destruct (N.eq_dec k 1) as [->|Hk1].
  - assert (rpos m + j_psize j <= j_src j) by nia.
    destruct Ho as [?|[?|[?|?]]]; try lia; nia.
  - assert (2 <= k) by lia. exfalso. nia.
Qed.

Lemma use_key_wrap m j use :
  JGeo m j -> 0 < j_size j -> use = use_of j ->
  VF m + j_psize j <= vs m j + rcap m ->
  rpos m <= rcap m -> rcap m - rpos m < target m -> overlap (0, psize m) use = false ->
  (lap m + 1) * rcap m + psize m + j_psize j <= vs m j + rcap m.
Proof.
  intros G Hs -> Hf Hr Hw Ho. destruct (use_of_spec m j G Hs) as (Hu & Hn).
  apply overlap_false in Ho. cbn [fst snd] in Ho.
  pose proof (jg_lap _ _ G) as Hl. pose proof (jg_room _ _ G Hs) as Hroom. unfold VF, vs in *.
  assert (Hk : exists k, lap m = j_lap j + k) by (exists (lap m - j_lap j); lia). destruct Hk as (k & Ek). rewrite Ek in *.
  destruct (N.eq_dec k 0) as [->|Hk0].
  - destruct Ho as [?|[?|[?|?]]]; try lia; nia.
  - exfalso. assert (1 <= k) by lia. nia.
Qed.

(* ------------------------------------------------------------------ *)
(* extensionality: GM reads the geometric fields of the jobs and of the mtctx *)

Definition jgf (j : job) : N * N * N * N * N * N := (j_src j, j_size j, j_pstart j, j_psize j, j_consumed j, j_lap j).

Lemma jgf_fields j j' : jgf j' = jgf j ->
  j_src j' = j_src j /\ j_size j' = j_size j /\ j_pstart j' = j_pstart j /\ j_psize j' = j_psize j /\ j_consumed j' = j_consumed j /\ j_lap j' = j_lap j.
Proof. unfold jgf. intros H. inversion H. repeat split; reflexivity. Qed.

Lemma jgeo_ext m m' j j' :
  jgf j' = jgf j -> target m' = target m -> ptarget m' = ptarget m -> rcap m' = rcap m -> lap m' = lap m -> rpos m' = rpos m -> psize m' = psize m ->
  JGeo m j -> JGeo m' j'.
Proof.
  intros E Ht Hp Hc Hl Hr Hs [A B C D F G H]. apply jgf_fields in E. destruct E as (E1 & E2 & E3 & E4 & E5 & E6).
  constructor; unfold VF, vs in *; rewrite ?E1, ?E2, ?E3, ?E4, ?E6, ?Ht, ?Hp, ?Hc, ?Hl, ?Hr, ?Hs; auto.
Qed.

Definition mgf (m : mtc) := (done m, next m, ended m, rpos m, rcap m, (ihas m, istart m, ifill m), (pstart m, psize m), (target m, ptarget m, wsize m), lap m, ldm m).

Lemma mgf_fields m m' : mgf m' = mgf m ->
  done m' = done m /\ next m' = next m /\ ended m' = ended m /\ rpos m' = rpos m /\ rcap m' = rcap m /\ ihas m' = ihas m /\ istart m' = istart m /\
  ifill m' = ifill m /\ pstart m' = pstart m /\ psize m' = psize m /\ target m' = target m /\ ptarget m' = ptarget m /\ wsize m' = wsize m /\ lap m' = lap m /\
  ldm m' = ldm m.
Proof. unfold mgf. intros H. inversion H. repeat split; (reflexivity || assumption). Qed.

Lemma cont_ext m m' L e j j' :
  rcap m' = rcap m -> target m' = target m -> j_lap j' = j_lap j -> j_src j' = j_src j -> j_psize j' = j_psize j ->
  Cont m L e j -> Cont m' L e j'.
Proof. intros A B C D E. unfold Cont. rewrite A, B, C, D, E. auto. Qed.

Lemma contc_ext m m' L e :
  lap m' = lap m -> rpos m' = rpos m -> psize m' = psize m -> rcap m' = rcap m -> target m' = target m -> ContC m L e -> ContC m' L e.
Proof. intros A B C D E. unfold ContC. rewrite A, B, C, D, E. auto. Qed.

(* Chain and WG read: the live set, ended/ldm, lap/rpos/psize/rcap/target/ptarget/wsize/next of the mtctx, lap/src/size/psize of the live
   jobs, serial.nextJobID and the LDM window; fewer live jobs (doneJobID moved on) are fine *)
Lemma chain_ext cfg s s' pb :
  (forall i, live s' pb i -> live s pb i) -> (forall i, live s' pb i -> ~ live s' pb (i + 1) -> ~ live s pb (i + 1)) ->
  ended (mt s') = ended (mt s) -> lap (mt s') = lap (mt s) -> rpos (mt s') = rpos (mt s) -> psize (mt s') = psize (mt s) ->
  rcap (mt s') = rcap (mt s) -> target (mt s') = target (mt s) ->
  (forall i, live s pb i -> j_lap (J cfg s' i) = j_lap (J cfg s i) /\ j_src (J cfg s' i) = j_src (J cfg s i) /\
                            j_size (J cfg s' i) = j_size (J cfg s i) /\ j_psize (J cfg s' i) = j_psize (J cfg s i)) ->
  Chain cfg s pb -> Chain cfg s' pb.
Proof.
  intros Hl Hn Ee El Er Ep Ec Et Hj C. unfold Chain in *. rewrite Ee. intros He. destruct (C He) as (C1 & C2). split.
  - intros i Hi Hi'. pose proof (Hl _ Hi) as Li. pose proof (Hl _ Hi') as Li'.
    destruct (Hj i Li) as (A1 & A2 & A3 & A4). destruct (Hj (i + 1) Li') as (B1 & B2 & B3 & B4).
    unfold jend. rewrite A1, A2, A3. eapply cont_ext; [exact Ec|exact Et|exact B1|exact B2|exact B4|]. apply C1; auto.
  - intros i Hi Hn'. pose proof (Hl _ Hi) as Li. destruct (Hj i Li) as (A1 & A2 & A3 & A4).
    unfold jend. rewrite A1, A2, A3. eapply contc_ext; [exact El|exact Er|exact Ep|exact Ec|exact Et|]. apply C2; auto.
Qed.

Lemma wg_ext cfg s s' pb :
  (forall i, live s' pb i -> live s pb i) ->
  ended (mt s') = ended (mt s) -> ldm (mt s') = ldm (mt s) -> lap (mt s') = lap (mt s) -> rpos (mt s') = rpos (mt s) -> psize (mt s') = psize (mt s) ->
  rcap (mt s') = rcap (mt s) -> target (mt s') = target (mt s) -> ptarget (mt s') = ptarget (mt s) -> wsize (mt s') = wsize (mt s) ->
  next (mt s') = next (mt s) -> s_next (sr s') = s_next (sr s) -> s_w (sr s') = s_w (sr s) ->
  (forall i, live s pb i -> j_lap (J cfg s' i) = j_lap (J cfg s i) /\ j_src (J cfg s' i) = j_src (J cfg s i) /\
                            j_size (J cfg s' i) = j_size (J cfg s i) /\ j_psize (J cfg s' i) = j_psize (J cfg s i)) ->
  WG cfg s pb -> WG cfg s' pb.
Proof.
  intros Hl Ee Eld El Er Ep Ec Et Ept Ew En Esn Esw Hj W. unfold WG in *. rewrite Ee, Eld, Esw, Ew, El, Ec, Et, Ept, Esn, En.
  intros H1 H2. specialize (W H1 H2). destruct (s_w (sr s)) as [[[el eh] pl] ph].
  destruct W as (W1 & W2 & W3 & W4). split; [exact W1|]. split; [exact W2|]. split; [exact W3|].
  destruct W4 as [W4|(Lp & L1 & L2 & L3 & L4 & L5)]; [left; exact W4|right]. exists Lp. split; [exact L1|]. split; [exact L2|]. split; [exact L3|]. split.
  - intros Hi. pose proof (Hl _ Hi) as Li. destruct (Hj _ Li) as (B1 & B2 & B3 & B4).
    eapply cont_ext; [exact Ec|exact Et|exact B1|exact B2|exact B4|]. apply L4; auto.
  - intros Hp Hx. eapply contc_ext; [exact El|exact Er|exact Ep|exact Ec|exact Et|]. apply L5; auto.
Qed.

Lemma gm_ext cfg s s' pb :
  mgf (mt s') = mgf (mt s) -> sr s' = sr s -> (forall k, jgf (getj s' k) = jgf (getj s k)) -> GM cfg s pb -> GM cfg s' pb.
Proof.
  intros Hm Hsr Hj [B Jg Mo Fw Fs Pr Ne Ch Wn Wf]. apply mgf_fields in Hm. destruct Hm as (Ed & En & Ee & Er & Ec & Ei & Eis & Eif & Eps & Epz & Et & Ept & Ew & El & Eld).
  assert (Hin : forall i, inflight s' i <-> inflight s i) by (intros; unfold inflight; rewrite Ed, En; tauto).
  assert (Hlv : forall i, live s' pb i <-> live s pb i) by (intros; unfold live; rewrite Hin, En; tauto).
  assert (Hf : forall i, let j := J cfg s i in let j' := J cfg s' i in
            j_src j' = j_src j /\ j_size j' = j_size j /\ j_pstart j' = j_pstart j /\ j_psize j' = j_psize j /\ j_consumed j' = j_consumed j /\ j_lap j' = j_lap j)
    by (intros i; apply jgf_fields; apply Hj).
  assert (Hvs : forall i, vs (mt s') (J cfg s' i) = vs (mt s) (J cfg s i)).
  { intros i. destruct (Hf i) as (E1 & _ & _ & _ & _ & E6). unfold vs. rewrite E1, E6, Ec. reflexivity. }
  assert (Hvf : VF (mt s') = VF (mt s)) by (unfold VF; rewrite El, Ec, Er; reflexivity).
  constructor.
  - destruct B as [b1 b2 b3 b4 b5 b6 b7 b8 b9]. constructor; rewrite ?Ec, ?Et, ?Ept, ?Epz, ?Eps, ?Er, ?Ei, ?Eis, ?Eif, ?Ee; auto.
    unfold need_cap in *. rewrite Ew, Et, Ept. exact b1.
  - intros i Hi. apply Hlv in Hi. eapply jgeo_ext; [apply Hj|..|apply Jg; exact Hi]; auto.
  - intros i i' Hi Hi' Hlt. apply Hlv in Hi. apply Hlv in Hi'. destruct (Hf i) as (_ & E2 & _). destruct (Hf i') as (_ & E2' & _ & E4' & _).
    rewrite !Hvs, E2, E2', E4'. apply Mo; auto.
  - intros i Hi. apply Hin in Hi. destruct (Hf i) as (_ & E2 & _ & E4 & E5 & _). unfold unfin. rewrite Hvs, Hvf, E2, E4, E5, Ec. apply Fw; auto.
  - unfold Fstrong. rewrite Ei. intros Hh i Hi. apply Hin in Hi. destruct (Hf i) as (_ & E2 & _ & E4 & E5 & _). unfold unfin. rewrite Hvs, Hvf, E2, E4, E5, Ec, Et. apply Fs; auto.
  - intros Hp. destruct (Pr Hp) as (P1 & P2 & P3). unfold PrepGeo. rewrite En, Ei, El, Er. destruct (Hf (next (mt s))) as (E1 & E2 & _ & _ & _ & E6).
    rewrite E1, E2, E6. auto.
  - rewrite Ee. intros He i Hi. apply Hlv in Hi. destruct (Hf i) as (_ & E2 & _). rewrite E2. apply Ne; auto.
  - eapply chain_ext; [..|exact Ch]; auto.
    + intros i Hi. apply Hlv; auto.
    + intros i Hi Hn X. apply Hn. apply Hlv; auto.
    + intros i _. destruct (Hf i) as (E1 & E2 & _ & E4 & _ & E6). auto.
  - eapply wg_ext; [..|exact Wn]; auto; try (rewrite Hsr; reflexivity).
    + intros i Hi. apply Hlv; auto.
    + intros i _. destruct (Hf i) as (E1 & E2 & _ & E4 & _ & E6). auto.
  - rewrite Eld, Ei, Eis, Et, Hsr. exact Wf.
Qed.

Lemma scanto_ext cfg s s' k :
  done (mt s') = done (mt s) -> next (mt s') = next (mt s) -> (forall k, jgf (getj s' k) = jgf (getj s k)) -> ScanTo cfg s k -> ScanTo cfg s' k.
Proof.
  intros Ed En Hj H i Hi Hlt. unfold inflight in Hi. rewrite Ed, En in Hi. specialize (H i Hi Hlt).
  destruct (jgf_fields _ _ (Hj (slot cfg i))) as (_ & E2 & _ & _ & E5 & _). unfold unfin, J in *. rewrite E2, E5. exact H.
Qed.

Lemma useok_ext cfg s s' use :
  mgf (mt s') = mgf (mt s) -> (forall k, jgf (getj s' k) = jgf (getj s k)) -> UseOk cfg s use -> UseOk cfg s' use.
Proof.
  intros Hm Hj U. apply mgf_fields in Hm. destruct Hm as (Ed & En & Ee & Er & Ec & Ei & Eis & Eif & Eps & Epz & Et & Ept & Ew & El & Eld).
  assert (Hin : forall i, inflight s' i <-> inflight s i) by (intros; unfold inflight; rewrite Ed, En; tauto).
  destruct U as [(U1 & U2)|(d & Hd & Sc & Sz & Eu & Fd)].
  - left. split; auto. intros i Hi. apply Hin in Hi. specialize (U2 i Hi).
    destruct (jgf_fields _ _ (Hj (slot cfg i))) as (_ & E2 & _ & _ & E5 & _). unfold unfin, J in *. rewrite E2, E5. exact U2.
  - right. exists d. destruct (jgf_fields _ _ (Hj (slot cfg d))) as (E1 & E2 & E3 & E4 & E5 & E6).
    split; [apply Hin; auto|]. split; [eapply scanto_ext; eauto|]. unfold J in *. rewrite E2.
    split; auto. split; [unfold use_of; rewrite E1, E2, E3, E4; exact Eu|].
    unfold VF, vs. rewrite El, Ec, Er, E4, E1, E6. exact Fd.
Qed.

(* ------------------------------------------------------------------ *)
(* ZSTD_window_update / enforceMaxDist / clear on addresses *)

Lemma win_update_spec el eh pl ph src size : 0 < size -> el <= eh -> pl <= ph ->
  let '(el', eh', pl', ph') := win_update (el, eh, pl, ph) src size in
  ph' = src + size /\
  ((src = ph /\ eh' = eh /\ pl' = pl /\ el <= el' <= eh) \/ (src <> ph /\ eh' = ph /\ pl' = src /\ pl <= el' <= ph)).
Proof.
  intros Hs H1 H2. unfold win_update. replace (size =? 0) with false by (symmetry; apply N.eqb_neq; lia).
  destruct (src =? ph) eqn:E.
  - apply N.eqb_eq in E. destruct ((el <? src + size) && (src <? eh)) eqn:X; (split; [reflexivity|left; repeat split; auto; try lia]).
    apply andb_prop in X. rewrite !N.ltb_lt in X. lia.
  - apply N.eqb_neq in E. destruct (ph - pl <? 8).
    + destruct ((ph <? src + size) && (src <? ph)) eqn:X; (split; [reflexivity|right; repeat split; auto; try lia]).
      apply andb_prop in X. rewrite !N.ltb_lt in X. lia.
    + destruct ((pl <? src + size) && (src <? ph)) eqn:X; (split; [reflexivity|right; repeat split; auto; try lia]).
      apply andb_prop in X. rewrite !N.ltb_lt in X. lia.
Qed.

Lemma win_cap_spec maxd el eh pl ph : el <= eh -> pl <= ph ->
  let '(el', eh', pl', ph') := win_cap maxd (el, eh, pl, ph) in
  eh' = eh /\ ph' = ph /\ el <= el' <= eh /\ pl <= pl' <= ph /\ (eh' - el') + (ph' - pl') <= maxd /\ (el' < eh' -> pl' = pl).
Proof.
  intros H1 H2. unfold win_cap. destruct ((eh - el) + (ph - pl) <=? maxd) eqn:E.
  - apply N.leb_le in E. repeat split; auto; lia.
  - apply N.leb_gt in E. destruct ((eh - el) + (ph - pl) - maxd <=? eh - el) eqn:E2.
    + apply N.leb_le in E2. repeat split; auto; lia.
    + apply N.leb_gt in E2. repeat split; auto; lia.
Qed.

(* what the window can overlap after a job's source was added and the window cut *)
Lemma overlap_sub a b b' : overlap a b' = true -> fst b <= fst b' -> fst b' + snd b' <= fst b + snd b -> overlap a b = true.
Proof.
  intros H H1 H2. apply overlap_true in H. destruct H as (A1 & A2 & A3 & A4). unfold overlap.
  replace (snd a =? 0) with false by (symmetry; apply N.eqb_neq; lia). replace (snd b =? 0) with false by (symmetry; apply N.eqb_neq; lia).
  cbn [orb]. apply andb_true_intro. split; apply N.ltb_lt; lia.
Qed.

Lemma overlap_win_serial b maxd el eh pl ph src size :
  0 < size -> el <= eh -> pl <= ph ->
  overlap_win b (win_cap maxd (win_update (el, eh, pl, ph) src size)) = true ->
  overlap_win b (el, eh, pl, ph) = true \/ overlap b (src, size) = true.
Proof.
  intros Hs H1 H2. pose proof (win_update_spec el eh pl ph src size Hs H1 H2) as U.
  destruct (win_update (el, eh, pl, ph) src size) as [[[el1 eh1] pl1] ph1]. destruct U as (U1 & U2).
  assert (U3 : el1 <= eh1 /\ pl1 <= ph1) by (destruct U2 as [(A & B' & C & D)|(A & B' & C & D)]; lia).
  pose proof (win_cap_spec maxd el1 eh1 pl1 ph1 (proj1 U3) (proj2 U3)) as V.
  destruct (win_cap maxd (el1, eh1, pl1, ph1)) as [[[el2 eh2] pl2] ph2]. destruct V as (V1 & V2 & V3 & V4 & V5 & V6).
  unfold overlap_win. intros H. apply orb_prop in H.
  pose proof orb_true_intro as Hor.
  destruct U2 as [(A & B' & C & D)|(A & B' & C & D)]; destruct H as [H|H].
  - left. apply Hor. left. eapply overlap_sub; [exact H|cbn [fst snd]; lia|cbn [fst snd]; lia].
  - (* the prefix part: old prefix followed by the source *)
    apply overlap_true in H. cbn [fst snd] in H. destruct H as (A1 & A2 & A3 & A4).
    destruct (N.ltb (fst b) ph && N.ltb pl ph) eqn:X0; [apply andb_prop in X0; destruct X0 as (X & X'); apply N.ltb_lt in X; apply N.ltb_lt in X'|apply andb_false_iff in X0; rewrite !N.ltb_ge in X0; assert (X : ph <= fst b \/ pl = ph) by lia].
    + left. apply Hor. right. unfold overlap. cbn [fst snd].
      replace (snd b =? 0) with false by (symmetry; apply N.eqb_neq; lia). replace (ph - pl =? 0) with false by (symmetry; apply N.eqb_neq; lia).
      cbn [orb]. apply andb_true_intro. split; apply N.ltb_lt; lia.
    + right. unfold overlap. cbn [fst snd].
      replace (snd b =? 0) with false by (symmetry; apply N.eqb_neq; lia). replace (size =? 0) with false by (symmetry; apply N.eqb_neq; lia).
      cbn [orb]. apply andb_true_intro. split; apply N.ltb_lt; lia.
  - (* the extDict part is a piece of the old prefix part *)
    left. apply Hor. right. eapply overlap_sub; [exact H|cbn [fst snd]; lia|cbn [fst snd]; lia].
  - right. eapply overlap_sub; [exact H|cbn [fst snd]; lia|cbn [fst snd]; lia].
Qed.
