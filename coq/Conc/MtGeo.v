(* C11: geometry of the round input buffer (ZSTDMT_tryGetInputRange / getInputDataInUse / isOverlapped, the prefix move at the wrap).
   Definitions and arithmetic.  Positions are compared through VIRTUAL positions: lap * capacity + offset, where [lap] (ghost) counts the
   wraps of the buffer; a range handed to the caller collides with older data exactly when the older data lies a full capacity or more
   behind the end of the range.

   GM (the invariant of the caller's unsynchronised code, no reference to its pc):
     - BGeo: capacity >= need_cap, prefix inside the buffer and ending at roundBuff.pos, the input buffer is [pos, pos+target);
     - JGeo: every live job (in flight, or prepared in slot(nextJobID)) lies inside the buffer, behind the frontier, its prefix ends at
       its source;
     - Mono: a younger live job (prefix included) starts at or after the start of the source of an older one;
     - Fweak / Fstrong: the frontier (resp. the end of the input buffer being filled) has not lapped an unfinished job in flight. *)
From Coq Require Import List NArith ZArith Bool Arith Lia.
Import ListNotations.
From ZV.Conc Require Import Sched SchedLemmas MtModel MtProofs.
From ZV.Conc Require Import MtRing MtRingC MtFrame MtSleep.
Local Open Scope N_scope.

(* ------------------------------------------------------------------ *)
(* hypotheses on the call program: ZSTDMT_initCStream_internal makes targetSectionSize >= targetPrefixSize *)

Definition geo_ops (ops : list cop) : Prop :=
  Forall (fun o => match o with OpInit fp => fp_prefix fp <= fp_target fp | _ => True end) ops.
Definition PgOk (s : state) : Prop :=
  ptarget (mt s) <= target (mt s) /\ fp_prefix (c_fp (cl s)) <= fp_target (c_fp (cl s)) /\ geo_ops (c_ops (cl s)).

(* ------------------------------------------------------------------ *)
(* virtual positions *)

Definition VF (m : mtc) : N := lap m * rcap m + rpos m.                (* the frontier: end of the last source written *)
Definition vs (m : mtc) (j : job) : N := j_lap j * rcap m + j_src j.   (* start of a job's source *)
Definition unfin (j : job) : Prop := j_consumed j < j_size j.
Definition J (cfg : config) (s : state) (i : N) : job := getj s (slot cfg i).

Record JGeo (m : mtc) (j : job) : Prop := mkJG {
  jg_size : j_size j <= target m;
  jg_psz : j_psize j <= ptarget m;
  jg_lap : j_lap j <= lap m;
  jg_room : 0 < j_size j -> j_src j + target m <= rcap m;
  jg_pre : 0 < j_size j -> 0 < j_psize j -> j_pstart j + j_psize j = j_src j;
  jg_hi : 0 < j_size j -> vs m j + j_size j <= VF m;
  jg_cur : 0 < j_size j -> vs m j + psize m <= VF m }.

Record BGeo (cfg : config) (m : mtc) : Prop := mkBG {
  bg_cap : need_cap cfg m <= rcap m;
  bg_t : 0 < target m;
  bg_pt : ptarget m <= target m;
  bg_ps : psize m <= ptarget m;
  bg_pp : 0 < psize m -> pstart m + psize m = rpos m;
  bg_rp : rpos m <= rcap m;
  bg_ih : ihas m = true -> istart m = rpos m /\ rpos m + target m <= rcap m /\ ifill m <= target m;
  bg_nf : ihas m = false -> ifill m = 0 }.

Definition live (s : state) (pb : bool) (i : N) : Prop := inflight s i \/ (pb = true /\ i = next (mt s)).

Definition Mono (cfg : config) (s : state) (pb : bool) : Prop :=
  forall i i', live s pb i -> live s pb i' -> i < i' -> 0 < j_size (J cfg s i) -> 0 < j_size (J cfg s i') ->
  vs (mt s) (J cfg s i) + j_psize (J cfg s i') <= vs (mt s) (J cfg s i').

Definition Fweak (cfg : config) (s : state) : Prop :=
  forall i, inflight s i -> unfin (J cfg s i) -> VF (mt s) + j_psize (J cfg s i) <= vs (mt s) (J cfg s i) + rcap (mt s).
Definition Fstrong (cfg : config) (s : state) : Prop :=
  ihas (mt s) = true ->
  forall i, inflight s i -> unfin (J cfg s i) -> VF (mt s) + target (mt s) + j_psize (J cfg s i) <= vs (mt s) (J cfg s i) + rcap (mt s).

(* the job prepared in slot(nextJobID): created in the current lap, its source ends at roundBuff.pos, no input buffer is held *)
Definition PrepGeo (cfg : config) (s : state) : Prop :=
  ihas (mt s) = false /\ j_lap (J cfg s (next (mt s))) = lap (mt s) /\
  (0 < j_size (J cfg s (next (mt s))) -> j_src (J cfg s (next (mt s))) + j_size (J cfg s (next (mt s))) = rpos (mt s)).

Record GM (cfg : config) (s : state) (pb : bool) : Prop := mkGM {
  gm_b : BGeo cfg (mt s);
  gm_j : forall i, live s pb i -> JGeo (mt s) (J cfg s i);
  gm_mono : Mono cfg s pb;
  gm_fw : Fweak cfg s;
  gm_fs : Fstrong cfg s;
  gm_prep : pb = true -> PrepGeo cfg s;
  gm_ne : ended (mt s) = false -> forall i, live s pb i -> 0 < j_size (J cfg s i) }.

(* what ZSTDMT_getInputDataInUse has established so far *)
Definition ScanTo (cfg : config) (s : state) (k : N) : Prop := forall i, inflight s i -> i < k -> ~ unfin (J cfg s i).
Definition use_of (j : job) : N * N := if j_psize j =? 0 then (j_src j, j_size j) else (j_pstart j, j_psize j).
Definition UseOk (cfg : config) (s : state) (use : N * N) : Prop :=
  (snd use = 0 /\ forall i, inflight s i -> ~ unfin (J cfg s i)) \/
  (exists d, inflight s d /\ ScanTo cfg s d /\ 0 < j_size (J cfg s d) /\ use = use_of (J cfg s d) /\
             VF (mt s) + j_psize (J cfg s d) <= vs (mt s) (J cfg s d) + rcap (mt s)).

Definition pbof (s : state) : bool :=
  ready (mt s) || match awake (c_pc (cl s)) with CTryAdd | CGetBuf => true | _ => false end.

Definition PcGeo (cfg : config) (s : state) : Prop :=
  match awake (c_pc (cl s)) with
  | CInUse k => ihas (mt s) = false /\ ready (mt s) = false /\ (done (mt s) <= k /\ k < next (mt s)) /\ ScanTo cfg s k
  | CLdm1 => ihas (mt s) = false /\ ready (mt s) = false /\ UseOk cfg s (c_use (cl s)) /\
             rcap (mt s) - rpos (mt s) < target (mt s) /\ overlap (0, psize (mt s)) (c_use (cl s)) = false
  | CLdm2 => ihas (mt s) = false /\ ready (mt s) = false /\ UseOk cfg s (c_use (cl s)) /\
             target (mt s) <= rcap (mt s) - rpos (mt s) /\ overlap (rpos (mt s), target (mt s)) (c_use (cl s)) = false
  | _ => True
  end.

(* the invariant: while a frame is open and the caller is not waiting for / releasing the jobs of an abandoned frame *)
Definition GInv (cfg : config) (s : state) : Prop :=
  PgOk s /\
  (alldone (mt s) = false -> relphase (awake (c_pc (cl s))) = false -> GM cfg s (pbof s) /\ PcGeo cfg s).

(* the invariant in the middle of the caller's code *)
Definition GMr (cfg : config) (s : state) : Prop := alldone (mt s) = false -> GM cfg s (ready (mt s)).

(* ------------------------------------------------------------------ *)
(* arithmetic *)

Lemma overlap_false a b : overlap a b = false <-> (snd a = 0 \/ snd b = 0 \/ fst b + snd b <= fst a \/ fst a + snd a <= fst b).
Proof.
  unfold overlap. destruct (snd a =? 0) eqn:Ea; [apply N.eqb_eq in Ea; cbn; tauto|].
  destruct (snd b =? 0) eqn:Eb; [apply N.eqb_eq in Eb; cbn; tauto|]. cbn [orb].
  apply N.eqb_neq in Ea. apply N.eqb_neq in Eb.
  rewrite andb_false_iff, !N.ltb_ge. split; [intros [H|H]; auto|intros [H|[H|[H|H]]]; auto; contradiction].
Qed.

Lemma overlap_true a b : overlap a b = true -> 0 < snd a /\ 0 < snd b /\ fst a < fst b + snd b /\ fst b < fst a + snd a.
Proof.
  unfold overlap. destruct (snd a =? 0) eqn:Ea; [discriminate|]. destruct (snd b =? 0) eqn:Eb; [discriminate|]. cbn [orb].
  apply N.eqb_neq in Ea. apply N.eqb_neq in Eb. rewrite andb_true_iff, !N.ltb_lt. intros (A & B). repeat split; auto; lia.
Qed.

Lemma cap_bounds cfg m : BGeo cfg m -> 2 * target m + ptarget m <= rcap m /\ wsize m + 2 * target m + ptarget m <= rcap m.
Proof.
  intros [Hc Ht Hpt _ _ _ _ _]. unfold need_cap in Hc.
  destruct (0 <? ptarget m) eqn:E; [apply N.ltb_lt in E|apply N.ltb_ge in E]; nia.
Qed.

Lemma vf_lap m : VF m <= (lap m + 1) * rcap m \/ rcap m < rpos m.
Proof. unfold VF. destruct (N.le_gt_cases (rpos m) (rcap m)); [left; nia|right; auto]. Qed.

(* the prefix of a non-empty job lies below its source *)
Lemma jgeo_psrc m j : JGeo m j -> 0 < j_size j -> j_psize j <= j_src j.
Proof. intros G H. destruct (N.eq_dec (j_psize j) 0) as [E|E]; [lia|]. pose proof (jg_pre _ _ G H ltac:(lia)). lia. Qed.

Lemma use_of_spec m j : JGeo m j -> 0 < j_size j -> fst (use_of j) + j_psize j = j_src j /\ 0 < snd (use_of j).
Proof.
  intros G H. unfold use_of. destruct (j_psize j =? 0) eqn:E; cbn [fst snd].
  - apply N.eqb_eq in E. lia.
  - apply N.eqb_neq in E. pose proof (jg_pre _ _ G H ltac:(lia)). lia.
Qed.

(* the range test against the oldest unfinished job decides for all of them: key inequality for job d *)
Lemma use_key_handout m j use :
  JGeo m j -> 0 < j_size j -> use = use_of j ->
  VF m + j_psize j <= vs m j + rcap m ->           (* the frontier has not lapped job d *)
  rpos m + target m <= rcap m -> overlap (rpos m, target m) use = false -> 0 < target m ->
  VF m + target m + j_psize j <= vs m j + rcap m.
Proof.
  intros G Hs -> Hf Hr Ho Ht. destruct (use_of_spec m j G Hs) as (Hu & Hn).
  apply overlap_false in Ho. cbn [fst snd] in Ho.
  pose proof (jg_lap _ _ G) as Hl. pose proof (jg_room _ _ G Hs) as Hroom. unfold VF, vs in *.
  assert (Hk : exists k, lap m = j_lap j + k) by (exists (lap m - j_lap j); lia). destruct Hk as (k & Ek). rewrite Ek in *.
  destruct (N.eq_dec k 0) as [->|Hk0]; [nia|].
  destruct (N.eq_dec k 1) as [->|Hk1].
  - assert (rpos m + j_psize j <= j_src j) by nia.
    destruct Ho as [?|[?|[?|?]]]; try lia; nia.
  - assert (2 <= k) by lia. exfalso. nia.
Qed.

Lemma use_key_wrap m j use :
  JGeo m j -> 0 < j_size j -> use = use_of j ->
  VF m + j_psize j <= vs m j + rcap m ->
  rpos m <= rcap m -> rcap m - rpos m < target m -> overlap (0, psize m) use = false ->
  (lap m + 1) * rcap m + psize m + j_psize j <= vs m j + rcap m.
Proof.
  intros G Hs -> Hf Hr Hw Ho. destruct (use_of_spec m j G Hs) as (Hu & Hn).
  apply overlap_false in Ho. cbn [fst snd] in Ho.
  pose proof (jg_lap _ _ G) as Hl. pose proof (jg_room _ _ G Hs) as Hroom. unfold VF, vs in *.
  assert (Hk : exists k, lap m = j_lap j + k) by (exists (lap m - j_lap j); lia). destruct Hk as (k & Ek). rewrite Ek in *.
  destruct (N.eq_dec k 0) as [->|Hk0].
  - destruct Ho as [?|[?|[?|?]]]; try lia; nia.
  - exfalso. assert (1 <= k) by lia. nia.
Qed.

(* ------------------------------------------------------------------ *)
(* extensionality: GM reads the geometric fields of the jobs and of the mtctx *)

Definition jgf (j : job) : N * N * N * N * N * N := (j_src j, j_size j, j_pstart j, j_psize j, j_consumed j, j_lap j).

Lemma jgf_fields j j' : jgf j' = jgf j ->
  j_src j' = j_src j /\ j_size j' = j_size j /\ j_pstart j' = j_pstart j /\ j_psize j' = j_psize j /\ j_consumed j' = j_consumed j /\ j_lap j' = j_lap j.
Proof. unfold jgf. intros H. inversion H. repeat split; reflexivity. Qed.

Lemma jgeo_ext m m' j j' :
  jgf j' = jgf j -> target m' = target m -> ptarget m' = ptarget m -> rcap m' = rcap m -> lap m' = lap m -> rpos m' = rpos m -> psize m' = psize m ->
  JGeo m j -> JGeo m' j'.
Proof.
  intros E Ht Hp Hc Hl Hr Hs [A B C D F G H]. apply jgf_fields in E. destruct E as (E1 & E2 & E3 & E4 & E5 & E6).
  constructor; unfold VF, vs in *; rewrite ?E1, ?E2, ?E3, ?E4, ?E6, ?Ht, ?Hp, ?Hc, ?Hl, ?Hr, ?Hs; auto.
Qed.

Definition mgf (m : mtc) := (done m, next m, ended m, rpos m, rcap m, (ihas m, istart m, ifill m), (pstart m, psize m), (target m, ptarget m, wsize m), lap m).

Lemma mgf_fields m m' : mgf m' = mgf m ->
  done m' = done m /\ next m' = next m /\ ended m' = ended m /\ rpos m' = rpos m /\ rcap m' = rcap m /\ ihas m' = ihas m /\ istart m' = istart m /\
  ifill m' = ifill m /\ pstart m' = pstart m /\ psize m' = psize m /\ target m' = target m /\ ptarget m' = ptarget m /\ wsize m' = wsize m /\ lap m' = lap m.
Proof. unfold mgf. intros H. inversion H. repeat split; (reflexivity || assumption). Qed.

Lemma gm_ext cfg s s' pb :
  mgf (mt s') = mgf (mt s) -> (forall k, jgf (getj s' k) = jgf (getj s k)) -> GM cfg s pb -> GM cfg s' pb.
Proof.
  intros Hm Hj [B Jg Mo Fw Fs Pr Ne]. apply mgf_fields in Hm. destruct Hm as (Ed & En & Ee & Er & Ec & Ei & Eis & Eif & Eps & Epz & Et & Ept & Ew & El).
  assert (Hin : forall i, inflight s' i <-> inflight s i) by (intros; unfold inflight; rewrite Ed, En; tauto).
  assert (Hlv : forall i, live s' pb i <-> live s pb i) by (intros; unfold live; rewrite Hin, En; tauto).
  assert (Hf : forall i, let j := J cfg s i in let j' := J cfg s' i in
            j_src j' = j_src j /\ j_size j' = j_size j /\ j_pstart j' = j_pstart j /\ j_psize j' = j_psize j /\ j_consumed j' = j_consumed j /\ j_lap j' = j_lap j)
    by (intros i; apply jgf_fields; apply Hj).
  assert (Hvs : forall i, vs (mt s') (J cfg s' i) = vs (mt s) (J cfg s i)).
  { intros i. destruct (Hf i) as (E1 & _ & _ & _ & _ & E6). unfold vs. rewrite E1, E6, Ec. reflexivity. }
  assert (Hvf : VF (mt s') = VF (mt s)) by (unfold VF; rewrite El, Ec, Er; reflexivity).
  constructor.
  - destruct B as [b1 b2 b3 b4 b5 b6 b7 b8]. constructor; rewrite ?Ec, ?Et, ?Ept, ?Epz, ?Eps, ?Er, ?Ei, ?Eis, ?Eif; auto.
    unfold need_cap in *. rewrite Ew, Et, Ept. exact b1.
  - intros i Hi. apply Hlv in Hi. eapply jgeo_ext; [apply Hj|..|apply Jg; exact Hi]; auto.
  - intros i i' Hi Hi' Hlt. apply Hlv in Hi. apply Hlv in Hi'. destruct (Hf i) as (_ & E2 & _). destruct (Hf i') as (_ & E2' & _ & E4' & _).
    rewrite !Hvs, E2, E2', E4'. apply Mo; auto.
  - intros i Hi. apply Hin in Hi. destruct (Hf i) as (_ & E2 & _ & E4 & E5 & _). unfold unfin. rewrite Hvs, Hvf, E2, E4, E5, Ec. apply Fw; auto.
  - unfold Fstrong. rewrite Ei. intros Hh i Hi. apply Hin in Hi. destruct (Hf i) as (_ & E2 & _ & E4 & E5 & _). unfold unfin. rewrite Hvs, Hvf, E2, E4, E5, Ec, Et. apply Fs; auto.
  - intros Hp. destruct (Pr Hp) as (P1 & P2 & P3). unfold PrepGeo. rewrite En, Ei, El, Er. destruct (Hf (next (mt s))) as (E1 & E2 & _ & _ & _ & E6).
    rewrite E1, E2, E6. auto.
  - rewrite Ee. intros He i Hi. apply Hlv in Hi. destruct (Hf i) as (_ & E2 & _). rewrite E2. apply Ne; auto.
Qed.

Lemma scanto_ext cfg s s' k :
  done (mt s') = done (mt s) -> next (mt s') = next (mt s) -> (forall k, jgf (getj s' k) = jgf (getj s k)) -> ScanTo cfg s k -> ScanTo cfg s' k.
Proof.
  intros Ed En Hj H i Hi Hlt. unfold inflight in Hi. rewrite Ed, En in Hi. specialize (H i Hi Hlt).
  destruct (jgf_fields _ _ (Hj (slot cfg i))) as (_ & E2 & _ & _ & E5 & _). unfold unfin, J in *. rewrite E2, E5. exact H.
Qed.

Lemma useok_ext cfg s s' use :
  mgf (mt s') = mgf (mt s) -> (forall k, jgf (getj s' k) = jgf (getj s k)) -> UseOk cfg s use -> UseOk cfg s' use.
Proof.
  intros Hm Hj U. apply mgf_fields in Hm. destruct Hm as (Ed & En & Ee & Er & Ec & Ei & Eis & Eif & Eps & Epz & Et & Ept & Ew & El).
  assert (Hin : forall i, inflight s' i <-> inflight s i) by (intros; unfold inflight; rewrite Ed, En; tauto).
  destruct U as [(U1 & U2)|(d & Hd & Sc & Sz & Eu & Fd)].
  - left. split; auto. intros i Hi. apply Hin in Hi. specialize (U2 i Hi).
    destruct (jgf_fields _ _ (Hj (slot cfg i))) as (_ & E2 & _ & _ & E5 & _). unfold unfin, J in *. rewrite E2, E5. exact U2.
  - right. exists d. destruct (jgf_fields _ _ (Hj (slot cfg d))) as (E1 & E2 & E3 & E4 & E5 & E6).
    split; [apply Hin; auto|]. split; [eapply scanto_ext; eauto|]. unfold J in *. rewrite E2.
    split; auto. split; [unfold use_of; rewrite E1, E2, E3, E4; exact Eu|].
    unfold VF, vs. rewrite El, Ec, Er, E4, E1, E6. exact Fd.
Qed.
