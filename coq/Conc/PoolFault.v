(* C12, round 2: allocation / pthread_create failure inside POOL_resize (lib/common/pool.c, POOL_resize_internal).
   The failure point is the wake choice [w] of the resize step ([created] in PoolModel.v), so every theorem stated over
   all schedules holds for every failure point too.  This file: what a failed / successful growing resize does (frame
   lemmas), [created] arithmetic, threadCapacity = number of worker threads in every reachable state, and witnesses. *)
From Coq Require Import List Arith Bool Lia.
Import ListNotations.
From ZV.Conc Require Import Sched PoolModel PoolLemmas PoolInvDefs PoolInv1 PoolInv2 PoolInv3 PoolInv4 PoolInv5 PoolInv6 PoolSafety PoolTheorems PoolLive.

Lemma created_alloc_fails d : created 1 d = 0.
Proof. reflexivity. Qed.
Lemma created_kth_fails k d : k < d -> created (S (S k)) d = k.
Proof. intros H. unfold created. replace (S k - 1) with k by lia. apply Nat.min_l. lia. Qed.
Lemma created_beyond k d : d <= k -> created (S (S k)) d = d.
Proof. intros H. unfold created. replace (S k - 1) with k by lia. apply Nat.min_r. lia. Qed.
(* a failure strikes exactly when the failure point lies within the calls the resize makes *)
Lemma created_lt_iff w d : created w d < d <-> (w = 1 /\ 0 < d) \/ (exists k, w = S (S k) /\ k < d).
Proof.
  destruct w as [|[|k]]; unfold created.
  - split; [lia|]. intros [[H _]|(k & H & _)]; discriminate.
  - cbn. split; [intros H; left; split; [reflexivity|lia]|]. intros [[_ H]|(k & H & _)]; [lia|discriminate].
  - replace (S k - 1) with k by lia. split.
    + intros H. right. exists k. split; [reflexivity|]. destruct (Nat.min_spec k d) as [[H1 H2]|[H1 H2]]; lia.
    + intros [[H _]|(k' & H & Hk)]; [discriminate|]. inversion H; subst k'. rewrite Nat.min_l; lia.
Qed.

(* POOL_resize(n), n > threadCapacity, in which the allocation of the thread array or the (m+1)-th pthread_create fails:
   exactly the m threads that were created are recorded (threadCapacity grows by m: POOL_free will join them), threadLimit and
   every other field are untouched, no job is lost, the new workers stand at the top of POOL_thread, and the resizer goes on to
   its broadcast holding the mutex *)
Lemma resize_failure_frame cfg tid w s s' th n :
  step cfg tid w s = Some s' -> nth_error (st s) tid = Some th -> t_pc th = RLock n -> cap (sp s) < n ->
  created w (n - cap (sp s)) < n - cap (sp s) ->
  let m := created w (n - cap (sp s)) in
  sp s' = set_cap (cap (sp s) + m) (set_owner (Some tid) (sp s)) /\ sg s' = sg s /\
  st s' = upd tid (set_pc RBcast th) (st s) ++ repeat new_worker m.
Proof.
  intros H Hth Hpc Hn Hm m. unfold step in H. rewrite Hth, Hpc in H.
  destruct (is_free (sp s)); [|discriminate].
  assert (E1 : (n <=? cap (sp s)) = false) by (apply Nat.leb_gt; exact Hn). rewrite E1 in H.
  assert (E2 : (created w (n - cap (sp s)) =? n - cap (sp s)) = false) by (apply Nat.eqb_neq; lia). cbv zeta in H. rewrite E2 in H.
  inversion H; subst s'. cbn [sp sg st]. auto.
Qed.

Lemma resize_success_frame cfg tid w s s' th n :
  step cfg tid w s = Some s' -> nth_error (st s) tid = Some th -> t_pc th = RLock n -> cap (sp s) < n ->
  created w (n - cap (sp s)) = n - cap (sp s) ->
  sp s' = set_cap_limit n (set_owner (Some tid) (sp s)) /\ sg s' = sg s /\
  st s' = upd tid (set_pc RBcast th) (st s) ++ repeat new_worker (n - cap (sp s)).
Proof.
  intros H Hth Hpc Hn Hm. unfold step in H. rewrite Hth, Hpc in H.
  destruct (is_free (sp s)); [|discriminate].
  assert (E1 : (n <=? cap (sp s)) = false) by (apply Nat.leb_gt; exact Hn). rewrite E1 in H.
  assert (E2 : (created w (n - cap (sp s)) =? n - cap (sp s)) = true) by (apply Nat.eqb_eq; exact Hm). cbv zeta in H. rewrite E2 in H.
  inversion H; subst s'. cbn [sp sg st]. auto.
Qed.

(* in every reachable state - whatever resizes failed on the way - threadCapacity is the number of worker threads that exist, the
   workers are exactly the threads behind the clients, and POOL_join's loop bound therefore covers every thread ever created *)
Theorem capacity_is_worker_count bodies progs n q sched :
  progs <> [] -> 1 <= n ->
  let s := reach true bodies progs n q sched in
  length (st s) = length progs + cap (sp s) /\
  (forall t th, nth_error (st s) t = Some th -> t_worker th = negb (t <? length progs)) /\
  1 <= limit (sp s) <= cap (sp s).
Proof.
  intros Hp Hn s. pose proof (live_reachable bodies progs n q sched Hp Hn) as HL. fold s in HL.
  destruct (sf_shape _ _ (lv_safe _ _ HL)) as (Hlen & _ & Hlim & HW & _). cbn [mkcfg c_K] in *. auto.
Qed.

(* ---- witnesses: the failure branch is reachable and such runs complete ---- *)
(* pool(1 thread, queue 1); the only client posts, resizes to 3 (the 2nd pthread_create fails: w = 3 at the resize step, one
   thread created), posts again, waits; then POOL_free.  tid 0 = client, 1 = first worker, 2 = the worker the failed resize created. *)
Definition rf_progs : list (list op) := [[OAdd 0; OResize 3; OAdd 1; OJoinJobs]].
Definition rf_bodies : list (list post) := [[]; []].
Definition rf_prefix : list (nat * nat) := [(0,0);(0,0);(0,0);(0,3)].
Fixpoint rr (k n : nat) : list (nat * nat) := match k with 0 => [] | S k' => map (fun t => (t, 0)) (seq 0 n) ++ rr k' n end.

Lemma resize_failure_witness :
  let s := reach true rf_bodies rf_progs 1 1 rf_prefix in
  cap (sp s) = 2 /\ limit (sp s) = 1 /\ length (st s) = 3 /\ map t_pc (st s) = [RBcast; WLock; WLock].
Proof. vm_compute. repeat split; reflexivity. Qed.

Lemma resize_failure_run_completes :
  let s := reach true rf_bodies rf_progs 1 1 (rf_prefix ++ rr 40 3) in
  all_done s = true /\ cap (sp s) = 2 /\ limit (sp s) = 1 /\ map snd (done (sg s)) = [0; 1].
Proof. vm_compute. repeat split; reflexivity. Qed.

(* the allocation failure (w = 1): nothing changes but the mutex owner *)
Lemma resize_alloc_failure_witness :
  let s := reach true rf_bodies rf_progs 1 1 [(0,0);(0,0);(0,0);(0,1)] in
  cap (sp s) = 1 /\ limit (sp s) = 1 /\ length (st s) = 2.
Proof. vm_compute. repeat split; reflexivity. Qed.
