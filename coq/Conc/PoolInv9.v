(* Layer 9: no lost wake-up on queuePushCond (posters blocked in POOL_add and POOL_joinJobs callers share it).
   Needs the F5 repair: POOL_thread BROADCASTS queuePushCond after a pop and after a job finishes. *)
From Coq Require Import List Arith Bool Lia ZArith.
Import ListNotations.
From ZV.Conc Require Import Sched PoolModel PoolLemmas PoolInvDefs PoolInv1 PoolInv2 PoolInv3 PoolInv4 PoolInv5 PoolInv6 PoolInv7 PoolInv8.

(* a thread asleep on queuePushCond still has its reason to sleep, or a broadcast is about to be delivered,
   or a worker is busy (and will broadcast when it finishes) *)
Definition pw_ok (p : pool) (pb : nat) (x : thread) : bool :=
  match t_pc x with
  | PAsleep _ => (is_full p && negb (shutdown p)) || (1 <=? pb) || (1 <=? busy p)
  | JAsleep => negb (qempty p) || (1 <=? busy p) || (1 <=? pb)
  | _ => true
  end.
Definition PushWake (s : state) := forall t x, nth_error (st s) t = Some x -> pw_ok (sp s) (sumf npendb (st s)) x = true.

Lemma pw_wake_push p pb x : pw_ok p pb (wake_push x) = true.
Proof. unfold pw_ok, wake_push. destruct (t_pc x) eqn:E; cbn; rewrite ?E; auto. Qed.
Lemma pw_wake_pop p pb x : pw_ok p pb (wake_pop x) = pw_ok p pb x.
Proof. unfold pw_ok, wake_pop. destruct (t_pc x) eqn:E; cbn; rewrite ?E; auto. Qed.
Lemma woken_pw p pb x0 x : woken x0 x -> pw_ok p pb x0 = true -> pw_ok p pb x = true.
Proof. intros [->|[->| ->]] H; auto; [apply pw_wake_push|now rewrite pw_wake_pop]. Qed.

Lemma or3 a b c : a = true \/ b = true \/ c = true -> a || b || c = true.
Proof. intros [->|[->| ->]]; rewrite ?orb_true_r; auto. Qed.

Lemma pw_transfer p pb p' pb' x :
  pw_ok p pb x = true ->
  (1 <= pb -> 1 <= pb' \/ 1 <= busy p') ->
  (1 <= busy p -> 1 <= busy p' \/ 1 <= pb') ->
  (is_full p = true -> shutdown p = false -> (is_full p' = true /\ shutdown p' = false) \/ 1 <= pb' \/ 1 <= busy p') ->
  (qempty p = false -> qempty p' = false \/ 1 <= busy p' \/ 1 <= pb') ->
  pw_ok p' pb' x = true.
Proof.
  unfold pw_ok. intros H C1 C2 C3 C4. destruct (t_pc x); auto.
  - apply or3. apply orb_prop in H. destruct H as [H|H]; [apply orb_prop in H; destruct H as [H|H]|].
    + apply andb_prop in H. destruct H as [Hf Hs]. apply negb_true_iff in Hs.
      destruct (C3 Hf Hs) as [[Ha Hb]|[Hx|Hx]]; [left; rewrite Ha, Hb; reflexivity|right; left; now apply Nat.leb_le|right; right; now apply Nat.leb_le].
    + apply Nat.leb_le in H. destruct (C1 H) as [Hx|Hx]; [right; left|right; right]; now apply Nat.leb_le.
    + apply Nat.leb_le in H. destruct (C2 H) as [Hx|Hx]; [right; right|right; left]; now apply Nat.leb_le.
  - apply or3. apply orb_prop in H. destruct H as [H|H]; [apply orb_prop in H; destruct H as [H|H]|].
    + apply negb_true_iff in H. destruct (C4 H) as [Ha|[Hx|Hx]]; [left; rewrite Ha; reflexivity|right; left; now apply Nat.leb_le|right; right; now apply Nat.leb_le].
    + apply Nat.leb_le in H. destruct (C2 H) as [Hx|Hx]; [right; left|right; right]; now apply Nat.leb_le.
    + apply Nat.leb_le in H. destruct (C1 H) as [Hx|Hx]; [right; right|right; left]; now apply Nat.leb_le.
Qed.

Lemma npendb_wake_push th : npendb (wake_push th) = npendb th.
Proof. unfold npendb, wake_push. destruct (t_pc th) eqn:E; cbn; rewrite ?E; auto. Qed.
Lemma npendb_wake_pop th : npendb (wake_pop th) = npendb th.
Proof. unfold npendb, wake_pop. destruct (t_pc th) eqn:E; cbn; rewrite ?E; auto. Qed.

Lemma finish_pushwake cfg tid th g th' g' p pb : finish_op cfg tid th g = (th', g') -> npendb th' = 0 /\ pw_ok p pb th' = true.
Proof.
  intros H. apply finish_op_cases in H.
  destruct H as [(Hw & k & j & r & _ & -> & _)|[(Hw & _ & -> & _)|(Hw & c & ops' & Hn & -> & _)]]; cbn; auto.
  apply next_client_pc in Hn. unfold npendb, pw_ok; cbn.
  destruct Hn as [(k & j & ->)|[->|[(n & ->)|[(_ & [[-> _]|[-> _]] & _)|(_ & -> & _)]]]]; auto.
Qed.

(* is_full survives a change of threadLimit unless a worker is busy *)
Lemma is_full_limit p n : 1 <= limit p -> 1 <= n -> is_full p = true -> is_full (set_limit n p) = true \/ 1 <= busy p.
Proof.
  unfold is_full, set_limit. cbn [qsize head tail busy limit qempty]. intros Hl Hn. destruct (1 <? qsize p); auto.
  intros H. apply orb_prop in H. destruct H as [H|H].
  - apply Nat.eqb_eq in H. right. lia.
  - left. rewrite H. apply orb_true_r.
Qed.

Lemma pw_after_bcast p pb tid th' ths t x :
  nth_error (upd tid th' (broadcast wake_push ths)) t = Some x -> pw_ok p pb th' = true -> pw_ok p pb x = true.
Proof.
  rewrite nth_error_upd. destruct ((t =? tid) && (tid <? length (broadcast wake_push ths))).
  - intros H; inversion H; subst; auto.
  - rewrite nth_error_broadcast. destruct (nth_error ths t); cbn; intros H; inversion H; subst. intros _. apply pw_wake_push.
Qed.

Ltac pw_side :=
  intros;
  first [ congruence
        | left; split; assumption
        | left; assumption
        | left; lia
        | right; left; cbn; lia
        | right; right; cbn; lia
        | right; cbn; lia
        | left; cbn; reflexivity ].

Lemma pushwake_step cfg tid w s s' :
  c_fix cfg = true -> ShapeOK cfg s -> AssertOK s -> PushWake s -> step cfg tid w s = Some s' -> PushWake s'.
Proof.
  unfold PushWake. intros Hfix (_ & _ & Hlim & _) HA HP H t' x Hx.
  step_inv H; cbn [st sp] in *; rewrite ?Hfix in *; cbn [wake_pushers] in *; pose proof (HA _ _ Hth) as Hself;
    try (eapply pw_after_bcast; [exact Hx|reflexivity]);
    others Hx;
    try (eapply finish_pushwake; eassumption);
    try (unfold pw_ok; cbn; reflexivity);
    try match goal with Hf : finish_op _ _ _ _ = _ |- _ => destruct (finish_pushwake _ _ _ _ _ _ (sp s) 0 Hf) as [Hf1 _] end.
  all: try (match goal with
            | Hx0 : nth_error (st ?s0) ?t = Some ?x0, Hw : woken ?x0 ?y |- pw_ok ?p' ?pb' ?y = true =>
              apply (woken_pw _ _ _ _ Hw);
              sum_upd npendb npendb_wake_push npendb_wake_pop;
              apply (pw_transfer (sp s0) (sumf npendb (st s0)) _ _ _ (HP _ _ Hx0));
              unfold npendb in *; cbn in Hs; rewrite ?Epc in Hs; cbn in Hs; pw_side
            end).
  - (* POOL_add enqueues: the queue was not full *)
    apply (woken_pw _ _ _ _ Hwoken). sum_upd npendb npendb_wake_push npendb_wake_pop.
    apply (pw_transfer (sp s) (sumf npendb (st s)) _ _ _ (HP _ _ Hx)); unfold npendb in *; cbn in Hs; rewrite ?Epc in Hs; cbn in Hs; intros.
    + left; lia.
    + left; cbn; lia.
    + rewrite H in E0; rewrite ?E1 in E0; cbn in E0; discriminate.
    + left; reflexivity.
  - (* POOL_add goes to sleep: it saw a full queue and no shutdown, under the mutex *)
    unfold assert_ok in Hself. rewrite Epc in Hself. unfold pw_ok. cbn [t_pc set_pc]. apply or3. left. exact Hself.
  - (* POOL_joinJobs goes to sleep *)
    unfold assert_ok in Hself. rewrite Epc in Hself. unfold pw_ok. cbn [t_pc set_pc]. apply or3.
    apply orb_prop in Hself. destruct Hself as [Hq|Hb]; [left; exact Hq|right; left; exact Hb].
  - (* POOL_resize changes threadLimit *)
    apply (woken_pw _ _ _ _ Hwoken). sum_upd npendb npendb_wake_push npendb_wake_pop.
    apply Nat.eqb_neq in E1.
    apply (pw_transfer (sp s) (sumf npendb (st s)) _ _ _ (HP _ _ Hx)); unfold npendb in *; cbn in Hs; rewrite ?Epc in Hs; cbn in Hs; intros.
    + left; lia.
    + left; cbn; lia.
    + destruct (is_full_limit (sp s) n ltac:(lia) ltac:(lia) H) as [Hf|Hb]; [left; split; [exact Hf|exact H0]|right; right; cbn; lia].
    + left; assumption.
  - apply (woken_pw _ _ _ _ Hwoken). sum_upd npendb npendb_wake_push npendb_wake_pop.
    apply Nat.leb_gt in E0.
    apply (pw_transfer (sp s) (sumf npendb (st s)) _ _ _ (HP _ _ Hx)); unfold npendb in *; cbn in Hs; rewrite ?Epc in Hs; cbn in Hs; intros.
    + left. cbn. lia.
    + left; cbn; lia.
    + destruct (is_full_limit (sp s) n ltac:(lia) ltac:(lia) H) as [Hf|Hb]; [left; split; [exact Hf|exact H0]|right; right; cbn; lia].
    + left; assumption.
Qed.
