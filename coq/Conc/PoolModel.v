(* Executable model of lib/common/pool.c (ZSTD_MULTITHREAD build) under the
   interleaving semantics of Sched.v.  NO proofs in this file.

   Granularity: one [step] of thread [tid] = the synchronisation operation the
   thread is standing at (mutex lock/unlock, cond wait/signal/broadcast,
   thread join) followed by the straight-line C code up to, not including, its
   next synchronisation operation.  pthread_create / *_init / *_destroy are
   not scheduling points (the created thread is placed at its first
   synchronisation operation, which for POOL_thread is the mutex_lock at the
   top of its loop).

   Thread ids: 0 = main client, 1..K-1 = further client threads,
   K+i = the worker stored in ctx->threads[i].

   C fields are modelled one to one ([pool]); [ghost] carries the
   specification state: tickets (one fresh ticket per ENQUEUED job),
   the FIFO list of pending entries, the log of started entries, the log of
   finished entries, refused (tryAdd returned 0) and dropped (add_internal
   returned early because shutdown was set) job ids. *)
From Coq Require Import List Arith Bool.
Import ListNotations.

Inductive kind := KAdd | KTry.
Definition post := (kind * nat)%type.             (* how, job id *)
Inductive op := OAdd (j : nat) | OTry (j : nat) | OJoinJobs | OResize (n : nat).
Definition entry := (nat * nat)%type.             (* ticket, job id *)

Inductive pc :=
  (* POOL_add / POOL_tryAdd (+ POOL_add_internal), run by a client or by a job on a worker *)
  | PLock (k : kind) (j : nat)   (* at mutex_lock, or re-acquiring the mutex after cond_wait *)
  | PWait (j : nat)              (* POOL_add: at cond_wait(queuePushCond), mutex held *)
  | PAsleep (j : nat)            (* POOL_add: asleep on queuePushCond *)
  | PSignal                      (* add_internal: at cond_signal(queuePopCond), mutex held *)
  | PUnlock                      (* at the final mutex_unlock of add/tryAdd *)
  (* POOL_joinJobs *)
  | JLock | JWait | JAsleep | JUnlock
  (* POOL_resize n *)
  | RLock (n : nat) | RBcast | RBcastPush | RUnlock
  (* harness: main joins client thread c *)
  | MJoin (c : nat)
  (* POOL_free = POOL_join + destroy *)
  | FLock | FUnlock | FBcastPush | FBcastPop | FJoin (i : nat)
  (* POOL_thread *)
  | WLock | WWait | WAsleep | WUnlockExit | WBcast1 | WUnlock1 | WLock2 | WBcast2 | WUnlock2
  | Done.

Record thread := mkT {
  t_pc : pc;
  t_ops : list op;            (* client: operations still to do *)
  t_cur : option entry;       (* worker: job being executed *)
  t_posts : list post;        (* worker: what the running job still posts *)
  t_worker : bool }.

Record pool := mkP {
  qsize : nat; queue : list entry; head : nat; tail : nat; qempty : bool;
  busy : nat; limit : nat; cap : nat; shutdown : bool;
  owner : option nat          (* queueMutex *) }.

Record ghost := mkG {
  pending : list entry; started : list entry; done : list entry; next : nat;
  refused : list nat; dropped : list nat }.

Record state := mkS { sp : pool; sg : ghost; st : list thread }.

Record config := mkC {
  c_fix : bool;                 (* true: POOL_thread broadcasts queuePushCond (current code);
                                   false: it signals one waiter (code before the F5 repair) *)
  c_K : nat;                    (* number of client threads, >= 1 *)
  c_bodies : list (list post)   (* what job j posts while it runs *) }.

Definition dthread := mkT Done [] None [] false.
Definition dentry : entry := (0, 0).

Fixpoint upd {A} (i : nat) (x : A) (l : list A) : list A :=
  match l, i with
  | [], _ => []
  | _ :: r, 0 => x :: r
  | a :: r, S i' => a :: upd i' x r
  end.

(* ---- pool field updates ---- *)
Definition set_owner o p := mkP (qsize p) (queue p) (head p) (tail p) (qempty p) (busy p) (limit p) (cap p) (shutdown p) o.
Definition set_shutdown p := mkP (qsize p) (queue p) (head p) (tail p) (qempty p) (busy p) (limit p) (cap p) true (owner p).
Definition set_busy b p := mkP (qsize p) (queue p) (head p) (tail p) (qempty p) b (limit p) (cap p) (shutdown p) (owner p).
Definition set_limit l p := mkP (qsize p) (queue p) (head p) (tail p) (qempty p) (busy p) l (cap p) (shutdown p) (owner p).
Definition set_cap_limit n p := mkP (qsize p) (queue p) (head p) (tail p) (qempty p) (busy p) n n (shutdown p) (owner p).
Definition set_cap c p := mkP (qsize p) (queue p) (head p) (tail p) (qempty p) (busy p) (limit p) c (shutdown p) (owner p).

(* POOL_resize_internal, numThreads > threadCapacity: how many of the [d] calls of pthread_create succeed.  The failure point is
   part of the schedule (the [w] of the resize step): 0 = nothing fails; 1 = the allocation of the new thread array fails (no
   thread is created); k+2 = the (k+1)-th pthread_create fails after k threads were created; a failure point beyond [d] never
   strikes. *)
Definition created (w d : nat) : nat := match w with 0 => d | S k => Nat.min (k - 1) d end.

(* isQueueFull *)
Definition is_full p : bool :=
  if 1 <? qsize p then head p =? (tail p + 1) mod qsize p
  else (busy p =? limit p) || negb (qempty p).

(* POOL_add_internal, the part after the shutdown test *)
Definition enqueue (e : entry) p :=
  mkP (qsize p) (upd (tail p) e (queue p)) (head p) ((tail p + 1) mod qsize p) false
      (busy p) (limit p) (cap p) (shutdown p) (owner p).

(* POOL_thread: pop *)
Definition pop_entry p : entry := nth (head p) (queue p) dentry.
Definition pop p :=
  let h := (head p + 1) mod qsize p in
  mkP (qsize p) (queue p) h (tail p) (h =? tail p) (S (busy p)) (limit p) (cap p) (shutdown p) (owner p).

(* ---- ghost updates ---- *)
Definition g_push j g := mkG (pending g ++ [(next g, j)]) (started g) (done g) (S (next g)) (refused g) (dropped g).
Definition g_pop g := mkG (tl (pending g)) (started g) (done g) (next g) (refused g) (dropped g).
Definition g_start (e : entry) g := mkG (pending g) (started g ++ [e]) (done g) (next g) (refused g) (dropped g).
Definition g_done e g := mkG (pending g) (started g) (done g ++ [e]) (next g) (refused g) (dropped g).
Definition g_refuse j g := mkG (pending g) (started g) (done g) (next g) (refused g ++ [j]) (dropped g).
Definition g_drop j g := mkG (pending g) (started g) (done g) (next g) (refused g) (dropped g ++ [j]).

(* ---- condition variables: the waiters of a condition are the threads whose pc says so ---- *)
Definition set_pc c th := mkT c (t_ops th) (t_cur th) (t_posts th) (t_worker th).
Definition asleep_push th := match t_pc th with PAsleep _ | JAsleep => true | _ => false end.
Definition asleep_pop th := match t_pc th with WAsleep => true | _ => false end.
Definition wake_push th := match t_pc th with PAsleep j => set_pc (PLock KAdd j) th | JAsleep => set_pc JLock th | _ => th end.
Definition wake_pop th := match t_pc th with WAsleep => set_pc WLock th | _ => th end.

Fixpoint indices_from {A} (f : A -> bool) (i : nat) (l : list A) : list nat :=
  match l with [] => [] | a :: r => if f a then i :: indices_from f (S i) r else indices_from f (S i) r end.
Definition sleepers f (ths : list thread) := indices_from f 0 ths.

(* pthread_cond_signal: wakes ONE waiter, which one is the scheduler's choice [w] *)
Definition signal (f : thread -> bool) (wake : thread -> thread) (w : nat) (ths : list thread) :=
  match sleepers f ths with
  | [] => ths
  | i0 :: r => let i := nth (w mod length (i0 :: r)) (i0 :: r) i0 in upd i (wake (nth i ths dthread)) ths
  end.
Definition broadcast (wake : thread -> thread) (ths : list thread) := map wake ths.
Definition wake_pushers (fix_ : bool) w ths := if fix_ then broadcast wake_push ths else signal asleep_push wake_push w ths.

(* ---- control flow between operations ---- *)
Definition next_client (K tid : nat) (ops : list op) : pc * list op :=
  match ops with
  | OAdd j :: r => (PLock KAdd j, r)
  | OTry j :: r => (PLock KTry j, r)
  | OJoinJobs :: r => (JLock, r)
  | OResize n :: r => (RLock n, r)
  | [] => if tid =? 0 then (if 1 <? K then MJoin 1 else FLock, []) else (Done, [])
  end.

(* the thread finished one pool operation (or a job was just started): what it stands at next *)
Definition finish_op (cfg : config) (tid : nat) (th : thread) (g : ghost) : thread * ghost :=
  if t_worker th then
    match t_posts th with
    | (k, j) :: r => (mkT (PLock k j) [] (t_cur th) r true, g)
    | [] => (mkT WLock2 [] None [] true, match t_cur th with Some e => g_done e g | None => g end)
    end
  else let '(c, ops') := next_client (c_K cfg) tid (t_ops th) in (mkT c ops' None [] false, g).

Definition is_done (ths : list thread) (t : nat) : bool :=
  match t_pc (nth t ths dthread) with Done => true | _ => false end.

Definition is_free p := match owner p with None => true | Some _ => false end.

Definition new_worker := mkT WLock [] None [] true.

(* ---- the step function ---- *)
Definition step (cfg : config) (tid w : nat) (s : state) : option state :=
  match nth_error (st s) tid with
  | None => None
  | Some th =>
    let p := sp s in let g := sg s in let ths := st s in
    let put p' g' th' := Some (mkS p' g' (upd tid th' ths)) in
    let put' p' g' ths' th' := Some (mkS p' g' (upd tid th' ths')) in
    match t_pc th with
    (* ---------- POOL_add / POOL_tryAdd ---------- *)
    | PLock k j =>
      if is_free p then
        let p1 := set_owner (Some tid) p in
        match k with
        | KAdd =>
          if is_full p && negb (shutdown p) then put p1 g (set_pc (PWait j) th)
          else if shutdown p then put p1 (g_drop j g) (set_pc PUnlock th)
          else put (enqueue (next g, j) p1) (g_push j g) (set_pc PSignal th)
        | KTry =>
          if is_full p then put p1 (g_refuse j g) (set_pc PUnlock th)
          else if shutdown p then put p1 (g_drop j g) (set_pc PUnlock th)
          else put (enqueue (next g, j) p1) (g_push j g) (set_pc PSignal th)
        end
      else None
    | PWait j => put (set_owner None p) g (set_pc (PAsleep j) th)
    | PAsleep _ => None
    | PSignal => put' p g (signal asleep_pop wake_pop w ths) (set_pc PUnlock th)
    | PUnlock => let '(th', g') := finish_op cfg tid th g in put (set_owner None p) g' th'
    (* ---------- POOL_joinJobs ---------- *)
    | JLock =>
      if is_free p then
        let p1 := set_owner (Some tid) p in
        if negb (qempty p) || (0 <? busy p) then put p1 g (set_pc JWait th) else put p1 g (set_pc JUnlock th)
      else None
    | JWait => put (set_owner None p) g (set_pc JAsleep th)
    | JAsleep => None
    | JUnlock => let '(th', g') := finish_op cfg tid th g in put (set_owner None p) g' th'
    (* ---------- POOL_resize ---------- *)
    | RLock n =>
      if is_free p then
        let p1 := set_owner (Some tid) p in
        if n <=? cap p then
          (if n =? 0 then put p1 g (set_pc RBcast th) else put (set_limit n p1) g (set_pc RBcast th))
        else
          let m := created w (n - cap p) in
          if m =? n - cap p then
            Some (mkS (set_cap_limit n p1) g (upd tid (set_pc RBcast th) ths ++ repeat new_worker (n - cap p)))
          else
            (* failure: threadCapacity = the threads that exist, threadLimit unchanged; POOL_resize still broadcasts, returns 1 *)
            Some (mkS (set_cap (cap p + m) p1) g (upd tid (set_pc RBcast th) ths ++ repeat new_worker m))
      else None
    | RBcast => put' p g (broadcast wake_pop ths) (set_pc RBcastPush th)
    | RBcastPush => put' p g (broadcast wake_push ths) (set_pc RUnlock th)
    | RUnlock => let '(th', g') := finish_op cfg tid th g in put (set_owner None p) g' th'
    (* ---------- harness: main waits for the other clients, then frees the pool ---------- *)
    | MJoin c =>
      if is_done ths c then put p g (set_pc (if S c <? c_K cfg then MJoin (S c) else FLock) th) else None
    | FLock => if is_free p then put (set_shutdown (set_owner (Some tid) p)) g (set_pc FUnlock th) else None
    | FUnlock => put (set_owner None p) g (set_pc FBcastPush th)
    | FBcastPush => put' p g (broadcast wake_push ths) (set_pc FBcastPop th)
    | FBcastPop => put' p g (broadcast wake_pop ths) (set_pc (FJoin 0) th)
    | FJoin i =>
      if is_done ths (c_K cfg + i) then put p g (set_pc (if S i <? cap p then FJoin (S i) else Done) th) else None
    (* ---------- POOL_thread ---------- *)
    | WLock =>
      if is_free p then
        let p1 := set_owner (Some tid) p in
        if qempty p || (limit p <=? busy p) then
          (if shutdown p then put p1 g (set_pc WUnlockExit th) else put p1 g (set_pc WWait th))
        else put (pop p1) (g_pop g) (mkT WBcast1 [] (Some (pop_entry p)) [] true)
      else None
    | WWait => put (set_owner None p) g (set_pc WAsleep th)
    | WAsleep => None
    | WUnlockExit => put (set_owner None p) g (set_pc Done th)
    | WBcast1 => put' p g (wake_pushers (c_fix cfg) w ths) (set_pc WUnlock1 th)
    | WUnlock1 =>
      match t_cur th with
      | Some e =>
        let th1 := mkT WUnlock1 [] (Some e) (nth (snd e) (c_bodies cfg) []) true in
        let '(th', g') := finish_op cfg tid th1 (g_start e g) in put (set_owner None p) g' th'
      | None => None
      end
    | WLock2 => if is_free p then put (set_busy (busy p - 1) (set_owner (Some tid) p)) g (set_pc WBcast2 th) else None
    | WBcast2 => put' p g (wake_pushers (c_fix cfg) w ths) (set_pc WUnlock2 th)
    | WUnlock2 => put (set_owner None p) g (set_pc WLock th)
    | Done => None
    end
  end.

(* ---- initial state: POOL_create(nthreads, qreq) has returned, client threads exist ---- *)
Fixpoint mk_clients (K tid : nat) (progs : list (list op)) : list thread :=
  match progs with
  | [] => []
  | ops :: r => (let '(c, ops') := next_client K tid ops in mkT c ops' None [] false) :: mk_clients K (S tid) r
  end.

Definition init (progs : list (list op)) (nthreads qreq : nat) : state :=
  mkS (mkP (S qreq) (repeat dentry (S qreq)) 0 0 true 0 nthreads nthreads false None)
      (mkG [] [] [] 0 [] [])
      (mk_clients (length progs) 0 progs ++ repeat new_worker nthreads).

Definition mkcfg (fix_ : bool) (progs : list (list op)) (bodies : list (list post)) := mkC fix_ (length progs) bodies.

(* ---- observations used by theorems and by the tie ---- *)
Definition all_done (s : state) : bool := forallb (fun th => match t_pc th with Done => true | _ => false end) (st s).
Definition enabled_list (cfg : config) (s : state) : list nat :=
  filter (fun t => match step cfg t 0 s with Some _ => true | None => false end) (seq 0 (length (st s))).
Definition stuck (cfg : config) (s : state) : bool :=
  negb (all_done s) && match enabled_list cfg s with [] => true | _ => false end.
(* a worker blocked in a BLOCKING post made by the job it runs: the only legitimate way to wedge the pool *)
Definition self_blocked (s : state) : bool :=
  existsb (fun th => t_worker th && match t_pc th with PAsleep _ => true | _ => false end) (st s).
Definition running (s : state) : list entry :=
  flat_map (fun th => match t_cur th with Some e => [e] | None => [] end) (st s).
