(* C12, termination: a natural-number potential [mu] of the pool state that every step of every thread
   strictly decreases.  Definitions and the per-thread lemmas.

   Idea: every thread carries the number of steps it can still take before it sleeps or finishes, plus the
   price of everything it will still cause: each future post pays for the whole execution of the posted job
   (weight function [wJ], which has to dominate the job's own posts: [WOK]), each future broadcast pays
   [wB] >= 2 * (number of threads that can ever exist), because a woken sleeper needs at most 2 steps to
   go back to sleep, each signal pays 2. *)
From Coq Require Import List Arith Bool Lia ZArith.
Import ListNotations.
From ZV.Conc Require Import Sched SchedLemmas PoolModel PoolLemmas PoolInvDefs PoolInv1 PoolInv2 PoolInv3.

Record wparm := mkW {
  wB : nat;            (* price of one broadcast *)
  wT : nat;            (* bound on the number of threads that ever exist *)
  wJ : nat -> nat }.   (* price of one accepted job, by job id *)

Definition postW (P : wparm) (x : post) : nat := wJ P (snd x) + 5.
Definition postsW P (l : list post) : nat := sumf (postW P) l.
Definition opW (P : wparm) (o : op) : nat :=
  match o with OAdd j | OTry j => wJ P j + 5 | OJoinJobs => 2 | OResize n => wB P + wB P + 4 + 2 * n end.
Definition opsW P (l : list op) : nat := sumf (opW P) l.

Definition WL2 P := wB P + 5.                         (* a worker at the lock after its job *)
Definition FLW P := 2 * wB P + wT P + 5.              (* the main client at the lock of POOL_join *)
Definition FINAL (cfg : config) P := c_K cfg + 1 + FLW P.

Definition rest (cfg : config) P (th : thread) : nat :=
  opsW P (t_ops th) + postsW P (t_posts th) + (if t_worker th then WL2 P else FINAL cfg P).

Definition curW (cfg : config) P (th : thread) : nat :=
  match t_cur th with Some e => postsW P (nth (snd e) (c_bodies cfg) []) | None => 0 end.

Definition phi (cfg : config) (P : wparm) (th : thread) : nat :=
  match t_pc th with
  | PLock _ j => wJ P j + 5 + rest cfg P th
  | PWait j => wJ P j + 4 + rest cfg P th
  | PAsleep j => wJ P j + 3 + rest cfg P th
  | PSignal => 4 + rest cfg P th
  | PUnlock => 1 + rest cfg P th
  | JLock => 2 + rest cfg P th
  | JWait => 1 + rest cfg P th
  | JAsleep => rest cfg P th
  | JUnlock => 1 + rest cfg P th
  | RLock n => wB P + wB P + 4 + 2 * n + rest cfg P th
  | RBcast => wB P + wB P + 3 + rest cfg P th
  | RBcastPush => wB P + 2 + rest cfg P th
  | RUnlock => 1 + rest cfg P th
  | MJoin c => (c_K cfg - c) + 1 + FLW P
  | FLock => FLW P
  | FUnlock => 2 * wB P + wT P + 4
  | FBcastPush => 2 * wB P + wT P + 3
  | FBcastPop => wB P + wT P + 2
  | FJoin i => 1 + (wT P - i)
  | WLock => 2
  | WWait => 1
  | WAsleep => 0
  | WUnlockExit => 1
  | WBcast1 => wB P + 2 + curW cfg P th + WL2 P
  | WUnlock1 => 1 + curW cfg P th + WL2 P
  | WLock2 => WL2 P
  | WBcast2 => wB P + 4
  | WUnlock2 => 3
  | Done => 0
  end.

Definition entW P (e : entry) : nat := wJ P (snd e).
Definition mu (cfg : config) P (s : state) : nat := sumf (phi cfg P) (st s) + sumf (entW P) (pending (sg s)).

(* the weight of a job pays for its execution, including everything it posts *)
Definition WOK (cfg : config) P : Prop :=
  forall j, 2 * wB P + 7 + postsW P (nth j (c_bodies cfg) []) <= wJ P j.

(* number of threads now + number of threads that resizes still to come can create *)
Definition rszW (o : op) : nat := match o with OResize n => n | _ => 0 end.
Definition thrW (th : thread) : nat := (match t_pc th with RLock n => n | _ => 0 end) + sumf rszW (t_ops th).
Definition LenOK (P : wparm) (s : state) : Prop := length (st s) + sumf thrW (st s) <= wT P.

(* ---- wake-ups cost at most 2 ---- *)
Lemma rest_set_pc cfg P c th : rest cfg P (set_pc c th) = rest cfg P th.
Proof. reflexivity. Qed.

Lemma phi_wake_push cfg P th : phi cfg P (wake_push th) <= phi cfg P th + 2.
Proof. unfold wake_push. destruct (t_pc th) eqn:E; try lia; unfold phi; cbn [t_pc set_pc]; rewrite ?E, ?rest_set_pc; lia. Qed.
Lemma phi_wake_pop cfg P th : phi cfg P (wake_pop th) <= phi cfg P th + 2.
Proof. unfold wake_pop. destruct (t_pc th) eqn:E; try lia; unfold phi; cbn [t_pc set_pc]; rewrite ?E; lia. Qed.

Lemma sumf_broadcast_le (f : thread -> nat) wake ths c :
  (forall th, f (wake th) <= f th + c) -> sumf f (broadcast wake ths) <= sumf f ths + c * length ths.
Proof. intros H. unfold broadcast. induction ths as [|a l IH]; cbn [map sumf length]; [lia|]. specialize (H a). lia. Qed.

Lemma sumf_signal_le (f : thread -> nat) g wake w ths c :
  (forall th, f (wake th) <= f th + c) -> sumf f (signal g wake w ths) <= sumf f ths + c.
Proof.
  intros H. destruct (signal_cases g wake w ths) as [[_ ->]|(i & th & Hi & _ & ->)]; [lia|].
  pose proof (sumf_upd f i (wake th) ths th Hi). specialize (H th). lia.
Qed.

Lemma sumf_wake_pushers_le (f : thread -> nat) b w ths c :
  (forall th, f (wake_push th) <= f th + c) -> 1 <= length ths -> sumf f (wake_pushers b w ths) <= sumf f ths + c * length ths.
Proof.
  intros H Hl. destruct b; cbn.
  - now apply sumf_broadcast_le.
  - pose proof (sumf_signal_le f asleep_push wake_push w ths c H). nia.
Qed.

(* generic bookkeeping for [upd tid x ths'] *)
Lemma sum_step_le (f : thread -> nat) ths ths' tid th x c :
  sumf f ths' <= sumf f ths + c -> nth_error ths' tid = Some th -> sumf f (upd tid x ths') + f th <= sumf f ths + c + f x.
Proof. intros Hs Hn. pose proof (sumf_upd f tid x ths' th Hn). lia. Qed.

(* ---- finishing an operation ---- *)
Lemma finish_phi cfg P tid th g th' g' :
  finish_op cfg tid th g = (th', g') -> phi cfg P th' <= rest cfg P th /\ thrW th' <= sumf rszW (t_ops th).
Proof.
  intros H. apply finish_op_cases in H.
  destruct H as [(Hw & k & j & r & Hp & -> & _)|[(Hw & Hp & -> & _)|(Hw & c & ops' & Hn & -> & _)]].
  - unfold phi, rest, thrW. cbn [t_pc t_ops t_posts t_worker]. rewrite Hw, Hp. unfold postsW, opsW. cbn [sumf]. unfold postW at 2. cbn [snd]. lia.
  - unfold phi, rest, thrW. cbn [t_pc t_ops]. rewrite Hw. cbn [sumf]. lia.
  - unfold next_client in Hn. unfold rest. rewrite Hw.
    destruct (t_ops th) as [|[j|j| |n] r]; unfold opsW; cbn [sumf opW rszW].
    + destruct (tid =? 0); [destruct (1 <? c_K cfg) eqn:EK|]; inversion Hn; subst; unfold phi, thrW; cbn [t_pc t_ops sumf]; unfold FINAL; try lia.
    + inversion Hn; subst. unfold phi, rest, thrW. cbn [t_pc t_ops t_posts t_worker]. unfold postsW, opsW. cbn [sumf]. lia.
    + inversion Hn; subst. unfold phi, rest, thrW. cbn [t_pc t_ops t_posts t_worker]. unfold postsW, opsW. cbn [sumf]. lia.
    + inversion Hn; subst. unfold phi, rest, thrW. cbn [t_pc t_ops t_posts t_worker]. unfold postsW, opsW. cbn [sumf]. lia.
    + inversion Hn; subst. unfold phi, rest, thrW. cbn [t_pc t_ops t_posts t_worker]. unfold postsW, opsW. cbn [sumf]. lia.
Qed.

Lemma thrW_wake_push th : thrW (wake_push th) = thrW th.
Proof. unfold thrW, wake_push. destruct (t_pc th) eqn:E; cbn; rewrite ?E; auto. Qed.
Lemma thrW_wake_pop th : thrW (wake_pop th) = thrW th.
Proof. unfold thrW, wake_pop. destruct (t_pc th) eqn:E; cbn; rewrite ?E; auto. Qed.
