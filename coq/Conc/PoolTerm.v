(* C12, liveness: every schedule performs a bounded number of steps (no livelock); a schedule that does not
   stall forever reaches a state where no thread can run; such a state is "everything done, every accepted job
   executed exactly once" - or a job is blocked in a blocking POOL_add on its own pool. *)
From Coq Require Import List Arith Bool Lia ZArith.
Import ListNotations.
From ZV.Conc Require Import Sched SchedLemmas PoolModel PoolLemmas PoolInvDefs PoolInv1 PoolInv2 PoolInv3 PoolInv4 PoolInv5
     PoolInv6 PoolInv7 PoolSafety PoolTheorems PoolLive.
From ZV.Conc Require Import PoolTermDefs PoolTermStep.

(* ---- the parameters of a run ---- *)
Definition max_threads (progs : list (list op)) (n : nat) : nat := length progs + n + sumf (sumf rszW) progs.
Definition run_parm (progs : list (list op)) (n : nat) (JW : nat -> nat) : wparm :=
  mkW (2 * max_threads progs n) (max_threads progs n) JW.

(* [JW] pays for every job: its own execution (two broadcasts, 7 steps) and everything the job posts *)
Definition weights_ok (progs : list (list op)) (n : nat) (bodies : list (list post)) (JW : nat -> nat) : Prop :=
  forall j, 4 * max_threads progs n + 7 + sumf (fun x => JW (snd x) + 5) (nth j bodies []) <= JW j.

Lemma weights_WOK fx progs n bodies JW : weights_ok progs n bodies JW -> WOK (mkcfg fx progs bodies) (run_parm progs n JW).
Proof.
  unfold weights_ok, WOK. intros H j. specialize (H j). cbn [wB wJ run_parm c_bodies mkcfg].
  assert (E : postsW (run_parm progs n JW) (nth j bodies []) = sumf (fun x => JW (snd x) + 5) (nth j bodies [])) by (apply sumf_ext; reflexivity).
  rewrite E. lia.
Qed.

(* ---- LenOK initially ---- *)
Lemma thrW_next_client K tid ops c ops' : next_client K tid ops = (c, ops') -> thrW (mkT c ops' None [] false) = sumf rszW ops.
Proof.
  unfold next_client, thrW. destruct ops as [|[j|j| |m] r]; cbn [t_pc t_ops sumf rszW].
  - destruct (tid =? 0); [destruct (1 <? K)|]; intros H; inversion H; subst; reflexivity.
  - intros H; inversion H; subst; reflexivity.
  - intros H; inversion H; subst; reflexivity.
  - intros H; inversion H; subst; reflexivity.
  - intros H; inversion H; subst; reflexivity.
Qed.

Lemma thrW_mk_clients K start progs : sumf thrW (mk_clients K start progs) = sumf (sumf rszW) progs.
Proof.
  revert start; induction progs as [|ops r IH]; intros start; cbn [mk_clients sumf]; [reflexivity|].
  destruct (next_client K start ops) as [c ops'] eqn:E. rewrite (thrW_next_client _ _ _ _ _ E), IH. reflexivity.
Qed.

Lemma len_init progs n q JW : LenOK (run_parm progs n JW) (init progs n q).
Proof.
  unfold LenOK, run_parm, max_threads. cbn [wT st init]. rewrite app_length, mk_clients_length, repeat_length.
  rewrite sumf_app, thrW_mk_clients, sumf_repeat. cbn. lia.
Qed.

(* ---- the invariant of the termination argument ---- *)
Definition TermInv cfg P (s : state) : Prop := Safe cfg s /\ LenOK P s.

Lemma terminv_step cfg P tid w s s' : TermInv cfg P s -> step cfg tid w s = Some s' -> TermInv cfg P s'.
Proof. intros [HS HL] H. split; [eapply safe_step; eauto|eapply len_step; eauto]. Qed.

Lemma terminv_init fx bodies progs n q JW :
  progs <> [] -> 1 <= n -> TermInv (mkcfg fx progs bodies) (run_parm progs n JW) (init progs n q).
Proof. intros Hp Hn. split; [now apply safe_init|apply len_init]. Qed.

Lemma terminv_run cfg P sched s : TermInv cfg P s -> TermInv cfg P (run state (step cfg) sched s).
Proof. intros H. apply run_invariant; auto. intros; eapply terminv_step; eauto. Qed.

Lemma mu_dec cfg P tid w s s' :
  TermInv cfg P s -> 2 * wT P <= wB P -> WOK cfg P -> step cfg tid w s = Some s' -> mu cfg P s' < mu cfg P s.
Proof. intros [HS HL] HB HW H. eapply mu_step; eauto; [exact (sf_shape _ _ HS)|exact (sf_ring _ _ HS)]. Qed.

(* ---- number of steps a schedule really performs (picks of disabled threads are skipped) ---- *)
Fixpoint nsteps (cfg : config) (sched : list (nat * nat)) (s : state) : nat :=
  match sched with
  | [] => 0
  | c :: r => match step cfg (fst c) (snd c) s with Some s' => S (nsteps cfg r s') | None => nsteps cfg r s end
  end.

Lemma steps_mu cfg P sched s :
  TermInv cfg P s -> 2 * wT P <= wB P -> WOK cfg P ->
  nsteps cfg sched s + mu cfg P (run state (step cfg) sched s) <= mu cfg P s.
Proof.
  intros HI HB HW. revert s HI. induction sched as [|c r IH]; intros s HI; [cbn; lia|].
  change (run state (step cfg) (c :: r) s) with (run state (step cfg) r (exec state (step cfg) s c)).
  cbn [nsteps]. unfold exec. destruct (step cfg (fst c) (snd c) s) as [s'|] eqn:E.
  - pose proof (mu_dec _ _ _ _ _ _ HI HB HW E). specialize (IH s' (terminv_step _ _ _ _ _ _ HI E)). lia.
  - apply IH; auto.
Qed.

Theorem steps_bounded fx bodies progs n q JW sched :
  progs <> [] -> 1 <= n -> weights_ok progs n bodies JW ->
  let cfg := mkcfg fx progs bodies in
  nsteps cfg sched (init progs n q) <= mu cfg (run_parm progs n JW) (init progs n q).
Proof.
  intros Hp Hn HW cfg.
  pose proof (steps_mu cfg (run_parm progs n JW) sched (init progs n q) (terminv_init fx bodies progs n q JW Hp Hn)
                       ltac:(cbn; lia) (weights_WOK fx progs n bodies JW HW)). lia.
Qed.

(* ---- a weight function exists whenever jobs only post jobs with larger ids (no recursion) ---- *)
Definition dag (bodies : list (list post)) : Prop := forall j x, In x (nth j bodies []) -> j < snd x.

Fixpoint jw (C : nat) (bodies : list (list post)) (f : nat) (j : nat) : nat :=
  match f with 0 => 0 | S f' => C + sumf (fun x => jw C bodies f' (snd x) + 5) (nth j bodies []) end.

Lemma jw_stable C bodies : dag bodies -> forall f j, S (length bodies - j) <= f -> jw C bodies (S f) j = jw C bodies f j.
Proof.
  intros Hd. induction f as [|f IH]; intros j Hf; [lia|].
  change (C + sumf (fun x => jw C bodies (S f) (snd x) + 5) (nth j bodies []) = C + sumf (fun x => jw C bodies f (snd x) + 5) (nth j bodies [])).
  f_equal. apply sumf_ext. intros x Hx. f_equal. apply IH.
  assert (j < length bodies). { destruct (Nat.lt_ge_cases j (length bodies)); auto. rewrite nth_overflow in Hx by lia. destruct Hx. }
  specialize (Hd j x Hx). lia.
Qed.

Lemma dag_weights progs n bodies : dag bodies -> exists JW, weights_ok progs n bodies JW.
Proof.
  intros Hd. set (C := 4 * max_threads progs n + 7). exists (jw C bodies (S (length bodies))).
  intros j. rewrite <- (jw_stable C bodies Hd (S (length bodies)) j) by lia.
  change (jw C bodies (S (S (length bodies))) j) with (C + sumf (fun x => jw C bodies (S (length bodies)) (snd x) + 5) (nth j bodies [])).
  unfold C. lia.
Qed.

(* ---- infinite schedules ---- *)
Definition prefix (sigma : nat -> nat * nat) (n : nat) : list (nat * nat) := map sigma (seq 0 n).

Lemma prefix_S sigma n : prefix sigma (S n) = prefix sigma n ++ [sigma n].
Proof. unfold prefix. rewrite seq_S, map_app. reflexivity. Qed.

Lemma prefix_add sigma n d : prefix sigma (n + d) = prefix sigma n ++ map sigma (seq n d).
Proof. unfold prefix. rewrite seq_app, map_app. reflexivity. Qed.

Section Infinite.
  Variable fx : bool.
  Variable bodies : list (list post).
  Variable progs : list (list op).
  Variable n q : nat.
  Variable sigma : nat -> nat * nat.
  Let cfg := mkcfg fx progs bodies.
  Definition state_at (i : nat) : state := reach fx bodies progs n q (prefix sigma i).

  (* the scheduler never stalls forever: whenever some thread can run, a later pick is a thread that can run.
     Every weakly fair scheduler and every scheduler that picks each thread again and again has this property. *)
  Definition non_stalling : Prop :=
    forall i, enabled_list cfg (state_at i) <> [] ->
              exists j, i <= j /\ step cfg (fst (sigma j)) (snd (sigma j)) (state_at j) <> None.

  Lemma state_at_S i : state_at (S i) = exec state (step cfg) (state_at i) (sigma i).
  Proof. unfold state_at, reach. rewrite prefix_S, run_app. reflexivity. Qed.

  Lemma state_at_add i d : state_at (i + d) = run state (step cfg) (map sigma (seq i d)) (state_at i).
  Proof. unfold state_at, reach. rewrite prefix_add, run_app. reflexivity. Qed.

  Variable JW : nat -> nat.
  Hypothesis Hp : progs <> [].
  Hypothesis Hn : 1 <= n.
  Hypothesis HW : weights_ok progs n bodies JW.
  Let P := run_parm progs n JW.

  Lemma terminv_at i : TermInv cfg P (state_at i).
  Proof. unfold state_at, reach. apply terminv_run. now apply terminv_init. Qed.

  Lemma mu_mono i j : i <= j -> mu cfg P (state_at j) <= mu cfg P (state_at i).
  Proof.
    intros Hij. replace j with (i + (j - i)) by lia. rewrite state_at_add.
    pose proof (steps_mu cfg P (map sigma (seq i (j - i))) (state_at i) (terminv_at i) ltac:(cbn; lia) (weights_WOK fx progs n bodies JW HW)). lia.
  Qed.

  Theorem non_stalling_terminates : non_stalling -> exists i, enabled_list cfg (state_at i) = [].
  Proof.
    intros Hns.
    assert (H : forall m i, mu cfg P (state_at i) <= m -> exists i', enabled_list cfg (state_at i') = []).
    { induction m as [|m IH]; intros i Hm.
      - destruct (enabled_list cfg (state_at i)) eqn:E; [eauto|].
        destruct (Hns i ltac:(rewrite E; discriminate)) as (j & Hij & Hstep).
        destruct (step cfg (fst (sigma j)) (snd (sigma j)) (state_at j)) as [s'|] eqn:Es; [|congruence].
        pose proof (mu_dec _ _ _ _ _ _ (terminv_at j) ltac:(cbn; lia) (weights_WOK fx progs n bodies JW HW) Es).
        pose proof (mu_mono i j Hij). lia.
      - destruct (enabled_list cfg (state_at i)) eqn:E; [eauto|].
        destruct (Hns i ltac:(rewrite E; discriminate)) as (j & Hij & Hstep).
        destruct (step cfg (fst (sigma j)) (snd (sigma j)) (state_at j)) as [s'|] eqn:Es; [|congruence].
        pose proof (mu_dec _ _ _ _ _ _ (terminv_at j) ltac:(cbn; lia) (weights_WOK fx progs n bodies JW HW) Es) as Hd.
        pose proof (mu_mono i j Hij).
        apply (IH (S j)). rewrite state_at_S. unfold exec. rewrite Es. lia. }
    exact (H _ 0 (le_n _)).
  Qed.
End Infinite.
