(* C11, termination under fairness, part 11: dstFlushed <= cSize for every job in flight (invariant), all invariants together. *)
From Coq Require Import List NArith ZArith Bool Arith Lia.
Import ListNotations.
From ZV.Conc Require Import Sched SchedLemmas MtModel MtProofs MtRing MtRingC MtPool MtFrame MtSleep MtStep MtLive MtErr MtErrC MtFlush MtFlushC.
From ZV.Conc Require Import MtTermDefs MtTermW MtTermA.
Local Open Scope N_scope.
(* ------------------------------------------------------------------ *)
(* dstFlushed never exceeds cSize for a job in flight                    *)

Definition Pfl (j : job) : Prop := j_flushed j <= j_csize j.
Definition FlI (cfg : config) (s : state) : Prop := forall i, inflight s i -> Pfl (getj s (slot cfg i)).

Definition flmono (j j' : job) : Prop := j_flushed j' = j_flushed j /\ j_csize j <= j_csize j'.

Lemma flmono_set_job s k j' k0 : flmono (getj s k) j' -> flmono (getj s k0) (getj (set_job k j' s) k0).
Proof.
  intros H. destruct (Nat.eq_dec k k0) as [<-|Hne]; [|rewrite getj_set_job_neq by auto; split; [reflexivity|lia]].
  destruct (Nat.lt_ge_cases k (length (jobs s))) as [Hl|Hl]; [rewrite getj_set_job_eq; auto|].
  unfold getj, set_job, set_jobs. cbn [jobs]. rewrite !nth_overflow; [split; [reflexivity|lia]| |]; auto. rewrite upd_length. exact Hl.
Qed.

Lemma worker_step_fl cfg t s s' : worker_step cfg t s = Some s' -> forall k, flmono (getj s k) (getj s' k).
Proof.
  intros H k. unfold worker_step in H. destruct (nth_error (ws s) t) as [w|]; [|discriminate].
  assert (R : flmono (getj s k) (getj s k)) by (split; [reflexivity|lia]).
  destruct (w_pc w); try discriminate;
    repeat match type of H with
           | (if ?b then _ else _) = _ => destruct b
           | match ?x with Some _ => _ | None => _ end = _ => destruct x
           end; inv_some H;
    repeat match goal with |- context[if ?b then _ else _] => destruct b eqn:? end;
    rewrite ?getj_set_w, ?getj_wake_job, ?getj_wake_ldm, ?getj_set_sr, ?getj_set_ws; try exact R;
    try (apply flmono_set_job; split; cbn; try reflexivity; lia).
  all: apply (flmono_set_job (set_pl (pl_bp (take (bp_nb (pl s))) (pl s)) s) (w_slot w) (j_set_dst true (getj s (w_slot w))) k); split; cbn; try reflexivity; lia.
Qed.

Lemma fli_worker_step cfg t s s' : FlI cfg s -> worker_step cfg t s = Some s' -> FlI cfg s'.
Proof.
  intros F H i Hi. destruct (worker_step_aux cfg t s s' H) as (Em & _).
  unfold inflight in Hi. rewrite Em in Hi. specialize (F i Hi).
  destruct (worker_step_fl cfg t s s' H (slot cfg i)) as (A & B). unfold Pfl in *. lia.
Qed.

(* the job part of ZSTDMT_flushProduced: only slot(doneJobID) is written; dstFlushed stays below cSize, or the job leaves the ring *)
Lemma flush_body_headP cfg s :
  length (jobs s) = N.to_nat (Mr cfg) -> j_err (getj s (slot cfg (done (mt s)))) = false ->
  exists sa, IR cfg sa (flush_body cfg s) /\ next (mt sa) = next (mt s) /\
             (forall k, k <> slot cfg (done (mt s)) -> getj sa k = getj s k) /\
             ((done (mt sa) = done (mt s) /\ (Pfl (getj s (slot cfg (done (mt s)))) -> Pfl (getj sa (slot cfg (done (mt s)))))) \/
              done (mt sa) = done (mt s) + 1).
Proof.
  intros JL Eerr. unfold flush_body. cbn zeta. rewrite Eerr.
  set (k := slot cfg (done (mt s))). set (j := getj s k).
  assert (Hk : (k < length (jobs s))%nat) by (rewrite JL; apply slot_lt).
  set (fin := j_consumed j =? j_size j). set (ck := fin && j_ckneed j).
  set (cs := if ck then j_csize j + 4 else j_csize j).
  assert (Hcs : j_csize j <= cs) by (unfold cs; destruct ck; lia).
  assert (Hjobs : forall j1 k0, k0 <> k -> getj (set_job k j1 s) k0 = getj s k0) by (intros; apply getj_set_job_neq; auto).
  destruct (0 <? cs).
  - set (tf := N.min (cs - j_flushed j) (c_out (cl s))).
    match goal with |- exists sa, IR cfg sa (if _ then _ else if _ then gen_return cfg ?x _ else _) /\ _ => set (s1 := x) end.
    assert (G1 : getj s1 k = j_upd_flush cs (if ck then false else j_ckneed j) (j_flushed j + tf) j).
    { unfold s1. rewrite getj_set_gh, getj_set_cl. apply getj_set_job_eq. exact Hk. }
    assert (P1 : Pfl j -> Pfl (getj s1 k)) by (rewrite G1; unfold Pfl; cbn; lia).
    assert (J1 : forall k0, k0 <> k -> getj s1 k0 = getj s k0) by (intros k0 Hk0; unfold s1; rewrite getj_set_gh, getj_set_cl; apply Hjobs; exact Hk0).
    match goal with |- exists sa, IR cfg sa (if ?b then _ else _) /\ _ => destruct b end.
    + match goal with |- exists sa, IR cfg sa (if ?b then _ else _) /\ _ => destruct b end.
      * exists s1. split; [apply ir_same; try reflexivity; exists (@nil res); cbn; rewrite app_nil_r; reflexivity|]. split; [reflexivity|]. split; [exact J1|]. left. split; [reflexivity|exact P1].
      * exists (complete_head cfg s1). rewrite complete_job_eq. split; [apply ir_flush_return|]. split; [reflexivity|]. split; [|right; reflexivity].
        intros k0 Hk0. unfold complete_head. rewrite getj_set_mt, getj_set_gh. change (done (mt s1)) with (done (mt s)). fold k.
        rewrite getj_set_job_neq by auto. apply J1; exact Hk0.
    + exists s1. split; [|split; [reflexivity|split; [exact J1|left; split; [reflexivity|exact P1]]]].
      repeat match goal with |- IR _ _ (if ?b then _ else _) => destruct b end; first [apply ir_gen_return|apply ir_flush_return].
  - match goal with |- exists sa, IR cfg sa (if _ then gen_return cfg ?x _ else _) /\ _ => set (s1 := x) end.
    assert (G1 : getj s1 k = j_upd_flush cs (if ck then false else j_ckneed j) (j_flushed j) j).
    { unfold s1. rewrite getj_set_gh. apply getj_set_job_eq. exact Hk. }
    exists s1. split; [|split; [reflexivity|split; [|left; split; [reflexivity|]]]].
    + repeat match goal with |- IR _ _ (if ?b then _ else _) => destruct b end; first [apply ir_gen_return|apply ir_flush_return].
    + intros k0 Hk0. unfold s1. rewrite getj_set_gh. apply Hjobs; exact Hk0.
    + rewrite G1. unfold Pfl. cbn. lia.
Qed.

Lemma fli_ir cfg s s' : IR cfg s s' -> FlI cfg s -> FlI cfg s'.
Proof.
  intros G F i Hi. pose proof G as (D & N & _). assert (Hi0 : inflight s i) by (unfold inflight in *; rewrite D, N in Hi; exact Hi).
  rewrite (ir_inflight_job cfg s s' i G Hi0). apply F; exact Hi0.
Qed.

Lemma fli_none cfg s' : next (mt s') <= done (mt s') -> FlI cfg s'.
Proof. intros H i (A & B). lia. Qed.

(* after the head of the ring has been dealt with *)
Lemma fli_head cfg s sa s' :
  KInv cfg s -> FlI cfg s -> IR cfg sa s' -> next (mt sa) = next (mt s) ->
  (forall k, k <> slot cfg (done (mt s)) -> getj sa k = getj s k) ->
  ((done (mt sa) = done (mt s) /\ (Pfl (getj s (slot cfg (done (mt s)))) -> Pfl (getj sa (slot cfg (done (mt s)))))) \/
   done (mt sa) = done (mt s) + 1) ->
  FlI cfg s'.
Proof.
  intros K F G HN HJ HD i Hi. pose proof G as (D & N & _). destruct (k_rng _ _ K) as (R1 & R2).
  assert (Hia : inflight sa i) by (unfold inflight in *; rewrite D, N in Hi; exact Hi).
  rewrite (ir_inflight_job cfg sa s' i G Hia). destruct Hia as (A & B). rewrite HN in B.
  destruct HD as [(HD & HP)|HD]; rewrite HD in A.
  - assert (Hi0 : inflight s i) by (split; lia).
    destruct (N.eq_dec i (done (mt s))) as [->|Hne]; [apply HP; apply F; exact Hi0|].
    rewrite HJ; [apply F; exact Hi0|]. intro E. symmetry in E. revert E. apply slot_neq; lia.
  - assert (Hi0 : inflight s i) by (split; lia).
    rewrite HJ; [apply F; exact Hi0|]. intro E. symmetry in E. revert E. apply slot_neq; lia.
Qed.

Lemma fli_caller_step cfg w s s' : TInv cfg s -> FInv cfg s -> FlI cfg s -> caller_step cfg w s = Some s' -> FlI cfg s'.
Proof.
  intros TI FI F H. pose proof TI as (K & A). pose proof (k_pc _ _ K) as P. unfold PcInv in P.
  destruct P as (PA & PB & PC & PD & PE & PF & PG). pose proof A as (AT & A1 & A2 & A3 & A4 & A5).
  pose proof (k_len _ _ K) as JL. destruct (k_rng _ _ K) as (R1 & R2).
  assert (Hid : forall x, IR cfg s x -> FlI cfg x) by (intros x G; eapply fli_ir; eauto).
  unfold caller_step in H. cbn zeta in H.
  destruct (c_pc (cl s)) eqn:Epc; try discriminate; cbn [awake relphase] in *.
  - destruct (_ <? _); inv_some H; apply Hid; [apply ir_after_inuse|apply ir_scan_inuse].
  - destruct (overlap_win _ _); inv_some H; apply Hid; [ir_id|apply ir_move_prefix].
  - destruct (overlap_win _ _); inv_some H; apply Hid; [ir_id|apply ir_hand_out].
  - (* CGetBuf *)
    destruct (PB eq_refl) as ((Hlt & _) & _).
    assert (Hal : alldone (mt s) = false).
    { destruct (alldone (mt s)) eqn:X; auto. destruct (A2 eq_refl) as [?|[?|(? & _)]]; discriminate. }
    assert (F0 : j_flushed (getj s (slot cfg (next (mt s)))) = 0).
    { apply (fi_r _ _ FI); auto; [rewrite Epc; reflexivity|]. right. right. rewrite Epc. reflexivity. }
    assert (Hkl : (slot cfg (next (mt s)) < length (jobs s))%nat) by (rewrite JL; apply slot_lt).
    inv_some H. intros i (X & Y). cbn [mt set_cpc set_cl set_mt mt_ring done next] in X, Y.
    rewrite getj_set_cpc, getj_set_mt.
    destruct (N.eq_dec i (next (mt s))) as [->|Hne].
    + rewrite getj_set_job_eq by exact Hkl. destruct (negb _); unfold Pfl; cbn [j_upd_work j_flushed j_csize]; [lia|]. rewrite F0. lia.
    + assert (Hi0 : inflight s i) by (split; lia).
      rewrite getj_set_job_neq by (intro E; symmetry in E; revert E; apply inflight_not_next; auto).
      rewrite getj_set_pl. apply F; exact Hi0.
  - (* CTryAdd *)
    destruct (PA eq_refl) as ((Hlt & _) & _).
    assert (Hal : alldone (mt s) = false).
    { destruct (alldone (mt s)) eqn:X; auto. destruct (A2 eq_refl) as [?|[?|(? & _)]]; discriminate. }
    assert (F0 : j_flushed (getj s (slot cfg (next (mt s)))) = 0).
    { apply (fi_r _ _ FI); auto; [rewrite Epc; reflexivity|]. right. left. rewrite Epc. reflexivity. }
    destruct (_ || _); inv_some H; [apply Hid; ir_id|].
    intros i (X & Y). cbn [mt set_cpc set_cl set_mt mt_ring done next] in X, Y.
    change (Pfl (getj s (slot cfg i))).
    destruct (N.eq_dec i (next (mt s))) as [->|Hne]; [unfold Pfl; rewrite F0; lia|]. apply F. split; lia.
  - (* CFlush *)
    destruct (_ && _); inv_some H; [apply Hid; ir_id|].
    destruct (j_err (getj s (slot cfg (done (mt s))))) eqn:Eerr.
    + apply Hid. unfold flush_body. cbn zeta. rewrite Eerr. apply ir_wait_all.
    + destruct (flush_body_headP cfg s JL Eerr) as (sa & G & HN & HJ & HD). eapply fli_head; eauto.
  - (* CRelBuf *)
    inv_some H. match goal with |- FlI cfg (complete_job cfg ?x) => set (s0 := x) end.
    rewrite complete_job_eq. apply (fli_head cfg s (complete_head cfg s0) _ K F); [apply ir_flush_return|reflexivity| |right; reflexivity].
    intros k0 Hk0. unfold complete_head. rewrite getj_set_mt, getj_set_gh. change (done (mt s0)) with (done (mt s)).
    rewrite getj_set_job_neq by auto. reflexivity.
  - (* CWait *)
    unfold jslot in H. destruct (negb _); inv_some H; [apply Hid; ir_id|].
    match goal with |- FlI cfg (wait_all cfg i ?x) => set (sx := x) end.
    apply (fli_ir cfg sx); [apply ir_wait_all|]. intros i0 (X & Y). cbn [mt sx set_mt mt_ring done next] in X, Y.
    change (Pfl (getj s (slot cfg i0))). apply F. split; lia.
  - (* CRelAll *)
    inv_some H. match goal with |- FlI cfg (rel_scan cfg i ?x ?k1 ?f) => destruct (ir_rel_scan cfg i x k1 f) as (D & N & _) end.
    + cbn [mt zero_slot set_job set_jobs set_pl]. lia.
    + apply fli_none. rewrite D, N. cbn [mt zero_slot set_job set_jobs set_pl]. lia.
  - (* CInitBuf *)
    inv_some H; apply fli_none; cbn; lia.
  - (* CInitSeq *)
    destruct (ldm (mt s)); inv_some H;
    (match goal with |- FlI ?c (finish_op _ ?x ?r) => destruct (ir_finish_op c x r) as (D & N & _) end;
     apply fli_none; rewrite D, N; cbn [mt set_sr set_pl]; lia).
Qed.

Lemma fli_init cfg ops : FlI cfg (init cfg ops).
Proof.
  unfold init. eapply fli_ir; [apply ir_start_ops|]. intros i (A & B). cbn in A, B. lia.
Qed.

(* all the invariants the termination proof uses *)
Definition Inv5 (cfg : config) (s : state) : Prop := Inv4 cfg s /\ FInv cfg s /\ FlI cfg s.

Lemma inv5_step cfg t w s s' : 0 < c_chunk cfg -> Inv5 cfg s -> step cfg t w s = Some s' -> Inv5 cfg s'.
Proof.
  intros Hc (I4 & FI & F) H. pose proof I4 as (TI & _).
  split; [eapply inv4_step; eauto|]. destruct t as [|t]; cbn [step] in H.
  - split; [eapply finv_caller_step; eauto|eapply fli_caller_step; eauto].
  - split; [eapply finv_worker_step; eauto|eapply fli_worker_step; eauto].
Qed.

Theorem inv5_reachable cfg ops sched :
  0 < c_chunk cfg -> ops_ok ops -> Inv5 cfg (run state (step cfg) sched (init cfg ops)).
Proof.
  intros Hc Ho. apply (run_invariant state (step cfg) (Inv5 cfg)).
  - intros s t w s' Hi Hst. eapply inv5_step; eauto.
  - split; [apply inv4_init; auto|]. split; [apply finv_init|apply fli_init].
Qed.
