(* C11: deadlock freedom with long-distance matching (every call program, every payload oracle, every schedule).
   MtErr.no_deadlock_outside_ldm_wait leaves one place where the whole system could halt: the application thread asleep in
   ZSTDMT_waitForLdmComplete (ldmWindowCond).  Here: in that state either a job in flight has not reported - then a pool thread can run -,
   or every job in flight has reported, and then the LDM window cannot overlap the range the caller wants:
   the window holds at most windowSize bytes, ends where the caller's write position continues (geometry invariant MtGeo.WG, with the
   repairs of findings C11-ldm-wait-after-worker-error and C11-serial-turn-skipped-after-error in the model), and the round buffer is
   windowSize + (2 or 3) * targetSectionSize long. *)
From Coq Require Import List NArith ZArith Bool Arith Lia.
Import ListNotations.
From ZV.Conc Require Import Sched SchedLemmas MtModel MtProofs.
From ZV.Conc Require Import MtRing MtRingC MtFrame MtPool MtSleep MtStep MtLive MtErr MtGeo MtGeoC MtGeoW.
Local Open Scope N_scope.

(* ------------------------------------------------------------------ *)
(* a job in flight that has not reported has a pool thread that can run (possibly for an older job whose serial turn comes first) *)

Lemma unreported_has_runner cfg s :
  Inv4 cfg s -> forall n i, (N.to_nat i < n)%nat -> inflight s i -> j_done (getj s (slot cfg i)) = false ->
  exists t, (t < length (ws s))%nat /\ step cfg (S t) 0 s <> None.
Proof.
  intros ((K & A) & SI & P & L). induction n as [|n IH]; intros i Hn Hi Hd; [lia|].
  destruct (k_own _ _ K _ Hi Hd) as [O|(t & w & Hw & Aw & Es)].
  - destruct (p_take _ _ P _ O) as (t & w & Hw & Pw). exists t. split; [apply nth_error_Some; congruence|].
    cbn [step]. intros E. destruct (worker_step_none cfg t s w Hw E) as [X|X]; congruence.
  - destruct (worker_step cfg t s) as [s1|] eqn:E.
    + exists t. split; [apply nth_error_Some; congruence|]. cbn [step]. rewrite E. discriminate.
    + destruct (worker_step_none cfg t s w Hw E) as [X|X]; [rewrite X in Aw; discriminate|].
      (* asleep on serial.cond: the job whose turn it is is older, in flight and has not reported *)
      pose proof (s_slp _ _ SI t w Hw X) as H1. pose proof (l_slp _ _ L t w Hw X) as H2.
      rewrite Es in H1. rewrite (k_ids _ _ K _ Hi) in H1.
      assert (Hi' : inflight s (s_next (sr s))) by (destruct Hi; split; lia).
      destruct (j_done (getj s (slot cfg (s_next (sr s))))) eqn:Hd'.
      * exfalso. destruct (l_ser _ _ L _ Hi' (N.le_refl _) Hd') as (Y & _). destruct Hi. lia.
      * apply (IH (s_next (sr s))); auto. lia.
Qed.

(* ------------------------------------------------------------------ *)
(* arithmetic: a window that ends where the caller continues does not reach the ranges ZSTDMT_tryGetInputRange asks for *)

Lemma overlap_win_false b el eh pl ph :
  overlap b (el, eh - el) = false -> overlap b (pl, ph - pl) = false -> overlap_win b (el, eh, pl, ph) = false.
Proof. intros A B. unfold overlap_win. rewrite A, B. reflexivity. Qed.

Section Arith.
  Variables (cfg : config) (m : mtc) (el eh pl ph Lp : N).
  Hypothesis B : BGeo cfg m.
  Hypothesis W1 : el <= eh.
  Hypothesis W2 : pl <= ph.
  Hypothesis W3 : (eh - el) + (ph - pl) <= wsize m.
  Hypothesis L2 : ph <= rcap m.
  Hypothesis L3 : el < eh -> 1 <= Lp /\ eh <= rcap m /\ rcap m < eh + target m /\ pl <= ptarget m.
  Hypothesis CC : ContC m Lp ph.

  Lemma ldm2_free : rpos m + target m <= rcap m -> overlap_win (rpos m, target m) (el, eh, pl, ph) = false.
  Proof.
    intros Hr. destruct (cap_bounds _ _ B) as (_ & Hc). pose proof (bg_t _ _ B) as Ht. pose proof (bg_ps _ _ B) as Hp.
    apply overlap_win_false; apply overlap_false; cbn [fst snd].
    - destruct (N.eq_dec el eh) as [E|E]; [right; left; lia|]. destruct (L3 ltac:(lia)) as (X1 & X2 & X3 & X4).
      destruct CC as [(C1 & C2)|(C1 & C2 & C3)]; [right; right; right; lia|exfalso; lia].
    - destruct CC as [(C1 & C2)|(C1 & C2 & C3)]; [right; right; left; lia|].
      destruct (N.eq_dec el eh) as [E|E]; [|destruct (L3 ltac:(lia)) as (X1 & X2 & X3 & X4); exfalso; lia].
      right. right. right. lia.
  Qed.

  Lemma ldm1_free : rpos m <= rcap m -> rcap m - rpos m < target m -> overlap_win (0, psize m) (el, eh, pl, ph) = false.
  Proof.
    intros Hr Hw. destruct (cap_bounds _ _ B) as (_ & Hc). pose proof (bg_t _ _ B) as Ht. pose proof (bg_ps _ _ B) as Hp.
    destruct CC as [(C1 & C2)|(C1 & C2 & C3)]; [|exfalso; lia].
    assert (E : el = eh).
    { destruct (N.eq_dec el eh) as [E|E]; auto. destruct (L3 ltac:(lia)) as (X1 & X2 & X3 & X4). exfalso. lia. }
    apply overlap_win_false; apply overlap_false; cbn [fst snd].
    - right. left. lia.
    - right. right. right. lia.
  Qed.
End Arith.

(* ------------------------------------------------------------------ *)
(* the caller asleep in ZSTDMT_waitForLdmComplete *)

Theorem ldm_wait_not_stuck cfg ops sched :
  0 < c_chunk cfg -> ops_ok ops -> geo_ops ops ->
  let s := run state (step cfg) sched (init cfg ops) in
  c_pc (cl s) = CLdm1Z \/ c_pc (cl s) = CLdm2Z -> stuck cfg s = false.
Proof.
  intros Hc Ho Hg s Hpc.
  pose proof (allinv4_reachable cfg ops sched Hc Ho) as I4. fold s in I4. pose proof I4 as ((K & A) & SI & P & L).
  destruct (ginv_reachable cfg ops sched Hc Ho Hg) as (_ & (Sy & Sle0) & GI). fold s in Sy, Sle0, GI.
  assert (Sle : s_next (sr s) <= next (mt s)).
  { destruct Sle0 as [X|(X & _)]; [exact X|]. destruct Hpc as [E|E]; rewrite E in X; discriminate. }
  unfold stuck. destruct (caller_done s) eqn:Ed; [reflexivity|]. cbn [negb andb].
  assert (Hne : enabled_list cfg s <> []); [|destruct (enabled_list cfg s); [contradiction|reflexivity]].
  (* is there a job in flight that has not reported? *)
  assert (Hdec : (exists i, inflight s i /\ j_done (getj s (slot cfg i)) = false) \/ (forall i, inflight s i -> j_done (getj s (slot cfg i)) = true)).
  { assert (X : forall n, (exists i, inflight s i /\ i < done (mt s) + N.of_nat n /\ j_done (getj s (slot cfg i)) = false) \/
                        (forall i, inflight s i -> i < done (mt s) + N.of_nat n -> j_done (getj s (slot cfg i)) = true)).
    { induction n as [|n [IH|IH]]; rewrite ?Nat2N.inj_succ.
      - right. intros i (X & _) Y. cbn in Y. lia.
      - left. destruct IH as (i & H1 & H2 & H3). exists i. split; [exact H1|]. split; [lia|exact H3].
      - set (i0 := done (mt s) + N.of_nat n).
        destruct (N.ltb i0 (next (mt s))) eqn:E; [apply N.ltb_lt in E|apply N.ltb_ge in E].
        + destruct (j_done (getj s (slot cfg i0))) eqn:D.
          * right. intros i Hi Hlt. destruct (N.eq_dec i i0) as [->|Hx]; auto. apply IH; auto. unfold i0 in *. lia.
          * left. exists i0. split; [split; unfold i0; lia|]. split; [unfold i0; lia|exact D].
        + right. intros i Hi Hlt. apply IH; auto. destruct Hi. unfold i0 in *. lia. }
    destruct (X (N.to_nat (next (mt s) - done (mt s)))) as [(i & H1 & _ & H3)|H]; [left; exists i; auto|right].
    intros i Hi. apply H; auto. destruct Hi. lia. }
  destruct Hdec as [(i & Hi & Hd)|Hall].
  { destruct (unreported_has_runner cfg s I4 (S (N.to_nat i)) i ltac:(lia) Hi Hd) as (t & Ht & Hs).
    apply (enabled_nonempty cfg s (S t)); [lia|exact Hs]. }
  (* every job in flight has reported: the window cannot overlap the wanted range *)
  exfalso.
  pose proof A as (AT & A1 & A2 & A3 & A4 & A5).
  assert (Hin : inpc (awake (c_pc (cl s))) = true) by (destruct Hpc as [E|E]; rewrite E; reflexivity).
  assert (Hcin : 0 < c_in (cl s)) by (apply A3; exact Hin).
  assert (He : ended (mt s) = false).
  { destruct (ended (mt s)) eqn:X; auto. destruct (A1 eq_refl) as [Y|Y]; [lia|]. destruct Hpc as [E|E]; rewrite E in Y; discriminate. }
  assert (Ha : alldone (mt s) = false).
  { destruct (alldone (mt s)) eqn:X; auto. destruct (A2 eq_refl) as [Y|[Y|(Y & _)]]; destruct Hpc as [E|E]; rewrite E in Y; discriminate. }
  assert (Hr : relphase (awake (c_pc (cl s))) = false) by (destruct Hpc as [E|E]; rewrite E; reflexivity).
  (* serial.nextJobID = nextJobID *)
  assert (Hsn : s_next (sr s) = next (mt s)).
  { destruct (N.lt_ge_cases (s_next (sr s)) (next (mt s))) as [Hlt|Hge]; [|lia]. exfalso.
    destruct (N.lt_ge_cases (s_next (sr s)) (done (mt s))) as [Hd|Hd].
    - destruct (l_sd _ _ L Hd) as (_ & (E & _)). congruence.
    - assert (Hi : inflight s (s_next (sr s))) by (split; auto).
      destruct (l_ser _ _ L _ Hi (N.le_refl _) (Hall _ Hi)) as (_ & (E & _)). congruence. }
  destruct (ginv_gm cfg s GI Ha Hr) as [(_ & E)|(G & PG)]; [destruct Hpc as [X|X]; rewrite X in E; discriminate|].
  pose proof (gm_b _ _ _ G) as B. pose proof (gm_win _ _ _ G) as W.
  unfold PcGeo in PG. unfold WG in W.
  destruct Hpc as [E|E]; rewrite E in PG; cbn [awake] in PG; destruct PG as (Hh & Er & U & (Hw & Hl) & Hov0).
  - (* before the prefix move *)
    pose proof (s_lz1 _ _ SI E) as Hov. rewrite Sy in Hov. specialize (W Hl He).
    destruct (s_w (sr s)) as [[[el eh] pl] ph]. destruct W as (W1 & W2 & W3 & W4).
    destruct W4 as [(X1 & X2)|(Lp & L1 & L2 & L3 & L4 & L5)].
    + subst. unfold overlap_win, overlap in Hov. cbn [fst snd] in Hov. rewrite !N.sub_diag in Hov. cbn in Hov. rewrite !orb_true_r in Hov. discriminate.
    + assert (Hpb : pbof s = false) by (unfold pbof; rewrite Er, E; reflexivity).
      assert (Hf : overlap_win (0, psize (mt s)) (el, eh, pl, ph) = false) by (eapply ldm1_free with (Lp := Lp); eauto; apply (bg_rp _ _ B)).
      rewrite Hf in Hov. discriminate.
  - (* before handing out the buffer *)
    pose proof (s_lz2 _ _ SI E) as Hov. rewrite Sy in Hov. specialize (W Hl He).
    destruct (s_w (sr s)) as [[[el eh] pl] ph]. destruct W as (W1 & W2 & W3 & W4).
    destruct W4 as [(X1 & X2)|(Lp & L1 & L2 & L3 & L4 & L5)].
    + subst. unfold overlap_win, overlap in Hov. cbn [fst snd] in Hov. rewrite !N.sub_diag in Hov. cbn in Hov. rewrite !orb_true_r in Hov. discriminate.
    + assert (Hpb : pbof s = false) by (unfold pbof; rewrite Er, E; reflexivity).
      assert (Hroom : rpos (mt s) + target (mt s) <= rcap (mt s)) by (pose proof (bg_t _ _ B); lia).
      assert (Hf : overlap_win (rpos (mt s), target (mt s)) (el, eh, pl, ph) = false) by (eapply ldm2_free with (Lp := Lp); eauto).
      rewrite Hf in Hov. discriminate.
Qed.

(* mt_deadlock_free: every call program (LDM included), every payload oracle (worker-side failures included), every schedule *)
Theorem deadlock_free_all cfg ops sched :
  0 < c_chunk cfg -> ops_ok ops -> geo_ops ops -> stuck cfg (run state (step cfg) sched (init cfg ops)) = false.
Proof.
  intros Hc Ho Hg. set (s := run state (step cfg) sched (init cfg ops)).
  destruct (c_pc (cl s)) eqn:E;
    try (apply (ldm_wait_not_stuck cfg ops sched Hc Ho Hg); fold s; rewrite E; auto; fail);
    apply (no_deadlock_outside_ldm_wait cfg ops sched Hc Ho); fold s; rewrite E; discriminate.
Qed.
