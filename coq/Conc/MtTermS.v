(* C11, termination under fairness, part 4: infinite schedules, fairness. *)
From Coq Require Import List NArith ZArith Bool Arith Lia.
Import ListNotations.
From ZV.Conc Require Import Sched SchedLemmas MtModel MtProofs MtRing MtRingC MtPool MtFrame MtSleep MtStep MtLive MtErr MtTermDefs MtTermW MtTermA.
Local Open Scope nat_scope.
(* ------------------------------------------------------------------ *)
(* infinite schedules                                                   *)

Definition prefix (sigma : nat -> nat * nat) (n : nat) : list (nat * nat) := map sigma (seq 0 n).

Lemma prefix_S sigma n : prefix sigma (S n) = prefix sigma n ++ [sigma n].
Proof. unfold prefix. rewrite seq_S, map_app. reflexivity. Qed.

(* the state after the first n picks of sigma, from s0 *)
Definition state_from (cfg : config) (s0 : state) (sigma : nat -> nat * nat) (n : nat) : state :=
  run state (step cfg) (prefix sigma n) s0.
Definition state_at (cfg : config) (ops : list cop) (sigma : nat -> nat * nat) (n : nat) : state :=
  state_from cfg (init cfg ops) sigma n.

Lemma state_from_S cfg s0 sigma n :
  state_from cfg s0 sigma (S n) = exec state (step cfg) (state_from cfg s0 sigma n) (sigma n).
Proof. unfold state_from. rewrite prefix_S, run_app. reflexivity. Qed.

Lemma state_from_reach cfg ops sched0 sigma n :
  state_from cfg (run state (step cfg) sched0 (init cfg ops)) sigma n = run state (step cfg) (sched0 ++ prefix sigma n) (init cfg ops).
Proof. unfold state_from. rewrite run_app. reflexivity. Qed.

(* every thread (0 = the application, 1..nbWorkers = the pool threads) is picked again and again *)
Definition fair (cfg : config) (sigma : nat -> nat * nat) : Prop :=
  forall i t, t <= c_nbw cfg -> exists j, i <= j /\ fst (sigma j) = t.

Lemma round_robin_fair cfg : fair cfg (fun i => (i mod S (c_nbw cfg), 0)).
Proof.
  intros i t Ht. exists (i * S (c_nbw cfg) + t). split; [nia|]. cbn [fst].
  rewrite Nat.add_comm, Nat.mod_add by lia. apply Nat.mod_small. lia.
Qed.

(* enabledness does not depend on the wake choice *)
Lemma step_none_choice cfg t w w' s : step cfg t w s = None -> step cfg t w' s = None.
Proof.
  destruct t as [|t]; cbn [step]; [|auto].
  unfold caller_step. cbn zeta. destruct (c_pc (cl s)); auto;
    repeat match goal with |- context[if ?b then _ else _] => destruct b end; auto; discriminate.
Qed.

(* a thread that can run is picked at some later index; until the first effective pick the state does not change *)
Lemma fair_next_step cfg s0 sigma i t :
  fair cfg sigma -> t <= c_nbw cfg -> step cfg t 0 (state_from cfg s0 sigma i) <> None ->
  exists k, i <= k /\ state_from cfg s0 sigma k = state_from cfg s0 sigma i /\
            step cfg (fst (sigma k)) (snd (sigma k)) (state_from cfg s0 sigma k) <> None.
Proof.
  intros Hf Ht Hen. destruct (Hf i t Ht) as (j & Hij & Hj).
  assert (Hsearch : forall d, (exists k, i <= k /\ k < i + d /\ state_from cfg s0 sigma k = state_from cfg s0 sigma i /\
                                  step cfg (fst (sigma k)) (snd (sigma k)) (state_from cfg s0 sigma k) <> None)
                              \/ state_from cfg s0 sigma (i + d) = state_from cfg s0 sigma i).
  { induction d as [|d IH]; [right; f_equal; lia|].
    destruct IH as [(k & H1 & H2 & H3)|Heq]; [left; exists k; repeat split; try tauto; lia|].
    destruct (step cfg (fst (sigma (i + d))) (snd (sigma (i + d))) (state_from cfg s0 sigma (i + d))) as [s'|] eqn:Es.
    - left. exists (i + d). repeat split; try lia; auto. rewrite Es. discriminate.
    - right. replace (i + S d) with (S (i + d)) by lia. rewrite state_from_S. unfold exec. rewrite Es. exact Heq. }
  destruct (Hsearch (j - i)) as [(k & H1 & H2 & H3 & H4)|Heq].
  - exists k. auto.
  - replace (i + (j - i)) with j in Heq by lia. exists j. split; auto. split; auto. rewrite Heq, Hj.
    intros Hnone. apply (step_none_choice _ _ _ 0) in Hnone. contradiction.
Qed.
