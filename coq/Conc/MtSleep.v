(* C11: no lost wake-up.  In every reachable state, under every schedule, the condition a sleeping thread waits for is still false:
   - the caller asleep on a job_cond (ZSTDMT_flushProduced / ZSTDMT_waitForAllJobsCompleted): the job is in flight and its worker has
     not made its final report (which signals), and the job is in the queue or on a pool thread;
   - a pool thread asleep on serial.cond: serial.nextJobID is still below its job id (every change of nextJobID broadcasts);
   - the caller asleep on ldmWindowCond: the range it wants still overlaps ldmWindow (every change of ldmWindow signals).
   (queuePopCond: MtPool.pool_no_lost_wakeup.) *)
From Coq Require Import List NArith ZArith Bool Arith Lia.
Import ListNotations.
From ZV.Conc Require Import Sched SchedLemmas MtModel MtProofs.
From ZV.Conc Require Import MtRing MtRingC MtFrame.
Local Open Scope N_scope.

(* ------------------------------------------------------------------ *)
(* the caller's code never leaves it "asleep": only the two wait loops do *)

Definition nzp (p : cpc) : bool := match p with CFlushZ | CWaitZ _ | CLdm1Z | CLdm2Z => false | _ => true end.
Definition NZ (s : state) : Prop := nzp (c_pc (cl s)) = true.

Ltac nz_if := repeat match goal with |- NZ (if ?b then _ else _) => destruct b end.

Lemma nz_create_job cfg s e : NZ (create_job cfg s e).
Proof. unfold create_job. nz_if; reflexivity. Qed.
Lemma nz_create_phase cfg s : NZ (create_phase cfg s).
Proof. unfold create_phase. nz_if; [apply nz_create_job|reflexivity]. Qed.
Lemma nz_fill_phase cfg s : NZ (fill_phase cfg s).
Proof. unfold fill_phase. destruct (ihas (mt s)); [|apply nz_create_phase]. destruct (sync_point _ _ _). apply nz_create_phase. Qed.
Lemma nz_hand_out cfg s : NZ (hand_out cfg s). Proof. apply nz_fill_phase. Qed.
Lemma nz_after_wrap cfg s : NZ (after_wrap cfg s).
Proof. unfold after_wrap. nz_if; first [apply nz_fill_phase|apply nz_hand_out|reflexivity]. Qed.
Lemma nz_move_prefix cfg s : NZ (move_prefix cfg s). Proof. apply nz_after_wrap. Qed.
Lemma nz_after_inuse cfg s u : NZ (after_inuse cfg s u).
Proof. unfold after_inuse. cbn zeta. nz_if; first [apply nz_fill_phase|apply nz_move_prefix|apply nz_after_wrap|reflexivity]. Qed.
Lemma nz_scan_inuse cfg s j : NZ (scan_inuse cfg s j).
Proof. unfold scan_inuse. nz_if; [reflexivity|apply nz_after_inuse]. Qed.
Lemma nz_gen_body cfg s : NZ (gen_body cfg s).
Proof. unfold gen_body. nz_if; first [apply nz_scan_inuse|apply nz_fill_phase|apply nz_create_phase]. Qed.
Lemma nz_rel_scan_k i kd : (forall s1, NZ (kd s1)) -> forall f s k, NZ (rel_scan_k i kd s k f).
Proof. intros H. induction f; intros s k; cbn [rel_scan_k]; [apply H|]. nz_if; first [reflexivity|apply IHf|apply H]. Qed.
Lemma nz_start_ops cfg ops : forall s, NZ (start_ops cfg s ops).
Proof.
  induction ops as [|o r IH]; intros s; cbn [start_ops]; [reflexivity|].
  destruct o as [fp|e i o].
  - nz_if; try reflexivity. apply nz_rel_scan_k. intros; reflexivity.
  - nz_if; try reflexivity; [|apply nz_gen_body]. destruct r as [|[fp|e' i' o'] r']; first [reflexivity|apply IH].
Qed.
Lemma nz_finish_op cfg s r : NZ (finish_op cfg s r). Proof. apply nz_start_ops. Qed.
Lemma nz_rel_scan cfg i s k f : NZ (rel_scan cfg i s k f).
Proof. unfold rel_scan. apply nz_rel_scan_k. intros. destruct i; [reflexivity|apply nz_finish_op]. Qed.
Lemma nz_wait_all cfg i s : NZ (wait_all cfg i s).
Proof. unfold wait_all. nz_if; [reflexivity|apply nz_rel_scan]. Qed.
Lemma nz_gen_again cfg s : NZ (gen_again cfg s).
Proof. unfold gen_again. nz_if; [apply nz_finish_op|apply nz_gen_body]. Qed.
Lemma nz_gen_return cfg s v : NZ (gen_return cfg s v).
Proof. unfold gen_return. nz_if; first [apply nz_finish_op|apply nz_gen_again]. Qed.
Lemma nz_flush_return cfg s : NZ (flush_return cfg s).
Proof. unfold flush_return. destruct (flush_tail _ _). apply nz_gen_return. Qed.
Lemma nz_complete_job cfg s : NZ (complete_job cfg s). Proof. apply nz_flush_return. Qed.
Lemma nz_flush_body cfg s : NZ (flush_body cfg s).
Proof.
  unfold flush_body. cbn zeta. nz_if; first [apply nz_wait_all|reflexivity|apply nz_complete_job|apply nz_gen_return|apply nz_flush_return].
Qed.

(* ------------------------------------------------------------------ *)
(* the invariant                                                        *)

Definition jobz (p : cpc) : bool := match p with CFlushZ | CWaitZ _ => true | _ => false end.

Record SInv (cfg : config) (s : state) : Prop := mkSI {
  s_jd : forall i, inflight s i -> j_done (getj s (slot cfg i)) = true ->
           j_consumed (getj s (slot cfg i)) = j_size (getj s (slot cfg i));
  s_slp : forall t w, nth_error (ws s) t = Some w -> w_pc w = WSerialZ -> s_next (sr s) < j_id (getj s (w_slot w));
  s_cz : jobz (c_pc (cl s)) = true -> done (mt s) < next (mt s) /\ j_done (getj s (slot cfg (done (mt s)))) = false;
  s_lz1 : c_pc (cl s) = CLdm1Z -> overlap_win (0, psize (mt s)) (s_lw (sr s)) = true;
  s_lz2 : c_pc (cl s) = CLdm2Z -> overlap_win (rpos (mt s), target (mt s)) (s_lw (sr s)) = true }.

(* ------------------------------------------------------------------ *)
(* pool threads                                                         *)

(* a pool thread updates its own job (or nothing: j' = the job as it is) and moves to w'; the serial state is not touched; the caller is
   either left where it is or woken from a job_cond *)
Lemma sinv_worker_job cfg s s' t w w' j' :
  KInv cfg s -> SInv cfg s ->
  nth_error (ws s) t = Some w -> active (w_pc w) = true -> w_slot w' = w_slot w ->
  mt s' = mt s -> sr s' = sr s -> ws s' = upd t w' (ws s) ->
  (forall k0, getj s' k0 = if Nat.eq_dec (w_slot w) k0 then j' else getj s k0) ->
  j_id j' = j_id (getj s (w_slot w)) -> (j_done j' = true -> j_consumed j' = j_size j') ->
  (w_pc w' = WSerialZ -> s_next (sr s) < j_id j') ->
  (c_pc (cl s') = c_pc (cl s) /\ (jobz (c_pc (cl s)) = true -> w_slot w = slot cfg (done (mt s)) -> j_done j' = false)) \/
  (jobz (c_pc (cl s)) = true /\ nzp (c_pc (cl s')) = true) ->
  SInv cfg s'.
Proof.
  intros K [JD SLP CZ LZ1 LZ2] Hw Ha Hsl Hm Hs Hws Hg Hid Hjd Hz Hc.
  assert (Htl : (t < length (ws s))%nat) by (apply nth_error_Some; congruence).
  assert (Hin : forall i, inflight s' i <-> inflight s i) by (intros; unfold inflight; rewrite Hm; tauto).
  constructor.
  - intros i Hi. apply Hin in Hi. rewrite Hg. destruct (Nat.eq_dec _ _); auto.
  - intros t1 w1 H1 P1. rewrite Hws in H1. apply nth_error_upd_inv in H1. rewrite Hs.
    destruct H1 as [(-> & -> & _)|(Hne & H1)].
    + rewrite Hsl, Hg. destruct (Nat.eq_dec _ _); [auto|congruence].
    + rewrite Hg. destruct (Nat.eq_dec _ _) as [E|E]; [|eapply SLP; eauto].
      exfalso. apply Hne. eapply (k_uniq _ _ K); eauto. rewrite P1. reflexivity.
  - rewrite Hm. destruct Hc as [(E & Hd)|(_ & E)]; [|intros X; destruct (c_pc (cl s')); discriminate].
    rewrite E. intros X. destruct (CZ X) as (C1 & C2). split; auto.
    rewrite Hg. destruct (Nat.eq_dec _ _) as [E1|E1]; auto.
  - rewrite Hm, Hs. destruct Hc as [(E & _)|(Z & E)].
    + rewrite E. exact LZ1.
    + intros X. rewrite X in E. discriminate.
  - rewrite Hm, Hs. destruct Hc as [(E & _)|(Z & E)].
    + rewrite E. exact LZ2.
    + intros X. rewrite X in E. discriminate.
Qed.

Lemma wake_job_cases cfg k s :
  (c_pc (cl (wake_caller_job cfg k s)) = c_pc (cl s) /\ (jobz (c_pc (cl s)) = true -> k <> slot cfg (done (mt s)))) \/
  (jobz (c_pc (cl s)) = true /\ nzp (c_pc (cl (wake_caller_job cfg k s))) = true).
Proof.
  unfold wake_caller_job. destruct (c_pc (cl s)) eqn:E; try (left; split; [cbn; auto|cbn; discriminate]).
  - destruct (Nat.eqb _ _) eqn:E1; [right; split; reflexivity|left; split; [cbn; auto|]]. intros _ X. apply Nat.eqb_neq in E1. congruence.
  - destruct (Nat.eqb _ _) eqn:E1; [right; split; reflexivity|left; split; [cbn; auto|]]. intros _ X. apply Nat.eqb_neq in E1. congruence.
Qed.

Lemma wake_serial_noz l t w : nth_error (wake_serial l) t = Some w -> w_pc w <> WSerialZ.
Proof.
  unfold wake_serial. rewrite nth_error_map. destruct (nth_error l t) as [w0|]; [|discriminate]. cbn. intros H; inversion H; subst.
  destruct (w_pc w0) eqn:E; cbn; rewrite ?E; discriminate.
Qed.

(* a pool thread passes through the serial section: nextJobID moves, every sleeper on serial.cond is woken, the caller is woken from
   ldmWindowCond when the window changes *)
Lemma sinv_worker_serial cfg s s' t w w' r' :
  KInv cfg s -> SInv cfg s ->
  nth_error (ws s) t = Some w -> w_pc w' <> WSerialZ ->
  mt s' = mt s -> jobs s' = jobs s -> sr s' = r' -> ws s' = upd t w' (wake_serial (ws s)) ->
  (c_pc (cl s') = c_pc (cl s) /\ s_lw r' = s_lw (sr s)) \/ (c_pc (cl s') <> CLdm1Z /\ c_pc (cl s') <> CLdm2Z /\ jobz (c_pc (cl s')) = jobz (c_pc (cl s))) ->
  SInv cfg s'.
Proof.
  intros K [JD SLP CZ LZ1 LZ2] Hw Hz Hm Hj Hs Hws Hc.
  assert (Hg : forall k, getj s' k = getj s k) by (intros; unfold getj; rewrite Hj; reflexivity).
  constructor.
  - intros i Hi. rewrite Hg. apply JD. unfold inflight in *. rewrite Hm in Hi. exact Hi.
  - intros t1 w1 H1 P1. exfalso. rewrite Hws in H1. apply nth_error_upd_inv in H1.
    destruct H1 as [(-> & -> & _)|(_ & H1)]; [contradiction|]. apply wake_serial_noz in H1. contradiction.
  - rewrite Hm, Hg. destruct Hc as [(E & _)|(_ & _ & E)]; rewrite E; exact CZ.
  - rewrite Hm, Hs. destruct Hc as [(E & E2)|(E & _)]; [rewrite E, E2; exact LZ1|intros X; contradiction].
  - rewrite Hm, Hs. destruct Hc as [(E & E2)|(_ & E & _)]; [rewrite E, E2; exact LZ2|intros X; contradiction].
Qed.

Lemma wake_ldm_cases s :
  c_pc (cl (wake_caller_ldm s)) <> CLdm1Z /\ c_pc (cl (wake_caller_ldm s)) <> CLdm2Z /\ jobz (c_pc (cl (wake_caller_ldm s))) = jobz (c_pc (cl s)).
Proof. unfold wake_caller_ldm. destruct (c_pc (cl s)) eqn:E; cbn; rewrite ?E; repeat split; discriminate. Qed.

Lemma sinv_worker_nojob cfg s s' t w' :
  SInv cfg s -> w_pc w' <> WSerialZ ->
  mt s' = mt s -> sr s' = sr s -> jobs s' = jobs s -> cl s' = cl s -> ws s' = upd t w' (ws s) -> SInv cfg s'.
Proof.
  intros [JD SLP CZ LZ1 LZ2] Hz Hm Hs Hj Hc Hws.
  assert (Hg : forall k, getj s' k = getj s k) by (intros; unfold getj; rewrite Hj; reflexivity).
  constructor; rewrite ?Hm, ?Hs, ?Hc; auto.
  - intros i Hi. rewrite Hg. apply JD. unfold inflight in *. rewrite Hm in Hi. exact Hi.
  - intros t1 w1 H1 P1. rewrite Hws in H1. apply nth_error_upd_inv in H1.
    destruct H1 as [(-> & -> & _)|(_ & H1)]; [contradiction|]. rewrite Hg. eapply SLP; eauto.
  - rewrite Hg. exact CZ.
Qed.

Lemma getj_upd_eq_dec s k j' k0 : (k < length (jobs s))%nat ->
  getj (set_job k j' s) k0 = if Nat.eq_dec k k0 then j' else getj s k0.
Proof. intros H. destruct (Nat.eq_dec k k0) as [<-|Hne]; [apply getj_set_job_eq; auto|apply getj_set_job_neq; auto]. Qed.

Lemma sinv_wake_job cfg k s : SInv cfg s -> SInv cfg (wake_caller_job cfg k s).
Proof.
  intros [JD SLP CZ LZ1 LZ2]. destruct (wake_job_proj cfg k s) as (Em & Ej & Es & Ep & Ew & Eg).
  assert (Hg : forall k0, getj (wake_caller_job cfg k s) k0 = getj s k0) by (intros; unfold getj; rewrite Ej; reflexivity).
  destruct (wake_job_cases cfg k s) as [(E & _)|(Z & E)].
  - constructor; rewrite ?Em, ?Es, ?Ew, ?E; auto.
    + intros i Hi. rewrite Hg. apply JD. unfold inflight in *. rewrite Em in Hi. exact Hi.
    + intros t w H P. rewrite Hg. eapply SLP; eauto.
    + rewrite Hg. exact CZ.
  - constructor; rewrite ?Em, ?Es, ?Ew; auto.
    + intros i Hi. rewrite Hg. apply JD. unfold inflight in *. rewrite Em in Hi. exact Hi.
    + intros t w H P. rewrite Hg. eapply SLP; eauto.
    + intros X. destruct (c_pc (cl (wake_caller_job cfg k s))); discriminate.
    + intros X. rewrite X in E. discriminate.
    + intros X. rewrite X in E. discriminate.
Qed.

Lemma wake_set_job_comm cfg k k' j s : wake_caller_job cfg k (set_job k' j s) = set_job k' j (wake_caller_job cfg k s).
Proof. unfold wake_caller_job. cbn [cl mt set_job set_jobs]. destruct (c_pc (cl s)); try reflexivity; destruct (Nat.eqb _ _); reflexivity. Qed.

Lemma wake_job_noz cfg k s : jobz (c_pc (cl (wake_caller_job cfg k s))) = true -> k <> slot cfg (done (mt s)).
Proof.
  unfold wake_caller_job. destruct (c_pc (cl s)) eqn:E; cbn; rewrite ?E; try discriminate;
    (destruct (Nat.eqb _ _) eqn:E1; cbn; rewrite ?E; [discriminate|]; intros _ X; apply Nat.eqb_neq in E1; congruence).
Qed.

(* the common case: state [set_w t w' (set_job k j' X)] where X differs from s only in the pools *)
Lemma sinv_worker_job' cfg s X t w w' j' :
  KInv cfg s -> SInv cfg s ->
  nth_error (ws s) t = Some w -> active (w_pc w) = true -> w_slot w' = w_slot w ->
  mt X = mt s -> sr X = sr s -> ws X = ws s -> jobs X = jobs s -> cl X = cl s ->
  j_id j' = j_id (getj s (w_slot w)) -> (j_done j' = true -> j_consumed j' = j_size j') ->
  (w_pc w' = WSerialZ -> s_next (sr s) < j_id j') ->
  (jobz (c_pc (cl s)) = true -> w_slot w = slot cfg (done (mt s)) -> j_done j' = false) ->
  SInv cfg (set_w t w' (set_job (w_slot w) j' X)).
Proof.
  intros K S Hw Ha Hsl Hm Hs Hws Hj Hc Hid Hjd Hz Hd.
  assert (Hk : (w_slot w < length (jobs s))%nat).
  { destruct (k_wrk _ _ K t w Hw Ha) as (i & _ & E & _). rewrite E, (k_len _ _ K). apply slot_lt. }
  eapply sinv_worker_job with (w := w) (j' := j'); eauto; cbn [mt sr ws cl set_w set_ws set_job set_jobs]; try congruence.
  - intros k0. unfold getj. cbn [jobs set_w set_ws set_job set_jobs]. rewrite Hj.
    destruct (Nat.eq_dec (w_slot w) k0) as [<-|Hne]; [apply nth_upd_eq; auto|apply nth_upd_neq; auto].
  - left. split; [congruence|exact Hd].
Qed.

Lemma next_chunk_noz cfg w j p c : w_pc (next_chunk cfg w j p c) <> WSerialZ.
Proof. unfold next_chunk, last_block. repeat match goal with |- context[if ?b then _ else _] => destruct b end; cbn; discriminate. Qed.

Lemma sinv_worker_step cfg t s s' :
  0 < c_chunk cfg -> KInv cfg s -> SInv cfg s -> worker_step cfg t s = Some s' -> SInv cfg s'.
Proof.
  intros Hch K S H. unfold worker_step in H.
  destruct (nth_error (ws s) t) as [w|] eqn:Hw; [|discriminate].
  destruct (w_pc w) eqn:Epc; try discriminate.
  - (* WIdle *)
    destruct (q (pl s)); [destruct (Nat.leb _ _)|]; inv_some H; (eapply sinv_worker_nojob; [exact S|..]; try reflexivity; cbn; discriminate).
  - inv_some H. eapply sinv_worker_nojob; [exact S|..]; try reflexivity.
    destruct (sp_on (pl s)); cbn; [discriminate|]. unfold after_getseq; cbn. destruct (_ || _); cbn; discriminate.
  - inv_some H. eapply sinv_worker_nojob; [exact S|..]; try reflexivity.
    unfold after_getseq; cbn. destruct (w_cctx w); cbn; discriminate.
  - (* WGetBuf *)
    destruct (negb _); inv_some H; (eapply sinv_worker_nojob; [exact S|..]; try reflexivity; cbn; discriminate).
  - (* WSetDst *)
    assert (G : forall w', w_slot w' = w_slot w -> w_pc w' <> WSerialZ ->
                SInv cfg (set_w t w' (set_job (w_slot w) (j_set_dst true (getj s (w_slot w))) s))).
    { intros w' E1 E2. eapply sinv_worker_job' with (w := w) (X := s); eauto; try reflexivity; try (rewrite Epc; reflexivity); cbn [j_set_dst j_done j_consumed j_size j_id].
      - intros X. destruct (k_wrk _ _ K t w Hw) as (i & Hi & E & _); [rewrite Epc; reflexivity|]. rewrite E in *. apply (s_jd _ _ S); auto.
      - intros X. contradiction.
      - intros Z E. destruct (s_cz _ _ S Z) as (_ & D). rewrite E. exact D. }
    repeat match type of H with (if ?b then _ else _) = _ => destruct b end; inv_some H; apply G; cbn; auto; discriminate.
  - (* WJobErr *)
    inv_some H. eapply sinv_worker_job' with (w := w) (X := s); eauto; try reflexivity; try (rewrite Epc; reflexivity); cbn [j_upd_work j_done j_consumed j_size j_id w_pc w_set_pc]; try discriminate.
    + intros X. destruct (k_wrk _ _ K t w Hw) as (i & Hi & E & _); [rewrite Epc; reflexivity|]. rewrite E in *. apply (s_jd _ _ S); auto.
    + intros Z E. destruct (s_cz _ _ S Z) as (_ & D). rewrite E. exact D.
  - (* WSerial *)
    assert (Ha : active (w_pc w) = true) by (rewrite Epc; reflexivity).
    destruct (k_wrk _ _ K t w Hw Ha) as (i & Hi & Ek & Hact).
    destruct (s_next (sr s) <? j_id (getj s (w_slot w))) eqn:Et; [inv_some H|destruct (negb _) eqn:Emine; inv_some H].
    + apply N.ltb_lt in Et.
      eapply sinv_worker_job with (w := w) (w' := w_set_pc WSerialZ w) (j' := getj s (w_slot w)); eauto; try reflexivity.
      * intros k0. change (getj (set_w t (w_set_pc WSerialZ w) s) k0) with (getj s k0). destruct (Nat.eq_dec _ _) as [<-|]; reflexivity.
      * intros X. rewrite Ek. apply (s_jd _ _ S); auto. rewrite <- Ek. exact X.
      * left. split; [reflexivity|]. intros Z E. destruct (s_cz _ _ S Z) as (_ & D). rewrite E. exact D.
    + (* the turn was skipped by a failed later job: nothing but the pc changes *)
      set (jb := getj s (w_slot w)) in *. set (py := job_pay cfg s jb) in *.
      assert (Hnz : w_pc (after_serial cfg w jb py) <> WSerialZ).
      { unfold after_serial. destruct (negb _ && _); [cbn; discriminate|].
        unfold next_chunk, last_block. repeat match goal with |- context[if ?b then _ else _] => destruct b end; cbn; discriminate. }
      assert (Hsl : w_slot (after_serial cfg w jb py) = w_slot w).
      { unfold after_serial. destruct (negb _ && _); [reflexivity|]. apply next_chunk_props; lia. }
      apply (sinv_worker_job cfg s (set_w t (after_serial cfg w jb py) s) t w (after_serial cfg w jb py) jb K S Hw Ha Hsl eq_refl eq_refl eq_refl).
      * intros k0. change (getj (set_w t (after_serial cfg w jb py) s) k0) with (getj s k0). destruct (Nat.eq_dec _ _) as [<-|]; reflexivity.
      * reflexivity.
      * intros X. unfold jb in *. rewrite Ek. apply (s_jd _ _ S); auto. rewrite <- Ek. exact X.
      * intros X. contradiction.
      * left. split; [reflexivity|]. intros Z E. destruct (s_cz _ _ S Z) as (_ & D). unfold jb. rewrite E. exact D.
    + set (jb := getj s (w_slot w)) in *. set (py := job_pay cfg s jb) in *.
      assert (Hnz : w_pc (after_serial cfg w jb py) <> WSerialZ).
      { unfold after_serial. destruct (negb _ && _); [cbn; discriminate|].
        unfold next_chunk, last_block. repeat match goal with |- context[if ?b then _ else _] => destruct b end; cbn; discriminate. }
      destruct ((s_next (sr s) =? j_id jb) && ldm (mt s)) eqn:Edol.
      * match goal with |- SInv cfg (set_w t ?w' (wake_caller_ldm ?x)) =>
          destruct (wake_ldm_proj x) as (Em & Ej & Es & Ep & Ew & Eg); pose proof (wake_ldm_cases x) as Hc;
          eapply sinv_worker_serial with (w := w) (r' := sr x); eauto end;
        cbn [mt jobs sr ws cl set_w set_ws]; rewrite ?Em, ?Ej, ?Es, ?Ew; try reflexivity.
        all: try (right; destruct Hc as (C1 & C2 & C3); repeat split; auto).
      * match goal with |- SInv cfg (set_w t ?w' ?x) => eapply sinv_worker_serial with (w := w) (r' := sr x); eauto end; try reflexivity.
        all: try (left; split; reflexivity).
  - (* WChunk *)
    assert (Ha : active (w_pc w) = true) by (rewrite Epc; reflexivity).
    destruct (k_wrk _ _ K t w Hw Ha) as (i & Hi & Ek & (Hd0 & _)).
    inv_some H. rewrite wake_set_job_comm.
    destruct (wake_job_proj cfg (w_slot w) s) as (Em & Ej & Es & Ep & Ew & Eg).
    assert (Hg0 : getj (wake_caller_job cfg (w_slot w) s) (w_slot w) = getj s (w_slot w)) by (unfold getj; rewrite Ej; reflexivity).
    pose proof (next_chunk_props cfg w (getj s (w_slot w)) (job_pay cfg s (getj s (w_slot w))) (k + 1) ltac:(lia)) as (N1 & N2 & _).
    eapply sinv_worker_job' with (w := w) (s := wake_caller_job cfg (w_slot w) s); try reflexivity.
    + apply kinv_wake_job; auto.
    + apply sinv_wake_job; auto.
    + rewrite Ew. exact Hw.
    + exact Ha.
    + exact N1.
    + rewrite Hg0. reflexivity.
    + cbn. congruence.
    + intros X. exfalso. revert X. apply next_chunk_noz.
    + intros _ _. cbn. exact Hd0.
  - (* WEnsure *)
    inv_some H.
    assert (Hnz : w_pc (after_ensure w) <> WSerialZ).
    { unfold after_ensure. destruct (w_seq w); [cbn; discriminate|]. destruct (w_cctx w); cbn; discriminate. }
    destruct (s_next (sr s) <=? j_id (getj s (w_slot w))).
    + match goal with |- SInv cfg (set_w t ?w' (wake_caller_ldm ?x)) =>
        destruct (wake_ldm_proj x) as (Em & Ej & Es & Ep & Ew & Eg); pose proof (wake_ldm_cases x) as Hc;
        eapply sinv_worker_serial with (w := w) (r' := sr x); eauto end;
      cbn [mt jobs sr ws cl set_w set_ws]; rewrite ?Em, ?Ej, ?Es, ?Ew; try reflexivity.
      all: try (right; destruct Hc as (C1 & C2 & C3); repeat split; auto).
    + eapply sinv_worker_nojob; [exact S|..]; try reflexivity. exact Hnz.
  - inv_some H. eapply sinv_worker_nojob; [exact S|..]; try reflexivity. destruct (w_cctx w); cbn; discriminate.
  - inv_some H. eapply sinv_worker_nojob; [exact S|..]; try reflexivity. cbn; discriminate.
  - (* WReport *)
    assert (Ha : active (w_pc w) = true) by (rewrite Epc; reflexivity).
    inv_some H. rewrite wake_set_job_comm.
    destruct (wake_job_proj cfg (w_slot w) s) as (Em & Ej & Es & Ep & Ew & Eg).
    assert (Hg0 : getj (wake_caller_job cfg (w_slot w) s) (w_slot w) = getj s (w_slot w)) by (unfold getj; rewrite Ej; reflexivity).
    eapply sinv_worker_job' with (w := w) (s := wake_caller_job cfg (w_slot w) s); try reflexivity.
    + apply kinv_wake_job; auto.
    + apply sinv_wake_job; auto.
    + rewrite Ew. exact Hw.
    + exact Ha.
    + rewrite Hg0. reflexivity.
    + cbn. discriminate.
    + intros Z E. exfalso. apply (wake_job_noz cfg (w_slot w) s Z). rewrite E, Em. reflexivity.
  - inv_some H. eapply sinv_worker_nojob; [exact S|..]; try reflexivity. cbn; discriminate.
Qed.

(* ------------------------------------------------------------------ *)
(* the application thread                                               *)

Lemma sinv_ext cfg s s' :
  mt s' = mt s -> jobs s' = jobs s -> ws s' = ws s -> s_next (sr s') = s_next (sr s) -> c_pc (cl s') = c_pc (cl s) ->
  (s_lw (sr s') = s_lw (sr s) \/ nzp (c_pc (cl s)) = true) -> SInv cfg s -> SInv cfg s'.
Proof.
  intros Hm Hj Hw Hs Hc Hl [JD SLP CZ LZ1 LZ2].
  assert (Hg : forall k, getj s' k = getj s k) by (intros; unfold getj; rewrite Hj; reflexivity).
  constructor; rewrite ?Hm, ?Hw, ?Hs, ?Hc.
  - intros i Hi. rewrite Hg. apply JD. unfold inflight in *. rewrite Hm in Hi. exact Hi.
  - intros t w H P. rewrite Hg. eapply SLP; eauto.
  - rewrite Hg. exact CZ.
  - intros X. destruct Hl as [Hl|Hl]; [rewrite Hl; auto|rewrite X in Hl; discriminate].
  - intros X. destruct Hl as [Hl|Hl]; [rewrite Hl; auto|rewrite X in Hl; discriminate].
Qed.

Lemma jcore_fields j j' : jcore j' = jcore j ->
  j_id j' = j_id j /\ j_size j' = j_size j /\ j_consumed j' = j_consumed j /\ j_done j' = j_done j.
Proof. destruct j, j'. unfold jcore. cbn. intros H. inversion H. auto. Qed.

(* the caller's unsynchronised code (frame GR, result awake) keeps the invariant *)
Lemma sinv_gr cfg s s' : KInv cfg s' -> SInv cfg s -> GR cfg s s' -> NZ s' -> SInv cfg s'.
Proof.
  intros K' [JD SLP CZ LZ1 LZ2] ((Es & Ew & Ep) & En & Ed & El & J) Hz.
  assert (Hcore : forall i, inflight s' i -> jcore (getj s' (slot cfg i)) = jcore (getj s (slot cfg i)) /\ inflight s i).
  { intros i (A & B). rewrite En in B. destruct J as [J|J]; [rewrite En in J; lia|].
    split; [|split; lia].
    destruct (J (slot cfg i)) as [E|(E & E')]; auto. exfalso. revert E. apply slot_neq; lia. }
  constructor.
  - intros i Hi Hd. destruct (Hcore i Hi) as (E & Hi0). apply jcore_fields in E. destruct E as (_ & E2 & E3 & E4).
    rewrite E2, E3. apply JD; auto. congruence.
  - intros t w H P. rewrite Ew in H. rewrite Es.
    destruct (k_wrk _ _ K' t w) as (i & Hi & Ek & _); [rewrite Ew; exact H|rewrite P; reflexivity|].
    destruct (Hcore i Hi) as (E & _). apply jcore_fields in E. destruct E as (E1 & _). rewrite Ek, E1, <- Ek. eapply SLP; eauto.
  - intros X. unfold NZ in Hz. destruct (c_pc (cl s')); discriminate.
  - intros X. unfold NZ in Hz. rewrite X in Hz. discriminate.
  - intros X. unfold NZ in Hz. rewrite X in Hz. discriminate.
Qed.

(* nextJobID++ : the prepared job enters the ring *)
Lemma sinv_post cfg s s' :
  KInv cfg s -> SInv cfg s -> next (mt s) < done (mt s) + Mr cfg ->
  done (mt s') = done (mt s) -> next (mt s') = next (mt s) + 1 -> sr s' = sr s ->
  (forall k, k <> slot cfg (next (mt s)) -> getj s' k = getj s k) ->
  (j_done (getj s' (slot cfg (next (mt s)))) = true ->
   j_consumed (getj s' (slot cfg (next (mt s)))) = j_size (getj s' (slot cfg (next (mt s))))) ->
  (forall t x, nth_error (ws s') t = Some x -> w_pc x = WSerialZ -> nth_error (ws s) t = Some x) ->
  NZ s' -> SInv cfg s'.
Proof.
  intros K [JD SLP CZ LZ1 LZ2] Hlt Hd Hn Hs Hg Hnew Hw Hz.
  constructor.
  - intros i (A & B). rewrite Hd in A. rewrite Hn in B.
    destruct (N.eq_dec i (next (mt s))) as [->|Hne]; [exact Hnew|].
    assert (Hi : inflight s i) by (split; lia).
    rewrite Hg by (apply inflight_not_next; auto). apply JD; auto.
  - intros t x H P. specialize (Hw t x H P). rewrite Hs.
    destruct (k_wrk _ _ K t x Hw) as (i & Hi & Ek & _); [rewrite P; reflexivity|].
    rewrite Hg by (rewrite Ek; apply inflight_not_next; auto). eapply SLP; eauto.
  - intros X. unfold NZ in Hz. destruct (c_pc (cl s')); discriminate.
  - intros X. unfold NZ in Hz. rewrite X in Hz. discriminate.
  - intros X. unfold NZ in Hz. rewrite X in Hz. discriminate.
Qed.

Lemma sinv_caller_step cfg w s s' : TInv cfg s -> SInv cfg s -> caller_step cfg w s = Some s' -> SInv cfg s'.
Proof.
  intros TI S H. assert (TI' : TInv cfg s') by (eapply tinv_caller_step; eauto).
  destruct TI as (K & A). destruct TI' as (K' & _).
  pose proof (k_pc _ _ K) as P. unfold PcInv in P. destruct P as (PA & PB & PC & PD & PE & PF & PG).
  unfold caller_step in H. cbn zeta in H.
  destruct (c_pc (cl s)) eqn:Epc; try discriminate; cbn [awake relphase] in *.
  - (* CInUse *)
    destruct (_ <? _); inv_some H; (eapply sinv_gr; [exact K'|exact S|first [apply gr_after_inuse|apply gr_scan_inuse]|first [apply nz_after_inuse|apply nz_scan_inuse]]).
  - (* CLdm1 *)
    destruct (overlap_win _ _) eqn:Eo; inv_some H.
    + destruct S as [JD SLP CZ LZ1 LZ2]. constructor; cbn [mt sr ws cl set_cpc set_cl cl_pc c_pc]; auto; try discriminate.
    + eapply sinv_gr; [exact K'|exact S|apply gr_move_prefix|apply nz_move_prefix].
  - (* CLdm2 *)
    destruct (overlap_win _ _) eqn:Eo; inv_some H.
    + destruct S as [JD SLP CZ LZ1 LZ2]. constructor; cbn [mt sr ws cl set_cpc set_cl cl_pc c_pc]; auto; try discriminate.
    + eapply sinv_gr; [exact K'|exact S|apply gr_hand_out|apply nz_hand_out].
  - (* CGetBuf *)
    destruct (PB eq_refl) as ((Hlt & Hid & Hc0 & Hcs & Her) & Pd & Pr & Psz & Pla & Pen).
    assert (Hkl : (slot cfg (next (mt s)) < length (jobs s))%nat) by (rewrite (k_len _ _ K); apply slot_lt).
    inv_some H. eapply sinv_post; [exact K|exact S|exact Hlt|..]; try reflexivity.
    + intros k Hk. rewrite getj_set_cpc, getj_set_mt. rewrite getj_set_job_neq by auto. reflexivity.
    + rewrite getj_set_cpc, getj_set_mt. rewrite getj_set_job_eq by exact Hkl. destruct (negb _); cbn; auto. intros _. congruence.
    + intros t x Hx _. exact Hx.
  - (* CTryAdd *)
    pose proof (PA eq_refl) as ((Hlt & Hid & Hc0 & Hcs & Her) & Hck & Hdn & Hle).
    destruct (Nat.eqb (busy (pl s)) (c_nbw cfg) || _); inv_some H.
    + eapply sinv_gr; [exact K'|exact S| |reflexivity]. apply gr_same; [repeat split|reflexivity|reflexivity|reflexivity].
    + destruct (signal_pop_spec w (ws s)) as (S1 & S2).
      eapply sinv_post; [exact K|exact S|exact Hlt|..]; try reflexivity.
      * change (j_done (getj s (slot cfg (next (mt s)))) = true -> j_consumed (getj s (slot cfg (next (mt s)))) = j_size (getj s (slot cfg (next (mt s))))).
        congruence.
      * intros t x Hx Px. apply S1; auto. rewrite Px. reflexivity.
  - (* CFlush *)
    destruct (negb (c_fwd (cl s)) && _ && _ && _) eqn:Ez; inv_some H; [|eapply sinv_gr; [exact K'|exact S|apply gr_flush_body|apply nz_flush_body]].
    apply andb_prop in Ez. destruct Ez as (Ez & E4). apply andb_prop in Ez. destruct Ez as (Ez & E3). apply andb_prop in Ez. destruct Ez as (_ & E2).
    apply N.ltb_lt in E2. unfold jslot in E4. apply negb_true_iff in E4. apply N.eqb_neq in E4.
    destruct S as [JD SLP CZ LZ1 LZ2]. constructor; cbn [mt sr ws cl set_cpc set_cl cl_pc c_pc]; auto; try discriminate.
    intros _. split; auto. change (j_done (getj s (slot cfg (done (mt s)))) = false).
    destruct (j_done (getj s (slot cfg (done (mt s))))) eqn:X; auto. exfalso. apply E4. apply JD; auto. split; lia.
  - (* CRelBuf *)
    inv_some H. eapply sinv_gr; [exact K'| |apply gr_complete_job|apply nz_complete_job].
    eapply sinv_ext; [..|exact S]; try reflexivity. left; reflexivity.
  - (* CWait *)
    unfold jslot in H. destruct (j_done (getj s (slot cfg (done (mt s))))) eqn:Ed; cbn [negb] in H; inv_some H.
    + eapply sinv_gr; [exact K'|exact S| |apply nz_wait_all].
      eapply gr_trans; [|apply gr_wait_all].
      split; [repeat split|]. split; [reflexivity|]. split; [cbn; lia|]. split; [reflexivity|]. right. intros k. left. reflexivity.
    + destruct S as [JD SLP CZ LZ1 LZ2]. constructor; cbn [mt sr ws cl set_cpc set_cl cl_pc c_pc]; auto; try discriminate.
  - (* CRelAll *)
    inv_some H.
    eapply sinv_gr with (s := set_pl (pl_bp (give (bp_nb (pl s)) (bp_tot (pl s))) (pl s)) s); [exact K'| | |apply nz_rel_scan].
    + eapply sinv_ext; [..|exact S]; try reflexivity. left; reflexivity.
    + eapply gr_trans; [|apply gr_rel_scan; cbn [mt zero_slot set_job set_jobs set_pl]; rewrite PD; lia].
      apply gr_nojobs; [repeat split|reflexivity|reflexivity|cbn; apply upd_length|cbn [mt set_pl]; rewrite PD; lia].
  - (* CInitBuf *)
    match type of H with Some (set_cpc _ ?x) = _ => set (s1 := x) in * end.
    assert (S1 : SInv cfg s1).
    { destruct S as [JD SLP CZ LZ1 LZ2]. constructor; cbn [mt sr ws cl s1 set_sr set_mt c_pc done next s_next]; try (rewrite Epc; discriminate).
      - intros i (X & Y). cbn in X, Y. lia.
      - intros t x Hx Px. exfalso. destruct (k_wrk _ _ K t x Hx) as (i & (X & Y) & _); [rewrite Px; reflexivity|]. lia. }
    inv_some H.
    eapply sinv_gr; [exact K'|exact S1| |reflexivity]. apply gr_same; [repeat split|reflexivity|reflexivity|reflexivity].
  - (* CInitSeq *)
    destruct (ldm (mt s)); inv_some H.
    + eapply sinv_gr; [exact K'| |apply gr_finish_op|apply nz_finish_op].
      eapply sinv_ext; [..|exact S]; try reflexivity. right. rewrite Epc. reflexivity.
    + (* no LDM: serial.nextJobID is reset here; no pool thread holds a job *)
      eapply sinv_gr; [exact K'| |apply gr_finish_op|apply nz_finish_op].
      destruct S as [JD SLP CZ LZ1 LZ2]. constructor; cbn [mt sr ws cl set_sr set_pl c_pc s_next s_lw]; try (rewrite Epc; discriminate).
      * intros i Hi. apply JD. exact Hi.
      * intros t x Hx Px. exfalso. destruct (k_wrk _ _ K t x Hx) as (i & (X & Y) & _); [rewrite Px; reflexivity|]. lia.
Qed.

(* ------------------------------------------------------------------ *)
(* every reachable state                                                *)

Lemma sinv_init cfg ops : ops_ok ops -> SInv cfg (init cfg ops).
Proof.
  intros Ho. destruct (tinv_init cfg ops Ho) as (K' & _). unfold init in *.
  eapply sinv_gr; [exact K'| |apply gr_start_ops|apply nz_start_ops].
  constructor; cbn [mt sr ws cl c_pc done next]; try discriminate.
  - intros i (X & Y). cbn in X, Y. lia.
  - intros t x Hx Px. apply nth_error_repeat in Hx. subst. discriminate.
Qed.

Theorem sinv_reachable cfg ops sched :
  0 < c_chunk cfg -> ops_ok ops ->
  TInv cfg (run state (step cfg) sched (init cfg ops)) /\ SInv cfg (run state (step cfg) sched (init cfg ops)).
Proof.
  intros Hc Ho. apply (run_invariant state (step cfg) (fun s => TInv cfg s /\ SInv cfg s)).
  - intros s t w s' (TI & S) Hst. split; [eapply tinv_step; eauto|].
    destruct t as [|t]; cbn [step] in Hst; [eapply sinv_caller_step; eauto|eapply sinv_worker_step; eauto; apply TI].
  - split; [apply tinv_init; auto|apply sinv_init; auto].
Qed.

(* the caller asleep on a job_cond: the job is in flight, its worker has not made its final report (the one that signals), and the job is
   in the pool queue or on a pool thread *)
Theorem no_lost_wakeup_job_cond cfg ops sched :
  0 < c_chunk cfg -> ops_ok ops -> let s := run state (step cfg) sched (init cfg ops) in
  (c_pc (cl s) = CFlushZ \/ exists i, c_pc (cl s) = CWaitZ i) ->
  done (mt s) < next (mt s) /\ j_done (getj s (slot cfg (done (mt s)))) = false /\ owned s (slot cfg (done (mt s))).
Proof.
  intros Hc Ho s Hp. destruct (sinv_reachable cfg ops sched Hc Ho) as ((K & _) & S). fold s in K, S.
  assert (Z : jobz (c_pc (cl s)) = true) by (destruct Hp as [E|(i & E)]; rewrite E; reflexivity).
  destruct (s_cz _ _ S Z) as (A & B). split; auto. split; auto.
  apply (k_own _ _ K); auto. split; lia.
Qed.

(* a pool thread asleep on serial.cond: it holds a job in flight whose turn has not come *)
Theorem no_lost_wakeup_serial_cond cfg ops sched :
  0 < c_chunk cfg -> ops_ok ops -> let s := run state (step cfg) sched (init cfg ops) in
  forall t w, nth_error (ws s) t = Some w -> w_pc w = WSerialZ ->
  exists i, done (mt s) <= i < next (mt s) /\ w_slot w = slot cfg i /\ j_id (getj s (w_slot w)) = i /\ s_next (sr s) < i.
Proof.
  intros Hc Ho s t w H P. destruct (sinv_reachable cfg ops sched Hc Ho) as ((K & _) & S). fold s in K, S.
  destruct (k_wrk _ _ K t w H) as (i & Hi & Ek & _); [rewrite P; reflexivity|].
  exists i. split; [exact Hi|]. split; [exact Ek|].
  assert (E : j_id (getj s (w_slot w)) = i) by (rewrite Ek; apply (k_ids _ _ K); auto).
  split; auto. rewrite <- E. eapply (s_slp _ _ S); eauto.
Qed.

(* the caller asleep on ldmWindowCond: the range it waits for still overlaps ldmWindow *)
Theorem no_lost_wakeup_ldm_cond cfg ops sched :
  0 < c_chunk cfg -> ops_ok ops -> let s := run state (step cfg) sched (init cfg ops) in
  (c_pc (cl s) = CLdm1Z -> overlap_win (0, psize (mt s)) (s_lw (sr s)) = true) /\
  (c_pc (cl s) = CLdm2Z -> overlap_win (rpos (mt s), target (mt s)) (s_lw (sr s)) = true).
Proof.
  intros Hc Ho s. destruct (sinv_reachable cfg ops sched Hc Ho) as (_ & S). fold s in S.
  split; [exact (s_lz1 _ _ S)|exact (s_lz2 _ _ S)].
Qed.

(* a job in flight whose worker has reported is fully consumed *)
Theorem reported_job_consumed cfg ops sched :
  0 < c_chunk cfg -> ops_ok ops -> let s := run state (step cfg) sched (init cfg ops) in
  forall i, done (mt s) <= i < next (mt s) -> j_done (getj s (slot cfg i)) = true ->
  j_consumed (getj s (slot cfg i)) = j_size (getj s (slot cfg i)).
Proof.
  intros Hc Ho s i Hi. destruct (sinv_reachable cfg ops sched Hc Ho) as (_ & S). fold s in S. apply (s_jd _ _ S). exact Hi.
Qed.
