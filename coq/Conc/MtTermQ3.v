(* C11, termination under fairness, part 13: the flush step of the application thread makes progress while no pool thread can run (R3). *)
From Coq Require Import List NArith ZArith Bool Arith Lia.
Import ListNotations.
From ZV.Conc Require Import Sched SchedLemmas MtModel MtProofs MtRing MtRingC MtPool MtFrame MtSleep MtStep MtLive MtErr MtErrC MtFlush MtFlushC.
From ZV.Conc Require Import MtTermDefs MtTermW MtTermA MtTermS MtTermR MtTermC1 MtTermC2 MtTermC3 MtTermC4 MtTermQ1 MtTermI MtTermQ2.
Local Open Scope nat_scope.
(* ------------------------------------------------------------------ *)
(* the back edge of the for(;;) of ZSTD_compressStream2 when no job is in flight *)

Definition mm (s : state) : nat :=
  match c_e2 (cl s), c_e (cl s) with EContinue, EContinue | EFlush, EFlush | EEnd, EEnd => 0 | _, _ => 2 end.
Definition BBF (s : state) : nat := (if (0 <? snd (c_use (cl s)))%N then 50 else 45) + mm s.

Lemma bb_flush s : BB (set_cpc CFlush s) = BBF s. Proof. reflexivity. Qed.

(* nothing can be created: ZSTDMT_compressStream_generic goes straight to the flush *)
Definition NoCnd (s : state) : Prop :=
  (ifill (mt s) < target (mt s))%N /\ (c_e (cl s) = EContinue \/ ifill (mt s) = 0%N) /\ (c_e (cl s) <> EEnd \/ ended (mt s) = true).

Lemma be_create_phase cfg x :
  Pre cfg x -> done (mt x) = next (mt x) -> ready (mt x) = false -> c_in (cl x) = 0%N -> c_e2 (cl x) = c_e (cl x) ->
  Ac cfg (create_phase cfg x) <= AcN cfg x \/
  (NoCnd x /\ Ac cfg (create_phase cfg x) <= AcN cfg x + 1 /\
   BB (create_phase cfg x) = (if (0 <? snd (c_use (cl x)))%N then 50 else 45)).
Proof.
  intros P Hd Er Hin He.
  assert (Hnf : notfull cfg x) by (unfold notfull; apply N.ltb_ge; rewrite Hd; lia).
  assert (E2 : e2_of x = c_e (cl x)) by (unfold e2_of; rewrite He, Hin; destruct (c_e (cl x)); reflexivity).
  destruct (N.le_gt_cases (target (mt x)) (ifill (mt x))) as [C1|C1].
  { left. pose proof (ac_create_phase_lt cfg x P Er Hnf ltac:(left; exact C1)). lia. }
  destruct (c_e (cl x)) eqn:Ece.
  - (* ZSTD_e_continue: nothing to do *)
    right. split; [unfold NoCnd; rewrite Ece; split; [exact C1|split; [left; reflexivity|left; discriminate]]|].
    unfold create_phase. fold (e2_of x). rewrite E2, Er. cbn [orb andb].
    rewrite (proj2 (N.leb_gt _ _) C1). cbn [orb]. rewrite ac_at. cbn [awake].
    split; [change (AcN cfg (set_cl _ x)) with (AcN cfg x); lia|].
    unfold BB. cbn [cl set_cpc set_cl cl_pc c_pc awake cl_io c_use c_e2 c_e]. rewrite Ece. lia.
  - destruct (N.eq_dec (ifill (mt x)) 0) as [C2|C2].
    + right. split; [unfold NoCnd; rewrite Ece; split; [exact C1|split; [right; exact C2|left; discriminate]]|].
      unfold create_phase. fold (e2_of x). rewrite E2, Er, C2. cbn [orb andb].
      assert (X : (target (mt x) <=? 0)%N = false) by (apply N.leb_gt; lia). rewrite X. change (0 <? 0)%N with false. cbn [orb andb].
      rewrite ac_at. cbn [awake]. split; [change (AcN cfg (set_cl _ x)) with (AcN cfg x); lia|].
      unfold BB. cbn [cl set_cpc set_cl cl_pc c_pc awake cl_io c_use c_e2 c_e]. rewrite Ece. lia.
    + left. pose proof (ac_create_phase_lt cfg x P Er Hnf ltac:(right; left; split; [rewrite E2; discriminate|lia])). lia.
  - destruct (N.eq_dec (ifill (mt x)) 0) as [C2|C2].
    + destruct (ended (mt x)) eqn:Een.
      * right. split; [unfold NoCnd; rewrite Ece; split; [exact C1|split; [right; exact C2|right; exact Een]]|].
        unfold create_phase. fold (e2_of x). rewrite E2, Er, C2, Een. cbn [orb andb negb].
        assert (X : (target (mt x) <=? 0)%N = false) by (apply N.leb_gt; lia). rewrite X. change (0 <? 0)%N with false. cbn [orb andb].
        rewrite ac_at. cbn [awake]. split; [change (AcN cfg (set_cl _ x)) with (AcN cfg x); lia|].
        unfold BB. cbn [cl set_cpc set_cl cl_pc c_pc awake cl_io c_use c_e2 c_e]. rewrite Ece. lia.
      * left. pose proof (ac_create_phase_lt cfg x P Er Hnf ltac:(right; right; split; [exact E2|exact Een])). lia.
    + left. pose proof (ac_create_phase_lt cfg x P Er Hnf ltac:(right; left; split; [rewrite E2; discriminate|lia])). lia.
Qed.

Definition base (s : state) : nat := if (0 <? snd (c_use (cl s)))%N then 50 else 45.

Lemma be_gen_body cfg x :
  Pre cfg x -> (0 < c_minblk cfg)%N -> done (mt x) = next (mt x) -> c_e2 (cl x) = c_e (cl x) ->
  Ac cfg (gen_body cfg x) <= AcN cfg x \/
  (Ac cfg (gen_body cfg x) <= AcN cfg x + 1 /\ BB (gen_body cfg x) <= 40) \/
  (ready (mt x) = false /\ c_in (cl x) = 0%N /\ NoCnd x /\ Ac cfg (gen_body cfg x) <= AcN cfg x + 1 /\ BB (gen_body cfg x) = base x).
Proof.
  intros P Hm Hd He.
  assert (Hnf : notfull cfg x) by (unfold notfull; apply N.ltb_ge; rewrite Hd; lia).
  unfold gen_body. destruct (ready (mt x)) eqn:Er; cbn [negb andb].
  - (* a prepared job: POOL_tryAdd again *)
    right. left. unfold create_phase. rewrite Er. cbn [orb].
    match goal with |- context[create_job cfg ?y ?e] => set (x' := y); set (e2 := e) end.
    unfold create_job. change (mt x') with (mt x). unfold notfull in Hnf. rewrite Hnf, Er.
    rewrite ac_at. cbn [awake]. change (mt x') with (mt x). rewrite Er. change (AcN cfg x') with (AcN cfg x).
    split; [lia|]. unfold BB. cbn [cl set_cpc set_cl cl_pc c_pc awake]. lia.
  - destruct (0 <? c_in (cl x))%N eqn:Ein.
    + apply N.ltb_lt in Ein. destruct (ihas (mt x)) eqn:Eh; cbn [negb].
      * left. apply ac_fill_phase_lt; auto.
      * unfold scan_inuse. rewrite Hd, N.ltb_irrefl.
        destruct (good_after_inuse0 cfg x P Ein Hm) as [X|(X & Y)]; [left; lia|right; left; split; [lia|exact Y]].
    + apply N.ltb_ge in Ein. assert (Hin : c_in (cl x) = 0%N) by lia.
      destruct (be_create_phase cfg x P Hd Er Hin He) as [X|(X & Y & Z)]; [left; exact X|].
      right. right. repeat split; auto; apply X.
Qed.

Lemma mm_cases s : mm s = 0 \/ mm s = 2.
Proof. unfold mm. destruct (c_e2 (cl s)), (c_e (cl s)); auto. Qed.

Lemma be_gen_return cfg x v :
  Pre cfg x -> (0 < c_minblk cfg)%N -> done (mt x) = next (mt x) ->
  (ready (mt x) = false -> c_in (cl x) = 0%N -> mm x = 0 -> NoCnd x -> c_e (cl x) <> EContinue -> v = 0%N) ->
  Ac cfg (gen_return cfg x v) <= AcN cfg x \/ (Ac cfg (gen_return cfg x v) <= AcN cfg x + 1 /\ BB (gen_return cfg x v) < BBF x).
Proof.
  intros P Hm Hd Hv.
  assert (GA : (is_continue (c_e (cl x)) = true -> c_in (cl x) <> 0%N) ->
               (is_continue (c_e (cl x)) = false -> c_in (cl x) = 0%N -> v <> 0%N) ->
               Ac cfg (gen_again cfg x) <= AcN cfg x \/ (Ac cfg (gen_again cfg x) <= AcN cfg x + 1 /\ BB (gen_again cfg x) < BBF x)).
  { intros Hc1 Hc2. unfold gen_again. set (x2 := set_cl _ x).
    assert (P2 : Pre cfg x2) by (pre_same P).
    destruct (_ && _); [left; pose proof (ac_finish_op cfg x2 RErr P2) as X; exact X|].
    destruct (be_gen_body cfg x2 P2 Hm Hd eq_refl) as [X|[(X & Y)|(Y1 & Y2 & Y3 & Y4 & Y5)]].
    - left. exact X.
    - right. split; [exact X|]. unfold BBF. destruct (0 <? _)%N; lia.
    - right. split; [exact Y4|]. rewrite Y5. change (base x2) with (base x). unfold BBF. fold (base x).
      destruct (mm_cases x) as [M|M]; [exfalso|lia].
      change (mt x2) with (mt x) in Y1. change (c_in (cl x2)) with (c_in (cl x)) in Y2.
      destruct (is_continue (c_e (cl x))) eqn:Ec.
      + apply Hc1; auto.
      + apply Hc2; auto. apply Hv; auto. intro E. rewrite E in Ec. discriminate. }
  unfold gen_return.
  destruct (is_continue (c_e (cl x))) eqn:Ec.
  - destruct (_ || _) eqn:Eb; [left; exact (ac_finish_op cfg x _ P)|].
    apply GA; [|discriminate]. intros _ E. rewrite E in Eb. change (0 =? 0)%N with true in Eb. rewrite !orb_true_r in Eb. cbn in Eb. discriminate.
  - destruct (_ || _) eqn:Eb; [left; exact (ac_finish_op cfg x _ P)|].
    apply GA; [discriminate|]. intros _ E Hv0. rewrite E, Hv0 in Eb. cbn in Eb. discriminate.
Qed.

Lemma be_flush_return cfg x :
  Pre cfg x -> (0 < c_minblk cfg)%N -> done (mt x) = next (mt x) ->
  Ac cfg (flush_return cfg x) <= AcN cfg x \/ (Ac cfg (flush_return cfg x) <= AcN cfg x + 1 /\ BB (flush_return cfg x) < BBF x).
Proof.
  intros P Hm Hd. unfold flush_return, flush_tail. rewrite Hd, N.ltb_irrefl.
  destruct (ready (mt x)) eqn:Er.
  { apply be_gen_return; auto. intros X. congruence. }
  destruct (0 <? ifill (mt x))%N eqn:Ei.
  { apply N.ltb_lt in Ei. apply be_gen_return; auto. intros _ _ _ (_ & [N1|N1] & _) Hc; [contradiction|lia]. }
  match goal with |- Ac cfg (gen_return cfg ?y ?vv) <= _ \/ _ => set (x1 := y); set (v := vv) end.
  assert (P1 : Pre cfg x1) by (pre_same P).
  assert (E1 : AcN cfg x1 = AcN cfg x).
  { apply acn_ext; try reflexivity. apply ft_ext; try reflexivity; cbn; auto. }
  assert (E2 : BBF x1 = BBF x) by reflexivity.
  rewrite <- E1, <- E2. apply be_gen_return; auto.
  intros _ _ M (_ & _ & [N2|N2]) Hc; unfold v.
  - unfold mm in M. change (cl x1) with (cl x) in *. destruct (c_e2 (cl x)), (c_e (cl x)); try reflexivity; try discriminate; congruence.
  - unfold x1 in N2. cbn [mt set_mt ended mt_ring] in N2.
    rewrite N2. destruct (c_e2 (cl x)); reflexivity.
Qed.

(* ------------------------------------------------------------------ *)
(* ZSTDMT_flushProduced when no pool thread can run                      *)

Lemma ac_gen_return_out0 cfg x v : Pre cfg x -> c_out (cl x) = 0%N -> Ac cfg (gen_return cfg x v) <= AcN cfg x.
Proof.
  intros P Ho. unfold gen_return. rewrite Ho. change (0 =? 0)%N with true. rewrite !orb_true_r.
  destruct (is_continue _); apply ac_finish_op; exact P.
Qed.

(* every completed error-free job in flight has produced something *)
Definition NEJ (cfg : config) (s : state) : Prop :=
  forall i, inflight s i -> j_done (getj s (slot cfg i)) = true -> j_err (getj s (slot cfg i)) = false ->
            (0 < j_csize (getj s (slot cfg i)))%N.

Lemma head_empty cfg s :
  TInv cfg s -> c_pc (cl s) = CFlush -> done (mt s) = next (mt s) ->
  let j := getj s (slot cfg (done (mt s))) in
  j_err j = false /\ j_csize j = 0%N /\ ((j_consumed j =? j_size j)%N && j_ckneed j = false) /\
  ((j_consumed j <? j_size j)%N = true -> ready (mt s) = true).
Proof.
  intros (K & A) Epc Hd j. pose proof (k_pc _ _ K) as PI. unfold PcInv in PI. destruct PI as (_ & _ & PC & _ & _ & PF & _).
  rewrite Epc in PC. destruct (PC eq_refl) as (C1 & C2).
  destruct (C1 (slot cfg (done (mt s))) (slot_lt cfg _)) as [(S1 & S2 & S3 & S4 & S5)|(Ek & Pr)].
  - intros i (X & Y). lia.
  - fold j in S1, S2, S3, S4. repeat split; auto; [rewrite S3; apply andb_false_r|].
    intros X. apply N.ltb_lt in X. lia.
  - assert (Er : ready (mt s) = true) by (destruct Pr as [Pr|[Pr|Pr]]; auto; rewrite Epc in Pr; discriminate).
    destruct (alldone (mt s)) eqn:Ea.
    + destruct (PF eq_refl) as (_ & St). destruct (St _ (slot_lt cfg (done (mt s)))) as (S1 & S2 & S3 & S4 & S5).
      fold j in S1, S2, S3, S4. repeat split; auto. rewrite S3. apply andb_false_r.
    + destruct (C2 Er eq_refl) as ((_ & _ & P3 & P4 & P5) & P6 & _). rewrite <- Hd in P3, P4, P5, P6. fold j in P3, P4, P5, P6.
      repeat split; auto. destruct (j_consumed j =? j_size j)%N eqn:X; auto. apply N.eqb_eq in X. rewrite P6; auto. lia.
Qed.

Lemma r3_flush_body cfg s :
  (0 < c_minblk cfg)%N -> Inv5 cfg s -> Quiet s -> NEJ cfg s -> c_pc (cl s) = CFlush ->
  Ac cfg (flush_body cfg s) <= AcN cfg s \/ BB (flush_body cfg s) < BB s.
Proof.
  intros Hm (I4 & FI & FL) Q NE Epc. pose proof I4 as (TI & SI & _). pose proof TI as (K & A).
  pose proof (pre_of_tinv cfg s TI) as P. destruct (k_rng _ _ K) as (R1 & R2).
  assert (EB : BB s = BBF s) by (unfold BB; rewrite Epc; reflexivity).
  destruct (N.eq_dec (done (mt s)) (next (mt s))) as [Hd|Hd].
  - (* no job in flight *)
    destruct (head_empty cfg s TI Epc Hd) as (H1 & H2 & H3 & H4). cbn zeta in H1, H2, H3, H4.
    unfold flush_body. cbn zeta. rewrite H1, H3, H2. change (0 <? 0)%N with false. cbn iota.
    replace (j_flushed (getj s (slot cfg (done (mt s)))) <? 0)%N with false by (symmetry; apply N.ltb_ge; lia).
    match goal with |- Ac cfg (if _ then gen_return cfg ?y _ else _) <= _ \/ _ => set (x := y) end.
    assert (Px : Pre cfg x) by (pre_same P).
    assert (Ex : AcN cfg x <= AcN cfg s).
    { unfold x. match goal with |- AcN cfg (set_gh ?g (set_job ?kk ?jj s)) <= _ =>
        pose proof (acn_flush_state cfg s kk jj g (cl s) eq_refl eq_refl eq_refl ltac:(lia)) as X end.
      change (set_cl (cl s) ?y) with y in X. lia. }
    assert (Eb : BBF x = BBF s) by reflexivity.
    assert (Hdx : done (mt x) = next (mt x)) by exact Hd.
    destruct (_ <? _)%N eqn:Ec.
    + destruct (be_gen_return cfg x 1%N Px Hm Hdx) as [X|(X & Y)]; [|left; lia|right; lia].
      intros Y. change (mt x) with (mt s) in Y. rewrite (H4 eq_refl) in Y. discriminate.
    + destruct (be_flush_return cfg x Px Hm Hdx) as [X|(X & Y)]; [left; lia|right; lia].
  - (* the oldest job in flight has reported: there is something to flush *)
    assert (Hlt : (done (mt s) < next (mt s))%N) by lia.
    assert (Hi : inflight s (done (mt s))) by (split; lia).
    pose proof (quiet_done cfg s I4 Q _ Hi) as Hdn. pose proof (s_jd _ _ SI _ Hi Hdn) as Hfin.
    left. unfold flush_body. cbn zeta.
    destruct (j_err (getj s (slot cfg (done (mt s))))) eqn:Eerr.
    { pose proof (ac_wait_all cfg false s). pose proof (acn_ge cfg s). pose proof (ft_ge cfg s).
      pose proof (opsW_after cfg RErr (c_ops (cl s))). unfold relK, RELC in *. lia. }
    pose proof (NE _ Hi Hdn Eerr) as Hcs. pose proof (FL _ Hi) as Hfl. unfold Pfl in Hfl.
    set (k := slot cfg (done (mt s))) in *. set (j := getj s k) in *.
    rewrite (proj2 (N.eqb_eq _ _) Hfin). cbn [andb].
    set (cs := if j_ckneed j then (j_csize j + 4)%N else j_csize j).
    assert (Hcs2 : (j_csize j <= cs)%N) by (unfold cs; destruct (j_ckneed j); lia).
    rewrite (proj2 (N.ltb_lt 0 cs) ltac:(lia)).
    set (tf := N.min (cs - j_flushed j) (c_out (cl s))).
    match goal with |- Ac cfg (if _ then _ else if _ then gen_return cfg ?y _ else _) <= _ => set (s1 := y) end.
    assert (P1 : Pre cfg s1) by (pre_same P).
    assert (E1 : AcN cfg s1 <= AcN cfg s).
    { unfold s1. match goal with |- AcN cfg (set_gh ?g (set_cl ?c (set_job ?kk ?jj s))) <= _ =>
        pose proof (acn_flush_state cfg s kk jj g c eq_refl eq_refl eq_refl ltac:(cbn; lia)) end. lia. }
    destruct (j_flushed j + tf =? cs)%N eqn:Efl.
    + destruct (j_dst j).
      * rewrite ac_at. cbn [awake]. lia.
      * pose proof (ac_complete_job cfg s1 P1) as X. change (done (mt s1)) with (done (mt s)) in X. change (next (mt s1)) with (next (mt s)) in X.
        rewrite (proj2 (N.ltb_lt _ _) Hlt) in X. lia.
    + apply N.eqb_neq in Efl. assert (Hlt2 : (j_flushed j + tf < cs)%N) by lia.
      rewrite (proj2 (N.ltb_lt _ _) Hlt2).
      assert (Ho : c_out (cl s1) = 0%N) by (cbn [cl s1 set_gh set_cl cl_io c_out]; lia).
      pose proof (ac_gen_return_out0 cfg s1 (cs - (j_flushed j + tf))%N P1 Ho). lia.
Qed.

(* R3: while no pool thread can run, every step of the application thread makes progress *)
Lemma r3_caller_step cfg w s s' :
  (0 < c_chunk cfg)%N -> (0 < c_minblk cfg)%N -> 1 <= c_nbw cfg -> Inv5 cfg s -> Quiet s -> NEJ cfg s ->
  caller_step cfg w s = Some s' -> Prog cfg s s'.
Proof.
  intros Hc Hm Hn I5 Q NE H. pose proof I5 as (I4 & _). pose proof I4 as (TI & _).
  pose proof (aa_caller_step cfg w s s' Hc TI H) as HA. unfold slack in HA.
  destruct (c_pc (cl s)) eqn:Epc; try (left; lia).
  - right. eapply r3_inuse; eauto.
  - eapply r3_ldm1; eauto.
  - left. eapply r3_ldm2; eauto.
  - left. rewrite (quiet_busy cfg s I4 Q), (quiet_q cfg s I4 Q) in HA.
    assert (E : Nat.eqb 0 (c_nbw cfg) = false) by (apply Nat.eqb_neq; lia). rewrite E in HA. cbn in HA. lia.
  - pose proof H as H'. unfold caller_step in H. cbn zeta in H. rewrite Epc in H.
    destruct (_ && _); inv_some H.
    + left. eapply prog_sleep; eauto. rewrite Epc. reflexivity.
    + destruct (r3_flush_body cfg s Hm I5 Q NE Epc) as [X|X]; [left|right; exact X].
      apply (prog_ac cfg w s); auto; [rewrite Epc; discriminate|]. unfold Ac at 2. rewrite Epc. cbn [awake]. lia.
Qed.
