(* C11, termination under fairness, part 5 (Stage B): the release phase terminates under every fair schedule. *)
From Coq Require Import List NArith ZArith Bool Arith Lia.
Import ListNotations.
From ZV.Conc Require Import Sched SchedLemmas MtModel MtProofs MtRing MtRingC MtPool MtFrame MtSleep MtStep MtLive MtErr.
From ZV.Conc Require Import MtTermDefs MtTermW MtTermA MtTermS.
Local Open Scope nat_scope.
(* ------------------------------------------------------------------ *)
(* the potential of the release phase                                   *)

Definition relC (cfg : config) (s : state) : nat :=
  match awake (c_pc (cl s)) with
  | CWait _ => 2 * N.to_nat (next (mt s) - done (mt s)) + N.to_nat (Mr cfg) + 1
  | CRelAll _ k => N.to_nat (Mr cfg) - k
  | _ => 0
  end.

Definition muR (cfg : config) (s : state) : nat := Aw cfg s + cz (c_pc (cl s)) + relC cfg s.

Definition inrel (s : state) : bool := relphase (c_pc (cl s)).

(* where ZSTDMT_releaseAllJobResources stops *)
Lemma rel_scan_k_pc i kd :
  (forall s1, alldone (mt s1) = true -> relphase (c_pc (cl (kd s1))) = false) ->
  forall fuel s k,
  relphase (c_pc (cl (rel_scan_k i kd s k fuel))) = false \/
  exists k', c_pc (cl (rel_scan_k i kd s k fuel)) = CRelAll i k' /\ k <= k' /\ k' < length (jobs s).
Proof.
  intros Hkd. induction fuel as [|f IH]; intros s k; cbn [rel_scan_k]; [left; apply Hkd; reflexivity|].
  destruct (Nat.ltb k (length (jobs s))) eqn:Ek; [|left; apply Hkd; reflexivity].
  apply Nat.ltb_lt in Ek. destruct (j_dst (getj s k)).
  - right. exists k. cbn. auto.
  - destruct (IH (zero_slot k s) (S k)) as [X|(k' & X1 & X2 & X3)]; [left; exact X|].
    right. exists k'. split; [exact X1|]. split; [lia|]. cbn in X3. rewrite upd_length in X3. exact X3.
Qed.

Lemma start_ops_after_err cfg s :
  alldone (mt s) = true -> relphase (c_pc (cl (finish_op cfg s RErr))) = false.
Proof.
  intros Ha. unfold finish_op, ops_after.
  destruct (c_ops (cl s)) as [|[fp|e i o] r]; cbn [start_ops record_res mt set_cl]; try reflexivity.
  rewrite Ha. reflexivity.
Qed.

Lemma rel_scan_pc cfg i s k fuel :
  relphase (c_pc (cl (rel_scan cfg i s k fuel))) = false \/
  exists k', c_pc (cl (rel_scan cfg i s k fuel)) = CRelAll i k' /\ k <= k' /\ k' < length (jobs s).
Proof.
  unfold rel_scan. apply rel_scan_k_pc. intros s1 Ha. destruct i; [reflexivity|apply start_ops_after_err; exact Ha].
Qed.

Lemma relphase_awake p : relphase (awake p) = relphase p. Proof. destruct p; reflexivity. Qed.

Lemma mur_step cfg t w s s' :
  (0 < c_chunk cfg)%N -> Inv4 cfg s -> inrel s = true -> step cfg t w s = Some s' ->
  inrel s' = false \/ muR cfg s' < muR cfg s.
Proof.
  intros Hc (TI & SI & P & L) Hr H. pose proof TI as (K & A). destruct t as [|t]; cbn [step] in H.
  - (* the application thread *)
    assert (HA : Aw cfg s' <= Aw cfg s).
    { destruct (aw_caller_step cfg w s s' TI H) as [X|(E & _)]; auto. unfold inrel in Hr. rewrite E in Hr. discriminate. }
    pose proof (k_len _ _ K) as Hlen. pose proof (k_rng _ _ K) as (R1 & R2).
    pose proof (k_pc _ _ K) as PI. unfold PcInv in PI. destruct PI as (_ & _ & _ & PD & _).
    unfold inrel in *. unfold caller_step in H. cbn zeta in H.
    destruct (c_pc (cl s)) eqn:Epc; try discriminate; cbn [awake] in PD.
    + (* CWait *)
      unfold jslot in H. destruct (negb _); inv_some H.
      * right. unfold muR, relC in *. cbn [cl set_cpc set_cl cl_pc c_pc mt awake cz nzp] in *. rewrite Epc. cbn [awake cz nzp]. lia.
      * unfold wait_all. cbn [mt set_mt mt_ring done next].
        destruct (_ <? _)%N eqn:El.
        -- right. apply N.ltb_lt in El. unfold muR, relC in *. cbn [cl set_cpc set_cl cl_pc c_pc mt set_mt mt_ring done next awake cz nzp] in *.
           rewrite Epc. cbn [awake cz nzp]. unfold wait_all in HA. cbn [mt set_mt mt_ring done next] in HA.
           rewrite (proj2 (N.ltb_lt _ _) El) in HA. lia.
        -- match goal with |- context[rel_scan cfg ?i ?x ?k ?f] => destruct (rel_scan_pc cfg i x k f) as [X|(k' & X1 & X2 & X3)] end; [left; exact X|].
           right. unfold muR, relC in *. unfold wait_all in HA. cbn [mt set_mt mt_ring done next] in HA. rewrite El in HA.
           rewrite X1, Epc. cbn [awake cz nzp]. cbn [jobs set_mt] in X3. lia.
    + (* CRelAll *)
      inv_some H.
      match goal with |- context[rel_scan cfg ?i ?x ?k ?f] => destruct (rel_scan_pc cfg i x k f) as [X|(k' & X1 & X2 & X3)] end; [left; exact X|].
      right. unfold muR, relC in *. rewrite X1, Epc. cbn [awake cz nzp]. cbn [jobs zero_slot set_job set_jobs set_pl] in X3. rewrite upd_length in X3. lia.
  - (* a pool thread *)
    right. destruct (worker_step_aux cfg t s s' H) as (Em & Ep & _).
    pose proof (aw_worker_step cfg t s s' K (p_len _ _ P) H). unfold muR, relC. rewrite Em, Ep. lia.
Qed.

Lemma enabled_pick cfg s : enabled_list cfg s <> [] -> exists t, t <= length (ws s) /\ step cfg t 0 s <> None.
Proof.
  unfold enabled_list. intros H.
  destruct (filter _ _) as [|t r] eqn:E; [contradiction|].
  assert (Hin : In t (filter (fun t0 => match step cfg t0 0 s with Some _ => true | None => false end) (seq 0 (S (length (ws s)))))) by (rewrite E; left; reflexivity).
  apply filter_In in Hin. destruct Hin as (Hs & Hst). apply in_seq in Hs. exists t. split; [lia|].
  destruct (step cfg t 0 s); [discriminate|discriminate].
Qed.

(* Stage B: under every fair schedule the application thread leaves ZSTDMT_waitForAllJobsCompleted / ZSTDMT_releaseAllJobResources *)
Theorem release_terminates cfg ops sched0 sigma :
  (0 < c_chunk cfg)%N -> ops_ok ops -> fair cfg sigma ->
  let s0 := run state (step cfg) sched0 (init cfg ops) in
  inrel s0 = true -> exists n, inrel (state_from cfg s0 sigma n) = false.
Proof.
  intros Hc Ho Hf s0 Hr0.
  assert (HI : forall i, Inv4 cfg (state_from cfg s0 sigma i)).
  { intros i. unfold s0. rewrite state_from_reach. apply allinv4_reachable; auto. }
  assert (G : forall m i, muR cfg (state_from cfg s0 sigma i) <= m -> inrel (state_from cfg s0 sigma i) = true ->
                          exists n, inrel (state_from cfg s0 sigma n) = false).
  { induction m as [|m IH]; intros i Hm Hr.
    all: assert (Hst : stuck cfg (state_from cfg s0 sigma i) = false)
           by (unfold s0; rewrite state_from_reach; apply release_no_deadlock; auto; rewrite <- state_from_reach; exact Hr).
    all: unfold stuck in Hst;
      assert (Hd : caller_done (state_from cfg s0 sigma i) = false)
        by (unfold caller_done; unfold inrel in Hr; destruct (c_pc (cl (state_from cfg s0 sigma i))); try discriminate; reflexivity);
      rewrite Hd in Hst; cbn [negb andb] in Hst;
      assert (Hne : enabled_list cfg (state_from cfg s0 sigma i) <> []) by (intros E; rewrite E in Hst; discriminate);
      destruct (enabled_pick _ _ Hne) as (t & Ht & Hen);
      destruct (HI i) as (_ & _ & P & _); rewrite (p_len _ _ P) in Ht;
      destruct (fair_next_step cfg s0 sigma i t Hf Ht Hen) as (k & Hik & Hk & Hstep);
      destruct (step cfg (fst (sigma k)) (snd (sigma k)) (state_from cfg s0 sigma k)) as [s'|] eqn:Es; try congruence;
      assert (Hs' : state_from cfg s0 sigma (S k) = s') by (rewrite state_from_S; unfold exec; rewrite Es; reflexivity);
      destruct (mur_step cfg _ _ _ s' Hc (HI k) ltac:(rewrite Hk; exact Hr) Es) as [X|X];
      try (exists (S k); rewrite Hs'; exact X).
    - rewrite Hk in X. lia.
    - destruct (inrel s') eqn:Y; [|exists (S k); rewrite Hs'; exact Y].
      apply (IH (S k)); rewrite Hs'; [rewrite Hk in X; lia|exact Y]. }
  exact (G _ 0 (le_n _) Hr0).
Qed.
