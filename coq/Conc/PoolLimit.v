(* C12: the thread limit set by POOL_create / POOL_resize is respected whenever a job is started. *)
From Coq Require Import List Arith Bool Lia ZArith.
Import ListNotations.
From ZV.Conc Require Import Sched PoolModel PoolLemmas PoolInvDefs.

(* the only step that raises numThreadsBusy is a worker's pop, and it happens only below the limit: POOL_resize(n)
   (shrink) never lets more than n jobs START concurrently afterwards; jobs already running finish normally *)
Lemma limit_respected cfg tid w s s' :
  step cfg tid w s = Some s' -> busy (sp s) < busy (sp s') ->
  busy (sp s') = S (busy (sp s)) /\ busy (sp s') <= limit (sp s') /\ limit (sp s') = limit (sp s) /\
  exists th, nth_error (st s) tid = Some th /\ t_pc th = WLock.
Proof.
  intros H Hb. step_inv H;
    cbn [sp busy limit set_owner set_shutdown set_busy set_limit set_cap_limit set_cap enqueue pop] in *; try lia.
  apply orb_false_iff in E0. destruct E0 as [_ El]. apply Nat.leb_gt in El.
  repeat split; try lia. eauto.
Qed.

From ZV.Conc Require Import PoolInv1 PoolInv2 PoolInv3 PoolInv4 PoolInv5 PoolInv6 PoolSafety PoolTheorems PoolLive.

(* never more busy threads than threads: numThreadsBusy <= threadCapacity, and 1 <= threadLimit <= threadCapacity *)
Theorem busy_le_capacity bodies progs n q sched :
  progs <> [] -> 1 <= n ->
  let s := reach true bodies progs n q sched in
  busy (sp s) <= cap (sp s) /\ 1 <= limit (sp s) <= cap (sp s).
Proof.
  intros Hp Hn s. pose proof (live_reachable bodies progs n q sched Hp Hn) as HL. fold s in HL.
  pose proof (lv_safe _ _ HL) as HS. split.
  - rewrite (sf_busy _ _ HS), <- (lv_workers _ _ HL). apply sumf_le. intros th. unfold nbusy, nworker. destruct (t_worker th); cbn; [destruct (_ || _); cbn; lia|lia].
  - destruct (sf_shape _ _ HS) as (_ & _ & Hl & _). exact Hl.
Qed.
