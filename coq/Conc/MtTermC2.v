(* C11, termination under fairness, part 7: the input side of the caller's code never increases the caller's potential. *)
From Coq Require Import List NArith ZArith Bool Arith Lia.
Import ListNotations.
From ZV.Conc Require Import Sched SchedLemmas MtModel MtProofs MtRing MtRingC MtPool MtFrame MtSleep MtStep MtLive MtErr.
From ZV.Conc Require Import MtTermDefs MtTermW MtTermA MtTermS MtTermR MtTermC1.
Local Open Scope nat_scope.
Lemma acn_set_cpc cfg p s : AcN cfg (set_cpc p s) = AcN cfg s. Proof. reflexivity. Qed.
Lemma psz_set_cpc cfg p s : psz cfg (set_cpc p s) = psz cfg s. Proof. reflexivity. Qed.
Lemma ac_at cfg p s : Ac cfg (set_cpc p s) =
  match awake p with
  | CDone => 0
  | CInitBuf => initW cfg (c_ops (cl s))
  | CInitSeq => opsW cfg (c_ops (cl s)) + FT cfg s + 1
  | CWait i => 2 * n2 (next (mt s) - done (mt s)) + MR cfg + 1 + relK cfg i (c_ops (cl s))
  | CRelAll i k => (MR cfg - k) + relK cfg i (c_ops (cl s))
  | CRelBuf => AcN cfg s
  | CTryAdd | CGetBuf => AcN cfg s + 1 + (if ready (mt s) then 0 else PP cfg + 2 * psz cfg s)
  | _ => AcN cfg s + 1
  end.
Proof. reflexivity. Qed.
Ltac acpc := rewrite ac_at; cbn [awake].

Lemma wj_step a b c d W : a + 1 <= b -> c <= d + W -> W * a + c + 0 <= W * b + d.
Proof. intros. nia. Qed.

(* ZSTDMT_createCompressionJob *)
Lemma ac_create_job cfg s e2 :
  Pre cfg s ->
  (ready (mt s) = true \/ (0 < ifill (mt s))%N \/ (e2 = EEnd /\ ended (mt s) = false)) ->
  Ac cfg (create_job cfg s e2) + (if (done (mt s) + mask cfg <? next (mt s))%N then 0 else if ready (mt s) then 0 else 2) <= AcN cfg s + 1.
Proof.
  intros (JL & _) Hc. unfold create_job.
  destruct (_ <? _)%N; [acpc; lia|].
  destruct (ready (mt s)) eqn:Er; [acpc; rewrite Er; lia|].
  destruct Hc as [Hc|Hc]; [discriminate|].
  set (s1 := prepare_job cfg s (ifill (mt s)) e2).
  assert (Hk : slot cfg (next (mt s)) < length (jobs s)) by (rewrite JL; apply slot_lt).
  assert (F : c_ops (cl s1) = c_ops (cl s) /\ c_in (cl s1) = c_in (cl s) /\ c_out (cl s1) = c_out (cl s) /\
              ifill (mt s1) = 0%N /\ ready (mt s1) = false /\ next (mt s1) = next (mt s) /\ done (mt s1) = done (mt s) /\
              ended (mt s1) = (ended (mt s) || match e2 with EEnd => true | _ => false end)%bool /\
              j_size (getj s1 (slot cfg (next (mt s)))) = ifill (mt s)).
  { unfold s1, prepare_job. cbn zeta.
    destruct e2; cbn [andb]; try destruct (next (mt s) =? 0)%N; cbn [mt cl set_mt set_job set_jobs mt_buf mt_ring mt_cksum ifill ready next done ended];
      rewrite ?Er, ?orb_false_r, ?orb_true_r; repeat split; auto;
      try (change (getj (set_mt ?m ?x) ?k) with (getj x k); rewrite getj_set_job_eq by exact Hk; reflexivity). }
  destruct F as (F1 & F2 & F3 & F4 & F5 & F6 & F7 & F8 & F9).
  assert (HN : NPf s1 + 1 <= NPf s).
  { unfold NPf. rewrite F4, F8. change (0 <? 0)%N with false. cbn [b2n].
    destruct Hc as [Hc|(-> & Hc)].
    - apply N.ltb_lt in Hc. rewrite Hc. cbn [b2n]. destruct (ended (mt s)); cbn; [lia|]. destruct e2; cbn; lia.
    - rewrite Hc. cbn. lia. }
  assert (HA : forall s2, c_ops (cl s2) = c_ops (cl s1) -> c_in (cl s2) = c_in (cl s1) -> c_out (cl s2) = c_out (cl s1) ->
               mt s2 = mt s1 -> j_size (getj s2 (slot cfg (next (mt s)))) = ifill (mt s) ->
               AcN cfg s2 + 1 + (PP cfg + 2 * psz cfg s2) + 2 <= AcN cfg s + 1).
  { intros s2 G1 G2 G3 G4 G5. unfold AcN, FT, psz. rewrite G1, G2, G3, G4, F1, F2, F3, F4, F5, F6, F7, G5.
    assert (HN2 : NPf s2 = NPf s1) by (unfold NPf; rewrite G4; reflexivity). rewrite HN2. unfold WJ in *. nia. }
  destruct (_ && _).
  - acpc. cbn [mt set_job set_jobs]. rewrite F5.
    match goal with |- context[AcN cfg ?x] => apply (HA x); try reflexivity end.
    change (getj (set_cpc ?p ?x) ?k) with (getj x k).
    assert (Hk1 : slot cfg (next (mt s)) < length (jobs s1)).
    { unfold s1, prepare_job. cbn zeta. destruct e2; cbn [andb]; try destruct (next (mt s) =? 0)%N; cbn [jobs set_mt set_job set_jobs]; rewrite upd_length; exact Hk. }
    rewrite getj_set_job_eq by exact Hk1. cbn [j_set_done j_size]. exact F9.
  - acpc. rewrite F5. apply (HA (set_cpc CTryAdd s1)); try reflexivity. exact F9.
Qed.

Lemma ac_create_phase cfg s : Pre cfg s -> Ac cfg (create_phase cfg s) <= AcN cfg s + 1.
Proof.
  intros P. pose proof P as (_ & HT). unfold create_phase.
  set (e2 := match c_e2 (cl s) with EEnd => if (0 <? c_in (cl s))%N then EFlush else EEnd | e => e end).
  set (s' := set_cl (cl_io e2 (c_fwd (cl s)) (c_in (cl s)) (c_out (cl s)) (cl s)) s).
  change (AcN cfg s) with (AcN cfg s').
  match goal with |- Ac cfg (if ?b then _ else _) <= _ => destruct b eqn:Eb end; [|acpc; lia].
  match goal with |- Ac cfg (create_job cfg s' e2) <= _ => enough (X : ready (mt s') = true \/ (0 < ifill (mt s'))%N \/ e2 = EEnd /\ ended (mt s') = false) by (pose proof (ac_create_job cfg s' e2 P X); lia) end.
  change (mt s') with (mt s) in *.
  destruct (ready (mt s)); [left; reflexivity|right]. cbn [orb] in Eb.
  destruct (target (mt s) <=? ifill (mt s))%N eqn:E1; [left; apply N.leb_le in E1; lia|]. cbn [orb] in Eb.
  apply orb_prop in Eb. destruct Eb as [Eb|Eb]; apply andb_prop in Eb; destruct Eb as (X & Y).
  - left. apply N.ltb_lt in Y. exact Y.
  - right. split; [destruct e2; try discriminate; reflexivity|]. apply negb_true_iff in Y. exact Y.
Qed.

(* the copy into the input buffer *)
Lemma sync_point_le cfg m avail : (fst (sync_point cfg m avail) <= avail)%N.
Proof.
  unfold sync_point.
  assert (H0 : (N.min avail (target m - ifill m) <= avail)%N) by lia.
  assert (Hh : forall lo, match first_hit (hits m) lo (iabs m + ifill m + N.min avail (target m - ifill m)) with
                          | Some h => (h - (iabs m + ifill m) <= avail)%N | None => True end).
  { intros lo. unfold first_hit. destruct (find _ _) as [h|] eqn:F; auto. apply find_some in F. destruct F as (_ & F).
    apply andb_prop in F. destruct F as (_ & F). apply N.leb_le in F. lia. }
  repeat match goal with |- context[if ?b then _ else _] => destruct b end; cbn [fst]; try exact H0; try lia.
  - specialize (Hh (iabs m + ifill m + (c_minblk cfg - ifill m))%N). destruct (first_hit _ _ _); cbn [fst]; auto.
  - specialize (Hh (iabs m + ifill m)%N). destruct (first_hit _ _ _); cbn [fst]; auto.
Qed.

Lemma acn_load cfg s s1 (tl : N) :
  c_ops (cl s1) = c_ops (cl s) -> c_out (cl s1) = c_out (cl s) -> c_in (cl s1) = (c_in (cl s) - tl)%N -> (tl <= c_in (cl s))%N ->
  ifill (mt s1) = (ifill (mt s) + tl)%N -> ended (mt s1) = ended (mt s) -> ready (mt s1) = ready (mt s) ->
  next (mt s1) = next (mt s) -> done (mt s1) = done (mt s) -> jobs s1 = jobs s ->
  AcN cfg s1 + b2n (0 <? tl)%N <= AcN cfg s.
Proof.
  intros A1 A2 A3 A4 A5 A6 A7 A8 A9 A10. unfold AcN, FT. rewrite A1, A2, A3, A6 || idtac.
  rewrite (psz_ext cfg s s1 A8 A10). unfold NPf. rewrite A1, A2, A3, A5, A6, A7, A8, A9.
  destruct (0 <? tl)%N eqn:E; cbn [b2n].
  - apply N.ltb_lt in E. assert (X : (0 <? ifill (mt s) + tl)%N = true) by (apply N.ltb_lt; lia). rewrite X. cbn [b2n].
    destruct (0 <? ifill (mt s))%N; cbn [b2n]; unfold WJ, PP, JWc; nia.
  - apply N.ltb_ge in E. assert (tl = 0%N) by lia. subst tl. rewrite N.add_0_r, N.sub_0_r. lia.
Qed.

Lemma ac_fill_phase cfg s : Pre cfg s -> Ac cfg (fill_phase cfg s) <= AcN cfg s + 1.
Proof.
  intros P. unfold fill_phase. destruct (ihas (mt s)); [|apply ac_create_phase; exact P].
  pose proof (sync_point_le cfg (mt s) (c_in (cl s))) as Hle.
  destruct (sync_point cfg (mt s) (c_in (cl s))) as [tl fl]. cbn [fst] in Hle.
  match goal with |- Ac cfg (create_phase cfg ?x) <= _ => set (s1 := x) end.
  assert (P1 : Pre cfg s1) by (pre_same P).
  pose proof (acn_load cfg s s1 tl eq_refl eq_refl eq_refl Hle eq_refl eq_refl eq_refl eq_refl eq_refl eq_refl).
  pose proof (ac_create_phase cfg s1 P1). lia.
Qed.

Lemma acn_le cfg s s1 :
  c_ops (cl s1) = c_ops (cl s) -> (c_out (cl s1) <= c_out (cl s))%N -> (c_in (cl s1) <= c_in (cl s))%N ->
  (ifill (mt s1) <= ifill (mt s))%N -> ended (mt s1) = ended (mt s) -> ready (mt s1) = ready (mt s) ->
  next (mt s1) = next (mt s) -> done (mt s1) = done (mt s) -> jobs s1 = jobs s ->
  AcN cfg s1 <= AcN cfg s.
Proof.
  intros A1 A2 A3 A5 A6 A7 A8 A9 A10. unfold AcN, FT.
  rewrite (psz_ext cfg s s1 A8 A10). unfold NPf. rewrite A1, A6, A7, A8, A9.
  assert (X : b2n (0 <? ifill (mt s1))%N <= b2n (0 <? ifill (mt s))%N).
  { destruct (0 <? ifill (mt s1))%N eqn:E; cbn; [|lia]. apply N.ltb_lt in E. assert (Y : (0 <? ifill (mt s))%N = true) by (apply N.ltb_lt; lia). rewrite Y. cbn. lia. }
  nia.
Qed.

Ltac acn_same := apply acn_le; try reflexivity; cbn; lia.

Lemma ac_hand_out cfg s : Pre cfg s -> Ac cfg (hand_out cfg s) <= AcN cfg s + 1.
Proof.
  intros P. unfold hand_out.
  match goal with |- Ac cfg (fill_phase cfg ?x) <= _ => set (s1 := x) end.
  assert (P1 : Pre cfg s1) by (pre_same P).
  assert (AcN cfg s1 <= AcN cfg s) by (apply acn_le; try reflexivity; cbn; lia).
  pose proof (ac_fill_phase cfg s1 P1). lia.
Qed.

Lemma ac_after_wrap cfg s : Pre cfg s -> Ac cfg (after_wrap cfg s) <= AcN cfg s + 1.
Proof.
  intros P. unfold after_wrap. destruct (overlap _ _); [apply ac_fill_phase; exact P|].
  destruct (ldm (mt s)); [acpc; lia|apply ac_hand_out; exact P].
Qed.

Lemma ac_move_prefix cfg s : Pre cfg s -> Ac cfg (move_prefix cfg s) <= AcN cfg s + 1.
Proof.
  intros P. unfold move_prefix.
  match goal with |- Ac cfg (after_wrap cfg ?x) <= _ => set (s1 := x) end.
  assert (P1 : Pre cfg s1) by (pre_same P).
  assert (AcN cfg s1 <= AcN cfg s) by (apply acn_le; try reflexivity; cbn; lia).
  pose proof (ac_after_wrap cfg s1 P1). lia.
Qed.

Lemma ac_after_inuse cfg s u : Pre cfg s -> Ac cfg (after_inuse cfg s u) <= AcN cfg s + 1.
Proof.
  intros P. unfold after_inuse.
  set (s1 := set_cl (cl_use u (cl s)) s).
  assert (P1 : Pre cfg s1) by (pre_same P).
  change (AcN cfg s) with (AcN cfg s1). cbn zeta.
  destruct (_ <? _)%N; [|apply ac_after_wrap; exact P1].
  destruct (overlap _ _); [apply ac_fill_phase; exact P1|].
  destruct (ldm (mt s1)); [acpc; lia|apply ac_move_prefix; exact P1].
Qed.

Lemma ac_scan_inuse cfg s j : Pre cfg s -> Ac cfg (scan_inuse cfg s j) <= AcN cfg s + 1.
Proof. intros P. unfold scan_inuse. destruct (_ <? _)%N; [acpc; lia|apply ac_after_inuse; exact P]. Qed.

Lemma ac_gen_body cfg s : Pre cfg s -> Ac cfg (gen_body cfg s) <= AcN cfg s + 1.
Proof.
  intros P. unfold gen_body. destruct (_ && _); [|apply ac_create_phase; exact P].
  destruct (negb _); [apply ac_scan_inuse|apply ac_fill_phase]; exact P.
Qed.
