(* C11, termination under fairness, part 6: the potential of the application thread (weights, [Ac], [AA], [BB]). *)
From Coq Require Import List NArith ZArith Bool Arith Lia.
Import ListNotations.
From ZV.Conc Require Import Sched SchedLemmas MtModel MtProofs MtRing MtRingC MtPool MtFrame MtSleep MtStep MtLive MtErr.
From ZV.Conc Require Import MtTermDefs MtTermW MtTermA MtTermS MtTermR.
Local Open Scope nat_scope.
(* ------------------------------------------------------------------ *)
(* weights                                                              *)

Notation n2 := N.to_nat.
Definition b2n (b : bool) : nat := if b then 1 else 0.

Definition JWc (cfg : config) : nat := 17 + 2 * c_nbw cfg.      (* jobW = 2 * chunks + JWc *)
Definition PP (cfg : config) : nat := JWc cfg + 4.              (* a prepared job that is not posted yet *)
Definition WJ (cfg : config) : nat := PP cfg + 2.               (* a job that can still be prepared *)
Definition MR (cfg : config) : nat := n2 (Mr cfg).
Definition RELC (cfg : config) : nat := MR cfg + 3.             (* reserve for the wait-and-release path *)

Definition opW (cfg : config) (o : cop) : nat :=
  match o with
  | OpCS _ i o => WJ cfg * (2 * n2 i) + 2 * n2 i + n2 o + 2
  | OpInit _ => WJ cfg + RELC cfg + MR cfg + 8
  end.
Definition opsW (cfg : config) (l : list cop) : nat := sumf (opW cfg) l.

(* size of the job in slot(nextJobID) (the prepared job, if any) *)
Definition psz (cfg : config) (s : state) : nat := n2 (j_size (getj s (slot cfg (next (mt s))))).

(* number of jobs that can still be prepared without new input *)
Definition NPf (s : state) : nat := b2n (0 <? ifill (mt s))%N + b2n (negb (ended (mt s))).

(* frame terms: what the state of the frame still costs, whatever the call *)
Definition FT (cfg : config) (s : state) : nat :=
  WJ cfg * NPf s + 2 * n2 (ifill (mt s)) + (if ready (mt s) then PP cfg + 2 * psz cfg s else 0) +
  2 * n2 (next (mt s) - done (mt s)) + RELC cfg.

(* the call in progress, outside the wait-and-release and init phases *)
Definition AcN (cfg : config) (s : state) : nat :=
  opsW cfg (c_ops (cl s)) + WJ cfg * (2 * n2 (c_in (cl s))) + 2 * n2 (c_in (cl s)) + n2 (c_out (cl s)) + FT cfg s.

Definition initW (cfg : config) (ops : list cop) : nat := opsW cfg ops + WJ cfg + RELC cfg + 4.
Definition relK (cfg : config) (i : bool) (ops : list cop) : nat :=
  if i then initW cfg ops + 1 else opsW cfg (ops_after RErr ops) + 1.

Definition Ac (cfg : config) (s : state) : nat :=
  match awake (c_pc (cl s)) with
  | CDone => 0
  | CInitBuf => initW cfg (c_ops (cl s))
  | CInitSeq => opsW cfg (c_ops (cl s)) + FT cfg s + 1
  | CWait i => 2 * n2 (next (mt s) - done (mt s)) + MR cfg + 1 + relK cfg i (c_ops (cl s))
  | CRelAll i k => (MR cfg - k) + relK cfg i (c_ops (cl s))
  | CRelBuf => AcN cfg s
  | CTryAdd | CGetBuf => AcN cfg s + 1 + (if ready (mt s) then 0 else PP cfg + 2 * psz cfg s)
  | _ => AcN cfg s + 1
  end.

(* the potential: pool side + the application thread (+1 while it is awake) *)
Definition AA (cfg : config) (s : state) : nat := Aw cfg s + cz (c_pc (cl s)) + Ac cfg s.

(* secondary measure, used only while every pool thread sleeps *)
Definition BB (s : state) : nat :=
  let fl := (0 <? snd (c_use (cl s)))%N in
  match awake (c_pc (cl s)) with
  | CInUse j => 100 + n2 (next (mt s) - j)
  | CLdm1 => if fl then 60 else 40
  | CFlush => (if fl then 50 else 45) + (match c_e2 (cl s), c_e (cl s) with
                                         | EContinue, EContinue | EFlush, EFlush | EEnd, EEnd => 0 | _, _ => 2 end)
  | CLdm2 => 30
  | _ => 1
  end.

(* ------------------------------------------------------------------ *)
(* what the cost reads                                                  *)

Lemma ft_ext cfg s s' :
  ifill (mt s') = ifill (mt s) -> ended (mt s') = ended (mt s) -> ready (mt s') = ready (mt s) ->
  next (mt s') = next (mt s) -> done (mt s') = done (mt s) -> (ready (mt s) = true -> psz cfg s' = psz cfg s) -> FT cfg s' = FT cfg s.
Proof. intros A B C D E F. unfold FT, NPf. rewrite A, B, C, D, E. destruct (ready (mt s)); [rewrite F|]; reflexivity. Qed.

Lemma acn_ext cfg s s' :
  c_ops (cl s') = c_ops (cl s) -> c_in (cl s') = c_in (cl s) -> c_out (cl s') = c_out (cl s) -> FT cfg s' = FT cfg s ->
  AcN cfg s' = AcN cfg s.
Proof. intros A B C D. unfold AcN. rewrite A, B, C, D. reflexivity. Qed.

Lemma psz_ext cfg s s' : next (mt s') = next (mt s) -> jobs s' = jobs s -> psz cfg s' = psz cfg s.
Proof. intros A B. unfold psz, getj. rewrite A, B. reflexivity. Qed.

Lemma acn_ge cfg s : opsW cfg (c_ops (cl s)) + FT cfg s <= AcN cfg s.
Proof. unfold AcN. lia. Qed.

Lemma ft_ge cfg s : 2 * n2 (next (mt s) - done (mt s)) + RELC cfg <= FT cfg s.
Proof. unfold FT. lia. Qed.

(* preconditions threaded through the caller's code *)
Definition Pre (cfg : config) (s : state) : Prop := length (jobs s) = MR cfg /\ (0 < target (mt s))%N.

Lemma pre_ext cfg s s' : length (jobs s') = length (jobs s) -> target (mt s') = target (mt s) -> Pre cfg s -> Pre cfg s'.
Proof. intros A B (X & Y). split; congruence. Qed.

Ltac pre_same P := eapply pre_ext; [..|exact P]; first [reflexivity | cbn; rewrite ?upd_length; reflexivity].

Lemma opsW_after cfg r ops : opsW cfg (ops_after r ops) <= opsW cfg ops.
Proof. unfold ops_after. destruct r; auto. destruct ops as [|[fp|e i o] l]; auto. cbn. lia. Qed.

(* ------------------------------------------------------------------ *)
(* the end of the program, ZSTDMT_initCStream_internal, the release loop  *)

Lemma ac_stop_ops cfg s : Ac cfg (stop_ops s) = 0.
Proof. reflexivity. Qed.

Lemma ac_init_params cfg s : Ac cfg (init_params s) = initW cfg (c_ops (cl s)).
Proof. reflexivity. Qed.

Lemma ac_rel_scan_k cfg i kd K :
  (forall s1, alldone (mt s1) = true -> Ac cfg (kd s1) <= K (c_ops (cl s1))) ->
  forall fuel s k,
  Ac cfg (rel_scan_k i kd s k fuel) <= K (c_ops (cl s)) \/
  exists k', c_pc (cl (rel_scan_k i kd s k fuel)) = CRelAll i k' /\ k <= k' /\ k' < length (jobs s) /\
             c_ops (cl (rel_scan_k i kd s k fuel)) = c_ops (cl s).
Proof.
  intros Hkd. induction fuel as [|f IH]; intros s k; cbn [rel_scan_k]; [left; apply (Hkd (rel_clear s)); reflexivity|].
  destruct (Nat.ltb k (length (jobs s))) eqn:Ek; [|left; apply (Hkd (rel_clear s)); reflexivity].
  apply Nat.ltb_lt in Ek. destruct (j_dst (getj s k)).
  - right. exists k. cbn. auto.
  - destruct (IH (zero_slot k s) (S k)) as [X|(k' & X1 & X2 & X3 & X4)]; [left; exact X|].
    right. exists k'. split; [exact X1|]. split; [lia|]. cbn in X3. rewrite upd_length in X3. split; [exact X3|exact X4].
Qed.
