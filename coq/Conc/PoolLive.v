(* C12 theorems, liveness-flavoured part (stated as safety: invariants that exclude lost wake-ups and deadlock),
   for the CURRENT code (POOL_thread broadcasts queuePushCond). *)
From Coq Require Import List Arith Bool Lia ZArith.
Import ListNotations.
From ZV.Conc Require Import Sched SchedLemmas PoolModel PoolLemmas PoolInvDefs PoolInv1 PoolInv2 PoolInv3 PoolInv4 PoolInv5
     PoolInv6 PoolInv7 PoolInv8 PoolInv9 PoolInv10 PoolSafety PoolTheorems.

Record Live (cfg : config) (s : state) : Prop := mkLive {
  lv_safe : Safe cfg s; lv_workers : WorkersOK s; lv_cur2 : Cur2OK s; lv_exit : ExitOK s; lv_last : LastOK s;
  lv_main : MainOK cfg s; lv_pop : PopWake s; lv_push : PushWake s; lv_free : FreeOK s }.

Lemma live_step cfg tid w s s' : c_fix cfg = true -> Live cfg s -> step cfg tid w s = Some s' -> Live cfg s'.
Proof.
  intros Hfix [[] ] H. constructor.
  - eapply safe_step; eauto. constructor; auto.
  - eapply workers_step; eauto.
  - eapply cur2_step; eauto.
  - eapply exit_step; eauto.
  - eapply last_step; eauto.
  - eapply main_step; eauto.
  - eapply popwake_step; eauto.
  - eapply pushwake_step; eauto.
  - eapply free_step; eauto.
Qed.

Lemma mk_clients_first K progs : progs <> [] -> exists m, nth_error (mk_clients K 0 progs) 0 = Some m /\ t_worker m = false /\
  ((exists k j, t_pc m = PLock k j) \/ t_pc m = JLock \/ (exists n, t_pc m = RLock n) \/ (t_pc m = MJoin 1 /\ 1 < K) \/ (t_pc m = FLock /\ K <= 1)).
Proof.
  destruct progs as [|ops r]; [congruence|]. intros _. cbn [mk_clients nth_error].
  destruct (next_client K 0 ops) as [c ops'] eqn:E. eexists; split; [reflexivity|]. cbn. split; auto.
  apply next_client_pc in E. destruct E as [?|[?|[?|[(_ & [[? ?]|[? ?]] & _)|(? & _)]]]]; auto 6; try lia.
Qed.

Lemma mk_clients_nworker K start progs : sumf nworker (mk_clients K start progs) = 0.
Proof. revert start; induction progs as [|ops r IH]; intros start; cbn; auto. destruct (next_client K start ops). cbn. apply IH. Qed.

Lemma live_init bodies progs n q :
  progs <> [] -> 1 <= n -> Live (mkcfg true progs bodies) (init progs n q).
Proof.
  intros Hp Hn. pose proof (init_threads progs n q) as HI. constructor.
  - now apply safe_init.
  - unfold WorkersOK. cbn [st sp init cap]. rewrite sumf_app, sumf_repeat. cbn.
    rewrite mk_clients_nworker. lia.
  - unfold Cur2OK. eapply Forall_impl; [|exact HI]. intros th (_ & [[_ Hpc]| ->]); [|reflexivity].
    unfold cur2_ok. destruct (t_pc th); cbn in *; auto; discriminate.
  - unfold ExitOK. intros H. exfalso. rewrite (sumf_init_zero nexit) in H; [lia|exact HI|].
    intros th (_ & [[Hw _]| ->]); [|reflexivity]. unfold nexit. now rewrite Hw.
  - unfold LastOK. cbn. discriminate.
  - unfold MainOK. destruct (mk_clients_first (length progs) progs Hp) as (m & Hm & Hw & Hpc).
    exists m. cbn [st init]. rewrite nth_error_app1 by (apply nth_error_Some_lt in Hm; exact Hm).
    split; [exact Hm|]. split; [exact Hw|]. cbn [sp shutdown cap mkcfg c_K].
    destruct Hpc as [(k & j & ->)|[->|[(x & ->)|[(-> & HK)|(-> & HK)]]]]; cbn; repeat split; auto; try discriminate; intros; try discriminate; try lia.
    all: inversion H; subst; lia.
  - unfold PopWake. cbn. intros _. right. lia.
  - unfold PushWake. intros t x Hx. pose proof (Forall_nth_error _ _ _ _ HI Hx) as (_ & [[_ Hpc]| ->]); [|reflexivity].
    unfold pw_ok. destruct (t_pc x); cbn in *; auto; discriminate.
  - unfold FreeOK. intros m Hm Hf. exfalso. destruct (mk_clients_first (length progs) progs Hp) as (m0 & Hm0 & _ & Hpc).
    cbn [st init] in Hm. rewrite nth_error_app1 in Hm by (apply nth_error_Some_lt in Hm0; exact Hm0). rewrite Hm0 in Hm. inversion Hm; subst m0.
    destruct Hpc as [(k & j & Hq)|[Hq|[(x & Hq)|[(Hq & _)|(Hq & _)]]]]; rewrite Hq in Hf; discriminate.
Qed.

Theorem live_reachable bodies progs n q sched :
  progs <> [] -> 1 <= n -> Live (mkcfg true progs bodies) (reach true bodies progs n q sched).
Proof.
  intros Hp Hn. unfold reach. apply run_invariant.
  - intros s t w s' Hs H. eapply live_step; eauto.
  - now apply live_init.
Qed.

(* ---- POOL_free: when the main client is done, every thread is done and every accepted job ran exactly once ---- *)
Lemma all_threads_done cfg s :
  Live cfg s -> (exists m, nth_error (st s) 0 = Some m /\ t_pc m = Done) ->
  forall t x, nth_error (st s) t = Some x -> t_pc x = Done.
Proof.
  intros HL (m & Hm & Hd) t x Hx.
  destruct (lv_main _ _ HL) as (m0 & Hm0 & _ & _ & _ & HC & _ & HE & _). rewrite Hm in Hm0. inversion Hm0; subst m0.
  destruct (sf_shape _ _ (lv_safe _ _ HL)) as (Hlen & HK & _ & _ & _).
  pose proof (nth_error_Some_lt _ _ _ Hx) as Hlt.
  assert (Hcase : t = 0 \/ 1 <= t < c_K cfg \/ exists j, j < cap (sp s) /\ t = c_K cfg + j).
  { destruct (Nat.eq_dec t 0); auto. destruct (Nat.lt_ge_cases t (c_K cfg)); [right; left; lia|].
    right; right. exists (t - c_K cfg). lia. }
  destruct Hcase as [->|[Hc|(j & Hj & ->)]].
  - congruence.
  - assert (Hd' : done_at (st s) t = true) by (apply HC; auto; rewrite Hd; reflexivity).
    apply done_at_spec in Hd'. destruct Hd' as (y & Hy & Hyd). congruence.
  - assert (Hd' : done_at (st s) (c_K cfg + j) = true) by (apply HE; auto).
    apply done_at_spec in Hd'. destruct Hd' as (y & Hy & Hyd). congruence.
Qed.

Theorem free_all_done bodies progs n q sched m :
  progs <> [] -> 1 <= n ->
  let s := reach true bodies progs n q sched in
  nth_error (st s) 0 = Some m -> t_pc m = Done ->
  all_done s = true /\ pending (sg s) = [] /\ running s = [] /\
  forall k, k < next (sg s) -> cnt k (done (sg s)) = 1 /\ cnt k (started (sg s)) = 1.
Proof.
  intros Hp Hn s Hm Hd. pose proof (live_reachable bodies progs n q sched Hp Hn) as HL. fold s in HL.
  pose proof (all_threads_done _ _ HL (ex_intro _ m (conj Hm Hd))) as Hall.
  pose proof (lv_safe _ _ HL) as HS.
  assert (Hdone : all_done s = true).
  { unfold all_done. apply forallb_forall. intros x Hx. apply In_nth_error in Hx. destruct Hx as (t & Hx). now rewrite (Hall _ _ Hx). }
  assert (Hcur : Forall (fun th => t_cur th = None) (st s)).
  { apply Forall_forall. intros x Hx. pose proof (proj1 (Forall_forall _ _) (sf_cur _ _ HS) x Hx) as Hc. cbn beta in Hc.
    apply In_nth_error in Hx. destruct Hx as (t & Hx). unfold cur_ok in Hc. rewrite (Hall _ _ Hx) in Hc.
    destruct (t_cur x); auto. cbn in Hc. rewrite andb_false_r in Hc. discriminate. }
  assert (Hrun : running s = []) by (unfold running; now apply flat_cur_nil).
  (* the queue is empty: all workers have left their loop *)
  assert (Hsd : shutdown (sp s) = true).
  { destruct (lv_main _ _ HL) as (m0 & Hm0 & _ & HA & _). rewrite Hm in Hm0. inversion Hm0; subst. rewrite HA, Hd. reflexivity. }
  assert (Hexit : sumf nexit (st s) = cap (sp s)).
  { rewrite <- (lv_workers _ _ HL). apply sumf_ext. intros x Hx. apply In_nth_error in Hx. destruct Hx as (t & Hx).
    unfold nexit, nworker. rewrite (Hall _ _ Hx). now rewrite andb_true_r. }
  assert (Hpend : pending (sg s) = []).
  { destruct (lv_last _ _ HL Hsd) as [He|Hlt]; [|lia].
    destruct (sf_ring _ _ HS) as (_ & _ & _ & _ & He' & _). rewrite He in He'. destruct (pending (sg s)); auto; discriminate. }
  repeat split; auto.
  - pose proof (sf_tickets _ _ HS k) as [H1 _]. specialize (H1 H). rewrite Hpend, sumf_ncur_running in H1.
    fold (running s) in H1. rewrite Hrun in H1. unfold cnt at 1 2 in H1. cbn in H1. exact H1.
  - pose proof (sf_tickets _ _ HS k) as [H1 _]. specialize (H1 H). rewrite Hpend, sumf_ncur_running in H1.
    fold (running s) in H1. rewrite Hrun in H1. unfold cnt at 1 2 in H1. cbn in H1.
    pose proof (sf_started _ _ HS k) as H3.
    assert (Hz : sumf (nrun k) (st s) = 0).
    { apply sumf_zero. eapply Forall_impl; [|exact Hcur]. intros a Ha. unfold nrun. rewrite ncur_None by auto. now destruct (posting (t_pc a)). }
    lia.
Qed.

(* ---- no lost wake-up on queuePopCond / resize never strands queued jobs ---- *)
Theorem no_lost_wakeup_workers bodies progs n q sched :
  progs <> [] -> 1 <= n ->
  let s := reach true bodies progs n q sched in
  shutdown (sp s) = false ->
  1 <= sumf nrb (st s) \/
  Nat.min (length (pending (sg s))) (limit (sp s) - busy (sp s)) <= sumf nanb (st s) + sumf npsig (st s).
Proof. intros Hp Hn s. exact (lv_pop _ _ (live_reachable bodies progs n q sched Hp Hn)). Qed.

Theorem no_lost_wakeup_pushers bodies progs n q sched t x :
  progs <> [] -> 1 <= n ->
  let s := reach true bodies progs n q sched in
  nth_error (st s) t = Some x -> pw_ok (sp s) (sumf npendb (st s)) x = true.
Proof. intros Hp Hn s. exact (lv_push _ _ (live_reachable bodies progs n q sched Hp Hn) t x). Qed.

(* ---- deadlock freedom ---- *)
Definition lockpc (c : pc) : bool := match c with PLock _ _ | JLock | RLock _ | FLock | WLock | WLock2 => true | _ => false end.

Lemma disabled_cases cfg t s th :
  nth_error (st s) t = Some th -> step cfg t 0 s = None ->
  (is_free (sp s) = false /\ lockpc (t_pc th) = true) \/ asleep_push th = true \/ asleep_pop th = true \/ t_pc th = Done \/
  (exists c, t_pc th = MJoin c /\ is_done (st s) c = false) \/
  (exists i, t_pc th = FJoin i /\ is_done (st s) (c_K cfg + i) = false) \/
  (t_pc th = WUnlock1 /\ t_cur th = None).
Proof.
  intros Hth H. unfold step in H. rewrite Hth in H. unfold asleep_push, asleep_pop.
  destruct (t_pc th) eqn:Epc; try discriminate; auto 10;
    try (match type of H with context [is_free (sp s)] => destruct (is_free (sp s)) eqn:Ef; [|left; split; auto] end).
  all: try (destruct k; repeat match type of H with context [if ?c then _ else _] => destruct c end; discriminate).
  all: try (repeat match type of H with context [if ?c then _ else _] => destruct c eqn:? end; try discriminate).
  all: try (destruct (finish_op cfg t th (sg s)); discriminate).
  - right; right; right; right; left. eauto.
  - right; right; right; right; right; left. eauto.
  - destruct (t_cur th) eqn:Ec; auto 10. destruct (finish_op cfg t _ _); discriminate.
Qed.

Lemma enabled_list_nil cfg s : enabled_list cfg s = [] -> forall t th, nth_error (st s) t = Some th -> step cfg t 0 s = None.
Proof.
  unfold enabled_list. intros H t th Hth.
  destruct (step cfg t 0 s) eqn:E; auto. exfalso.
  assert (Hin : In t (filter (fun t => match step cfg t 0 s with Some _ => true | None => false end) (seq 0 (length (st s))))).
  { apply filter_In. split; [apply in_seq; apply nth_error_Some_lt in Hth; lia|now rewrite E]. }
  rewrite H in Hin. destruct Hin.
Qed.

(* with an empty queue, no busy worker and threadLimit >= 1 the queue is not full *)
Lemma is_full_idle p : Ring p [] -> busy p = 0 -> 1 <= limit p -> is_full p = false.
Proof.
  unfold Ring, is_full. cbn [length]. intros (Hq & _ & Hh & Ht & He & _) Hb Hl.
  destruct (1 <? qsize p) eqn:E1.
  - apply Nat.ltb_lt in E1. apply Nat.eqb_neq. rewrite Ht. rewrite Nat.add_0_r. rewrite (Nat.mod_small (head p)) by exact Hh.
    intros Heq. assert (H1 : (head p + 0) mod qsize p = (head p + 1) mod qsize p).
    { rewrite Nat.add_0_r. rewrite (Nat.mod_small (head p)) by exact Hh. exact Heq. }
    clear Ht Heq. apply mod_inj in H1; [discriminate| |]; clear H1; lia.
  - rewrite He, Hb. cbn. destruct (limit p); [lia|reflexivity].
Qed.

Definition blocked_class cfg s th : Prop :=
  asleep_push th = true \/ asleep_pop th = true \/ t_pc th = Done \/
  (exists c, t_pc th = MJoin c /\ is_done (st s) c = false) \/
  (exists i, t_pc th = FJoin i /\ is_done (st s) (c_K cfg + i) = false).

Lemma stuck_classes cfg s :
  Live cfg s -> enabled_list cfg s = [] -> forall t th, nth_error (st s) t = Some th -> blocked_class cfg s th.
Proof.
  intros HL Hen. pose proof (enabled_list_nil _ _ Hen) as Hdis.
  pose proof (lv_safe _ _ HL) as HS. pose proof (sf_mutex _ _ HS) as HM. unfold MutexOK in HM.
  assert (Hc2 : forall t th, nth_error (st s) t = Some th -> ~ (t_pc th = WUnlock1 /\ t_cur th = None)).
  { intros t th Hth [Hp Hc]. pose proof (Forall_nth_error _ _ _ _ (lv_cur2 _ _ HL) Hth) as H. cbn beta in H.
    unfold cur2_ok in H. rewrite Hp, Hc in H. discriminate. }
  assert (Hfree : is_free (sp s) = true).
  { unfold is_free. destruct (owner (sp s)) eqn:Eo; auto. exfalso.
    destruct (sumf_pos_ex nholds (st s) ltac:(lia)) as (i & th & Hth & Hpos).
    assert (Hh : holds (t_pc th) = true) by (unfold nholds in Hpos; destruct (holds (t_pc th)); auto; cbn in Hpos; lia).
    destruct (disabled_cases cfg i s th Hth (Hdis _ _ Hth)) as [[_ Hl]|[Ha|[Ha|[Ha|[(c & Ha & _)|[(c & Ha & _)|Ha]]]]]].
    - destruct (t_pc th); cbn in *; discriminate.
    - unfold asleep_push in Ha. destruct (t_pc th); cbn in *; discriminate.
    - unfold asleep_pop in Ha. destruct (t_pc th); cbn in *; discriminate.
    - rewrite Ha in Hh. discriminate.
    - rewrite Ha in Hh. discriminate.
    - rewrite Ha in Hh. discriminate.
    - eapply Hc2; eauto. }
  intros t th Hth. unfold blocked_class.
  destruct (disabled_cases cfg t s th Hth (Hdis _ _ Hth)) as [[Hf _]|[Ha|[Ha|[Ha|[Ha|[Ha|Ha]]]]]]; auto 10.
  - congruence.
  - exfalso. eapply Hc2; eauto.
Qed.

Lemma blocked_sums cfg s :
  (forall t th, nth_error (st s) t = Some th -> blocked_class cfg s th) -> self_blocked s = false ->
  sumf nbusy (st s) = 0 /\ sumf nanb (st s) = 0 /\ sumf npsig (st s) = 0 /\ sumf nrb (st s) = 0 /\ sumf npendb (st s) = 0.
Proof.
  intros Hcl Hsb.
  assert (Hall : forall x, In x (st s) -> nbusy x = 0 /\ nanb x = 0 /\ npsig x = 0 /\ nrb x = 0 /\ npendb x = 0).
  { intros x Hx.
    assert (Hnsb : (t_worker x && match t_pc x with PAsleep _ => true | _ => false end) = false).
    { destruct (t_worker x && match t_pc x with PAsleep _ => true | _ => false end) eqn:E; auto.
      exfalso. unfold self_blocked in Hsb. assert (existsb (fun th => t_worker th && match t_pc th with PAsleep _ => true | _ => false end) (st s) = true).
      { apply existsb_exists. exists x; auto. } congruence. }
    apply In_nth_error in Hx. destruct Hx as (t & Hx).
    unfold nbusy, nanb, npsig, nrb, npendb.
    destruct (Hcl _ _ Hx) as [Ha|[Ha|[Ha|[(c & Ha & _)|(c & Ha & _)]]]].
    - unfold asleep_push in Ha. destruct (t_pc x); try discriminate; cbn in *; rewrite ?Hnsb, ?andb_false_r; auto.
    - unfold asleep_pop in Ha. destruct (t_pc x); try discriminate; cbn in *; rewrite ?andb_false_r; auto.
    - rewrite Ha. cbn. rewrite ?andb_false_r; auto.
    - rewrite Ha. cbn. rewrite ?andb_false_r; auto.
    - rewrite Ha. cbn. rewrite ?andb_false_r; auto. }
  repeat split; apply sumf_zero, Forall_forall; intros x Hx; apply Hall in Hx; tauto.
Qed.

Theorem deadlock_free bodies progs n q sched :
  progs <> [] -> 1 <= n ->
  let cfg := mkcfg true progs bodies in
  let s := reach true bodies progs n q sched in
  stuck cfg s = true -> self_blocked s = true /\ shutdown (sp s) = false.
Proof.
  intros Hp Hn cfg s Hst.
  pose proof (live_reachable bodies progs n q sched Hp Hn) as HL. fold s in HL. fold cfg in HL.
  unfold stuck in Hst. apply andb_prop in Hst. destruct Hst as [Hnd Hen]. apply negb_true_iff in Hnd.
  assert (Hen' : enabled_list cfg s = []) by (destruct (enabled_list cfg s); auto; discriminate).
  pose proof (stuck_classes _ _ HL Hen') as Hcl.
  pose proof (lv_safe _ _ HL) as HS.
  destruct (sf_shape _ _ HS) as (Hlen & HK & Hlim & HWk & HMo).
  destruct (lv_main _ _ HL) as (m & Hm & Hw & HA & HB & HC & HD & HE & HG).
  assert (Hrole : forall t x, nth_error (st s) t = Some x -> role_ok x = true) by (intros t x Hx; exact (Forall_nth_error _ _ _ _ (sf_role _ _ HS) Hx)).
  destruct (shutdown (sp s)) eqn:Esd.
  - (* POOL_free is in progress: never stuck *)
    exfalso. symmetry in HA.
    destruct (Hcl _ _ Hm) as [Ha|[Ha|[Ha|[(c & Ha & _)|(i & Ha & Hnd')]]]].
    + unfold asleep_push in Ha. destruct (t_pc m); cbn in HA; discriminate.
    + unfold asleep_pop in Ha. destruct (t_pc m); cbn in HA; discriminate.
    + (* main is done: everybody is *)
      pose proof (all_threads_done _ _ HL (ex_intro _ m (conj Hm Ha))) as Hall.
      assert (all_done s = true); [|congruence].
      unfold all_done. apply forallb_forall. intros x Hx. apply In_nth_error in Hx. destruct Hx as (t & Hx). now rewrite (Hall _ _ Hx).
    + rewrite Ha in HA. discriminate.
    + (* main waits for worker i, which has not exited *)
      destruct (HD _ Ha) as [Hi _].
      assert (Hex : exists x, nth_error (st s) (c_K cfg + i) = Some x).
      { destruct (nth_error (st s) (c_K cfg + i)) eqn:E; eauto. apply nth_error_None in E. lia. }
      destruct Hex as (x & Hx).
      assert (Hxw : t_worker x = true). { rewrite (HWk _ _ Hx). apply negb_true_iff, Nat.ltb_ge. lia. }
      assert (Hxnd : t_pc x <> Done). { intros Hd. unfold is_done in Hnd'. erewrite nth_error_nth' in Hnd' by eassumption. rewrite Hd in Hnd'. discriminate. }
      specialize (HG ltac:(rewrite Ha; reflexivity)).
      pose proof (Hrole _ _ Hx) as Hr. cbn beta in Hr. unfold role_ok in Hr. rewrite Hxw in Hr.
      destruct (Hcl _ _ Hx) as [Hb|[Hb|[Hb|[(c & Hb & _)|(c & Hb & _)]]]].
      * pose proof (lv_free _ _ HL _ Hm ltac:(rewrite Ha; reflexivity)) as Hnp0. apply sumf_zero in Hnp0.
        pose proof (Forall_nth_error _ _ _ _ Hnp0 Hx) as Hz. unfold npush in Hz. rewrite Hb in Hz. discriminate.
      * apply sumf_zero in HG. pose proof (Forall_nth_error _ _ _ _ HG Hx) as Hz. unfold naslp in Hz. rewrite Hb in Hz. discriminate.
      * congruence.
      * assert (c_K cfg + i = 0) by (apply (HMo _ _ Hx); rewrite Hb; reflexivity). lia.
      * assert (c_K cfg + i = 0) by (apply (HMo _ _ Hx); rewrite Hb; reflexivity). lia.
  - (* no shutdown yet *)
    split; [|reflexivity]. destruct (self_blocked s) eqn:Hsb; auto. exfalso.
    destruct (blocked_sums _ _ Hcl Hsb) as (Zb & Za & Zs & Zr & Zp).
    assert (Hbusy : busy (sp s) = 0) by (rewrite (sf_busy _ _ HS); exact Zb).
    symmetry in HA.
    (* the queue is empty *)
    assert (Hpend : pending (sg s) = []).
    { destruct (lv_pop _ _ HL Esd) as [H1|H1]; [lia|]. rewrite Za, Zs, Hbusy, Nat.sub_0_r in H1.
      destruct (pending (sg s)); auto. cbn [length] in H1. lia. }
    pose proof (sf_ring _ _ HS) as HR. unfold RingOK in HR. rewrite Hpend in HR.
    assert (Hnf : is_full (sp s) = false) by (apply is_full_idle; auto; lia).
    assert (Hqe : qempty (sp s) = true) by (destruct HR as (_ & _ & _ & _ & He & _); exact He).
    (* nobody sleeps on queuePushCond *)
    assert (Hnp : forall t x, nth_error (st s) t = Some x -> asleep_push x = false).
    { intros t x Hx. pose proof (lv_push _ _ HL _ _ Hx) as Hpw. unfold pw_ok in Hpw. rewrite Zp, Hbusy, Hnf, Hqe in Hpw.
      unfold asleep_push. destruct (t_pc x); auto; cbn in Hpw; discriminate. }
    destruct (Hcl _ _ Hm) as [Ha|[Ha|[Ha|[(c & Ha & Hnd')|(i & Ha & _)]]]].
    + rewrite (Hnp _ _ Hm) in Ha. discriminate.
    + unfold asleep_pop in Ha. pose proof (Hrole _ _ Hm) as Hr. cbn beta in Hr. unfold role_ok in Hr. rewrite Hw in Hr.
      destruct (t_pc m); try discriminate.
    + rewrite Ha in HA. discriminate.
    + (* main waits for client c *)
      destruct (HB _ Ha) as [[Hc1 Hc2] _].
      assert (Hex : exists x, nth_error (st s) c = Some x).
      { destruct (nth_error (st s) c) eqn:E; eauto. apply nth_error_None in E. lia. }
      destruct Hex as (x & Hx).
      assert (Hxw : t_worker x = false). { rewrite (HWk _ _ Hx). apply negb_false_iff, Nat.ltb_lt. lia. }
      assert (Hxnd : t_pc x <> Done). { intros Hd. unfold is_done in Hnd'. erewrite nth_error_nth' in Hnd' by eassumption. rewrite Hd in Hnd'. discriminate. }
      pose proof (Hrole _ _ Hx) as Hr. cbn beta in Hr. unfold role_ok in Hr. rewrite Hxw in Hr.
      destruct (Hcl _ _ Hx) as [Hb|[Hb|[Hb|[(c' & Hb & _)|(c' & Hb & _)]]]].
      * rewrite (Hnp _ _ Hx) in Hb. discriminate.
      * unfold asleep_pop in Hb. destruct (t_pc x); try discriminate.
      * congruence.
      * assert (c = 0) by (apply (HMo _ _ Hx); rewrite Hb; reflexivity). lia.
      * assert (c = 0) by (apply (HMo _ _ Hx); rewrite Hb; reflexivity). lia.
    + rewrite Ha in HA. discriminate.
Qed.
