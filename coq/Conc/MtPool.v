(* C11: the pool part of the zstdmt model (POOL_tryAdd + POOL_thread, queueSize = 1): numThreadsBusy counts the pool threads between the
   pop of a job and the end of POOL_thread's bookkeeping, and a queued job always has an idle pool thread that is AWAKE (standing at the
   queue mutex) to take it: the wake-up of pthread_cond_signal(queuePopCond) in POOL_tryAdd is never lost, under every schedule. *)
From Coq Require Import List NArith ZArith Bool Arith Lia.
Import ListNotations.
From ZV.Conc Require Import Sched SchedLemmas MtModel MtProofs MtRing MtRingC.
Local Open Scope nat_scope.

Definition busyp (p : wpc) : bool := match p with WIdle | WAsleep => false | _ => true end.
Definition nbusy (l : list wloc) : nat := length (filter (fun w => busyp (w_pc w)) l).

Record PInv (cfg : config) (s : state) : Prop := mkP {
  p_len : length (ws s) = c_nbw cfg;
  p_busy : busy (pl s) = nbusy (ws s);
  p_take : forall k, q (pl s) = Some k -> exists t w, nth_error (ws s) t = Some w /\ w_pc w = WIdle }.

Lemma nbusy_upd l t w w' : nth_error l t = Some w ->
  nbusy (upd t w' l) + (if busyp (w_pc w) then 1 else 0) = nbusy l + (if busyp (w_pc w') then 1 else 0).
Proof.
  unfold nbusy. revert t. induction l as [|a r IH]; intros t H; destruct t; cbn in H; try discriminate.
  - inversion H; subst. cbn. destruct (busyp (w_pc w)), (busyp (w_pc w')); cbn; lia.
  - cbn. specialize (IH _ H). destruct (busyp (w_pc a)); cbn; lia.
Qed.

Lemma filter_len_le {A} (f : A -> bool) l : length (filter f l) <= length l.
Proof. induction l as [|a r IH]; cbn; [lia|]. destruct (f a); cbn; lia. Qed.

Lemma nbusy_le l : nbusy l <= length l.
Proof. unfold nbusy. apply filter_len_le. Qed.

Lemma nbusy_lt_ex l : nbusy l < length l -> exists t w, nth_error l t = Some w /\ busyp (w_pc w) = false.
Proof.
  unfold nbusy. induction l as [|a r IH]; cbn; [lia|].
  destruct (busyp (w_pc a)) eqn:E; cbn; intros H.
  - destruct IH as (t & w & H1 & H2); [lia|]. exists (S t), w. auto.
  - exists 0, a. auto.
Qed.

Lemma nbusy_has_idle l t w : nth_error l t = Some w -> busyp (w_pc w) = false -> nbusy l < length l.
Proof.
  unfold nbusy. revert t. induction l as [|a r IH]; intros t Hw Hb; destruct t; cbn in Hw; try discriminate.
  - inversion Hw; subst. cbn. rewrite Hb. pose proof (filter_len_le (fun w0 => busyp (w_pc w0)) r). lia.
  - cbn. specialize (IH _ Hw Hb). destruct (busyp (w_pc a)); cbn; lia.
Qed.

Lemma indices_from_complete {A} (f : A -> bool) : forall l n t x, nth_error l t = Some x -> f x = true -> In (n + t) (indices_from f n l).
Proof.
  induction l as [|a r IH]; intros n t x H Hf; destruct t; cbn in H; try discriminate.
  - inversion H; subst. cbn. rewrite Hf. left. lia.
  - cbn. specialize (IH (S n) t x H Hf). replace (n + S t) with (S n + t) by lia. destruct (f a); [right|]; exact IH.
Qed.

(* after pthread_cond_signal(queuePopCond): some pool thread is awake at the queue mutex, if one was asleep or one was there already *)
Lemma signal_pop_idle w l :
  (exists t x, nth_error l t = Some x /\ busyp (w_pc x) = false) ->
  exists t x, nth_error (signal_pop w l) t = Some x /\ w_pc x = WIdle.
Proof.
  intros (t & x & H & Hb). unfold signal_pop.
  destruct (pop_sleepers l) as [|i0 r] eqn:E.
  - exists t, x. split; auto. destruct (w_pc x) eqn:Ep; try discriminate; auto.
    exfalso. assert (Hin : In (0 + t) (pop_sleepers l)) by (eapply indices_from_complete; eauto; rewrite Ep; reflexivity).
    rewrite E in Hin. contradiction.
  - set (i := nth (w mod length (i0 :: r)) (i0 :: r) i0).
    assert (Hin : In i (pop_sleepers l)) by (rewrite E; apply nth_In; apply Nat.mod_upper_bound; discriminate).
    unfold pop_sleepers in Hin. apply indices_from_spec in Hin. destruct Hin as (x0 & H0 & _ & _). rewrite Nat.sub_0_r in H0.
    exists i, (w_set_pc WIdle (nth i l w0)). split; [|reflexivity].
    apply nth_error_upd_eq. apply nth_error_Some. congruence.
Qed.

Lemma nbusy_signal_pop w l : nbusy (signal_pop w l) = nbusy l /\ length (signal_pop w l) = length l.
Proof.
  unfold signal_pop. destruct (pop_sleepers l) as [|i0 r] eqn:E; [auto|].
  set (i := nth (w mod length (i0 :: r)) (i0 :: r) i0).
  assert (Hin : In i (pop_sleepers l)) by (rewrite E; apply nth_In; apply Nat.mod_upper_bound; discriminate).
  unfold pop_sleepers in Hin. apply indices_from_spec in Hin. destruct Hin as (x0 & H0 & Hf & _). rewrite Nat.sub_0_r in H0.
  split; [|apply upd_length].
  pose proof (nbusy_upd l i x0 (w_set_pc WIdle (nth i l w0)) H0) as Hn.
  destruct (w_pc x0); try discriminate. cbn [w_pc w_set_pc busyp] in Hn. lia.
Qed.

Lemma pinv_ext cfg s s' : ws s' = ws s -> busy (pl s') = busy (pl s) -> q (pl s') = q (pl s) -> PInv cfg s -> PInv cfg s'.
Proof. intros Hw Hb Hq [A B C]. constructor; rewrite ?Hw, ?Hb, ?Hq; auto. Qed.

(* one pool thread moves from w to w' *)
Lemma pinv_move cfg s t w w' X :
  PInv cfg s -> nth_error (ws s) t = Some w -> ws X = ws s ->
  busy (pl X) + (if busyp (w_pc w) then 1 else 0) = busy (pl s) + (if busyp (w_pc w') then 1 else 0) ->
  (forall k, q (pl X) = Some k -> q (pl s) = Some k /\ (w_pc w = WIdle -> w_pc w' = WIdle)) ->
  PInv cfg (set_w t w' X).
Proof.
  intros [PL PB PT] Hw Ews Eb Eq.
  assert (Htl : t < length (ws s)) by (apply nth_error_Some; congruence).
  constructor; cbn [ws pl set_w set_ws]; rewrite Ews.
  - rewrite upd_length. exact PL.
  - pose proof (nbusy_upd (ws s) t w w' Hw). lia.
  - intros k Hk. destruct (Eq k Hk) as (Hk0 & Hid). destruct (PT k Hk0) as (t1 & w1 & H1 & P1).
    destruct (Nat.eq_dec t1 t) as [->|Hne].
    + exists t, w'. rewrite nth_error_upd_eq by auto. split; auto. apply Hid. congruence.
    + exists t1, w1. rewrite nth_error_upd_neq by auto. auto.
Qed.

Lemma nbusy_wake_serial l : nbusy (wake_serial l) = nbusy l.
Proof.
  unfold nbusy, wake_serial. induction l as [|a r IH]; cbn; auto.
  destruct (w_pc a) eqn:E; cbn; rewrite ?E; cbn; rewrite IH; reflexivity.
Qed.

Lemma pinv_wake_serial cfg s : PInv cfg s -> PInv cfg (set_ws (wake_serial (ws s)) s).
Proof.
  intros [PL PB PT]. constructor; cbn [ws pl set_ws].
  - unfold wake_serial. rewrite map_length. exact PL.
  - rewrite nbusy_wake_serial. exact PB.
  - intros k Hk. destruct (PT k Hk) as (t & w & H & P). exists t, w. split; auto. apply wake_serial_self; auto. rewrite P. discriminate.
Qed.

Lemma pinv_wake_ldm cfg s : PInv cfg s -> PInv cfg (wake_caller_ldm s).
Proof. intros P. destruct (wake_ldm_proj s) as (_ & _ & _ & E1 & E2 & _). apply (pinv_ext cfg s); auto; congruence. Qed.
Lemma pinv_wake_job cfg k s : PInv cfg s -> PInv cfg (wake_caller_job cfg k s).
Proof. intros P. destruct (wake_job_proj cfg k s) as (_ & _ & _ & E1 & E2 & _). apply (pinv_ext cfg s); auto; congruence. Qed.

(* pool threads *)
Lemma pinv_worker_step cfg t s s' : PInv cfg s -> worker_step cfg t s = Some s' -> PInv cfg s'.
Proof.
  intros P H. unfold worker_step in H.
  destruct (nth_error (ws s) t) as [w|] eqn:Hw; [|discriminate].
  destruct (w_pc w) eqn:Epc; try discriminate.
  - (* WIdle *)
    destruct (q (pl s)) as [sl|] eqn:Eq.
    + destruct (Nat.leb (c_nbw cfg) (busy (pl s))) eqn:El; inv_some H.
      * (* cannot happen: this thread is not busy, so numThreadsBusy < nbWorkers *)
        exfalso. apply Nat.leb_le in El. pose proof (nbusy_has_idle (ws s) t w Hw). rewrite Epc in H. specialize (H eq_refl).
        rewrite (p_busy _ _ P), <- (p_len _ _ P) in El. lia.
      * apply pinv_move with (s := s) (w := w); auto; try reflexivity; rewrite ?Epc; cbn; try lia. discriminate.
    + inv_some H. apply pinv_move with (s := s) (w := w); auto; try reflexivity; rewrite ?Epc; cbn; auto. intros k Hk. congruence.
  - inv_some H. apply pinv_move with (s := s) (w := w); auto; try reflexivity; rewrite ?Epc; cbn; auto.
    + destruct (sp_on (pl s)); cbn; [lia|]. unfold after_getseq; cbn. destruct (_ || _); cbn; lia.
    + intros k Hk; split; auto; discriminate.
  - inv_some H. apply pinv_move with (s := s) (w := w); auto; try reflexivity; rewrite ?Epc; cbn; auto.
    + unfold after_getseq; cbn. destruct (w_cctx w); cbn; lia.
    + intros k Hk; split; auto; discriminate.
  - repeat match type of H with (if ?b then _ else _) = _ => destruct b end; inv_some H;
      (apply pinv_move with (s := s) (w := w); auto; try reflexivity; rewrite ?Epc; cbn; auto; intros k Hk; split; auto; discriminate).
  - repeat match type of H with (if ?b then _ else _) = _ => destruct b end; inv_some H;
      (apply pinv_move with (s := s) (w := w); auto; try reflexivity; rewrite ?Epc; cbn; auto; intros k Hk; split; auto; discriminate).
  - inv_some H. apply pinv_move with (s := s) (w := w); auto; try reflexivity; rewrite ?Epc; cbn; auto. intros k Hk; split; auto; discriminate.
  - (* WSerial *)
    destruct (_ <? _)%N; [inv_some H|destruct (negb _); inv_some H].
    + apply pinv_move with (s := s) (w := w); auto; try reflexivity; rewrite ?Epc; cbn; auto. intros k Hk; split; auto; discriminate.
    + (* the turn was skipped *)
      apply pinv_move with (s := s) (w := w); auto; try reflexivity; rewrite ?Epc.
      * unfold after_serial. destruct (negb (j_first _) && _); cbn [w_pc w_set_pc busyp]; [lia|].
        pose proof (next_chunk_props cfg w (getj s (w_slot w)) (job_pay cfg s (getj s (w_slot w))) 1 ltac:(lia)) as (_ & A & _).
        destruct (w_pc (next_chunk _ _ _ _ _)); try discriminate; cbn; lia.
      * intros k Hk; split; auto; discriminate.
    + match goal with |- PInv cfg (set_w t ?w' ?s2) => assert (K2 : PInv cfg s2 /\ nth_error (ws s2) t = Some w) end.
      { destruct (_ && ldm (mt s)).
        - split; [apply pinv_wake_ldm; eapply pinv_ext; [..|apply pinv_wake_serial; exact P]; reflexivity|].
          match goal with |- nth_error (ws (wake_caller_ldm ?x)) _ = _ => destruct (wake_ldm_proj x) as (_ & _ & _ & _ & Ew & _); rewrite Ew end.
          cbn [ws set_sr set_ws]. apply wake_serial_self; auto. rewrite Epc; discriminate.
        - split; [eapply pinv_ext; [..|apply pinv_wake_serial; exact P]; reflexivity|].
          cbn [ws set_sr set_ws]. apply wake_serial_self; auto. rewrite Epc; discriminate. }
      destruct K2 as (K2 & Hw2).
      match goal with |- PInv cfg (set_w t _ ?X) => apply pinv_move with (s := X) (w := w) end; auto; try reflexivity; rewrite ?Epc.
      * unfold after_serial. destruct (negb (j_first _) && _); cbn [w_pc w_set_pc busyp]; [lia|].
        pose proof (next_chunk_props cfg w (getj s (w_slot w)) (job_pay cfg s (getj s (w_slot w))) 1 ltac:(lia)) as (_ & A & _).
        destruct (w_pc (next_chunk _ _ _ _ _)); try discriminate; cbn; lia.
      * intros k Hk; split; auto; discriminate.
  - (* WChunk *)
    inv_some H.
    pose proof (next_chunk_props cfg w (getj s (w_slot w)) (job_pay cfg s (getj s (w_slot w))) (k + 1) ltac:(lia)) as (_ & A & _).
    match goal with |- PInv cfg (set_w t _ ?X) => apply pinv_move with (s := X) (w := w) end; auto; try reflexivity.
    + apply pinv_wake_job. eapply pinv_ext; [..|exact P]; reflexivity.
    + destruct (wake_job_proj cfg (w_slot w) (set_job (w_slot w) (j_upd_work (c_chunk cfg * k) (j_csize (getj s (w_slot w)) + nth (N.to_nat (k - 1)) (p_chunks (job_pay cfg s (getj s (w_slot w)))) 0%N) (j_err (getj s (w_slot w))) (getj s (w_slot w))) s)) as (_ & _ & _ & _ & Ew & _).
      rewrite Ew. exact Hw.
    + rewrite Epc. destruct (w_pc (next_chunk _ _ _ _ _)); try discriminate; cbn; lia.
    + intros k0 Hk; split; auto. rewrite Epc; discriminate.
  - (* WEnsure *)
    inv_some H.
    match goal with |- PInv cfg (set_w t ?w' ?s2) => assert (K2 : PInv cfg s2 /\ nth_error (ws s2) t = Some w) end.
    { destruct (_ <=? _)%N.
      - split; [apply pinv_wake_ldm; eapply pinv_ext; [..|apply pinv_wake_serial; exact P]; reflexivity|].
        match goal with |- nth_error (ws (wake_caller_ldm ?x)) _ = _ => destruct (wake_ldm_proj x) as (_ & _ & _ & _ & Ew & _); rewrite Ew end.
        cbn [ws set_sr set_ws]. apply wake_serial_self; auto. rewrite Epc; discriminate.
      - split; auto. }
    destruct K2 as (K2 & Hw2).
    match goal with |- PInv cfg (set_w t _ ?X) => apply pinv_move with (s := X) (w := w) end; auto; try reflexivity; rewrite ?Epc.
    + unfold after_ensure. destruct (w_seq w); cbn; [lia|]. destruct (w_cctx w); cbn; lia.
    + intros k Hk; split; auto; discriminate.
  - inv_some H. apply pinv_move with (s := s) (w := w); auto; try reflexivity; rewrite ?Epc; cbn; auto.
    + destruct (w_cctx w); cbn; lia.
    + intros k Hk; split; auto; discriminate.
  - inv_some H. apply pinv_move with (s := s) (w := w); auto; try reflexivity; rewrite ?Epc; cbn; auto. intros k Hk; split; auto; discriminate.
  - (* WReport *)
    inv_some H.
    match goal with |- PInv cfg (set_w t _ ?X) => apply pinv_move with (s := X) (w := w) end; auto; try reflexivity.
    + apply pinv_wake_job. eapply pinv_ext; [..|exact P]; reflexivity.
    + match goal with |- nth_error (ws (wake_caller_job ?c ?k ?x)) _ = _ => destruct (wake_job_proj c k x) as (_ & _ & _ & _ & Ew & _); rewrite Ew end. exact Hw.
    + rewrite Epc. cbn. lia.
    + intros k0 Hk; split; auto. rewrite Epc; discriminate.
  - (* WFinish *)
    inv_some H. apply pinv_move with (s := s) (w := w); auto; try reflexivity; rewrite ?Epc; cbn.
    all: try (intros k0 Hk0; split; auto; discriminate).
    assert (1 <= nbusy (ws s)).
    { unfold nbusy. clear - Hw Epc. revert t Hw. induction (ws s) as [|a r IH]; intros t Hw; destruct t; cbn in Hw; try discriminate.
      - inversion Hw; subst. cbn. rewrite Epc. cbn. lia.
      - cbn. specialize (IH _ Hw). destruct (busyp (w_pc a)); cbn; lia. }
    rewrite (p_busy _ _ P). lia.
Qed.

(* the application thread touches the pool only in POOL_tryAdd *)
Lemma pinv_swp cfg a b : eq_swp a b -> PInv cfg a -> PInv cfg b.
Proof. intros (_ & Ew & Ep) P. eapply pinv_ext; [..|exact P]; congruence. Qed.

Ltac pinv_base P := first [exact P | eapply pinv_ext; [..|exact P]; reflexivity].
Ltac pinv_fn P :=
  first [ pinv_base P
        | eapply pinv_swp;
          [first [apply swp_after_inuse|apply swp_scan_inuse|apply swp_move_prefix|apply swp_hand_out|apply swp_flush_body
                 |apply swp_complete_job|apply swp_wait_all|apply swp_rel_scan|apply swp_finish_op|apply swp_set_cpc]
          |pinv_base P] ].

Lemma pinv_caller_step cfg w s s' : PInv cfg s -> caller_step cfg w s = Some s' -> PInv cfg s'.
Proof.
  intros P H. unfold caller_step in H. cbn zeta in H.
  destruct (c_pc (cl s)) eqn:Epc; try discriminate.
  all: try (repeat match type of H with (if ?b then _ else _) = _ => destruct b end; inv_some H; pinv_fn P; fail).
  (* CTryAdd *)
  destruct (Nat.eqb (busy (pl s)) (c_nbw cfg) || _) eqn:Eb; inv_some H; [pinv_fn P|].
  apply orb_false_elim in Eb. destruct Eb as (Eb & _). apply Nat.eqb_neq in Eb.
  destruct (nbusy_signal_pop w (ws s)) as (N1 & N2).
  constructor; cbn [ws pl set_cpc set_cl set_mt set_ws set_pl busy q pl_q].
  - rewrite N2. apply P.
  - rewrite N1. apply P.
  - intros k _. apply signal_pop_idle. apply nbusy_lt_ex.
    pose proof (nbusy_le (ws s)). rewrite (p_len _ _ P) in *. rewrite (p_busy _ _ P) in Eb. lia.
Qed.

Lemma pinv_init cfg ops : PInv cfg (init cfg ops).
Proof.
  unfold init. eapply pinv_swp; [apply swp_start_ops|].
  constructor; cbn [ws pl busy q].
  - apply repeat_length.
  - unfold nbusy. induction (c_nbw cfg); cbn; auto.
  - discriminate.
Qed.

Theorem pinv_reachable cfg ops sched : PInv cfg (run state (step cfg) sched (init cfg ops)).
Proof.
  apply (run_invariant state (step cfg) (PInv cfg)).
  - intros s t w s' Hi Hst. destruct t as [|t]; cbn [step] in Hst; [eapply pinv_caller_step|eapply pinv_worker_step]; eauto.
  - apply pinv_init.
Qed.

Theorem pool_no_lost_wakeup cfg ops sched :
  let s := run state (step cfg) sched (init cfg ops) in
  length (ws s) = c_nbw cfg /\ busy (pl s) = nbusy (ws s) /\
  forall k, q (pl s) = Some k -> exists t w, nth_error (ws s) t = Some w /\ w_pc w = WIdle.
Proof. destruct (pinv_reachable cfg ops sched) as [A B C]. exact (conj A (conj B C)). Qed.
