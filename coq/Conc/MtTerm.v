(* C11, termination under fairness, part 14 (Stage C): under every fair schedule the application finishes its call program. *)
From Coq Require Import List NArith ZArith Bool Arith Lia.
Import ListNotations.
From ZV.Conc Require Import Sched SchedLemmas MtModel MtProofs MtRing MtRingC MtPool MtFrame MtSleep MtStep MtLive MtErr MtErrC MtFlush MtFlushC.
From ZV.Conc Require Import MtTermDefs MtTermW MtTermA MtTermS MtTermR MtTermC1 MtTermC2 MtTermC3 MtTermC4 MtTermQ1 MtTermI MtTermQ2 MtTermQ3.
Local Open Scope nat_scope.
(* ------------------------------------------------------------------ *)
(* pool threads that can run                                            *)

Definition wen (t : nat) (s : state) : Prop :=
  exists x, nth_error (ws s) t = Some x /\ w_pc x <> WAsleep /\ w_pc x <> WSerialZ.

Lemma quiet_dec s : Quiet s \/ exists t, wen t s.
Proof.
  unfold Quiet, wen. induction (ws s) as [|a r IH].
  - left. intros t x H. destruct t; discriminate.
  - destruct IH as [IH|(t & x & H1 & H2)]; [|right; exists (S t), x; auto].
    destruct (w_pc a) eqn:E; try (right; exists 0, a; cbn; rewrite E; repeat split; discriminate).
    + left. intros t x H. destruct t; [cbn in H; inversion H; subst; auto|apply (IH t x H)].
    + left. intros t x H. destruct t; [cbn in H; inversion H; subst; auto|apply (IH t x H)].
Qed.

Lemma wen_step cfg t s : wen t s -> worker_step cfg t s <> None.
Proof.
  intros (x & Hx & N1 & N2). unfold worker_step. rewrite Hx.
  destruct (w_pc x); try contradiction;
    repeat match goal with |- context[if ?b then _ else _] => destruct b | |- context[match ?y with Some _ => _ | None => _ end] => destruct y end;
    discriminate.
Qed.

Lemma quiet_worker_none cfg t s : Quiet s -> worker_step cfg t s = None.
Proof.
  intros Q. unfold worker_step. destruct (nth_error (ws s) t) as [x|] eqn:Hx; auto.
  destruct (Q t x Hx) as [E|E]; rewrite E; reflexivity.
Qed.

Lemma wen_lt t s : wen t s -> t < length (ws s).
Proof. intros (x & Hx & _). apply nth_error_Some. congruence. Qed.

(* a pool thread that can run stays so until it runs *)
Lemma signal_pop_nth w l t x : nth_error l t = Some x ->
  exists x', nth_error (signal_pop w l) t = Some x' /\ (x' = x \/ w_pc x' = WIdle).
Proof.
  intros H. unfold signal_pop. destruct (pop_sleepers l) as [|i0 r]; [exists x; auto|].
  set (i := nth _ _ _). destruct (Nat.eq_dec t i) as [->|Hne].
  - eexists. split; [apply nth_error_upd_eq; apply nth_error_Some; congruence|]. right. reflexivity.
  - exists x. rewrite nth_error_upd_neq by auto. auto.
Qed.

Lemma wake_serial_wen l t x : nth_error l t = Some x -> w_pc x <> WAsleep -> w_pc x <> WSerialZ ->
  exists x', nth_error (wake_serial l) t = Some x' /\ w_pc x' <> WAsleep /\ w_pc x' <> WSerialZ.
Proof.
  intros H N1 N2. exists x. split; [apply wake_serial_self; auto|auto].
Qed.

Lemma wen_persist cfg t' w s s' t :
  KInv cfg s -> step cfg t' w s = Some s' -> t' <> S t -> wen t s -> wen t s'.
Proof.
  intros K H Hne (x & Hx & N1 & N2). unfold wen. destruct t' as [|t2]; cbn [step] in H.
  - destruct (caller_step_wsq cfg w s s' H) as [(Ew & _)|(_ & _ & Ew & _)]; rewrite Ew.
    + exists x. auto.
    + destruct (signal_pop_nth w (ws s) t x Hx) as (x' & H1 & [H2|H2]); exists x'; [subst x'; auto|].
      split; auto. rewrite H2. split; discriminate.
  - assert (t2 <> t) by congruence.
    destruct (nth_error (ws s) t2) as [y|] eqn:Hy; [|unfold worker_step in H; rewrite Hy in H; discriminate].
    destruct (worker_effect cfg t2 s s' y K H Hy) as (w' & _ & [(E & _)|(E & _)] & _); rewrite E.
    + exists x. rewrite nth_error_upd_neq by auto. auto.
    + destruct (wake_serial_wen (ws s) t x Hx N1 N2) as (x' & H1 & H2). exists x'. rewrite nth_error_upd_neq by auto. auto.
Qed.

(* ------------------------------------------------------------------ *)
(* fair runs                                                            *)

(* semantic assumptions of the development *)
Definition no_deadlock (cfg : config) (ops : list cop) : Prop :=
  forall sched, stuck cfg (run state (step cfg) sched (init cfg ops)) = false.
(* every job that completes without error has produced at least one byte (real zstd: at least a block header) *)
Definition nonempty_jobs (cfg : config) (ops : list cop) : Prop :=
  forall sched, NEJ cfg (run state (step cfg) sched (init cfg ops)).

Section Fair.
  Variable cfg : config.
  Variable ops : list cop.
  Variable sigma : nat -> nat * nat.
  Hypothesis Hc : (0 < c_chunk cfg)%N.
  Hypothesis Hm : (0 < c_minblk cfg)%N.
  Hypothesis Hn : 1 <= c_nbw cfg.
  Hypothesis Ho : ops_ok ops.
  Hypothesis DF : no_deadlock cfg ops.
  Hypothesis NE : nonempty_jobs cfg ops.
  Hypothesis Hf : fair cfg sigma.

  Let st (i : nat) : state := state_at cfg ops sigma i.

  Lemma st_inv i : Inv5 cfg (st i).
  Proof. apply inv5_reachable; auto. Qed.

  Lemma st_S i : st (S i) = exec state (step cfg) (st i) (sigma i).
  Proof. apply state_from_S. Qed.

  Lemma st_step_le i : AA cfg (st (S i)) <= AA cfg (st i).
  Proof.
    rewrite st_S. unfold exec. destruct (step cfg (fst (sigma i)) (snd (sigma i)) (st i)) as [s'|] eqn:E; [|lia].
    destruct (st_inv i) as ((TI & _ & P & _) & _). destruct (fst (sigma i)) as [|t]; cbn [step] in E.
    - pose proof (aa_caller_step cfg _ _ _ Hc TI E). lia.
    - pose proof (aa_worker_step cfg t _ _ (proj1 TI) (p_len _ _ P) E). lia.
  Qed.

  Lemma st_mono i j : i <= j -> AA cfg (st j) <= AA cfg (st i).
  Proof. induction 1; [lia|]. pose proof (st_step_le m). lia. Qed.

  (* a pool thread that can run: by fairness it runs, and the potential decreases *)
  Lemma worker_progress t : forall d i, wen t (st i) -> fst (sigma (i + d)) = S t -> exists j, i < j /\ AA cfg (st j) < AA cfg (st i).
  Proof.
    assert (Now : forall i, wen t (st i) -> fst (sigma i) = S t -> AA cfg (st (S i)) < AA cfg (st i)).
    { intros i W E. rewrite st_S. unfold exec. rewrite E. cbn [step].
      destruct (worker_step cfg t (st i)) as [s'|] eqn:Es; [|exfalso; exact (wen_step cfg t _ W Es)].
      destruct (st_inv i) as ((TI & _ & P & _) & _). exact (aa_worker_step cfg t _ _ (proj1 TI) (p_len _ _ P) Es). }
    induction d as [|d IH]; intros i W E.
    - rewrite Nat.add_0_r in E. exists (S i). split; [lia|]. apply Now; auto.
    - destruct (Nat.eq_dec (fst (sigma i)) (S t)) as [E0|E0]; [exists (S i); split; [lia|apply Now; auto]|].
      assert (W' : wen t (st (S i))).
      { rewrite st_S. unfold exec. destruct (step cfg (fst (sigma i)) (snd (sigma i)) (st i)) as [s'|] eqn:Es; [|exact W].
        destruct (st_inv i) as ((TI & _) & _). eapply wen_persist; eauto. apply TI. }
      destruct (IH (S i) W' ltac:(replace (S i + d) with (i + S d) by lia; exact E)) as (j & Hj & Hlt).
      exists j. split; [lia|]. pose proof (st_step_le i). lia.
  Qed.

  Lemma bb_pos s : 1 <= BB s.
  Proof. unfold BB. destruct (awake (c_pc (cl s))); try lia; destruct (0 <? _)%N; lia. Qed.

  (* from every state in which the program is not finished the potential eventually decreases (or the program finishes) *)
  Lemma progress : forall b i, BB (st i) <= b -> caller_done (st i) = false ->
    exists j, i < j /\ (caller_done (st j) = true \/ AA cfg (st j) < AA cfg (st i)).
  Proof.
    induction b as [|b IH]; intros i Hb Hd; [pose proof (bb_pos (st i)); lia|].
    destruct (st_inv i) as (I4 & FI & FL). pose proof I4 as (TI & SI & P & L).
    destruct (quiet_dec (st i)) as [Q|(t & W)].
    2:{ assert (Ht : S t <= c_nbw cfg) by (pose proof (wen_lt t _ W); rewrite (p_len _ _ P) in *; lia).
        destruct (Hf i (S t) Ht) as (j0 & Hij & Ej).
        destruct (worker_progress t (j0 - i) i W ltac:(replace (i + (j0 - i)) with j0 by lia; exact Ej)) as (j & Hj & Hlt).
        exists j. auto. }
    (* no pool thread can run: the application thread can, and its step makes progress *)
    assert (Hst : stuck cfg (st i) = false) by apply DF.
    unfold stuck in Hst. rewrite Hd in Hst. cbn [negb andb] in Hst.
    assert (Hne : enabled_list cfg (st i) <> []) by (intros E; rewrite E in Hst; discriminate).
    destruct (enabled_pick _ _ Hne) as (t & Ht & Hen).
    assert (t = 0) by (destruct t as [|t0]; auto; exfalso; apply Hen; cbn [step]; apply quiet_worker_none; exact Q). subst t.
    destruct (fair_next_step cfg (init cfg ops) sigma i 0 Hf ltac:(lia) Hen) as (k & Hik & Hk & Hstep).
    change (state_from cfg (init cfg ops) sigma k) with (st k) in Hk, Hstep. change (state_from cfg (init cfg ops) sigma i) with (st i) in Hk.
    destruct (step cfg (fst (sigma k)) (snd (sigma k)) (st k)) as [s'|] eqn:Es; [|congruence].
    assert (Hs' : st (S k) = s') by (rewrite st_S; unfold exec; rewrite Es; reflexivity).
    destruct (fst (sigma k)) as [|t0]; cbn [step] in Es; [|rewrite Hk, (quiet_worker_none cfg t0 _ Q) in Es; discriminate].
    rewrite Hk in Es.
    destruct (r3_caller_step cfg _ _ _ Hc Hm Hn (st_inv i) Q (NE _) Es) as [X|X].
    - exists (S k). split; [lia|]. right. rewrite Hs'. exact X.
    - destruct (caller_done s') eqn:Hd'; [exists (S k); split; [lia|left; rewrite Hs'; exact Hd']|].
      destruct (IH (S k) ltac:(rewrite Hs'; lia) ltac:(rewrite Hs'; exact Hd')) as (j & Hj & Hor).
      exists j. split; [lia|]. destruct Hor as [Y|Y]; [left; exact Y|right].
      pose proof (st_step_le k) as Z. rewrite Hk in Z. lia.
  Qed.

  Theorem fair_terminates_sec : exists n, caller_done (st n) = true.
  Proof.
    assert (G : forall a i, AA cfg (st i) <= a -> exists n, caller_done (st n) = true).
    { induction a as [|a IH]; intros i Ha.
      all: destruct (caller_done (st i)) eqn:Hd; [exists i; exact Hd|].
      all: destruct (progress _ i (le_n _) Hd) as (j & Hj & [Y|Y]); [exists j; exact Y| ].
      - lia.
      - apply (IH j). lia. }
    exact (G _ 0 (le_n _)).
  Qed.
End Fair.

(* ------------------------------------------------------------------ *)
(* Stage C: termination under fairness                                  *)

(* Under every fair schedule the application finishes its whole call program.  Assumptions of the development:
   - deadlock freedom (MtLive.deadlock_free for programs without LDM; MtErr.no_deadlock_outside_ldm_wait otherwise);
   - no completed job is empty (an empty job can never be flushed: the model livelocks, real zstd always emits a block header);
   - at least one pool thread (with nbWorkers = 0 POOL_tryAdd never succeeds and ZSTD_e_end spins);
   - RSYNC_MIN_BLOCK_SIZE > 0 (with 0 a synchronisation point at the very start of an empty input buffer is found again and again). *)
Theorem fair_terminates cfg ops sigma :
  (0 < c_chunk cfg)%N -> ops_ok ops ->
  (0 < c_minblk cfg)%N -> 1 <= c_nbw cfg -> nonempty_jobs cfg ops ->
  (forall sched, stuck cfg (run state (step cfg) sched (init cfg ops)) = false) ->
  fair cfg sigma ->
  exists n, caller_done (state_at cfg ops sigma n) = true.
Proof. intros Hc Ho Hm Hn NE DF Hf. exact (fair_terminates_sec cfg ops sigma Hc Hm Hn Ho DF NE Hf). Qed.

(* programs without long-distance matching: deadlock freedom is MtLive.deadlock_free *)
Corollary fair_terminates_noldm cfg ops sigma :
  (0 < c_chunk cfg)%N -> ops_ok ops -> noldm_ops ops ->
  (0 < c_minblk cfg)%N -> 1 <= c_nbw cfg -> nonempty_jobs cfg ops ->
  fair cfg sigma ->
  exists n, caller_done (state_at cfg ops sigma n) = true.
Proof.
  intros Hc Ho Hl Hm Hn NE Hf. apply fair_terminates; auto. intros sched. apply deadlock_free; auto.
Qed.

(* the hypotheses on the schedule are satisfiable *)
Corollary round_robin_terminates cfg ops :
  (0 < c_chunk cfg)%N -> ops_ok ops -> noldm_ops ops ->
  (0 < c_minblk cfg)%N -> 1 <= c_nbw cfg -> nonempty_jobs cfg ops ->
  exists n, caller_done (state_at cfg ops (fun i => (i mod S (c_nbw cfg), 0)) n) = true.
Proof. intros. apply fair_terminates_noldm; auto. apply round_robin_fair. Qed.


(* all programs (LDM allowed): the only deadlock freedom that has to be assumed is at the caller's wait on ldmWindowCond
   (everywhere else it is MtErr.no_deadlock_outside_ldm_wait) *)
Corollary fair_terminates_ldm cfg ops sigma :
  (0 < c_chunk cfg)%N -> ops_ok ops ->
  (0 < c_minblk cfg)%N -> 1 <= c_nbw cfg -> nonempty_jobs cfg ops ->
  (forall sched, let s := run state (step cfg) sched (init cfg ops) in
                 c_pc (cl s) = CLdm1Z \/ c_pc (cl s) = CLdm2Z -> stuck cfg s = false) ->
  fair cfg sigma ->
  exists n, caller_done (state_at cfg ops sigma n) = true.
Proof.
  intros Hc Ho Hm Hn NE DL Hf. apply fair_terminates; auto. intros sched.
  destruct (c_pc (cl (run state (step cfg) sched (init cfg ops)))) eqn:E;
    try (apply (DL sched); cbn zeta; rewrite E; auto; fail);
    apply no_deadlock_outside_ldm_wait; auto; cbn zeta; rewrite E; discriminate.
Qed.
