(* Layer 4: tickets.  Every enqueued job (ticket) is in exactly one of pending / running / done;
   numThreadsBusy counts the workers between pop and the decrement; the job function is started at most once. *)
From Coq Require Import List Arith Bool Lia ZArith.
Import ListNotations.
From ZV.Conc Require Import Sched PoolModel PoolLemmas PoolInvDefs PoolInv1 PoolInv3.

Definition cnt (k : nat) (l : list entry) : nat := sumf (fun e => b2n (fst e =? k)) l.
Definition nrun (k : nat) th := if posting (t_pc th) then ncur k th else 0.

Definition cur_ok th : bool :=
  match t_cur th with
  | None => true
  | Some _ => t_worker th && (posting (t_pc th) || match t_pc th with WBcast1 | WUnlock1 => true | _ => false end)
  end.

Definition CurOK (s : state) := Forall (fun th => cur_ok th = true) (st s).
Definition BusyOK (s : state) := busy (sp s) = sumf nbusy (st s).
Definition TicketsOK (s : state) :=
  forall k, (k < next (sg s) -> cnt k (pending (sg s)) + sumf (ncur k) (st s) + cnt k (done (sg s)) = 1) /\
            (next (sg s) <= k -> cnt k (pending (sg s)) + sumf (ncur k) (st s) + cnt k (done (sg s)) = 0).
Definition StartedOK (s : state) :=
  forall k, cnt k (started (sg s)) = sumf (nrun k) (st s) + cnt k (done (sg s)).

Lemma cnt_app k l l' : cnt k (l ++ l') = cnt k l + cnt k l'.
Proof. apply sumf_app. Qed.

Ltac b2l :=
  repeat match goal with
         | H : context [?a =? ?b] |- _ => destruct (Nat.eqb_spec a b)
         | |- context [?a =? ?b] => destruct (Nat.eqb_spec a b)
         | H : context [?a <? ?b] |- _ => destruct (Nat.ltb_spec a b)
         | |- context [?a <? ?b] => destruct (Nat.ltb_spec a b)
         | H : context [?a <=? ?b] |- _ => destruct (Nat.leb_spec a b)
         | |- context [?a <=? ?b] => destruct (Nat.leb_spec a b)
         end; cbn [b2n] in *; try lia.

(* ---- CurOK ---- *)
Lemma cur_wake_push th : cur_ok th = true -> cur_ok (wake_push th) = true.
Proof. unfold cur_ok, wake_push. destruct (t_pc th) eqn:E; cbn; rewrite ?E; auto. Qed.
Lemma cur_wake_pop th : cur_ok th = true -> cur_ok (wake_pop th) = true.
Proof. unfold cur_ok, wake_pop. destruct (t_pc th) eqn:E; cbn; rewrite ?E; auto. Qed.

Lemma cur_finish cfg tid th g th' g' : finish_op cfg tid th g = (th', g') -> cur_ok th = true -> cur_ok th' = true.
Proof.
  intros H Hc. apply finish_op_cases in H.
  destruct H as [(Hw & k & j & r & _ & -> & _)|[(Hw & _ & -> & _)|(Hw & c & ops' & Hn & -> & _)]]; cbn; auto.
  unfold cur_ok; cbn. destruct (t_cur th); auto.
Qed.

Lemma cur_step cfg tid w s s' : RoleOK s -> CurOK s -> step cfg tid w s = Some s' -> CurOK s'.
Proof.
  unfold CurOK. intros HR HC H. step_inv H; cbn; role_th HR Hth;
    pose proof (Forall_nth_error _ _ _ _ HC Hth) as Hcur; cbn beta in Hcur;
    try (apply Forall_app; split; [|apply Forall_repeat; reflexivity]);
    apply Forall_upd;
    try (apply Forall_signal; [apply cur_wake_pop|]);
    try (apply Forall_broadcast; [first [apply cur_wake_pop|apply cur_wake_push]|]);
    try (apply Forall_wake_pushers; [apply cur_wake_push|]);
    auto;
    try (eapply cur_finish; [eassumption|]);
    try (unfold cur_ok, role_ok in *; cbn; rewrite ?Epc, ?Ecur in *; cbn in *; destruct (t_cur th); destruct (t_worker th); cbn in *; congruence).
Qed.

(* ---- wake functions leave the sums alone ---- *)
Lemma nbusy_wake_push th : nbusy (wake_push th) = nbusy th.
Proof. unfold nbusy, wake_push. destruct (t_pc th) eqn:E; cbn; rewrite ?E; auto. Qed.
Lemma nbusy_wake_pop th : nbusy (wake_pop th) = nbusy th.
Proof. unfold nbusy, wake_pop. destruct (t_pc th) eqn:E; cbn; rewrite ?E; auto. Qed.
Lemma ncur_wake_push k th : ncur k (wake_push th) = ncur k th.
Proof. unfold ncur, wake_push. destruct (t_pc th) eqn:E; cbn; auto. Qed.
Lemma ncur_wake_pop k th : ncur k (wake_pop th) = ncur k th.
Proof. unfold ncur, wake_pop. destruct (t_pc th) eqn:E; cbn; auto. Qed.
Lemma nrun_wake_push k th : nrun k (wake_push th) = nrun k th.
Proof. unfold nrun, ncur, wake_push. destruct (t_pc th) eqn:E; cbn; rewrite ?E; auto. Qed.
Lemma nrun_wake_pop k th : nrun k (wake_pop th) = nrun k th.
Proof. unfold nrun, ncur, wake_pop. destruct (t_pc th) eqn:E; cbn; rewrite ?E; auto. Qed.

(* ---- BusyOK ---- *)
Lemma busy_finish cfg tid th g th' g' : finish_op cfg tid th g = (th', g') -> nbusy th' = b2n (t_worker th).
Proof.
  intros H. apply finish_op_cases in H.
  destruct H as [(Hw & k & j & r & _ & -> & _)|[(Hw & _ & -> & _)|(Hw & c & ops' & Hn & -> & _)]]; rewrite Hw; cbn; auto.
Qed.

Lemma busy_step cfg tid w s s' : RoleOK s -> BusyOK s -> step cfg tid w s = Some s' -> BusyOK s'.
Proof.
  unfold BusyOK. intros HR HB H.
  step_inv H; cbn; role_th HR Hth;
    try match goal with Hf : finish_op _ _ _ _ = _ |- _ => pose proof (busy_finish _ _ _ _ _ _ Hf) end;
    sum_upd nbusy nbusy_wake_push nbusy_wake_pop;
    unfold nbusy, role_ok in *; cbn in *; rewrite ?Epc in *; cbn in *; destruct (t_worker th); cbn in *; try discriminate; lia.
Qed.

(* ---- TicketsOK ---- *)
Lemma ncur_None k th : t_cur th = None -> ncur k th = 0.
Proof. unfold ncur. intros ->. reflexivity. Qed.

Lemma tickets_finish cfg tid th g th' g' k :
  finish_op cfg tid th g = (th', g') -> cur_ok th = true ->
  pending g' = pending g /\ next g' = next g /\ ncur k th' + cnt k (done g') = ncur k th + cnt k (done g).
Proof.
  intros H Hc. apply finish_op_cases in H.
  destruct H as [(Hw & kk & j & r & _ & -> & ->)|[(Hw & _ & -> & ->)|(Hw & c & ops' & Hn & -> & ->)]].
  - repeat split; auto.
  - destruct (t_cur th) as [e|] eqn:Ec; [|unfold ncur; rewrite Ec; auto]. repeat split. unfold ncur. rewrite Ec. cbn [t_cur].
    change (done (g_done e g)) with (done g ++ [e]). rewrite cnt_app. unfold cnt at 2; cbn. lia.
  - repeat split; auto. unfold cur_ok in Hc. unfold ncur; cbn. destruct (t_cur th); auto. rewrite Hw in Hc. discriminate.
Qed.

Lemma tickets_step cfg tid w s s' : RoleOK s -> CurOK s -> RingOK s -> TicketsOK s -> step cfg tid w s = Some s' -> TicketsOK s'.
Proof.
  unfold TicketsOK. intros HR HC HRing HT H k. specialize (HT k). destruct HT as [HT1 HT2].
  destruct (Nat.lt_ge_cases k (next (sg s))) as [Hk|Hk]; [specialize (HT1 Hk); clear HT2; rename HT1 into HT|specialize (HT2 Hk); clear HT1; rename HT2 into HT].
  all:   step_inv H; cbn -[Nat.ltb]; role_th HR Hth;
    pose proof (Forall_nth_error _ _ _ _ HC Hth) as Hcur; cbn beta in Hcur;
    try match goal with Hf : finish_op _ _ _ _ = _ |- _ =>
                        let a := fresh in let b := fresh in let c := fresh in
                        destruct (tickets_finish _ _ _ _ _ _ k Hf ltac:(first [exact Hcur | unfold cur_ok in *; cbn; rewrite ?Ecur, ?Epc in *; cbn in *; auto])) as (a & b & c);
                        rewrite ?a, ?b end;
    try (apply orb_false_iff in E0; destruct E0 as [E0 _];
         destruct (ring_pop (sp s) _ HRing E0) as (e & r & Hl & He & _); rewrite Hl, He in *; unfold cnt in HT; cbn in HT);
    sum_upd (ncur k) (ncur_wake_push k) (ncur_wake_pop k);
    unfold ncur, cur_ok, role_ok, cnt in *; rewrite ?sumf_app in *; cbn -[Nat.ltb] in *; rewrite ?Epc, ?Ecur in *; cbn -[Nat.ltb] in *;
    try (destruct (t_cur th) as [ec|]; [destruct (t_worker th); cbn in *; try discriminate|]);
    (split; intros Hk'); b2l.
Qed.

(* ---- StartedOK ---- *)
Lemma started_finish cfg tid th g th' g' k :
  finish_op cfg tid th g = (th', g') -> cur_ok th = true ->
  started g' = started g /\ nrun k th' + cnt k (done g') = ncur k th + cnt k (done g).
Proof.
  intros H Hc. apply finish_op_cases in H.
  destruct H as [(Hw & kk & j & r & _ & -> & ->)|[(Hw & _ & -> & ->)|(Hw & c & ops' & Hn & -> & ->)]].
  - split; auto.
  - destruct (t_cur th) as [e|] eqn:Ec; [|unfold ncur, nrun; cbn; rewrite Ec; auto]. split; auto. unfold ncur, nrun. rewrite Ec. cbn [t_cur t_pc posting].
    change (done (g_done e g)) with (done g ++ [e]). rewrite cnt_app. unfold cnt at 2; cbn. lia.
  - split; auto. unfold cur_ok in Hc. unfold ncur, nrun; cbn. destruct (t_cur th); [rewrite Hw in Hc; discriminate|]. destruct (posting c); auto.
Qed.

Lemma started_step cfg tid w s s' : RoleOK s -> CurOK s -> StartedOK s -> step cfg tid w s = Some s' -> StartedOK s'.
Proof.
  unfold StartedOK. intros HR HC HT H k. specialize (HT k).
  step_inv H; cbn; role_th HR Hth;
    pose proof (Forall_nth_error _ _ _ _ HC Hth) as Hcur; cbn beta in Hcur;
    try match goal with Hf : finish_op _ _ _ _ = _ |- _ =>
                        let a := fresh in let b := fresh in
                        destruct (started_finish _ _ _ _ _ _ k Hf ltac:(first [exact Hcur | unfold cur_ok in *; cbn; rewrite ?Ecur, ?Epc in *; cbn in *; auto])) as (a & b);
                        rewrite ?a end;
    sum_upd (nrun k) (nrun_wake_push k) (nrun_wake_pop k);
    unfold nrun, ncur, cur_ok, role_ok, cnt in *; repeat match goal with Hst : started _ = _ |- _ => rewrite Hst in *; clear Hst end; rewrite ?sumf_app in *; cbn in *; rewrite ?Epc, ?Ecur in *; cbn in *;
    try (destruct (t_cur th) as [ec|]; [destruct (t_worker th); cbn in *; try discriminate|]);
    b2l.
  all: rewrite ?sumf_app in *; cbn in *; b2l.
Qed.
