(* C11, termination under fairness, part 10: progress of the input side of the caller's code (secondary measure, strict decrease). *)
From Coq Require Import List NArith ZArith Bool Arith Lia.
Import ListNotations.
From ZV.Conc Require Import Sched SchedLemmas MtModel MtProofs MtRing MtRingC MtPool MtFrame MtSleep MtStep MtLive MtErr.
From ZV.Conc Require Import MtTermDefs MtTermW MtTermA MtTermS MtTermR MtTermC1 MtTermC2 MtTermC3 MtTermC4.
Local Open Scope nat_scope.
(* ------------------------------------------------------------------ *)
(* where the input side of the caller's code can stop: bounds on the secondary measure *)

Lemma bb_flush_le p s : p = CFlush \/ p = CTryAdd \/ p = CGetBuf \/ p = CLdm2 -> BB (set_cpc p s) <= 52.
Proof.
  intros [H|[H|[H|H]]]; subst p; unfold BB; cbn [cl set_cpc set_cl cl_pc c_pc awake]; try lia.
  destruct (0 <? _)%N; destruct (c_e2 _), (c_e _); lia.
Qed.

Ltac bb_if := repeat match goal with |- BB (if ?b then _ else _) <= _ => destruct b end.

Lemma bb_create_job cfg s e : BB (create_job cfg s e) <= 52.
Proof. unfold create_job. bb_if; apply bb_flush_le; auto. Qed.
Lemma bb_create_phase cfg s : BB (create_phase cfg s) <= 52.
Proof. unfold create_phase. bb_if; [apply bb_create_job|apply bb_flush_le; auto]. Qed.
Lemma bb_fill_phase cfg s : BB (fill_phase cfg s) <= 52.
Proof. unfold fill_phase. destruct (ihas (mt s)); [|apply bb_create_phase]. destruct (sync_point _ _ _). apply bb_create_phase. Qed.
Lemma bb_hand_out cfg s : BB (hand_out cfg s) <= 52. Proof. apply bb_fill_phase. Qed.
Lemma bb_after_wrap cfg s : BB (after_wrap cfg s) <= 52.
Proof. unfold after_wrap. bb_if; first [apply bb_fill_phase|apply bb_hand_out|apply bb_flush_le; auto]. Qed.
Lemma bb_move_prefix cfg s : BB (move_prefix cfg s) <= 52. Proof. apply bb_after_wrap. Qed.
Lemma bb_after_inuse cfg s u : BB (after_inuse cfg s u) <= 60.
Proof.
  unfold after_inuse. cbn zeta. bb_if.
  - pose proof (bb_fill_phase cfg (set_cl (cl_use u (cl s)) s)). lia.
  - unfold BB; cbn [cl set_cpc set_cl cl_pc c_pc awake]. destruct (0 <? _)%N; lia.
  - pose proof (bb_move_prefix cfg (set_cl (cl_use u (cl s)) s)). lia.
  - pose proof (bb_after_wrap cfg (set_cl (cl_use u (cl s)) s)). lia.
Qed.

(* ------------------------------------------------------------------ *)
(* findSynchronizationPoint makes progress                               *)

Lemma sync_point_pos cfg m avail :
  (0 < avail)%N -> (0 < c_minblk cfg)%N ->
  (0 < fst (sync_point cfg m avail))%N \/ (target m <= ifill m)%N \/ (snd (sync_point cfg m avail) = true /\ (0 < ifill m)%N).
Proof.
  intros Ha Hm. destruct (N.le_gt_cases (target m) (ifill m)) as [X|X]; [right; left; exact X|].
  assert (H0 : (0 < N.min avail (target m - ifill m))%N) by lia.
  assert (Hh : forall lo, match first_hit (hits m) (iabs m + ifill m + lo) (iabs m + ifill m + N.min avail (target m - ifill m)) with
                          | Some h => (0 < h - (iabs m + ifill m))%N | None => True end).
  { intros lo. unfold first_hit. destruct (find _ _) as [h|] eqn:F; auto. apply find_some in F. destruct F as (_ & F).
    apply andb_prop in F. destruct F as (F & _). apply N.ltb_lt in F. lia. }
  unfold sync_point.
  destruct (negb (rsync m)); [left; exact H0|].
  destruct (_ <? _)%N; [left; exact H0|]. destruct (_ <? _)%N; [left; exact H0|].
  destruct (ifill m <? c_minblk cfg)%N eqn:E1.
  - specialize (Hh (c_minblk cfg - ifill m)%N). destruct (first_hit _ _ _); cbn [fst]; left; auto.
  - apply N.ltb_ge in E1. destruct (existsb _ _); [right; right; cbn; split; [reflexivity|lia]|].
    specialize (Hh 0%N). rewrite N.add_0_r in Hh. destruct (first_hit _ _ _); cbn [fst]; left; auto.
Qed.

(* ------------------------------------------------------------------ *)
(* strict decrease of the caller's potential on the input side           *)

Definition e2_of (s : state) : endop :=
  match c_e2 (cl s) with EEnd => if (0 <? c_in (cl s))%N then EFlush else EEnd | e => e end.
Definition notfull (cfg : config) (s : state) : Prop := (done (mt s) + mask cfg <? next (mt s))%N = false.

Lemma ac_create_phase_lt cfg s :
  Pre cfg s -> ready (mt s) = false -> notfull cfg s ->
  ((target (mt s) <= ifill (mt s))%N \/ (e2_of s <> EContinue /\ (0 < ifill (mt s))%N) \/ (e2_of s = EEnd /\ ended (mt s) = false)) ->
  Ac cfg (create_phase cfg s) + 1 <= AcN cfg s.
Proof.
  intros P Er Hf Hc. pose proof P as (_ & HT). unfold create_phase. fold (e2_of s).
  set (s' := set_cl (cl_io (e2_of s) (c_fwd (cl s)) (c_in (cl s)) (c_out (cl s)) (cl s)) s).
  change (AcN cfg s) with (AcN cfg s').
  assert (Hcond : (ready (mt s) || (target (mt s) <=? ifill (mt s))%N
                  || (match e2_of s with EContinue => false | _ => true end) && (0 <? ifill (mt s))%N
                  || (match e2_of s with EEnd => true | _ => false end) && negb (ended (mt s)))%bool = true).
  { destruct Hc as [X|[(X & Y)|(X & Y)]].
    - apply N.leb_le in X. rewrite X. rewrite orb_true_r. reflexivity.
    - apply N.ltb_lt in Y. rewrite Y. destruct (e2_of s); try congruence; rewrite ?orb_true_r; reflexivity.
    - rewrite X, Y. rewrite orb_true_r. reflexivity. }
  rewrite Hcond.
  assert (X : ready (mt s') = true \/ (0 < ifill (mt s'))%N \/ e2_of s = EEnd /\ ended (mt s') = false).
  { change (mt s') with (mt s). destruct Hc as [X|[(X & Y)|(X & Y)]]; [right; left; lia|right; left; exact Y|right; right; auto]. }
  pose proof (ac_create_job cfg s' (e2_of s) P X) as Y. change (mt s') with (mt s) in Y. unfold notfull in Hf. rewrite Hf, Er in Y. lia.
Qed.

Lemma ac_fill_phase_lt cfg s :
  Pre cfg s -> ihas (mt s) = true -> (0 < c_in (cl s))%N -> (0 < c_minblk cfg)%N -> ready (mt s) = false -> notfull cfg s ->
  Ac cfg (fill_phase cfg s) <= AcN cfg s.
Proof.
  intros P Hi Hin Hm Er Hf. unfold fill_phase. rewrite Hi.
  pose proof (sync_point_le cfg (mt s) (c_in (cl s))) as Hle.
  pose proof (sync_point_pos cfg (mt s) (c_in (cl s)) Hin Hm) as Hp.
  destruct (sync_point cfg (mt s) (c_in (cl s))) as [tl fl]. cbn [fst snd] in Hle, Hp.
  match goal with |- Ac cfg (create_phase cfg ?x) <= _ => set (s1 := x) end.
  assert (P1 : Pre cfg s1) by (pre_same P).
  pose proof (acn_load cfg s s1 tl eq_refl eq_refl eq_refl Hle eq_refl eq_refl eq_refl eq_refl eq_refl eq_refl) as HL.
  destruct (0 <? tl)%N eqn:Et.
  - cbn [b2n] in HL. pose proof (ac_create_phase cfg s1 P1). lia.
  - apply N.ltb_ge in Et. assert (tl = 0%N) by lia. subst tl. destruct Hp as [Hp|Hp]; [lia|].
    assert (X : Ac cfg (create_phase cfg s1) + 1 <= AcN cfg s1).
    { apply ac_create_phase_lt; auto.
      change (mt s1) with (mt_buf (rpos (mt s)) true (istart (mt s)) (ifill (mt s) + 0) (pstart (mt s)) (psize (mt s)) (lap (mt s)) (iabs (mt s)) (mt s)).
      cbn [target ifill ended mt_buf]. rewrite N.add_0_r.
      destruct Hp as [Hp|(Hp & Hp2)]; [left; exact Hp|right; left]. split; [|exact Hp2].
      unfold e2_of. cbn [cl s1 set_mt set_cl cl_io c_e2 c_in]. rewrite Hp. destruct (c_e2 (cl s)); try discriminate. destruct (_ <? _)%N; discriminate. }
    cbn [b2n] in HL. lia.
Qed.

Lemma ac_hand_out_lt cfg s :
  Pre cfg s -> (0 < c_in (cl s))%N -> (0 < c_minblk cfg)%N -> Ac cfg (hand_out cfg s) <= AcN cfg s.
Proof.
  intros P Hin Hm. pose proof P as (_ & HT). unfold hand_out.
  match goal with |- Ac cfg (fill_phase cfg ?x) <= _ => set (s0 := x) end.
  assert (P0 : Pre cfg s0) by (pre_same P).
  assert (E0 : AcN cfg s0 <= AcN cfg s) by (apply acn_le; try reflexivity; cbn; lia).
  unfold fill_phase. change (ihas (mt s0)) with true. cbn iota.
  pose proof (sync_point_le cfg (mt s0) (c_in (cl s0))) as Hle.
  pose proof (sync_point_pos cfg (mt s0) (c_in (cl s0)) Hin Hm) as Hp.
  destruct (sync_point cfg (mt s0) (c_in (cl s0))) as [tl fl]. cbn [fst snd] in Hle, Hp.
  match goal with |- Ac cfg (create_phase cfg ?x) <= _ => set (s1 := x) end.
  assert (P1 : Pre cfg s1) by (pre_same P0).
  pose proof (acn_load cfg s0 s1 tl eq_refl eq_refl eq_refl Hle eq_refl eq_refl eq_refl eq_refl eq_refl eq_refl) as HL.
  assert (Ht : (0 < tl)%N).
  { destruct Hp as [Hp|[Hp|(_ & Hp)]]; auto; cbn in Hp; lia. }
  apply N.ltb_lt in Ht. rewrite Ht in HL. cbn [b2n] in HL. pose proof (ac_create_phase cfg s1 P1). lia.
Qed.

(* ------------------------------------------------------------------ *)
(* progress: the potential decreases, or the secondary measure is small  *)

Definition Good (cfg : config) (a b : nat) (s' : state) : Prop := Ac cfg s' + 1 <= a \/ (Ac cfg s' <= a /\ BB s' <= b).

Lemma overlap_empty a b : snd b = 0%N -> overlap a b = false.
Proof. intros E. unfold overlap. rewrite E. change (0 =? 0)%N with true. rewrite orb_true_r. reflexivity. Qed.

Lemma good_after_wrap cfg s :
  Pre cfg s -> snd (c_use (cl s)) = 0%N -> (0 < c_in (cl s))%N -> (0 < c_minblk cfg)%N -> Good cfg (AcN cfg s + 1) 30 (after_wrap cfg s).
Proof.
  intros P Hu Hin Hm. unfold after_wrap. rewrite overlap_empty by exact Hu.
  destruct (ldm (mt s)).
  - right. rewrite ac_at. cbn [awake]. split; [lia|]. unfold BB. cbn [cl set_cpc set_cl cl_pc c_pc awake]. lia.
  - left. pose proof (ac_hand_out_lt cfg s P Hin Hm). lia.
Qed.

Lemma good_move_prefix cfg s :
  Pre cfg s -> snd (c_use (cl s)) = 0%N -> (0 < c_in (cl s))%N -> (0 < c_minblk cfg)%N -> Good cfg (AcN cfg s + 1) 30 (move_prefix cfg s).
Proof.
  intros P Hu Hin Hm. unfold move_prefix.
  match goal with |- Good cfg _ _ (after_wrap cfg ?x) => set (s1 := x) end.
  assert (P1 : Pre cfg s1) by (pre_same P).
  assert (E : AcN cfg s1 <= AcN cfg s) by (apply acn_le; try reflexivity; cbn; lia).
  destruct (good_after_wrap cfg s1 P1 Hu Hin Hm) as [X|(X & Y)]; [left; lia|right; split; [lia|exact Y]].
Qed.

Lemma good_after_inuse0 cfg s :
  Pre cfg s -> (0 < c_in (cl s))%N -> (0 < c_minblk cfg)%N -> Good cfg (AcN cfg s + 1) 40 (after_inuse cfg s (0, 0)%N).
Proof.
  intros P Hin Hm. unfold after_inuse.
  set (s1 := set_cl (cl_use (0, 0)%N (cl s)) s).
  assert (P1 : Pre cfg s1) by (pre_same P).
  change (AcN cfg s) with (AcN cfg s1). cbn zeta.
  assert (W : forall x, Good cfg (AcN cfg s1 + 1) 30 x -> Good cfg (AcN cfg s1 + 1) 40 x) by (intros x [X|(X & Y)]; [left; exact X|right; split; [exact X|lia]]).
  destruct (_ <? _)%N; [|apply W, good_after_wrap; auto].
  rewrite overlap_empty by reflexivity.
  destruct (ldm (mt s1)); [|apply W, good_move_prefix; auto].
  right. rewrite ac_at. cbn [awake]. split; [lia|]. unfold BB. cbn [cl set_cpc set_cl cl_pc c_pc awake s1 cl_use c_use snd]. cbn. lia.
Qed.
