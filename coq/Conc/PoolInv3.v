(* Layer 3: the circular buffer.  queueEmpty / head / tail / the array agree with the FIFO list of pending entries. *)
From Coq Require Import List Arith Bool Lia ZArith.
Import ListNotations.
From ZV.Conc Require Import Sched PoolModel PoolLemmas PoolInvDefs PoolInv1.

Definition Ring (p : pool) (l : list entry) : Prop :=
  let n := length l in
  1 <= qsize p /\ length (queue p) = qsize p /\ head p < qsize p /\ tail p = (head p + n) mod qsize p /\
  qempty p = (n =? 0) /\ (n <= qsize p - 1 \/ (qsize p = 1 /\ n <= 1)) /\
  forall i, i < n -> nth ((head p + i) mod qsize p) (queue p) dentry = nth i l dentry.

Definition RingOK (s : state) := Ring (sp s) (pending (sg s)).

Lemma ring_owner o p l : Ring p l -> Ring (set_owner o p) l.
Proof. auto. Qed.

Lemma ring_push p l e : Ring p l -> is_full p = false -> Ring (enqueue e p) (l ++ [e]).
Proof.
  unfold Ring, is_full. intros (Hq & Hlen & Hh & Ht & He & Hc & Hn) Hf. cbn.
  rewrite app_length; cbn. set (n := length l) in *. set (q := qsize p) in *.
  assert (Hcap : n + 1 <= q - 1 \/ (q = 1 /\ n = 0)).
  { destruct (1 <? q) eqn:E1.
    - apply Nat.ltb_lt in E1. apply Nat.eqb_neq in Hf. left.
      destruct Hc as [Hc|[Hc _]]; [|lia]. destruct (Nat.eq_dec n (q - 1)) as [En|]; [|lia].
      exfalso. apply Hf. rewrite Ht, mod_tail_succ by lia. rewrite En. replace (head p + S (q - 1)) with (head p + 1 * q) by lia.
      rewrite Nat.mod_add by lia. rewrite Nat.mod_small; auto.
    - apply Nat.ltb_ge in E1. right. split; [lia|]. apply orb_false_iff in Hf. destruct Hf as [_ Hf]. apply negb_false_iff in Hf.
      rewrite Hf in He. symmetry in He. now apply Nat.eqb_eq in He. }
  assert (Htl : tail p < q). { rewrite Ht. apply Nat.mod_upper_bound. lia. }
  repeat split; auto.
  - now rewrite upd_length.
  - rewrite Ht, mod_tail_succ by lia. f_equal. lia.
  - symmetry. apply Nat.eqb_neq. lia.
  - destruct Hcap as [Hcap|[Hq1 Hn0]]; [left; lia|right; lia].
  - intros i Hi. destruct (Nat.eq_dec i n) as [->|Hne].
    + rewrite app_nth2 by lia. replace (n - length l) with 0 by (unfold n; lia). cbn [nth]. rewrite <- Ht. apply nth_upd_eq. lia.
    + rewrite app_nth1 by lia. rewrite nth_upd_neq; [apply Hn; lia|].
      rewrite Ht. intros Heq. apply mod_inj in Heq; lia.
Qed.

Lemma ring_pop p l : Ring p l -> qempty p = false ->
  exists e r, l = e :: r /\ pop_entry p = e /\ Ring (pop p) r.
Proof.
  unfold Ring, pop_entry. intros (Hq & Hlen & Hh & Ht & He & Hc & Hn) Hf.
  rewrite Hf in He. destruct l as [|e r]; [discriminate|]. exists e, r. cbn in *.
  set (n := length r) in *. set (q := qsize p) in *.
  split; [reflexivity|]. split.
  - specialize (Hn 0 ltac:(lia)). rewrite Nat.add_0_r, Nat.mod_small in Hn; auto.
  - assert (Hh' : (head p + 1) mod q < q) by (apply Nat.mod_upper_bound; lia).
    repeat split; auto.
    + rewrite Ht, mod_succ_shift by lia. reflexivity.
    + rewrite Ht. destruct n as [|n'].
      * cbn. rewrite Nat.add_1_r. apply Nat.eqb_refl.
      * cbn. apply Nat.eqb_neq. intros Heq. replace (head p + S (S n')) with (head p + (S (S n'))) in Heq by lia.
        apply mod_inj in Heq; lia.
    + lia.
    + intros i Hi. rewrite mod_succ_shift by lia. apply (Hn (S i)). lia.
Qed.

Lemma finish_pending cfg tid th g th' g' : finish_op cfg tid th g = (th', g') -> pending g' = pending g /\ next g' = next g.
Proof.
  intros H. apply finish_op_cases in H.
  destruct H as [(Hw & k & j & r & _ & _ & ->)|[(Hw & _ & _ & ->)|(Hw & c & ops' & Hn & _ & ->)]]; auto.
  destruct (t_cur th); auto.
Qed.

Lemma ring_step cfg tid w s s' : RingOK s -> step cfg tid w s = Some s' -> RingOK s'.
Proof.
  unfold RingOK. intros HR H.
  step_inv H; cbn -[Nat.modulo];
    try match goal with Hf : finish_op _ _ _ _ = _ |- _ => destruct (finish_pending _ _ _ _ _ _ Hf) as [-> _] end;
    try exact HR.
  - cbn in E0. rewrite andb_true_r in E0.
    apply (ring_push (set_owner (Some tid) (sp s))); auto.
  - apply (ring_push (set_owner (Some tid) (sp s))); auto.
  - apply orb_false_iff in E0. destruct E0 as [E0 _].
    destruct (ring_pop (sp s) _ HR E0) as (e & r & Hl & He & Hr). rewrite Hl. cbn. exact Hr.
Qed.
