(* Proofs about the zstdmt protocol model (MtModel.v): invariants over ALL schedules (Sched.run), all call
   programs, all payload oracles. *)
From Coq Require Import List NArith ZArith Bool Arith Lia Sorting.Sorted.
Import ListNotations.
From ZV.Conc Require Import Sched SchedLemmas MtModel.
Local Open Scope N_scope.
Ltac Zify.zify_post_hook ::= Z.div_mod_to_equations.

(* ------------------------------------------------------------------ *)
(* lists                                                                *)

Lemma upd_length {A} (l : list A) i x : length (upd i x l) = length l.
Proof. revert i; induction l; destruct i; cbn; auto. Qed.

Lemma nth_upd_eq {A} (l : list A) i x d : (i < length l)%nat -> nth i (upd i x l) d = x.
Proof. revert i; induction l; destruct i; cbn; intros; try lia; auto. apply IHl; lia. Qed.

Lemma nth_upd_neq {A} (l : list A) i k x d : i <> k -> nth k (upd i x l) d = nth k l d.
Proof. revert i k; induction l; destruct i, k; cbn; intros; try congruence; auto. Qed.

Lemma nth_error_upd_eq {A} (l : list A) i x : (i < length l)%nat -> nth_error (upd i x l) i = Some x.
Proof. revert i; induction l; destruct i; cbn; intros; try lia; auto. apply IHl; lia. Qed.

Lemma nth_error_upd_neq {A} (l : list A) i k x : i <> k -> nth_error (upd i x l) k = nth_error l k.
Proof. revert i k; induction l; destruct i, k; cbn; intros; try congruence; auto. Qed.

Lemma nth_error_upd_inv {A} (l : list A) i k x y :
  nth_error (upd i x l) k = Some y -> (k = i /\ y = x /\ (i < length l)%nat) \/ (k <> i /\ nth_error l k = Some y).
Proof.
  intros H. destruct (Nat.eq_dec k i) as [->|Hn].
  - left. assert (Hl : (i < length l)%nat).
    { rewrite <- (upd_length l i x). apply nth_error_Some. congruence. }
    rewrite nth_error_upd_eq in H by exact Hl. inversion H; auto.
  - right. rewrite nth_error_upd_neq in H by congruence. auto.
Qed.

Lemma In_upd {A} (l : list A) i x y : In y (upd i x l) -> y = x \/ In y l.
Proof. revert i; induction l; destruct i; cbn; intros; auto; destruct H; auto. apply IHl in H. destruct H; auto. Qed.

(* ------------------------------------------------------------------ *)
(* the caller's unsynchronised code does not touch the serial state, the worker threads, the pools *)

Definition eq_swp (s s' : state) : Prop := sr s' = sr s /\ ws s' = ws s /\ pl s' = pl s.
Lemma eq_swp_refl s : eq_swp s s. Proof. repeat split. Qed.
Lemma eq_swp_trans a b c : eq_swp a b -> eq_swp b c -> eq_swp a c.
Proof. unfold eq_swp; intros (?&?&?) (?&?&?); repeat split; congruence. Qed.

Ltac swp_step :=
  match goal with
  | |- eq_swp ?s ?s => apply eq_swp_refl
  | |- eq_swp _ (if ?b then _ else _) => destruct b
  | |- eq_swp _ (match ?x with _ => _ end) => destruct x
  | |- eq_swp _ (let '(_, _) := ?x in _) => destruct x
  end.

Lemma swp_set_cpc p s : eq_swp s (set_cpc p s). Proof. repeat split. Qed.
Lemma swp_set_cl c s : eq_swp s (set_cl c s). Proof. repeat split. Qed.
Lemma swp_set_mt m s : eq_swp s (set_mt m s). Proof. repeat split. Qed.
Lemma swp_set_job k j s : eq_swp s (set_job k j s). Proof. repeat split. Qed.
Lemma swp_set_gh g s : eq_swp s (set_gh g s). Proof. repeat split. Qed.
Lemma swp_record_res r s : eq_swp s (record_res r s). Proof. repeat split. Qed.
Lemma swp_zero_slot k s : eq_swp s (zero_slot k s). Proof. repeat split. Qed.
Lemma swp_rel_clear s : eq_swp s (rel_clear s). Proof. repeat split. Qed.
Lemma swp_stop_ops s : eq_swp s (stop_ops s). Proof. repeat split. Qed.
Lemma swp_init_params s : eq_swp s (init_params s). Proof. repeat split. Qed.

Ltac swp_via H := eapply eq_swp_trans; [|apply H]; try (repeat split; fail).

Lemma swp_prepare_job cfg s n e : eq_swp s (prepare_job cfg s n e).
Proof. repeat split. Qed.

Lemma swp_create_job cfg s e : eq_swp s (create_job cfg s e).
Proof.
  unfold create_job. repeat swp_step; repeat split.
Qed.

Lemma swp_create_phase cfg s : eq_swp s (create_phase cfg s).
Proof.
  unfold create_phase.
  match goal with |- eq_swp _ (if ?b then _ else _) => destruct b end.
  - eapply eq_swp_trans; [|apply swp_create_job]. repeat split.
  - repeat split.
Qed.

Lemma swp_fill_phase cfg s : eq_swp s (fill_phase cfg s).
Proof.
  unfold fill_phase. destruct (ihas (mt s)); [|apply swp_create_phase].
  destruct (sync_point cfg (mt s) (c_in (cl s))). eapply eq_swp_trans; [|apply swp_create_phase]. repeat split.
Qed.

Lemma swp_hand_out cfg s : eq_swp s (hand_out cfg s).
Proof. unfold hand_out. eapply eq_swp_trans; [|apply swp_fill_phase]. repeat split. Qed.

Lemma swp_after_wrap cfg s : eq_swp s (after_wrap cfg s).
Proof. unfold after_wrap. repeat swp_step; try apply swp_fill_phase; try apply swp_set_cpc; apply swp_hand_out. Qed.

Lemma swp_move_prefix cfg s : eq_swp s (move_prefix cfg s).
Proof. unfold move_prefix. eapply eq_swp_trans; [|apply swp_after_wrap]. repeat split. Qed.

Lemma swp_after_inuse cfg s u : eq_swp s (after_inuse cfg s u).
Proof.
  unfold after_inuse.
  repeat match goal with |- eq_swp _ (if ?b then _ else _) => destruct b end;
  (eapply eq_swp_trans; [|first [apply swp_fill_phase|apply swp_set_cpc|apply swp_move_prefix|apply swp_after_wrap]]); repeat split.
Qed.

Lemma swp_scan_inuse cfg s j : eq_swp s (scan_inuse cfg s j).
Proof. unfold scan_inuse. destruct (_ <? _); [apply swp_set_cpc|apply swp_after_inuse]. Qed.

Lemma swp_gen_body cfg s : eq_swp s (gen_body cfg s).
Proof.
  unfold gen_body. repeat match goal with |- eq_swp _ (if ?b then _ else _) => destruct b end;
  first [apply swp_scan_inuse|apply swp_fill_phase|apply swp_create_phase].
Qed.

Lemma swp_rel_scan_k i kd s k f :
  (forall s1, eq_swp s1 (kd s1)) -> eq_swp s (rel_scan_k i kd s k f).
Proof.
  intros Hk. revert s k. induction f; intros s k; cbn [rel_scan_k].
  - eapply eq_swp_trans; [apply swp_rel_clear|apply Hk].
  - destruct (Nat.ltb k (length (jobs s))).
    + destruct (j_dst (getj s k)); [apply swp_set_cpc|].
      eapply eq_swp_trans; [apply swp_zero_slot|apply IHf].
    + eapply eq_swp_trans; [apply swp_rel_clear|apply Hk].
Qed.

Lemma swp_start_ops cfg ops : forall s, eq_swp s (start_ops cfg s ops).
Proof.
  induction ops as [|o r IH]; intros s; cbn [start_ops]; [apply swp_stop_ops|].
  destruct o as [fp|e i o].
  - destruct (alldone (mt s)); [eapply eq_swp_trans; [|apply swp_init_params]; repeat split|].
    destruct (_ <? _); [repeat split|].
    eapply eq_swp_trans; [|apply swp_rel_scan_k; intros; apply swp_init_params]. repeat split.
  - destruct (alldone (mt s) && negb (ended (mt s))); [apply swp_stop_ops|].
    destruct (ended (mt s) && (0 <? i) && negb (is_continue e)); [apply swp_stop_ops|].
    destruct (ended (mt s) && is_continue e).
    + destruct r as [|[fp|e' i' o'] r'].
      * eapply eq_swp_trans; [|apply IH]. repeat split.
      * eapply eq_swp_trans; [|apply IH]. repeat split.
      * eapply eq_swp_trans; [|apply swp_stop_ops]. repeat split.
    + eapply eq_swp_trans; [|apply swp_gen_body]. repeat split.
Qed.

Lemma swp_finish_op cfg s r : eq_swp s (finish_op cfg s r).
Proof. unfold finish_op. eapply eq_swp_trans; [apply swp_record_res|apply swp_start_ops]. Qed.

Lemma swp_rel_scan cfg i s k f : eq_swp s (rel_scan cfg i s k f).
Proof. unfold rel_scan. apply swp_rel_scan_k. intros s1. destruct i; [apply swp_init_params|apply swp_finish_op]. Qed.

Lemma swp_wait_all cfg i s : eq_swp s (wait_all cfg i s).
Proof. unfold wait_all. destruct (_ <? _); [apply swp_set_cpc|apply swp_rel_scan]. Qed.

Lemma swp_gen_again cfg s : eq_swp s (gen_again cfg s).
Proof.
  unfold gen_again. destruct (_ && _); (eapply eq_swp_trans; [|first [apply swp_finish_op|apply swp_gen_body]]); repeat split.
Qed.

Lemma swp_gen_return cfg s v : eq_swp s (gen_return cfg s v).
Proof.
  unfold gen_return. repeat match goal with |- eq_swp _ (if ?b then _ else _) => destruct b end;
  first [apply swp_finish_op|apply swp_gen_again].
Qed.

Lemma swp_flush_return cfg s : eq_swp s (flush_return cfg s).
Proof.
  unfold flush_return. destruct (flush_tail s (c_e2 (cl s))) as [s1 v] eqn:E.
  eapply eq_swp_trans; [|apply swp_gen_return].
  unfold flush_tail in E. repeat match type of E with (if ?b then _ else _) = _ => destruct b end; inversion E; subst; repeat split.
Qed.

Lemma swp_complete_job cfg s : eq_swp s (complete_job cfg s).
Proof. unfold complete_job. eapply eq_swp_trans; [|apply swp_flush_return]. repeat split. Qed.

Lemma swp_flush_body cfg s : eq_swp s (flush_body cfg s).
Proof.
  unfold flush_body. destruct (j_err _); [apply swp_wait_all|].
  repeat match goal with |- eq_swp _ (if ?b then _ else _) => destruct b end;
  (eapply eq_swp_trans; [|first [apply swp_set_cpc|apply swp_complete_job|apply swp_gen_return|apply swp_flush_return]]); repeat split.
Qed.

(* ------------------------------------------------------------------ *)
(* effect of a caller step on serial state / workers / pools            *)

Ltac inv_some H := match type of H with Some _ = Some _ => inversion H; subst; clear H end.

Definition ser_same (a b : ser) := s_next b = s_next a /\ s_log b = s_log a /\ s_skip b = s_skip a.

Ltac swp_solve :=
  first [ apply eq_swp_refl
        | solve [repeat split]
        | solve [eapply eq_swp_trans;
                  [|first [apply swp_after_inuse|apply swp_scan_inuse|apply swp_move_prefix|apply swp_hand_out|apply swp_flush_body
                          |apply swp_complete_job|apply swp_wait_all|apply swp_rel_scan|apply swp_finish_op|apply swp_set_cpc]];
                  repeat split] ].

(* every caller step except the pool/serial accesses themselves leaves (sr, ws, pl) alone: shape of each step *)
Lemma caller_step_sr cfg w s s' :
  caller_step cfg w s = Some s' ->
  ser_same (sr s) (sr s') \/
  ((c_pc (cl s) = CInitBuf \/ c_pc (cl s) = CInitSeq) /\ s_next (sr s') = 0 /\ s_log (sr s') = [] /\ s_skip (sr s') = false).
Proof.
  unfold caller_step. intros H.
  destruct (c_pc (cl s)) eqn:Epc; try discriminate;
  repeat match type of H with (if ?b then _ else _) = _ => destruct b end; inv_some H.
  all: try (left; match goal with |- ser_same _ (sr ?x) =>
        let H := fresh in assert (H : eq_swp s x) by swp_solve; destruct H as (H & _ & _); rewrite H; repeat split end; fail).
  all: try (left; unfold ser_same;
            assert (Hs : forall a b, eq_swp a b -> sr b = sr a) by (intros a b (Hx & _); exact Hx);
            match goal with |- context[sr ?x] =>
              let H := fresh in
              assert (H : sr x = sr s) by
                (first [reflexivity
                       | etransitivity; [apply Hs; first [apply swp_complete_job|apply swp_rel_scan|apply swp_finish_op]|reflexivity]]);
              rewrite H; repeat split end; fail).
  - (* CInitBuf *) destruct (ldm (mt s)); [right; split; [left; reflexivity|]; repeat split|left; repeat split].
  - (* CInitSeq, LDM *)
    left. match goal with |- context[sr (finish_op ?c ?x ?r)] => destruct (swp_finish_op c x r) as (Hx & _ & _); rewrite Hx end.
    repeat split.
  - (* CInitSeq, no LDM *)
    right. split; [right; reflexivity|].
    match goal with |- context[sr (finish_op ?c ?x ?r)] => destruct (swp_finish_op c x r) as (Hx & _ & _); rewrite Hx end.
    repeat split.
Qed.

(* ------------------------------------------------------------------ *)
(* mt_serial_order, part 1: the serial sections execute in strictly increasing job-id order             *)

Definition log_ids (l : list (N * N * N)) : list N := map (fun x => fst (fst x)) l.

Definition SerSorted (s : state) : Prop :=
  StronglySorted N.lt (log_ids (s_log (sr s))) /\ Forall (fun i => i < s_next (sr s)) (log_ids (s_log (sr s))).

Lemma sorted_snoc l x : StronglySorted N.lt l -> Forall (fun i => i < x) l -> StronglySorted N.lt (l ++ [x]).
Proof.
  induction l; cbn; intros Hs Hf; [repeat constructor|].
  inversion Hs; subst. inversion Hf; subst. constructor; [apply IHl; auto|].
  apply Forall_app; split; auto.
Qed.

Lemma Forall_lt_mono l (a b : N) : a <= b -> Forall (fun i => i < a) l -> Forall (fun i => i < b) l.
Proof. intros Hab Hf. eapply Forall_impl; [|exact Hf]. cbn; intros; lia. Qed.

(* the wake-up helpers only move the caller's pc *)
Lemma wake_ldm_proj s : mt (wake_caller_ldm s) = mt s /\ jobs (wake_caller_ldm s) = jobs s /\ sr (wake_caller_ldm s) = sr s
  /\ pl (wake_caller_ldm s) = pl s /\ ws (wake_caller_ldm s) = ws s /\ gh (wake_caller_ldm s) = gh s.
Proof. unfold wake_caller_ldm. destruct (c_pc (cl s)); repeat split. Qed.
Lemma wake_job_proj cfg k s : mt (wake_caller_job cfg k s) = mt s /\ jobs (wake_caller_job cfg k s) = jobs s /\ sr (wake_caller_job cfg k s) = sr s
  /\ pl (wake_caller_job cfg k s) = pl s /\ ws (wake_caller_job cfg k s) = ws s /\ gh (wake_caller_job cfg k s) = gh s.
Proof. unfold wake_caller_job. destruct (c_pc (cl s)); try (repeat split; fail); destruct (Nat.eqb _ _); repeat split. Qed.

Lemma ser_sorted_step cfg t w s s' : SerSorted s -> step cfg t w s = Some s' -> SerSorted s'.
Proof.
  intros (Hs & Hf) H. destruct t as [|t]; cbn [step] in H.
  - destruct (caller_step_sr _ _ _ _ H) as [(E1 & E2 & _)|(_ & E1 & E2 & _)]; unfold SerSorted.
    + rewrite E1, E2. auto.
    + rewrite E1, E2. split; constructor.
  - unfold worker_step in H. destruct (nth_error (ws s) t) as [wl|]; [|discriminate].
    destruct (w_pc wl); try discriminate;
    repeat match type of H with
           | (if ?b then _ else _) = _ => destruct b eqn:?
           | match ?x with Some _ => _ | None => _ end = _ => destruct x
           end; inv_some H; unfold SerSorted; cbn [sr set_w set_ws set_pl set_job set_jobs set_sr];
    repeat match goal with |- context[sr (wake_caller_ldm ?x)] => replace (sr (wake_caller_ldm x)) with (sr x) by (symmetry; apply wake_ldm_proj) end;
    repeat match goal with |- context[sr (wake_caller_job ?c ?k ?x)] => replace (sr (wake_caller_job c k x)) with (sr x) by (symmetry; apply wake_job_proj) end;
    cbn [sr set_w set_ws set_pl set_job set_jobs set_sr s_log s_next]; auto.
    all: try (split; [|eapply Forall_lt_mono; [|exact Hf]; lia]; exact Hs).
    all: try (match goal with |- context[s_next (sr ?s0) <=? ?x] => destruct (s_next (sr s0) <=? x) eqn:El end;
              [apply N.leb_le in El;
               repeat match goal with |- context[sr (wake_caller_ldm ?x)] => replace (sr (wake_caller_ldm x)) with (sr x) by (symmetry; apply wake_ldm_proj) end;
               cbn [sr set_w set_ws set_pl set_job set_jobs set_sr s_log s_next];
               split; [exact Hs|eapply Forall_lt_mono; [|exact Hf]; lia]
              |split; auto]; fail).
    all: destruct (s_next (sr s) =? j_id (getj s (w_slot wl))) eqn:Em; destruct (ldm (mt s)); cbn [andb];
      repeat match goal with |- context[sr (wake_caller_ldm ?x)] => replace (sr (wake_caller_ldm x)) with (sr x) by (symmetry; apply wake_ldm_proj) end;
      cbn [sr set_w set_ws set_pl set_job set_jobs set_sr s_log s_next].
    all: try (split; [exact Hs|eapply Forall_lt_mono; [|exact Hf]; lia]).
    all: apply N.eqb_eq in Em; unfold log_ids; rewrite map_app; cbn [map fst]; fold (log_ids (s_log (sr s))); rewrite <- Em;
      (split; [apply sorted_snoc; auto|apply Forall_app; split; [eapply Forall_lt_mono; [|exact Hf]; lia|constructor; [lia|constructor]]]).
Qed.

Lemma ser_sorted_init cfg ops : SerSorted (init cfg ops).
Proof.
  unfold init. destruct (swp_start_ops cfg ops (mkS (mkMt 0 0 false false true 0 0 false 0 0 0 0 1 0 false false false [] 0 0 0 0)
    (repeat job0 (N.to_nat (mask cfg) + 1)) (mkSer 0 [] false win0 win0)
    (mkPl None 0 0 (2 * N.of_nat (c_nbw cfg) + 3) 1 (N.of_nat (c_nbw cfg)) 0 (N.of_nat (c_nbw cfg)) false)
    (mkCl CDone [] EContinue EContinue false 0 0 0 0 (0, 0) fp0 []) (repeat w0 (c_nbw cfg)) (mkG [] [] []))) as (H & _ & _).
  unfold SerSorted. rewrite H. cbn. split; constructor.
Qed.

(* all schedules *)
Theorem serial_sections_in_job_order cfg ops sched :
  SerSorted (run state (step cfg) sched (init cfg ops)).
Proof.
  apply (run_invariant state (step cfg) SerSorted).
  - intros s t w s' Hi Hst. eapply ser_sorted_step; eauto.
  - apply ser_sorted_init.
Qed.
