(* Vocabulary of the pool invariants: thread classes (as 0/1 indicators summed over the thread
   list), the generic "what a step does to a sum" lemmas, and the step-inversion tactic. *)
From Coq Require Import List Arith Bool Lia ZArith.
Import ListNotations.
From ZV.Conc Require Import Sched PoolModel PoolLemmas.

Ltac Zify.zify_post_hook ::= Z.div_mod_to_equations.

(* ---- classes ---- *)
Definition holds (c : pc) : bool :=
  match c with
  | PWait _ | PSignal | PUnlock | JWait | JUnlock | RBcast | RBcastPush | RUnlock | FUnlock
  | WWait | WUnlockExit | WBcast1 | WUnlock1 | WBcast2 | WUnlock2 => true
  | _ => false
  end.
Definition posting (c : pc) : bool := match c with PLock _ _ | PWait _ | PAsleep _ | PSignal | PUnlock => true | _ => false end.
Definition wpc (c : pc) : bool :=   (* pcs of POOL_thread itself *)
  match c with WLock | WWait | WAsleep | WUnlockExit | WBcast1 | WUnlock1 | WLock2 | WBcast2 | WUnlock2 => true | _ => false end.

Definition nholds th := b2n (holds (t_pc th)).
Definition nworker th := b2n (t_worker th).
Definition nbusy th := b2n (t_worker th && (posting (t_pc th) || match t_pc th with WBcast1 | WUnlock1 | WLock2 => true | _ => false end)).
Definition nanb th := b2n (match t_pc th with WLock | WBcast2 | WUnlock2 => true | _ => false end).
Definition naslp th := b2n (asleep_pop th).
Definition nwwait th := b2n (match t_pc th with WWait => true | _ => false end).
Definition nexit th := b2n (t_worker th && match t_pc th with WUnlockExit | Done => true | _ => false end).
Definition npsig th := b2n (match t_pc th with PSignal => true | _ => false end).
Definition nrb th := b2n (match t_pc th with RBcast => true | _ => false end).
Definition npush th := b2n (asleep_push th).
Definition npendb th := b2n (match t_pc th with WBcast1 | WBcast2 | FUnlock | FBcastPush => true | _ => false end).
Definition ncur (k : nat) th := match t_cur th with Some e => b2n (fst e =? k) | None => 0 end.
Definition nselfblk th := b2n (t_worker th && match t_pc th with PAsleep _ => true | _ => false end).

(* role discipline *)
Definition role_ok th : bool :=
  if t_worker th then wpc (t_pc th) || posting (t_pc th) || match t_pc th with Done => true | _ => false end
  else negb (wpc (t_pc th)).

(* ---- wake functions do not change ... ---- *)
Lemma wake_push_pc_cases th : wake_push th = th \/ (exists j, t_pc th = PAsleep j /\ wake_push th = set_pc (PLock KAdd j) th) \/ (t_pc th = JAsleep /\ wake_push th = set_pc JLock th).
Proof. unfold wake_push. destruct (t_pc th) eqn:E; eauto. Qed.
Lemma wake_pop_pc_cases th : wake_pop th = th \/ (t_pc th = WAsleep /\ wake_pop th = set_pc WLock th).
Proof. unfold wake_pop. destruct (t_pc th) eqn:E; eauto. Qed.

Ltac wake_cases th :=
  first [ destruct (wake_push_pc_cases th) as [->|[(? & ?E & ->)|(?E & ->)]]
        | destruct (wake_pop_pc_cases th) as [->|(?E & ->)] ].

(* ---- sums under the thread-list transformers of [step] ---- *)
Lemma sumf_broadcast_same (f : thread -> nat) wake ths :
  (forall th, f (wake th) = f th) -> sumf f (broadcast wake ths) = sumf f ths.
Proof. intros H. unfold broadcast. rewrite sumf_map. apply sumf_ext. auto. Qed.

Lemma sumf_signal_same (f : thread -> nat) g wake w ths :
  (forall th, f (wake th) = f th) -> sumf f (signal g wake w ths) = sumf f ths.
Proof.
  intros H. destruct (signal_cases g wake w ths) as [[_ ->]|(i & th & Hi & _ & ->)]; auto.
  pose proof (sumf_upd f i (wake th) ths th Hi). rewrite H in *. lia.
Qed.

Lemma nth_error_broadcast wake ths t : nth_error (broadcast wake ths) t = option_map wake (nth_error ths t).
Proof. unfold broadcast. revert t; induction ths; destruct t; cbn; auto. Qed.

Lemma nth_error_signal g wake w ths t th :
  nth_error ths t = Some th -> g th = false -> nth_error (signal g wake w ths) t = Some th.
Proof.
  intros Ht Hg. destruct (signal_cases g wake w ths) as [[_ ->]|(i & th' & Hi & Hg' & ->)]; auto.
  rewrite nth_error_upd_neq; auto. intros ->. congruence.
Qed.

Lemma broadcast_length wake ths : length (broadcast wake ths) = length ths.
Proof. apply map_length. Qed.
Lemma signal_length g wake w ths : length (signal g wake w ths) = length ths.
Proof. destruct (signal_cases g wake w ths) as [[_ ->]|(i & th' & Hi & Hg' & ->)]; auto. apply upd_length. Qed.
Lemma wake_pushers_length b w ths : length (wake_pushers b w ths) = length ths.
Proof. destruct b; cbn; [apply broadcast_length|apply signal_length]. Qed.

Lemma sumf_wake_pushers_same (f : thread -> nat) b w ths :
  (forall th, f (wake_push th) = f th) -> sumf f (wake_pushers b w ths) = sumf f ths.
Proof. intros; destruct b; cbn; [apply sumf_broadcast_same|apply sumf_signal_same]; auto. Qed.

Lemma nth_error_wake_pushers b w ths t th :
  nth_error ths t = Some th -> asleep_push th = false -> nth_error (wake_pushers b w ths) t = Some th.
Proof.
  intros Ht Hg. destruct b; cbn.
  - rewrite nth_error_broadcast, Ht. cbn. f_equal. unfold wake_push. unfold asleep_push in Hg. destruct (t_pc th); auto; discriminate.
  - apply nth_error_signal; auto.
Qed.
Lemma nth_error_broadcast_pop ths t th :
  nth_error ths t = Some th -> asleep_pop th = false -> nth_error (broadcast wake_pop ths) t = Some th.
Proof. intros Ht Hg. rewrite nth_error_broadcast, Ht. cbn. f_equal. unfold wake_pop. unfold asleep_pop in Hg. destruct (t_pc th); auto; discriminate. Qed.
Lemma nth_error_broadcast_push ths t th :
  nth_error ths t = Some th -> asleep_push th = false -> nth_error (broadcast wake_push ths) t = Some th.
Proof. intros Ht Hg. rewrite nth_error_broadcast, Ht. cbn. f_equal. unfold wake_push. unfold asleep_push in Hg. destruct (t_pc th); auto; discriminate. Qed.

(* ---- step inversion ---- *)
Lemma finish_op_cases cfg tid th g th' g' :
  finish_op cfg tid th g = (th', g') ->
  (t_worker th = true /\ exists k j r, t_posts th = (k, j) :: r /\ th' = mkT (PLock k j) [] (t_cur th) r true /\ g' = g) \/
  (t_worker th = true /\ t_posts th = [] /\ th' = mkT WLock2 [] None [] true /\ g' = match t_cur th with Some e => g_done e g | None => g end) \/
  (t_worker th = false /\ exists c ops', next_client (c_K cfg) tid (t_ops th) = (c, ops') /\ th' = mkT c ops' None [] false /\ g' = g).
Proof.
  unfold finish_op. destruct (t_worker th).
  - destruct (t_posts th) as [|[k j] r]; intros H; inversion H; subst; [right; left|left]; eauto 10.
  - destruct (next_client (c_K cfg) tid (t_ops th)) as [c ops'] eqn:E. intros H; inversion H; subst. right; right; eauto 10.
Qed.

Lemma next_client_pc K tid ops c ops' :
  next_client K tid ops = (c, ops') ->
  (exists k j, c = PLock k j) \/ c = JLock \/ (exists n, c = RLock n) \/ (tid = 0 /\ (c = MJoin 1 /\ 1 < K \/ c = FLock /\ K <= 1) /\ ops = []) \/ (tid <> 0 /\ c = Done /\ ops = []).
Proof.
  unfold next_client. destruct ops as [|[j|j| |n] r]; intros H.
  - destruct (tid =? 0) eqn:E0; [apply Nat.eqb_eq in E0|apply Nat.eqb_neq in E0].
    + destruct (1 <? K) eqn:E1; inversion H; subst; right; right; right; left; repeat split; auto; [left; split; auto; now apply Nat.ltb_lt|right; split; auto; now apply Nat.ltb_ge].
    + inversion H; subst. right; right; right; right; auto.
  - inversion H; eauto.
  - inversion H; eauto.
  - inversion H; eauto.
  - inversion H; eauto 6.
Qed.

Ltac step_inv H :=
  unfold step in H;
  match type of H with context [nth_error ?l ?t] => let th := fresh "th" in let Hth := fresh "Hth" in destruct (nth_error l t) as [th|] eqn:Hth; [|discriminate] end;
  match type of H with context [t_pc ?th] => let Epc := fresh "Epc" in destruct (t_pc th) eqn:Epc end;
  repeat match type of H with
         | context [match ?k with KAdd => _ | KTry => _ end] => destruct k
         | context [if ?c then _ else _] => let E := fresh "E" in destruct c eqn:E
         | context [let '(_, _) := finish_op ?a ?b ?c ?d in _] => let Hfin := fresh "Hfin" in let thf := fresh "thf" in let gf := fresh "gf" in destruct (finish_op a b c d) as [thf gf] eqn:Hfin
         | context [match t_cur ?th with _ => _ end] => let Ec := fresh "Ecur" in destruct (t_cur th) eqn:Ec
         end;
  try discriminate; inversion H; subst; clear H.

(* ---- Forall under the thread-list transformers ---- *)
Lemma Forall_broadcast (Q : thread -> Prop) wake ths :
  (forall th, Q th -> Q (wake th)) -> Forall Q ths -> Forall Q (broadcast wake ths).
Proof. intros H HF. unfold broadcast. induction HF; cbn; auto. Qed.
Lemma Forall_signal (Q : thread -> Prop) g wake w ths :
  (forall th, Q th -> Q (wake th)) -> Forall Q ths -> Forall Q (signal g wake w ths).
Proof.
  intros H HF. destruct (signal_cases g wake w ths) as [[_ ->]|(i & th & Hi & _ & ->)]; auto.
  apply Forall_upd; auto. apply H. eapply Forall_forall; eauto. eapply nth_error_In; eauto.
Qed.
Lemma Forall_wake_pushers (Q : thread -> Prop) b w ths :
  (forall th, Q th -> Q (wake_push th)) -> Forall Q ths -> Forall Q (wake_pushers b w ths).
Proof. intros; destruct b; cbn; [apply Forall_broadcast|apply Forall_signal]; auto. Qed.
Lemma Forall_nth_error {A} (Q : A -> Prop) l t x : Forall Q l -> nth_error l t = Some x -> Q x.
Proof. intros HF H. eapply Forall_forall; eauto. eapply nth_error_In; eauto. Qed.
Lemma Forall_repeat {A} (Q : A -> Prop) x n : Q x -> Forall Q (repeat x n).
Proof. intros; induction n; cbn; auto. Qed.

(* reachability *)
Definition reachable (cfg : config) (s0 s : state) : Prop := exists sched, s = run state (step cfg) sched s0.

(* ---- pointwise view of the thread list after a step ---- *)
Definition woken (x0 x : thread) : Prop := x = x0 \/ x = wake_push x0 \/ x = wake_pop x0.

Lemma woken_broadcast_push ths t x : nth_error (broadcast wake_push ths) t = Some x -> exists x0, nth_error ths t = Some x0 /\ woken x0 x.
Proof. rewrite nth_error_broadcast. destruct (nth_error ths t) as [x0|]; cbn; intros H; inversion H; subst. exists x0; unfold woken; auto. Qed.
Lemma woken_broadcast_pop ths t x : nth_error (broadcast wake_pop ths) t = Some x -> exists x0, nth_error ths t = Some x0 /\ woken x0 x.
Proof. rewrite nth_error_broadcast. destruct (nth_error ths t) as [x0|]; cbn; intros H; inversion H; subst. exists x0; unfold woken; auto. Qed.
Lemma woken_signal_pop w ths t x : nth_error (signal asleep_pop wake_pop w ths) t = Some x -> exists x0, nth_error ths t = Some x0 /\ woken x0 x.
Proof.
  destruct (signal_cases asleep_pop wake_pop w ths) as [[_ ->]|(i & th & Hi & _ & ->)].
  - intros H; exists x; unfold woken; auto.
  - rewrite nth_error_upd. destruct ((t =? i) && (i <? length ths)) eqn:E.
    + apply andb_prop in E. destruct E as [E _]. apply Nat.eqb_eq in E; subst. intros H; inversion H; subst. exists th; unfold woken; auto.
    + intros H; exists x; unfold woken; auto.
Qed.
Lemma woken_signal_push w ths t x : nth_error (signal asleep_push wake_push w ths) t = Some x -> exists x0, nth_error ths t = Some x0 /\ woken x0 x.
Proof.
  destruct (signal_cases asleep_push wake_push w ths) as [[_ ->]|(i & th & Hi & _ & ->)].
  - intros H; exists x; unfold woken; auto.
  - rewrite nth_error_upd. destruct ((t =? i) && (i <? length ths)) eqn:E.
    + apply andb_prop in E. destruct E as [E _]. apply Nat.eqb_eq in E; subst. intros H; inversion H; subst. exists th; unfold woken; auto.
    + intros H; exists x; unfold woken; auto.
Qed.
Lemma woken_wake_pushers b w ths t x : nth_error (wake_pushers b w ths) t = Some x -> exists x0, nth_error ths t = Some x0 /\ woken x0 x.
Proof. destruct b; cbn; [apply woken_broadcast_push|apply woken_signal_push]. Qed.
Lemma woken_id ths t x : nth_error ths t = Some x -> exists x0, nth_error ths t = Some x0 /\ woken x0 x.
Proof. intros; exists x; unfold woken; auto. Qed.

Lemma nth_error_step_list (ths1 : list thread) tid th' extra t x n :
  nth_error (upd tid th' ths1 ++ extra) t = Some x -> length ths1 = n -> tid < n ->
  (t = tid /\ x = th') \/ (t <> tid /\ nth_error ths1 t = Some x) \/ (n <= t /\ nth_error extra (t - n) = Some x).
Proof.
  intros H Hl Ht. destruct (Nat.lt_ge_cases t n) as [Hlt|Hge].
  - rewrite nth_error_app1 in H by (rewrite upd_length; lia).
    destruct (Nat.eq_dec t tid) as [->|Hne].
    + rewrite nth_error_upd_eq in H by lia. inversion H; auto.
    + rewrite nth_error_upd_neq in H by auto. auto.
  - rewrite nth_error_app2 in H by (rewrite upd_length; lia). rewrite upd_length, Hl in H. auto.
Qed.

Lemma nth_error_repeat {A} (a : A) n t x : nth_error (repeat a n) t = Some x -> x = a.
Proof. intros H. apply nth_error_In in H. now apply repeat_spec in H. Qed.

(* [others H]: H : nth_error (st s') t = Some x, for the thread list produced by a step of [tid] (with Hth in the
   context): splits into the stepping thread / another old thread (possibly woken) / a newly created worker *)
Ltac others H :=
  match type of H with
  | nth_error (upd ?tid ?th' ?l ++ ?extra) ?t = Some ?x => idtac
  | nth_error (upd ?tid ?th' ?l) ?t = Some ?x => rewrite <- (app_nil_r (upd tid th' l)) in H
  end;
  match type of H with
  | nth_error (upd ?tid ?th' ?l ++ ?extra) ?t = Some ?x =>
    match goal with
    | Hth : nth_error ?ths tid = Some _ |- _ =>
      let Hlen := fresh "Hlen" in
      assert (Hlen : length l = length ths) by (first [reflexivity | apply broadcast_length | apply signal_length | apply wake_pushers_length]);
      apply (nth_error_step_list l tid th' extra t x (length ths)) in H; [|exact Hlen|exact (nth_error_Some_lt _ _ _ Hth)];
      destruct H as [[-> ->]|[[Hne H]|[Hge H]]];
      [ | first [apply woken_broadcast_push in H | apply woken_broadcast_pop in H | apply woken_signal_pop in H
                | apply woken_wake_pushers in H | apply woken_id in H];
          let x0 := fresh "x0" in let Hw := fresh "Hwoken" in destruct H as (x0 & H & Hw)
        | first [apply nth_error_repeat in H; subst x | (destruct (t - length ths); discriminate H)] ]
    end
  end.
