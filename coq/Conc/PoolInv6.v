(* Layer 6: worker census, thread termination is permanent, and the phases of the main client
   (operations -> join the other clients -> POOL_free: shutdown, broadcasts, join every worker). *)
From Coq Require Import List Arith Bool Lia ZArith.
Import ListNotations.
From ZV.Conc Require Import Sched PoolModel PoolLemmas PoolInvDefs PoolInv1 PoolInv2 PoolInv3 PoolInv4 PoolInv5.

(* ---- census: threadCapacity = number of worker threads; a worker at WBcast1/WUnlock1 has a job ---- *)
Definition WorkersOK (s : state) := sumf nworker (st s) = cap (sp s).
Definition cur2_ok th : bool := match t_pc th with WBcast1 | WUnlock1 => match t_cur th with Some _ => true | None => false end | _ => true end.
Definition Cur2OK (s : state) := Forall (fun th => cur2_ok th = true) (st s).

Lemma nworker_wake_push th : nworker (wake_push th) = nworker th.
Proof. unfold nworker, wake_push. destruct (t_pc th); auto. Qed.
Lemma nworker_wake_pop th : nworker (wake_pop th) = nworker th.
Proof. unfold nworker, wake_pop. destruct (t_pc th); auto. Qed.

Lemma workers_step cfg tid w s s' : RoleOK s -> WorkersOK s -> step cfg tid w s = Some s' -> WorkersOK s'.
Proof.
  unfold WorkersOK. intros HR HW H.
  step_inv H; cbn; role_th HR Hth;
    try match goal with Hf : finish_op _ _ _ _ = _ |- _ => pose proof (finish_worker _ _ _ _ _ _ Hf) end;
    sum_upd nworker nworker_wake_push nworker_wake_pop;
    unfold nworker, role_ok in *; cbn in *; rewrite ?Epc in *; cbn in *;
    repeat match goal with H : t_worker _ = _ |- _ => rewrite H in * end;
    try (apply Nat.leb_gt in E0);
    destruct (t_worker th); cbn in *; try discriminate; lia.
Qed.

Lemma cur2_wake_push th : cur2_ok th = true -> cur2_ok (wake_push th) = true.
Proof. unfold cur2_ok, wake_push. destruct (t_pc th) eqn:E; cbn; rewrite ?E; auto. Qed.
Lemma cur2_wake_pop th : cur2_ok th = true -> cur2_ok (wake_pop th) = true.
Proof. unfold cur2_ok, wake_pop. destruct (t_pc th) eqn:E; cbn; rewrite ?E; auto. Qed.
Lemma cur2_finish cfg tid th g th' g' : finish_op cfg tid th g = (th', g') -> cur2_ok th' = true.
Proof.
  intros H. apply finish_op_cases in H.
  destruct H as [(Hw & k & j & r & _ & -> & _)|[(Hw & _ & -> & _)|(Hw & c & ops' & Hn & -> & _)]]; cbn; auto.
  apply next_client_pc in Hn. unfold cur2_ok; cbn.
  destruct Hn as [(k & j & ->)|[->|[(n & ->)|[(_ & [[-> _]|[-> _]] & _)|(_ & -> & _)]]]]; auto.
Qed.

Lemma cur2_step cfg tid w s s' : Cur2OK s -> step cfg tid w s = Some s' -> Cur2OK s'.
Proof.
  unfold Cur2OK. intros HC H. step_inv H; cbn;
    pose proof (Forall_nth_error _ _ _ _ HC Hth) as Hcur; cbn beta in Hcur;
    try (apply Forall_app; split; [|apply Forall_repeat; reflexivity]);
    apply Forall_upd;
    try (apply Forall_signal; [apply cur2_wake_pop|]);
    try (apply Forall_broadcast; [first [apply cur2_wake_pop|apply cur2_wake_push]|]);
    try (apply Forall_wake_pushers; [apply cur2_wake_push|]);
    auto;
    try (eapply cur2_finish; eassumption);
    try (unfold cur2_ok in *; cbn; rewrite ?Epc, ?Ecur in *; cbn in *; auto).
Qed.

(* ---- a finished thread stays finished ---- *)
Lemma woken_done x0 x : woken x0 x -> t_pc x0 = Done -> t_pc x = Done.
Proof. intros [->|[->| ->]]; auto; [unfold wake_push|unfold wake_pop]; intros E; rewrite E; auto. Qed.


(* ---- forward pointwise view: what a step does to another thread ---- *)
Lemma fwd_broadcast_push ths j x0 : nth_error ths j = Some x0 -> exists x, nth_error (broadcast wake_push ths) j = Some x /\ woken x0 x.
Proof. intros H. rewrite nth_error_broadcast, H. cbn. eexists; split; [reflexivity|unfold woken; auto]. Qed.
Lemma fwd_broadcast_pop ths j x0 : nth_error ths j = Some x0 -> exists x, nth_error (broadcast wake_pop ths) j = Some x /\ woken x0 x.
Proof. intros H. rewrite nth_error_broadcast, H. cbn. eexists; split; [reflexivity|unfold woken; auto]. Qed.
Lemma fwd_of_bwd (T : list thread -> list thread) ths j x0 :
  length (T ths) = length ths ->
  (forall t x, nth_error (T ths) t = Some x -> exists y0, nth_error ths t = Some y0 /\ woken y0 x) ->
  nth_error ths j = Some x0 -> exists x, nth_error (T ths) j = Some x /\ woken x0 x.
Proof.
  intros Hl Hb H. destruct (nth_error (T ths) j) as [y|] eqn:Hy.
  - destruct (Hb _ _ Hy) as (y0 & Hy0 & Hw). rewrite H in Hy0. inversion Hy0; subst. eauto.
  - apply nth_error_None in Hy. apply nth_error_Some_lt in H. lia.
Qed.
Lemma fwd_signal_pop w ths j x0 : nth_error ths j = Some x0 -> exists x, nth_error (signal asleep_pop wake_pop w ths) j = Some x /\ woken x0 x.
Proof. apply (fwd_of_bwd (signal asleep_pop wake_pop w)); [apply signal_length|apply woken_signal_pop]. Qed.
Lemma fwd_wake_pushers b w ths j x0 : nth_error ths j = Some x0 -> exists x, nth_error (wake_pushers b w ths) j = Some x /\ woken x0 x.
Proof. apply (fwd_of_bwd (wake_pushers b w)); [apply wake_pushers_length|apply woken_wake_pushers]. Qed.

Lemma step_other cfg tid w s s' j x0 :
  step cfg tid w s = Some s' -> nth_error (st s) j = Some x0 -> j <> tid ->
  exists x, nth_error (st s') j = Some x /\ woken x0 x.
Proof.
  intros H Hj Hne. pose proof (nth_error_Some_lt _ _ _ Hj) as Hlt.
  step_inv H; cbn [st];
    try rewrite nth_error_app1 by (rewrite upd_length; exact Hlt);
    rewrite nth_error_upd_neq by exact Hne;
    first [ solve [exists x0; split; [exact Hj|left; reflexivity]]
          | solve [apply fwd_broadcast_push; exact Hj]
          | solve [apply fwd_broadcast_pop; exact Hj]
          | solve [apply fwd_signal_pop; exact Hj]
          | solve [apply fwd_wake_pushers; exact Hj] ].
Qed.

(* ---- a finished thread stays finished ---- *)
Definition done_at (ths : list thread) (j : nat) : bool :=
  match nth_error ths j with Some x => match t_pc x with Done => true | _ => false end | None => false end.


Lemma done_at_spec ths j : done_at ths j = true <-> exists x, nth_error ths j = Some x /\ t_pc x = Done.
Proof.
  unfold done_at. destruct (nth_error ths j) as [x|]; split.
  - intros H. exists x; split; auto. destruct (t_pc x); try discriminate; auto.
  - intros (y & Hy & Hd). inversion Hy; subst. now rewrite Hd.
  - discriminate.
  - intros (y & Hy & _). discriminate.
Qed.

Lemma done_at_is_done ths j : done_at ths j = true -> is_done ths j = true.
Proof. intros H. apply done_at_spec in H. destruct H as (x & Hx & Hd). unfold is_done. erewrite nth_error_nth' by eassumption. now rewrite Hd. Qed.
Lemma is_done_done_at ths j : j < length ths -> is_done ths j = true -> done_at ths j = true.
Proof.
  intros Hl H. unfold is_done in H. unfold done_at. destruct (nth_error ths j) as [x|] eqn:E.
  - erewrite nth_error_nth' in H by eassumption. exact H.
  - apply nth_error_None in E. lia.
Qed.

Lemma done_stable cfg tid w s s' j :
  step cfg tid w s = Some s' -> done_at (st s) j = true -> done_at (st s') j = true.
Proof.
  intros H Hd. apply done_at_spec in Hd. destruct Hd as (x0 & Hj & Hpc).
  assert (Hne : j <> tid). { intros ->. unfold step in H. rewrite Hj, Hpc in H. discriminate. }
  destruct (step_other _ _ _ _ _ _ _ H Hj Hne) as (x & Hx & Hw).
  apply done_at_spec. exists x; split; auto. eapply woken_done; eauto.
Qed.

(* ---- shutdown bookkeeping ---- *)
(* a worker leaves its loop only after shutdown was set *)
Definition ExitOK (s : state) := 1 <= sumf nexit (st s) -> shutdown (sp s) = true.
(* after shutdown: the queue is empty, or some worker has not left its loop yet *)
Definition LastOK (s : state) := shutdown (sp s) = true -> qempty (sp s) = true \/ sumf nexit (st s) < cap (sp s).

Lemma nexit_wake_push th : nexit (wake_push th) = nexit th.
Proof. unfold nexit, wake_push. destruct (t_pc th) eqn:E; cbn; rewrite ?E; auto. Qed.
Lemma nexit_wake_pop th : nexit (wake_pop th) = nexit th.
Proof. unfold nexit, wake_pop. destruct (t_pc th) eqn:E; cbn; rewrite ?E; auto. Qed.
Lemma nanb_wake_push th : nanb (wake_push th) = nanb th.
Proof. unfold nanb, wake_push. destruct (t_pc th) eqn:E; cbn; rewrite ?E; auto. Qed.

Lemma nexit_finish cfg tid th g th' g' : finish_op cfg tid th g = (th', g') -> nexit th' = 0.
Proof.
  intros H. apply finish_op_cases in H.
  destruct H as [(Hw & k & j & r & _ & -> & _)|[(Hw & _ & -> & _)|(Hw & c & ops' & Hn & -> & _)]]; cbn; auto.
Qed.

Lemma exit_step cfg tid w s s' : RoleOK s -> ExitOK s -> step cfg tid w s = Some s' -> ExitOK s'.
Proof.
  unfold ExitOK. intros HR HE H.
  step_inv H; cbn; role_th HR Hth;
    try match goal with Hf : finish_op _ _ _ _ = _ |- _ => pose proof (nexit_finish _ _ _ _ _ _ Hf) end;
    sum_upd nexit nexit_wake_push nexit_wake_pop; intros Hge;
    first [ reflexivity | assumption
          | rewrite ?E1; apply HE; unfold nexit, role_ok in *; cbn in *; rewrite ?Epc in *; cbn in *; rewrite ?andb_false_r, ?andb_true_r in *; cbn in *;
            destruct (t_worker th); cbn in *; try discriminate; lia ].
Qed.

(* census inequality: busy, exited and about-to-look workers are distinct workers *)
Lemma census_le th : role_ok th = true -> nbusy th + nexit th + nanb th <= nworker th.
Proof. unfold role_ok, nbusy, nexit, nanb, nworker. destruct (t_worker th); destruct (t_pc th); cbn; try discriminate; lia. Qed.

Lemma census_sum ths : Forall (fun th => role_ok th = true) ths -> sumf nbusy ths + sumf nexit ths + sumf nanb ths <= sumf nworker ths.
Proof. induction 1 as [|th l H _ IH]; cbn; [lia|]. pose proof (census_le th H). lia. Qed.

Lemma last_step cfg tid w s s' :
  RoleOK s -> ShapeOK cfg s -> BusyOK s -> WorkersOK s -> ExitOK s -> LastOK s -> step cfg tid w s = Some s' -> LastOK s'.
Proof.
  unfold LastOK. intros HR (_ & _ & Hlim & _) HB HW HE HL H.
  pose proof (census_sum _ HR) as Hcen. unfold BusyOK in HB. unfold WorkersOK in HW. unfold ExitOK in HE.
  step_inv H; cbn;
    try match goal with Hf : finish_op _ _ _ _ = _ |- _ => pose proof (nexit_finish _ _ _ _ _ _ Hf) end;
    pose proof (sumf_nth_le nanb _ _ _ Hth) as Hanb; role_th HR Hth;
    sum_upd nexit nexit_wake_push nexit_wake_pop; intros Hsd;
    try congruence;
    unfold nexit, nanb, role_ok in *; cbn in *; rewrite ?Epc in *; cbn in *; rewrite ?andb_false_r, ?andb_true_r in *; cbn in *;
    try (apply Nat.leb_gt in E0);
    try (apply orb_false_iff in E0; destruct E0 as [E0 E0']);
    try (destruct (shutdown (sp s)) eqn:Esd; [specialize (HL eq_refl)|]);
    try (destruct HL as [HL|HL]; [left; congruence|]);
    try (right; destruct (t_worker th); cbn in *; try discriminate; lia);
    try (apply orb_prop in E0; destruct E0 as [Eq|El]; [left; assumption|right; apply Nat.leb_le in El; destruct (t_worker th); cbn in *; try discriminate; lia]).
Qed.
