(* Safety core of C12: the combined invariant holds in every reachable state, for every pool
   configuration, every client program, every job table and every schedule. *)
From Coq Require Import List Arith Bool Lia ZArith.
Import ListNotations.
From ZV.Conc Require Import Sched SchedLemmas PoolModel PoolLemmas PoolInvDefs PoolInv1 PoolInv2 PoolInv3 PoolInv4 PoolInv5.

Record Safe (cfg : config) (s : state) : Prop := mkSafe {
  sf_role : RoleOK s; sf_mutex : MutexOK s; sf_shape : ShapeOK cfg s; sf_ring : RingOK s; sf_cur : CurOK s;
  sf_busy : BusyOK s; sf_tickets : TicketsOK s; sf_started : StartedOK s; sf_assert : AssertOK s }.

Lemma safe_step cfg tid w s s' : Safe cfg s -> step cfg tid w s = Some s' -> Safe cfg s'.
Proof.
  intros [] H. constructor.
  - eapply role_step; eauto.
  - eapply mutex_step; eauto.
  - eapply shape_step; eauto.
  - eapply ring_step; eauto.
  - eapply cur_step; eauto.
  - eapply busy_step; eauto.
  - eapply tickets_step; eauto.
  - eapply started_step; eauto.
  - eapply assert_step; eauto.
Qed.

(* ---- the initial state ---- *)
Definition initpc (c : pc) : bool :=
  match c with PLock _ _ | JLock | RLock _ | MJoin _ | FLock | Done => true | _ => false end.
Definition init_thread (th : thread) : Prop :=
  t_cur th = None /\ ((t_worker th = false /\ initpc (t_pc th) = true) \/ th = new_worker).

Lemma next_client_initpc K tid ops c ops' : next_client K tid ops = (c, ops') -> initpc c = true.
Proof.
  intros H. apply next_client_pc in H.
  destruct H as [(k & j & ->)|[->|[(n & ->)|[(_ & [[-> _]|[-> _]] & _)|(_ & -> & _)]]]]; auto.
Qed.

Lemma mk_clients_init K start progs : Forall init_thread (mk_clients K start progs).
Proof.
  revert start; induction progs as [|ops r IH]; intros start; cbn; auto.
  constructor; auto. destruct (next_client K start ops) as [c ops'] eqn:E. split; cbn; auto.
  left; split; auto. eapply next_client_initpc; eauto.
Qed.

Lemma init_threads progs n q : Forall init_thread (st (init progs n q)).
Proof.
  cbn. apply Forall_app; split; [apply mk_clients_init|]. apply Forall_repeat. split; auto.
Qed.

Lemma mk_clients_length K start progs : length (mk_clients K start progs) = length progs.
Proof. revert start; induction progs; intros; cbn; auto. Qed.

Lemma mk_clients_nth K start progs t th :
  nth_error (mk_clients K start progs) t = Some th ->
  t_worker th = false /\ (mainonly (t_pc th) = true -> start + t = 0).
Proof.
  revert start t; induction progs as [|ops r IH]; intros start t H; destruct t; cbn in H; try discriminate.
  - inversion H; subst. destruct (next_client K start ops) as [c ops'] eqn:E. cbn. split; auto.
    intros Hm. apply next_client_pc in E.
    destruct E as [(k & j & ->)|[->|[(n & ->)|[(? & _)|(_ & -> & _)]]]]; cbn in Hm; try discriminate. lia.
  - apply IH in H. destruct H as [H1 H2]. split; auto. intros Hm. specialize (H2 Hm). lia.
Qed.

Lemma sumf_init_zero (f : thread -> nat) l : Forall init_thread l -> (forall th, init_thread th -> f th = 0) -> sumf f l = 0.
Proof. intros HF Hf. apply sumf_zero. eapply Forall_impl; [|exact HF]. auto. Qed.

Lemma safe_init bodies progs n q fx :
  progs <> [] -> 1 <= n -> Safe (mkcfg fx progs bodies) (init progs n q).
Proof.
  intros Hp Hn. pose proof (init_threads progs n q) as HI.
  assert (HK : 1 <= length progs) by (destruct progs; cbn; [congruence|lia]).
  constructor.
  - unfold RoleOK. eapply Forall_impl; [|exact HI]. intros th (_ & [[Hw Hpc]| ->]); [|reflexivity].
    unfold role_ok. rewrite Hw. destruct (t_pc th); cbn in *; auto; discriminate.
  - unfold MutexOK. cbn [sp init owner]. apply sumf_init_zero; auto.
    intros th (_ & [[Hw Hpc]| ->]); [|reflexivity]. unfold nholds. destruct (t_pc th); cbn in *; auto; discriminate.
  - unfold ShapeOK. cbn -[Nat.ltb]. rewrite app_length, mk_clients_length, repeat_length. repeat split; auto; try lia.
    + intros t th H. destruct (Nat.lt_ge_cases t (length progs)) as [Hlt|Hge].
      * rewrite nth_error_app1 in H by (rewrite mk_clients_length; lia). apply mk_clients_nth in H. destruct H as [-> _].
        symmetry. apply negb_false_iff. now apply Nat.ltb_lt.
      * rewrite nth_error_app2 in H by (rewrite mk_clients_length; lia). apply nth_error_repeat in H. subst. cbn.
        symmetry. apply negb_true_iff. now apply Nat.ltb_ge.
    + intros t th H Hm. destruct (Nat.lt_ge_cases t (length progs)) as [Hlt|Hge].
      * rewrite nth_error_app1 in H by (rewrite mk_clients_length; lia). apply mk_clients_nth in H. destruct H as [_ H]. specialize (H Hm). lia.
      * rewrite nth_error_app2 in H by (rewrite mk_clients_length; lia). apply nth_error_repeat in H. subst. discriminate.
  - unfold RingOK, Ring. cbn -[Nat.modulo]. rewrite repeat_length. repeat split; auto; try lia.
    rewrite Nat.mod_small; lia.
  - unfold CurOK. eapply Forall_impl; [|exact HI]. intros th (Hc & _). unfold cur_ok. now rewrite Hc.
  - unfold BusyOK. cbn [sp init busy]. symmetry. apply sumf_init_zero; auto.
    intros th (_ & [[Hw Hpc]| ->]); [|reflexivity]. unfold nbusy. now rewrite Hw.
  - unfold TicketsOK. intros k. cbn [sg init pending done next]. split; [lia|]. intros _. unfold cnt. cbn.
    rewrite sumf_init_zero; auto. intros th (Hc & _). now apply ncur_None.
  - unfold StartedOK. intros k. cbn [sg init started done]. unfold cnt. cbn.
    rewrite sumf_init_zero; auto. intros th (Hc & _). unfold nrun. rewrite ncur_None by auto. now destruct (posting (t_pc th)).
  - unfold AssertOK. intros t x Hx. pose proof (Forall_nth_error _ _ _ _ HI Hx) as (_ & [[Hw Hpc]| ->]); [|reflexivity].
    unfold assert_ok. destruct (t_pc x); cbn in *; auto; discriminate.
Qed.

Theorem safe_reachable bodies progs n q sched :
  progs <> [] -> 1 <= n ->
  Safe (mkcfg true progs bodies) (run state (step (mkcfg true progs bodies)) sched (init progs n q)).
Proof.
  intros Hp Hn. apply run_invariant.
  - intros s t w s' Hs H. eapply safe_step; eauto.
  - now apply safe_init.
Qed.

(* the same for the code before the F5 repair (signal instead of broadcast): safety does not depend on it *)
Theorem safe_reachable_any fx bodies progs n q sched :
  progs <> [] -> 1 <= n ->
  Safe (mkcfg fx progs bodies) (run state (step (mkcfg fx progs bodies)) sched (init progs n q)).
Proof.
  intros Hp Hn. apply run_invariant.
  - intros s t w s' Hs H. eapply safe_step; eauto.
  - now apply safe_init.
Qed.
