(* Layer 8: no lost wake-up on queuePopCond (work conservation):
   min(pending jobs, free thread slots) workers are awake and about to look at the queue,
   or a signal / the resize broadcast that wakes them is about to be delivered. *)
From Coq Require Import List Arith Bool Lia ZArith.
Import ListNotations.
From ZV.Conc Require Import Sched PoolModel PoolLemmas PoolInvDefs PoolInv1 PoolInv2 PoolInv3 PoolInv4 PoolInv5 PoolInv6 PoolInv7.

Definition PopWake (s : state) :=
  shutdown (sp s) = false ->
  1 <= sumf nrb (st s) \/
  Nat.min (length (pending (sg s))) (limit (sp s) - busy (sp s)) <= sumf nanb (st s) + sumf npsig (st s).

(* exact census of the workers *)
Lemma census_eq th : role_ok th = true -> nbusy th + nanb th + naslp th + nwwait th + nexit th = nworker th.
Proof. unfold role_ok, nbusy, nexit, nanb, naslp, nwwait, nworker, asleep_pop. destruct (t_worker th); destruct (t_pc th); cbn; try discriminate; lia. Qed.
Lemma census_sum_eq ths : Forall (fun th => role_ok th = true) ths ->
  sumf nbusy ths + sumf nanb ths + sumf naslp ths + sumf nwwait ths + sumf nexit ths = sumf nworker ths.
Proof. induction 1 as [|th l H _ IH]; cbn; [lia|]. pose proof (census_eq th H). lia. Qed.

(* a thread that is inside the critical section excludes a worker standing at cond_wait (it holds the mutex too) *)
Lemma no_wwait s tid th : MutexOK s -> nth_error (st s) tid = Some th -> holds (t_pc th) = true -> t_pc th <> WWait -> sumf nwwait (st s) = 0.
Proof.
  unfold MutexOK. intros HM Hth Hh Hne.
  assert (Hle : forall x, nwwait x <= nholds x). { intros x. unfold nwwait, nholds. destruct (t_pc x); cbn; lia. }
  pose proof (sumf_upd nholds tid (mkT Done [] None [] false) (st s) th Hth) as H1.
  pose proof (sumf_upd nwwait tid (mkT Done [] None [] false) (st s) th Hth) as H2.
  pose proof (sumf_le nwwait nholds (upd tid (mkT Done [] None [] false) (st s)) Hle) as H3.
  assert (nholds th = 1) by (unfold nholds; rewrite Hh; reflexivity).
  assert (nwwait th = 0) by (unfold nwwait; destruct (t_pc th); auto; congruence).
  cbn in H1, H2. destruct (owner (sp s)); lia.
Qed.

Lemma nanb_wake_pop th : nanb (wake_pop th) = nanb th + naslp th.
Proof. unfold nanb, naslp, asleep_pop, wake_pop. destruct (t_pc th) eqn:E; cbn; rewrite ?E; auto. Qed.
Lemma npsig_wake_push th : npsig (wake_push th) = npsig th.
Proof. unfold npsig, wake_push. destruct (t_pc th) eqn:E; cbn; rewrite ?E; auto. Qed.
Lemma npsig_wake_pop th : npsig (wake_pop th) = npsig th.
Proof. unfold npsig, wake_pop. destruct (t_pc th) eqn:E; cbn; rewrite ?E; auto. Qed.
Lemma nrb_wake_push th : nrb (wake_push th) = nrb th.
Proof. unfold nrb, wake_push. destruct (t_pc th) eqn:E; cbn; rewrite ?E; auto. Qed.
Lemma nrb_wake_pop th : nrb (wake_pop th) = nrb th.
Proof. unfold nrb, wake_pop. destruct (t_pc th) eqn:E; cbn; rewrite ?E; auto. Qed.

Lemma sumf_nanb_broadcast_pop ths : sumf nanb (broadcast wake_pop ths) = sumf nanb ths + sumf naslp ths.
Proof. unfold broadcast. rewrite sumf_map, <- sumf_plus. apply sumf_ext. intros; apply nanb_wake_pop. Qed.

(* signal on queuePopCond: nobody sleeps, or one sleeper becomes a worker that will look at the queue *)
Lemma sumf_nanb_signal w ths :
  (sumf naslp ths = 0 /\ sumf nanb (signal asleep_pop wake_pop w ths) = sumf nanb ths) \/
  (sumf nanb (signal asleep_pop wake_pop w ths) = S (sumf nanb ths)).
Proof.
  destruct (signal_cases asleep_pop wake_pop w ths) as [[Hz ->]|(i & th & Hi & Hs & ->)].
  - left. split; auto. apply sumf_zero. eapply Forall_impl; [|exact Hz]. intros a Ha. unfold naslp. now rewrite Ha.
  - right. pose proof (sumf_upd nanb i (wake_pop th) ths th Hi) as H. rewrite nanb_wake_pop in H.
    assert (naslp th = 1) by (unfold naslp; now rewrite Hs).
    assert (nanb th = 0). { unfold nanb. unfold asleep_pop in Hs. destruct (t_pc th); try discriminate; auto. }
    lia.
Qed.

Lemma finish_popwake cfg tid th g th' g' : finish_op cfg tid th g = (th', g') ->
  nanb th' = 0 /\ npsig th' = 0 /\ nrb th' = 0 /\ length (pending g') = length (pending g).
Proof.
  intros H. destruct (finish_pending _ _ _ _ _ _ H) as [Hp _]. rewrite Hp. apply finish_op_cases in H.
  destruct H as [(Hw & k & j & r & _ & -> & _)|[(Hw & _ & -> & _)|(Hw & c & ops' & Hn & -> & _)]]; cbn; auto.
  apply next_client_pc in Hn. unfold nanb, npsig, nrb; cbn.
  destruct Hn as [(k & j & ->)|[->|[(n & ->)|[(_ & [[-> _]|[-> _]] & _)|(_ & -> & _)]]]]; auto.
Qed.

Lemma popwake_step cfg tid w s s' :
  RoleOK s -> MutexOK s -> ShapeOK cfg s -> RingOK s -> BusyOK s -> WorkersOK s -> ExitOK s -> PopWake s ->
  step cfg tid w s = Some s' -> PopWake s'.
Proof.
  unfold PopWake. intros HR HM (_ & _ & Hlim & _) HRing HB HW HE HP H Hsd'.
  pose proof (census_sum_eq _ HR) as Hcen. unfold BusyOK in HB. unfold WorkersOK in HW. unfold ExitOK in HE.
  step_inv H; cbn [sp sg st shutdown set_owner set_shutdown set_busy set_limit set_cap_limit enqueue pop] in Hsd'; try discriminate Hsd';
    try (exfalso; congruence);
    try (specialize (HP Hsd')); role_th HR Hth;
    try match goal with Hf : finish_op _ _ _ _ = _ |- _ => destruct (finish_popwake _ _ _ _ _ _ Hf) as (Hf1 & Hf2 & Hf3 & Hf4) end.
  all: cbn [sp sg st pending limit busy set_owner set_shutdown set_busy set_limit set_cap_limit enqueue pop g_push g_pop g_drop g_refuse g_start g_done].
  (* cases without a wake-up on queuePopCond *)
  all: try (sum_upd nrb nrb_wake_push nrb_wake_pop; sum_upd npsig npsig_wake_push npsig_wake_pop; sum_upd nanb nanb_wake_push nanb_wake_push;
            rewrite ?app_length in *; cbn [length] in *;
            unfold nrb, npsig, nanb in *; cbn in *; rewrite ?Epc in *; cbn in *; lia).
  - (* add_internal delivers its signal *)
    assert (HWW : sumf nwwait (st s) = 0) by (eapply no_wwait; eauto; rewrite Epc; [reflexivity|discriminate]).
    assert (HX : sumf nexit (st s) = 0). { destruct (sumf nexit (st s)); auto. specialize (HE ltac:(lia)). congruence. }
    sum_upd nrb nrb_wake_push nrb_wake_pop; sum_upd npsig npsig_wake_push npsig_wake_pop.
    pose proof (sumf_upd nanb tid (set_pc PUnlock th) _ th (nth_error_signal asleep_pop wake_pop w (st s) tid th Hth ltac:(not_asleep Epc))) as Ha.
    destruct (sumf_nanb_signal w (st s)) as [[Hz Hsame]|Hmore]; unfold nrb, npsig, nanb in *; cbn in *; rewrite ?Epc in *; cbn in *; lia.
  - (* POOL_resize delivers its broadcast *)
    assert (HWW : sumf nwwait (st s) = 0) by (eapply no_wwait; eauto; rewrite Epc; [reflexivity|discriminate]).
    assert (HX : sumf nexit (st s) = 0). { destruct (sumf nexit (st s)); auto. specialize (HE ltac:(lia)). congruence. }
    sum_upd npsig npsig_wake_push npsig_wake_pop.
    pose proof (sumf_upd nanb tid (set_pc RBcastPush th) _ th (nth_error_broadcast_pop (st s) tid th Hth ltac:(not_asleep Epc))) as Ha.
    rewrite sumf_nanb_broadcast_pop in Ha. right. unfold nrb, npsig, nanb in *; cbn in *; rewrite ?Epc in *; cbn in *; lia.
  - (* POOL_join's broadcast (only reachable with shutdown set; treated uniformly) *)
    sum_upd nrb nrb_wake_push nrb_wake_pop; sum_upd npsig npsig_wake_push npsig_wake_pop.
    pose proof (sumf_upd nanb tid (set_pc (FJoin 0) th) _ th (nth_error_broadcast_pop (st s) tid th Hth ltac:(not_asleep Epc))) as Ha.
    rewrite sumf_nanb_broadcast_pop in Ha. unfold nrb, npsig, nanb in *; cbn in *; rewrite ?Epc in *; cbn in *; lia.
  - (* a worker decides to sleep: nothing to take, or no free slot *)
    sum_upd nrb nrb_wake_push nrb_wake_pop; sum_upd npsig npsig_wake_push npsig_wake_pop; sum_upd nanb nanb_wake_push nanb_wake_push.
    destruct HRing as (_ & _ & _ & _ & He & _).
    apply orb_prop in E0. destruct E0 as [Eq|El].
    + rewrite Eq in He. symmetry in He. apply Nat.eqb_eq in He. rewrite He. cbn. right. lia.
    + apply Nat.leb_le in El. right. lia.
  - (* pop *)
    sum_upd nrb nrb_wake_push nrb_wake_pop; sum_upd npsig npsig_wake_push npsig_wake_pop; sum_upd nanb nanb_wake_push nanb_wake_push.
    apply orb_false_iff in E0. destruct E0 as [Eq El]. apply Nat.leb_gt in El.
    destruct HRing as (_ & _ & _ & _ & He & _). rewrite Eq in He. destruct (pending (sg s)) as [|e r]; [discriminate|].
    cbn [tl length] in *. set (n := length r) in *.
    unfold nrb, npsig, nanb in *; cbn -[Nat.min Nat.sub] in *; rewrite ?Epc in *; cbn -[Nat.min Nat.sub] in *. lia.
Qed.
