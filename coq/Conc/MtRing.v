(* C11: the job-ring / ownership invariant of the zstdmt model (MtModel.v), preserved by every step of every thread. *)
From Coq Require Import List NArith ZArith Bool Arith Lia.
Import ListNotations.
From ZV.Conc Require Import Sched SchedLemmas MtModel MtProofs.
Local Open Scope N_scope.
Ltac Zify.zify_post_hook ::= Z.div_mod_to_equations.

(* ------------------------------------------------------------------ *)
(* ring arithmetic                                                      *)

Definition Mr (cfg : config) : N := 2 ^ c_rlog cfg.

Lemma Mr_pos cfg : 0 < Mr cfg.
Proof. unfold Mr. apply N.neq_0_lt_0. apply N.pow_nonzero. discriminate. Qed.

Lemma mask_Mr cfg : mask cfg + 1 = Mr cfg.
Proof. unfold mask, Mr. rewrite N.ones_equiv. pose proof (Mr_pos cfg). unfold Mr in H. lia. Qed.

Lemma slot_mod cfg i : slot cfg i = N.to_nat (i mod Mr cfg).
Proof. unfold slot, mask, Mr. rewrite N.land_ones. reflexivity. Qed.

Lemma slot_lt cfg i : (slot cfg i < N.to_nat (Mr cfg))%nat.
Proof. rewrite slot_mod. pose proof (Mr_pos cfg). pose proof (N.mod_lt i (Mr cfg)). lia. Qed.

Lemma slot_inj cfg a b : a <= b -> b < a + Mr cfg -> slot cfg a = slot cfg b -> a = b.
Proof.
  rewrite !slot_mod. intros H1 H2 H3. pose proof (Mr_pos cfg).
  assert (E : a mod Mr cfg = b mod Mr cfg) by lia.
  pose proof (N.div_mod a (Mr cfg)). pose proof (N.div_mod b (Mr cfg)).
  pose proof (N.mod_lt a (Mr cfg)). pose proof (N.mod_lt b (Mr cfg)).
  assert (a / Mr cfg = b / Mr cfg) by nia. nia.
Qed.

Lemma slot_neq cfg a b : a < b -> b < a + Mr cfg -> slot cfg a <> slot cfg b.
Proof. intros H1 H2 H3. apply slot_inj in H3; lia. Qed.

(* ------------------------------------------------------------------ *)
(* definitions                                                          *)

Definition active (p : wpc) : bool := match p with WIdle | WAsleep | WFinish => false | _ => true end.

(* the job a pool thread is working on (or that sits in the queue) cannot be taken for completed by the caller *)
Definition Act (cfg : config) (p : wpc) (j : job) : Prop :=
  j_done j = false /\
  (j_consumed j < j_size j \/ (j_size j = 0 /\ j_csize j = 0 /\ j_ckneed j = false)) /\
  match p with WChunk c => 1 <= c /\ c < nb_chunks cfg (j_size j) | _ => True end.

(* a slot that holds no job in flight: its last job ended without error, was consumed and flushed completely (cSize reset), the
   checksum was appended, the output buffer went back to the pool -- or the slot was never used / was cleared (job0) *)
Definition Stale (j : job) : Prop :=
  j_err j = false /\ j_csize j = 0 /\ j_ckneed j = false /\ j_consumed j = j_size j /\ j_dst j = false.

Definition inflight (s : state) (i : N) : Prop := done (mt s) <= i /\ i < next (mt s).

Definition owned (s : state) (k : nat) : Prop :=
  q (pl s) = Some k \/ exists t w, nth_error (ws s) t = Some w /\ active (w_pc w) = true /\ w_slot w = k.

Definition awake (p : cpc) : cpc :=
  match p with CFlushZ => CFlush | CWaitZ i => CWait i | CLdm1Z => CLdm1 | CLdm2Z => CLdm2 | p => p end.
Lemma awake_idem p : awake (awake p) = awake p. Proof. destruct p; reflexivity. Qed.

Definition relphase (p : cpc) : bool := match p with CWait _ | CWaitZ _ | CRelAll _ _ => true | _ => false end.
Definition prepared (s : state) : Prop :=
  ready (mt s) = true \/ awake (c_pc (cl s)) = CTryAdd \/ awake (c_pc (cl s)) = CGetBuf.

(* slot(next) holds a job prepared by ZSTDMT_createCompressionJob and not yet posted; the ring is not full *)
Definition PrepSlot0 (cfg : config) (s : state) : Prop :=
  let j := getj s (slot cfg (next (mt s))) in
  next (mt s) < done (mt s) + Mr cfg /\ j_id j = next (mt s) /\ j_consumed j = 0 /\ j_csize j = 0 /\ j_err j = false.
(* ... and it is a job for a pool thread (an empty one is the first job of its frame: no checksum to append) *)
Definition PrepSlot (cfg : config) (s : state) : Prop :=
  let j := getj s (slot cfg (next (mt s))) in
  PrepSlot0 cfg s /\ (j_size j = 0 -> j_ckneed j = false) /\ j_done j = false /\ (j_last j = true -> ended (mt s) = true).

Definition PcInv (cfg : config) (s : state) : Prop :=
  let m := mt s in let p := awake (c_pc (cl s)) in
  (p = CTryAdd -> PrepSlot cfg s) /\
  (p = CGetBuf -> PrepSlot0 cfg s /\ j_done (getj s (slot cfg (next m))) = true /\ ready m = false /\
                  j_size (getj s (slot cfg (next m))) = 0 /\ j_last (getj s (slot cfg (next m))) = true /\ ended m = true) /\
  (relphase p = false ->
     (forall k, (k < N.to_nat (Mr cfg))%nat -> (forall i, inflight s i -> slot cfg i <> k) ->
                Stale (getj s k) \/ (k = slot cfg (next m) /\ prepared s)) /\
     (ready m = true -> alldone m = false -> PrepSlot cfg s)) /\
  (match p with CRelAll _ _ | CInitBuf | CInitSeq => done m = next m | CWait _ | CWaitZ _ | CRelBuf => done m < next m | _ => True end) /\
  (p = CRelBuf -> let j := getj s (slot cfg (done m)) in
                  j_err j = false /\ j_consumed j = j_size j /\ 0 < j_csize j /\ j_ckneed j = false /\ j_done j = true) /\
  (alldone m = true -> done m = next m /\ forall k, (k < N.to_nat (Mr cfg))%nat -> Stale (getj s k)) /\
  (match p with CRelAll _ k => forall k', (k' < k)%nat -> getj s k' = job0 | CInitSeq => done m = 0 | _ => True end).

Record KInv (cfg : config) (s : state) : Prop := mkK {
  k_len : length (jobs s) = N.to_nat (Mr cfg);
  k_rng : done (mt s) <= next (mt s) /\ next (mt s) <= done (mt s) + Mr cfg;
  k_ids : forall i, inflight s i -> j_id (getj s (slot cfg i)) = i;
  k_wrk : forall t w, nth_error (ws s) t = Some w -> active (w_pc w) = true ->
            exists i, inflight s i /\ w_slot w = slot cfg i /\ Act cfg (w_pc w) (getj s (w_slot w));
  k_que : forall k, q (pl s) = Some k -> exists i, inflight s i /\ k = slot cfg i /\ Act cfg WGetCCtx (getj s k);
  k_uniq : forall t1 t2 w1 w2, nth_error (ws s) t1 = Some w1 -> nth_error (ws s) t2 = Some w2 ->
            active (w_pc w1) = true -> active (w_pc w2) = true -> w_slot w1 = w_slot w2 -> t1 = t2;
  k_uq : forall t w k, nth_error (ws s) t = Some w -> active (w_pc w) = true -> q (pl s) = Some k -> w_slot w <> k;
  k_own : forall i, inflight s i -> j_done (getj s (slot cfg i)) = false -> owned s (slot cfg i);
  k_pc : PcInv cfg s }.

(* ------------------------------------------------------------------ *)
(* transformations that preserve the invariant                          *)

Lemma upd_same {A} (l : list A) k d : (k < length l)%nat -> upd k (nth k l d) l = l.
Proof. revert k; induction l; destruct k; cbn; intros; try lia; auto. f_equal. apply IHl. lia. Qed.

Lemma getj_set_job_eq s k j : (k < length (jobs s))%nat -> getj (set_job k j s) k = j.
Proof. intros. unfold getj, set_job, set_jobs; cbn. apply nth_upd_eq; auto. Qed.
Lemma getj_set_job_neq s k k' j : k <> k' -> getj (set_job k j s) k' = getj s k'.
Proof. intros. unfold getj, set_job, set_jobs; cbn. apply nth_upd_neq; auto. Qed.

(* the invariant reads only these components *)
Lemma kinv_ext cfg s s' :
  mt s' = mt s -> jobs s' = jobs s -> ws s' = ws s -> q (pl s') = q (pl s) -> awake (c_pc (cl s')) = awake (c_pc (cl s)) ->
  KInv cfg s -> KInv cfg s'.
Proof.
  intros Hm Hj Hw Hq Hp [H1 H2 H3 H4 H5 H6 H7 H8 H9].
  constructor; unfold inflight, owned, getj, PcInv, PrepSlot, PrepSlot0, prepared, inflight, getj in *; rewrite ?Hm, ?Hj, ?Hw, ?Hq, ?Hp; auto.
Qed.

Lemma kinv_set_sr cfg x s : KInv cfg s -> KInv cfg (set_sr x s).
Proof. apply kinv_ext; reflexivity. Qed.
Lemma kinv_set_gh cfg x s : KInv cfg s -> KInv cfg (set_gh x s).
Proof. apply kinv_ext; reflexivity. Qed.
Lemma kinv_set_pl cfg x s : q x = q (pl s) -> KInv cfg s -> KInv cfg (set_pl x s).
Proof. intros E. apply kinv_ext; auto. Qed.
Lemma kinv_wake_ldm cfg s : KInv cfg s -> KInv cfg (wake_caller_ldm s).
Proof.
  apply kinv_ext; try apply wake_ldm_proj.
  - unfold wake_caller_ldm; destruct (c_pc (cl s)) eqn:E; cbn; rewrite ?E; reflexivity.
  - unfold wake_caller_ldm; destruct (c_pc (cl s)) eqn:E; cbn; rewrite ?E; reflexivity.
Qed.
Lemma kinv_wake_job cfg k s : KInv cfg s -> KInv cfg (wake_caller_job cfg k s).
Proof.
  apply kinv_ext; try apply wake_job_proj.
  - unfold wake_caller_job; destruct (c_pc (cl s)) eqn:E; try (cbn; rewrite ?E; reflexivity); destruct (Nat.eqb _ _); cbn; rewrite ?E; reflexivity.
  - unfold wake_caller_job; destruct (c_pc (cl s)) eqn:E; try (cbn; rewrite ?E; reflexivity); destruct (Nat.eqb _ _); cbn; rewrite ?E; reflexivity.
Qed.

(* ------------------------------------------------------------------ *)
(* worker-side transformations                                          *)

Ltac upd_cases H :=
  let Hn := fresh "Hn" in let Hl := fresh "Hl" in
  apply nth_error_upd_inv in H; destruct H as [(-> & -> & Hl)|(Hn & H)].

Lemma kinv_inflight_slot cfg s : KInv cfg s -> forall i, inflight s i -> (slot cfg i < length (jobs s))%nat.
Proof. intros K i _. rewrite (k_len _ _ K). apply slot_lt. Qed.

Lemma inflight_slot_inj cfg s i i' : KInv cfg s -> inflight s i -> inflight s i' -> slot cfg i = slot cfg i' -> i = i'.
Proof.
  intros K (A1 & A2) (B1 & B2) E. destruct (k_rng _ _ K) as (R1 & R2).
  destruct (N.le_ge_cases i i').
  - apply (slot_inj cfg); auto; lia.
  - symmetry. apply (slot_inj cfg); auto; lia.
Qed.

(* an in-flight slot differs from slot(next) when the ring is not full *)
Lemma inflight_not_next cfg s i : next (mt s) < done (mt s) + Mr cfg -> inflight s i -> slot cfg i <> slot cfg (next (mt s)).
Proof. intros H (A1 & A2). apply slot_neq; lia. Qed.

(* PcInv only reads the jobs outside slot k when slot k is in flight and its job is owned (not done) *)
Lemma pcinv_job_upd cfg s k jb' i :
  KInv cfg s -> inflight s i -> k = slot cfg i -> j_done (getj s k) = false ->
  PcInv cfg (set_job k jb' s).
Proof.
  intros K Hi -> Hd. pose proof (k_pc _ _ K) as P. pose proof (k_len _ _ K) as Hlen.
  unfold PcInv in *. cbn [mt cl set_job set_jobs c_pc] in *.
  destruct P as (A & B & C & D & E & F & G).
  assert (Hsl : forall i', ~ inflight s i' -> next (mt s) < done (mt s) + Mr cfg \/ True -> True) by auto.
  assert (Hnx : next (mt s) < done (mt s) + Mr cfg -> getj (set_job (slot cfg i) jb' s) (slot cfg (next (mt s))) = getj s (slot cfg (next (mt s)))).
  { intros Hlt. apply getj_set_job_neq. apply inflight_not_next; auto. }
  assert (Hps0 : PrepSlot0 cfg s -> PrepSlot0 cfg (set_job (slot cfg i) jb' s)).
  { intros P0. pose proof P0 as (P1 & _). unfold PrepSlot0 in *. cbn [mt set_job set_jobs]. cbn zeta in *. rewrite Hnx by auto. exact P0. }
  assert (Hps : PrepSlot cfg s -> PrepSlot cfg (set_job (slot cfg i) jb' s)).
  { intros (P0 & P2). pose proof P0 as (P1 & _). unfold PrepSlot. cbn [mt set_job set_jobs]. cbn zeta in *. rewrite Hnx by auto. split; auto. }
  refine (conj _ (conj _ (conj (fun Hrel => conj _ _) (conj _ (conj _ (conj _ _)))))).
  - intros Hp. apply Hps, A, Hp.
  - intros Hp. destruct (B Hp) as (B0 & B1 & B2). pose proof B0 as (P1 & _). split; [apply Hps0, B0|]. rewrite Hnx by auto. auto.
  - intros k Hk Hnin. destruct (C Hrel) as (C1 & _).
    assert (k <> slot cfg i) by (intro; subst; eapply Hnin; eauto).
    rewrite getj_set_job_neq by auto.
    destruct (C1 k Hk) as [?|(? & ?)]; auto.
  - intros Hr Ha. destruct (C Hrel) as (_ & C2). apply Hps, C2; auto.
  - exact D.
  - intros Hp. specialize (E Hp). cbn zeta in E. cbn zeta.
    destruct (Nat.eq_dec (slot cfg i) (slot cfg (done (mt s)))) as [Es|Es].
    + rewrite Es in Hd. destruct E as (_ & _ & _ & _ & E5). congruence.
    + rewrite getj_set_job_neq by auto. exact E.
  - intros Hal. destruct (F Hal) as (F1 & _). destruct Hi. lia.
  - destruct (awake (c_pc (cl s))) eqn:Ep; auto. intros k' Hk'. destruct Hi. lia.
Qed.

Lemma owned_transfer s s' k :
  q (pl s') = q (pl s) ->
  (forall t w, nth_error (ws s) t = Some w -> active (w_pc w) = true -> w_slot w = k ->
     exists w', nth_error (ws s') t = Some w' /\ active (w_pc w') = true /\ w_slot w' = k) ->
  owned s k -> owned s' k.
Proof.
  intros Hq Hw [Ho|(t & w & H1 & H2 & H3)]; [left; congruence|].
  destruct (Hw t w H1 H2 H3) as (w' & A & B & C). right. exists t, w'. auto.
Qed.

(* a pool thread goes on working on its job: its pc moves between active pcs, its job description may change *)
Lemma kinv_act cfg s t w w' jb' :
  KInv cfg s ->
  nth_error (ws s) t = Some w -> active (w_pc w) = true -> active (w_pc w') = true -> w_slot w' = w_slot w ->
  j_id jb' = j_id (getj s (w_slot w)) -> Act cfg (w_pc w') jb' ->
  KInv cfg (set_w t w' (set_job (w_slot w) jb' s)).
Proof.
  intros K Hw Ha Ha' Hs Hid Hact.
  destruct (k_wrk _ _ K t w Hw Ha) as (i & Hi & Hk & Hact0).
  pose proof (k_len _ _ K) as Hlen.
  assert (Hkl : (w_slot w < length (jobs s))%nat) by (rewrite Hk, Hlen; apply slot_lt).
  assert (Htl : (t < length (ws s))%nat) by (apply nth_error_Some; congruence).
  assert (Hd0 : j_done (getj s (w_slot w)) = false) by apply Hact0.
  constructor; cbn [mt jobs ws pl cl set_w set_ws set_job set_jobs].
  - rewrite upd_length. exact Hlen.
  - exact (k_rng _ _ K).
  - intros i' Hi'. unfold getj; cbn [jobs ws set_w set_ws set_job set_jobs].
    destruct (Nat.eq_dec (w_slot w) (slot cfg i')) as [E|E].
    + rewrite <- E, nth_upd_eq by auto. rewrite Hid.
      assert (i = i') by (eapply inflight_slot_inj; eauto; congruence). subst i'. rewrite Hk. apply (k_ids _ _ K); auto.
    + rewrite nth_upd_neq by auto. apply (k_ids _ _ K); auto.
  - intros t1 w1 H1 A1. upd_cases H1.
    + exists i. split; [exact Hi|]. split; [congruence|]. rewrite Hs. unfold getj; cbn [jobs ws set_w set_ws set_job set_jobs]. rewrite nth_upd_eq by auto. exact Hact.
    + destruct (k_wrk _ _ K t1 w1 H1 A1) as (i1 & Hi1 & Hk1 & Hact1). exists i1. split; auto. split; auto.
      assert (w_slot w1 <> w_slot w) by (intro E; apply Hn; eapply (k_uniq _ _ K); eauto).
      unfold getj; cbn [jobs ws set_w set_ws set_job set_jobs]. rewrite nth_upd_neq by auto. exact Hact1.
  - intros k Hq. destruct (k_que _ _ K k Hq) as (i1 & Hi1 & Hk1 & Hact1). exists i1. split; auto. split; auto.
    assert (w_slot w <> k) by (eapply (k_uq _ _ K); eauto).
    unfold getj; cbn [jobs ws set_w set_ws set_job set_jobs]. rewrite nth_upd_neq by auto. exact Hact1.
  - intros t1 t2 w1 w2 H1 H2 A1 A2 E. upd_cases H1; upd_cases H2; auto.
    + exfalso. apply Hn. symmetry. eapply (k_uniq _ _ K); eauto. congruence.
    + exfalso. apply Hn. eapply (k_uniq _ _ K); eauto. congruence.
    + eapply (k_uniq _ _ K); eauto.
  - intros t1 w1 k H1 A1 Hq. upd_cases H1.
    + rewrite Hs. eapply (k_uq _ _ K); eauto.
    + eapply (k_uq _ _ K); eauto.
  - intros i' Hi' Hd'. unfold getj in Hd'; cbn [jobs ws set_w set_ws set_job set_jobs] in Hd'.
    destruct (Nat.eq_dec (w_slot w) (slot cfg i')) as [E|E].
    + right. exists t, w'. cbn [ws pl set_w set_ws set_job set_jobs]. rewrite nth_error_upd_eq by auto. split; auto. split; auto. congruence.
    + rewrite nth_upd_neq in Hd' by auto.
      eapply (owned_transfer s); [reflexivity| |apply (k_own _ _ K); auto].
      intros t1 w1 H1 A1 E1. cbn [ws set_w set_ws set_job set_jobs].
      destruct (Nat.eq_dec t1 t) as [->|Hne].
      * exfalso. apply E. rewrite <- E1. congruence.
      * exists w1. rewrite nth_error_upd_neq by auto. auto.
  - assert (P : PcInv cfg (set_job (w_slot w) jb' s)) by (eapply pcinv_job_upd; eauto).
    exact P.
Qed.

(* the final report: the job is completed, the pool thread leaves it *)
Lemma kinv_rep cfg s t w w' jb' :
  KInv cfg s ->
  nth_error (ws s) t = Some w -> active (w_pc w) = true -> active (w_pc w') = false ->
  j_id jb' = j_id (getj s (w_slot w)) -> j_done jb' = true ->
  KInv cfg (set_w t w' (set_job (w_slot w) jb' s)).
Proof.
  intros K Hw Ha Ha' Hid Hdn.
  destruct (k_wrk _ _ K t w Hw Ha) as (i & Hi & Hk & Hact0).
  pose proof (k_len _ _ K) as Hlen.
  assert (Hkl : (w_slot w < length (jobs s))%nat) by (rewrite Hk, Hlen; apply slot_lt).
  assert (Htl : (t < length (ws s))%nat) by (apply nth_error_Some; congruence).
  assert (Hd0 : j_done (getj s (w_slot w)) = false) by apply Hact0.
  constructor; cbn [mt jobs ws pl cl set_w set_ws set_job set_jobs].
  - rewrite upd_length. exact Hlen.
  - exact (k_rng _ _ K).
  - intros i' Hi'. unfold getj; cbn [jobs ws set_w set_ws set_job set_jobs].
    destruct (Nat.eq_dec (w_slot w) (slot cfg i')) as [E|E].
    + rewrite <- E, nth_upd_eq by auto. rewrite Hid.
      assert (i = i') by (eapply inflight_slot_inj; eauto; congruence). subst i'. rewrite Hk. apply (k_ids _ _ K); auto.
    + rewrite nth_upd_neq by auto. apply (k_ids _ _ K); auto.
  - intros t1 w1 H1 A1. upd_cases H1; [congruence|].
    destruct (k_wrk _ _ K t1 w1 H1 A1) as (i1 & Hi1 & Hk1 & Hact1). exists i1. split; auto. split; auto.
    assert (w_slot w1 <> w_slot w) by (intro E; apply Hn; eapply (k_uniq _ _ K); eauto).
    unfold getj; cbn [jobs ws set_w set_ws set_job set_jobs]. rewrite nth_upd_neq by auto. exact Hact1.
  - intros k Hq. destruct (k_que _ _ K k Hq) as (i1 & Hi1 & Hk1 & Hact1). exists i1. split; auto. split; auto.
    assert (w_slot w <> k) by (eapply (k_uq _ _ K); eauto).
    unfold getj; cbn [jobs ws set_w set_ws set_job set_jobs]. rewrite nth_upd_neq by auto. exact Hact1.
  - intros t1 t2 w1 w2 H1 H2 A1 A2 E. upd_cases H1; upd_cases H2; auto; try congruence.
    eapply (k_uniq _ _ K); eauto.
  - intros t1 w1 k H1 A1 Hq. upd_cases H1; [congruence|]. eapply (k_uq _ _ K); eauto.
  - intros i' Hi' Hd'. unfold getj in Hd'; cbn [jobs ws set_w set_ws set_job set_jobs] in Hd'.
    destruct (Nat.eq_dec (w_slot w) (slot cfg i')) as [E|E].
    + rewrite <- E, nth_upd_eq in Hd' by auto. congruence.
    + rewrite nth_upd_neq in Hd' by auto.
      eapply (owned_transfer s); [reflexivity| |apply (k_own _ _ K); auto].
      intros t1 w1 H1 A1 E1. cbn [ws set_w set_ws set_job set_jobs].
      destruct (Nat.eq_dec t1 t) as [->|Hne].
      * exfalso. apply E. rewrite <- E1. congruence.
      * exists w1. rewrite nth_error_upd_neq by auto. auto.
  - assert (P : PcInv cfg (set_job (w_slot w) jb' s)) by (eapply pcinv_job_upd; eauto).
    exact P.
Qed.

(* a pool thread that is not working on a job moves between idle pcs *)
Lemma kinv_inact cfg s t w w' :
  KInv cfg s -> nth_error (ws s) t = Some w -> active (w_pc w) = false -> active (w_pc w') = false ->
  KInv cfg (set_w t w' s).
Proof.
  intros K Hw Ha Ha'.
  assert (Htl : (t < length (ws s))%nat) by (apply nth_error_Some; congruence).
  constructor; cbn [mt jobs ws pl cl set_w set_ws].
  - exact (k_len _ _ K).
  - exact (k_rng _ _ K).
  - exact (k_ids _ _ K).
  - intros t1 w1 H1 A1. upd_cases H1; [congruence|]. apply (k_wrk _ _ K t1 w1 H1 A1).
  - exact (k_que _ _ K).
  - intros t1 t2 w1 w2 H1 H2 A1 A2 E. upd_cases H1; upd_cases H2; auto; try congruence. eapply (k_uniq _ _ K); eauto.
  - intros t1 w1 k H1 A1 Hq. upd_cases H1; [congruence|]. eapply (k_uq _ _ K); eauto.
  - intros i' Hi' Hd'. eapply (owned_transfer s); [reflexivity| |apply (k_own _ _ K); auto].
    intros t1 w1 H1 A1 E1. cbn [ws set_w set_ws]. destruct (Nat.eq_dec t1 t) as [->|Hne]; [congruence|].
    exists w1. rewrite nth_error_upd_neq by auto. auto.
  - exact (k_pc _ _ K).
Qed.

(* POOL_thread takes the queued job *)
Lemma kinv_pop cfg s t w w' k p' :
  KInv cfg s -> nth_error (ws s) t = Some w -> active (w_pc w) = false ->
  q (pl s) = Some k -> w_pc w' = WGetCCtx -> w_slot w' = k -> q p' = None ->
  KInv cfg (set_w t w' (set_pl p' s)).
Proof.
  intros K Hw Ha Hq Hpc Hsl Hq'.
  assert (Htl : (t < length (ws s))%nat) by (apply nth_error_Some; congruence).
  destruct (k_que _ _ K k Hq) as (i & Hi & Hk & Hact).
  constructor; cbn [mt jobs ws pl cl set_w set_ws set_pl].
  - exact (k_len _ _ K).
  - exact (k_rng _ _ K).
  - exact (k_ids _ _ K).
  - intros t1 w1 H1 A1. upd_cases H1.
    + exists i. rewrite Hsl, Hpc. auto.
    + apply (k_wrk _ _ K t1 w1 H1 A1).
  - rewrite Hq'. discriminate.
  - intros t1 t2 w1 w2 H1 H2 A1 A2 E. upd_cases H1; upd_cases H2; auto.
    + exfalso. eapply (k_uq _ _ K t2 w2 k); eauto. congruence.
    + exfalso. eapply (k_uq _ _ K t1 w1 k); eauto. congruence.
    + eapply (k_uniq _ _ K); eauto.
  - rewrite Hq'. discriminate.
  - intros i' Hi' Hd'. destruct (k_own _ _ K i' Hi' Hd') as [Ho|(t1 & w1 & H1 & A1 & E1)].
    + right. exists t, w'. cbn [ws pl set_w set_ws set_pl]. rewrite nth_error_upd_eq by auto. rewrite Hpc. split; auto. split; auto. congruence.
    + right. exists t1, w1. cbn [ws pl set_w set_ws set_pl]. destruct (Nat.eq_dec t1 t) as [->|Hne]; [congruence|].
      rewrite nth_error_upd_neq by auto. auto.
  - exact (k_pc _ _ K).
Qed.

Lemma wake_serial_nth l t w : nth_error (wake_serial l) t = Some w ->
  exists w0, nth_error l t = Some w0 /\ w_slot w = w_slot w0 /\ active (w_pc w) = active (w_pc w0) /\
             (forall cfg0 j, Act cfg0 (w_pc w0) j -> Act cfg0 (w_pc w) j).
Proof.
  unfold wake_serial. rewrite nth_error_map. destruct (nth_error l t) as [w0|]; [|discriminate]. cbn. intros H; inversion H; subst; clear H.
  exists w0. split; auto.
  destruct w0 as [p k c sq lc]. destruct p; cbn; (split; [reflexivity|split; [reflexivity|]]); intros ? ? (A & B & C); repeat split; auto; apply C.
Qed.
Lemma wake_serial_nth' l t w0 : nth_error l t = Some w0 ->
  exists w, nth_error (wake_serial l) t = Some w /\ w_slot w = w_slot w0 /\ active (w_pc w) = active (w_pc w0).
Proof.
  intros H. unfold wake_serial. rewrite nth_error_map, H. cbn. eexists; split; [reflexivity|].
  destruct (w_pc w0) eqn:E; cbn; rewrite ?E; auto.
Qed.

Lemma kinv_wake_serial cfg s : KInv cfg s -> KInv cfg (set_ws (wake_serial (ws s)) s).
Proof.
  intros K. constructor; cbn [mt jobs ws pl cl set_ws].
  - exact (k_len _ _ K).
  - exact (k_rng _ _ K).
  - exact (k_ids _ _ K).
  - intros t w H A. destruct (wake_serial_nth _ _ _ H) as (w0 & H0 & E1 & E2 & E3).
    rewrite E2 in A. destruct (k_wrk _ _ K t w0 H0 A) as (i & Hi & Hk & Hact). exists i. rewrite E1. split; [exact Hi|split; [exact Hk|apply E3; exact Hact]].
  - exact (k_que _ _ K).
  - intros t1 t2 w1 w2 H1 H2 A1 A2 E.
    destruct (wake_serial_nth _ _ _ H1) as (w10 & H10 & E11 & E12 & _). destruct (wake_serial_nth _ _ _ H2) as (w20 & H20 & E21 & E22 & _).
    eapply (k_uniq _ _ K); [exact H10|exact H20|congruence|congruence|congruence].
  - intros t w k H A Hq. destruct (wake_serial_nth _ _ _ H) as (w0 & H0 & E1 & E2 & _). rewrite E1. eapply (k_uq _ _ K); [exact H0|congruence|exact Hq].
  - intros i Hi Hd. destruct (k_own _ _ K i Hi Hd) as [Ho|(t & w0 & H0 & A0 & E0)]; [left; auto|].
    destruct (wake_serial_nth' _ _ _ H0) as (w & H & E1 & E2). right. exists t, w. cbn [ws set_ws]. split; auto. split; congruence.
  - exact (k_pc _ _ K).
Qed.

(* ------------------------------------------------------------------ *)
(* every step of a pool thread preserves the invariant                  *)

Lemma set_job_same s k : (k < length (jobs s))%nat -> set_job k (getj s k) s = s.
Proof. intros H. destruct s. unfold set_job, set_jobs, getj. cbn in *. rewrite upd_same by auto. reflexivity. Qed.

Lemma kinv_act0 cfg s t w w' :
  KInv cfg s -> nth_error (ws s) t = Some w -> active (w_pc w) = true -> active (w_pc w') = true -> w_slot w' = w_slot w ->
  (forall j, Act cfg (w_pc w) j -> Act cfg (w_pc w') j) ->
  KInv cfg (set_w t w' s).
Proof.
  intros K Hw Ha Ha' Hs Hact.
  destruct (k_wrk _ _ K t w Hw Ha) as (i & Hi & Hk & Hact0).
  assert (Hkl : (w_slot w < length (jobs s))%nat) by (rewrite Hk, (k_len _ _ K); apply slot_lt).
  rewrite <- (set_job_same s (w_slot w) Hkl) at 1. eapply kinv_act; eauto.
Qed.

Lemma act_nochunk cfg p p' j : Act cfg p j -> match p' with WChunk _ => False | _ => True end -> Act cfg p' j.
Proof. intros (A & B & C) H. repeat split; auto. destruct p'; auto; contradiction. Qed.

Lemma nb_chunks_lt cfg c size : 0 < c_chunk cfg -> c < nb_chunks cfg size -> c_chunk cfg * c < size.
Proof.
  unfold nb_chunks. intros H0 H. pose proof (N.div_mod (size + (c_chunk cfg - 1)) (c_chunk cfg)).
  pose proof (N.mod_lt (size + (c_chunk cfg - 1)) (c_chunk cfg)). nia.
Qed.

Lemma next_chunk_props cfg w j p c :
  1 <= c ->
  let w' := next_chunk cfg w j p c in
  w_slot w' = w_slot w /\ active (w_pc w') = true /\
  (forall j', j_size j' = j_size j -> j_done j' = false ->
     (j_consumed j' < j_size j' \/ (j_size j' = 0 /\ j_csize j' = 0 /\ j_ckneed j' = false)) -> Act cfg (w_pc w') j').
Proof.
  intros Hc. unfold next_chunk, last_block.
  destruct (c <? nb_chunks cfg (j_size j)) eqn:E.
  - apply N.ltb_lt in E. destruct (err_is p (ErrChunk c)); cbn; repeat split; auto. rewrite H. exact E.
  - destruct ((0 <? nb_chunks cfg (j_size j)) || j_last j); [destruct (err_is p ErrLast)|]; cbn; repeat split; auto.
Qed.

Lemma wake_serial_self l t w : nth_error l t = Some w -> w_pc w <> WSerialZ -> nth_error (wake_serial l) t = Some w.
Proof.
  intros H Hp. unfold wake_serial. rewrite nth_error_map, H. cbn. destruct (w_pc w) eqn:E; try reflexivity. congruence.
Qed.

(* like kinv_act0, the Act obligation only for the job of the thread *)
Lemma kinv_act1 cfg s t w w' :
  KInv cfg s -> nth_error (ws s) t = Some w -> active (w_pc w) = true -> active (w_pc w') = true -> w_slot w' = w_slot w ->
  (Act cfg (w_pc w) (getj s (w_slot w)) -> Act cfg (w_pc w') (getj s (w_slot w))) ->
  KInv cfg (set_w t w' s).
Proof.
  intros K Hw Ha Ha' Hs Hact.
  destruct (k_wrk _ _ K t w Hw Ha) as (i & Hi & Hk & Hact0).
  assert (Hkl : (w_slot w < length (jobs s))%nat) by (rewrite Hk, (k_len _ _ K); apply slot_lt).
  rewrite <- (set_job_same s (w_slot w) Hkl) at 1. eapply kinv_act; eauto.
Qed.

Lemma set_w_wake_job cfg k t w' s : set_w t w' (wake_caller_job cfg k s) = wake_caller_job cfg k (set_w t w' s).
Proof.
  unfold wake_caller_job. cbn [cl set_w set_ws mt].
  destruct (c_pc (cl s)); try reflexivity; destruct (Nat.eqb _ _); reflexivity.
Qed.

Lemma kinv_worker_step cfg t s s' : 0 < c_chunk cfg -> KInv cfg s -> worker_step cfg t s = Some s' -> KInv cfg s'.
Proof.
  intros Hch K H. unfold worker_step in H.
  destruct (nth_error (ws s) t) as [w|] eqn:Hw; [|discriminate].
  destruct (w_pc w) eqn:Epc; try discriminate.
  - (* WIdle *)
    destruct (q (pl s)) as [sl|] eqn:Eq.
    + destruct (Nat.leb (c_nbw cfg) (busy (pl s))); inv_some H.
      * apply kinv_inact with (w := w); auto; rewrite ?Epc; reflexivity.
      * eapply kinv_pop with (w := w) (k := sl); eauto; rewrite ?Epc; reflexivity.
    + inv_some H. apply kinv_inact with (w := w); auto; rewrite ?Epc; reflexivity.
  - (* WGetCCtx *)
    inv_some H. apply kinv_act0 with (w := w); try apply kinv_set_pl; auto; rewrite ?Epc; try reflexivity.
    + destruct (sp_on (pl s)); [reflexivity|]. unfold after_getseq; cbn. destruct (_ || _); reflexivity.
    + destruct (sp_on (pl s)); [reflexivity|]. unfold after_getseq; cbn. destruct (_ || _); reflexivity.
    + intros j Hj. eapply act_nochunk; eauto. destruct (sp_on (pl s)); cbn; auto. unfold after_getseq; cbn. destruct (_ || _); cbn; auto.
  - (* WGetSeq *)
    inv_some H. apply kinv_act0 with (w := w); try apply kinv_set_pl; auto; rewrite ?Epc; try reflexivity.
    + unfold after_getseq; cbn. destruct (w_cctx w); reflexivity.
    + unfold after_getseq; cbn. destruct (w_cctx w); reflexivity.
    + intros j Hj. eapply act_nochunk; eauto. unfold after_getseq; cbn. destruct (w_cctx w); cbn; auto.
  - (* WGetBuf *)
    assert (K1 : KInv cfg (set_pl (pl_bp (take (bp_nb (pl s))) (pl s)) s)) by (apply kinv_set_pl; auto).
    destruct (negb _); inv_some H; (apply kinv_act0 with (w := w); auto; rewrite ?Epc; try reflexivity;
      intros j Hj; eapply act_nochunk; eauto; cbn; auto).
  - (* WSetDst *)
    destruct (k_wrk _ _ K t w Hw) as (i & Hi & Hk & Hact0); [rewrite Epc; reflexivity|].
    assert (Hj : forall p', match p' with WChunk _ => False | _ => True end ->
                 Act cfg p' (j_set_dst true (getj s (w_slot w)))).
    { intros p' Hp'. destruct Hact0 as (A & B & C). repeat split; auto. destruct p'; auto; contradiction. }
    repeat match type of H with (if ?b then _ else _) = _ => destruct b end; inv_some H;
    (eapply kinv_act with (w := w); eauto; rewrite ?Epc; try reflexivity; apply Hj; cbn; auto).
  - (* WJobErr *)
    destruct (k_wrk _ _ K t w Hw) as (i & Hi & Hk & Hact0); [rewrite Epc; reflexivity|].
    inv_some H. eapply kinv_act with (w := w); eauto; rewrite ?Epc; try reflexivity.
    destruct Hact0 as (A & B & C). repeat split; auto.
  - (* WSerial *)
    destruct (_ <? _).
    + inv_some H. apply kinv_act0 with (w := w); auto; rewrite ?Epc; try reflexivity.
      intros j Hj. eapply act_nochunk; eauto. cbn; auto.
    + destruct (negb _).
      { (* the turn was skipped by a failed later job *)
        inv_some H. apply kinv_act1 with (w := w); auto; rewrite ?Epc; try reflexivity.
        * unfold after_serial. match goal with |- context[if ?b then _ else _] => destruct b end; [reflexivity|]. apply next_chunk_props; lia.
        * unfold after_serial. match goal with |- context[if ?b then _ else _] => destruct b end; [reflexivity|]. apply next_chunk_props; lia.
        * intros Hj.
          unfold after_serial. match goal with |- context[if ?b then _ else _] => destruct b end; [eapply act_nochunk; eauto; cbn; auto|].
          destruct Hj as (A & B & C). apply next_chunk_props; auto; lia. }
      inv_some H.
      match goal with |- KInv cfg (set_w t ?w' ?s2) =>
        assert (K2 : KInv cfg s2 /\ nth_error (ws s2) t = Some w /\ (forall k0, getj s2 k0 = getj s k0)) end.
      { destruct (_ && ldm (mt s)).
        - split; [apply kinv_wake_ldm, kinv_set_sr, kinv_wake_serial; auto|].
          match goal with |- nth_error (ws (wake_caller_ldm ?x)) _ = _ /\ _ =>
            destruct (wake_ldm_proj x) as (_ & Ej & _ & _ & Ew & _); rewrite Ew end.
          split; [|intros k0; unfold getj at 1; rewrite Ej; reflexivity].
          cbn [ws jobs set_sr set_ws]. apply wake_serial_self; auto. rewrite Epc; discriminate.
        - split; [apply kinv_set_sr, kinv_wake_serial; auto|]. split; [|intros k0; reflexivity]. cbn [ws jobs set_sr set_ws].
          apply wake_serial_self; auto. rewrite Epc; discriminate. }
      destruct K2 as (K2 & Hw2 & Hj2).
      apply kinv_act1 with (w := w); auto; rewrite ?Epc; try reflexivity.
      * unfold after_serial. match goal with |- context[if ?b then _ else _] => destruct b end; [reflexivity|]. apply next_chunk_props; lia.
      * unfold after_serial. match goal with |- context[if ?b then _ else _] => destruct b end; [reflexivity|]. apply next_chunk_props; lia.
      * rewrite (Hj2 (w_slot w)). intros Hj.
        unfold after_serial. match goal with |- context[if ?b then _ else _] => destruct b end; [eapply act_nochunk; eauto; cbn; auto|].
        destruct Hj as (A & B & C). apply next_chunk_props; auto; lia.
  - (* WChunk *)
    destruct (k_wrk _ _ K t w Hw) as (i & Hi & Hk & Hact0); [rewrite Epc; reflexivity|].
    inv_some H. rewrite set_w_wake_job. apply kinv_wake_job.
    rewrite Epc in Hact0. destruct Hact0 as (A & B & C1 & C2).
    pose proof (nb_chunks_lt cfg k (j_size (getj s (w_slot w))) Hch C2) as Hlt.
    eapply kinv_act with (w := w); eauto; rewrite ?Epc; try reflexivity.
    + apply next_chunk_props; lia.
    + apply next_chunk_props; lia.
    + apply next_chunk_props; try lia; cbn; auto.
  - (* WEnsure *)
    inv_some H.
    match goal with |- KInv cfg (set_w t ?w' ?s2) =>
      assert (K2 : KInv cfg s2 /\ nth_error (ws s2) t = Some w) end.
    { destruct (_ <=? _).
      - split; [apply kinv_wake_ldm, kinv_set_sr, kinv_wake_serial; auto|].
        match goal with |- nth_error (ws (wake_caller_ldm ?x)) _ = _ =>
          destruct (wake_ldm_proj x) as (_ & _ & _ & _ & Ew & _); rewrite Ew end.
        cbn [ws set_sr set_ws]. apply wake_serial_self; auto. rewrite Epc; discriminate.
      - split; auto. }
    destruct K2 as (K2 & Hw2).
    apply kinv_act0 with (w := w); auto; rewrite ?Epc; try reflexivity.
    + unfold after_ensure. destruct (w_seq w); [reflexivity|]. destruct (w_cctx w); reflexivity.
    + unfold after_ensure. destruct (w_seq w); [reflexivity|]. destruct (w_cctx w); reflexivity.
    + intros j Hj. eapply act_nochunk; eauto. unfold after_ensure. destruct (w_seq w); cbn; auto. destruct (w_cctx w); cbn; auto.
  - (* WRelSeq *)
    inv_some H. apply kinv_act0 with (w := w); try apply kinv_set_pl; auto; rewrite ?Epc; try reflexivity.
    + destruct (w_cctx w); reflexivity.
    + destruct (w_cctx w); reflexivity.
    + intros j Hj. eapply act_nochunk; eauto. destruct (w_cctx w); cbn; auto.
  - (* WRelCCtx *)
    inv_some H. apply kinv_act0 with (w := w); try apply kinv_set_pl; auto; rewrite ?Epc; try reflexivity.
    intros j Hj. eapply act_nochunk; eauto. cbn; auto.
  - (* WReport *)
    inv_some H. rewrite set_w_wake_job. apply kinv_wake_job.
    eapply kinv_rep with (w := w); eauto; rewrite ?Epc; reflexivity.
  - (* WFinish *)
    inv_some H. apply kinv_inact with (w := w); try apply kinv_set_pl; auto; rewrite ?Epc; reflexivity.
Qed.
