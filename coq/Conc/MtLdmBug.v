(* C11: the zstdmt protocol BEFORE the repair of findings C11-ldm-wait-after-worker-error and C11-serial-turn-skipped-after-error
   (fix e0108a3) deadlocks: a concrete configuration, call program, payload oracle and schedule after which every thread is asleep.
   [step_old] differs from MtModel.step in the two places the repair touched:
   - ZSTDMT_serialState_update advanced serial.nextJobID (and broadcast) also when the job's turn had been skipped by a failed later job;
   - ZSTDMT_serialState_ensureFinished cleared only the published copy ldmWindow, not ldmState.window. *)
From Coq Require Import List NArith Bool Arith.
Import ListNotations.
From ZV.Conc Require Import Sched MtModel MtRingC MtGeo.
Local Open Scope N_scope.

Definition worker_step_old (cfg : config) (t : nat) (s : state) : option state :=
  match nth_error (ws s) t with
  | None => None
  | Some w =>
    let k := w_slot w in let jb := getj s k in let py := job_pay cfg s jb in
    match w_pc w with
    | WSerial =>
        let r := sr s in
        if s_next r <? j_id jb then Some (set_w t (w_set_pc WSerialZ w) s)
        else
          let mine := s_next r =? j_id jb in
          let dol := mine && ldm (mt s) in
          let w1 := if dol then win_cap (wsize (mt s)) (win_update (s_w r) (j_src jb) (j_size jb)) else s_w r in
          let r1 := mkSer (s_next r + 1) (if mine then s_log r ++ [(j_id jb, j_abs jb, j_size jb)] else s_log r) (s_skip r)
                          w1 (if dol then w1 else s_lw r) in
          let s1 := set_sr r1 (set_ws (wake_serial (ws s)) s) in
          let s2 := if dol then wake_caller_ldm s1 else s1 in
          Some (set_w t (after_serial cfg w jb py) s2)
    | WEnsure =>
        let r := sr s in
        let s1 := if s_next r <=? j_id jb
                  then wake_caller_ldm (set_sr (mkSer (j_id jb + 1) (s_log r) true (s_w r) (win_clear (s_lw r))) (set_ws (wake_serial (ws s)) s))
                  else s in
        Some (set_w t (after_ensure w) s1)
    | _ => worker_step cfg t s
    end
  end.

Definition step_old (cfg : config) (tid w : nat) (s : state) : option state :=
  match tid with
  | O => caller_step cfg w s
  | S t => worker_step_old cfg t s
  end.

Definition stuck_old (cfg : config) (s : state) : bool :=
  negb (caller_done s) &&
  match filter (fun t => match step_old cfg t 0 s with Some _ => true | None => false end) (seq 0 (S (length (ws s)))) with [] => true | _ => false end.

(* ------------------------------------------------------------------ *)
(* the witness (found by a random search over the extracted model): 1 pool thread, ring of 4 jobs, targetSectionSize 4, targetPrefixSize 0,
   LDM with windowSize 9; one job fails (ErrBuf); the application gives almost no output space, so the failed job is not noticed before the
   round buffer wraps into the stale window; 71 critical sections *)
Definition wcfg := mkCfg 1 2 100 1 [(1, 0, mkPay None [] 1 win0); (1, 1, mkPay None [] 1 win0); (1, 2, mkPay (Some ErrBuf) [] 1 win0); (1, 3, mkPay None [] 1 win0); (1, 4, mkPay None [] 1 win0); (1, 5, mkPay None [] 1 win0); (1, 6, mkPay None [] 1 win0); (1, 7, mkPay None [] 1 win0); (1, 8, mkPay None [] 1 win0); (1, 9, mkPay None [] 1 win0)].
Definition wops := [OpInit (mkFP 4 0 false true false [] 9); OpCS EContinue 4 6; OpCS EContinue 8 6; OpCS EFlush 11 0; OpCS EContinue 4 6; OpCS EContinue 2 1; OpCS EContinue 4 1; OpCS EContinue 3 6].
Definition wsched : list (nat * nat) := [(0, 0)%nat; (1, 0)%nat; (0, 0)%nat; (0, 0)%nat; (0, 0)%nat; (1, 0)%nat; (1, 0)%nat; (1, 0)%nat; (1, 0)%nat; (1, 0)%nat; (1, 0)%nat; (1, 0)%nat; (1, 0)%nat; (1, 0)%nat; (1, 0)%nat; (1, 0)%nat; (0, 0)%nat; (1, 0)%nat; (0, 0)%nat; (0, 0)%nat; (0, 0)%nat; (1, 0)%nat; (1, 0)%nat; (1, 0)%nat; (1, 0)%nat; (0, 0)%nat; (1, 0)%nat; (1, 0)%nat; (1, 0)%nat; (1, 0)%nat; (1, 0)%nat; (1, 0)%nat; (1, 0)%nat; (1, 0)%nat; (0, 0)%nat; (0, 0)%nat; (0, 0)%nat; (1, 0)%nat; (1, 0)%nat; (1, 0)%nat; (1, 0)%nat; (1, 0)%nat; (1, 0)%nat; (0, 0)%nat; (1, 0)%nat; (1, 0)%nat; (1, 0)%nat; (1, 0)%nat; (0, 0)%nat; (1, 0)%nat; (0, 0)%nat; (0, 0)%nat; (0, 0)%nat; (1, 0)%nat; (0, 0)%nat; (1, 0)%nat; (1, 0)%nat; (1, 0)%nat; (1, 0)%nat; (1, 0)%nat; (1, 0)%nat; (1, 0)%nat; (1, 0)%nat; (1, 0)%nat; (1, 0)%nat; (1, 0)%nat; (0, 0)%nat; (0, 0)%nat; (0, 0)%nat; (0, 0)%nat; (0, 0)%nat].

Example old_protocol_deadlocks : stuck_old wcfg (run state (step_old wcfg) wsched (init wcfg wops)) = true.
Proof. vm_compute. reflexivity. Qed.

(* the same run of the repaired protocol is not stuck *)
Example repaired_protocol_runs : stuck wcfg (run state (step wcfg) wsched (init wcfg wops)) = false.
Proof. vm_compute. reflexivity. Qed.

Theorem old_protocol_refuted :
  exists cfg ops sched, 0 < c_chunk cfg /\ ops_ok ops /\ geo_ops ops /\ stuck_old cfg (run state (step_old cfg) sched (init cfg ops)) = true.
Proof.
  exists wcfg, wops, wsched. split; [reflexivity|]. split; [|split; [|exact old_protocol_deadlocks]].
  - unfold ops_ok, wops. repeat constructor.
  - unfold geo_ops, wops. repeat constructor; cbn; discriminate.
Qed.
